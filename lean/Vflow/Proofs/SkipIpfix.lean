import Vflow.Proofs.ShiftIpfix
/-!
# IPFIX: an undecodable set is skipped without any other effect

`setBytes sid body` is a set with id `sid` and body `body`.  It is *undecodable* when no template
`sid` is cached for the exporter (`sid > 255`) or when `sid` is reserved (`4 ≤ sid ≤ 255`).
`decodeSet_skips`: the decoder state changes only by the reader moving over the set.
`decodeSet_skips_unknownElem`: the same for a data set whose template names an element missing from the
information model.  `decodeSet_skips_noFields` (F30 repair): the same for a data set whose template has no
field specifier at all (installed from a template record with field count 0) — and, by the same code path,
for set id 1, which is decoded with the zero template.  (Set id 0 is *not* skipped: it ends the decode with
the fatal `invalidSet`.)
`outer_skips`: hence the outer loop continues on the rest as if the set were absent.
`outer_ext` (locality of a clean prefix) and `decode_skips` lift this to whole messages.
-/
namespace Vflow.Ipfix
open Vflow

/-- no template cached under this id, or a reserved set id -/
def Undecodable (c : Cache) (addr : Bytes) (sid : Nat) : Prop :=
  (sid > 255 ∧ c.lookup addr sid = none) ∨ (4 ≤ sid ∧ sid ≤ 255)

/-- the (non-fatal) error `decodeSet` reports for an undecodable set -/
def skipErr (sid : Nat) : Option Err := if sid > 255 then some .unknownTpl else none

theorem skipErr_nonfatal (sid : Nat) (e : Err) (h : skipErr sid = some e) : e.nonfatal = true := by
  unfold skipErr at h
  split at h
  · simp only [Option.some.injEq] at h; subst h; rfl
  · simp at h

/-- what NetFlow v9 treats as non-fatal, IPFIX does too -/
theorem nonfatalErr_of_nonfatal {e : Err} (h : e.nonfatal = true) : nonfatalErr e = true := by
  simp [nonfatalErr, h]

theorem nonfatalErr_emptyRec : nonfatalErr .emptyRec = true := rfl

/-- the leftover skip moves over exactly `x` when `x` is what is left of the set -/
theorem skipRest_rem (ctx : Ctx) (x rest : Bytes) (c2 : Nat) (cache : Cache) (recs : List Record)
    (e1 : Option Err)
    (hl : (ctx.len + 65536 - consumed16 ctx ⟨x ++ rest, c2⟩) % 65536 = x.length) :
    skipRest ctx ⟨⟨x ++ rest, c2⟩, cache, recs⟩ e1 = (⟨⟨rest, c2 + x.length⟩, cache, recs⟩, e1) := by
  simp only [skipRest, hl]
  by_cases hb : x.length > 0
  · rw [if_pos hb, readN_append]
  · rw [if_neg hb]
    have : x = [] := List.eq_nil_of_length_eq_zero (by omega)
    subst this; rfl

/-- the leftover skip, started right after the set header, moves over exactly the body -/
theorem skipRest_body (ctx : Ctx) (body rest : Bytes) (c2 : Nat) (cache : Cache) (recs : List Record)
    (e1 : Option Err) (hlen : ctx.len = 4 + body.length) (hlt : 4 + body.length < 65536)
    (hst : c2 = ctx.start + 4) :
    skipRest ctx ⟨⟨body ++ rest, c2⟩, cache, recs⟩ e1 = (⟨⟨rest, c2 + body.length⟩, cache, recs⟩, e1) :=
  skipRest_rem ctx body rest c2 cache recs e1 (by simp only [consumed16, hlen, hst]; omega)

theorem setLoop_reserved (ctx : Ctx) (fuel : Nat) (st : St) (h : 4 ≤ ctx.setId ∧ ctx.setId ≤ 255) :
    setLoop ctx (fuel + 1) st = (st, none, false) := by
  have h23 : ¬ (ctx.setId = 2 ∨ ctx.setId = 3) := by omega
  simp only [setLoop, if_neg h23, if_pos h, ite_self]

/-- **skip, one set**: on an undecodable set followed by `rest`, `decodeSet` only moves the reader to
`rest` (count advanced by the set length); cache and records are untouched and the error slot holds
the non-fatal `unknownTpl` (`sid > 255`) or nothing (reserved id).  Needs `fuel > 0` (the outer loop
always supplies `remaining + 1`) and a set that is encodable (`sid`, `4 + |body|` fit in 16 bits). -/
theorem decodeSet_skips (addr : Bytes) (fuel : Nat) (st : St) (sid : Nat) (body rest : Bytes)
    (hsid : sid < 65536) (hlen : 4 + body.length < 65536) (hfuel : 0 < fuel)
    (hrem : st.r.rem = setBytes sid body ++ rest) (hu : Undecodable st.cache addr sid) :
    decodeSet addr fuel st =
      ({ st with r := ⟨rest, st.r.cnt + (setBytes sid body).length⟩ }, skipErr sid) := by
  obtain ⟨⟨rem, cnt⟩, cache, recs⟩ := st
  simp only at hrem hu ⊢
  subst hrem
  obtain ⟨fuel', rfl⟩ : ∃ f, fuel = f + 1 := ⟨fuel - 1, by omega⟩
  have hcnt : cnt + (setBytes sid body).length = cnt + 2 + 2 + body.length := by
    rw [setBytes_length]; omega
  rw [hcnt]
  simp only [decodeSet, setBytes, List.append_assoc, rU16_be16 _ _ _ hsid, rU16_be16 _ _ _ hlen]
  rw [if_neg (by omega)]
  simp only [setBody, lookupTpl]
  by_cases hbig : sid > 255
  · have hnone : cache.lookup addr sid = none := by
      rcases hu with h | h
      · exact h.2
      · omega
    simp only [if_pos hbig, hnone, skipErr]
    exact skipRest_body _ body rest _ cache recs _ rfl hlen rfl
  · have h4 : 4 ≤ sid := by
      rcases hu with h | h
      · omega
      · exact h.1
    simp only [if_neg hbig, Option.getD_none]
    rw [setLoop_reserved _ _ _ (by simp only; omega)]
    simp only [skipErr, if_neg hbig, Bool.false_eq_true, if_false]
    exact skipRest_body _ body rest _ cache recs _ rfl hlen rfl

theorem dataLen_total (specLen : Nat) (r : Rd) (res : Except Err Nat) (r' : Rd)
    (h : dataLen r specLen = (res, r')) :
    r'.cnt + r'.rem.length = r.cnt + r.rem.length ∧ r.cnt ≤ r'.cnt := by
  simp only [dataLen] at h
  split at h
  · split at h
    · simp only [Prod.mk.injEq] at h; rw [← h.2]; omega
    · rename_i l8 r1 h1
      have t1 := rU8_total h1
      split at h
      · split at h
        · simp only [Prod.mk.injEq] at h; rw [← h.2]; exact t1
        · rename_i l r2 h2
          have t2 := rU16_total h2
          simp only [Prod.mk.injEq] at h; rw [← h.2]; omega
      · simp only [Prod.mk.injEq] at h; rw [← h.2]; exact t1
  · simp only [Prod.mk.injEq] at h; rw [← h.2]; omega

/-- the record decoder never changes `count + remaining` and never moves the count back -/
theorem decFields_total (fs : List Spec) : ∀ (acc : Record) (r : Rd) (res : Except Err Record) (r' : Rd),
    decFields fs r acc = (res, r') → r'.cnt + r'.rem.length = r.cnt + r.rem.length ∧ r.cnt ≤ r'.cnt := by
  induction fs with
  | nil => intro acc r res r' h; simp only [decFields_nil, Prod.mk.injEq] at h; rw [← h.2]; omega
  | cons x xs ih =>
    intro acc r res r' h
    simp only [decFields_cons] at h
    split at h
    · simp only [Prod.mk.injEq] at h; rw [← h.2]; omega
    · rename_i fid ty hk
      generalize hp : dataLen r x.len = p at h
      obtain ⟨res0, r1⟩ := p
      have t1 := dataLen_total _ _ _ _ hp
      cases res0 with
      | error e => simp only [Prod.mk.injEq] at h; rw [← h.2]; exact t1
      | ok n =>
        simp only at h
        split at h
        · simp only [Prod.mk.injEq] at h; rw [← h.2]; exact t1
        · rename_i b r2 h2
          have t2 := readN_total h2
          have t3 := ih _ _ _ _ h
          omega

theorem decodeData_total (t : Template) (r : Rd) (res : Except Err Record) (r' : Rd)
    (h : decodeData t r = (res, r')) :
    r'.cnt + r'.rem.length = r.cnt + r.rem.length ∧ r.cnt ≤ r'.cnt := by
  simp only [decodeData] at h
  generalize hp : decFields (t.scope ++ t.fields) r [] = p at h
  obtain ⟨res0, r1⟩ := p
  have t1 := decFields_total _ _ _ _ _ hp
  cases res0 with
  | error e => simp only [Prod.mk.injEq] at h; rw [← h.2]; exact t1
  | ok fs =>
    simp only at h
    split at h <;> (simp only [Prod.mk.injEq] at h; rw [← h.2]; exact t1)

/-- **skip, one set, element missing from the information model**: a data set whose template `t` is
cached, with a body of at least the shortest record (`minRecLen t` octets: the record loop is entered) on
which the record decoder (run on the body alone) stops with `unknownElem`, is skipped like an undecodable
one, in front of any `rest`. -/
theorem decodeSet_skips_unknownElem (addr : Bytes) (fuel : Nat) (st : St) (sid : Nat) (body rest : Bytes)
    (t : Template) (r1 : Rd)
    (hsid : sid < 65536) (hlen : 4 + body.length < 65536) (hfuel : 0 < fuel)
    (hrem : st.r.rem = setBytes sid body ++ rest)
    (hbig : sid > 255) (hlook : st.cache.lookup addr sid = some t) (hbody : body.length ≥ minRecLen t)
    (hdec : decodeData t ⟨body, st.r.cnt + 4⟩ = (.error .unknownElem, r1)) :
    decodeSet addr fuel st =
      ({ st with r := ⟨rest, st.r.cnt + (setBytes sid body).length⟩ }, some .unknownElem) := by
  obtain ⟨⟨rem, cnt⟩, cache, recs⟩ := st
  simp only at hrem hlook hdec ⊢
  subst hrem
  obtain ⟨fuel', rfl⟩ : ∃ f, fuel = f + 1 := ⟨fuel - 1, by omega⟩
  have hcnt : cnt + (setBytes sid body).length = cnt + 2 + 2 + body.length := by
    rw [setBytes_length]; omega
  rw [hcnt]
  simp only [decodeSet, setBytes, List.append_assoc, rU16_be16 _ _ _ hsid, rU16_be16 _ _ _ hlen]
  rw [if_neg (by omega)]
  simp only [setBody, lookupTpl, if_pos hbig, hlook, Option.getD_some]
  have hext : Ext rest ⟨body, cnt + 4⟩ ⟨body ++ rest, cnt + 2 + 2⟩ := ⟨rfl, rfl⟩
  obtain ⟨f', hf', he'⟩ : ∃ f', decodeData t ⟨body ++ rest, cnt + 2 + 2⟩ = (.error .unknownElem, f') ∧
      Ext rest r1 f' := by
    rcases decodeData_mono t rest _ _ hext _ _ hdec with hs | h
    · simp at hs
    · exact h
  have htot := decodeData_total _ _ _ _ hdec
  simp only at htot
  have hloop : setLoop ⟨addr, sid, 4 + body.length, cnt, t⟩ (fuel' + 1) ⟨⟨body ++ rest, cnt + 2 + 2⟩, cache, recs⟩ =
      (⟨f', cache, recs⟩, some .unknownElem, false) := by
    have hcc : contCond ⟨addr, sid, 4 + body.length, cnt, t⟩ ⟨body ++ rest, cnt + 2 + 2⟩ = true := by
      have hco : consumed16 ⟨addr, sid, 4 + body.length, cnt, t⟩ ⟨body ++ rest, cnt + 2 + 2⟩ = 4 := by
        simp only [consumed16]; omega
      have hpos : 1 ≤ minRecLen t := by unfold minRecLen; simp only; split <;> omega
      unfold contCond minLeft
      rw [hco, if_pos hbig]
      have h1 : 4 + body.length > 4 := by omega
      have h2 : (body ++ rest).length ≥ minRecLen t := by simp only [List.length_append]; omega
      have h3 : (4 + body.length + 65536 - 4) % 65536 ≥ minRecLen t := by omega
      simp only [decide_eq_true h1, decide_eq_true h2, decide_eq_true h3, Bool.and_self]
    have h23 : ¬ (sid = 2 ∨ sid = 3) := by omega
    have hres : ¬ (4 ≤ sid ∧ sid ≤ 255) := by omega
    have hz : ¬ sid = 0 := by omega
    simp only [setLoop, hcc, if_true, if_neg h23, if_neg hres, if_neg hz, hf',
      show nonfatalErr Err.unknownElem = true from rfl]
  rw [hloop]
  simp only [Bool.false_eq_true, if_false]
  obtain ⟨frem, fcnt⟩ := f'
  obtain ⟨hc1, hr1⟩ := he'
  simp only at hc1 hr1
  subst hr1
  have := skipRest_rem ⟨addr, sid, 4 + body.length, cnt, t⟩ r1.rem rest fcnt cache recs (some .unknownElem)
    (by simp only [consumed16]; omega)
  rw [this]
  have : fcnt + r1.rem.length = cnt + 2 + 2 + body.length := by omega
  rw [this]

/-! ## A data set for a template without fields (F30 repair) -/

/-- the set is decoded with a template that has no field specifier: the template cached under `sid > 255` has
neither scope nor field specifiers (installed from a template record with field count 0 — the withdrawal format
of RFC 7011 §8.1 — that was followed by other octets in its set), or `sid = 1`, which takes the data-set path
with the zero template -/
def NoFields (c : Cache) (addr : Bytes) (sid : Nat) : Prop :=
  (sid > 255 ∧ ∃ t, c.lookup addr sid = some t ∧ t.scope = [] ∧ t.fields = []) ∨ sid = 1

/-- the error `decodeSet` reports for such a set: "failed to decodeData" (non-fatal since the F30 repair) if the
record loop is entered — a body of at least one octet (`minRecordLen` of a template without fields is 1), of at
least 5 octets for set id 1 (`minLen` stays 5) — and nothing otherwise -/
def emptyErr (sid : Nat) (body : Bytes) : Option Err :=
  if body.length ≥ (if sid > 255 then 1 else 5) then some .emptyRec else none

theorem emptyErr_nonfatal (sid : Nat) (body : Bytes) (e : Err) (h : emptyErr sid body = some e) :
    nonfatalErr e = true := by
  unfold emptyErr at h
  by_cases hb : body.length ≥ (if sid > 255 then 1 else 5)
  · rw [if_pos hb] at h; simp only [Option.some.injEq] at h; subst h; rfl
  · rw [if_neg hb] at h; simp at h

/-- the loop condition right after the set header of a set that is entirely present -/
theorem contCond_start (ctx : Ctx) (body rest : Bytes) (c2 : Nat) (hlen : ctx.len = 4 + body.length)
    (hlt : 4 + body.length < 65536) (hst : c2 = ctx.start + 4) (hm : 1 ≤ minLeft ctx) :
    contCond ctx ⟨body ++ rest, c2⟩ = decide (body.length ≥ minLeft ctx) := by
  have hco : consumed16 ctx ⟨body ++ rest, c2⟩ = 4 := by simp only [consumed16, hst]; omega
  unfold contCond
  rw [hco, hlen]
  by_cases hb : body.length ≥ minLeft ctx
  · have h1 : 4 + body.length > 4 := by omega
    have h2 : (body ++ rest).length ≥ minLeft ctx := by simp only [List.length_append]; omega
    have h3 : (4 + body.length + 65536 - 4) % 65536 ≥ minLeft ctx := by omega
    simp only [decide_eq_true h1, decide_eq_true h2, decide_eq_true h3, decide_eq_true hb, Bool.and_self]
  · have h3 : ¬ (4 + body.length + 65536 - 4) % 65536 ≥ minLeft ctx := by omega
    simp only [decide_eq_false h3, decide_eq_false hb, Bool.and_false]

/-- the record loop with a template without fields: one look at the loop condition, then "failed to decodeData"
without an octet read -/
theorem setLoop_noFields (ctx : Ctx) (fuel : Nat) (st : St) (hs : ctx.tr.scope = []) (hf : ctx.tr.fields = [])
    (hid : ctx.setId = 1 ∨ ctx.setId > 255) :
    setLoop ctx (fuel + 1) st =
      if contCond ctx st.r then (st, some .emptyRec, false) else (st, none, false) := by
  have h23 : ¬ (ctx.setId = 2 ∨ ctx.setId = 3) := by omega
  have hres : ¬ (4 ≤ ctx.setId ∧ ctx.setId ≤ 255) := by omega
  have hz : ¬ ctx.setId = 0 := by omega
  have hd : decodeData ctx.tr st.r = (.error .emptyRec, st.r) := by
    simp only [decodeData, hs, hf, List.append_nil, decFields_nil, List.isEmpty_nil, if_true]
  simp only [setLoop, if_neg h23, if_neg hres, if_neg hz, hd, nonfatalErr_emptyRec, if_true]

/-- **skip, one set, template without fields** (F30 repair): a data set whose template has no field specifier —
or a set with id 1 — followed by any `rest` is skipped like an undecodable one: the decoder state changes only
by the reader moving over the set; the error slot holds the non-fatal `emptyRec` (or nothing, when the body is
too short for the record loop to be entered).  Any body. -/
theorem decodeSet_skips_noFields (addr : Bytes) (fuel : Nat) (st : St) (sid : Nat) (body rest : Bytes)
    (hsid : sid < 65536) (hlen : 4 + body.length < 65536) (hfuel : 0 < fuel)
    (hrem : st.r.rem = setBytes sid body ++ rest) (hn : NoFields st.cache addr sid) :
    decodeSet addr fuel st =
      ({ st with r := ⟨rest, st.r.cnt + (setBytes sid body).length⟩ }, emptyErr sid body) := by
  obtain ⟨⟨rem, cnt⟩, cache, recs⟩ := st
  simp only at hrem hn ⊢
  subst hrem
  obtain ⟨fuel', rfl⟩ : ∃ f, fuel = f + 1 := ⟨fuel - 1, by omega⟩
  have hcnt : cnt + (setBytes sid body).length = cnt + 2 + 2 + body.length := by
    rw [setBytes_length]; omega
  rw [hcnt]
  simp only [decodeSet, setBytes, List.append_assoc, rU16_be16 _ _ _ hsid, rU16_be16 _ _ _ hlen]
  rw [if_neg (by omega)]
  simp only [setBody, lookupTpl]
  have hfin : ∀ tr : Template, tr.scope = [] → tr.fields = [] →
      minLeft ⟨addr, sid, 4 + body.length, cnt, tr⟩ = (if sid > 255 then 1 else 5) → (sid = 1 ∨ sid > 255) →
      (if (setLoop ⟨addr, sid, 4 + body.length, cnt, tr⟩ (fuel' + 1)
            ⟨⟨body ++ rest, cnt + 2 + 2⟩, cache, recs⟩).2.2 = true then
          ((setLoop ⟨addr, sid, 4 + body.length, cnt, tr⟩ (fuel' + 1)
              ⟨⟨body ++ rest, cnt + 2 + 2⟩, cache, recs⟩).1,
           (setLoop ⟨addr, sid, 4 + body.length, cnt, tr⟩ (fuel' + 1)
              ⟨⟨body ++ rest, cnt + 2 + 2⟩, cache, recs⟩).2.1)
        else skipRest ⟨addr, sid, 4 + body.length, cnt, tr⟩
          (setLoop ⟨addr, sid, 4 + body.length, cnt, tr⟩ (fuel' + 1)
              ⟨⟨body ++ rest, cnt + 2 + 2⟩, cache, recs⟩).1
          (setLoop ⟨addr, sid, 4 + body.length, cnt, tr⟩ (fuel' + 1)
              ⟨⟨body ++ rest, cnt + 2 + 2⟩, cache, recs⟩).2.1) =
        (⟨⟨rest, cnt + 2 + 2 + body.length⟩, cache, recs⟩, emptyErr sid body) := by
    intro tr hsc hfl hml hidc
    rw [setLoop_noFields _ _ _ hsc hfl hidc]
    have hm1 : 1 ≤ minLeft ⟨addr, sid, 4 + body.length, cnt, tr⟩ := by rw [hml]; split <;> omega
    simp only
    rw [contCond_start _ body rest _ rfl hlen rfl hm1, hml]
    unfold emptyErr
    by_cases hb : body.length ≥ (if sid > 255 then 1 else 5)
    · simp only [decide_eq_true hb, if_true, if_pos hb, Bool.false_eq_true, if_false]
      exact skipRest_body _ body rest _ cache recs _ rfl hlen rfl
    · simp only [decide_eq_false hb, Bool.false_eq_true, if_false, if_neg hb]
      exact skipRest_body _ body rest _ cache recs _ rfl hlen rfl
  rcases hn with ⟨hbig, t, hlook, h1, h2⟩ | h1
  · simp only [if_pos hbig, hlook, Option.getD_some]
    refine hfin t h1 h2 ?_ (Or.inr hbig)
    simp only [minLeft, if_pos hbig, minRecLen, h1, h2, List.append_nil, List.map_nil, List.sum_nil]
    rfl
  · subst h1
    have hnb : ¬ 1 > 255 := by omega
    simp only [if_neg hnb, Option.getD_none]
    refine hfin emptyTpl rfl rfl ?_ (Or.inl rfl)
    simp only [minLeft]; rw [if_neg hnb, if_neg hnb]

/-- `u` is *skipped* at cache `c` with error slot `e`: it is a whole set (at least the 4-octet
header), `e` is not a fatal error, and in front of any `rest`, at any count, with any records
accumulated, `decodeSet` only moves the reader over `u`. -/
structure Skipped (addr : Bytes) (c : Cache) (u : Bytes) (e : Option Err) : Prop where
  nonfatal : ∀ x, e = some x → nonfatalErr x = true
  len : 4 ≤ u.length
  run : ∀ (fuel k : Nat) (recs : List Record) (rest : Bytes), 0 < fuel →
    decodeSet addr fuel ⟨⟨u ++ rest, k⟩, c, recs⟩ = (⟨⟨rest, k + u.length⟩, c, recs⟩, e)

theorem skipped_of_undecodable (addr : Bytes) (c : Cache) (sid : Nat) (body : Bytes)
    (hsid : sid < 65536) (hlen : 4 + body.length < 65536) (hu : Undecodable c addr sid) :
    Skipped addr c (setBytes sid body) (skipErr sid) where
  nonfatal := fun x hx => nonfatalErr_of_nonfatal (skipErr_nonfatal sid x hx)
  len := by rw [setBytes_length]; omega
  run := fun fuel k recs rest hf =>
    decodeSet_skips addr fuel ⟨⟨setBytes sid body ++ rest, k⟩, c, recs⟩ sid body rest hsid hlen hf rfl hu

theorem skipped_of_noFields (addr : Bytes) (c : Cache) (sid : Nat) (body : Bytes)
    (hsid : sid < 65536) (hlen : 4 + body.length < 65536) (hn : NoFields c addr sid) :
    Skipped addr c (setBytes sid body) (emptyErr sid body) where
  nonfatal := emptyErr_nonfatal sid body
  len := by rw [setBytes_length]; omega
  run := fun fuel k recs rest hf =>
    decodeSet_skips_noFields addr fuel ⟨⟨setBytes sid body ++ rest, k⟩, c, recs⟩ sid body rest hsid hlen hf rfl hn

/-- the hypothesis on the record decoder may be stated at any count (`ShiftIpfix`) -/
theorem skipped_of_unknownElem (addr : Bytes) (c : Cache) (sid : Nat) (body : Bytes) (t : Template) (r1 : Rd)
    (hsid : sid < 65536) (hlen : 4 + body.length < 65536)
    (hbig : sid > 255) (hlook : c.lookup addr sid = some t) (hbody : body.length ≥ minRecLen t)
    (hdec : decodeData t ⟨body, 0⟩ = (.error .unknownElem, r1)) :
    Skipped addr c (setBytes sid body) (some .unknownElem) where
  nonfatal := fun x hx => by simp only [Option.some.injEq] at hx; subst hx; rfl
  len := by rw [setBytes_length]; omega
  run := fun fuel k recs rest hf => by
    have hsh := decodeData_shifts t (k + 4) ⟨body, 0⟩
    rw [hdec] at hsh
    simp only [Rd.shift, Nat.zero_add] at hsh
    exact decodeSet_skips_unknownElem addr fuel ⟨⟨setBytes sid body ++ rest, k⟩, c, recs⟩ sid body rest t _
      hsid hlen hf rfl hbig hlook hbody hsh

/-- **skip, outer loop**: with a skipped set in front (and more than 4 octets in all), the outer loop
spends one iteration on it and continues on `rest` with the same cache and records, the count
advanced, and the error slot appended to the non-fatal errors. -/
theorem outer_skips_gen (addr : Bytes) (fuel : Nat) (st : St) (errs : List Err) (u rest : Bytes)
    (e : Option Err) (hs : Skipped addr st.cache u e) (hrem : st.r.rem = u ++ rest)
    (hgt : u.length + rest.length > 4) :
    outer addr (fuel + 1) st errs =
      outer addr fuel { st with r := ⟨rest, st.r.cnt + u.length⟩ } (errs ++ e.toList) := by
  obtain ⟨⟨rem, cnt⟩, cache, recs⟩ := st
  simp only at hs hrem ⊢
  subst hrem
  have hl : (u ++ rest).length > 4 := by rw [List.length_append]; omega
  simp only [outer]
  rw [if_pos hl, hs.run _ _ _ _ (by omega)]
  cases e with
  | none => simp
  | some x => simp [hs.nonfatal x rfl]

/-- `outer_skips_gen` for an undecodable set -/
theorem outer_skips (addr : Bytes) (fuel : Nat) (st : St) (errs : List Err) (sid : Nat) (body rest : Bytes)
    (hsid : sid < 65536) (hlen : 4 + body.length < 65536)
    (hrem : st.r.rem = setBytes sid body ++ rest) (hu : Undecodable st.cache addr sid)
    (hgt : body.length + rest.length > 0) :
    outer addr (fuel + 1) st errs =
      outer addr fuel { st with r := ⟨rest, st.r.cnt + (setBytes sid body).length⟩ }
        (errs ++ (skipErr sid).toList) :=
  outer_skips_gen addr fuel st errs _ rest _ (skipped_of_undecodable addr st.cache sid body hsid hlen hu) hrem
    (by rw [setBytes_length]; omega)

/-- **skip, tail case**: when at most 4 octets remain the outer loop stops without looking at them
(so a 4-octet set at the very end is ignored, exactly as the empty rest would be) -/
theorem outer_tail (addr : Bytes) (fuel : Nat) (st : St) (errs : List Err) (h : st.r.rem.length ≤ 4) :
    outer addr (fuel + 1) st errs = (st, none, errs) := by
  simp only [outer]
  rw [if_neg (by omega)]

theorem outer_skips_tail (addr : Bytes) (fuel : Nat) (st : St) (errs : List Err) (sid : Nat)
    (hrem : st.r.rem = setBytes sid []) :
    outer addr (fuel + 1) st errs = (st, none, errs) :=
  outer_tail addr fuel st errs (by rw [hrem, setBytes_length]; simp)

/-! ## Fuel and error-list bookkeeping of the outer loop -/

/-- more fuel does not change a run that did not run out of fuel -/
theorem outer_fuel_mono (addr : Bytes) : ∀ (n : Nat) (st : St) (errs : List Err),
    (outer addr n st errs).2.1 ≠ some .fuel → ∀ m, n ≤ m → outer addr m st errs = outer addr n st errs := by
  intro n
  induction n with
  | zero => intro st errs h; simp [outer] at h
  | succ n ih =>
    intro st errs h m hm
    obtain ⟨m', rfl⟩ : ∃ f, m = f + 1 := ⟨m - 1, by omega⟩
    simp only [outer] at h ⊢
    split
    · rename_i hl
      rw [if_pos hl] at h
      generalize decodeSet addr (st.r.rem.length + 1) st = d at h ⊢
      obtain ⟨st', e⟩ := d
      cases e with
      | none => exact ih st' errs h m' (by omega)
      | some x =>
        simp only at h ⊢
        split
        · rename_i hn; rw [if_pos hn] at h; exact ih st' _ h m' (by omega)
        · rfl
    · rfl

/-- the list of non-fatal errors is only accumulated: it never influences the run -/
theorem outer_errs (addr : Bytes) : ∀ (n : Nat) (st : St) (errs : List Err),
    outer addr n st errs =
      ((outer addr n st []).1, (outer addr n st []).2.1, errs ++ (outer addr n st []).2.2) := by
  intro n
  induction n with
  | zero => intro st errs; simp [outer]
  | succ n ih =>
    intro st errs
    simp only [outer]
    split
    · generalize decodeSet addr (st.r.rem.length + 1) st = d
      obtain ⟨st', e⟩ := d
      cases e with
      | none => exact ih st' errs
      | some x =>
        simp only
        split
        · rw [ih st' (errs ++ [x]), ih st' ([] ++ [x])]
          simp
        · simp
    · simp

theorem SRel.eq {s : Bytes} {a b : St} (h : SRel s a b) :
    b = ⟨⟨a.r.rem ++ s, a.r.cnt⟩, a.cache, a.recs⟩ := by
  obtain ⟨⟨brem, bcnt⟩, bcache, brecs⟩ := b
  obtain ⟨⟨hc, hr⟩, hca, hre⟩ := h
  simp only at hc hr hca hre
  subst hc; subst hr; subst hca; subst hre
  rfl

/-- **locality of a clean prefix**: if the outer loop, run on the input `x` alone, ends without a
fatal error in state `stT'` after `j` iterations, then on any extension `x ++ s` it passes, after the
same `j` iterations, through the corresponding state (`stF'`: same cache, same records, reader =
`stT'`'s with `s` appended) with the same list of non-fatal errors. -/
theorem outer_ext (addr : Bytes) : ∀ (fuelT : Nat) (stT : St) (errs : List Err)
    (stT' : St) (errs' : List Err),
    outer addr fuelT stT errs = (stT', none, errs') →
    stT'.r.rem.length ≤ 4 ∧ ∃ j, j ≤ fuelT ∧ ∀ (s : Bytes) (stF : St), SRel s stT stF →
      ∃ stF', SRel s stT' stF' ∧ ∀ m, outer addr (j + m) stF errs = outer addr m stF' errs' := by
  intro fuelT
  induction fuelT with
  | zero => intro stT errs stT' errs' h; simp [outer] at h
  | succ n ih =>
    intro stT errs stT' errs' h
    simp only [outer] at h
    by_cases hT : stT.r.rem.length > 4
    · rw [if_pos hT] at h
      generalize hd : decodeSet addr (stT.r.rem.length + 1) stT = dr at h
      obtain ⟨stT1, e⟩ := dr
      have hstep : ∃ errs1, outer addr n stT1 errs1 = (stT', none, errs') ∧
          ∀ (stF stF1 : St) (m : Nat), stF.r.rem.length > 4 →
            decodeSet addr (stF.r.rem.length + 1) stF = (stF1, e) →
            outer addr (m + 1) stF errs = outer addr m stF1 errs1 := by
        cases e with
        | none =>
          refine ⟨errs, h, ?_⟩
          intro stF stF1 m hFl hF1
          simp only [outer]
          rw [if_pos hFl, hF1]
        | some x =>
          simp only at h
          by_cases hn : nonfatalErr x = true
          · rw [if_pos hn] at h
            refine ⟨errs ++ [x], h, ?_⟩
            intro stF stF1 m hFl hF1
            simp only [outer]
            rw [if_pos hFl, hF1]
            simp only [if_pos hn]
          · rw [if_neg hn] at h; simp at h
      obtain ⟨errs1, h1, hstepF⟩ := hstep
      have hnotfatal : ¬ FatalI e := by
        rintro ⟨x, hx, hnf⟩
        subst hx
        simp [hnf] at h
      obtain ⟨hlen', j, hj, hall⟩ := ih stT1 errs1 stT' errs' h1
      refine ⟨hlen', j + 1, by omega, ?_⟩
      intro s stF hrel
      have hFl : stF.r.rem.length > 4 := by have := hrel.1.len_le; omega
      have hfl : stT.r.rem.length + 1 ≤ stF.r.rem.length + 1 := by have := hrel.1.len_le; omega
      rcases decodeSet_sim s addr _ _ stT stF hfl hrel stT1 e hd with hf | ⟨stF1, hF1, hrel1⟩
      · exact absurd hf hnotfatal
      · obtain ⟨stF', hrel', hrun⟩ := hall s stF1 hrel1
        refine ⟨stF', hrel', ?_⟩
        intro m
        have : j + 1 + m = (j + m) + 1 := by omega
        rw [this, hstepF stF stF1 (j + m) hFl hF1]
        exact hrun m
    · rw [if_neg hT] at h
      simp only [Prod.mk.injEq] at h
      obtain ⟨h1, _, h3⟩ := h
      subst h1; subst h3
      exact ⟨by omega, 0, by omega, fun s stF hrel => ⟨stF, hrel, fun m => by rw [Nat.zero_add]⟩⟩

/-- what `Decode` keeps of the result of the outer loop, besides the list of non-fatal errors -/
def Same (a b : St × Option Err × List Err) : Prop :=
  a.1.recs = b.1.recs ∧ a.1.cache = b.1.cache ∧ a.2.1 = b.2.1

/-- **skip, after a clean prefix** (outer loop).  `pre` is a sequence of sets that the outer loop
decodes on its own exactly to its end (`hpre`), leaving cache `c1`; `u` is skipped at `c1`.  Then the
outer loop on `pre ++ u ++ post` ends with the same records, cache and fatal-error slot as on
`pre ++ post`, provided the run without `u` does not run out of fuel and the run with `u` has at least
`|u|` more fuel (as `decode` supplies). -/
theorem outer_insert (addr pre post u : Bytes) (e : Option Err) (k k1 : Nat) (c c1 : Cache)
    (recs1 : List Record) (errs1 : List Err)
    (hpre : outer addr (pre.length + 1) ⟨⟨pre, k⟩, c, []⟩ [] = (⟨⟨[], k1⟩, c1, recs1⟩, none, errs1))
    (hs : Skipped addr c1 u e)
    (FA FB : Nat) (hFB : pre.length + 1 ≤ FB) (hFA : FB + u.length ≤ FA)
    (hnf : (outer addr FB ⟨⟨pre ++ post, k⟩, c, []⟩ []).2.1 ≠ some .fuel) :
    Same (outer addr FA ⟨⟨pre ++ (u ++ post), k⟩, c, []⟩ [])
      (outer addr FB ⟨⟨pre ++ post, k⟩, c, []⟩ []) := by
  have hu4 := hs.len
  obtain ⟨_, j, hj, hall⟩ := outer_ext addr _ _ _ _ _ hpre
  obtain ⟨sB, hrelB, hrunB⟩ := hall post ⟨⟨pre ++ post, k⟩, c, []⟩ ⟨⟨rfl, rfl⟩, rfl, rfl⟩
  obtain ⟨sA, hrelA, hrunA⟩ := hall (u ++ post) ⟨⟨pre ++ (u ++ post), k⟩, c, []⟩ ⟨⟨rfl, rfl⟩, rfl, rfl⟩
  have hsB := hrelB.eq
  have hsA := hrelA.eq
  simp only [List.nil_append] at hsB hsA
  subst hsB; subst hsA
  obtain ⟨mB, rfl⟩ : ∃ m, FB = j + m := ⟨FB - j, by omega⟩
  obtain ⟨mA, rfl⟩ : ∃ m, FA = j + m := ⟨FA - j, by omega⟩
  rw [hrunB] at hnf
  rw [hrunA, hrunB]
  obtain ⟨mA', rfl⟩ : ∃ m, mA = m + 1 := ⟨mA - 1, by omega⟩
  by_cases hgt : u.length + post.length > 4
  · rw [outer_skips_gen addr mA' ⟨⟨u ++ post, k1⟩, c1, recs1⟩ errs1 u post e hs rfl hgt]
    have hsh := outer_shift addr u.length mA' ⟨⟨post, k1⟩, c1, recs1⟩ (errs1 ++ e.toList)
    simp only [St.shift, Rd.shift] at hsh
    simp only
    rw [hsh]
    rw [outer_errs addr mA', outer_errs addr mB] at *
    simp only at hnf
    have hm := outer_fuel_mono addr mB ⟨⟨post, k1⟩, c1, recs1⟩ [] hnf mA' (by omega)
    rw [hm]
    exact ⟨rfl, rfl, rfl⟩
  · have hp : post = [] := List.eq_nil_of_length_eq_zero (by omega)
    subst hp
    rw [outer_tail addr mA' _ errs1 (by simp only [List.append_nil]; omega)]
    cases mB with
    | zero => simp [outer] at hnf
    | succ mB' =>
      rw [outer_tail addr mB' _ errs1 (by simp)]
      exact ⟨rfl, rfl, rfl⟩

theorem decode_of_header (c : Cache) (addr hdr x : Bytes) (h : Hdr) (k : Nat)
    (hh : readHeader ⟨hdr, 0⟩ = some (h, ⟨[], k⟩)) :
    decode c addr (hdr ++ x) =
      if h.headD 0 ≠ 10 then (.error .badVersion, c) else
      match outer addr ((hdr ++ x).length + 1) ⟨⟨x, k⟩, c, []⟩ [] with
      | (st, some e, _) => (.error e, st.cache)
      | (st, none, errs) => (.ok (h, st.recs, errs), st.cache) := by
  obtain ⟨f', hf', he⟩ := readHeader_ext (s := x) (t := ⟨hdr, 0⟩) (f := ⟨hdr ++ x, 0⟩) ⟨rfl, rfl⟩ hh
  have : f' = ⟨x, k⟩ := by
    obtain ⟨frem, fcnt⟩ := f'
    obtain ⟨h1, h2⟩ := he
    simp only [List.nil_append] at h1 h2
    subst h1; subst h2; rfl
  subst this
  simp only [decode, hf']
  rfl

/-- **skip, whole message.**  `hdr` is a message header (`hh`), `pre` a sequence of sets that the
outer loop, started after the header with cache `c`, decodes on its own exactly to its end without a
fatal error (`hpre`), leaving the cache `c1`; `u` is skipped at `c1` (`Skipped`).
Then for every `post`, inserting `u` between `pre` and `post` changes neither the decoded records, nor
the resulting cache, nor whether / with which fatal error the decode fails (only one more non-fatal
error may be reported).  `hfuel`: the decode *without* `u` does not run out of model fuel. -/
theorem decode_skips (c : Cache) (addr hdr pre post u : Bytes) (e : Option Err)
    (h : Hdr) (k k1 : Nat) (c1 : Cache) (recs1 : List Record) (errs1 : List Err)
    (hh : readHeader ⟨hdr, 0⟩ = some (h, ⟨[], k⟩))
    (hpre : outer addr (pre.length + 1) ⟨⟨pre, k⟩, c, []⟩ [] = (⟨⟨[], k1⟩, c1, recs1⟩, none, errs1))
    (hs : Skipped addr c1 u e)
    (hfuel : (decode c addr (hdr ++ (pre ++ post))).1 ≠ .error .fuel) :
    recordsOf (decode c addr (hdr ++ (pre ++ (u ++ post)))).1 =
      recordsOf (decode c addr (hdr ++ (pre ++ post))).1 ∧
    (decode c addr (hdr ++ (pre ++ (u ++ post)))).2 = (decode c addr (hdr ++ (pre ++ post))).2 ∧
    ∀ x, (decode c addr (hdr ++ (pre ++ (u ++ post)))).1 = .error x ↔
      (decode c addr (hdr ++ (pre ++ post))).1 = .error x := by
  rw [decode_of_header c addr hdr _ h k hh] at hfuel ⊢
  rw [decode_of_header c addr hdr _ h k hh]
  by_cases hv : h.headD 0 ≠ 10
  · simp only [if_pos hv, recordsOf, true_and, implies_true]
  · rw [if_neg hv] at hfuel
    rw [if_neg hv, if_neg hv]
    have hnf : (outer addr ((hdr ++ (pre ++ post)).length + 1) ⟨⟨pre ++ post, k⟩, c, []⟩ []).2.1 ≠ some .fuel := by
      intro hx
      generalize outer addr ((hdr ++ (pre ++ post)).length + 1) ⟨⟨pre ++ post, k⟩, c, []⟩ [] = o at hfuel hx
      obtain ⟨st, eo, errs⟩ := o
      simp only at hx
      subst hx
      simp at hfuel
    have hsame := outer_insert addr pre post u e k k1 c c1 recs1 errs1 hpre hs
      ((hdr ++ (pre ++ (u ++ post))).length + 1) ((hdr ++ (pre ++ post)).length + 1)
      (by simp only [List.length_append]; omega)
      (by simp only [List.length_append]; omega) hnf
    generalize outer addr ((hdr ++ (pre ++ (u ++ post))).length + 1) _ [] = oA at hsame
    generalize outer addr ((hdr ++ (pre ++ post)).length + 1) _ [] = oB at hsame
    obtain ⟨stA, eA, errsA⟩ := oA
    obtain ⟨stB, eB, errsB⟩ := oB
    obtain ⟨h1, h2, h3⟩ := hsame
    simp only at h1 h2 h3
    subst h3
    cases eA with
    | none => simp [recordsOf, h1, h2]
    | some x => simp [recordsOf, h2]

end Vflow.Ipfix
