import Vflow.Proofs.EqnsIpfix
import Vflow.Model.Ipfix
import Vflow.Proofs.ReaderLemmas
/-!
# IPFIX: lock-step simulation of the decoder on an input and on an extension of it

Same plan as `TruncV9`; the differences are the 16-bit wrapping arithmetic (`consumed16` depends on the
count only, which the two runs share), the third component of `setLoop` (returned directly), the
variable-length fields and the `peek16` padding test (made only when more than 4 octets remain in the
truncated input, hence the same two octets are seen).
-/
namespace Vflow.Ipfix
open Vflow

/-- an error that makes the IPFIX `Decode` return `(nil, err)`: one that is not wrapped in `nonfatalError`
(`nonfatalErr`; since the F30 repair `emptyRec` is no longer among them, so this is not the `Fatal` that the
NetFlow v9 proofs use) -/
def FatalI (e : Option Err) : Prop := ∃ x, e = some x ∧ nonfatalErr x = false

theorem fatalI_short : FatalI (some .short) := ⟨_, rfl, rfl⟩
theorem fatalI_fuel : FatalI (some .fuel) := ⟨_, rfl, rfl⟩
theorem fatalI_badSetLen : FatalI (some .badSetLen) := ⟨_, rfl, rfl⟩

theorem readSpec_mono : Mono readSpec := by
  intro s t f h res t' hg
  simp only [readSpec] at hg
  split at hg
  · left; simp at hg; exact hg.1.symm
  · rename_i id r1 h1
    obtain ⟨f1, hf1, hr1⟩ := rU16_ext h h1
    split at hg
    · left; simp at hg; exact hg.1.symm
    · rename_i len r2 h2
      obtain ⟨f2, hf2, hr2⟩ := rU16_ext hr1 h2
      by_cases hent : id > 0x8000
      · rw [if_pos hent] at hg
        split at hg
        · left; simp at hg; exact hg.1.symm
        · rename_i ent r3 h3
          obtain ⟨f3, hf3, hr3⟩ := rU32_ext hr2 h3
          simp only [Prod.mk.injEq] at hg
          right; exact ⟨f3, by simp only [readSpec, hf1, hf2, if_pos hent, hf3, hg.1], hg.2 ▸ hr3⟩
      · rw [if_neg hent] at hg
        simp only [Prod.mk.injEq] at hg
        right; exact ⟨f2, by simp only [readSpec, hf1, hf2, if_neg hent, hg.1], hg.2 ▸ hr2⟩

theorem readSpecs_mono (n : Nat) (acc : List Spec) : Mono (fun r => readSpecs n r acc) := by
  induction n generalizing acc with
  | zero =>
    intro s t f h res t' hg
    simp only [readSpecs, Prod.mk.injEq] at hg
    right; exact ⟨f, by simp [readSpecs, hg.1], hg.2 ▸ h⟩
  | succ n ih =>
    intro s t f h res t' hg
    simp only [readSpecs] at hg
    generalize hp : readSpec t = pr at hg
    obtain ⟨r0, t1⟩ := pr
    rcases readSpec_mono s t f h r0 t1 hp with hs | ⟨f1, hf1, hr1⟩
    · subst hs; simp only [Prod.mk.injEq] at hg; left; exact hg.1.symm
    · cases r0 with
      | error e =>
        simp only [Prod.mk.injEq] at hg
        right; exact ⟨f1, by simp only [readSpecs, hf1, hg.1], hg.2 ▸ hr1⟩
      | ok sp =>
        simp only at hg
        rcases ih _ s t1 f1 hr1 res t' hg with hs | ⟨f', hf', hr'⟩
        · left; exact hs
        · right; exact ⟨f', by simp only [readSpecs, hf1]; exact hf', hr'⟩

theorem dataLen_mono (specLen : Nat) : Mono (fun r => dataLen r specLen) := by
  intro s t f h res t' hg
  simp only [dataLen] at hg
  by_cases hv : specLen = 65535
  · rw [if_pos hv] at hg
    split at hg
    · left; simp at hg; exact hg.1.symm
    · rename_i l8 r1 h1
      obtain ⟨f1, hf1, hr1⟩ := rU8_ext h h1
      by_cases h255 : l8 = 255
      · rw [if_pos h255] at hg
        split at hg
        · left; simp at hg; exact hg.1.symm
        · rename_i l r2 h2
          obtain ⟨f2, hf2, hr2⟩ := rU16_ext hr1 h2
          simp only [Prod.mk.injEq] at hg
          right; exact ⟨f2, by simp only [dataLen, if_pos hv, hf1, if_pos h255, hf2, hg.1], hg.2 ▸ hr2⟩
      · rw [if_neg h255] at hg
        simp only [Prod.mk.injEq] at hg
        right; exact ⟨f1, by simp only [dataLen, if_pos hv, hf1, if_neg h255, hg.1], hg.2 ▸ hr1⟩
  · rw [if_neg hv] at hg
    simp only [Prod.mk.injEq] at hg
    right; exact ⟨f, by simp only [dataLen, if_neg hv, hg.1], hg.2 ▸ h⟩

/-! unfolding equations of `decFields`, stated by hand: the automatically generated ones need a
deeper recursion limit than the default (the body mentions `interpret` / the element table) -/
theorem decFields_mono (fs : List Spec) (acc : Record) : Mono (fun r => decFields fs r acc) := by
  induction fs generalizing acc with
  | nil =>
    intro s t f h res t' hg
    simp only [decFields_nil, Prod.mk.injEq] at hg
    right; exact ⟨f, by simp [decFields_nil, hg.1], hg.2 ▸ h⟩
  | cons x xs ih =>
    intro s t f h res t' hg
    simp only [decFields_cons] at hg
    split at hg
    · rename_i hk
      simp only [Prod.mk.injEq] at hg
      right; exact ⟨f, by simp only [decFields_cons, hk, hg.1], hg.2 ▸ h⟩
    · rename_i fid ty hk
      generalize hp : dataLen t x.len = pr at hg
      obtain ⟨r0, t1⟩ := pr
      rcases dataLen_mono x.len s t f h r0 t1 hp with hs | ⟨f1, hf1, hr1⟩
      · subst hs; simp only [Prod.mk.injEq] at hg; left; exact hg.1.symm
      · simp only at hf1
        cases r0 with
        | error e =>
          simp only [Prod.mk.injEq] at hg
          right; exact ⟨f1, by simp only [decFields_cons, hk, hf1, hg.1], hg.2 ▸ hr1⟩
        | ok n =>
          simp only at hg
          split at hg
          · left; simp only [Prod.mk.injEq] at hg; exact hg.1.symm
          · rename_i b r2 h2
            obtain ⟨f2, hf2, hr2⟩ := readN_ext hr1 h2
            rcases ih _ s r2 f2 hr2 res t' hg with hs | ⟨f', hf', hr'⟩
            · left; exact hs
            · right; exact ⟨f', by simp only [decFields_cons, hk, hf1, hf2]; exact hf', hr'⟩

theorem decodeData_mono (tr : Template) : Mono (decodeData tr) := by
  intro s t f h res t' hg
  simp only [decodeData] at hg
  generalize hp : decFields (tr.scope ++ tr.fields) t [] = pr at hg
  obtain ⟨r0, t1⟩ := pr
  rcases decFields_mono _ [] s t f h r0 t1 hp with hs | ⟨f1, hf1, hr1⟩
  · subst hs; simp only [Prod.mk.injEq] at hg; left; exact hg.1.symm
  · simp only at hf1
    right
    refine ⟨f1, ?_, ?_⟩
    · simp only [decodeData, hf1]
      cases r0 with
      | error e => simp only [Prod.mk.injEq] at hg ⊢; simp [hg.1]
      | ok fs =>
        simp only at hg ⊢
        split at hg <;> simp only [Prod.mk.injEq] at hg
        · rename_i he; rw [if_pos he, hg.1]
        · rename_i he; rw [if_neg he, hg.1]
    · cases r0 with
      | error e => simp only [Prod.mk.injEq] at hg; exact hg.2 ▸ hr1
      | ok fs =>
        simp only at hg
        split at hg <;> (simp only [Prod.mk.injEq] at hg; exact hg.2 ▸ hr1)

theorem parseTpl_mono : Mono parseTpl := by
  intro s t f h res t' hg
  simp only [parseTpl] at hg
  split at hg
  · left; simp at hg; exact hg.1.symm
  · rename_i tid r1 h1
    obtain ⟨f1, hf1, hr1⟩ := rU16_ext h h1
    split at hg
    · left; simp at hg; exact hg.1.symm
    · rename_i n r2 h2
      obtain ⟨f2, hf2, hr2⟩ := rU16_ext hr1 h2
      split at hg
      · rename_i fs r3 h3
        simp only [Prod.mk.injEq] at hg
        rcases readSpecs_mono n [] s r2 f2 hr2 _ _ h3 with hs | ⟨f', hf', hr'⟩
        · simp at hs
        · right; exact ⟨f', by simp only [parseTpl, hf1, hf2, hf', hg.1], hg.2 ▸ hr'⟩
      · rename_i e r3 h3
        simp only [Prod.mk.injEq] at hg
        rcases readSpecs_mono n [] s r2 f2 hr2 _ _ h3 with hs | ⟨f', hf', hr'⟩
        · left; simp only [Except.error.injEq] at hs; rw [← hg.1, hs]
        · right; exact ⟨f', by simp only [parseTpl, hf1, hf2, hf', hg.1], hg.2 ▸ hr'⟩

/-- `parseOptTpl` with the modulus `65536` abstracted.  The proofs about `parseOptTpl` are carried out on
this copy and transferred by definitional unfolding: the kernel is very slow on proof terms in which
the literal `65536` of `(n + 65536 - sc) % 65536` occurs. -/
def parseOptTplM (M : Nat) (r : Rd) : Except Err Template × Rd :=
  match r.rU16 with
  | none => (.error .short, r)
  | some (tid, r1) =>
    match r1.rU16 with
    | none => (.error .short, r1)
    | some (n, r2) =>
      match r2.rU16 with
      | none => (.error .short, r2)
      | some (sc, r3) =>
        match readSpecs sc r3 [] with
        | (.error e, r4) => (.error e, r4)
        | (.ok scs, r4) =>
          match readSpecs ((n + M - sc) % M) r4 [] with
          | (.error e, r5) => (.error e, r5)
          | (.ok fs, r5) => (.ok ⟨tid, n, sc, scs, fs⟩, r5)

theorem parseOptTplM_eq (r : Rd) : parseOptTpl r = parseOptTplM 65536 r := rfl

theorem parseOptTplM_mono (M : Nat) : Mono (parseOptTplM M) := by
  intro s t f h res t' hg
  simp only [parseOptTplM] at hg
  split at hg
  · left; simp at hg; exact hg.1.symm
  · rename_i tid r1 h1
    obtain ⟨f1, hf1, hr1⟩ := rU16_ext h h1
    split at hg
    · left; simp at hg; exact hg.1.symm
    · rename_i sl r2 h2
      obtain ⟨f2, hf2, hr2⟩ := rU16_ext hr1 h2
      split at hg
      · left; simp at hg; exact hg.1.symm
      · rename_i ol r3 h3
        obtain ⟨f3, hf3, hr3⟩ := rU16_ext hr2 h3
        split at hg
        · rename_i e r4 h4
          simp only [Prod.mk.injEq] at hg
          rcases readSpecs_mono _ [] s r3 f3 hr3 _ _ h4 with hs | ⟨f', hf', hr'⟩
          · left; simp only [Except.error.injEq] at hs; rw [← hg.1, hs]
          · right; exact ⟨f', by simp only [parseOptTplM, hf1, hf2, hf3, hf', hg.1], hg.2 ▸ hr'⟩
        · rename_i sc r4 h4
          rcases readSpecs_mono _ [] s r3 f3 hr3 _ _ h4 with hs | ⟨f4, hf4, hr4⟩
          · simp at hs
          · split at hg
            · rename_i e r5 h5
              simp only [Prod.mk.injEq] at hg
              rcases readSpecs_mono _ [] s r4 f4 hr4 _ _ h5 with hs | ⟨f', hf', hr'⟩
              · left; simp only [Except.error.injEq] at hs; rw [← hg.1, hs]
              · right; exact ⟨f', by simp only [parseOptTplM, hf1, hf2, hf3, hf4, hf', hg.1], hg.2 ▸ hr'⟩
            · rename_i fs r5 h5
              simp only [Prod.mk.injEq] at hg
              rcases readSpecs_mono _ [] s r4 f4 hr4 _ _ h5 with hs | ⟨f', hf', hr'⟩
              · simp at hs
              · right; exact ⟨f', by simp only [parseOptTplM, hf1, hf2, hf3, hf4, hf', hg.1], hg.2 ▸ hr'⟩

theorem parseOptTpl_mono : Mono parseOptTpl := parseOptTplM_mono 65536

/-- lock-step relation on decoder states: same cache, same records, reader extended by `s` -/
def SRel (s : Bytes) (a b : St) : Prop := Ext s a.r b.r ∧ a.cache = b.cache ∧ a.recs = b.recs

/-- what `decodeSet` computes as left of the set (16-bit wrapping) -/
def left16 (ctx : Ctx) (r : Rd) : Nat := (ctx.len + 65536 - consumed16 ctx r) % 65536

/-- *starved*: the set header says at least `minLeft` octets remain (one more record), the (truncated)
message has fewer -/
def Starved (ctx : Ctx) (r : Rd) : Prop := r.rem.length < minLeft ctx ∧ left16 ctx r ≥ minLeft ctx

theorem consumed16_ext {s : Bytes} {t f : Rd} (h : Ext s t f) (ctx : Ctx) :
    consumed16 ctx f = consumed16 ctx t := by
  simp only [consumed16, h.1]

/-- the record loop on the truncated input: short / out of fuel / same as the full run / starved -/
theorem setLoop_sim (s : Bytes) (ctx : Ctx) : ∀ (fuelT fuelF : Nat) (stT stF : St), fuelT ≤ fuelF → SRel s stT stF →
    ∀ stT' eT dT, setLoop ctx fuelT stT = (stT', eT, dT) →
      eT = some .short ∨ eT = some .fuel ∨
      (∃ stF', setLoop ctx fuelF stF = (stF', eT, dT) ∧ SRel s stT' stF') ∨
      (eT = none ∧ dT = false ∧ Starved ctx stT'.r) := by
  intro fuelT
  induction fuelT with
  | zero =>
    intro fuelF stT stF _ _ stT' eT dT h
    simp only [setLoop, Prod.mk.injEq] at h
    right; left; exact h.2.1.symm
  | succ n ih =>
    intro fuelF stT stF hle hrel stT' eT dT h
    obtain ⟨hr, hc, hrecs⟩ := hrel
    cases fuelF with
    | zero => omega
    | succ m =>
      have hle' : n ≤ m := by omega
      simp only [setLoop] at h ⊢
      by_cases hcT : contCond ctx stT.r = true
      · have hcT' := hcT
        simp only [contCond, Bool.and_eq_true, decide_eq_true_eq] at hcT'
        have hcF : contCond ctx stF.r = true := by
          simp only [contCond, Bool.and_eq_true, decide_eq_true_eq, consumed16_ext hr]
          have := hr.len_le
          exact ⟨⟨hcT'.1.1, by omega⟩, hcT'.2⟩
        rw [if_pos hcT] at h
        rw [if_pos hcF]
        by_cases hid : ctx.setId = 2 ∨ ctx.setId = 3
        · rw [if_pos hid] at h
          rw [if_pos hid]
          have hml : minLeft ctx = 5 := by unfold minLeft; rw [if_neg (by omega)]
          have hpk : stF.r.peek16 = stT.r.peek16 := peek16_ext hr (by omega)
          rw [hpk]
          by_cases hpad : stT.r.peek16 = some 0
          · rw [if_pos hpad] at h
            rw [if_pos hpad]
            simp only [Prod.mk.injEq] at h
            right; right; left
            exact ⟨stF, by rw [← h.2.1, ← h.2.2], h.1 ▸ ⟨hr, hc, hrecs⟩⟩
          · rw [if_neg hpad] at h
            rw [if_neg hpad]
            have hm : Mono (fun r => if ctx.setId = 2 then parseTpl r else parseOptTpl r) := by
              by_cases h0 : ctx.setId = 2
              · simp only [h0, if_true]; exact parseTpl_mono
              · simp only [h0, if_false]; exact parseOptTpl_mono
            generalize hp : (if ctx.setId = 2 then parseTpl stT.r else parseOptTpl stT.r) = pr at h
            obtain ⟨res, r'⟩ := pr
            rcases hm s stT.r stF.r hr res r' hp with hs | ⟨f', hf', hr'⟩
            · subst hs; simp only [Prod.mk.injEq] at h; left; exact h.2.1.symm
            · simp only at hf'
              rw [hf']
              cases res with
              | error e =>
                simp only [Prod.mk.injEq] at h ⊢
                right; right; left
                refine ⟨_, ⟨rfl, h.2⟩, ?_⟩
                rw [← h.1]; exact ⟨hr', hc, hrecs⟩
              | ok tp =>
                simp only at h ⊢
                exact ih m { stT with r := r', cache := stT.cache.insert ctx.addr tp.tid tp }
                  { stF with r := f', cache := stF.cache.insert ctx.addr tp.tid tp } hle'
                  ⟨hr', by simp [hc], hrecs⟩ stT' eT dT h
        · rw [if_neg hid] at h
          rw [if_neg hid]
          by_cases hres : 4 ≤ ctx.setId ∧ ctx.setId ≤ 255
          · rw [if_pos hres] at h
            rw [if_pos hres]
            simp only [Prod.mk.injEq] at h
            right; right; left
            exact ⟨stF, by rw [← h.2.1, ← h.2.2], h.1 ▸ ⟨hr, hc, hrecs⟩⟩
          · rw [if_neg hres] at h
            rw [if_neg hres]
            by_cases hz : ctx.setId = 0
            · rw [if_pos hz] at h
              rw [if_pos hz]
              simp only [Prod.mk.injEq] at h
              right; right; left
              exact ⟨stF, by rw [← h.2.1, ← h.2.2], h.1 ▸ ⟨hr, hc, hrecs⟩⟩
            · rw [if_neg hz] at h
              rw [if_neg hz]
              generalize hp : decodeData ctx.tr stT.r = pr at h
              obtain ⟨res, r'⟩ := pr
              rcases decodeData_mono ctx.tr s stT.r stF.r hr res r' hp with hs | ⟨f', hf', hr'⟩
              · subst hs
                simp only [show nonfatalErr Err.short = false from rfl, Bool.false_eq_true, if_false, Prod.mk.injEq] at h
                left; exact h.2.1.symm
              · rw [hf']
                cases res with
                | error e =>
                  simp only at h ⊢
                  right; right; left
                  by_cases hn : nonfatalErr e = true
                  · rw [if_pos hn] at h ⊢
                    simp only [Prod.mk.injEq] at h ⊢
                    refine ⟨_, ⟨rfl, h.2⟩, ?_⟩
                    rw [← h.1]; exact ⟨hr', hc, hrecs⟩
                  · rw [if_neg hn] at h ⊢
                    simp only [Prod.mk.injEq] at h ⊢
                    refine ⟨_, ⟨rfl, h.2⟩, ?_⟩
                    rw [← h.1]; exact ⟨hr', hc, hrecs⟩
                | ok fs =>
                  simp only at h ⊢
                  have hcnt : (r'.cnt = stT.r.cnt) ↔ (f'.cnt = stF.r.cnt) := by
                    rw [hr'.1, hr.1]
                  by_cases he : r'.cnt = stT.r.cnt
                  · rw [if_pos he] at h
                    rw [if_pos (hcnt.mp he)]
                    simp only [Prod.mk.injEq] at h
                    right; right; left
                    refine ⟨{ stF with r := f' }, ?_, ?_⟩
                    · rw [← h.2.1, ← h.2.2]
                    · rw [← h.1]; exact ⟨hr', hc, hrecs⟩
                  · rw [if_neg he] at h
                    rw [if_neg (fun x => he (hcnt.mpr x))]
                    exact ih m { stT with r := r', recs := stT.recs ++ [fs] }
                      { stF with r := f', recs := stF.recs ++ [fs] } hle'
                      ⟨hr', hc, by simp [hrecs]⟩ stT' eT dT h
      · rw [if_neg hcT] at h
        simp only [Prod.mk.injEq] at h
        by_cases hcF : contCond ctx stF.r = true
        · right; right; right
          refine ⟨h.2.1.symm, h.2.2.symm, ?_⟩
          rw [← h.1]
          simp only [contCond, Bool.and_eq_true, decide_eq_true_eq, consumed16_ext hr] at hcT hcF
          unfold Starved left16
          refine ⟨?_, hcF.2⟩
          by_cases h2 : stT.r.rem.length ≥ minLeft ctx
          · exact absurd ⟨⟨hcF.1.1, h2⟩, hcF.2⟩ hcT
          · omega
        · rw [if_neg hcF]
          right; right; left
          exact ⟨stF, by rw [← h.2.1, ← h.2.2], h.1 ▸ ⟨hr, hc, hrecs⟩⟩

theorem skipRest_sim (s : Bytes) (ctx : Ctx) (e1 : Option Err) (a b : St) (hrel : SRel s a b) :
    ∀ a' e, skipRest ctx a e1 = (a', e) →
      FatalI e ∨ ∃ b', skipRest ctx b e1 = (b', e) ∧ SRel s a' b' := by
  intro a' e h
  obtain ⟨hr, hc, hrecs⟩ := hrel
  simp only [skipRest] at h ⊢
  rw [consumed16_ext hr]
  by_cases hpos : (ctx.len + 65536 - consumed16 ctx a.r) % 65536 > 0
  · rw [if_pos hpos] at h; rw [if_pos hpos]
    split at h
    · left; simp only [Prod.mk.injEq] at h; rw [← h.2]; exact fatalI_short
    · rename_i b0 r' hrd
      obtain ⟨f', hf', hr'⟩ := readN_ext hr hrd
      rw [hf']
      simp only [Prod.mk.injEq] at h ⊢
      right
      refine ⟨_, ⟨rfl, h.2⟩, ?_⟩
      rw [← h.1]; exact ⟨hr', hc, hrecs⟩
  · rw [if_neg hpos] at h; rw [if_neg hpos]
    simp only [Prod.mk.injEq] at h ⊢
    right
    refine ⟨_, ⟨rfl, h.2⟩, ?_⟩
    rw [← h.1]; exact ⟨hr, hc, hrecs⟩

theorem skipRest_fatal (ctx : Ctx) (e1 : Option Err) (a : St) (hf : FatalI e1) :
    ∀ a' e, skipRest ctx a e1 = (a', e) → FatalI e := by
  intro a' e h
  simp only [skipRest] at h
  split at h
  · split at h
    · simp only [Prod.mk.injEq] at h; rw [← h.2]; exact fatalI_short
    · simp only [Prod.mk.injEq] at h; rw [← h.2]; exact hf
  · simp only [Prod.mk.injEq] at h; rw [← h.2]; exact hf

theorem skipRest_starved (ctx : Ctx) (a : St) (hs : Starved ctx a.r) :
    ∀ a' e, skipRest ctx a none = (a', e) → FatalI e := by
  intro a' e h
  obtain ⟨hlen, hgt⟩ := hs
  unfold left16 at hgt
  simp only [skipRest] at h
  have hpos : (ctx.len + 65536 - consumed16 ctx a.r) % 65536 > 0 := by omega
  rw [if_pos hpos] at h
  have : a.r.readN ((ctx.len + 65536 - consumed16 ctx a.r) % 65536) = none := by
    unfold Rd.readN
    rw [if_pos]
    omega
  rw [this] at h
  simp only [Prod.mk.injEq] at h
  rw [← h.2]; exact fatalI_short

theorem setBody_sim (s : Bytes) (addr : Bytes) (sid len start fuelT fuelF : Nat) (a b : St)
    (hle : fuelT ≤ fuelF) (hrel : SRel s a b) :
    ∀ a' e, setBody addr sid len start fuelT a = (a', e) →
      FatalI e ∨ ∃ b', setBody addr sid len start fuelF b = (b', e) ∧ SRel s a' b' := by
  intro a' e h
  have hc := hrel.2.1
  simp only [setBody] at h ⊢
  rw [← hc]
  generalize lookupTpl a.cache addr sid = look at h ⊢
  obtain ⟨lt, le⟩ := look
  cases le with
  | some x =>
    simp only at h ⊢
    exact skipRest_sim s _ (some x) a b hrel a' e h
  | none =>
    simp only at h ⊢
    generalize hloop : setLoop ⟨addr, sid, len, start, lt.getD emptyTpl⟩ fuelT a = lr at h
    obtain ⟨st1, e1, d1⟩ := lr
    simp only at h
    rcases setLoop_sim s ⟨addr, sid, len, start, lt.getD emptyTpl⟩ fuelT fuelF a b hle hrel st1 e1 d1 hloop
      with hs | hfu | ⟨stF1, hF1, hrel1⟩ | ⟨hnone, hd, hstarve⟩
    · left; subst hs
      cases d1 with
      | true => simp only [if_true, Prod.mk.injEq] at h; rw [← h.2]; exact fatalI_short
      | false => simp only [Bool.false_eq_true, if_false] at h; exact skipRest_fatal _ _ st1 fatalI_short a' e h
    · left; subst hfu
      cases d1 with
      | true => simp only [if_true, Prod.mk.injEq] at h; rw [← h.2]; exact fatalI_fuel
      | false => simp only [Bool.false_eq_true, if_false] at h; exact skipRest_fatal _ _ st1 fatalI_fuel a' e h
    · rw [hF1]; simp only
      cases d1 with
      | true =>
        simp only [if_true, Prod.mk.injEq] at h ⊢
        right; exact ⟨stF1, ⟨rfl, h.2⟩, h.1 ▸ hrel1⟩
      | false =>
        simp only [Bool.false_eq_true, if_false] at h ⊢
        exact skipRest_sim s _ e1 st1 stF1 hrel1 a' e h
    · left; subst hnone; subst hd
      simp only [Bool.false_eq_true, if_false] at h
      exact skipRest_starved ⟨addr, sid, len, start, lt.getD emptyTpl⟩ st1 hstarve a' e h

theorem decodeSet_sim (s : Bytes) (addr : Bytes) (fuelT fuelF : Nat) (stT stF : St)
    (hle : fuelT ≤ fuelF) (hrel : SRel s stT stF) :
    ∀ stT' eT, decodeSet addr fuelT stT = (stT', eT) →
      FatalI eT ∨ ∃ stF', decodeSet addr fuelF stF = (stF', eT) ∧ SRel s stT' stF' := by
  intro stT' eT h
  obtain ⟨hr, hc, hrecs⟩ := hrel
  simp only [decodeSet] at h ⊢
  split at h
  · left; simp only [Prod.mk.injEq] at h; rw [← h.2]; exact fatalI_short
  · rename_i sid r1 h1
    obtain ⟨f1, hf1, hr1⟩ := rU16_ext hr h1
    rw [hf1]
    split at h
    · left; simp only [Prod.mk.injEq] at h; rw [← h.2]; exact fatalI_short
    · rename_i len r2 h2
      obtain ⟨f2, hf2, hr2⟩ := rU16_ext hr1 h2
      rw [hf2]
      simp only
      by_cases hl : len < 4
      · rw [if_pos hl] at h; left; simp only [Prod.mk.injEq] at h; rw [← h.2]; exact fatalI_badSetLen
      · rw [if_neg hl] at h
        rw [if_neg hl, ← hr.1]
        exact setBody_sim s addr sid len stT.r.cnt fuelT fuelF { stT with r := r2 } { stF with r := f2 } hle
          ⟨hr2, hc, hrecs⟩ stT' eT h

/-! ## records only grow -/

theorem setLoop_recs (ctx : Ctx) : ∀ fuel st st' e d, setLoop ctx fuel st = (st', e, d) → st.recs <+: st'.recs := by
  intro fuel
  induction fuel with
  | zero => intro st st' e d h; simp only [setLoop, Prod.mk.injEq] at h; rw [← h.1]; exact List.prefix_refl _
  | succ n ih =>
    intro st st' e d h
    simp only [setLoop] at h
    split at h
    · split at h
      · split at h
        · simp only [Prod.mk.injEq] at h; rw [← h.1]; exact List.prefix_refl _
        · split at h
          · have := ih _ _ _ _ h; simpa using this
          · simp only [Prod.mk.injEq] at h; rw [← h.1]; exact List.prefix_refl _
      · split at h
        · simp only [Prod.mk.injEq] at h; rw [← h.1]; exact List.prefix_refl _
        · split at h
          · simp only [Prod.mk.injEq] at h; rw [← h.1]; exact List.prefix_refl _
          · split at h
            · split at h
              · simp only [Prod.mk.injEq] at h; rw [← h.1]; exact List.prefix_refl _
              · exact List.IsPrefix.trans (List.prefix_append _ _) (ih _ _ _ _ h)
            · split at h <;> (simp only [Prod.mk.injEq] at h; rw [← h.1]; exact List.prefix_refl _)
    · simp only [Prod.mk.injEq] at h; rw [← h.1]; exact List.prefix_refl _

theorem skipRest_recs (ctx : Ctx) (a : St) (e1 : Option Err) :
    ∀ a' e, skipRest ctx a e1 = (a', e) → a'.recs = a.recs := by
  intro a' e h
  simp only [skipRest] at h
  split at h
  · split at h <;> (simp only [Prod.mk.injEq] at h; rw [← h.1])
  · simp only [Prod.mk.injEq] at h; rw [← h.1]

theorem setBody_recs (addr : Bytes) (sid len start fuel : Nat) (st : St) :
    ∀ st' e, setBody addr sid len start fuel st = (st', e) → st.recs <+: st'.recs := by
  intro st' e h
  simp only [setBody] at h
  split at h
  · rw [skipRest_recs _ _ _ _ _ h]; exact List.prefix_refl _
  · split at h
    · simp only [Prod.mk.injEq] at h; rw [← h.1]
      exact setLoop_recs _ _ st _ _ _ rfl
    · rw [skipRest_recs _ _ _ _ _ h]
      exact setLoop_recs _ _ st _ _ _ rfl

theorem decodeSet_recs (addr : Bytes) (fuel : Nat) (st : St) :
    ∀ st' e, decodeSet addr fuel st = (st', e) → st.recs <+: st'.recs := by
  intro st' e h
  simp only [decodeSet] at h
  split at h
  · simp only [Prod.mk.injEq] at h; rw [← h.1]; exact List.prefix_refl _
  · split at h
    · simp only [Prod.mk.injEq] at h; rw [← h.1]; exact List.prefix_refl _
    · split at h
      · simp only [Prod.mk.injEq] at h; rw [← h.1]; exact List.prefix_refl _
      · have := setBody_recs _ _ _ _ _ _ _ _ h
        simpa using this

/-- whatever the outcome (fatal error included), the outer loop only appends records -/
theorem outer_recs (addr : Bytes) : ∀ fuel st errs, st.recs <+: (outer addr fuel st errs).1.recs := by
  intro fuel
  induction fuel with
  | zero => intro st errs; simp only [outer]; exact List.prefix_refl _
  | succ n ih =>
    intro st errs
    simp only [outer]
    split
    · generalize hd : decodeSet addr (st.r.rem.length + 1) st = dr
      obtain ⟨st', e⟩ := dr
      have hm := decodeSet_recs addr _ st st' e hd
      cases e with
      | none => exact hm.trans (ih _ _)
      | some x =>
        simp only
        split
        · exact hm.trans (ih _ _)
        · exact hm
    · exact List.prefix_refl _

/-- the records `Decode` would hand out for a result of the outer loop: none after a fatal error -/
def outRecs (o : St × Option Err × List Err) : List Record :=
  match o.2.1 with
  | none => o.1.recs
  | some _ => []

/-- outer loop: what the truncated run would emit is a prefix of the records the full run has
accumulated when it stops (whether it stops with a fatal error or not) -/
theorem outer_sim (s : Bytes) (addr : Bytes) : ∀ (fuelT fuelF : Nat) (stT stF : St) (eT eF : List Err),
    fuelT ≤ fuelF → SRel s stT stF →
      outRecs (outer addr fuelT stT eT) <+: (outer addr fuelF stF eF).1.recs := by
  intro fuelT
  induction fuelT with
  | zero => intro fuelF stT stF eT eF _ _; simp [outer, outRecs]
  | succ n ih =>
    intro fuelF stT stF eT eF hle hrel
    cases fuelF with
    | zero => omega
    | succ m =>
      have hle' : n ≤ m := by omega
      by_cases hT : stT.r.rem.length > 4
      · have hFl : stF.r.rem.length > 4 := by have := hrel.1.len_le; omega
        simp only [outer]
        rw [if_pos hT, if_pos hFl]
        generalize hd : decodeSet addr (stT.r.rem.length + 1) stT = dr
        obtain ⟨stT', e⟩ := dr
        have hfl : stT.r.rem.length + 1 ≤ stF.r.rem.length + 1 := by have := hrel.1.len_le; omega
        rcases decodeSet_sim s addr _ _ stT stF hfl hrel stT' e hd with ⟨x, hx, hnf⟩ | ⟨stF', hF', hrel'⟩
        · subst hx; simp [hnf, outRecs]
        · rw [hF']
          cases e with
          | none => simp only; exact ih m _ _ _ _ hle' hrel'
          | some x =>
            simp only
            by_cases hn : nonfatalErr x = true
            · rw [if_pos hn, if_pos hn]; exact ih m _ _ _ _ hle' hrel'
            · rw [if_neg hn]; simp [outRecs]
      · have : outer addr (n + 1) stT eT = (stT, none, eT) := by simp only [outer]; rw [if_neg hT]
        rw [this]
        simp only [outRecs]
        rw [hrel.2.2]
        exact outer_recs addr (m + 1) stF eF

theorem readHeader_ext {s : Bytes} {t f : Rd} (h : Ext s t f) {hd : Hdr} {t' : Rd}
    (ht : readHeader t = some (hd, t')) : ∃ f', readHeader f = some (hd, f') ∧ Ext s t' f' := by
  simp only [readHeader] at ht
  split at ht
  · simp at ht
  · rename_i v1 r1 h1
    obtain ⟨f1, hf1, hr1⟩ := rU16_ext h h1
    split at ht
    · simp at ht
    · rename_i v2 r2 h2
      obtain ⟨f2, hf2, hr2⟩ := rU16_ext hr1 h2
      split at ht
      · simp at ht
      · rename_i v3 r3 h3
        obtain ⟨f3, hf3, hr3⟩ := rU32_ext hr2 h3
        split at ht
        · simp at ht
        · rename_i v4 r4 h4
          obtain ⟨f4, hf4, hr4⟩ := rU32_ext hr3 h4
          split at ht
          · simp at ht
          · rename_i v5 r5 h5
            obtain ⟨f5, hf5, hr5⟩ := rU32_ext hr4 h5
            simp only [Option.some.injEq, Prod.mk.injEq] at ht
            exact ⟨f5, by simp only [readHeader, hf1, hf2, hf3, hf4, hf5, ht.1], ht.2 ▸ hr5⟩

/-- the state of the outer loop when the full decode stops -/
def finalSt (c : Cache) (addr bs : Bytes) : Option St :=
  match readHeader ⟨bs, 0⟩ with
  | none => none
  | some (h, r5) => if h.headD 0 ≠ 10 then none else some (outer addr (bs.length + 1) ⟨r5, c, []⟩ []).1

/-- decode level, no hypothesis: if the truncated decode emits anything at all, the full decode got
as far as the outer loop, and the emitted records are a prefix of the records the full run had
accumulated when it stopped. -/
theorem truncation_prefix_state (c : Cache) (addr bs : Bytes) (n : Nat) :
    recordsOf (decode c addr (bs.take n)).1 = [] ∨
    ∃ st, finalSt c addr bs = some st ∧ recordsOf (decode c addr (bs.take n)).1 <+: st.recs := by
  have hp : Ext (bs.drop n) ⟨bs.take n, 0⟩ ⟨bs, 0⟩ := ⟨rfl, by simp⟩
  simp only [decode, finalSt]
  generalize hT1 : readHeader ⟨bs.take n, 0⟩ = t1
  cases t1 with
  | none => left; rfl
  | some p1 =>
    obtain ⟨hd, r5⟩ := p1
    obtain ⟨f5, hf5, hr5⟩ := readHeader_ext hp hT1
    rw [hf5]
    simp only
    by_cases hv : hd.headD 0 ≠ 10
    · rw [if_pos hv]; left; rfl
    · rw [if_neg hv, if_neg hv]
      right
      refine ⟨_, rfl, ?_⟩
      have hlen : (bs.take n).length + 1 ≤ bs.length + 1 := by simp; omega
      have := outer_sim (bs.drop n) addr _ _ ⟨r5, c, []⟩ ⟨f5, c, []⟩ [] [] hlen ⟨hr5, rfl, rfl⟩
      generalize outer addr ((bs.take n).length + 1) ⟨r5, c, []⟩ [] = oT at this ⊢
      obtain ⟨stT, eo, errsT⟩ := oT
      cases eo with
      | none => simpa [recordsOf, outRecs] using this
      | some x => simp [recordsOf]

theorem decode_ok_finalSt {c : Cache} {addr bs : Bytes} {h : Hdr} {recs : List Record} {errs : List Err}
    (hok : (decode c addr bs).1 = .ok (h, recs, errs)) : ∃ st, finalSt c addr bs = some st ∧ st.recs = recs := by
  simp only [decode, finalSt] at hok ⊢
  generalize readHeader ⟨bs, 0⟩ = rh at hok ⊢
  cases rh with
  | none => simp at hok
  | some p =>
    obtain ⟨h0, r5⟩ := p
    simp only at hok ⊢
    by_cases hv : h0.headD 0 ≠ 10
    · rw [if_pos hv] at hok; simp at hok
    · rw [if_neg hv] at hok ⊢
      generalize outer addr (bs.length + 1) _ [] = o at hok ⊢
      obtain ⟨st, eo, errs'⟩ := o
      cases eo with
      | some x => simp at hok
      | none =>
        simp only [Except.ok.injEq, Prod.mk.injEq] at hok
        exact ⟨st, rfl, hok.2.1⟩

end Vflow.Ipfix
