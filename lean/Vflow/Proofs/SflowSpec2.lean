import Vflow.Proofs.SflowSpec
import Vflow.Proofs.HeaderBad
/-!
# The datagram round trip with raw-header records given by an abstract header

`ADatagram'` is `ADatagram` except that a raw packet header record is either `(frame length, stripped,
abstract header, trailing payload)` — a header the packet structs can represent — or `(frame length,
stripped, abstract undissectable header)` (`ABad`: cut short at any layer, not IP, an IP protocol without a
struct, another header protocol) instead of bare octets.  `lower` maps both to the octet form — header
protocol, sampled octets — so that `encodeSflow' d = encodeSflow d.lower` is the same XDR encoder (length
word, the four header words, the octets, zero padding to a multiple of four).  The expected datagram
`expected' d` is written on the abstract side alone, without the dissector: the record's four words (F33) with
`expectedPacket h payload` for the first form and *without a packet* for the second, every other record, sample
and field as before;
`expected_lower` shows that it is what the octet form dissects to (`dissect_encodeHeader`, `dissect_bad`).
Well-formedness (`WF'`) is stated on the abstract side only.
-/
namespace Vflow.Sflow
open Vflow Vflow.Packet

inductive AFlowRec' where
  /-- raw packet header: frame length, stripped, the abstract sampled header and the payload octets after it -/
  | raw (frameLen stripped : Nat) (h : AHeader) (payload : Bytes)
  /-- raw packet header whose sampled octets have no breakdown: frame length, stripped, the abstract undissectable header -/
  | rawBad (frameLen stripped : Nat) (b : ABad)
  | sw (s : ExtSwitch)
  | rtr (r : ExtRouter)
  | unknown (fmt : Nat) (body : Bytes)

inductive ASample' where
  | flow (seq srcType srcIdx rate pool drops inp out : Nat) (recs : List AFlowRec')
  | counter (seq srcType srcIdx : Nat) (recs : List ACounterRec)
  | unknown (type : Nat) (body : Bytes)

structure ADatagram' where
  agent : Bytes
  subID : Nat
  seqNo : Nat
  upTime : Nat
  samples : List ASample'

def AFlowRec'.lower : AFlowRec' → AFlowRec
  | .raw fl st h payload => .raw (protoOf h) fl st (encodeHeader h ++ payload)
  | .rawBad fl st b => .raw b.proto fl st b.octets
  | .sw s => .sw s
  | .rtr r => .rtr r
  | .unknown fmt body => .unknown fmt body

def ASample'.lower : ASample' → ASample
  | .flow seq ty idx rate pool drops inp out recs =>
    .flow seq ty idx rate pool drops inp out (recs.map AFlowRec'.lower)
  | .counter seq ty idx recs => .counter seq ty idx recs
  | .unknown t body => .unknown t body

def ADatagram'.lower (d : ADatagram') : ADatagram :=
  { agent := d.agent, subID := d.subID, seqNo := d.seqNo, upTime := d.upTime,
    samples := d.samples.map ASample'.lower }

/-- the sFlow v5 wire encoding of the abstract datagram -/
def encodeSflow' (d : ADatagram') : Bytes := encodeSflow d.lower

/-- what a flow record contributes to `Records`, on the abstract side: a raw-header record its four words
(F33: header protocol, frame length, stripped, number of sampled octets) with the expected packet of a
representable header and without a packet for an undissectable one; nothing for a skipped record -/
def expFlowRec' : AFlowRec' → Option FlowRec
  | .raw fl st h payload =>
    some (.raw ⟨protoOf h, fl, st, (encodeHeader h ++ payload).length, some (expectedPacket h payload)⟩)
  | .rawBad fl st b => some (.raw ⟨b.proto, fl, st, b.octets.length, none⟩)
  | .sw s => some (.sw s)
  | .rtr r => some (.rtr r)
  | .unknown _ _ => none

def expSample' : ASample' → Option Sample
  | .flow seq ty idx rate pool drops inp out recs =>
    some (.flow ⟨seq, ty, idx, rate, pool, drops, inp, out, recs.length, FlowRecs.ofList (recs.map expFlowRec')⟩)
  | .counter seq ty idx recs =>
    some (.counter ⟨seq, ty, idx, recs.length, CounterRecs.ofList (recs.map expCounterRec)⟩)
  | .unknown _ _ => none

/-- the decoded datagram it stands for (no reference to the dissector) -/
def expected' (d : ADatagram') : Datagram :=
  mkDatagram ⟨5, if d.agent.length = 16 then 2 else 1, d.agent, d.subID, d.seqNo, d.upTime, d.samples.length⟩
    (d.samples.map expSample')

/-- what a raw-header record looks like on the wire: format 1, record length, header protocol, frame
length, stripped, header length, the encoded header followed by the payload, XDR padding -/
theorem encFlowRec_raw (fl st : Nat) (h : AHeader) (payload : Bytes) :
    encFlowRec (AFlowRec'.raw fl st h payload).lower =
      be32 1 ++ be32 (16 + (encodeHeader h ++ payload).length + pad (encodeHeader h ++ payload).length) ++
        (encFields [4, 4, 4, 4] [protoOf h, fl, st, (encodeHeader h ++ payload).length] ++
          ((encodeHeader h ++ payload) ++ List.replicate (pad (encodeHeader h ++ payload).length) 0)) := rfl

/-! ## well-formedness, on the abstract side only -/

def AFlowRec'.WF : AFlowRec' → Prop
  | .raw fl st h payload =>
    fl < 256 ^ 4 ∧ st < 256 ^ 4 ∧ wfHeader h ∧ (encodeHeader h ++ payload).length ≤ 1500
  | .rawBad fl st b =>
    fl < 256 ^ 4 ∧ st < 256 ^ 4 ∧ b.WF ∧ b.proto < 256 ^ 4 ∧ b.octets.length ≤ 1500
  | .sw s => Fits [4, 4, 4, 4] [s.srcVlan, s.srcPriority, s.dstVlan, s.dstPriority]
  | .rtr r => (r.nextHop.length = 4 ∨ r.nextHop.length = 16) ∧ Fits [4, 4] [r.srcMask, r.dstMask]
  | .unknown fmt body => fmt ≠ 1 ∧ fmt ≠ 1001 ∧ (fmt = 1002 → body.length ≠ 16 ∧ body.length ≠ 28) ∧
      fmt < 256 ^ 4 ∧ body.length < 256 ^ 4

def ASample'.WF : ASample' → Prop
  | .flow seq ty idx rate pool drops inp out recs =>
    Fits [4, 1] [seq, ty] ∧ idx < 256 ^ 3 ∧ Fits [4, 4, 4, 4, 4, 4] [rate, pool, drops, inp, out, recs.length] ∧
      (∀ r ∈ recs, r.WF) ∧ (encSampleBody (ASample'.flow seq ty idx rate pool drops inp out recs).lower).length < 256 ^ 4
  | .counter seq ty idx recs =>
    Fits [4, 1, 3, 4] [seq, ty, idx, recs.length] ∧ (∀ r ∈ recs, r.WF) ∧
      (encSampleBody (.counter seq ty idx recs)).length < 256 ^ 4
  | .unknown t body => (t / 4096 ≠ 0 ∨ (t % 4096 ≠ 1 ∧ t % 4096 ≠ 2)) ∧ t < 256 ^ 4 ∧ body.length < 256 ^ 4

def ADatagram'.WF (d : ADatagram') : Prop :=
  (d.agent.length = 4 ∨ d.agent.length = 16) ∧ Fits [4, 4, 4, 4] [d.subID, d.seqNo, d.upTime, d.samples.length] ∧
    ∀ s ∈ d.samples, s.WF

/-! ## lowering preserves well-formedness -/

theorem protoOf_lt (h : AHeader) : protoOf h < 256 ^ 4 := by
  obtain ⟨eth, net, trans⟩ := h
  cases eth <;> cases net <;> simp [protoOf]

theorem AFlowRec'.lower_WF (r : AFlowRec') (hwf : r.WF) : r.lower.WF := by
  cases r with
  | raw fl st h payload =>
    obtain ⟨h1, h2, h3, h4⟩ := hwf
    exact ⟨⟨protoOf_lt h, h1, h2, by omega, trivial⟩, h4⟩
  | rawBad fl st b =>
    obtain ⟨h1, h2, _, h4, h5⟩ := hwf
    exact ⟨⟨h4, h1, h2, by omega, trivial⟩, h5⟩
  | sw s => exact hwf
  | rtr r => exact hwf
  | unknown fmt body => exact hwf

theorem ASample'.lower_WF (s : ASample') (hwf : s.WF) : s.lower.WF := by
  cases s with
  | flow seq ty idx rate pool drops inp out recs =>
    obtain ⟨h1, h2, h3, h4, h5⟩ := hwf
    refine ⟨h1, h2, by simpa [List.length_map] using h3, ?_, h5⟩
    intro r hr
    obtain ⟨r', hr', rfl⟩ := List.mem_map.mp hr
    exact r'.lower_WF (h4 r' hr')
  | counter seq ty idx recs => exact hwf
  | unknown t body => exact hwf

theorem ADatagram'.lower_WF (d : ADatagram') (hwf : d.WF) : d.lower.WF := by
  obtain ⟨h1, h2, h3⟩ := hwf
  refine ⟨h1, by simpa [ADatagram'.lower, List.length_map] using h2, ?_⟩
  intro s hs
  obtain ⟨s', hs', rfl⟩ := List.mem_map.mp hs
  exact s'.lower_WF (h3 s' hs')

/-! ## the abstract expectation is what the octet form dissects to -/

/-- a representable header contributes its expected packet, an undissectable one none; the four words either way -/
theorem expFlowRec_lower (r : AFlowRec') (hwf : r.WF) : expFlowRec r.lower = expFlowRec' r := by
  cases r with
  | raw fl st h payload =>
    simp only [AFlowRec'.lower, expFlowRec, expFlowRec', dissected_ok (dissect_encodeHeader h payload hwf.2.2.1)]
  | rawBad fl st b =>
    obtain ⟨e, he⟩ := dissect_bad b hwf.2.2.1
    simp only [AFlowRec'.lower, expFlowRec, expFlowRec', dissected_err he]
  | sw s => rfl
  | rtr r => rfl
  | unknown fmt body => rfl

theorem expSample_lower (s : ASample') (hwf : s.WF) : expSample s.lower = expSample' s := by
  cases s with
  | flow seq ty idx rate pool drops inp out recs =>
    have hmap : (recs.map AFlowRec'.lower).map expFlowRec = recs.map expFlowRec' := by
      rw [List.map_map]
      exact List.map_congr_left (fun r hr => expFlowRec_lower r (hwf.2.2.2.1 r hr))
    simp only [ASample'.lower, expSample, expSample', hmap, List.length_map]
  | counter seq ty idx recs => rfl
  | unknown t body => rfl

theorem expected_lower (d : ADatagram') (hwf : d.WF) : expected d.lower = expected' d := by
  have hmap : (d.samples.map ASample'.lower).map expSample = d.samples.map expSample' := by
    rw [List.map_map]
    exact List.map_congr_left (fun s hs => expSample_lower s (hwf.2.2 s hs))
  simp only [expected, expected', ADatagram'.lower, hmap, List.length_map]
  rfl

/-- **datagram round trip, abstract headers, any filter** -/
theorem decode_enc' (f : List Nat) (d : ADatagram') (hwf : d.WF) :
    decode f (encodeSflow' d) = .ok (dropTypes f (expected' d)) := by
  rw [← expected_lower d hwf]
  exact decode_enc f d.lower (d.lower_WF hwf)

/-- a record without an entry changes nothing in `Records`: the map built from the records around it -/
theorem ofList_skip (a b : List (Option FlowRec)) : FlowRecs.ofList (a ++ none :: b) = FlowRecs.ofList (a ++ b) := by
  simp [FlowRecs.ofList, List.foldl_append, FlowRecs.put]

end Vflow.Sflow
