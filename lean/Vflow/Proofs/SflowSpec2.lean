import Vflow.Proofs.SflowSpec
import Vflow.Proofs.HeaderSpec
/-!
# The datagram round trip with raw-header records given by an abstract header

`ADatagram'` is `ADatagram` except that a raw packet header record is `(frame length, stripped, abstract
header, trailing payload)` instead of octets plus what they dissect to.  `lower` maps it to the octet
form — header protocol `protoOf h`, sampled octets `encodeHeader h ++ payload`, expected packet
`expectedPacket h payload` — so that `encodeSflow' d = encodeSflow d.lower` is the same XDR encoder
(length word, the four header words, the octets, zero padding to a multiple of four) and
`expected' d = expected d.lower`.  Well-formedness (`WF'`) is stated on the abstract side only; the
dissection hypothesis of the octet form is discharged by `dissect_encodeHeader`.
-/
namespace Vflow.Sflow
open Vflow Vflow.Packet

inductive AFlowRec' where
  /-- raw packet header: frame length, stripped, the abstract sampled header and the payload octets after it -/
  | raw (frameLen stripped : Nat) (h : AHeader) (payload : Bytes)
  | sw (s : ExtSwitch)
  | rtr (r : ExtRouter)
  | unknown (fmt : Nat) (body : Bytes)

inductive ASample' where
  | flow (seq srcType srcIdx rate pool drops inp out : Nat) (recs : List AFlowRec')
  | counter (seq srcType srcIdx : Nat) (recs : List ACounterRec)
  | unknown (type : Nat) (body : Bytes)

structure ADatagram' where
  agent : Bytes
  subID : Nat
  seqNo : Nat
  upTime : Nat
  samples : List ASample'

def AFlowRec'.lower : AFlowRec' → AFlowRec
  | .raw fl st h payload => .raw (protoOf h) fl st (encodeHeader h ++ payload) (expectedPacket h payload)
  | .sw s => .sw s
  | .rtr r => .rtr r
  | .unknown fmt body => .unknown fmt body

def ASample'.lower : ASample' → ASample
  | .flow seq ty idx rate pool drops inp out recs =>
    .flow seq ty idx rate pool drops inp out (recs.map AFlowRec'.lower)
  | .counter seq ty idx recs => .counter seq ty idx recs
  | .unknown t body => .unknown t body

def ADatagram'.lower (d : ADatagram') : ADatagram :=
  { agent := d.agent, subID := d.subID, seqNo := d.seqNo, upTime := d.upTime,
    samples := d.samples.map ASample'.lower }

/-- the sFlow v5 wire encoding of the abstract datagram -/
def encodeSflow' (d : ADatagram') : Bytes := encodeSflow d.lower

/-- the decoded datagram it stands for -/
def expected' (d : ADatagram') : Datagram := expected d.lower

/-- what a raw-header record looks like on the wire: format 1, record length, header protocol, frame
length, stripped, header length, the encoded header followed by the payload, XDR padding -/
theorem encFlowRec_raw (fl st : Nat) (h : AHeader) (payload : Bytes) :
    encFlowRec (AFlowRec'.raw fl st h payload).lower =
      be32 1 ++ be32 (16 + (encodeHeader h ++ payload).length + pad (encodeHeader h ++ payload).length) ++
        (encFields [4, 4, 4, 4] [protoOf h, fl, st, (encodeHeader h ++ payload).length] ++
          ((encodeHeader h ++ payload) ++ List.replicate (pad (encodeHeader h ++ payload).length) 0)) := rfl

/-! ## well-formedness, on the abstract side only -/

def AFlowRec'.WF : AFlowRec' → Prop
  | .raw fl st h payload =>
    fl < 256 ^ 4 ∧ st < 256 ^ 4 ∧ wfHeader h ∧ (encodeHeader h ++ payload).length ≤ 1500
  | .sw s => Fits [4, 4, 4, 4] [s.srcVlan, s.srcPriority, s.dstVlan, s.dstPriority]
  | .rtr r => (r.nextHop.length = 4 ∨ r.nextHop.length = 16) ∧ Fits [4, 4] [r.srcMask, r.dstMask]
  | .unknown fmt body => fmt ≠ 1 ∧ fmt ≠ 1001 ∧ fmt ≠ 1002 ∧ fmt < 256 ^ 4 ∧ body.length < 256 ^ 4

def ASample'.WF : ASample' → Prop
  | .flow seq ty idx rate pool drops inp out recs =>
    Fits [4, 1] [seq, ty] ∧ idx < 256 ^ 3 ∧ Fits [4, 4, 4, 4, 4, 4] [rate, pool, drops, inp, out, recs.length] ∧
      (∀ r ∈ recs, r.WF) ∧ (encSampleBody (ASample'.flow seq ty idx rate pool drops inp out recs).lower).length < 256 ^ 4
  | .counter seq ty idx recs =>
    Fits [4, 1, 3, 4] [seq, ty, idx, recs.length] ∧ (∀ r ∈ recs, r.WF) ∧
      (encSampleBody (.counter seq ty idx recs)).length < 256 ^ 4
  | .unknown t body => (t / 4096 ≠ 0 ∨ (t % 4096 ≠ 1 ∧ t % 4096 ≠ 2)) ∧ t < 256 ^ 4 ∧ body.length < 256 ^ 4

def ADatagram'.WF (d : ADatagram') : Prop :=
  (d.agent.length = 4 ∨ d.agent.length = 16) ∧ Fits [4, 4, 4, 4] [d.subID, d.seqNo, d.upTime, d.samples.length] ∧
    ∀ s ∈ d.samples, s.WF

/-! ## lowering preserves well-formedness -/

theorem protoOf_lt (h : AHeader) : protoOf h < 256 ^ 4 := by
  obtain ⟨eth, net, trans⟩ := h
  cases eth <;> cases net <;> simp [protoOf]

theorem AFlowRec'.lower_WF (r : AFlowRec') (hwf : r.WF) : r.lower.WF := by
  cases r with
  | raw fl st h payload =>
    obtain ⟨h1, h2, h3, h4⟩ := hwf
    have hpos : 0 < (encodeHeader h ++ payload).length := by
      have := encodeHeader_length_pos h
      rw [List.length_append]; omega
    exact ⟨⟨protoOf_lt h, h1, h2, by omega, trivial⟩, hpos, h4, dissect_encodeHeader h payload h3⟩
  | sw s => exact hwf
  | rtr r => exact hwf
  | unknown fmt body => exact hwf

theorem ASample'.lower_WF (s : ASample') (hwf : s.WF) : s.lower.WF := by
  cases s with
  | flow seq ty idx rate pool drops inp out recs =>
    obtain ⟨h1, h2, h3, h4, h5⟩ := hwf
    refine ⟨h1, h2, by simpa [List.length_map] using h3, ?_, h5⟩
    intro r hr
    obtain ⟨r', hr', rfl⟩ := List.mem_map.mp hr
    exact r'.lower_WF (h4 r' hr')
  | counter seq ty idx recs => exact hwf
  | unknown t body => exact hwf

theorem ADatagram'.lower_WF (d : ADatagram') (hwf : d.WF) : d.lower.WF := by
  obtain ⟨h1, h2, h3⟩ := hwf
  refine ⟨h1, by simpa [ADatagram'.lower, List.length_map] using h2, ?_⟩
  intro s hs
  obtain ⟨s', hs', rfl⟩ := List.mem_map.mp hs
  exact s'.lower_WF (h3 s' hs')

/-- **datagram round trip, abstract headers, any filter** -/
theorem decode_enc' (f : List Nat) (d : ADatagram') (hwf : d.WF) :
    decode f (encodeSflow' d) = .ok (dropTypes f (expected' d)) :=
  decode_enc f d.lower (d.lower_WF hwf)

end Vflow.Sflow
