import Vflow.Spec.V5Wire
import Vflow.Model.V5
/-!
# NetFlow v5: the decoder on the Cisco layout, completely

`readFields_eq` characterises the generic field reader (succeeds iff the octets suffice; values are the
big-endian slices in turn), `decodeWith_spec_eq` the whole `Decode` on the specification layouts, and
the `enc…` lemmas give the round trip with the specification encoder.
-/
namespace Vflow.V5Round
open Vflow Vflow.Spec Vflow.V5

theorem encBE_length (w v : Nat) : (encBE w v).length = w := by
  induction w generalizing v with
  | zero => rfl
  | succ k ih => simp [encBE, ih]

theorem beN_append_one (l : Bytes) (x : UInt8) : beN (l ++ [x]) = beN l * 256 + x.toNat := by
  simp [beN, List.foldl_append]

theorem beN_encBE (w v : Nat) (h : v < 256 ^ w) : beN (encBE w v) = v := by
  induction w generalizing v with
  | zero => simp at h; subst h; rfl
  | succ k ih =>
    have h' : v / 256 < 256 ^ k := by
      apply Nat.div_lt_of_lt_mul; rw [Nat.pow_succ] at h; omega
    rw [encBE, beN_append_one, ih _ h']
    simp
    omega

theorem readN_eq (bs : Bytes) (c n : Nat) :
    Rd.readN ⟨bs, c⟩ n = if bs.length < n then none else some (bs.take n, ⟨bs.drop n, c + n⟩) := rfl

/-- **`readFields`, completely**: it succeeds exactly when the octets suffice, yields the big-endian value of
each slice in turn, and leaves the rest -/
theorem readFields_eq (ws : List Nat) (bs : Bytes) (c : Nat) :
    readFields ws ⟨bs, c⟩ =
      if ws.sum ≤ bs.length then some (valuesAt ws bs, ⟨bs.drop ws.sum, c + ws.sum⟩) else none := by
  induction ws generalizing bs c with
  | nil => simp [readFields, valuesAt]
  | cons w ws ih =>
    simp only [readFields, readN_eq]
    by_cases hw : bs.length < w
    · have : ¬ (w + ws.sum ≤ bs.length) := by omega
      simp [hw, this]
    · simp only [hw, if_false, ih, List.length_drop, List.sum_cons]
      by_cases hs : ws.sum ≤ bs.length - w
      · have : w + ws.sum ≤ bs.length := by omega
        simp [hs, this, valuesAt, List.drop_drop, Nat.add_assoc]
      · have : ¬ (w + ws.sum ≤ bs.length) := by omega
        simp [hs, this]

theorem readFlows_eq (ws : List Nat) (n : Nat) (bs : Bytes) (c : Nat) (acc : List (List Nat))
    (h : n * ws.sum ≤ bs.length) :
    readFlows ws n ⟨bs, c⟩ acc = (acc ++ flowsAt ws n bs, true) := by
  induction n generalizing bs c acc with
  | zero => simp [readFlows, flowsAt]
  | succ n ih =>
    have h1 : ws.sum ≤ bs.length := by rw [Nat.succ_mul] at h; omega
    have h2 : n * ws.sum ≤ (bs.drop ws.sum).length := by
      rw [Nat.succ_mul] at h; simp only [List.length_drop]; omega
    simp only [readFlows, readFields_eq, h1, if_true]
    rw [ih _ _ _ h2]
    simp [flowsAt]

theorem flowsAt_length (ws : List Nat) (n : Nat) (bs : Bytes) : (flowsAt ws n bs).length = n := by
  induction n generalizing bs with
  | zero => rfl
  | succ n ih => simp [flowsAt, ih]

theorem hdr_sum : (widths Spec.v5Header).sum = 24 := by decide
theorem rec_sum : (widths Spec.v5Record).sum = 48 := by decide
theorem hdr_len : (widths Spec.v5Header).length = 9 := by decide
theorem rec_len : (widths Spec.v5Record).length = 20 := by decide

/-- the outcome of `Decode` on the Cisco layout -/
def decodeSpec (bs : Bytes) : Except V5Err Msg :=
  if bs.length < 24 then .error .short else
  let h := valuesAt (widths Spec.v5Header) bs
  if fieldAt h 0 ≠ 5 then .error .badVersion else
  if fieldAt h 1 < 1 ∨ fieldAt h 1 > 30 then .error .badCount else
  if bs.length < 24 + 48 * fieldAt h 1 then .error .shortFlows else
  .ok ⟨h, flowsAt (widths Spec.v5Record) (fieldAt h 1) (bs.drop 24)⟩

theorem decodeWith_spec_eq (bs : Bytes) : decodeWith Spec.v5Header Spec.v5Record bs = decodeSpec bs := by
  simp only [decodeWith, decodeSpec, readFields_eq, hdr_sum]
  by_cases h24 : bs.length < 24
  · have : ¬ 24 ≤ bs.length := by omega
    simp [h24, this]
  · have h24' : 24 ≤ bs.length := by omega
    simp only [h24, h24', if_true, if_false]
    split
    · rfl
    · split
      · rfl
      · rename_i hc
        by_cases hl : bs.length < 24 + 48 * fieldAt (valuesAt (widths Spec.v5Header) bs) 1
        · have : fieldAt (valuesAt (widths Spec.v5Header) bs) 1 * 48 > (bs.drop 24).length := by
            simp only [List.length_drop]; omega
          rw [if_pos this, if_pos hl]
        · have : ¬ fieldAt (valuesAt (widths Spec.v5Header) bs) 1 * 48 > (bs.drop 24).length := by
            simp only [List.length_drop]; omega
          rw [if_neg this, if_neg hl]
          rw [readFlows_eq _ _ _ _ _ (by rw [rec_sum]; simp only [List.length_drop]; omega)]
          simp

/-! ## Encoding, then decoding -/

theorem fits_cons {w v : Nat} {ws vs : List Nat} (h : Fits (w :: ws) (v :: vs)) : v < 256 ^ w ∧ Fits ws vs := by
  simpa [Fits, fits] using h

theorem encFields_length (ws vs : List Nat) (h : Fits ws vs) : (encFields ws vs).length = ws.sum := by
  induction ws generalizing vs with
  | nil => cases vs <;> simp [encFields]
  | cons w ws ih =>
    cases vs with
    | nil => simp [Fits, fits] at h
    | cons v vs => simp [encFields, encBE_length, ih vs (fits_cons h).2]

theorem valuesAt_encFields (ws vs : List Nat) (tail : Bytes) (h : Fits ws vs) :
    valuesAt ws (encFields ws vs ++ tail) = vs := by
  induction ws generalizing vs with
  | nil => cases vs with
    | nil => rfl
    | cons _ _ => simp [Fits, fits] at h
  | cons w ws ih =>
    cases vs with
    | nil => simp [Fits, fits] at h
    | cons v vs =>
      obtain ⟨hv, hr⟩ := fits_cons h
      have hl := encBE_length w v
      simp only [encFields, valuesAt, List.append_assoc]
      rw [List.take_left' hl, List.drop_left' hl, beN_encBE w v hv, ih vs hr]

/-- **C08 (fields)**: reading the encoding of fitting values gives the values back and leaves exactly the
octets that follow — for every width list -/
theorem readFields_encFields (ws vs : List Nat) (tail : Bytes) (c : Nat) (h : Fits ws vs) :
    readFields ws ⟨encFields ws vs ++ tail, c⟩ = some (vs, ⟨tail, c + ws.sum⟩) := by
  have hl := encFields_length ws vs h
  rw [readFields_eq, if_pos (by simp [hl]), valuesAt_encFields ws vs tail h, List.drop_left' hl]

theorem encFlows_length (fs : List (List Nat)) (h : ∀ f ∈ fs, Fits (widths Spec.v5Record) f) :
    (encFlows fs).length = 48 * fs.length := by
  induction fs with
  | nil => rfl
  | cons f fs ih =>
    have h1 := encFields_length _ _ (h f (by simp))
    rw [rec_sum] at h1
    have h2 := ih (fun g hg => h g (by simp [hg]))
    simp only [encFlows, List.length_append, List.length_cons]
    show (encFields (widths Spec.v5Record) f).length + _ = _
    omega

theorem flowsAt_encFlows (fs : List (List Nat)) (tail : Bytes) (h : ∀ f ∈ fs, Fits (widths Spec.v5Record) f) :
    flowsAt (widths Spec.v5Record) fs.length (encFlows fs ++ tail) = fs := by
  induction fs with
  | nil => rfl
  | cons f fs ih =>
    have hf := h f (by simp)
    have hl := encFields_length _ _ hf
    have e : encFlows (f :: fs) ++ tail = encFields (widths Spec.v5Record) f ++ (encFlows fs ++ tail) := by
      simp [encFlows, widths, widthsOf]
    simp only [List.length_cons, flowsAt, e]
    rw [valuesAt_encFields _ _ _ hf, List.drop_left' hl, ih (fun g hg => h g (by simp [hg]))]

/-- round trip against the characterisation -/
theorem decodeSpec_encode (h : List Nat) (fs : List (List Nat)) (tail : Bytes)
    (hh : Fits (widths Spec.v5Header) h) (hfs : ∀ f ∈ fs, Fits (widths Spec.v5Record) f)
    (hv : fieldAt h 0 = 5) (hc : fieldAt h 1 = fs.length) (h1 : 1 ≤ fs.length) (h30 : fs.length ≤ 30) :
    decodeSpec (encodeV5 h fs ++ tail) = .ok ⟨h, fs⟩ := by
  have hl := encFields_length _ _ hh
  rw [hdr_sum] at hl
  have hfl := encFlows_length fs hfs
  have e : encodeV5 h fs ++ tail = encFields (widths Spec.v5Header) h ++ (encFlows fs ++ tail) := by
    simp [encodeV5, widths, widthsOf]
  have hlen : (encodeV5 h fs ++ tail).length = 24 + 48 * fs.length + tail.length := by
    rw [e]; simp only [List.length_append]; omega
  simp only [decodeSpec]
  rw [if_neg (by omega)]
  simp only [e, valuesAt_encFields _ _ _ hh, hv, hc]
  rw [if_neg (by simp), if_neg (by omega), if_neg (by rw [← e]; omega), List.drop_left' hl,
    flowsAt_encFlows fs tail hfs]

/-! ## Offsets -/

theorem valuesAt_length (ws : List Nat) (bs : Bytes) : (valuesAt ws bs).length = ws.length := by
  induction ws generalizing bs with
  | nil => rfl
  | cons w ws ih => simp [valuesAt, ih]

/-- **C08 (offsets)**: the `i`-th value read is the big-endian value of the slice at the cumulative offset -/
theorem valuesAt_getD (ws : List Nat) (bs : Bytes) (i : Nat) (hi : i < ws.length) :
    (valuesAt ws bs).getD i 0 = beN ((bs.drop (offsetOf ws i)).take (ws.getD i 0)) := by
  induction ws generalizing bs i with
  | nil => simp at hi
  | cons w ws ih =>
    cases i with
    | zero => simp [valuesAt, offsetOf]
    | succ i =>
      have := ih (bs.drop w) i (by simpa using hi)
      simp only [valuesAt, List.getD_cons_succ, this, offsetOf, List.take_succ_cons, List.sum_cons,
        List.drop_drop]

theorem flowsAt_getD (ws : List Nat) (n : Nat) (bs : Bytes) (j : Nat) (hj : j < n) :
    (flowsAt ws n bs).getD j [] = valuesAt ws (bs.drop (j * ws.sum)) := by
  induction n generalizing bs j with
  | zero => omega
  | succ n ih =>
    cases j with
    | zero => simp [flowsAt]
    | succ j =>
      have := ih (bs.drop ws.sum) j (by omega)
      simp only [flowsAt, List.getD_cons_succ, this, List.drop_drop, Nat.succ_mul]
      congr 2; omega

/-- decidable equality of decode outcomes (for the concrete examples) -/
instance : DecidableEq (Except V5Err Msg) := fun a b =>
  match a, b with
  | .ok x, .ok y => if h : x = y then isTrue (by rw [h]) else isFalse (fun e => h (by injection e))
  | .error x, .error y => if h : x = y then isTrue (by rw [h]) else isFalse (fun e => h (by injection e))
  | .ok _, .error _ => isFalse (fun e => by injection e)
  | .error _, .ok _ => isFalse (fun e => by injection e)

end Vflow.V5Round
