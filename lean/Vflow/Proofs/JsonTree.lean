import Vflow.Spec.Json
import Vflow.Spec.JsonProgs
import Vflow.Model.JsonOut
import Vflow.Model.V5
import Vflow.Proofs.JsonLex
/-!
# The JSON trees of the published messages and the proof that the encoders render them

`ipfixTree`, `v9Tree`, `v5Tree` are the *meaning* of a published message: which members, in which
order, carrying which decoded value in which text form.  The encoders (models of the Go code, run
through the write programs regenerated from the Go source) are proved to produce exactly
`render tree`, and the trees are well-formed, hence the output derives in the RFC 8259 grammar.
-/
namespace Vflow.JsonTree
open Vflow Vflow.Spec Vflow.JsonLex

/-! ## Tree builders -/

/-- the octets of a text given in pieces (examples only; short pieces keep kernel evaluation of `toUTF8` cheap) -/
def txt (l : List String) : Bytes := (l.map fun s => s.toUTF8.toList).flatten

def listOf : List Json → JList
  | [] => .nil
  | x :: xs => .cons x (listOf xs)

def objOf : List (Bytes × Json) → JMembers
  | [] => .nil
  | (k, v) :: ms => .cons k v (objOf ms)

/-- a JSON number carrying the exact decimal text of `n` -/
def jnum (n : Nat) : Json := .num (natDigits n)

/-- the value of a decoded field: booleans as `true`/`false`; unsigned / signed integers as their exact
decimal text; finite floats as the number text `ftext`, non-finite ones (`NaN`, `+Inf`, `-Inf`) as a
string; strings escaped as `encoding/json` does; addresses in canonical text (`net.IP.String`,
`net.HardwareAddr.String`); uninterpreted octets as `"0x<hex>"` -/
def valJson (v : Val) (ftext : Bytes) : Json :=
  match v with
  | .bool b => .bool b
  | .u8 n | .u16 n | .u32 n | .u64 n => .num (natDigits n)
  | .i8 n | .i16 n | .i32 n | .i64 n => .num (intDigits n)
  | .f32 bits => if f32Finite bits then .num ftext else .str ftext
  | .f64 bits => if f64Finite bits then .num ftext else .str ftext
  | .str s => .str (escString s)
  | .ip b => .str (ipBytes b)
  | .mac b => .str (macBytes b)
  | .raw b => .str (48 :: 120 :: hexBytes b)

/-- `{"I":<element id>,"V":<value>}` plus `,"E":<enterprise number>` exactly when it is non-zero -/
def fieldTree (f : JField) : Json :=
  .obj (objOf ([(Key.I, jnum f.id), (Key.V, valJson f.val f.ftext)] ++
    (if f.ent ≠ 0 then [(Key.E, jnum f.ent)] else [])))

/-- a data record: the array of its fields, in decode order -/
def recordTree (r : List JField) : Json := .arr (listOf (r.map fieldTree))

/-- all data records of the message, in decode order -/
def dataSetsTree (recs : List (List JField)) : Json := .arr (listOf (recs.map recordTree))

/-- value of the `i`-th field of a fixed-layout structure, as a number or as dotted-quad address text -/
def memberTree (fk : FK) (v : Nat) : Json :=
  match fk with
  | .num => jnum v
  | .ip => .str (ip4Bytes (encBE 4 v))

/-- the members of a fixed-layout structure: key `i` shows field `i` (0 when absent) -/
def membersOf : List (Bytes × FK) → Nat → List Nat → JMembers
  | [], _, _ => .nil
  | (k, fk) :: ks, i, vals => .cons k (memberTree fk (vals.getD i 0)) (membersOf ks (i + 1) vals)

/-- **IPFIX message**: `{"AgentID":"<exporter address>","Header":{…five fields…},"DataSets":[[field,…],…]}` -/
def ipfixTree (a : Bytes) (hdr : List Nat) (recs : List (List JField)) : Json :=
  .obj (objOf [
    (Key.AgentID, .str (ipBytes a)),
    (Key.Header, .obj (objOf [
      (Key.Version, jnum (hdr.getD 0 0)),
      (Key.Length, jnum (hdr.getD 1 0)),
      (Key.ExportTime, jnum (hdr.getD 2 0)),
      (Key.SequenceNo, jnum (hdr.getD 3 0)),
      (Key.DomainID, jnum (hdr.getD 4 0))])),
    (Key.DataSets, dataSetsTree recs)])

/-- **NetFlow v9 message** -/
def v9Tree (a : Bytes) (hdr : List Nat) (recs : List (List JField)) : Json :=
  .obj (objOf [
    (Key.AgentID, .str (ipBytes a)),
    (Key.Header, .obj (objOf [
      (Key.Version, jnum (hdr.getD 0 0)),
      (Key.Count, jnum (hdr.getD 1 0)),
      (Key.SysUpTime, jnum (hdr.getD 2 0)),
      (Key.UNIXSecs, jnum (hdr.getD 3 0)),
      (Key.SeqNum, jnum (hdr.getD 4 0)),
      (Key.SrcID, jnum (hdr.getD 5 0))])),
    (Key.DataSets, dataSetsTree recs)])

/-- the generic form the proofs work with -/
def flowMsgTree (keys : List (Bytes × FK)) (a : Bytes) (hdr : List Nat) (recs : List (List JField)) : Json :=
  .obj (.cons Key.AgentID (.str (ipBytes a)) (.cons Key.Header (.obj (membersOf keys 0 hdr))
    (.cons Key.DataSets (dataSetsTree recs) .nil)))

theorem ipfixTree_eq (a hdr recs) : ipfixTree a hdr recs = flowMsgTree ipfixHeaderKeys a hdr recs := rfl
theorem v9Tree_eq (a hdr recs) : v9Tree a hdr recs = flowMsgTree v9HeaderKeys a hdr recs := rfl

/-- a NetFlow v5 flow record: 20 members, the three addresses as dotted-quad strings -/
def v5FlowTree (f : List Nat) : Json :=
  .obj (objOf [
    (Key.SrcAddr, .str (ip4Bytes (encBE 4 (f.getD 0 0)))),
    (Key.DstAddr, .str (ip4Bytes (encBE 4 (f.getD 1 0)))),
    (Key.NextHop, .str (ip4Bytes (encBE 4 (f.getD 2 0)))),
    (Key.Input, jnum (f.getD 3 0)),
    (Key.Output, jnum (f.getD 4 0)),
    (Key.PktCount, jnum (f.getD 5 0)),
    (Key.L3Octets, jnum (f.getD 6 0)),
    (Key.StartTime, jnum (f.getD 7 0)),
    (Key.EndTime, jnum (f.getD 8 0)),
    (Key.SrcPort, jnum (f.getD 9 0)),
    (Key.DstPort, jnum (f.getD 10 0)),
    (Key.Padding1, jnum (f.getD 11 0)),
    (Key.TCPFlags, jnum (f.getD 12 0)),
    (Key.ProtType, jnum (f.getD 13 0)),
    (Key.Tos, jnum (f.getD 14 0)),
    (Key.SrcAsNum, jnum (f.getD 15 0)),
    (Key.DstAsNum, jnum (f.getD 16 0)),
    (Key.SrcMask, jnum (f.getD 17 0)),
    (Key.DstMask, jnum (f.getD 18 0)),
    (Key.Padding2, jnum (f.getD 19 0))])

/-- **NetFlow v5 message**: `{"AgentID":…,"Header":{…nine fields…},"Flows":[{…twenty fields…},…]}` -/
def v5Tree (a : Bytes) (m : V5.Msg) : Json :=
  .obj (objOf [
    (Key.AgentID, .str (ipBytes a)),
    (Key.Header, .obj (objOf [
      (Key.Version, jnum (m.hdr.getD 0 0)),
      (Key.Count, jnum (m.hdr.getD 1 0)),
      (Key.SysUpTimeMSecs, jnum (m.hdr.getD 2 0)),
      (Key.UNIXSecs, jnum (m.hdr.getD 3 0)),
      (Key.UNIXNSecs, jnum (m.hdr.getD 4 0)),
      (Key.SeqNum, jnum (m.hdr.getD 5 0)),
      (Key.EngType, jnum (m.hdr.getD 6 0)),
      (Key.EngID, jnum (m.hdr.getD 7 0)),
      (Key.SmpInt, jnum (m.hdr.getD 8 0))])),
    (Key.Flows, .arr (listOf (m.flows.map v5FlowTree)))])

theorem v5FlowTree_eq (f) : v5FlowTree f = .obj (membersOf v5FlowKeys 0 f) := rfl
theorem v5Tree_eq (a m) : v5Tree a m =
    .obj (.cons Key.AgentID (.str (ipBytes a)) (.cons Key.Header (.obj (membersOf v5HeaderKeys 0 m.hdr))
      (.cons Key.Flows (.arr (listOf (m.flows.map v5FlowTree))) .nil))) := rfl

/-! ## The key octets are the key names -/

/-- every key constant of `Vflow.Spec.Key` is the UTF-8 text of its name -/
theorem keys_are_their_names :
    [(Key.AgentID, "AgentID"),
     (Key.Header, "Header"),
     (Key.DataSets, "DataSets"),
     (Key.Flows, "Flows"),
     (Key.I, "I"),
     (Key.V, "V"),
     (Key.E, "E"),
     (Key.Version, "Version"),
     (Key.Length, "Length"),
     (Key.ExportTime, "ExportTime"),
     (Key.SequenceNo, "SequenceNo"),
     (Key.DomainID, "DomainID"),
     (Key.Count, "Count"),
     (Key.SysUpTime, "SysUpTime"),
     (Key.UNIXSecs, "UNIXSecs"),
     (Key.SeqNum, "SeqNum"),
     (Key.SrcID, "SrcID"),
     (Key.SysUpTimeMSecs, "SysUpTimeMSecs"),
     (Key.UNIXNSecs, "UNIXNSecs"),
     (Key.EngType, "EngType"),
     (Key.EngID, "EngID"),
     (Key.SmpInt, "SmpInt"),
     (Key.SrcAddr, "SrcAddr"),
     (Key.DstAddr, "DstAddr"),
     (Key.NextHop, "NextHop"),
     (Key.Input, "Input"),
     (Key.Output, "Output"),
     (Key.PktCount, "PktCount"),
     (Key.L3Octets, "L3Octets"),
     (Key.StartTime, "StartTime"),
     (Key.EndTime, "EndTime"),
     (Key.SrcPort, "SrcPort"),
     (Key.DstPort, "DstPort"),
     (Key.Padding1, "Padding1"),
     (Key.TCPFlags, "TCPFlags"),
     (Key.ProtType, "ProtType"),
     (Key.Tos, "Tos"),
     (Key.SrcAsNum, "SrcAsNum"),
     (Key.DstAsNum, "DstAsNum"),
     (Key.SrcMask, "SrcMask"),
     (Key.DstMask, "DstMask"),
     (Key.Padding2, "Padding2")].all
      (fun p => p.1 == p.2.toUTF8.toList) = true := by decide +kernel

/-! ## Write programs: normalisation and the two interpreters -/

theorem runWrites_normalize (a : Bytes) (h : List Nat) (p : List W) :
    V5.runWrites a h (normalize p) = V5.runWrites a h p := by
  induction p with
  | nil => rfl
  | cons w ws ih =>
    cases w with
    | lit b =>
      simp only [normalize]
      generalize normalize ws = r at ih
      simp only [V5.runWrites, ← ih]
      cases r with
      | nil => simp [V5.runWrites]
      | cons x r => cases x <;> simp [V5.runWrites]
    | num i => simp only [normalize, V5.runWrites, ih]
    | ip i => simp only [normalize, V5.runWrites, ih]
    | agent => simp only [normalize, V5.runWrites, ih]
    | unrecognised s => simp only [normalize, V5.runWrites, ih]

theorem runHdrWrites_normalize (a : Bytes) (h : List Nat) (p : List W) :
    runHdrWrites a h (normalize p) = runHdrWrites a h p := by
  induction p with
  | nil => rfl
  | cons w ws ih =>
    cases w with
    | lit b =>
      simp only [normalize]
      generalize normalize ws = r at ih
      simp only [runHdrWrites, ← ih]
      cases r with
      | nil => simp [runHdrWrites]
      | cons x r => cases x <;> simp [runHdrWrites]
    | num i => simp only [normalize, runHdrWrites, ih]
    | ip i => simp only [normalize, runHdrWrites, ih]
    | agent => simp only [normalize, runHdrWrites, ih]
    | unrecognised s => simp only [normalize, runHdrWrites, ih]

def noIp : List W → Bool
  | [] => true
  | .ip _ :: _ => false
  | _ :: ws => noIp ws

theorem runHdrWrites_eq_runWrites (a : Bytes) (h : List Nat) (p : List W) (hp : noIp p = true) :
    runHdrWrites a h p = V5.runWrites a h p := by
  induction p with
  | nil => rfl
  | cons w ws ih =>
    cases w <;> simp_all [noIp, runHdrWrites, V5.runWrites, V5.fieldAt]

theorem runWrites_append (a : Bytes) (h : List Nat) (p p' : List W) :
    V5.runWrites a h (p ++ p') = V5.runWrites a h p ++ V5.runWrites a h p' := by
  induction p with
  | nil => rfl
  | cons w ws ih => cases w <;> simp [V5.runWrites, ih]

/-! ## Rendering -/

/-- `,"k":v` for every member -/
def commaMembers : JMembers → Bytes
  | .nil => []
  | .cons k v ms => [44] ++ (q :: k ++ [q, 58]) ++ render v ++ commaMembers ms

theorem commaMembers_cons : ∀ (k : Bytes) (v : Json) (ms : JMembers),
    commaMembers (.cons k v ms) = [44] ++ renderMembers (.cons k v ms)
  | k, v, .nil => by simp [renderMembers, commaMembers]
  | k, v, .cons k' v' ms => by
    have ih := commaMembers_cons k' v' ms
    rw [commaMembers, ih]
    simp [renderMembers]

theorem renderMembers_cons (k : Bytes) (v : Json) (ms : JMembers) :
    renderMembers (.cons k v ms) = (q :: k ++ [q, 58]) ++ render v ++ commaMembers ms := by
  cases ms with
  | nil => simp [renderMembers, commaMembers]
  | cons k' v' ms => rw [commaMembers_cons]; simp [renderMembers]

theorem render_memberTree (a : Bytes) (fk : FK) (i : Nat) (vals : List Nat) (first : Bool) (k : Bytes) :
    V5.runWrites a vals (memberProg first k fk i) =
      (if first then [] else [44]) ++ (q :: k ++ [q, 58]) ++ render (memberTree fk (vals.getD i 0)) := by
  cases fk <;> simp [memberProg, V5.runWrites, memberTree, jnum, render, V5.fieldAt, q]

theorem run_membersProg_false (a : Bytes) (vals : List Nat) (ks : List (Bytes × FK)) (i : Nat) :
    V5.runWrites a vals (membersProg ks i false) = commaMembers (membersOf ks i vals) := by
  induction ks generalizing i with
  | nil => rfl
  | cons kf ks ih =>
    obtain ⟨k, fk⟩ := kf
    simp only [membersProg, membersOf, commaMembers, runWrites_append, render_memberTree, ih]
    simp

/-- the members program renders the members -/
theorem run_membersProg (a : Bytes) (vals : List Nat) (ks : List (Bytes × FK)) :
    V5.runWrites a vals (membersProg ks 0 true) = renderMembers (membersOf ks 0 vals) := by
  cases ks with
  | nil => rfl
  | cons kf ks =>
    obtain ⟨k, fk⟩ := kf
    simp only [membersProg, membersOf, renderMembers_cons, runWrites_append, render_memberTree,
      run_membersProg_false]
    simp

theorem run_headerProg (a : Bytes) (vals : List Nat) (ks : List (Bytes × FK)) :
    V5.runWrites a vals (headerProg ks) =
      (q :: Key.Header ++ [q, 58]) ++ render (.obj (membersOf ks 0 vals)) ++ [44] := by
  simp [headerProg, runWrites_append, V5.runWrites, run_membersProg, render, q]

theorem run_agentProg (a : Bytes) (vals : List Nat) :
    V5.runWrites a vals agentProg = (q :: Key.AgentID ++ [q, 58]) ++ render (.str a) ++ [44] := by
  simp [agentProg, V5.runWrites, render, q]

theorem noIp_agentProg : noIp agentProg = true := by decide
theorem noIp_ipfixHeaderProg : noIp ipfixHeaderProg = true := by decide
theorem noIp_v9HeaderProg : noIp v9HeaderProg = true := by decide

/-! ## Data sets -/

theorem renderList_listOf (l : List Json) : renderList (listOf l) = joinComma (l.map render) := by
  induction l with
  | nil => rfl
  | cons x xs ih =>
    cases xs with
    | nil => rfl
    | cons y ys =>
      simp only [listOf, renderList, List.map, joinComma] at ih ⊢
      rw [ih]

theorem render_valJson (v : Val) (ft : Bytes) : render (valJson v ft) = writeValue v ft := by
  cases v with
  | bool b => cases b <;> simp [valJson, writeValue, render]
  | f32 bits => simp only [valJson, writeValue]; split <;> simp [render, quoted, q]
  | f64 bits => simp only [valJson, writeValue]; split <;> simp [render, quoted, q]
  | _ => simp [valJson, writeValue, render, quoted, q]

theorem render_fieldTree (f : JField) : render (fieldTree f) = fieldJson f := by
  simp only [fieldTree, fieldJson]
  split <;> simp [objOf, render, renderMembers, render_valJson, jnum, q, Key.I, Key.V, Key.E]

theorem render_recordTree (r : List JField) : render (recordTree r) = recordJson r := by
  simp [recordTree, recordJson, render, renderList_listOf, List.map_map, Function.comp_def, render_fieldTree]

theorem render_dataSetsTree (recs : List (List JField)) :
    (q :: Key.DataSets ++ [q, 58]) ++ render (dataSetsTree recs) = dataSetsJson recs := by
  simp [dataSetsTree, dataSetsJson, render, renderList_listOf, List.map_map, Function.comp_def,
    render_recordTree, dataSetsKey, Key.DataSets, q]

/-- the generic encoder run on the specification programs renders the message tree -/
theorem marshalFlow_spec (keys : List (Bytes × FK)) (hk : noIp (headerProg keys) = true)
    (a : Bytes) (hdr : List Nat) (recs : List (List JField)) :
    marshalFlow agentProg (headerProg keys) (ipBytes a) hdr recs = render (flowMsgTree keys a hdr recs) := by
  simp only [marshalFlow, runHdrWrites_eq_runWrites _ _ _ noIp_agentProg, runHdrWrites_eq_runWrites _ _ _ hk,
    run_agentProg, run_headerProg, ← render_dataSetsTree, flowMsgTree]
  simp [render, renderMembers, q]

/-! ## Well-formedness -/

/-- **the assumption on float text** (`strconv.FormatFloat(f,'E',-1,bits)` is not modelled): for a finite
bit pattern the text is a JSON number (Go prints `-?D(.D+)?E[+-]DD`), for a non-finite one it is a
string body (`NaN`, `+Inf`, `-Inf`).  Vacuous for every non-float field. -/
def FloatOk (f : JField) : Prop :=
  match f.val with
  | .f32 bits => if f32Finite bits then isNumber f.ftext = true else isStrBody f.ftext = true
  | .f64 bits => if f64Finite bits then isNumber f.ftext = true else isStrBody f.ftext = true
  | _ => True

instance (f : JField) : Decidable (FloatOk f) := by
  unfold FloatOk; split <;> infer_instance

theorem wf_listOf (l : List Json) (h : ∀ x ∈ l, WF x) : WFL (listOf l) := by
  induction l with
  | nil => simp [listOf, WFL]
  | cons x xs ih =>
    simp only [listOf, WFL]
    exact ⟨h x (by simp), ih (fun y hy => h y (by simp [hy]))⟩

theorem wf_jnum (n : Nat) : WF (jnum n) := by simp [jnum, WF, natDigits_isNumber]

theorem wf_valJson (f : JField) (h : FloatOk f) : WF (valJson f.val f.ftext) := by
  unfold FloatOk at h
  cases hv : f.val with
  | f32 bits => rw [hv] at h; simp only [valJson]; split <;> simp_all [WF]
  | f64 bits => rw [hv] at h; simp only [valJson]; split <;> simp_all [WF]
  | _ => simp [valJson, WF, natDigits_isNumber, intDigits_isNumber, escString_isStrBody, ipBytes_isStrBody,
      macBytes_isStrBody, rawText_isStrBody]

theorem wf_fieldTree (f : JField) (h : FloatOk f) : WF (fieldTree f) := by
  simp only [fieldTree]
  split <;> simp [objOf, WF, WFM, wf_jnum, wf_valJson f h] <;> decide

theorem wf_recordTree (r : List JField) (h : ∀ f ∈ r, FloatOk f) : WF (recordTree r) := by
  simp only [recordTree, WF]
  apply wf_listOf
  intro x hx
  rw [List.mem_map] at hx
  obtain ⟨f, hf, rfl⟩ := hx
  exact wf_fieldTree f (h f hf)

theorem wf_dataSetsTree (recs : List (List JField)) (h : ∀ r ∈ recs, ∀ f ∈ r, FloatOk f) :
    WF (dataSetsTree recs) := by
  simp only [dataSetsTree, WF]
  apply wf_listOf
  intro x hx
  rw [List.mem_map] at hx
  obtain ⟨r, hr, rfl⟩ := hx
  exact wf_recordTree r (h r hr)

theorem wf_memberTree (fk : FK) (v : Nat) : WF (memberTree fk v) := by
  cases fk <;> simp [memberTree, WF, wf_jnum, ip4Bytes_isStrBody]

def keysOk (ks : List (Bytes × FK)) : Bool := ks.all fun k => isStrBody k.1

theorem wf_membersOf (ks : List (Bytes × FK)) (i : Nat) (vals : List Nat) (h : keysOk ks = true) :
    WFM (membersOf ks i vals) := by
  induction ks generalizing i with
  | nil => simp [membersOf, WFM]
  | cons kf ks ih =>
    obtain ⟨k, fk⟩ := kf
    simp only [keysOk, List.all_cons, Bool.and_eq_true] at h
    simp only [membersOf, WFM]
    exact ⟨h.1, wf_memberTree _ _, ih _ h.2⟩

theorem wf_flowMsgTree (keys : List (Bytes × FK)) (hk : keysOk keys = true) (a : Bytes) (hdr : List Nat)
    (recs : List (List JField)) (h : ∀ r ∈ recs, ∀ f ∈ r, FloatOk f) : WF (flowMsgTree keys a hdr recs) := by
  simp only [flowMsgTree, WF, WFM]
  exact ⟨by decide, ipBytes_isStrBody a, by decide, wf_membersOf _ _ _ hk, by decide, wf_dataSetsTree recs h, trivial⟩


/-! ## NetFlow v5 -/

theorem render_v5FlowTree (a : Bytes) (f : List Nat) :
    render (v5FlowTree f) = [123] ++ V5.runWrites a f v5FlowProg ++ [125] := by
  simp [v5FlowTree_eq, render, v5FlowProg, run_membersProg]

theorem renderList_flows (a : Bytes) (fs : List (List Nat)) :
    renderList (listOf (fs.map v5FlowTree)) = V5.flowsJson a v5FlowProg fs := by
  induction fs with
  | nil => rfl
  | cons f fs ih =>
    cases fs with
    | nil => simp [listOf, renderList, V5.flowsJson, render_v5FlowTree a]
    | cons g gs =>
      simp only [listOf, renderList, List.map, V5.flowsJson] at ih ⊢
      rw [ih, render_v5FlowTree a]; simp

theorem marshalWith_spec (a : Bytes) (m : V5.Msg) :
    V5.marshalWith agentProg (headerProg v5HeaderKeys) v5FlowProg (ipBytes a) m = render (v5Tree a m) := by
  simp only [V5.marshalWith, run_agentProg, run_headerProg, v5Tree_eq]
  simp [render, renderMembers, q, renderList_flows (ipBytes a), V5.flowsKey, Key.Flows]

theorem wf_v5Tree (a : Bytes) (m : V5.Msg) : WF (v5Tree a m) := by
  simp only [v5Tree_eq, WF, WFM]
  refine ⟨by decide, ipBytes_isStrBody a, by decide, wf_membersOf _ _ _ (by decide), by decide, ?_, trivial⟩
  apply wf_listOf
  intro x hx
  rw [List.mem_map] at hx
  obtain ⟨f, _, rfl⟩ := hx
  rw [v5FlowTree_eq]
  simp only [WF]
  exact wf_membersOf v5FlowKeys 0 f (by decide)


/-! ## From the regenerated programs to the specification programs -/

theorem marshalFlow_congr {pa pa' ph ph' : List W} (ha : normalize pa = normalize pa')
    (hh : normalize ph = normalize ph') (a : Bytes) (hdr : List Nat) (recs : List (List JField)) :
    marshalFlow pa ph a hdr recs = marshalFlow pa' ph' a hdr recs := by
  simp only [marshalFlow]
  rw [← runHdrWrites_normalize a hdr pa, ← runHdrWrites_normalize a hdr ph, ha, hh,
    runHdrWrites_normalize, runHdrWrites_normalize]

theorem marshalWith_congr {pa pa' ph ph' pf pf' : List W} (ha : normalize pa = normalize pa')
    (hh : normalize ph = normalize ph') (hf : normalize pf = normalize pf') (a : Bytes) (m : V5.Msg) :
    V5.marshalWith pa ph pf a m = V5.marshalWith pa' ph' pf' a m := by
  have hfl : ∀ fs, V5.flowsJson a pf fs = V5.flowsJson a pf' fs := by
    intro fs
    induction fs with
    | nil => rfl
    | cons f fs ih =>
      have e : V5.runWrites a f pf = V5.runWrites a f pf' := by
        rw [← runWrites_normalize a f pf, hf, runWrites_normalize]
      cases fs with
      | nil => simp only [V5.flowsJson, e]
      | cons g gs => simp only [V5.flowsJson, e] at ih ⊢; rw [ih]
  simp only [V5.marshalWith, hfl]
  rw [← runWrites_normalize a m.hdr pa, ← runWrites_normalize a m.hdr ph, ha, hh,
    runWrites_normalize, runWrites_normalize]

end Vflow.JsonTree
