import Vflow.Proofs.V9IR
import Vflow.Proofs.IpfixIRTpl
/-!
# The translated `unmarshal` functions of `netflow/v9/decoder.go` are the model's readers (`Vflow.V9`)
-/
set_option linter.unusedSimpArgs false
namespace Vflow.V9IR
open Vflow Vflow.IpfixIR

/-! ## field selection on the NetFlow v9 structs -/
section fields9
variable (h : PHdr) (a : Bytes) (s : List Record) (tid cnt olen oslen id len n : Nat)
@[simp] theorem f_thdr9_tid : fieldOf (.thdr9 tid cnt olen oslen) "TemplateID" = some (.int tid) := by simp [fieldOf]
@[simp] theorem f_thdr9_cnt : fieldOf (.thdr9 tid cnt olen oslen) "FieldCount" = some (.int cnt) := by simp [fieldOf]
@[simp] theorem f_thdr9_olen : fieldOf (.thdr9 tid cnt olen oslen) "OptionLen" = some (.int olen) := by simp [fieldOf]
@[simp] theorem f_thdr9_oslen : fieldOf (.thdr9 tid cnt olen oslen) "OptionScopeLen" = some (.int oslen) := by simp [fieldOf]
@[simp] theorem sf_thdr9_tid : setField (.thdr9 tid cnt olen oslen) "TemplateID" (.int n) = some (.thdr9 n cnt olen oslen) := by simp [setField]
@[simp] theorem sf_thdr9_cnt : setField (.thdr9 tid cnt olen oslen) "FieldCount" (.int n) = some (.thdr9 tid n olen oslen) := by simp [setField]
@[simp] theorem sf_thdr9_olen : setField (.thdr9 tid cnt olen oslen) "OptionLen" (.int n) = some (.thdr9 tid cnt n oslen) := by simp [setField]
@[simp] theorem sf_thdr9_oslen : setField (.thdr9 tid cnt olen oslen) "OptionScopeLen" (.int n) = some (.thdr9 tid cnt olen n) := by simp [setField]
@[simp] theorem f_shdr_fid : fieldOf (.shdr id len) "FlowSetID" = some (.int id) := by simp [fieldOf]
@[simp] theorem sf_shdr_fid : setField (.shdr id len) "FlowSetID" (.int n) = some (.shdr n len) := by simp [setField]
@[simp] theorem f_phdr_ver : fieldOf (.phdr h) "Version" = some (.int h.ver) := by simp [fieldOf]
@[simp] theorem f_phdr_cnt : fieldOf (.phdr h) "Count" = some (.int h.cnt) := by simp [fieldOf]
@[simp] theorem f_phdr_up : fieldOf (.phdr h) "SysUpTime" = some (.int h.up) := by simp [fieldOf]
@[simp] theorem f_phdr_secs : fieldOf (.phdr h) "UNIXSecs" = some (.int h.secs) := by simp [fieldOf]
@[simp] theorem f_phdr_sq : fieldOf (.phdr h) "SeqNum" = some (.int h.sq) := by simp [fieldOf]
@[simp] theorem f_phdr_src : fieldOf (.phdr h) "SrcID" = some (.int h.src) := by simp [fieldOf]
@[simp] theorem sf_phdr_ver : setField (.phdr h) "Version" (.int n) = some (.phdr { h with ver := n }) := by simp [setField]
@[simp] theorem sf_phdr_cnt : setField (.phdr h) "Count" (.int n) = some (.phdr { h with cnt := n }) := by simp [setField]
@[simp] theorem sf_phdr_up : setField (.phdr h) "SysUpTime" (.int n) = some (.phdr { h with up := n }) := by simp [setField]
@[simp] theorem sf_phdr_secs : setField (.phdr h) "UNIXSecs" (.int n) = some (.phdr { h with secs := n }) := by simp [setField]
@[simp] theorem sf_phdr_sq : setField (.phdr h) "SeqNum" (.int n) = some (.phdr { h with sq := n }) := by simp [setField]
@[simp] theorem sf_phdr_src : setField (.phdr h) "SrcID" (.int n) = some (.phdr { h with src := n }) := by simp [setField]
@[simp] theorem f_msg9_agent : fieldOf (.msg9 a h s) "AgentID" = some (.bytes a) := by simp [fieldOf]
@[simp] theorem f_msg9_hdr : fieldOf (.msg9 a h s) "Header" = some (.phdr h) := by simp [fieldOf]
@[simp] theorem f_msg9_sets : fieldOf (.msg9 a h s) "DataSets" = some (.dsets s) := by simp [fieldOf]
@[simp] theorem sf_msg9_agent (b : Bytes) : setField (.msg9 a h s) "AgentID" (.bytes b) = some (.msg9 b h s) := by simp [setField]
@[simp] theorem sf_msg9_hdr (h' : PHdr) : setField (.msg9 a h s) "Header" (.phdr h') = some (.msg9 a h' s) := by simp [setField]
@[simp] theorem sf_msg9_sets (s' : List Record) : setField (.msg9 a h s) "DataSets" (.dsets s') = some (.msg9 a h s') := by simp [setField]
end fields9

/-! ## the `unmarshal` functions -/

/-- `TemplateFieldSpecifier.unmarshal` against `V9.readSpec` (the struct has no enterprise number: the third component of
the model's `Spec` stays 0) -/
theorem fieldSpecUnmarshal_sem (addr : Bytes) (fuel : Nat) (r : Rd) (c : Cache) (s0 : Spec) (h0 : s0.ent = 0) :
    SpecOut (V9.readSpec r) c (V9Prog.fieldSpecUnmarshal addr fuel [.spec s0] ⟨r, c⟩) := by
  unfold V9Prog.fieldSpecUnmarshal Func.sem V9.readSpec SpecOut
  obtain ⟨id0, len0, ent0⟩ := s0
  simp only at h0; subst h0
  rcases h1 : r.rU16 with _ | ⟨id, r1⟩
  · exact ⟨⟨0, len0, 0⟩, by ir_simp [Gen.V9IR.fieldSpecUnmarshal, h1]⟩
  · simp only []
    rcases h2 : r1.rU16 with _ | ⟨len, r2⟩
    · exact ⟨⟨id, 0, 0⟩, by ir_simp [Gen.V9IR.fieldSpecUnmarshal, h1, h2]⟩
    · ir_simp [Gen.V9IR.fieldSpecUnmarshal, h1, h2]

theorem tplHeaderUnmarshal_sem (addr : Bytes) (fuel : Nat) (r : Rd) (c : Cache) (a b ol osl : Nat) :
    V9Prog.tplHeaderUnmarshal addr fuel [.thdr9 a b ol osl] ⟨r, c⟩ =
      match r.rU16 with
      | none => some (⟨r, c⟩, [.thdr9 0 b ol osl], [errReader])
      | some (tid, r1) =>
        match r1.rU16 with
        | none => some (⟨r1, c⟩, [.thdr9 tid 0 ol osl], [errReader])
        | some (n, r2) => some (⟨r2, c⟩, [.thdr9 tid n ol osl], [.nil]) := by
  unfold V9Prog.tplHeaderUnmarshal Func.sem
  rcases h1 : r.rU16 with _ | ⟨tid, r1⟩
  · ir_simp [Gen.V9IR.tplHeaderUnmarshal, h1]
  · rcases h2 : r1.rU16 with _ | ⟨n, r2⟩ <;> ir_simp [Gen.V9IR.tplHeaderUnmarshal, h1, h2]

/-- `TemplateHeader.unmarshalOpts`: TemplateID, OptionScopeLen, OptionLen -/
theorem tplHeaderUnmarshalOpts_sem (addr : Bytes) (fuel : Nat) (r : Rd) (c : Cache) (a b ol osl : Nat) :
    V9Prog.tplHeaderUnmarshalOpts addr fuel [.thdr9 a b ol osl] ⟨r, c⟩ =
      match r.rU16 with
      | none => some (⟨r, c⟩, [.thdr9 0 b ol osl], [errReader])
      | some (tid, r1) =>
        match r1.rU16 with
        | none => some (⟨r1, c⟩, [.thdr9 tid b ol 0], [errReader])
        | some (sl, r2) =>
          match r2.rU16 with
          | none => some (⟨r2, c⟩, [.thdr9 tid b 0 sl], [errReader])
          | some (l, r3) => some (⟨r3, c⟩, [.thdr9 tid b l sl], [.nil]) := by
  unfold V9Prog.tplHeaderUnmarshalOpts Func.sem
  rcases h1 : r.rU16 with _ | ⟨tid, r1⟩
  · ir_simp [Gen.V9IR.tplHeaderUnmarshalOpts, h1]
  · rcases h2 : r1.rU16 with _ | ⟨n, r2⟩
    · ir_simp [Gen.V9IR.tplHeaderUnmarshalOpts, h1, h2]
    · rcases h3 : r2.rU16 with _ | ⟨m, r3⟩ <;> ir_simp [Gen.V9IR.tplHeaderUnmarshalOpts, h1, h2, h3]

theorem setHeaderUnmarshal_sem (addr : Bytes) (fuel : Nat) (r : Rd) (c : Cache) (a b : Nat) :
    V9Prog.setHeaderUnmarshal addr fuel [.shdr a b] ⟨r, c⟩ =
      match r.rU16 with
      | none => some (⟨r, c⟩, [.shdr 0 b], [errReader])
      | some (sid, r1) =>
        match r1.rU16 with
        | none => some (⟨r1, c⟩, [.shdr sid 0], [errReader])
        | some (len, r2) => some (⟨r2, c⟩, [.shdr sid len], [.nil]) := by
  unfold V9Prog.setHeaderUnmarshal Func.sem
  rcases h1 : r.rU16 with _ | ⟨tid, r1⟩
  · ir_simp [Gen.V9IR.setHeaderUnmarshal, h1]
  · rcases h2 : r1.rU16 with _ | ⟨n, r2⟩ <;> ir_simp [Gen.V9IR.setHeaderUnmarshal, h1, h2]

/-- `PacketHeader.unmarshal` against `V9.readHeader` -/
theorem pktHeaderUnmarshal_sem (addr : Bytes) (fuel : Nat) (r : Rd) (c : Cache) (h0 : PHdr) :
    match V9.readHeader r with
    | some (h, r') => ∃ h1 : PHdr, h1.toHdr = h ∧
        V9Prog.pktHeaderUnmarshal addr fuel [.phdr h0] ⟨r, c⟩ = some (⟨r', c⟩, [.phdr h1], [.nil])
    | none => ∃ r' h1, V9Prog.pktHeaderUnmarshal addr fuel [.phdr h0] ⟨r, c⟩ = some (⟨r', c⟩, [.phdr h1], [errReader]) := by
  unfold V9Prog.pktHeaderUnmarshal Func.sem V9.readHeader
  rcases h1 : r.rU16 with _ | ⟨ver, r1⟩
  · exact ⟨r, { h0 with ver := 0 }, by ir_simp [Gen.V9IR.pktHeaderUnmarshal, h1]⟩
  · simp only []
    rcases h2 : r1.rU16 with _ | ⟨cnt, r2⟩
    · exact ⟨r1, { h0 with ver := ver, cnt := 0 }, by ir_simp [Gen.V9IR.pktHeaderUnmarshal, h1, h2]⟩
    · simp only []
      rcases h3 : r2.rU32 with _ | ⟨up, r3⟩
      · exact ⟨r2, { h0 with ver := ver, cnt := cnt, up := 0 }, by ir_simp [Gen.V9IR.pktHeaderUnmarshal, h1, h2, h3]⟩
      · simp only []
        rcases h4 : r3.rU32 with _ | ⟨secs, r4⟩
        · exact ⟨r3, { h0 with ver := ver, cnt := cnt, up := up, secs := 0 }, by ir_simp [Gen.V9IR.pktHeaderUnmarshal, h1, h2, h3, h4]⟩
        · simp only []
          rcases h5 : r4.rU32 with _ | ⟨sq, r5⟩
          · exact ⟨r4, { h0 with ver := ver, cnt := cnt, up := up, secs := secs, sq := 0 }, by ir_simp [Gen.V9IR.pktHeaderUnmarshal, h1, h2, h3, h4, h5]⟩
          · simp only []
            rcases h6 : r5.rU32 with _ | ⟨src, r6⟩
            · exact ⟨r5, ⟨ver, cnt, up, secs, sq, 0⟩, by ir_simp [Gen.V9IR.pktHeaderUnmarshal, h1, h2, h3, h4, h5, h6]⟩
            · exact ⟨⟨ver, cnt, up, secs, sq, src⟩, rfl, by ir_simp [Gen.V9IR.pktHeaderUnmarshal, h1, h2, h3, h4, h5, h6]⟩

theorem pktHeaderValidate_sem (addr : Bytes) (fuel : Nat) (st : St) (h : PHdr) :
    V9Prog.pktHeaderValidate addr fuel [.phdr h] st =
      some (st, [.phdr h], [if h.toHdr.headD 0 ≠ 9 then .err ⟨false, .badVersion⟩ else .nil]) := by
  unfold V9Prog.pktHeaderValidate Func.sem
  by_cases hv : h.ver = 9 <;> ir_simp [Gen.V9IR.pktHeaderValidate, hv, PHdr.toHdr]

/-! ### `TemplateRecord.unmarshal` / `unmarshalOpts` -/

def tru (i : Nat) : Stmt := Gen.V9IR.tplRecordUnmarshal.body.nth i
theorem tru_body : Gen.V9IR.tplRecordUnmarshal.body = blk [tru 0, tru 1, tru 2, tru 3, tru 4, tru 5, tru 6, tru 7, tru 8] := rfl
theorem tru7_shape : tru 7 = .loop (tru 7).loopCond (tru 7).loopBody (tru 7).loopPost := rfl
def truo (i : Nat) : Stmt := Gen.V9IR.tplRecordUnmarshalOpts.body.nth i
theorem truo_body : Gen.V9IR.tplRecordUnmarshalOpts.body =
    blk [truo 0, truo 1, truo 2, truo 3, truo 4, truo 5, truo 6, truo 7, truo 8, truo 9] := rfl
theorem truo6_shape : truo 6 = .loop (truo 6).loopCond (truo 6).loopBody (truo 6).loopPost := rfl
theorem truo8_shape : truo 8 = .loop (truo 8).loopCond (truo 8).loopBody (truo 8).loopPost := rfl

theorem readSpec_ok_len {r r' : Rd} {s : Spec} (h : V9.readSpec r = (.ok s, r')) : r'.rem.length + 4 ≤ r.rem.length := by
  have := V9.readSpec_adv h
  have h2 := this.2 s rfl
  have h1 := this.1.1
  omega

section
variable (addr : Bytes) (fuel : Nat) (c : Cache)

abbrev truLink : Linkage :=
  [("tplHeaderUnmarshal", V9Prog.tplHeaderUnmarshal addr fuel), ("fieldSpecUnmarshal", V9Prog.fieldSpecUnmarshal addr fuel)]
abbrev truoLink : Linkage :=
  [("tplHeaderUnmarshalOpts", V9Prog.tplHeaderUnmarshalOpts addr fuel), ("fieldSpecUnmarshal", V9Prog.fieldSpecUnmarshal addr fuel)]

/-- one iteration of the field loop: the specifier read is appended to `fields` -/
def tru7BodyOut (res : Except Err Spec × Rd) (tid cnt scnt : Nat) (scope acc : List Spec) (th : V) (i : Nat) (out : Res) : Prop :=
  match res with
  | (.ok s, r') => out = some (.norm, ⟨r', c⟩, [.tpl ⟨tid, cnt, scnt, scope, acc ++ [s]⟩, th, .spec s, .nil, .int i])
  | (.error e, r') => ErrOut c e r' out

theorem tru7_body (r : Rd) (tid cnt scnt : Nat) (scope acc : List Spec) (th e3 : V) (tf : Spec) (i : Nat) (htf : tf.ent = 0) :
    tru7BodyOut c (V9.readSpec r) tid cnt scnt scope acc th  i
      (exec addr (truLink addr fuel) fuel (tru 7).loopBody ⟨r, c⟩ [.tpl ⟨tid, cnt, scnt, scope, acc⟩, th, .spec tf, e3, .int i]) := by
  have hs := fieldSpecUnmarshal_sem addr fuel r c tf htf
  rcases hrs : V9.readSpec r with ⟨e | s, r'⟩
  · simp only [hrs, SpecOut] at hs
    obtain ⟨s', hs⟩ := hs
    refine ⟨⟨tid, cnt, scnt, scope, acc⟩, [th, .spec s', .err ⟨false, e⟩, .int i], ?_⟩
    ir_simp [tru7BodyOut, tru, Stmt.nth, Stmt.items, Stmt.loopBody, Gen.V9IR.tplRecordUnmarshal, hs]
  · simp only [hrs, SpecOut] at hs
    ir_simp [tru7BodyOut, tru, Stmt.nth, Stmt.items, Stmt.loopBody, Gen.V9IR.tplRecordUnmarshal, hs]

theorem tru7_cond (st : St) (t th tf e3 : V) (i : Nat) :
    eval addr st [t, th, tf, e3, .int i] (tru 7).loopCond = some (.bool (decide (i > 0))) := by
  ir_simp [tru, Stmt.nth, Stmt.items, Stmt.loopCond, Gen.V9IR.tplRecordUnmarshal]

theorem tru7_post (st : St) (t th tf e3 : V) (i : Nat) (hi : i + 1 < 65536) :
    exec addr (truLink addr fuel) fuel (tru 7).loopPost st [t, th, tf, e3, .int (i + 1)] =
      some (.norm, st, [t, th, tf, e3, .int i]) := by
  ir_simp [tru, Stmt.nth, Stmt.items, Stmt.loopPost, Gen.V9IR.tplRecordUnmarshal, subAt_u16_pred i hi]

/-- the field loop against `V9.readSpecs` -/
def tru7LoopOut (res : Except Err (List Spec) × Rd) (tid cnt scnt : Nat) (scope : List Spec) (th : V) (out : Res) : Prop :=
  match res with
  | (.ok fs, r') => ∃ (tf' : Spec) (e3' : V), tf'.ent = 0 ∧ out = some (.norm, ⟨r', c⟩, [.tpl ⟨tid, cnt, scnt, scope, fs⟩, th, .spec tf', e3', .int 0])
  | (.error e, r') => ErrOut c e r' out

theorem tru7_loop (tid cnt scnt : Nat) (scope : List Spec) (th : V) :
    ∀ (i k : Nat) (r : Rd) (acc : List Spec) (tf : Spec) (e3 : V), tf.ent = 0 → i < 65536 → r.rem.length < k →
    tru7LoopOut c (V9.readSpecs i r acc) tid cnt scnt scope th 
      (loopF (fun st env => eval addr st env (tru 7).loopCond) (exec addr (truLink addr fuel) fuel (tru 7).loopBody)
        (exec addr (truLink addr fuel) fuel (tru 7).loopPost) k ⟨r, c⟩ [.tpl ⟨tid, cnt, scnt, scope, acc⟩, th, .spec tf, e3, .int i]) := by
  intro i
  induction i with
  | zero =>
    intro k r acc tf e3 htf _ hk
    obtain ⟨k, rfl⟩ : ∃ k', k = k' + 1 := ⟨k - 1, by omega⟩
    simp only [V9.readSpecs, tru7LoopOut, loopF, tru7_cond, Nat.lt_irrefl, gt_iff_lt, decide_false]
    exact ⟨tf, e3, htf, rfl⟩
  | succ i ih =>
    intro k r acc tf e3 htf hi hk
    obtain ⟨k, rfl⟩ : ∃ k', k = k' + 1 := ⟨k - 1, by omega⟩
    have hb := tru7_body addr fuel c r tid cnt scnt scope acc th e3  tf (i + 1) htf
    simp only [V9.readSpecs, loopF, tru7_cond, gt_iff_lt, Nat.zero_lt_succ, decide_true]
    rcases hrs : V9.readSpec r with ⟨e | s, r'⟩
    · simp only [hrs, tru7BodyOut] at hb
      obtain ⟨t', rest, hb⟩ := hb
      simp only [hb, tru7LoopOut]
      exact ⟨t', rest, rfl⟩
    · simp only [hrs, tru7BodyOut] at hb
      simp only [hb, tru7_post addr fuel _ _ _ _ _  i hi]
      have hs0 : s.ent = 0 := by
        unfold V9.readSpec at hrs
        split at hrs
        · simp at hrs
        · split at hrs
          · simp at hrs
          · simp at hrs; rw [← hrs.1]
      exact ih k r' (acc ++ [s]) s .nil hs0 (by omega) (by have := readSpec_ok_len hrs; omega)

/-- one iteration of the scope loop: the specifier read is appended to `scope` -/
def truo6BodyOut (res : Except Err Spec × Rd) (tid cnt scnt : Nat) (fields acc : List Spec) (th x5 : V) (i : Nat) (out : Res) : Prop :=
  match res with
  | (.ok s, r') => out = some (.norm, ⟨r', c⟩, [.tpl ⟨tid, cnt, scnt, acc ++ [s], fields⟩, th, .spec s, .nil, .int i, x5])
  | (.error e, r') => ErrOut c e r' out

theorem truo6_body (r : Rd) (tid cnt scnt : Nat) (fields acc : List Spec) (th e3 x5 : V) (tf : Spec) (i : Nat) (htf : tf.ent = 0) :
    truo6BodyOut c (V9.readSpec r) tid cnt scnt fields acc th x5 i
      (exec addr (truoLink addr fuel) fuel (truo 6).loopBody ⟨r, c⟩ [.tpl ⟨tid, cnt, scnt, acc, fields⟩, th, .spec tf, e3, .int i, x5]) := by
  have hs := fieldSpecUnmarshal_sem addr fuel r c tf htf
  rcases hrs : V9.readSpec r with ⟨e | s, r'⟩
  · simp only [hrs, SpecOut] at hs
    obtain ⟨s', hs⟩ := hs
    refine ⟨⟨tid, cnt, scnt, acc, fields⟩, [th, .spec s', .err ⟨false, e⟩, .int i, x5], ?_⟩
    ir_simp [truo6BodyOut, truo, Stmt.nth, Stmt.items, Stmt.loopBody, Gen.V9IR.tplRecordUnmarshalOpts, hs]
  · simp only [hrs, SpecOut] at hs
    ir_simp [truo6BodyOut, truo, Stmt.nth, Stmt.items, Stmt.loopBody, Gen.V9IR.tplRecordUnmarshalOpts, hs]

theorem truo6_cond (st : St) (t th tf e3 x5 : V) (i : Nat) :
    eval addr st [t, th, tf, e3, .int i, x5] (truo 6).loopCond = some (.bool (decide (i > 0))) := by
  ir_simp [truo, Stmt.nth, Stmt.items, Stmt.loopCond, Gen.V9IR.tplRecordUnmarshalOpts]

theorem truo6_post (st : St) (t th tf e3 x5 : V) (i : Nat) (hi : i + 1 < 65536) :
    exec addr (truoLink addr fuel) fuel (truo 6).loopPost st [t, th, tf, e3, .int (i + 1), x5] =
      some (.norm, st, [t, th, tf, e3, .int i, x5]) := by
  ir_simp [truo, Stmt.nth, Stmt.items, Stmt.loopPost, Gen.V9IR.tplRecordUnmarshalOpts, subAt_u16_pred i hi]

/-- the scope loop against `V9.readSpecs` -/
def truo6LoopOut (res : Except Err (List Spec) × Rd) (tid cnt scnt : Nat) (fields : List Spec) (th x5 : V) (out : Res) : Prop :=
  match res with
  | (.ok fs, r') => ∃ (tf' : Spec) (e3' : V), tf'.ent = 0 ∧ out = some (.norm, ⟨r', c⟩, [.tpl ⟨tid, cnt, scnt, fs, fields⟩, th, .spec tf', e3', .int 0, x5])
  | (.error e, r') => ErrOut c e r' out

theorem truo6_loop (tid cnt scnt : Nat) (fields : List Spec) (th x5 : V) :
    ∀ (i k : Nat) (r : Rd) (acc : List Spec) (tf : Spec) (e3 : V), tf.ent = 0 → i < 65536 → r.rem.length < k →
    truo6LoopOut c (V9.readSpecs i r acc) tid cnt scnt fields th x5
      (loopF (fun st env => eval addr st env (truo 6).loopCond) (exec addr (truoLink addr fuel) fuel (truo 6).loopBody)
        (exec addr (truoLink addr fuel) fuel (truo 6).loopPost) k ⟨r, c⟩ [.tpl ⟨tid, cnt, scnt, acc, fields⟩, th, .spec tf, e3, .int i, x5]) := by
  intro i
  induction i with
  | zero =>
    intro k r acc tf e3 htf _ hk
    obtain ⟨k, rfl⟩ : ∃ k', k = k' + 1 := ⟨k - 1, by omega⟩
    simp only [V9.readSpecs, truo6LoopOut, loopF, truo6_cond, Nat.lt_irrefl, gt_iff_lt, decide_false]
    exact ⟨tf, e3, htf, rfl⟩
  | succ i ih =>
    intro k r acc tf e3 htf hi hk
    obtain ⟨k, rfl⟩ : ∃ k', k = k' + 1 := ⟨k - 1, by omega⟩
    have hb := truo6_body addr fuel c r tid cnt scnt fields acc th e3 x5 tf (i + 1) htf
    simp only [V9.readSpecs, loopF, truo6_cond, gt_iff_lt, Nat.zero_lt_succ, decide_true]
    rcases hrs : V9.readSpec r with ⟨e | s, r'⟩
    · simp only [hrs, truo6BodyOut] at hb
      obtain ⟨t', rest, hb⟩ := hb
      simp only [hb, truo6LoopOut]
      exact ⟨t', rest, rfl⟩
    · simp only [hrs, truo6BodyOut] at hb
      simp only [hb, truo6_post addr fuel _ _ _ _ _ _ i hi]
      have hs0 : s.ent = 0 := by
        unfold V9.readSpec at hrs
        split at hrs
        · simp at hrs
        · split at hrs
          · simp at hrs
          · simp at hrs; rw [← hrs.1]
      exact ih k r' (acc ++ [s]) s .nil hs0 (by omega) (by have := readSpec_ok_len hrs; omega)

/-- one iteration of the option field loop: the specifier read is appended to `fields` -/
def truo8BodyOut (res : Except Err Spec × Rd) (tid cnt scnt : Nat) (scope acc : List Spec) (th x4 : V) (i : Nat) (out : Res) : Prop :=
  match res with
  | (.ok s, r') => out = some (.norm, ⟨r', c⟩, [.tpl ⟨tid, cnt, scnt, scope, acc ++ [s]⟩, th, .spec s, .nil, x4, .int i])
  | (.error e, r') => ErrOut c e r' out

theorem truo8_body (r : Rd) (tid cnt scnt : Nat) (scope acc : List Spec) (th e3 x4 : V) (tf : Spec) (i : Nat) (htf : tf.ent = 0) :
    truo8BodyOut c (V9.readSpec r) tid cnt scnt scope acc th x4 i
      (exec addr (truoLink addr fuel) fuel (truo 8).loopBody ⟨r, c⟩ [.tpl ⟨tid, cnt, scnt, scope, acc⟩, th, .spec tf, e3, x4, .int i]) := by
  have hs := fieldSpecUnmarshal_sem addr fuel r c tf htf
  rcases hrs : V9.readSpec r with ⟨e | s, r'⟩
  · simp only [hrs, SpecOut] at hs
    obtain ⟨s', hs⟩ := hs
    refine ⟨⟨tid, cnt, scnt, scope, acc⟩, [th, .spec s', .err ⟨false, e⟩, x4, .int i], ?_⟩
    ir_simp [truo8BodyOut, truo, Stmt.nth, Stmt.items, Stmt.loopBody, Gen.V9IR.tplRecordUnmarshalOpts, hs]
  · simp only [hrs, SpecOut] at hs
    ir_simp [truo8BodyOut, truo, Stmt.nth, Stmt.items, Stmt.loopBody, Gen.V9IR.tplRecordUnmarshalOpts, hs]

theorem truo8_cond (st : St) (t th tf e3 x4 : V) (i : Nat) :
    eval addr st [t, th, tf, e3, x4, .int i] (truo 8).loopCond = some (.bool (decide (i > 0))) := by
  ir_simp [truo, Stmt.nth, Stmt.items, Stmt.loopCond, Gen.V9IR.tplRecordUnmarshalOpts]

theorem truo8_post (st : St) (t th tf e3 x4 : V) (i : Nat) (hi : i + 1 < 65536) :
    exec addr (truoLink addr fuel) fuel (truo 8).loopPost st [t, th, tf, e3, x4, .int (i + 1)] =
      some (.norm, st, [t, th, tf, e3, x4, .int i]) := by
  ir_simp [truo, Stmt.nth, Stmt.items, Stmt.loopPost, Gen.V9IR.tplRecordUnmarshalOpts, subAt_u16_pred i hi]

/-- the option field loop against `V9.readSpecs` -/
def truo8LoopOut (res : Except Err (List Spec) × Rd) (tid cnt scnt : Nat) (scope : List Spec) (th x4 : V) (out : Res) : Prop :=
  match res with
  | (.ok fs, r') => ∃ (tf' : Spec) (e3' : V), tf'.ent = 0 ∧ out = some (.norm, ⟨r', c⟩, [.tpl ⟨tid, cnt, scnt, scope, fs⟩, th, .spec tf', e3', x4, .int 0])
  | (.error e, r') => ErrOut c e r' out

theorem truo8_loop (tid cnt scnt : Nat) (scope : List Spec) (th x4 : V) :
    ∀ (i k : Nat) (r : Rd) (acc : List Spec) (tf : Spec) (e3 : V), tf.ent = 0 → i < 65536 → r.rem.length < k →
    truo8LoopOut c (V9.readSpecs i r acc) tid cnt scnt scope th x4
      (loopF (fun st env => eval addr st env (truo 8).loopCond) (exec addr (truoLink addr fuel) fuel (truo 8).loopBody)
        (exec addr (truoLink addr fuel) fuel (truo 8).loopPost) k ⟨r, c⟩ [.tpl ⟨tid, cnt, scnt, scope, acc⟩, th, .spec tf, e3, x4, .int i]) := by
  intro i
  induction i with
  | zero =>
    intro k r acc tf e3 htf _ hk
    obtain ⟨k, rfl⟩ : ∃ k', k = k' + 1 := ⟨k - 1, by omega⟩
    simp only [V9.readSpecs, truo8LoopOut, loopF, truo8_cond, Nat.lt_irrefl, gt_iff_lt, decide_false]
    exact ⟨tf, e3, htf, rfl⟩
  | succ i ih =>
    intro k r acc tf e3 htf hi hk
    obtain ⟨k, rfl⟩ : ∃ k', k = k' + 1 := ⟨k - 1, by omega⟩
    have hb := truo8_body addr fuel c r tid cnt scnt scope acc th e3 x4 tf (i + 1) htf
    simp only [V9.readSpecs, loopF, truo8_cond, gt_iff_lt, Nat.zero_lt_succ, decide_true]
    rcases hrs : V9.readSpec r with ⟨e | s, r'⟩
    · simp only [hrs, truo8BodyOut] at hb
      obtain ⟨t', rest, hb⟩ := hb
      simp only [hb, truo8LoopOut]
      exact ⟨t', rest, rfl⟩
    · simp only [hrs, truo8BodyOut] at hb
      simp only [hb, truo8_post addr fuel _ _ _ _ _ _ i hi]
      have hs0 : s.ent = 0 := by
        unfold V9.readSpec at hrs
        split at hrs
        · simp at hrs
        · split at hrs
          · simp at hrs
          · simp at hrs; rw [← hrs.1]
      exact ih k r' (acc ++ [s]) s .nil hs0 (by omega) (by have := readSpec_ok_len hrs; omega)
end

theorem tplRecordUnmarshal_sem (addr : Bytes) (fuel : Nat) (r : Rd) (c : Cache) (hfuel : r.rem.length < fuel) :
    TplOut (V9.parseTpl r) c (V9Prog.tplRecordUnmarshal addr fuel [.tpl V9.emptyTpl] ⟨r, c⟩) := by
  unfold V9Prog.tplRecordUnmarshal Func.sem
  have henv : ([V.tpl V9.emptyTpl] ++ List.replicate (Gen.V9IR.tplRecordUnmarshal.nslots - [V.tpl V9.emptyTpl].length) V.unset) =
      [.tpl ⟨0, 0, 0, [], []⟩, .unset, .unset, .unset, .unset] := rfl
  rw [henv, tru_body]
  have e0 : ∀ (st : St) x0 x1 x2 x3 x4, exec addr (truLink addr fuel) fuel (tru 0) st [x0, x1, x2, x3, x4] =
      some (.norm, st, [x0, .thdr9 0 0 0 0, x2, x3, x4]) := by
    intros; ir_simp [tru, Stmt.nth, Stmt.items, Gen.V9IR.tplRecordUnmarshal]
  have e1 : ∀ (st : St) x0 x1 x2 x3 x4, exec addr (truLink addr fuel) fuel (tru 1) st [x0, x1, x2, x3, x4] =
      some (.norm, st, [x0, x1, .spec ⟨0, 0, 0⟩, x3, x4]) := by
    intros; ir_simp [tru, Stmt.nth, Stmt.items, Gen.V9IR.tplRecordUnmarshal]
  have e2 : ∀ (st : St) x0 x1 x2 x3 x4, exec addr (truLink addr fuel) fuel (tru 2) st [x0, x1, x2, x3, x4] =
      some (.norm, st, [x0, x1, x2, .nil, x4]) := by
    intros; ir_simp [tru, Stmt.nth, Stmt.items, Gen.V9IR.tplRecordUnmarshal]
  have e3 : ∀ x0 x2 x3 x4, exec addr (truLink addr fuel) fuel (tru 3) ⟨r, c⟩ [x0, .thdr9 0 0 0 0, x2, x3, x4] =
      match r.rU16 with
      | none => some (.ret [errReader], ⟨r, c⟩, [x0, .thdr9 0 0 0 0, x2, errReader, x4])
      | some (tid, r1) =>
        match r1.rU16 with
        | none => some (.ret [errReader], ⟨r1, c⟩, [x0, .thdr9 tid 0 0 0, x2, errReader, x4])
        | some (n, r2) => some (.norm, ⟨r2, c⟩, [x0, .thdr9 tid n 0 0, x2, .nil, x4]) := by
    intros
    have hh := tplHeaderUnmarshal_sem addr fuel r c 0 0 0 0
    rcases h1 : r.rU16 with _ | ⟨tid, r1⟩
    · simp only [h1] at hh
      ir_simp [tru, Stmt.nth, Stmt.items, Gen.V9IR.tplRecordUnmarshal, hh]
    · simp only []
      rcases h2 : r1.rU16 with _ | ⟨n, r2⟩ <;> simp only [h1, h2] at hh <;>
        ir_simp [tru, Stmt.nth, Stmt.items, Gen.V9IR.tplRecordUnmarshal, hh]
  have e4 : ∀ (st : St) (t : Template) tid n a b x2 x3 x4, exec addr (truLink addr fuel) fuel (tru 4) st [.tpl t, .thdr9 tid n a b, x2, x3, x4] =
      some (.norm, st, [.tpl { t with tid := tid }, .thdr9 tid n a b, x2, x3, x4]) := by
    intros; ir_simp [tru, Stmt.nth, Stmt.items, Gen.V9IR.tplRecordUnmarshal]
  have e5 : ∀ (st : St) (t : Template) tid n a b x2 x3 x4, exec addr (truLink addr fuel) fuel (tru 5) st [.tpl t, .thdr9 tid n a b, x2, x3, x4] =
      some (.norm, st, [.tpl { t with cnt := n }, .thdr9 tid n a b, x2, x3, x4]) := by
    intros; ir_simp [tru, Stmt.nth, Stmt.items, Gen.V9IR.tplRecordUnmarshal]
  have e6 : ∀ (st : St) x0 tid n a b x2 x3 x4, exec addr (truLink addr fuel) fuel (tru 6) st [x0, .thdr9 tid n a b, x2, x3, x4] =
      some (.norm, st, [x0, .thdr9 tid n a b, x2, x3, .int n]) := by
    intros; ir_simp [tru, Stmt.nth, Stmt.items, Gen.V9IR.tplRecordUnmarshal]
  have e8 : ∀ (st : St) env, exec addr (truLink addr fuel) fuel (tru 8) st env = some (.ret [.nil], st, env) := by
    intros; ir_simp [tru, Stmt.nth, Stmt.items, Gen.V9IR.tplRecordUnmarshal]
  simp only [blk, exec, e0, e1, e2, e3]
  unfold V9.parseTpl TplOut
  rcases h1 : r.rU16 with _ | ⟨tid, r1⟩
  · exact ⟨⟨0, 0, 0, [], []⟩, by simp [Gen.V9IR.tplRecordUnmarshal, readSlots, refSlots, List.filter, ParamKind.hasSlot, errReader]⟩
  · simp only []
    rcases h2 : r1.rU16 with _ | ⟨n, r2⟩
    · exact ⟨⟨0, 0, 0, [], []⟩, by simp [Gen.V9IR.tplRecordUnmarshal, readSlots, refSlots, List.filter, ParamKind.hasSlot, errReader]⟩
    · simp only [e4, e5, e6]
      rw [tru7_shape]
      simp only [exec]
      have hr2 : r2.rem.length < fuel := by
        have a1 := (adv_rU16 h1).1; have a2 := (adv_rU16 h2).1
        have := a1.1; have := a1.2; have := a2.1; have := a2.2; omega
      have hl := tru7_loop addr fuel c tid n 0 [] (.thdr9 tid n 0 0) n fuel r2 [] ⟨0, 0, 0⟩ .nil rfl (rU16_lt h2) hr2
      rcases hrs : V9.readSpecs n r2 [] with ⟨e | fs, r3⟩
      · simp only [hrs, tru7LoopOut] at hl
        obtain ⟨t', rest, hl⟩ := hl
        exact ⟨t', by simp [hl, Gen.V9IR.tplRecordUnmarshal, readSlots, refSlots, List.filter, ParamKind.hasSlot]⟩
      · simp only [hrs, tru7LoopOut] at hl
        obtain ⟨tf', e3', _, hl⟩ := hl
        simp [hl, e8, Gen.V9IR.tplRecordUnmarshal, readSlots, refSlots, List.filter, ParamKind.hasSlot]

theorem tplRecordUnmarshalOpts_sem (addr : Bytes) (fuel : Nat) (r : Rd) (c : Cache) (hfuel : r.rem.length < fuel) :
    TplOut (V9.parseOptTpl r) c (V9Prog.tplRecordUnmarshalOpts addr fuel [.tpl V9.emptyTpl] ⟨r, c⟩) := by
  unfold V9Prog.tplRecordUnmarshalOpts Func.sem
  have henv : ([V.tpl V9.emptyTpl] ++ List.replicate (Gen.V9IR.tplRecordUnmarshalOpts.nslots - [V.tpl V9.emptyTpl].length) V.unset) =
      [.tpl ⟨0, 0, 0, [], []⟩, .unset, .unset, .unset, .unset, .unset] := rfl
  rw [henv, truo_body]
  have e0 : ∀ (st : St) x0 x1 x2 x3 x4 x5, exec addr (truoLink addr fuel) fuel (truo 0) st [x0, x1, x2, x3, x4, x5] =
      some (.norm, st, [x0, .thdr9 0 0 0 0, x2, x3, x4, x5]) := by
    intros; ir_simp [truo, Stmt.nth, Stmt.items, Gen.V9IR.tplRecordUnmarshalOpts]
  have e1 : ∀ (st : St) x0 x1 x2 x3 x4 x5, exec addr (truoLink addr fuel) fuel (truo 1) st [x0, x1, x2, x3, x4, x5] =
      some (.norm, st, [x0, x1, .spec ⟨0, 0, 0⟩, x3, x4, x5]) := by
    intros; ir_simp [truo, Stmt.nth, Stmt.items, Gen.V9IR.tplRecordUnmarshalOpts]
  have e2 : ∀ (st : St) x0 x1 x2 x3 x4 x5, exec addr (truoLink addr fuel) fuel (truo 2) st [x0, x1, x2, x3, x4, x5] =
      some (.norm, st, [x0, x1, x2, .nil, x4, x5]) := by
    intros; ir_simp [truo, Stmt.nth, Stmt.items, Gen.V9IR.tplRecordUnmarshalOpts]
  have e3 : ∀ x0 x2 x3 x4 x5, exec addr (truoLink addr fuel) fuel (truo 3) ⟨r, c⟩ [x0, .thdr9 0 0 0 0, x2, x3, x4, x5] =
      match r.rU16 with
      | none => some (.ret [errReader], ⟨r, c⟩, [x0, .thdr9 0 0 0 0, x2, errReader, x4, x5])
      | some (tid, r1) =>
        match r1.rU16 with
        | none => some (.ret [errReader], ⟨r1, c⟩, [x0, .thdr9 tid 0 0 0, x2, errReader, x4, x5])
        | some (sl, r2) =>
          match r2.rU16 with
          | none => some (.ret [errReader], ⟨r2, c⟩, [x0, .thdr9 tid 0 0 sl, x2, errReader, x4, x5])
          | some (l, r3) => some (.norm, ⟨r3, c⟩, [x0, .thdr9 tid 0 l sl, x2, .nil, x4, x5]) := by
    intros
    have hh := tplHeaderUnmarshalOpts_sem addr fuel r c 0 0 0 0
    rcases h1 : r.rU16 with _ | ⟨tid, r1⟩
    · simp only [h1] at hh
      ir_simp [truo, Stmt.nth, Stmt.items, Gen.V9IR.tplRecordUnmarshalOpts, hh]
    · simp only []
      rcases h2 : r1.rU16 with _ | ⟨n, r2⟩
      · simp only [h1, h2] at hh
        ir_simp [truo, Stmt.nth, Stmt.items, Gen.V9IR.tplRecordUnmarshalOpts, hh]
      · simp only []
        rcases h3 : r2.rU16 with _ | ⟨sc, r3⟩ <;> simp only [h1, h2, h3] at hh <;>
          ir_simp [truo, Stmt.nth, Stmt.items, Gen.V9IR.tplRecordUnmarshalOpts, hh]
  have e4 : ∀ (st : St) (t : Template) tid n a b x2 x3 x4 x5, exec addr (truoLink addr fuel) fuel (truo 4) st [.tpl t, .thdr9 tid n a b, x2, x3, x4, x5] =
      some (.norm, st, [.tpl { t with tid := tid }, .thdr9 tid n a b, x2, x3, x4, x5]) := by
    intros; ir_simp [truo, Stmt.nth, Stmt.items, Gen.V9IR.tplRecordUnmarshalOpts]
  have e5 : ∀ (st : St) x0 tid n l sl x2 x3 x4 x5, exec addr (truoLink addr fuel) fuel (truo 5) st [x0, .thdr9 tid n l sl, x2, x3, x4, x5] =
      some (.norm, st, [x0, .thdr9 tid n l sl, x2, x3, .int (sl / 4), x5]) := by
    intros; ir_simp [truo, Stmt.nth, Stmt.items, Gen.V9IR.tplRecordUnmarshalOpts]
  have e7 : ∀ (st : St) x0 tid n l sl x2 x3 x4 x5, exec addr (truoLink addr fuel) fuel (truo 7) st [x0, .thdr9 tid n l sl, x2, x3, x4, x5] =
      some (.norm, st, [x0, .thdr9 tid n l sl, x2, x3, x4, .int (l / 4)]) := by
    intros; ir_simp [truo, Stmt.nth, Stmt.items, Gen.V9IR.tplRecordUnmarshalOpts]
  have e9 : ∀ (st : St) env, exec addr (truoLink addr fuel) fuel (truo 9) st env = some (.ret [.nil], st, env) := by
    intros; ir_simp [truo, Stmt.nth, Stmt.items, Gen.V9IR.tplRecordUnmarshalOpts]
  simp only [blk, exec, e0, e1, e2, e3]
  unfold V9.parseOptTpl TplOut
  rcases h1 : r.rU16 with _ | ⟨tid, r1⟩
  · exact ⟨⟨0, 0, 0, [], []⟩, by simp [Gen.V9IR.tplRecordUnmarshalOpts, readSlots, refSlots, List.filter, ParamKind.hasSlot, errReader]⟩
  · simp only []
    rcases h2 : r1.rU16 with _ | ⟨sl, r2⟩
    · exact ⟨⟨0, 0, 0, [], []⟩, by simp [Gen.V9IR.tplRecordUnmarshalOpts, readSlots, refSlots, List.filter, ParamKind.hasSlot, errReader]⟩
    · simp only []
      rcases h3 : r2.rU16 with _ | ⟨l, r3⟩
      · exact ⟨⟨0, 0, 0, [], []⟩, by simp [Gen.V9IR.tplRecordUnmarshalOpts, readSlots, refSlots, List.filter, ParamKind.hasSlot, errReader]⟩
      · simp only [e4, e5]
        rw [truo6_shape]
        simp only [exec]
        have hr3 : r3.rem.length < fuel := by
          have a1 := (adv_rU16 h1).1; have a2 := (adv_rU16 h2).1; have a3 := (adv_rU16 h3).1
          have := a1.1; have := a1.2; have := a2.1; have := a2.2; have := a3.1; have := a3.2; omega
        have hsl := rU16_lt h2
        have hll := rU16_lt h3
        have hl1 := truo6_loop addr fuel c tid 0 0 [] (.thdr9 tid 0 l sl) .unset (sl / 4) fuel r3 [] ⟨0, 0, 0⟩ .nil rfl (by omega) hr3
        rcases hrs : V9.readSpecs (sl / 4) r3 [] with ⟨e | scs, r4⟩
        · simp only [hrs, truo6LoopOut] at hl1
          obtain ⟨t', rest, hl1⟩ := hl1
          exact ⟨t', by simp [hl1, Gen.V9IR.tplRecordUnmarshalOpts, readSlots, refSlots, List.filter, ParamKind.hasSlot]⟩
        · simp only [hrs, truo6LoopOut] at hl1
          obtain ⟨tf', e3', htf', hl1⟩ := hl1
          simp only [hl1, e7]
          rw [truo8_shape]
          simp only [exec]
          have hr4 : r4.rem.length < fuel := by
            obtain ⟨ha, hb⟩ := (V9.readSpecs_adv (sl / 4) r3 [] _ _ hrs).1
            omega
          have hl2 := truo8_loop addr fuel c tid 0 0 scs (.thdr9 tid 0 l sl) (.int 0) (l / 4) fuel r4 [] tf' e3' htf' (by omega) hr4
          rcases hrs2 : V9.readSpecs (l / 4) r4 [] with ⟨e | fs, r5⟩
          · simp only [hrs2, truo8LoopOut] at hl2
            obtain ⟨t', rest, hl2⟩ := hl2
            exact ⟨t', by simp [hl2, Gen.V9IR.tplRecordUnmarshalOpts, readSlots, refSlots, List.filter, ParamKind.hasSlot]⟩
          · simp only [hrs2, truo8LoopOut] at hl2
            obtain ⟨tf'', e3'', _, hl2⟩ := hl2
            simp [hl2, e9, Gen.V9IR.tplRecordUnmarshalOpts, readSlots, refSlots, List.filter, ParamKind.hasSlot]

end Vflow.V9IR
