import Vflow.Proofs.V9IRTpl
import Vflow.Proofs.IpfixIRSet
import Vflow.Proofs.AllocV9
/-!
# The translated `Decoder.decodeSet` of `netflow/v9/decoder.go` is `V9.decodeSet`

As `Proofs/IpfixIRSet.lean`.  Differences of the v9 decoder: template flowset ids 0 and 1 and no padding test, no
`return` inside the record loop (every error ends the loop and is followed by the skip of the rest of the flowset), and
what is left of the flowset is a difference of `int`s that may be negative (`leftInt`).
-/
set_option linter.unusedSimpArgs false
namespace Vflow.V9IR
open Vflow Vflow.IpfixIR
attribute [local irreducible] Vflow.lookupElem

/-! ## `decodeSet` -/

def ds (i : Nat) : Stmt := Gen.V9IR.decodeSet.body.nth i
theorem ds_body : Gen.V9IR.decodeSet.body =
    blk [ds 0, ds 1, ds 2, ds 3, ds 4, ds 5, ds 6, ds 7, ds 8, ds 9, ds 10, ds 11, ds 12] := rfl
theorem ds9_shape : ds 9 = .loop (ds 9).loopCond (ds 9).loopBody .skip := rfl

/-- one round of `V9.setLoop` (after the loop condition) -/
inductive IterOut where
  | cont (st : V9.St)
  | stop (st : V9.St) (e : Option Err)

def setIter (ctx : V9.Ctx) (st : V9.St) : IterOut :=
  if ctx.setId = 0 ∨ ctx.setId = 1 then
    match (if ctx.setId = 0 then V9.parseTpl st.r else V9.parseOptTpl st.r) with
    | (.ok t, r') => .cont { st with r := r', cache := st.cache.insert ctx.addr t.tid t }
    | (.error e, r') => .stop { st with r := r' } (some e)
  else if 4 ≤ ctx.setId ∧ ctx.setId ≤ 255 then .stop st none
  else
    match V9.decodeData ctx.tr st.r with
    | (.ok fs, r') =>
      if r'.cnt = st.r.cnt then .stop { st with r := r' } (some .zeroRec)
      else .cont { st with r := r', recs := st.recs ++ [fs] }
    | (.error e, r') => .stop { st with r := r' } (some e)

theorem setLoop_succ (ctx : V9.Ctx) (k : Nat) (st : V9.St) :
    V9.setLoop ctx (k + 1) st =
      if V9.contCond ctx st.r then
        match setIter ctx st with
        | .cont st' => V9.setLoop ctx k st'
        | .stop st' e => (st', e)
      else (st, none) := by
  rw [V9.setLoop]
  unfold setIter
  by_cases hc : V9.contCond ctx st.r = true
  · simp only [hc, if_true]
    by_cases h01 : ctx.setId = 0 ∨ ctx.setId = 1
    · simp only [h01, if_true]
      generalize (if ctx.setId = 0 then V9.parseTpl st.r else V9.parseOptTpl st.r) = p
      rcases p with ⟨e | t, r'⟩ <;> rfl
    · simp only [h01, if_false]
      by_cases h4 : 4 ≤ ctx.setId ∧ ctx.setId ≤ 255
      · simp only [h4, and_self, if_true]
      · simp only [h4, if_false]
        generalize V9.decodeData ctx.tr st.r = p
        rcases p with ⟨e | fs, r'⟩
        · rfl
        · simp only []
          by_cases hz : r'.cnt = st.r.cnt <;> simp only [hz, if_true, if_false]
  · simp only [hc, if_false]; simp

section
variable (addr : Bytes) (fuel : Nat)

abbrev dsLink : Linkage :=
  [("setHeaderUnmarshal", V9Prog.setHeaderUnmarshal addr fuel), ("minRecordLen", V9Prog.minRecordLen addr fuel),
   ("tplRecordUnmarshal", V9Prog.tplRecordUnmarshal addr fuel), ("tplRecordUnmarshalOpts", V9Prog.tplRecordUnmarshalOpts addr fuel),
   ("decodeData", V9Prog.decodeData addr fuel)]

abbrev S (st : V9.St) : St := ⟨st.r, st.cache⟩

/-- the locals of `decodeSet` while the record loop runs: `msg`, `startCount`, `setHeader`, the header `err` (nil), `tr`,
`err`, `ok`, `minLen`, then `setId`, the inner `tr`, `data`, `recordStart` (dead between rounds), `leftoverBytes` and
`skipErr` (not yet declared) -/
abbrev dsEnv (agent : Bytes) (hdr : PHdr) (recs : List Record) (ctx : V9.Ctx) (err ok j8 j9 j10 j11 : V) : Env :=
  [.msg9 agent hdr recs, .int ctx.start, .shdr ctx.setId ctx.len, .nil, .tpl ctx.tr, err, ok, .int (V9.minLeft ctx),
   j8, j9, j10, j11, .unset, .unset]

/-- outcome of the translated loop body for one round of the model -/
def DsBodyOut (agent : Bytes) (hdr : PHdr) (ctx : V9.Ctx) (ok : V) (it : IterOut) (out : Res) : Prop :=
  match it with
  | .cont st' => ∃ j8 j9 j10 j11,
      out = some (.norm, S st', dsEnv agent hdr st'.recs ctx .nil ok j8 j9 j10 j11)
  | .stop st' none => ∃ j8 j9 j10 j11,
      out = some (.brk, S st', dsEnv agent hdr st'.recs ctx .nil ok j8 j9 j10 j11)
  | .stop st' (some e) => ∃ j8 j9 j10 j11,
      out = some (.brk, S st', dsEnv agent hdr st'.recs ctx (V9Prog.errV (some e)) ok j8 j9 j10 j11) ∨
      out = some (.norm, S st', dsEnv agent hdr st'.recs ctx (V9Prog.errV (some e)) ok j8 j9 j10 j11)

theorem ds_body9_reserved (agent : Bytes) (hdr : PHdr) (ctx : V9.Ctx) (st : V9.St) (ok j8 j9 j10 j11 : V)
    (h : 4 ≤ ctx.setId ∧ ctx.setId ≤ 255) :
    DsBodyOut agent hdr ctx ok (setIter ctx st)
      (exec addr (dsLink addr fuel) fuel (ds 9).loopBody (S st) (dsEnv agent hdr st.recs ctx .nil ok j8 j9 j10 j11)) := by
  have h0 : ctx.setId ≠ 0 := by omega
  have h1 : ctx.setId ≠ 1 := by omega
  simp only [setIter, h0, h1, or_self, if_false, h, and_self, if_true, DsBodyOut]
  refine ⟨.int ctx.setId, j9, j10, j11, ?_⟩
  ir_simp [ds, Stmt.nth, Stmt.items, Stmt.loopBody, Gen.V9IR.decodeSet, h0, h1, h.1, h.2]

theorem ds_body9_tpl0 (agent : Bytes) (hdr : PHdr) (ctx : V9.Ctx) (st : V9.St) (ok j8 j9 j10 j11 : V)
    (h : ctx.setId = 0) (haddr : ctx.addr = addr) (hfuel : st.r.rem.length < fuel) :
    DsBodyOut agent hdr ctx ok (setIter ctx st)
      (exec addr (dsLink addr fuel) fuel (ds 9).loopBody (S st) (dsEnv agent hdr st.recs ctx .nil ok j8 j9 j10 j11)) := by
  have ht := tplRecordUnmarshal_sem addr fuel st.r st.cache hfuel
  rcases hpt : V9.parseTpl st.r with ⟨e | t, r'⟩
  · have he := V9.parseTpl_err hpt; subst he
    simp only [hpt, TplOut, V9.emptyTpl] at ht
    obtain ⟨t', ht⟩ := ht
    have e : setIter ctx st = .stop { st with r := r' } (some .short) := by simp [setIter, h, hpt]
    simp only [e, DsBodyOut]
    refine ⟨.int 0, .tpl t', j10, j11, Or.inr ?_⟩
    ir_simp [ds, Stmt.nth, Stmt.items, Stmt.loopBody, Gen.V9IR.decodeSet, h, ht, V9Prog.errV, Err.nonfatal]
  · simp only [hpt, TplOut, V9.emptyTpl] at ht
    have e : setIter ctx st = .cont { st with r := r', cache := st.cache.insert ctx.addr t.tid t } := by simp [setIter, h, hpt]
    simp only [e, DsBodyOut]
    refine ⟨.int 0, .tpl t, j10, j11, ?_⟩
    ir_simp [ds, Stmt.nth, Stmt.items, Stmt.loopBody, Gen.V9IR.decodeSet, h, ht, haddr]

theorem ds_body9_tpl1 (agent : Bytes) (hdr : PHdr) (ctx : V9.Ctx) (st : V9.St) (ok j8 j9 j10 j11 : V)
    (h : ctx.setId = 1) (haddr : ctx.addr = addr) (hfuel : st.r.rem.length < fuel) :
    DsBodyOut agent hdr ctx ok (setIter ctx st)
      (exec addr (dsLink addr fuel) fuel (ds 9).loopBody (S st) (dsEnv agent hdr st.recs ctx .nil ok j8 j9 j10 j11)) := by
  have ht := tplRecordUnmarshalOpts_sem addr fuel st.r st.cache hfuel
  rcases hpt : V9.parseOptTpl st.r with ⟨e | t, r'⟩
  · have he := V9.parseOptTpl_err hpt; subst he
    simp only [hpt, TplOut, V9.emptyTpl] at ht
    obtain ⟨t', ht⟩ := ht
    have e : setIter ctx st = .stop { st with r := r' } (some .short) := by simp [setIter, h, hpt]
    simp only [e, DsBodyOut]
    refine ⟨.int 1, .tpl t', j10, j11, Or.inr ?_⟩
    ir_simp [ds, Stmt.nth, Stmt.items, Stmt.loopBody, Gen.V9IR.decodeSet, h, ht, V9Prog.errV, Err.nonfatal]
  · simp only [hpt, TplOut, V9.emptyTpl] at ht
    have e : setIter ctx st = .cont { st with r := r', cache := st.cache.insert ctx.addr t.tid t } := by simp [setIter, h, hpt]
    simp only [e, DsBodyOut]
    refine ⟨.int 1, .tpl t, j10, j11, ?_⟩
    ir_simp [ds, Stmt.nth, Stmt.items, Stmt.loopBody, Gen.V9IR.decodeSet, h, ht, haddr]

theorem ds_body9_dataSmall (agent : Bytes) (hdr : PHdr) (ctx : V9.Ctx) (st : V9.St) (ok j8 j9 j10 j11 : V)
    (h : ctx.setId = 2 ∨ ctx.setId = 3) (hs : ctx.tr.scope.length < fuel) (hf : ctx.tr.fields.length < fuel) :
    DsBodyOut agent hdr ctx ok (setIter ctx st)
      (exec addr (dsLink addr fuel) fuel (ds 9).loopBody (S st) (dsEnv agent hdr st.recs ctx .nil ok j8 j9 j10 j11)) := by
  have hdd := decodeData_sem addr fuel st.r st.cache ctx.tr hs hf
  have h0 : ctx.setId ≠ 0 := by omega
  have h1 : ctx.setId ≠ 1 := by omega
  have h4 : ¬ (4 ≤ ctx.setId) := by omega
  rcases hd : V9.decodeData ctx.tr st.r with ⟨e | fs, r'⟩
  · simp only [hd, V9Prog.recResult] at hdd
    have e' : setIter ctx st = .stop { st with r := r' } (some e) := by simp [setIter, h0, h1, h4, hd]
    simp only [e', DsBodyOut]
    refine ⟨.int ctx.setId, j9, .nil, .int st.r.cnt, Or.inr ?_⟩
    ir_simp [ds, Stmt.nth, Stmt.items, Stmt.loopBody, Gen.V9IR.decodeSet, h0, h1, h4, hdd, V9Prog.errV]
  · simp only [hd, V9Prog.recResult] at hdd
    by_cases hz : r'.cnt = st.r.cnt
    · have e' : setIter ctx st = .stop { st with r := r' } (some .zeroRec) := by simp [setIter, h0, h1, h4, hd, hz]
      simp only [e', DsBodyOut]
      refine ⟨.int ctx.setId, j9, .drec fs, .int st.r.cnt, Or.inl ?_⟩
      ir_simp [ds, Stmt.nth, Stmt.items, Stmt.loopBody, Gen.V9IR.decodeSet, h0, h1, h4, hdd, hz, V9Prog.errV, Err.nonfatal]
    · have e' : setIter ctx st = .cont { st with r := r', recs := st.recs ++ [fs] } := by simp [setIter, h0, h1, h4, hd, hz]
      simp only [e', DsBodyOut]
      refine ⟨.int ctx.setId, j9, .drec fs, .int st.r.cnt, ?_⟩
      ir_simp [ds, Stmt.nth, Stmt.items, Stmt.loopBody, Gen.V9IR.decodeSet, h0, h1, h4, hdd, hz]

theorem ds_body9_dataBig (agent : Bytes) (hdr : PHdr) (ctx : V9.Ctx) (st : V9.St) (ok j8 j9 j10 j11 : V)
    (h : ctx.setId > 255) (hs : ctx.tr.scope.length < fuel) (hf : ctx.tr.fields.length < fuel) :
    DsBodyOut agent hdr ctx ok (setIter ctx st)
      (exec addr (dsLink addr fuel) fuel (ds 9).loopBody (S st) (dsEnv agent hdr st.recs ctx .nil ok j8 j9 j10 j11)) := by
  have hdd := decodeData_sem addr fuel st.r st.cache ctx.tr hs hf
  have h0 : ctx.setId ≠ 0 := by omega
  have h1 : ctx.setId ≠ 1 := by omega
  have h4 : 4 ≤ ctx.setId := by omega
  have h5 : ¬ (ctx.setId ≤ 255) := by omega
  rcases hd : V9.decodeData ctx.tr st.r with ⟨e | fs, r'⟩
  · simp only [hd, V9Prog.recResult] at hdd
    have e' : setIter ctx st = .stop { st with r := r' } (some e) := by simp [setIter, h0, h1, h4, h5, hd]
    simp only [e', DsBodyOut]
    refine ⟨.int ctx.setId, j9, .nil, .int st.r.cnt, Or.inr ?_⟩
    ir_simp [ds, Stmt.nth, Stmt.items, Stmt.loopBody, Gen.V9IR.decodeSet, h0, h1, h4, h5, hdd, V9Prog.errV]
  · simp only [hd, V9Prog.recResult] at hdd
    by_cases hz : r'.cnt = st.r.cnt
    · have e' : setIter ctx st = .stop { st with r := r' } (some .zeroRec) := by simp [setIter, h0, h1, h4, h5, hd, hz]
      simp only [e', DsBodyOut]
      refine ⟨.int ctx.setId, j9, .drec fs, .int st.r.cnt, Or.inl ?_⟩
      ir_simp [ds, Stmt.nth, Stmt.items, Stmt.loopBody, Gen.V9IR.decodeSet, h0, h1, h4, h5, hdd, hz, V9Prog.errV, Err.nonfatal]
    · have e' : setIter ctx st = .cont { st with r := r', recs := st.recs ++ [fs] } := by simp [setIter, h0, h1, h4, h5, hd, hz]
      simp only [e', DsBodyOut]
      refine ⟨.int ctx.setId, j9, .drec fs, .int st.r.cnt, ?_⟩
      ir_simp [ds, Stmt.nth, Stmt.items, Stmt.loopBody, Gen.V9IR.decodeSet, h0, h1, h4, h5, hdd, hz]

theorem ds_body9 (agent : Bytes) (hdr : PHdr) (ctx : V9.Ctx) (st : V9.St) (ok j8 j9 j10 j11 : V)
    (haddr : ctx.addr = addr) (hfuel : st.r.rem.length < fuel)
    (hs : ctx.tr.scope.length < fuel) (hf : ctx.tr.fields.length < fuel) :
    DsBodyOut agent hdr ctx ok (setIter ctx st)
      (exec addr (dsLink addr fuel) fuel (ds 9).loopBody (S st) (dsEnv agent hdr st.recs ctx .nil ok j8 j9 j10 j11)) := by
  by_cases h0 : ctx.setId = 0
  · exact ds_body9_tpl0 addr fuel agent hdr ctx st ok j8 j9 j10 j11 h0 haddr hfuel
  by_cases h1 : ctx.setId = 1
  · exact ds_body9_tpl1 addr fuel agent hdr ctx st ok j8 j9 j10 j11 h1 haddr hfuel
  by_cases h3 : ctx.setId ≤ 3
  · exact ds_body9_dataSmall addr fuel agent hdr ctx st ok j8 j9 j10 j11 (by omega) hs hf
  by_cases h4 : ctx.setId ≤ 255
  · exact ds_body9_reserved addr fuel agent hdr ctx st ok j8 j9 j10 j11 ⟨by omega, h4⟩
  · exact ds_body9_dataBig addr fuel agent hdr ctx st ok j8 j9 j10 j11 (by omega) hs hf

/-- the loop condition: `int(Length) - (ReadCount() - startCount) >= minLen` is a comparison of a possibly negative
difference, as `V9.leftInt` -/
theorem ds9_cond_nil (agent : Bytes) (hdr : PHdr) (recs : List Record) (ctx : V9.Ctx) (r : Rd) (c : Cache) (ok j8 j9 j10 j11 : V)
    (hstart : ctx.start ≤ r.cnt) :
    eval addr ⟨r, c⟩ (dsEnv agent hdr recs ctx .nil ok j8 j9 j10 j11) (ds 9).loopCond =
      some (.bool (V9.contCond ctx r)) := by
  have hs1 := subV_int r.cnt ctx.start hstart
  unfold V9.contCond V9.leftInt
  by_cases hle : r.cnt - ctx.start ≤ ctx.len
  · by_cases hA : ctx.len - (r.cnt - ctx.start) ≥ V9.minLeft ctx <;> by_cases hB : r.rem.length ≥ V9.minLeft ctx
    all_goals
      have hi : ((ctx.len : Int) - ((r.cnt : Int) - (ctx.start : Int)) ≥ (V9.minLeft ctx : Int)) ↔
          ctx.len - (r.cnt - ctx.start) ≥ V9.minLeft ctx := by omega
      ir_simp [ds, Stmt.nth, Stmt.items, Stmt.loopCond, Gen.V9IR.decodeSet, subV, hstart, hle, hA, hB, hi]
  · have hi : ¬ ((ctx.len : Int) - ((r.cnt : Int) - (ctx.start : Int)) ≥ (V9.minLeft ctx : Int)) := by omega
    by_cases hB : r.rem.length ≥ V9.minLeft ctx <;>
      ir_simp [ds, Stmt.nth, Stmt.items, Stmt.loopCond, Gen.V9IR.decodeSet, subV, hstart, hle, hB, hi]

theorem ds9_cond_err (agent : Bytes) (hdr : PHdr) (recs : List Record) (ctx : V9.Ctx) (st : St) (g : GErr) (ok j8 j9 j10 j11 : V) :
    eval addr st (dsEnv agent hdr recs ctx (.err g) ok j8 j9 j10 j11) (ds 9).loopCond = some (.bool false) := by
  ir_simp [ds, Stmt.nth, Stmt.items, Stmt.loopCond, Gen.V9IR.decodeSet]

theorem minLeft_pos (ctx : V9.Ctx) : 1 ≤ V9.minLeft ctx := by
  unfold V9.minLeft V9.minRecLen
  split
  · simp only []; split <;> omega
  · omega

/-- a round that continues has consumed at least one octet -/
theorem setIter_cont {ctx : V9.Ctx} {st st' : V9.St} (h : setIter ctx st = .cont st') :
    Adv st.r st'.r ∧ st.r.cnt < st'.r.cnt := by
  unfold setIter at h
  split at h
  · generalize hp : (if ctx.setId = 0 then V9.parseTpl st.r else V9.parseOptTpl st.r) = pr at h
    obtain ⟨res, r'⟩ := pr
    have ht : Adv st.r r' ∧ ∀ t, res = .ok t → st.r.cnt + 4 ≤ r'.cnt := by
      by_cases h0 : ctx.setId = 0
      · simp only [h0, if_true] at hp
        have := V9.parseTpl_adv hp
        exact ⟨this.1, fun t ht => by have := this.2 t ht; omega⟩
      · simp only [h0, if_false] at hp
        have := V9.parseOptTpl_adv hp
        exact ⟨this.1, fun t ht => by have := this.2 t ht; omega⟩
    rcases res with e | t
    · cases h
    · simp only [IterOut.cont.injEq] at h
      subst h
      exact ⟨ht.1, by have := ht.2 t rfl; simp only; omega⟩
  · split at h
    · cases h
    · generalize hd : V9.decodeData ctx.tr st.r = dr at h
      obtain ⟨res, r'⟩ := dr
      have ha := (V9.decodeData_adv hd).1
      rcases res with e | fs
      · cases h
      · simp only [] at h
        split at h
        · cases h
        · rename_i hne
          simp only [IterOut.cont.injEq] at h
          subst h
          exact ⟨ha, by have := ha.2; simp only; omega⟩

/-- outcome of the record loop (it never returns: every error is followed by the skip of the rest of the flowset) -/
def DsLoopOut (agent : Bytes) (hdr : PHdr) (ctx : V9.Ctx) (ok : V) (res : V9.St × Option Err) (out : Res) : Prop :=
  ∃ j8 j9 j10 j11, out = some (.norm, S res.1, dsEnv agent hdr res.1.recs ctx (V9Prog.errV res.2) ok j8 j9 j10 j11)

theorem ds_loop9 (agent : Bytes) (hdr : PHdr) (ctx : V9.Ctx) (ok : V) (haddr : ctx.addr = addr)
    (hs : ctx.tr.scope.length < fuel) (hf : ctx.tr.fields.length < fuel) :
    ∀ (k k' : Nat) (st : V9.St) (j8 j9 j10 j11 : V),
    st.r.rem.length < k → st.r.rem.length < k' → st.r.rem.length < fuel → ctx.start ≤ st.r.cnt →
    DsLoopOut agent hdr ctx ok (V9.setLoop ctx k' st)
      (loopF (fun st env => eval addr st env (ds 9).loopCond) (exec addr (dsLink addr fuel) fuel (ds 9).loopBody)
        (exec addr (dsLink addr fuel) fuel .skip) k (S st) (dsEnv agent hdr st.recs ctx .nil ok j8 j9 j10 j11)) := by
  intro k
  induction k with
  | zero => intro k' st _ _ _ _ hk; omega
  | succ k ih =>
    intro k' st j8 j9 j10 j11 hk hk' hfuel hstart
    obtain ⟨k', rfl⟩ : ∃ n, k' = n + 1 := ⟨k' - 1, by omega⟩
    rw [setLoop_succ]
    simp only [loopF, ds9_cond_nil addr agent hdr st.recs ctx st.r st.cache ok j8 j9 j10 j11 hstart]
    by_cases hc : V9.contCond ctx st.r = true
    · simp only [hc, if_true]
      have hlen : V9.minLeft ctx ≤ st.r.rem.length := by
        simp only [V9.contCond, Bool.and_eq_true, decide_eq_true_eq] at hc; exact hc.2
      have hpos := minLeft_pos ctx
      obtain ⟨k2, rfl⟩ : ∃ n, k = n + 1 := ⟨k - 1, by omega⟩
      have hb := ds_body9 addr fuel agent hdr ctx st ok j8 j9 j10 j11 haddr hfuel hs hf
      rcases hit : setIter ctx st with st' | ⟨st', e⟩
      · simp only [hit, DsBodyOut] at hb
        obtain ⟨i8, i9, i10, i11, hb⟩ := hb
        have hp := setIter_cont hit
        have := hp.1.1; have := hp.1.2
        simp only [hb, exec_skip_eq]
        exact ih k' st' i8 i9 i10 i11 (by omega) (by omega) (by omega) (by omega)
      · rcases e with _ | e
        · simp only [hit, DsBodyOut] at hb
          obtain ⟨i8, i9, i10, i11, hb⟩ := hb
          simp only [hb, DsLoopOut, V9Prog.errV]
          exact ⟨i8, i9, i10, i11, rfl⟩
        · simp only [hit, DsBodyOut] at hb
          obtain ⟨i8, i9, i10, i11, hb | hb⟩ := hb
          · simp only [hb, DsLoopOut]
            exact ⟨i8, i9, i10, i11, rfl⟩
          · simp only [hb, exec_skip_eq, loopF, V9Prog.errV, ds9_cond_err, DsLoopOut]
            exact ⟨i8, i9, i10, i11, rfl⟩
    · simp only [hc, Bool.false_eq_true, if_false, DsLoopOut, V9Prog.errV]
      exact ⟨j8, j9, j10, j11, rfl⟩

/-- the flowset header part of `decodeSet`: `startCount`, the header reads, the length test -/
theorem ds_pre1 (agent : Bytes) (hdr : PHdr) (st : V9.St) :
    exec addr (dsLink addr fuel) fuel (blk [ds 0, ds 1, ds 2, ds 3]) (S st)
        [.msg9 agent hdr st.recs, .unset, .unset, .unset, .unset, .unset, .unset, .unset, .unset, .unset, .unset, .unset,
         .unset, .unset] =
      match st.r.rU16 with
      | none => some (.ret [errReader], S st, [.msg9 agent hdr st.recs, .int st.r.cnt, .shdr 0 0, errReader, .unset, .unset,
          .unset, .unset, .unset, .unset, .unset, .unset, .unset, .unset])
      | some (sid, r1) =>
        match r1.rU16 with
        | none => some (.ret [errReader], ⟨r1, st.cache⟩, [.msg9 agent hdr st.recs, .int st.r.cnt, .shdr sid 0, errReader,
            .unset, .unset, .unset, .unset, .unset, .unset, .unset, .unset, .unset, .unset])
        | some (len, r2) =>
          if len < 4 then some (.ret [.err ⟨false, .badSetLen⟩], ⟨r2, st.cache⟩, [.msg9 agent hdr st.recs, .int st.r.cnt,
            .shdr sid len, .nil, .unset, .unset, .unset, .unset, .unset, .unset, .unset, .unset, .unset, .unset])
          else some (.norm, ⟨r2, st.cache⟩, [.msg9 agent hdr st.recs, .int st.r.cnt, .shdr sid len, .nil, .unset, .unset,
            .unset, .unset, .unset, .unset, .unset, .unset, .unset, .unset]) := by
  have hh := setHeaderUnmarshal_sem addr fuel st.r st.cache 0 0
  rcases h1 : st.r.rU16 with _ | ⟨sid, r1⟩
  · simp only [h1] at hh
    ir_simp [ds, Stmt.nth, Stmt.items, Gen.V9IR.decodeSet, hh]
  · simp only []
    rcases h2 : r1.rU16 with _ | ⟨len, r2⟩
    · simp only [h1, h2] at hh
      ir_simp [ds, Stmt.nth, Stmt.items, Gen.V9IR.decodeSet, hh]
    · simp only [h1, h2] at hh
      by_cases hl : len < 4 <;> ir_simp [ds, Stmt.nth, Stmt.items, Gen.V9IR.decodeSet, hh, hl]

/-- the template lookup and `minLen`: the locals with which the record loop starts -/
theorem ds_pre2 (agent : Bytes) (hdr : PHdr) (recs : List Record) (r2 : Rd) (c : Cache) (sid len start : Nat) :
    ∃ ok, exec addr (dsLink addr fuel) fuel (blk [ds 4, ds 5, ds 6, ds 7, ds 8]) ⟨r2, c⟩
        [.msg9 agent hdr recs, .int start, .shdr sid len, .nil, .unset, .unset, .unset, .unset, .unset, .unset, .unset,
         .unset, .unset, .unset] =
      some (.norm, ⟨r2, c⟩, dsEnv agent hdr recs ⟨addr, sid, len, start, (V9.lookupTpl c addr sid).1.getD V9.emptyTpl⟩
        (V9Prog.errV (V9.lookupTpl c addr sid).2) ok .unset .unset .unset .unset) := by
  unfold V9.lookupTpl
  by_cases hs : sid > 255
  · rcases hl : c.lookup addr sid with _ | t
    · refine ⟨.bool false, ?_⟩
      ir_simp [ds, Stmt.nth, Stmt.items, Gen.V9IR.decodeSet, hs, hl, minRecordLen_sem, V9.minLeft, V9.emptyTpl,
        V9Prog.errV, Err.nonfatal]
    · refine ⟨.bool true, ?_⟩
      ir_simp [ds, Stmt.nth, Stmt.items, Gen.V9IR.decodeSet, hs, hl, minRecordLen_sem, V9.minLeft, V9.emptyTpl,
        V9Prog.errV]
  · refine ⟨.unset, ?_⟩
    ir_simp [ds, Stmt.nth, Stmt.items, Gen.V9IR.decodeSet, hs, V9.minLeft, V9.emptyTpl, V9Prog.errV]

/-- the leftover skip and the `return err` at the end of `decodeSet` against `V9.skipRest` -/
theorem ds_tail (agent : Bytes) (hdr : PHdr) (ctx : V9.Ctx) (st1 : V9.St) (e1 : Option Err) (ok j8 j9 j10 j11 : V)
    (hstart : ctx.start ≤ st1.r.cnt) (hfu : e1 ≠ some .fuel) :
    RetOut (exec addr (dsLink addr fuel) fuel (blk [ds 10, ds 11, ds 12]) (S st1)
        (dsEnv agent hdr st1.recs ctx (V9Prog.errV e1) ok j8 j9 j10 j11))
      [V9Prog.errV (V9.skipRest ctx st1 e1).2] (S (V9.skipRest ctx st1 e1).1)
      (.msg9 agent hdr (V9.skipRest ctx st1 e1).1.recs) := by
  unfold V9.skipRest V9.leftInt RetOut
  simp only [hfu, if_false]
  by_cases hle : st1.r.cnt - ctx.start ≤ ctx.len
  · by_cases hl : ctx.len - (st1.r.cnt - ctx.start) > 0
    · have hi : ((ctx.len : Int) - ((st1.r.cnt : Int) - (ctx.start : Int)) > 0) := by omega
      have hn : ((ctx.len : Int) - ((st1.r.cnt : Int) - (ctx.start : Int))).toNat = ctx.len - (st1.r.cnt - ctx.start) := by omega
      simp only [hi, if_true, hn]
      rcases hr : st1.r.readN (ctx.len - (st1.r.cnt - ctx.start)) with _ | ⟨b, r'⟩
      · cases e1 <;> ir_simp [ds, Stmt.nth, Stmt.items, Gen.V9IR.decodeSet, subV, hstart, hle, hl, hr, V9Prog.errV, Err.nonfatal]
      · cases e1 <;> ir_simp [ds, Stmt.nth, Stmt.items, Gen.V9IR.decodeSet, subV, hstart, hle, hl, hr, V9Prog.errV]
    · have hi : ¬ ((ctx.len : Int) - ((st1.r.cnt : Int) - (ctx.start : Int)) > 0) := by omega
      simp only [hi, if_false]
      cases e1 <;> ir_simp [ds, Stmt.nth, Stmt.items, Gen.V9IR.decodeSet, subV, hstart, hle, hl, V9Prog.errV]
  · have hi : ¬ ((ctx.len : Int) - ((st1.r.cnt : Int) - (ctx.start : Int)) > 0) := by omega
    simp only [hi, if_false]
    cases e1 <;> ir_simp [ds, Stmt.nth, Stmt.items, Gen.V9IR.decodeSet, subV, hstart, hle, V9Prog.errV]
end

theorem ds_exec (addr : Bytes) (fuel f' K : Nat) (st : V9.St) (agent : Bytes) (hdr : PHdr)
    (hfuel : st.r.rem.length < fuel) (hf' : st.r.rem.length < f') (hc : V9.CacheB K st.cache) (hK : K < fuel) :
    RetOut (exec addr (dsLink addr fuel) fuel Gen.V9IR.decodeSet.body (S st)
        [.msg9 agent hdr st.recs, .unset, .unset, .unset, .unset, .unset, .unset, .unset, .unset, .unset, .unset, .unset,
         .unset, .unset])
      [V9Prog.errV (V9.decodeSet addr f' st).2] (S (V9.decodeSet addr f' st).1)
      (.msg9 agent hdr (V9.decodeSet addr f' st).1.recs) := by
  have hsplit : Gen.V9IR.decodeSet.body =
      blk ([ds 0, ds 1, ds 2, ds 3] ++ ([ds 4, ds 5, ds 6, ds 7, ds 8] ++ ([ds 9] ++ [ds 10, ds 11, ds 12]))) := rfl
  rw [hsplit, exec_blk_append, ds_pre1]
  unfold V9.decodeSet
  rcases h1 : st.r.rU16 with _ | ⟨sid, r1⟩
  · exact retOut_of_eq rfl rfl
  · simp only []
    rcases h2 : r1.rU16 with _ | ⟨len, r2⟩
    · exact retOut_of_eq rfl rfl
    · simp only []
      by_cases hl : len < 4
      · simp only [hl, if_true]; exact retOut_of_eq rfl rfl
      · simp only [hl, if_false]
        have a1 := (adv_rU16 h1).1; have a2 := (adv_rU16 h2).1
        have := a1.1; have := a1.2; have := a2.1; have := a2.2
        obtain ⟨ok, hp2⟩ := ds_pre2 addr fuel agent hdr st.recs r2 st.cache sid len st.r.cnt
        rw [exec_blk_append, hp2]
        simp only []
        rw [exec_blk_append]
        unfold V9.setBody
        simp only []
        generalize hctx : (⟨addr, sid, len, st.r.cnt, (V9.lookupTpl st.cache addr sid).1.getD V9.emptyTpl⟩ : V9.Ctx) = ctx
        have hstart : ctx.start ≤ r2.cnt := by rw [← hctx]; simp only; omega
        have haddr : ctx.addr = addr := by rw [← hctx]
        have e9 : blk [ds 9] = .seq (ds 9) .skip := rfl
        rw [e9, exec_seq_eq, ds9_shape, exec_loop_eq]
        rcases hlook : (V9.lookupTpl st.cache addr sid).2 with _ | e
        · -- the record loop runs
          have htr : ctx.tr.scope.length < fuel ∧ ctx.tr.fields.length < fuel := by
            rw [← hctx]; simp only
            unfold V9.lookupTpl
            split
            · rcases hlk : st.cache.lookup addr sid with _ | t
              · simp [V9.emptyTpl]; omega
              · have := hc.lookup hlk
                simp only [V9.nfields] at this
                simp only [Option.getD_some]; omega
            · simp [V9.emptyTpl]; omega
          have hloop := ds_loop9 addr fuel agent hdr ctx ok haddr htr.1 htr.2 fuel f' { st with r := r2 }
            .unset .unset .unset .unset (by simp only; omega) (by simp only; omega) (by simp only; omega) hstart
          rcases hres : V9.setLoop ctx f' { st with r := r2 } with ⟨st1, e1⟩
          have hfl := V9.setLoop_fuel ctx f' _ _ _ (by simp only; omega) hres
          have hs1 : ctx.start ≤ st1.r.cnt := by
            have := hfl.2.1.2
            simp only at this; omega
          simp only [hres, DsLoopOut] at hloop
          obtain ⟨i8, i9, i10, i11, hloop⟩ := hloop
          simp only [V9Prog.errV, S] at hloop ⊢
          rw [hloop]
          simp only [exec_skip_eq]
          exact ds_tail addr fuel agent hdr ctx st1 e1 ok i8 i9 i10 i11 hs1 hfl.1
        · -- unknown template: the loop condition fails at once, the flowset is skipped
          obtain ⟨k, rfl⟩ : ∃ n, fuel = n + 1 := ⟨fuel - 1, by omega⟩
          have hne : e ≠ .fuel := by
            unfold V9.lookupTpl at hlook
            split at hlook
            · split at hlook
              · simp at hlook
              · simp at hlook; rw [← hlook]; simp
            · simp at hlook
          simp only [V9Prog.errV, loopF, ds9_cond_err, exec_skip_eq]
          exact ds_tail addr (k + 1) agent hdr ctx { st with r := r2 } (some e) ok .unset .unset .unset .unset hstart
            (by simpa using hne)

theorem decodeSet_sem (addr : Bytes) (fuel f' K : Nat) (st : V9.St) (agent : Bytes) (hdr : PHdr)
    (hfuel : st.r.rem.length < fuel) (hf' : st.r.rem.length < f') (hc : V9.CacheB K st.cache) (hK : K < fuel) :
    V9Prog.decodeSet addr fuel [.msg9 agent hdr st.recs] ⟨st.r, st.cache⟩ =
      some (⟨(V9.decodeSet addr f' st).1.r, (V9.decodeSet addr f' st).1.cache⟩,
        [.msg9 agent hdr (V9.decodeSet addr f' st).1.recs], [V9Prog.errV (V9.decodeSet addr f' st).2]) := by
  have h := ds_exec addr fuel f' K st agent hdr hfuel hf' hc hK
  unfold V9Prog.decodeSet Func.sem
  have henv : ([V.msg9 agent hdr st.recs] ++ List.replicate (Gen.V9IR.decodeSet.nslots - [V.msg9 agent hdr st.recs].length) V.unset) =
      [.msg9 agent hdr st.recs, .unset, .unset, .unset, .unset, .unset, .unset, .unset, .unset, .unset, .unset, .unset,
       .unset, .unset] := rfl
  rw [henv]
  simp only [RetOut, S] at h
  rcases hout : exec addr (dsLink addr fuel) fuel Gen.V9IR.decodeSet.body ⟨st.r, st.cache⟩
      [.msg9 agent hdr st.recs, .unset, .unset, .unset, .unset, .unset, .unset, .unset, .unset, .unset, .unset, .unset,
       .unset, .unset] with _ | ⟨f, s', env'⟩
  · simp [hout] at h
  · simp only [hout, Option.map_some, Option.some.injEq, Prod.mk.injEq] at h
    obtain ⟨rfl, rfl, henv0⟩ := h
    simp [Gen.V9IR.decodeSet, List.filter, ParamKind.hasSlot, readSlots, refSlots, henv0]

end Vflow.V9IR
