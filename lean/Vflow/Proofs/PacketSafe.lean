import Vflow.Model.Packet
/-!
# The dissector: closed forms under the Go guards (field positions), hence no panic
-/
namespace Vflow.Packet
open Vflow Vflow.Sflow

@[simp] theorem ok_bind {α β : Type} (a : α) (f : α → Res β) : (Res.ok a >>= f) = f a := rfl
@[simp] theorem err_bind {α β : Type} (e : Err) (f : α → Res β) : (Res.err e >>= f) = .err e := rfl
@[simp] theorem panic_bind {α β : Type} (f : α → Res β) : (Res.panic >>= f) = .panic := rfl
@[simp] theorem fuel_bind {α β : Type} (f : α → Res β) : (Res.fuel >>= f) = .fuel := rfl
@[simp] theorem pure_eq {α : Type} (a : α) : (pure a : Res α) = .ok a := rfl

theorem oct_lt (b : Bytes) (i : Nat) : oct b i < 256 := (b.getD i 0).toNat_lt

theorem at?_lt {b : Bytes} {i : Nat} (h : i < b.length) : at? b i = .ok (oct b i) := by
  simp [at?, h, oct]

theorem slice?_le {b : Bytes} {i j : Nat} (h1 : i ≤ j) (h2 : j ≤ b.length) :
    slice? b i j = .ok ((b.drop i).take (j - i)) := by
  simp [slice?, h1, h2]

theorem from?_le {b : Bytes} {i : Nat} (h : i ≤ b.length) : from? b i = .ok (b.drop i) := by
  simp [from?, h]

theorem bind_ne_panic {α β : Type} {x : Res α} {f : α → Res β} (hx : x ≠ .panic)
    (hf : ∀ a, f a ≠ .panic) : (x >>= f) ≠ .panic := by
  cases x <;> simp_all

theorem bind_ne_fuel {α β : Type} {x : Res α} {f : α → Res β} (hx : x ≠ .fuel)
    (hf : ∀ a, f a ≠ .fuel) : (x >>= f) ≠ .fuel := by
  cases x <;> simp_all

/-! ## closed forms -/

/-- the IPv4 header fields at their RFC 791 positions -/
def ipv4At (d : Bytes) : IPv4Hdr :=
  { version := oct d 0 / 16, tos := oct d 1, totalLen := oct d 2 * 256 + oct d 3, id := oct d 4 * 256 + oct d 5,
    flags := oct d 6 / 32, fragOff := (oct d 6 % 32) * 256 + oct d 7, ttl := oct d 8, protocol := oct d 9,
    checksum := oct d 10 * 256 + oct d 11, src := (d.drop 12).take 4, dst := (d.drop 16).take 4 }

theorem ihlOctets_ge (b : Nat) : 20 ≤ ihlOctets b := by
  unfold ihlOctets; split <;> omega

theorem ihlOctets_le (b : Nat) : ihlOctets b ≤ 60 := by
  unfold ihlOctets; split <;> omega

/-- closed form under the two Go guards (`len(p.data) < IPv4HLen`, `len(p.data) < hlen`): the fields at
their positions, and the octets after the header *including its options* are handed on -/
theorem decodeIPv4_eq (d : Bytes) (h : 20 ≤ d.length) (h2 : ihlOctets (oct d 0) ≤ d.length) :
    decodeIPv4 d = .ok (ipv4At d, d.drop (ihlOctets (oct d 0))) := by
  have h1 : ¬ d.length < 20 := by omega
  have h3 : ¬ d.length < ihlOctets (oct d 0) := by omega
  have h0 : at? d 0 = .ok (oct d 0) := at?_lt (by omega)
  simp only [decodeIPv4, h1, if_false, h0, ok_bind, h3]
  simp (disch := omega) only [at?_lt, slice?_le, from?_le, ok_bind, pure_eq, ipv4At]

theorem decodeIPv4_short (d : Bytes) (h : d.length < 20) : decodeIPv4 d = .err .ip4Short := by
  simp [decodeIPv4, h]

/-- the second guard: 20 octets are there, but fewer than the header length field announces -/
theorem decodeIPv4_shortOpts (d : Bytes) (h : 20 ≤ d.length) (h2 : d.length < ihlOctets (oct d 0)) :
    decodeIPv4 d = .err .ip4Short := by
  have h1 : ¬ d.length < 20 := by omega
  have h0 : at? d 0 = .ok (oct d 0) := at?_lt (by omega)
  simp only [decodeIPv4, h1, if_false, h0, ok_bind, h2, if_true]

/-- the IPv6 header fields at their RFC 8200 positions -/
def ipv6At (d : Bytes) : IPv6Hdr :=
  { version := oct d 0 / 16, trafficClass := (oct d 0 % 16) * 16 + oct d 1 / 16,
    flowLabel := (oct d 1 % 16) * 65536 + oct d 2 * 256 + oct d 3, payloadLen := oct d 4 * 256 + oct d 5,
    nextHeader := oct d 6, hopLimit := oct d 7, src := (d.drop 8).take 16, dst := (d.drop 24).take 16 }

theorem decodeIPv6_eq (d : Bytes) (h : 40 ≤ d.length) : decodeIPv6 d = .ok (ipv6At d, d.drop 40) := by
  have : ¬ d.length < 40 := by omega
  simp (disch := omega) only [decodeIPv6, this, if_false, at?_lt, slice?_le, from?_le, ok_bind, pure_eq, ipv6At]

theorem decodeIPv6_short (d : Bytes) (h : d.length < 40) : decodeIPv6 d = .err .ip6Short := by
  simp [decodeIPv6, h]

theorem decodeTCP_eq (b : Bytes) (h : 20 ≤ b.length) :
    decodeTCP b = .ok (.tcp (oct b 0 * 256 + oct b 1) (oct b 2 * 256 + oct b 3) (oct b 12 / 16) (oct b 12 / 2 % 8)
      ((oct b 12 * 256 + oct b 13) % 512)) := by
  have : ¬ b.length < 20 := by omega
  simp (disch := omega) only [decodeTCP, this, if_false, at?_lt, ok_bind, pure_eq]

theorem decodeUDP_eq (b : Bytes) (h : 8 ≤ b.length) :
    decodeUDP b = .ok (.udp (oct b 0 * 256 + oct b 1) (oct b 2 * 256 + oct b 3)) := by
  have : ¬ b.length < 8 := by omega
  simp (disch := omega) only [decodeUDP, this, if_false, at?_lt, ok_bind, pure_eq]

theorem decodeICMP_eq (b : Bytes) (h : 5 ≤ b.length) :
    decodeICMP b = .ok (.icmp (oct b 0) (oct b 1) (b.drop 4)) := by
  have : ¬ b.length < 5 := by omega
  simp (disch := omega) only [decodeICMP, this, if_false, at?_lt, from?_le, ok_bind, pure_eq]

/-- the datalink fields at their IEEE 802.3 positions -/
def l2At (b : Bytes) : L2 :=
  if oct b 12 * 256 + oct b 13 ≠ 0x8100 then
    { srcMAC := (b.drop 6).take 6, dstMAC := b.take 6, vlan := 0, etherType := oct b 12 * 256 + oct b 13 }
  else { srcMAC := [], dstMAC := [], vlan := 0, etherType := oct b 12 * 256 + oct b 13 }

theorem decodeIEEE802_eq (b : Bytes) (h : 14 ≤ b.length) : decodeIEEE802 b = .ok (l2At b) := by
  have : ¬ b.length < 14 := by omega
  simp (disch := omega) only [decodeIEEE802, this, if_false, at?_lt, ok_bind, l2At]
  split <;> simp (disch := omega) only [slice?_le, ok_bind, pure_eq, List.drop_zero, Nat.sub_zero] <;> rfl

/-- the frame with the 802.1Q tag removed: octets 0..11, the inner ethertype (16, 17), then 18… -/
def untag (d : Bytes) : Bytes := (d.drop 0).take (12 - 0) ++ (d.drop 16).take (18 - 16) ++ d.drop 18

theorem untag_length (d : Bytes) (h : 18 ≤ d.length) : (untag d).length + 4 = d.length := by
  simp [untag]; omega

theorem decodeVlan_eq (d : Bytes) (h : 18 ≤ d.length) :
    decodeVlan d = .ok ({ l2At (untag d) with vlan := (oct d 14 * 256 + oct d 15) % 4096 }, (untag d).drop 14) := by
  have h1 : ¬ d.length < 18 := by omega
  have h2 := untag_length d h
  simp (disch := omega) only [decodeVlan, h1, if_false, at?_lt, slice?_le, from?_le, ok_bind, pure_eq]
  rw [show (d.drop 0).take (12 - 0) ++ (d.drop 16).take (18 - 16) ++ d.drop 18 = untag d from rfl]
  rw [decodeIEEE802_eq _ (by omega)]
  simp (disch := omega) only [from?_le, ok_bind, pure_eq]

/-! ## neither panic nor fuel -/

/-- the outcome is a value or a Go `error` -/
def Safe {α : Type} (x : Res α) : Prop := x ≠ .panic ∧ x ≠ .fuel

theorem safe_ok {α : Type} (a : α) : Safe (Res.ok a) := by simp [Safe]
theorem safe_err {α : Type} (e : Err) : Safe (Res.err e : Res α) := by simp [Safe]

theorem bind_safe {α β : Type} {x : Res α} {f : α → Res β} (hx : Safe x) (hf : ∀ a, Safe (f a)) :
    Safe (x >>= f) := by
  cases x with
  | ok a => exact hf a
  | err e => exact safe_err e
  | panic => exact absurd rfl hx.1
  | fuel => exact absurd rfl hx.2

theorem decodeIPv4_safe (d : Bytes) : Safe (decodeIPv4 d) := by
  by_cases h : d.length < 20
  · rw [decodeIPv4_short d h]; exact safe_err _
  · by_cases h2 : d.length < ihlOctets (oct d 0)
    · rw [decodeIPv4_shortOpts d (by omega) h2]; exact safe_err _
    · rw [decodeIPv4_eq d (by omega) (by omega)]; exact safe_ok _

theorem decodeIPv6_safe (d : Bytes) : Safe (decodeIPv6 d) := by
  by_cases h : d.length < 40
  · rw [decodeIPv6_short d h]; exact safe_err _
  · rw [decodeIPv6_eq d (by omega)]; exact safe_ok _

theorem decodeNext_safe (proto : Nat) (d : Bytes) : Safe (decodeNext proto d) := by
  unfold decodeNext
  split
  · by_cases h : d.length < 5
    · simp [decodeICMP, h, Safe]
    · simp (disch := omega) [decodeICMP_eq d (by omega), from?_le, Safe]
  · split
    · by_cases h : d.length < 20
      · simp [decodeTCP, h, Safe]
      · simp (disch := omega) [decodeTCP_eq d (by omega), from?_le, Safe]
    · split
      · by_cases h : d.length < 8
        · simp [decodeUDP, h, Safe]
        · simp (disch := omega) [decodeUDP_eq d (by omega), from?_le, Safe]
      · exact safe_err _

theorem dissectV4_safe (l2 : L2) (d : Bytes) : Safe (dissectV4 l2 d) := by
  unfold dissectV4
  exact bind_safe (decodeIPv4_safe d) fun r => bind_safe (decodeNext_safe _ _) fun _ => safe_ok _

theorem dissectV6_safe (l2 : L2) (d : Bytes) : Safe (dissectV6 l2 d) := by
  unfold dissectV6
  exact bind_safe (decodeIPv6_safe d) fun r => bind_safe (decodeNext_safe _ _) fun _ => safe_ok _

theorem decodeEthernet_safe (d : Bytes) : Safe (decodeEthernet d) := by
  unfold decodeEthernet
  split
  · exact safe_err _
  · rw [decodeIEEE802_eq d (by omega)]
    simp only [ok_bind]
    split
    · by_cases h : d.length < 18
      · simp [decodeVlan, h, Safe]
      · rw [decodeVlan_eq d (by omega)]; exact safe_ok _
    · simp (disch := omega) [from?_le, Safe]

theorem dissectEth_safe (hdr : Bytes) : Safe (dissectEth hdr) := by
  unfold dissectEth
  refine bind_safe (decodeEthernet_safe hdr) fun r => ?_
  split
  · exact dissectV4_safe _ _
  · split
    · exact dissectV6_safe _ _
    · exact safe_err _

/-- the dissector returns a packet or an error, whatever the sampled header and header protocol -/
theorem dissect_safe (hdr : Bytes) (proto : Nat) : Safe (dissect hdr proto) := by
  unfold dissect
  split
  · exact dissectEth_safe hdr
  · split
    · exact dissectV4_safe _ _
    · split
      · exact dissectV6_safe _ _
      · exact safe_err _

end Vflow.Packet
