import Vflow.Model.Flow
import Vflow.Proofs.RdLemmas
/-!
# C02, linear allocation bound: what the IPFIX and the NetFlow v9 proofs share

Finding K4: a field specifier of length 0 is decoded (an entry with an empty value) without consuming an
octet of the datagram.  `zeroSpecs tr` counts those specifiers of a template; every *other* specifier costs
at least one octet per record, which is what makes the number of decoded fields linear in the datagram's
length plus `records × zeroSpecs`.
-/
namespace Vflow

/-- number of specifiers of length 0 in a specifier list -/
def zeroCount (l : List Spec) : Nat := (l.filter (fun s => s.len = 0)).length

/-- number of zero-length field specifiers of a template (scope and ordinary specifiers): the specifiers
that are decoded without consuming an octet (finding K4) -/
def zeroSpecs (tr : Template) : Nat := ((tr.scope ++ tr.fields).filter (fun s => s.len = 0)).length

theorem zeroSpecs_eq (tr : Template) : zeroSpecs tr = zeroCount (tr.scope ++ tr.fields) := rfl

theorem zeroCount_nil : zeroCount [] = 0 := rfl

theorem zeroCount_cons (f : Spec) (fs : List Spec) :
    zeroCount (f :: fs) = (if f.len = 0 then 1 else 0) + zeroCount fs := by
  simp only [zeroCount, List.filter_cons]
  by_cases h : f.len = 0
  · simp [h]; omega
  · simp [h]

/-- allocation units of a result: total number of decoded fields -/
def fieldSum (recs : List Record) : Nat := (recs.map List.length).sum

theorem fieldSum_nil : fieldSum [] = 0 := rfl

theorem fieldSum_snoc (recs : List Record) (fs : Record) :
    fieldSum (recs ++ [fs]) = fieldSum recs + fs.length := by
  simp [fieldSum, List.map_append, List.sum_append]

/-- every template of the cache has at most `Z` zero-length specifiers -/
def CacheZ (Z : Nat) (c : Cache) : Prop := ∀ e ∈ c, zeroSpecs e.2 ≤ Z

theorem CacheZ.insert {Z : Nat} {c : Cache} (h : CacheZ Z c) (addr : Bytes) (id : Nat) (t : Template)
    (ht : zeroSpecs t ≤ Z) : CacheZ Z (c.insert addr id t) := by
  intro e he
  simp only [Cache.insert, List.mem_cons, List.mem_filter] at he
  rcases he with rfl | ⟨he, _⟩
  · exact ht
  · exact h e he

theorem CacheZ.lookup {Z : Nat} {c : Cache} (h : CacheZ Z c) {addr : Bytes} {id : Nat} {t : Template}
    (hl : c.lookup addr id = some t) : zeroSpecs t ≤ Z := by
  simp only [Cache.lookup, Option.map_eq_some_iff] at hl
  obtain ⟨e, he, rfl⟩ := hl
  exact h e (List.mem_of_find?_eq_some he)

/-- the check behind the non-vacuity examples: a parse result either failed or gave a template with at most
`Z` zero-length specifiers -/
def tplZok (Z : Nat) (x : Except Err Template × Rd) : Bool :=
  match x.1 with
  | .ok t => decide (zeroSpecs t ≤ Z)
  | .error _ => true

theorem tplZok_ok {Z : Nat} {x : Except Err Template × Rd} {t : Template} {r' : Rd}
    (h : tplZok Z x = true) (hx : x = (.ok t, r')) : zeroSpecs t ≤ Z := by
  subst hx
  simpa [tplZok] using h

end Vflow
