import Vflow.Model.V9
/-!
# Unfolding equations for `V9.decFields`

Lean's automatically generated equation lemmas for `decFields` cannot be produced (their generation
tries to evaluate the 400-row information-model table behind `lookupElem`), so the two defining
equations are stated here and proved by `rfl` with `lookupElem` kept folded.
-/
namespace Vflow.V9
open Vflow

attribute [local irreducible] Vflow.lookupElem

theorem decFields_nil (r : Rd) (acc : Record) : decFields [] r acc = (.ok acc, r) := rfl

theorem decFields_cons (f : Spec) (fs : List Spec) (r : Rd) (acc : Record) :
    decFields (f :: fs) r acc =
      match r.readN f.len with
      | none => (.error .short, r)
      | some (b, r1) =>
        match lookupElem 0 f.id with
        | none => (.error .unknownElem, r1)
        | some (fid, t) => decFields fs r1 (acc ++ [⟨fid, 0, interpret b t⟩]) := rfl

end Vflow.V9
