import Vflow.Model.Flow
/-!
# Reader lemmas shared by the truncation / skip proofs (C09)

`Ext s t f`: reader `f` is reader `t` with the octets `s` appended to what remains (same count).
With `s` existentially quantified this is "the truncated reader's remainder is a prefix of the full
one"; with `s` fixed it also gives locality ("the tail is carried along untouched").

`Rd.shift`: the same remainder at a count moved by `k` (all decoder arithmetic is relative to the
count at the start of the set, so decoding commutes with it).
-/
namespace Vflow

/-- `f` = `t` with `s` appended to the remaining octets -/
def Ext (s : Bytes) (t f : Rd) : Prop := t.cnt = f.cnt ∧ f.rem = t.rem ++ s

theorem Ext.len_le {s : Bytes} {t f : Rd} (h : Ext s t f) : t.rem.length ≤ f.rem.length := by
  rw [h.2]; simp

theorem Ext.len_eq {s : Bytes} {t f : Rd} (h : Ext s t f) : f.rem.length = t.rem.length + s.length := by
  rw [h.2]; simp

theorem Ext.refl_nil (r : Rd) : Ext [] r r := ⟨rfl, by simp⟩

theorem readN_ext {s : Bytes} {t f : Rd} (h : Ext s t f) {n : Nat} {b : Bytes} {t' : Rd}
    (ht : t.readN n = some (b, t')) : ∃ f', f.readN n = some (b, f') ∧ Ext s t' f' := by
  obtain ⟨hc, hs⟩ := h
  unfold Rd.readN at ht
  split at ht
  · simp at ht
  · rename_i hlt
    simp only [Option.some.injEq, Prod.mk.injEq] at ht
    obtain ⟨hb, ht'⟩ := ht
    have hn : n ≤ t.rem.length := by omega
    have hf : ¬ f.rem.length < n := by rw [hs]; simp; omega
    refine ⟨⟨f.rem.drop n, f.cnt + n⟩, ?_, ?_⟩
    · unfold Rd.readN
      rw [if_neg hf, hs, List.take_append_of_le_length hn, hb]
    · subst ht'
      refine ⟨by simp [hc], ?_⟩
      show List.drop n f.rem = List.drop n t.rem ++ s
      rw [hs, List.drop_append_of_le_length hn]

theorem rU8_ext {s : Bytes} {t f : Rd} (h : Ext s t f) {v : Nat} {t' : Rd}
    (ht : t.rU8 = some (v, t')) : ∃ f', f.rU8 = some (v, f') ∧ Ext s t' f' := by
  unfold Rd.rU8 at ht ⊢
  cases hr : t.readN 1 with
  | none => simp [hr] at ht
  | some p =>
    obtain ⟨b, r'⟩ := p
    simp only [hr, Option.map_some, Option.some.injEq, Prod.mk.injEq] at ht
    obtain ⟨f', hf', he⟩ := readN_ext h hr
    exact ⟨f', by simp [hf', ht.1], ht.2 ▸ he⟩

theorem rU16_ext {s : Bytes} {t f : Rd} (h : Ext s t f) {v : Nat} {t' : Rd}
    (ht : t.rU16 = some (v, t')) : ∃ f', f.rU16 = some (v, f') ∧ Ext s t' f' := by
  unfold Rd.rU16 at ht ⊢
  cases hr : t.readN 2 with
  | none => simp [hr] at ht
  | some p =>
    obtain ⟨b, r'⟩ := p
    simp only [hr, Option.map_some, Option.some.injEq, Prod.mk.injEq] at ht
    obtain ⟨f', hf', he⟩ := readN_ext h hr
    exact ⟨f', by simp [hf', ht.1], ht.2 ▸ he⟩

theorem rU32_ext {s : Bytes} {t f : Rd} (h : Ext s t f) {v : Nat} {t' : Rd}
    (ht : t.rU32 = some (v, t')) : ∃ f', f.rU32 = some (v, f') ∧ Ext s t' f' := by
  unfold Rd.rU32 at ht ⊢
  cases hr : t.readN 4 with
  | none => simp [hr] at ht
  | some p =>
    obtain ⟨b, r'⟩ := p
    simp only [hr, Option.map_some, Option.some.injEq, Prod.mk.injEq] at ht
    obtain ⟨f', hf', he⟩ := readN_ext h hr
    exact ⟨f', by simp [hf', ht.1], ht.2 ▸ he⟩

/-- a peek that fits in the truncated reader sees the same octets in the extended one -/
theorem peek16_ext {s : Bytes} {t f : Rd} (h : Ext s t f) (hl : 2 ≤ t.rem.length) :
    f.peek16 = t.peek16 := by
  unfold Rd.peek16
  cases hr : t.readN 2 with
  | none => unfold Rd.readN at hr; split at hr <;> simp at hr; omega
  | some p =>
    obtain ⟨b, r'⟩ := p
    obtain ⟨f', hf', _⟩ := readN_ext h hr
    simp [hf']

/-- a read never changes `count + remaining` -/
theorem readN_total {r r' : Rd} {n : Nat} {b : Bytes} (h : r.readN n = some (b, r')) :
    r'.cnt + r'.rem.length = r.cnt + r.rem.length ∧ r'.cnt = r.cnt + n ∧ n ≤ r.rem.length := by
  unfold Rd.readN at h
  split at h
  · simp at h
  · simp only [Option.some.injEq, Prod.mk.injEq] at h
    obtain ⟨_, h'⟩ := h
    subst h'
    simp; omega


/-! ## Big-endian 16-bit fields and reads of a known prefix -/

/-- the two octets of a 16-bit big-endian field -/
def be16 (v : Nat) : Bytes := encBE 2 v

theorem be16_eq (v : Nat) : be16 v = [UInt8.ofNat (v / 256 % 256), UInt8.ofNat (v % 256)] := by
  simp [be16, encBE]

theorem be16_length (v : Nat) : (be16 v).length = 2 := by simp [be16_eq]

theorem beN_be16 (v : Nat) (hv : v < 65536) : beN (be16 v) = v := by
  simp only [be16_eq, beN, List.foldl_cons, List.foldl_nil, UInt8.toNat_ofNat']
  omega

theorem readN_append (a rest : Bytes) (cnt : Nat) :
    (⟨a ++ rest, cnt⟩ : Rd).readN a.length = some (a, ⟨rest, cnt + a.length⟩) := by
  simp [Rd.readN]

theorem rU16_be16 (v : Nat) (rest : Bytes) (cnt : Nat) (hv : v < 65536) :
    (⟨be16 v ++ rest, cnt⟩ : Rd).rU16 = some (v, ⟨rest, cnt + 2⟩) := by
  have := readN_append (be16 v) rest cnt
  rw [be16_length] at this
  simp [Rd.rU16, this, beN_be16 v hv]

/-- octets of a set (IPFIX) / flowset (NetFlow v9) with id `sid` and body `body`:
id, total length (header included), body -/
def setBytes (sid : Nat) (body : Bytes) : Bytes := be16 sid ++ be16 (4 + body.length) ++ body

theorem setBytes_length (sid : Nat) (body : Bytes) : (setBytes sid body).length = 4 + body.length := by
  simp [setBytes, be16_length]; omega

/-! ## Moving the count -/

/-- the same remaining octets at a count moved by `k` -/
def Rd.shift (r : Rd) (k : Nat) : Rd := ⟨r.rem, r.cnt + k⟩

@[simp] theorem Rd.shift_rem (r : Rd) (k : Nat) : (r.shift k).rem = r.rem := rfl
@[simp] theorem Rd.shift_cnt (r : Rd) (k : Nat) : (r.shift k).cnt = r.cnt + k := rfl

theorem readN_shift (r : Rd) (k n : Nat) :
    (r.shift k).readN n = (r.readN n).map fun p => (p.1, p.2.shift k) := by
  unfold Rd.readN
  simp only [Rd.shift_rem, Rd.shift_cnt]
  by_cases h : r.rem.length < n
  · simp [h]
  · simp [h, Rd.shift]; omega

theorem rU8_shift (r : Rd) (k : Nat) : (r.shift k).rU8 = r.rU8.map fun p => (p.1, p.2.shift k) := by
  simp only [Rd.rU8, readN_shift]; cases r.readN 1 <;> rfl
theorem rU16_shift (r : Rd) (k : Nat) : (r.shift k).rU16 = r.rU16.map fun p => (p.1, p.2.shift k) := by
  simp only [Rd.rU16, readN_shift]; cases r.readN 2 <;> rfl
theorem rU32_shift (r : Rd) (k : Nat) : (r.shift k).rU32 = r.rU32.map fun p => (p.1, p.2.shift k) := by
  simp only [Rd.rU32, readN_shift]; cases r.readN 4 <;> rfl
theorem peek16_shift (r : Rd) (k : Nat) : (r.shift k).peek16 = r.peek16 := by
  simp only [Rd.peek16, readN_shift]; cases r.readN 2 <;> rfl

/-- a composite read commutes with moving the count -/
def Shifts {α : Type} (g : Rd → Except Err α × Rd) : Prop :=
  ∀ (k : Nat) (r : Rd), g (r.shift k) = ((g r).1, (g r).2.shift k)

theorem rU8_total {r r' : Rd} {v : Nat} (h : r.rU8 = some (v, r')) :
    r'.cnt + r'.rem.length = r.cnt + r.rem.length ∧ r.cnt ≤ r'.cnt := by
  unfold Rd.rU8 at h
  cases hr : r.readN 1 with
  | none => simp [hr] at h
  | some p =>
    obtain ⟨b, r1⟩ := p
    simp only [hr, Option.map_some, Option.some.injEq, Prod.mk.injEq] at h
    have := readN_total hr
    rw [← h.2]; omega

theorem rU16_total {r r' : Rd} {v : Nat} (h : r.rU16 = some (v, r')) :
    r'.cnt + r'.rem.length = r.cnt + r.rem.length ∧ r.cnt ≤ r'.cnt := by
  unfold Rd.rU16 at h
  cases hr : r.readN 2 with
  | none => simp [hr] at h
  | some p =>
    obtain ⟨b, r1⟩ := p
    simp only [hr, Option.map_some, Option.some.injEq, Prod.mk.injEq] at h
    have := readN_total hr
    rw [← h.2]; omega

/-- a composite read is *prefix monotone*: on the truncated input it either reports a short read, or
does exactly what it does on the extended input (same result, the tail `s` carried along) -/
def Mono {α : Type} (g : Rd → Except Err α × Rd) : Prop :=
  ∀ s t f, Ext s t f → ∀ res t', g t = (res, t') →
    res = .error .short ∨ ∃ f', g f = (res, f') ∧ Ext s t' f'

/-- an error that makes `Decode` return `(nil, err)` -/
def Fatal (e : Option Err) : Prop := ∃ x, e = some x ∧ x.nonfatal = false

theorem fatal_short : Fatal (some .short) := ⟨_, rfl, rfl⟩
theorem fatal_fuel : Fatal (some .fuel) := ⟨_, rfl, rfl⟩
theorem fatal_badSetLen : Fatal (some .badSetLen) := ⟨_, rfl, rfl⟩

/-- `lookupElem` through the list view of the generated table.  Used only to evaluate `lookupElem`
on concrete elements in examples: the kernel evaluates `List.find?` on the 400-entry table quickly
and `Array.find?` very slowly.  (The theorems never unfold `lookupElem`.) -/
theorem lookupElem_list (ent id : Nat) :
    lookupElem ent id =
      match Gen.InfoModelTbl.infoModelTbl.toList.find? (fun e => e.1 = ent ∧ e.2.1 = id) with
      | some e => some (e.2.2.1, e.2.2.2)
      | none => (extElems.find? (fun e => e.1 = ent ∧ e.2.1 = id)).map fun e => (e.2.2.1, e.2.2.2) := by
  unfold lookupElem
  rw [← Array.find?_toList]
  rfl

end Vflow
