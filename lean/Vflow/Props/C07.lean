import Vflow.Model.Sflow
/-! # C07 — sFlow samples and counters decoded field for field (work in progress) -/
namespace Vflow.C07
open Vflow Vflow.Sflow

/-- non-vacuity: a datagram with no samples -/
example : decode [] [0,0,0,5, 0,0,0,1, 10,0,0,1, 0,0,0,2, 0,0,0,3, 0,0,0,4, 0,0,0,0] =
    .ok ⟨5, 1, 2, 3, 4, 0, [], [], [10,0,0,1]⟩ := by decide

end Vflow.C07
