import Vflow.Proofs.SflowSpec2
import Vflow.Proofs.SflowTie
import Vflow.Model.SflowJson
import Vflow.Gen.SflowLayouts
import Vflow.Gen.Sites
import Vflow.Spec.Sites
/-!
# C07 — sFlow samples and counters are decoded field for field

`encodeSflow : ADatagram → Bytes` (`Vflow.Proofs.SflowSpec`) is the sFlow v5 wire encoder of the
specification side; `expected d` is the decoded datagram the abstract datagram stands for.  The main
theorem is the round trip `decode [] (encodeSflow d) = ok (expected d)` for every well-formed abstract
datagram — any number and order of flow / counter / unknown samples, any combination of supported and
unknown records, any field values that fit their fields, IPv4 and IPv6 agents — built from the leaves
upward: field list → record → sample → datagram.  The sampled packet header enters the sFlow layer as
its octets — *any* octets, 0 … 1500 of them, under any header protocol (`AFlowRec.raw proto … hdr`): the
record is reported iff the dissector can break the header down (`raw_record_dissectable` /
`raw_record_undissectable`), and in either case the record is consumed exactly and everything around it is
decoded.  The dissector theorems below state, per layer, that each output field is the value at its RFC
position, `dissect_encodeHeader` composes them for every layer combination, `undissectable_header` is the
other half (cut short at any layer, not IP, an IP protocol without a struct, another header protocol: an
error), and `decode_encode'` is the datagram theorem with raw-header records given by an abstract header of
either kind (no dissection hypothesis left, no reference to the dissector in the expected datagram).

The theorems are about the code after the `fix:` commits F5, F6, F7, F8, F14, F15, F17, F19 (the model
mirrors it).  F17: until the repair the specification encoder fixed the IPv4 header length at five words and
`decodeIPv4Header` skipped a fixed 20 octets; the property has no such restriction, so `encIPv4` now
carries the options and every IPv4 statement below is quantified over them (`OptsWF`: 0 … 40 octets, a
multiple of four, any content).  F19: until the repair the raw-header record was well-formed only with
`0 < hdr.length` and `dissect hdr proto = ok p` — hypotheses read off the code, not off the property (header
lengths 0 … 1500, any frame) — the flow sample's source-id index was "skipped", the TCP reserved bits were
"0", and an extended-router record had one of two lengths; on the code before the repair each of these was a
lost datagram or a lost value (F19a–d).  All four hypotheses are gone.
-/
namespace Vflow.C07
open Vflow Vflow.Sflow Vflow.Packet Vflow.DissectIR

/-- **C07 (datagram)**: every well-formed datagram decodes to exactly the header fields, the agent
address and, in wire order, every flow sample and counter sample with all fields equal to the wire
values; samples and records of unsupported types are skipped by their declared length. -/
theorem decode_encode (d : ADatagram) (hwf : d.WF) : decode [] (encodeSflow d) = .ok (expected d) := by
  have h := decode_enc [] d hwf
  have : dropTypes [] (expected d) = expected d := by simp [dropTypes]
  rw [this] at h
  exact h

/-- **C07 (generic field list)**: reading a list of big-endian fields of widths `ws` from the encoding
of values `vs` returns exactly `vs` and consumes exactly the encoding -/
theorem readFields_roundtrip (ws vs : List Nat) (t : Bytes) (h : Fits ws vs) :
    readFields ws (encFields ws vs ++ t) = some (vs, t) := readFields_enc ws vs t h

/-- **C07 (counter records)**: each of the six counter layouts is read field by field in layout order,
whatever follows; the instantiation of `readFields_roundtrip` for the layout that `counterLayout fmt` selects -/
theorem counter_record_roundtrip (fmt : Nat) (l : Layout) (vals : List Nat) (t : Bytes)
    (hl : counterLayout fmt = some l) (hv : Fits (widths l) vals) :
    counterRecord (be32 fmt ++ be32 (widths l).sum ++ encFields (widths l) vals ++ t) = .ok (some (fmt, vals), t) := by
  have := counterRecord_enc (.known fmt vals) t ⟨l, hl, hv⟩
  simpa [encCounterRec, hl, expCounterRec] using this

/-- the six layouts and their sizes on the wire: 88 / 52 / 72 / 80 / 28 / 28 octets -/
theorem counter_layout_sizes :
    (counterLayout 1 = some genIntLayout ∧ (widths genIntLayout).sum = 88) ∧
    (counterLayout 2 = some ethIntLayout ∧ (widths ethIntLayout).sum = 52) ∧
    (counterLayout 3 = some trIntLayout ∧ (widths trIntLayout).sum = 72) ∧
    (counterLayout 4 = some vgIntLayout ∧ (widths vgIntLayout).sum = 80) ∧
    (counterLayout 5 = some vlanLayout ∧ (widths vlanLayout).sum = 28) ∧
    (counterLayout 1001 = some procLayout ∧ (widths procLayout).sum = 28) := by decide

/-- **C07 (flow records)**: raw header of any content with XDR padding, extended switch, extended router
(IPv4 / IPv6 next hop), unknown formats and extended-router records of any other length skipped by their
declared length.  `AFlowRec.WF` asks only that the values fit their fields and the sampled header has at
most 1500 octets. -/
theorem flow_record_roundtrip (a : AFlowRec) (t : Bytes) (hwf : a.WF) :
    flowRecord (encFlowRec a ++ t) = .ok (expFlowRec a, t) := flowRecord_enc a t hwf

/-- **C07 (raw header, its own fields — F33)**: whatever the sampled octets are — any octets, 0 … 1500 of them,
under any header protocol — the record's `RawHeader` entry carries the header protocol, the frame length, the
stripped count and the header length exactly as they are on the wire (before the repair all four were read and
dropped), with the packet iff the dissector can break the octets down; the record is consumed exactly -/
theorem raw_record_fields (proto fl st : Nat) (hdr : Bytes) (t : Bytes) (hwf : (AFlowRec.raw proto fl st hdr).WF) :
    ∃ pk, flowRecord (encFlowRec (.raw proto fl st hdr) ++ t) = .ok (some (.raw ⟨proto, fl, st, hdr.length, pk⟩), t) ∧
      (∀ p, pk = some p ↔ dissect hdr proto = .ok p) ∧ (pk = none ↔ ∃ e, dissect hdr proto = .err e) := by
  refine ⟨dissected hdr proto, by simpa [expFlowRec] using flowRecord_enc (.raw proto fl st hdr) t hwf, ?_, ?_⟩
  · intro p
    unfold dissected
    cases hx : dissect hdr proto <;> simp
  · have hs := dissect_safe hdr proto
    unfold dissected
    cases hx : dissect hdr proto with
    | ok p => simp
    | err e => simp
    | panic => exact absurd hx hs.1
    | fuel => exact absurd hx hs.2

/-- **C07 (raw header, dissectable)**: when the sampled octets dissect to `p`, the record yields the
`RawHeader` entry with the record's four words (F33) and `p` (all its fields: the dissector theorems below) and
leaves exactly what follows -/
theorem raw_record_dissectable (proto fl st : Nat) (hdr : Bytes) (p : Pkt) (t : Bytes)
    (hwf : (AFlowRec.raw proto fl st hdr).WF) (hd : dissect hdr proto = .ok p) :
    flowRecord (encFlowRec (.raw proto fl st hdr) ++ t) = .ok (some (.raw ⟨proto, fl, st, hdr.length, some p⟩), t) := by
  have := flowRecord_enc (.raw proto fl st hdr) t hwf
  simpa [expFlowRec, dissected_ok hd] using this

/-- **C07 (raw header, undissectable — F19a, F33)**: when the dissector rejects the sampled octets, the record
is consumed exactly (four words, octets, padding), yields the `RawHeader` entry with its four words and no packet
(until F33: no entry), and the loop goes on with what follows; before the F19a repair this was the dissector's
error for the whole datagram -/
theorem raw_record_undissectable (proto fl st : Nat) (hdr : Bytes) (e : Sflow.Err) (t : Bytes)
    (hwf : (AFlowRec.raw proto fl st hdr).WF) (hd : dissect hdr proto = .err e) :
    flowRecord (encFlowRec (.raw proto fl st hdr) ++ t) = .ok (some (.raw ⟨proto, fl, st, hdr.length, none⟩), t) := by
  have := flowRecord_enc (.raw proto fl st hdr) t hwf
  simpa [expFlowRec, dissected_err hd] using this

/-- there is no third case: the dissector returns a packet or an error on every octet string -/
theorem dissect_total (hdr : Bytes) (proto : Nat) :
    (∃ p, dissect hdr proto = .ok p) ∨ (∃ e, dissect hdr proto = .err e) := by
  have hs := dissect_safe hdr proto
  cases hx : dissect hdr proto with
  | ok p => exact .inl ⟨p, rfl⟩
  | err e => exact .inr ⟨e, rfl⟩
  | panic => exact absurd hx hs.1
  | fuel => exact absurd hx hs.2

/-- the empty octet string is rejected under every header protocol -/
theorem dissect_nil (proto : Nat) : ∃ e, dissect [] proto = .err e := by
  unfold dissect
  split
  · exact ⟨.ethShort, by simp [dissectEth, decodeEthernet]⟩
  · split
    · exact ⟨.ip4Short, by simp [dissectV4, decodeIPv4]⟩
    · split
      · exact ⟨.ip6Short, by simp [dissectV6, decodeIPv6]⟩
      · exact ⟨.hdrProto, rfl⟩

/-- **C07 (empty sampled header)**: header length 0 — also as the very last record of the datagram
(`t = []`), where `bytes.Reader.Read` would report `io.EOF` for the empty buffer — yields the entry with its
three words, header length 0 and no packet, and leaves what follows -/
theorem raw_record_empty (proto fl st : Nat) (t : Bytes) (h : proto < 256 ^ 4 ∧ fl < 256 ^ 4 ∧ st < 256 ^ 4) :
    flowRecord (encFlowRec (.raw proto fl st []) ++ t) = .ok (some (.raw ⟨proto, fl, st, 0, none⟩), t) := by
  obtain ⟨e, he⟩ := dissect_nil proto
  exact raw_record_undissectable proto fl st [] e t ⟨⟨h.1, h.2.1, h.2.2, by decide, trivial⟩, by decide⟩ he

/-- **C07 (extended router, other lengths — F19d)**: an extended-router record whose length is not that of
an IPv4 / IPv6 next hop — address type 0 (unknown) has no address octets: 12; or any other length — is
skipped by its declared length: no entry, what follows is left exactly -/
theorem ext_router_other_length (body t : Bytes) (h : body.length ≠ 16 ∧ body.length ≠ 28) (hl : body.length < 256 ^ 4) :
    flowRecord (be32 1002 ++ be32 body.length ++ body ++ t) = .ok (none, t) := by
  have := flowRecord_enc (.unknown 1002 body) t ⟨by decide, by decide, fun _ => h, by decide, hl⟩
  simpa [encFlowRec, expFlowRec] using this

/-- **C07 (extended switch)**: the four words land in `SrcVlan, SrcPriority, DstVlan, DstPriority` in that
order (F6 was the fourth landing in `SrcPriority`) -/
theorem ext_switch_roundtrip (a b c d : Nat) (t : Bytes) (h : Fits [4, 4, 4, 4] [a, b, c, d]) :
    decodeExtSwitch (be32 a ++ be32 b ++ be32 c ++ be32 d ++ t) = .ok (⟨a, b, c, d⟩, t) := by
  have := decodeExtSwitch_enc ⟨a, b, c, d⟩ t h
  simpa [encFields, be32] using this

/-- **C07 (samples)**: one iteration of the sample loop on an encoded sample yields the expected sample
and leaves exactly what follows it -/
theorem sample_roundtrip (s : ASample) (t : Bytes) (hwf : s.WF) :
    sampleStep [] (encSample s ++ t) = .ok (expSample s, t) := by
  have := sampleStep_enc [] s t hwf
  have hk : keep [] (expSample s) = expSample s := by
    cases h : expSample s <;> simp [keep]
  rw [hk] at this
  exact this

/-! ## the dissector: each output field is the value at its RFC position -/

/-- **C07 (IPv4, every header length IHL = 5 … 15)**: RFC 791 positions; whatever the option octets
are, the fields are the wire values and the transport layer is handed exactly what follows the options -/
theorem ipv4_fields (h : IPv4Hdr) (opts rest : Bytes) (hwf : h.WF) (ho : OptsWF opts) :
    decodeIPv4 (encIPv4 h opts ++ rest) = .ok (h, rest) :=
  decodeIPv4_enc h opts rest hwf ho

/-- the guard the F17 repair added: a sampled header that holds the 20 fixed octets but fewer than the
header length field announces is `errShortIPv4HeaderLength`, not a packet with fields from elsewhere -/
theorem ipv4_options_cut (d : Bytes) (h : 20 ≤ d.length) (h2 : d.length < ihlOctets (oct d 0)) :
    decodeIPv4 d = .err .ip4Short := decodeIPv4_shortOpts d h h2

/-- **C07 (IPv6)**: RFC 8200 positions -/
theorem ipv6_fields (h : IPv6Hdr) (rest : Bytes) (hwf : h.WF) : decodeIPv6 (encIPv6 h ++ rest) = .ok (h, rest) :=
  decodeIPv6_enc h rest hwf

/-- **C07 (TCP)**: RFC 793 / 3540 positions: ports, data offset, the three reserved bits (any value 0 … 7 —
F19c: they were reported as 0), the nine flag bits; the twelve bits after the data offset are split without
overlap -/
theorem tcp_fields (sp dp seq ack off res fl win cs urg : Nat) (rest : Bytes)
    (hwf : sp < 65536 ∧ dp < 65536 ∧ off < 16 ∧ res < 8 ∧ fl < 512) :
    decodeTCP (encTCP sp dp seq ack off res fl win cs urg ++ rest) = .ok (.tcp sp dp off res fl) :=
  decodeTCP_enc sp dp seq ack off res fl win cs urg rest hwf

/-- **C07 (UDP)**: RFC 768 positions -/
theorem udp_fields (sp dp len cs : Nat) (rest : Bytes) (hwf : sp < 65536 ∧ dp < 65536) :
    decodeUDP (encUDP sp dp len cs ++ rest) = .ok (.udp sp dp) := decodeUDP_enc sp dp len cs rest hwf

/-- **C07 (ICMP)**: RFC 792 positions; `RestHeader` is everything after the checksum -/
theorem icmp_fields (ty code cs : Nat) (rest : Bytes) (hwf : ty < 256 ∧ code < 256) (hr : 1 ≤ rest.length) :
    decodeICMP (encICMP ty code cs ++ rest) = .ok (.icmp ty code rest) := decodeICMP_enc ty code cs rest hwf hr

/-- **C07 (Ethernet)**: destination, source, ethertype; the octets after the header are handed on -/
theorem ethernet_fields (dst src : Bytes) (et : Nat) (rest : Bytes)
    (hwf : dst.length = 6 ∧ src.length = 6 ∧ et < 65536 ∧ et ≠ 0x8100) :
    decodeEthernet (encEth dst src et ++ rest) = .ok (⟨src, dst, 0, et⟩, rest) := decodeEthernet_enc dst src et rest hwf

/-- **C07 (802.1Q)**: the VLAN identifier is the low 12 bits of the tag, the inner ethertype replaces the
tag, and the octets after the 18-octet header are handed on -/
theorem vlan_fields (dst src : Bytes) (tci et : Nat) (rest : Bytes)
    (hwf : dst.length = 6 ∧ src.length = 6 ∧ tci < 65536 ∧ et < 65536 ∧ et ≠ 0x8100) :
    decodeEthernet (encEthVlan dst src tci et ++ rest) = .ok (⟨src, dst, tci % 4096, et⟩, rest) :=
  decodeEthernet_vlan_enc dst src tci et rest hwf

/-- **C07 (whole header)**: an Ethernet / IPv4 (any options) / TCP header dissects into exactly its three
layers: the TCP fields are those after the options -/
theorem dissect_eth_ipv4_tcp (dst src : Bytes) (h : IPv4Hdr) (opts : Bytes) (sp dp seq ack off res fl win cs urg : Nat)
    (payload : Bytes) (hm : dst.length = 6 ∧ src.length = 6) (hwf : h.WF) (ho : OptsWF opts) (hp : h.protocol = 6)
    (ht : sp < 65536 ∧ dp < 65536 ∧ off < 16 ∧ res < 8 ∧ fl < 512) :
    dissect (encEth dst src 0x0800 ++ (encIPv4 h opts ++ (encTCP sp dp seq ack off res fl win cs urg ++ payload))) 1 =
      .ok ⟨⟨src, dst, 0, 0x0800⟩, .v4 h, .tcp sp dp off res fl⟩ :=
  dissect_eth_ipv4_tcp_enc dst src h opts sp dp seq ack off res fl win cs urg payload hm hwf ho hp ht

/-- **C07 (whole header, tagged, IPv6/UDP)** -/
theorem dissect_vlan_ipv6_udp (dst src : Bytes) (tci : Nat) (h : IPv6Hdr) (sp dp len cs : Nat) (payload : Bytes)
    (hm : dst.length = 6 ∧ src.length = 6 ∧ tci < 65536) (hwf : h.WF) (hp : h.nextHeader = 17)
    (ht : sp < 65536 ∧ dp < 65536) :
    dissect (encEthVlan dst src tci 0x86DD ++ (encIPv6 h ++ (encUDP sp dp len cs ++ payload))) 1 =
      .ok ⟨⟨src, dst, tci % 4096, 0x86DD⟩, .v6 h, .udp sp dp⟩ :=
  dissect_vlan_ipv6_udp_enc dst src tci h sp dp len cs payload hm hwf hp ht

/-! ## non-vacuity -/

/-- a well-formed abstract datagram: IPv4 agent; a flow sample (source id type 2, index 17) with a raw
header that is only an Ethernet header (14 octets: undissectable), an extended switch record, an unknown
record, an extended router record with address type 0 (length 12: skipped), an extended router record with
an IPv4 next hop, and an empty raw header as its last record; an enterprise-specific sample; a counter
sample with a processor record -/
def sample : ADatagram :=
  { agent := [10, 0, 0, 1], subID := 0, seqNo := 1, upTime := 2,
    samples := [
      .flow 7 2 17 1 2 0 3 4 [.raw 1 64 4 [2, 0, 0, 0, 0, 1, 2, 0, 0, 0, 0, 2, 8, 0], .sw ⟨100, 5, 200, 6⟩,
        .unknown 1003 [1, 2, 3, 4], .unknown 1002 [0, 0, 0, 0, 0, 0, 0, 24, 0, 0, 0, 16], .rtr ⟨[192, 0, 2, 9], 24, 16⟩,
        .raw 1 0 0 []],
      .unknown (4413 * 4096 + 1) [0, 0, 0, 0, 0, 0, 0, 0],
      .counter 9 2 17 [.known 1001 [1, 2, 3, 4, 5]]] }

set_option maxRecDepth 20000 in
theorem sample_wf : sample.WF := by
  refine ⟨.inl rfl, by simp [Fits, sample], ?_⟩
  intro s hs
  simp only [sample, List.mem_cons, List.not_mem_nil, or_false] at hs
  rcases hs with rfl | rfl | rfl
  · refine ⟨by simp [Fits], by decide, by simp [Fits], ?_, by decide⟩
    intro r hr
    simp only [List.mem_cons, List.not_mem_nil, or_false] at hr
    rcases hr with rfl | rfl | rfl | rfl | rfl | rfl <;> simp [AFlowRec.WF, Fits]
  · exact ⟨by decide, by decide, by decide⟩
  · refine ⟨by simp [Fits], ?_, by decide⟩
    intro r hr
    simp only [List.mem_cons, List.not_mem_nil, or_false] at hr
    subst hr
    exact ⟨procLayout, rfl, by simp [Fits, widths, procLayout]⟩

set_option maxRecDepth 20000 in
/-- the concrete datagram is well-formed and decodes to its expected value (by evaluation): the
extended-router record of length 12 leaves no entry, the undissectable raw headers (Ethernet only; empty, at the
very end of the sample) disturb nothing around them — the source id index 17, the switch and router records and the
counter sample after them are all there — and the `RawHeader` entry is the last of them with its own four words
(protocol 1, frame length 0, stripped 0, header length 0) and no packet -/
example : sample.WF ∧ decode [] (encodeSflow sample) = .ok (expected sample) ∧
    (expected sample).samples.length = 1 ∧ (expected sample).counters.length = 1 ∧
    ((expected sample).samples.map (fun s => (s.sourceID, s.sourceIDIdx, s.recordsNo))) = [(2, 17, 6)] ∧
    ((expected sample).samples.map (·.recs)) = [⟨some ⟨1, 0, 0, 0, none⟩, some ⟨100, 5, 200, 6⟩, some ⟨[192, 0, 2, 9], 24, 16⟩⟩] :=
  ⟨sample_wf, by decide, by decide, by decide, by decide, by decide⟩

/-! ## every header combination, and the datagram theorem over abstract headers

`AHeader` (`Vflow.Proofs.HeaderSpec`) = optional Ethernet layer (MAC addresses, optional 802.1Q tag with
4 priority bits and a 12-bit VLAN id; the ethertype is the one of the network layer, any other value is
rejected by the code with `errUnknownEtherType`) × IPv4 with options (IHL = 5 … 15: 0 … 40 option octets of
any content, a multiple of four) | IPv6 × TCP | UDP | ICMP/ICMPv6.
`eth = none` is sFlow header protocol 11 / 12.  No combination is excluded: the code accepts protocol
numbers 1 and 58 as ICMP after either network layer.  The only place where the expected packet depends
on the trailing payload is ICMP: the struct's `RestHeader` is `b[4:]`, i.e. the 4-octet rest of the
header *followed by everything up to the end of the sampled header* — hence `expectedPacket h payload`. -/

/-- **C07 (dissector, every combination)**: for every well-formed abstract sampled header — with or
without Ethernet layer, with or without 802.1Q tag, IPv4 (with or without options, every header length
5 … 15 words) or IPv6, TCP, UDP or ICMP — and every trailing payload, `packet.Decoder` on the encoded header under its header protocol returns exactly the expected
packet: every output field equals the abstract field laid out at its RFC position. -/
theorem dissect_encodeHeader (h : AHeader) (payload : Bytes) (hwf : wfHeader h) :
    dissect (encodeHeader h ++ payload) (protoOf h) = .ok (expectedPacket h payload) :=
  Packet.dissect_encodeHeader h payload hwf

/-- **C07 (undissectable headers — the other half of the dissector's specification)**: every abstract
undissectable header (`ABad`: a well-formed header cut before the end of its transport header — inside the
Ethernet header or tag, the fixed IP header, the IPv4 options, the TCP / UDP header, or empty; an ether type
that is not IP, a second 802.1Q tag included; an IP protocol without a struct, IPv6 extension headers
included; another sFlow header protocol) is an *error* of `packet.Decoder` — never a panic, never a packet -/
theorem undissectable_header (b : ABad) (hwf : b.WF) : ∃ e, dissect b.octets b.proto = .err e :=
  dissect_bad b hwf

/-- the cut at every offset: of a well-formed header followed by payload, any prefix shorter than the three
layers need (`needLen`: 14 / 18 + network header with options + 20 / 8 / 5) is an error -/
theorem header_cut (h : AHeader) (payload : Bytes) (k : Nat) (hwf : wfHeader h) (hk : k < needLen h) :
    ∃ e, dissect ((encodeHeader h ++ payload).take k) (protoOf h) = .err e :=
  dissect_cut h payload k hwf hk

/-- the record is a raw packet header (of either kind) -/
def isRaw : AFlowRec' → Bool
  | .raw .. => true
  | .rawBad .. => true
  | _ => false

theorem put_sw_congr (m m' : FlowRecs) (h : m.sw = m'.sw) (l : List (Option FlowRec)) :
    (l.foldl FlowRecs.put m).sw = (l.foldl FlowRecs.put m').sw := by
  induction l generalizing m m' with
  | nil => exact h
  | cons o l ih =>
    simp only [List.foldl_cons]
    apply ih
    rcases o with _ | (_ | _ | _) <;> simp [FlowRecs.put, h]

theorem put_rtr_congr (m m' : FlowRecs) (h : m.rtr = m'.rtr) (l : List (Option FlowRec)) :
    (l.foldl FlowRecs.put m).rtr = (l.foldl FlowRecs.put m').rtr := by
  induction l generalizing m m' with
  | nil => exact h
  | cons o l ih =>
    simp only [List.foldl_cons]
    apply ih
    rcases o with _ | (_ | _ | _) <;> simp [FlowRecs.put, h]

theorem put_raw_keep (m : FlowRecs) (l : List AFlowRec') (h : ∀ r ∈ l, isRaw r = false) :
    ((l.map expFlowRec').foldl FlowRecs.put m).raw = m.raw := by
  induction l generalizing m with
  | nil => rfl
  | cons r l ih =>
    simp only [List.map_cons, List.foldl_cons]
    rw [ih _ (fun x hx => h x (List.mem_cons_of_mem _ hx))]
    have hr := h r List.mem_cons_self
    cases r <;> simp [isRaw] at hr <;> simp [expFlowRec', FlowRecs.put]

/-- **C07 (undissectable record and the rest — F33)**: in the expected sample, the `ExtSwitch` and `ExtRouter`
entries are those of the records around an undissectable raw header, as if it were not there; the `RawHeader`
entry is the record's own four words without a packet, unless another raw-header record follows it (`Records` is a
map: the last record of a key is the entry).  Until F33 an undissectable header left no entry at all. -/
theorem undissectable_record_and_rest (a b : List AFlowRec') (fl st : Nat) (x : ABad) :
    (FlowRecs.ofList ((a ++ AFlowRec'.rawBad fl st x :: b).map expFlowRec')).sw =
      (FlowRecs.ofList ((a ++ b).map expFlowRec')).sw ∧
    (FlowRecs.ofList ((a ++ AFlowRec'.rawBad fl st x :: b).map expFlowRec')).rtr =
      (FlowRecs.ofList ((a ++ b).map expFlowRec')).rtr ∧
    ((∀ r ∈ b, isRaw r = false) →
      (FlowRecs.ofList ((a ++ AFlowRec'.rawBad fl st x :: b).map expFlowRec')).raw =
        some ⟨x.proto, fl, st, x.octets.length, none⟩) := by
  simp only [FlowRecs.ofList, List.map_append, List.map_cons, List.foldl_append, List.foldl_cons, expFlowRec']
  refine ⟨put_sw_congr _ _ ?_ _, put_rtr_congr _ _ ?_ _, fun hb => ?_⟩
  · simp [FlowRecs.put]
  · simp [FlowRecs.put]
  · rw [put_raw_keep _ b hb]
    simp [FlowRecs.put]

/-- **C07 (the last raw-header record is the entry)**: of either kind — after it only records that are not raw
headers — with all its four words -/
theorem last_raw_record_is_entry (a b : List AFlowRec') (fl st : Nat) (h : AHeader) (payload : Bytes)
    (hb : ∀ r ∈ b, isRaw r = false) :
    (FlowRecs.ofList ((a ++ AFlowRec'.raw fl st h payload :: b).map expFlowRec')).raw =
      some ⟨protoOf h, fl, st, (encodeHeader h ++ payload).length, some (expectedPacket h payload)⟩ := by
  simp only [FlowRecs.ofList, List.map_append, List.map_cons, List.foldl_append, List.foldl_cons, expFlowRec']
  rw [put_raw_keep _ b hb]
  simp [FlowRecs.put]

/-- **C07 (datagram, abstract headers)**: the round trip with raw-header records given by an abstract
header — representable (with payload) or undissectable — and XDR padding; it needs only the
well-formedness of the abstract datagram (field ranges, sampled header at most 1500 octets, protocol
numbers consistent with the layers).  `expected' d` does not mention the dissector: a raw-header record stands for
its four words (header protocol, frame length, stripped, number of sampled octets — F33) together with
`expectedPacket h payload` for a representable header and with no packet for an undissectable one. -/
theorem decode_encode' (d : ADatagram') (hwf : d.WF) : decode [] (encodeSflow' d) = .ok (expected' d) := by
  have h := decode_enc' [] d hwf
  have : dropTypes [] (expected' d) = expected' d := by simp [dropTypes]
  rw [this] at h
  exact h

/-- 802.1Q tag (priority bits 0b1010, VLAN 100) + IPv4 + ICMP echo request -/
def hdrVlanV4Icmp : AHeader :=
  { eth := some ⟨[2, 0, 0, 0, 0, 1], [2, 0, 0, 0, 0, 2], some (10, 100)⟩,
    net := .v4 ⟨4, 0, 34, 1, 2, 185, 64, 1, 0xabcd, [192, 0, 2, 1], [192, 0, 2, 2]⟩ [],
    trans := .icmp 8 0 0x1234 [0, 1, 0, 2] }

/-- plain Ethernet + IPv6 + TCP (data offset 5, reserved bits 0b101, NS|SYN|ACK: octet 12 = 0x5b) -/
def hdrEthV6Tcp : AHeader :=
  { eth := some ⟨[2, 0, 0, 0, 0, 1], [2, 0, 0, 0, 0, 2], none⟩,
    net := .v6 ⟨6, 0xb8, 0xabcde, 20, 6, 64, [0x20, 1, 0xd, 0xb8, 0, 0, 0, 0, 0, 0, 0, 0, 0, 0, 0, 1],
                [0x20, 1, 0xd, 0xb8, 0, 0, 0, 0, 0, 0, 0, 0, 0, 0, 0, 2]⟩,
    trans := .tcp 443 51000 1 2 5 5 0x112 1024 0 0 }

/-- header protocol 11: the sampled header starts at the IPv4 header; UDP -/
def hdrV4Udp : AHeader :=
  { eth := none,
    net := .v4 ⟨4, 0, 28, 7, 0, 0, 64, 17, 0, [192, 0, 2, 1], [192, 0, 2, 2]⟩ [],
    trans := .udp 53 54 8 0 }

/-- header protocol 11, IPv4 with a record-route option (IHL 7: eight option octets whose first four read
as "ports 1799 → 1216") + UDP 53 → 4660: the F17 witness `corpus/C07/dissect--F17-ipv4-options.txt` -/
def hdrV4OptsUdp : AHeader :=
  { eth := none,
    net := .v4 ⟨4, 0, 36, 4660, 2, 185, 64, 17, 0xabcd, [192, 0, 2, 1], [192, 0, 2, 2]⟩ [7, 7, 4, 192, 0, 2, 3, 0],
    trans := .udp 53 4660 20 0 }

/-- Ethernet + IPv4 with the longest header the length field can announce (IHL 15: forty option octets,
here no-operation options) + TCP -/
def hdrEthV4MaxOptsTcp : AHeader :=
  { eth := some ⟨[2, 0, 0, 0, 0, 1], [2, 0, 0, 0, 0, 2], none⟩,
    net := .v4 ⟨4, 0, 80, 1, 0, 0, 64, 6, 0, [192, 0, 2, 1], [192, 0, 2, 2]⟩ (List.replicate 40 1),
    trans := .tcp 443 51000 1 2 5 0 0x12 1024 0 0 }

theorem hdrVlanV4Icmp_wf : wfHeader hdrVlanV4Icmp := by
  simp [wfHeader, hdrVlanV4Icmp, AEth.WF, ANet.WF, IPv4Hdr.WF, OptsWF, ATrans.WF, ATrans.protoOK, ANet.proto]
theorem hdrEthV6Tcp_wf : wfHeader hdrEthV6Tcp := by
  simp [wfHeader, hdrEthV6Tcp, AEth.WF, ANet.WF, IPv6Hdr.WF, ATrans.WF, ATrans.protoOK, ANet.proto]
theorem hdrV4Udp_wf : wfHeader hdrV4Udp := by
  simp [wfHeader, hdrV4Udp, ANet.WF, IPv4Hdr.WF, OptsWF, ATrans.WF, ATrans.protoOK, ANet.proto]
theorem hdrV4OptsUdp_wf : wfHeader hdrV4OptsUdp := by
  simp [wfHeader, hdrV4OptsUdp, ANet.WF, IPv4Hdr.WF, OptsWF, ATrans.WF, ATrans.protoOK, ANet.proto]
theorem hdrEthV4MaxOptsTcp_wf : wfHeader hdrEthV4MaxOptsTcp := by
  simp [wfHeader, hdrEthV4MaxOptsTcp, AEth.WF, ANet.WF, IPv4Hdr.WF, OptsWF, ATrans.WF, ATrans.protoOK, ANet.proto]

set_option maxRecDepth 20000 in
/-- non-vacuity (VLAN + IPv4 + ICMP): the hypotheses hold, and by evaluation the octets dissect to the
VLAN id 100 (not the whole tag 0xa064), flags 2 / fragment offset 185, and an ICMP `RestHeader` that is
the rest of the header followed by the payload -/
example : wfHeader hdrVlanV4Icmp ∧ protoOf hdrVlanV4Icmp = 1 ∧
    dissect (encodeHeader hdrVlanV4Icmp ++ [9, 9]) 1 =
      .ok ⟨⟨[2, 0, 0, 0, 0, 2], [2, 0, 0, 0, 0, 1], 100, 0x0800⟩,
           .v4 ⟨4, 0, 34, 1, 2, 185, 64, 1, 0xabcd, [192, 0, 2, 1], [192, 0, 2, 2]⟩,
           .icmp 8 0 [0, 1, 0, 2, 9, 9]⟩ :=
  ⟨hdrVlanV4Icmp_wf, rfl, by decide⟩

set_option maxRecDepth 20000 in
/-- non-vacuity (Ethernet + IPv6 + TCP) -/
example : wfHeader hdrEthV6Tcp ∧ protoOf hdrEthV6Tcp = 1 ∧
    dissect (encodeHeader hdrEthV6Tcp ++ []) 1 = .ok (expectedPacket hdrEthV6Tcp []) ∧
    (expectedPacket hdrEthV6Tcp []).l4 = .tcp 443 51000 5 5 0x112 ∧
    oct (encodeHeader hdrEthV6Tcp) (14 + 40 + 12) = 0x5b ∧
    (expectedPacket hdrEthV6Tcp []).l2 = ⟨[2, 0, 0, 0, 0, 2], [2, 0, 0, 0, 0, 1], 0, 0x86DD⟩ :=
  ⟨hdrEthV6Tcp_wf, rfl, by decide, rfl, by decide, rfl⟩

set_option maxRecDepth 20000 in
/-- non-vacuity (header protocol 11, IPv4 + UDP): the datalink part is the zero value -/
example : wfHeader hdrV4Udp ∧ protoOf hdrV4Udp = 11 ∧
    dissect (encodeHeader hdrV4Udp ++ [1, 2, 3]) 11 = .ok (expectedPacket hdrV4Udp [1, 2, 3]) ∧
    expectedPacket hdrV4Udp [1, 2, 3] =
      ⟨{}, .v4 ⟨4, 0, 28, 7, 0, 0, 64, 17, 0, [192, 0, 2, 1], [192, 0, 2, 2]⟩, .udp 53 54⟩ :=
  ⟨hdrV4Udp_wf, rfl, by decide, rfl⟩

set_option maxRecDepth 20000 in
/-- non-vacuity with IPv4 options (IHL 7, header protocol 11): the hypotheses hold; the encoded header is
octet for octet the F17 witness (first octet 0x47); by evaluation it dissects to the ports *after* the
options, 53 → 4660, not to 1799 → 1216 which the option octets spell at offset 20 -/
example : wfHeader hdrV4OptsUdp ∧ protoOf hdrV4OptsUdp = 11 ∧
    encodeHeader hdrV4OptsUdp =
      [0x47, 0, 0, 36, 0x12, 0x34, 0x40, 0xb9, 64, 17, 0xab, 0xcd, 192, 0, 2, 1, 192, 0, 2, 2,
       7, 7, 4, 192, 0, 2, 3, 0, 0, 53, 0x12, 0x34, 0, 20, 0, 0] ∧
    dissect (encodeHeader hdrV4OptsUdp ++ []) 11 =
      .ok ⟨{}, .v4 ⟨4, 0, 36, 4660, 2, 185, 64, 17, 0xabcd, [192, 0, 2, 1], [192, 0, 2, 2]⟩, .udp 53 4660⟩ ∧
    (7 * 256 + 7, 4 * 256 + 192) = (1799, 1216) :=
  ⟨hdrV4OptsUdp_wf, rfl, by decide, by decide, rfl⟩

set_option maxRecDepth 20000 in
/-- non-vacuity at the upper end (IHL 15, Ethernet + IPv4 + TCP): 14 + 60 + 20 octets, TCP fields found
after forty option octets; and a header cut inside the options is an error, not a packet -/
example : wfHeader hdrEthV4MaxOptsTcp ∧ (encodeHeader hdrEthV4MaxOptsTcp).length = 94 ∧
    dissect (encodeHeader hdrEthV4MaxOptsTcp ++ [1]) 1 = .ok (expectedPacket hdrEthV4MaxOptsTcp [1]) ∧
    (expectedPacket hdrEthV4MaxOptsTcp [1]).l4 = .tcp 443 51000 5 0 0x12 ∧
    dissect ((encodeHeader hdrEthV4MaxOptsTcp).take 73) 1 = .err .ip4Short :=
  ⟨hdrEthV4MaxOptsTcp_wf, by decide, by decide, rfl, by decide⟩

/-- an ARP request (ether type 0x0806) -/
def badArp : ABad := .etherType ⟨[255, 255, 255, 255, 255, 255], [2, 0, 0, 0, 0, 2], none⟩ 0x0806 [0, 1, 8, 0, 6, 4, 0, 1]
/-- QinQ: a second 802.1Q tag behind the first -/
def badQinQ : ABad := .etherType ⟨[2, 0, 0, 0, 0, 1], [2, 0, 0, 0, 0, 2], some (0, 100)⟩ 0x8100 [0, 200, 8, 0]
/-- IPv6 with a hop-by-hop extension header (next header 0), header protocol 12 -/
def badV6Ext : ABad :=
  .ipProto none (.v6 ⟨6, 0, 0, 16, 0, 64, [0x20, 1, 0xd, 0xb8, 0, 0, 0, 0, 0, 0, 0, 0, 0, 0, 0, 1],
                      [0x20, 1, 0xd, 0xb8, 0, 0, 0, 0, 0, 0, 0, 0, 0, 0, 0, 2]⟩) [17, 0, 1, 4, 0, 0, 0, 0]
/-- Ethernet + IPv4 carrying GRE (protocol 47) -/
def badGre : ABad :=
  .ipProto (some ⟨[2, 0, 0, 0, 0, 1], [2, 0, 0, 0, 0, 2], none⟩)
    (.v4 ⟨4, 0, 28, 7, 0, 0, 64, 47, 0, [192, 0, 2, 1], [192, 0, 2, 2]⟩ []) [0, 0, 8, 0]
/-- sFlow header protocol 7 (PPP) -/
def badPpp : ABad := .hdrProto 7 [0xff, 3, 0, 0x21, 0x45]

theorem badArp_wf : badArp.WF := by simp [badArp, ABad.WF, AEth.WF]
theorem badQinQ_wf : badQinQ.WF := by simp [badQinQ, ABad.WF, AEth.WF]
theorem badV6Ext_wf : badV6Ext.WF := by simp [badV6Ext, ABad.WF, ANet.WF, IPv6Hdr.WF, ANet.proto]
theorem badGre_wf : badGre.WF := by simp [badGre, ABad.WF, AEth.WF, ANet.WF, IPv4Hdr.WF, OptsWF, ANet.proto]
theorem badPpp_wf : badPpp.WF := by simp [badPpp, ABad.WF]

set_option maxRecDepth 20000 in
/-- non-vacuity of `undissectable_header`: the hypotheses hold of the five examples and of cuts of the
Ethernet / IPv4 (40 option octets) / TCP header at offset 0 (empty), inside the Ethernet header, inside the
fixed IPv4 header, inside the options, and one octet before the end of the TCP header (`needLen` = 94);
by evaluation each is the error of the layer where it stops, and the uncut header is a packet -/
example : badArp.WF ∧ badQinQ.WF ∧ badV6Ext.WF ∧ badGre.WF ∧ badPpp.WF ∧ needLen hdrEthV4MaxOptsTcp = 94 ∧
    [badArp, badQinQ, badV6Ext, badGre, badPpp].map (fun b => dissect b.octets b.proto) =
      [.err .etherType, .err .etherType, .err .l4Unknown, .err .l4Unknown, .err .hdrProto] ∧
    [0, 13, 33, 73, 93].map (fun k => dissect (ABad.cut hdrEthV4MaxOptsTcp [1] k).octets 1) =
      [.err .ethShort, .err .ethShort, .err .ip4Short, .err .ip4Short, .err .tcpShort] ∧
    dissect ((encodeHeader hdrEthV4MaxOptsTcp ++ [1]).take 94) 1 = .ok (expectedPacket hdrEthV4MaxOptsTcp []) :=
  ⟨badArp_wf, badQinQ_wf, badV6Ext_wf, badGre_wf, badPpp_wf, by decide, by decide, by decide, by decide⟩

/-- a well-formed abstract datagram whose first flow sample carries three of the headers above as raw-header
records (44 + 2, 74 and 28 + 3 sampled octets: padding 2, 2 and 1) between undissectable ones (an ARP frame
first, the IPv6 / TCP header cut after 20 octets and an empty header in the middle); whose second carries
the header with IPv4 options (36 sampled octets) followed by a GRE packet, an extended-router record with
address type 0 and a QinQ frame; whose third has nothing but undissectable headers; then a counter sample -/
def sample' : ADatagram' :=
  { agent := [10, 0, 0, 1], subID := 0, seqNo := 1, upTime := 2,
    samples := [
      .flow 7 0 5 1 2 0 3 4 [.rawBad 60 4 badArp, .raw 1500 4 hdrVlanV4Icmp [9, 9], .raw 90 4 hdrEthV6Tcp [],
        .rawBad 90 4 (.cut hdrEthV6Tcp [] 20), .rawBad 0 0 (.cut hdrV4Udp [] 0), .raw 31 0 hdrV4Udp [1, 2, 3]],
      .flow 8 2 17 1 2 0 3 4 [.raw 40 4 hdrV4OptsUdp [], .rawBad 64 4 badGre,
        .unknown 1002 [0, 0, 0, 0, 0, 0, 0, 24, 0, 0, 0, 16], .rawBad 64 4 badQinQ],
      .flow 9 0 1 1 2 0 3 4 [.rawBad 64 0 badV6Ext, .rawBad 64 0 badPpp],
      .counter 9 2 17 [.known 1001 [1, 2, 3, 4, 5]]] }

set_option maxRecDepth 100000 in
/-- non-vacuity of `decode_encode'`: by evaluation, the concrete datagram decodes to its expected value;
the last raw-header record is the `RawHeader` entry of the sample (a Go map) with its own four words (F33): header
protocol 11, frame length 31, stripped 0, 31 sampled octets and the packet in the first sample; in the second the
QinQ frame behind the dissectable header — protocol 1, frame length 64, stripped 4, 22 octets, no packet; in the
third, which has only undissectable headers, the PPP one — protocol 7, 5 octets, no packet; the counter sample
behind them is there -/
example : decode [] (encodeSflow' sample') = .ok (expected' sample') ∧
    ((expected' sample').samples.map (·.recs.raw)) =
      [some ⟨11, 31, 0, 31, some (expectedPacket hdrV4Udp [1, 2, 3])⟩, some ⟨1, 64, 4, 22, none⟩,
       some ⟨7, 64, 0, 5, none⟩] ∧
    ((expected' sample').samples.map (fun s => (s.sourceID, s.sourceIDIdx, s.recordsNo))) = [(0, 5, 6), (2, 17, 4), (0, 1, 2)] ∧
    (expected' sample').counters.length = 1 := by decide

/-! ## Obligations over regenerated facts

The read sequences of the six counter records and of the extended switch record, re-extracted from
`sflow/flow_counter.go` / `sflow/flow_sample.go` on every run (field names and widths from the struct
declarations), are the layouts the model decodes with.  A swapped, dropped or duplicated read (the F6
defect was `[SrcVlan, SrcPriority, DstVlan, SrcPriority]`) is a failed obligation. -/

theorem gen_counter_layouts :
    Gen.SflowLayouts.genericIf = Sflow.genIntLayout ∧ Gen.SflowLayouts.ethernetIf = Sflow.ethIntLayout ∧
    Gen.SflowLayouts.tokenRing = Sflow.trIntLayout ∧ Gen.SflowLayouts.vg = Sflow.vgIntLayout ∧
    Gen.SflowLayouts.vlan = Sflow.vlanLayout ∧ Gen.SflowLayouts.processor = Sflow.procLayout := by
  decide +kernel

theorem gen_ext_switch_layout :
    Gen.SflowLayouts.extSwitch = [("SrcVlan", 4), ("SrcPriority", 4), ("DstVlan", 4), ("DstPriority", 4)] := by
  decide +kernel

/-- **Tie (control-flow skeleton)**: every branch / loop condition, switch case and `break` / `continue` of the
sources this model mirrors, re-extracted on every run, is exactly the reviewed inventory in `Spec/Sites.lean`
(which names the model clause of each).  A changed bound, a new or dropped branch breaks this obligation. -/
theorem guards_reviewed : Gen.Sites.guardsSflow = Spec.Sites.guardsSflow := by decide +kernel

/-! ## Obligations over the regenerated extraction code (the translator: `Gen.DissectIR`, `Gen.SflowLayouts` rows)

Five of the defects found in this code were wrong field extractions — an offset, a shift, a mask, a width
(F8, F15, F17, F19b, F19c).  `factgen` therefore translates the extraction code itself: every right-hand side with
which `packet/*.go` fills a header struct is an `Expr` (`Model/DissectIR.lean`: octets, shifts, masks, `|`, `+`, `*`,
conversions with their wrap-around, the header-length clamp, slices and the text function applied to them), and the
sFlow readers that are more than a chain of fixed-width reads are `Row` lists.  The theorems below say that the
hand-written model computes, for EVERY octet string, what the regenerated terms denote.  They are proved by
unfolding the evaluator on the generated term (`Proofs/DissectTie.lean`, `Proofs/SflowTie.lean`), so a changed
offset / shift / mask / width / read order in the source breaks the proof of the field concerned. -/

/-- **Tie (IPv4 fields)**: every field of the model's IPv4 header is the value of the expression the current
`decodeIPv4Header` assigns to it; the addresses are the octets it slices, rendered by `net.IP.String` -/
theorem gen_dissect_ipv4 (d : Bytes) :
    (ipv4At d).version = (field Gen.DissectIR.ipv4 "Version").eval d ∧
    (ipv4At d).tos = (field Gen.DissectIR.ipv4 "TOS").eval d ∧
    (ipv4At d).totalLen = (field Gen.DissectIR.ipv4 "TotalLen").eval d ∧
    (ipv4At d).id = (field Gen.DissectIR.ipv4 "ID").eval d ∧
    (ipv4At d).flags = (field Gen.DissectIR.ipv4 "Flags").eval d ∧
    (ipv4At d).fragOff = (field Gen.DissectIR.ipv4 "FragOff").eval d ∧
    (ipv4At d).ttl = (field Gen.DissectIR.ipv4 "TTL").eval d ∧
    (ipv4At d).protocol = (field Gen.DissectIR.ipv4 "Protocol").eval d ∧
    (ipv4At d).checksum = (field Gen.DissectIR.ipv4 "Checksum").eval d ∧
    (ipv4At d).src = (field Gen.DissectIR.ipv4 "Src").octets d ∧
    (ipv4At d).dst = (field Gen.DissectIR.ipv4 "Dst").octets d ∧
    (field Gen.DissectIR.ipv4 "Src").isIpText = true ∧ (field Gen.DissectIR.ipv4 "Dst").isIpText = true :=
  ⟨DissectTie.ipv4_version d, DissectTie.ipv4_tos d, DissectTie.ipv4_totalLen d, DissectTie.ipv4_id d,
   DissectTie.ipv4_flags d, DissectTie.ipv4_fragOff d, DissectTie.ipv4_ttl d, DissectTie.ipv4_protocol d,
   DissectTie.ipv4_checksum d, DissectTie.ipv4_src d, DissectTie.ipv4_dst d, DissectTie.ipv4_addr_text.1,
   DissectTie.ipv4_addr_text.2⟩

/-- **Tie (IPv4 header length, F17)**: the two length guards of `decodeIPv4Header` are 20 and the model's
`ihlOctets` of the first octet (`hlen := int(p.data[0]&0x0f) * 4; if hlen < IPv4HLen { hlen = IPv4HLen }`), and the
transport layer gets `p.data[hlen:]` with the same `hlen` -/
theorem gen_dissect_ipv4_hlen (d : Bytes) :
    Gen.DissectIR.ipv4Guards.map (fun g => g.eval d) = [20, ihlOctets (oct d 0)] ∧
    Gen.DissectIR.ipv4Rest.octets d = d.drop (ihlOctets (oct d 0)) :=
  ⟨DissectTie.ipv4_guards d, DissectTie.ipv4_rest d⟩

/-- **Tie (IPv4 decoder)**: the model's `decodeIPv4` is: the regenerated guards, then the struct of the regenerated
expressions and the regenerated hand-over -/
theorem gen_dissect_ipv4_decoder (d : Bytes) :
    decodeIPv4 d = if DissectTie.pass d Gen.DissectIR.ipv4Guards then
        .ok (DissectTie.irIPv4 d, Gen.DissectIR.ipv4Rest.octets d) else .err .ip4Short :=
  DissectTie.decodeIPv4_ir d

/-- **Tie (IPv6 fields)** -/
theorem gen_dissect_ipv6 (d : Bytes) :
    (ipv6At d).version = (field Gen.DissectIR.ipv6 "Version").eval d ∧
    (ipv6At d).trafficClass = (field Gen.DissectIR.ipv6 "TrafficClass").eval d ∧
    (ipv6At d).flowLabel = (field Gen.DissectIR.ipv6 "FlowLabel").eval d ∧
    (ipv6At d).payloadLen = (field Gen.DissectIR.ipv6 "PayloadLen").eval d ∧
    (ipv6At d).nextHeader = (field Gen.DissectIR.ipv6 "NextHeader").eval d ∧
    (ipv6At d).hopLimit = (field Gen.DissectIR.ipv6 "HopLimit").eval d ∧
    (ipv6At d).src = (field Gen.DissectIR.ipv6 "Src").octets d ∧
    (ipv6At d).dst = (field Gen.DissectIR.ipv6 "Dst").octets d ∧
    (field Gen.DissectIR.ipv6 "Src").isIpText = true ∧ (field Gen.DissectIR.ipv6 "Dst").isIpText = true :=
  ⟨DissectTie.ipv6_version d, DissectTie.ipv6_trafficClass d, DissectTie.ipv6_flowLabel d, DissectTie.ipv6_payloadLen d,
   DissectTie.ipv6_nextHeader d, DissectTie.ipv6_hopLimit d, DissectTie.ipv6_src d, DissectTie.ipv6_dst d,
   DissectTie.ipv6_addr_text.1, DissectTie.ipv6_addr_text.2⟩

theorem gen_dissect_ipv6_decoder (d : Bytes) :
    decodeIPv6 d = if DissectTie.pass d Gen.DissectIR.ipv6Guards then
        .ok (DissectTie.irIPv6 d, Gen.DissectIR.ipv6Rest.octets d) else .err .ip6Short :=
  DissectTie.decodeIPv6_ir d

/-- **Tie (TCP fields)**: ports, data offset, the three reserved bits (F19c), the nine flag bits, as the closed form
of the model's `decodeTCP` (`decodeTCP_eq`) has them -/
theorem gen_dissect_tcp (d : Bytes) :
    oct d 0 * 256 + oct d 1 = (field Gen.DissectIR.tcp "SrcPort").eval d ∧
    oct d 2 * 256 + oct d 3 = (field Gen.DissectIR.tcp "DstPort").eval d ∧
    oct d 12 / 16 = (field Gen.DissectIR.tcp "DataOffset").eval d ∧
    oct d 12 / 2 % 8 = (field Gen.DissectIR.tcp "Reserved").eval d ∧
    (oct d 12 * 256 + oct d 13) % 512 = (field Gen.DissectIR.tcp "Flags").eval d :=
  ⟨DissectTie.tcp_srcPort d, DissectTie.tcp_dstPort d, DissectTie.tcp_dataOffset d, DissectTie.tcp_reserved d,
   DissectTie.tcp_flags d⟩

theorem gen_dissect_tcp_decoder (d : Bytes) :
    decodeTCP d = if DissectTie.pass d Gen.DissectIR.tcpGuards then .ok (DissectTie.irTCP d) else .err .tcpShort :=
  DissectTie.decodeTCP_ir d

/-- **Tie (UDP fields)** -/
theorem gen_dissect_udp (d : Bytes) :
    oct d 0 * 256 + oct d 1 = (field Gen.DissectIR.udp "SrcPort").eval d ∧
    oct d 2 * 256 + oct d 3 = (field Gen.DissectIR.udp "DstPort").eval d :=
  ⟨DissectTie.udp_srcPort d, DissectTie.udp_dstPort d⟩

theorem gen_dissect_udp_decoder (d : Bytes) :
    decodeUDP d = if DissectTie.pass d Gen.DissectIR.udpGuards then .ok (DissectTie.irUDP d) else .err .udpShort :=
  DissectTie.decodeUDP_ir d

/-- **Tie (ICMP fields)**: type, code, `RestHeader = b[4:]` -/
theorem gen_dissect_icmp (d : Bytes) :
    oct d 0 = (field Gen.DissectIR.icmp "Type").eval d ∧ oct d 1 = (field Gen.DissectIR.icmp "Code").eval d ∧
    d.drop 4 = (field Gen.DissectIR.icmp "RestHeader").octets d :=
  ⟨DissectTie.icmp_type d, DissectTie.icmp_code d, DissectTie.icmp_restHeader d⟩

theorem gen_dissect_icmp_decoder (d : Bytes) :
    decodeICMP d = if DissectTie.pass d Gen.DissectIR.icmpGuards then .ok (DissectTie.irICMP d) else .err .icmpShort :=
  DissectTie.decodeICMP_ir d

/-- **Tie (Ethernet fields, `decodeIEEE802`)**: ethertype from octets 12 / 13; the MAC texts of octets 0..6 and
6..12, set only when the ethertype just computed is not 0x8100 -/
theorem gen_dissect_ethernet (d : Bytes) :
    (l2At d).etherType = (field Gen.DissectIR.ieee802 "EtherType").eval d ∧
    (l2At d).dstMAC = (field Gen.DissectIR.ieee802 "DstMAC").octets d ∧
    (l2At d).srcMAC = (field Gen.DissectIR.ieee802 "SrcMAC").octets d ∧
    (field Gen.DissectIR.ieee802 "DstMAC").isHwText = true ∧ (field Gen.DissectIR.ieee802 "SrcMAC").isHwText = true :=
  ⟨DissectTie.ieee802_etherType d, DissectTie.ieee802_dstMAC d, DissectTie.ieee802_srcMAC d,
   DissectTie.ieee802_mac_text.1, DissectTie.ieee802_mac_text.2⟩

theorem gen_dissect_ieee802_decoder (d : Bytes) :
    decodeIEEE802 d = if DissectTie.pass d Gen.DissectIR.ieee802Guards then .ok (DissectTie.irL2 d) else .err .ieeeShort :=
  DissectTie.decodeIEEE802_ir d

/-- **Tie (802.1Q, F15)**: the VLAN identifier is the value of the regenerated expression (low 12 bits of octets
14 / 15), and the buffer the source builds with `p.data[12], p.data[13] = p.data[16], p.data[17]` and
`append(p.data[:14], p.data[18:]...)` — followed symbolically by the translator — is the model's `untag` -/
theorem gen_dissect_vlan (d : Bytes) :
    (oct d 14 * 256 + oct d 15) % 4096 = (field Gen.DissectIR.vlan "Vlan").eval d ∧
    untag d = Gen.DissectIR.vlanData.octets d :=
  ⟨DissectTie.vlan_id d, DissectTie.vlan_data d⟩

theorem gen_dissect_vlan_decoder (d : Bytes) :
    decodeVlan d =
      if DissectTie.pass d Gen.DissectIR.vlanGuards then
        .ok ({ DissectTie.irL2 (Gen.DissectIR.vlanData.octets d) with vlan := (field Gen.DissectIR.vlan "Vlan").eval d },
             Gen.DissectIR.ethRest.octets (Gen.DissectIR.vlanData.octets d))
      else .err .ethShort :=
  DissectTie.decodeVlan_ir d

/-- **Tie (`Packet.decodeEthernet`)**: guard, `decodeIEEE802`, the 802.1Q branch iff the regenerated condition holds
of the ethertype it returned, else the regenerated hand-over -/
theorem gen_dissect_ethernet_decoder (d : Bytes) :
    decodeEthernet d =
      if DissectTie.pass d Gen.DissectIR.ethGuards then
        if Gen.DissectIR.ethTagged.evalWith (fun _ => (DissectTie.irL2 d).etherType) d ≠ 0 then decodeVlan d
        else .ok (DissectTie.irL2 d, Gen.DissectIR.ethRest.octets d)
      else .err .ethShort :=
  DissectTie.decodeEthernet_ir d

/-- **Tie (nothing unrecognised, nothing else set, nothing read beyond the guards)**: every field expression is
translated; the lists hold exactly the fields of the Go structs; every constant index / slice bound lies below the
bound of the length guard in front of it -/
theorem gen_dissect_complete :
    (allKnown Gen.DissectIR.ieee802 = true ∧ allKnown Gen.DissectIR.vlan = true ∧ allKnown Gen.DissectIR.ipv4 = true ∧
     allKnown Gen.DissectIR.ipv6 = true ∧ allKnown Gen.DissectIR.tcp = true ∧ allKnown Gen.DissectIR.udp = true ∧
     allKnown Gen.DissectIR.icmp = true ∧ Gen.DissectIR.eth = [] ∧ Gen.DissectIR.ethCalls = (1, 1)) ∧
    (Gen.DissectIR.ieee802.map (·.1) = ["EtherType", "DstMAC", "SrcMAC"] ∧ Gen.DissectIR.vlan.map (·.1) = ["Vlan"] ∧
     Gen.DissectIR.ipv4.map (·.1) =
       ["Version", "TOS", "TotalLen", "ID", "Flags", "FragOff", "TTL", "Protocol", "Checksum", "Src", "Dst"] ∧
     Gen.DissectIR.ipv6.map (·.1) =
       ["Version", "TrafficClass", "FlowLabel", "PayloadLen", "NextHeader", "HopLimit", "Src", "Dst"] ∧
     Gen.DissectIR.tcp.map (·.1) = ["SrcPort", "DstPort", "DataOffset", "Reserved", "Flags"] ∧
     Gen.DissectIR.udp.map (·.1) = ["SrcPort", "DstPort"] ∧
     Gen.DissectIR.icmp.map (·.1) = ["Type", "Code", "RestHeader"]) ∧
    (needOf Gen.DissectIR.ieee802 ≤ 14 ∧ needOf Gen.DissectIR.vlan ≤ 18 ∧ Gen.DissectIR.vlanData.need ≤ 18 ∧
     needOf Gen.DissectIR.ipv4 ≤ 20 ∧ needOf Gen.DissectIR.ipv6 ≤ 40 ∧ needOf Gen.DissectIR.tcp ≤ 20 ∧
     needOf Gen.DissectIR.udp ≤ 8 ∧ needOf Gen.DissectIR.icmp ≤ 5 ∧
     Gen.DissectIR.ethRest.need ≤ 14 ∧ Gen.DissectIR.ipv6Rest.need ≤ 40 ∧ Gen.DissectIR.ipv4Rest.need ≤ 20) :=
  ⟨DissectTie.all_known, DissectTie.field_names, DissectTie.within_guards⟩

/-! ### the historical extraction bugs, as the translator would have rendered them

Each `example` writes the expression of the source BEFORE the `fix:` commit as an `Expr` (from the commit's diff) and
shows on a concrete header that it does not evaluate to the model's field: with that source the obligation above
could not have been proved. -/

/-- an IPv4 header (IHL 7: eight option octets), DF set, fragment offset 185 -/
def hdrF8 : Bytes :=
  [0x47, 0, 0, 36, 0x12, 0x34, 0x40, 0xb9, 64, 17, 0xab, 0xcd, 192, 0, 2, 1, 192, 0, 2, 2, 7, 7, 4, 192, 0, 2, 3, 0]

/-- **F8** (`fix:` 785a914): `Flags: int(p.data[6] & 0x07)` and no `FragOff` at all — on a header with DF set and
offset 185 the old expression gives 0, the model 2; the missing field is `unrecognised` (value 0), the model 185 -/
example :
    (Expr.band (.byte 6) (.lit 7)).eval hdrF8 = 0 ∧ (ipv4At hdrF8).flags = 2 ∧
    (field [("Version", Expr.shr (.band (.byte 0) (.lit 240)) 4), ("Flags", .band (.byte 6) (.lit 7))] "FragOff").eval hdrF8 = 0 ∧
    (ipv4At hdrF8).fragOff = 185 ∧ (field Gen.DissectIR.ipv4 "Flags").eval hdrF8 = 2 ∧
    (field Gen.DissectIR.ipv4 "FragOff").eval hdrF8 = 185 := by decide

/-- **F17** (`fix:` 4d10a36): the header length was the constant `IPv4HLen`: `p.data = p.data[IPv4HLen:]`, no second
guard — on a header with IHL 7 the old expression gives 20, the model (and the regenerated clamp) 28 -/
example :
    (Expr.lit 20).eval hdrF8 = 20 ∧ ihlOctets (oct hdrF8 0) = 28 ∧
    Gen.DissectIR.ipv4Guards.map (fun g => g.eval hdrF8) = [20, 28] ∧
    (Expr.octsFrom (.lit 20)).octets hdrF8 ≠ Gen.DissectIR.ipv4Rest.octets hdrF8 := by decide

/-- an Ethernet header with an 802.1Q tag: priority bits 0b101, VLAN 100 (tag control information 0xa064) -/
def hdrF15 : Bytes := [2, 0, 0, 0, 0, 1, 2, 0, 0, 0, 0, 2, 0x81, 0x00, 0xa0, 0x64, 0x08, 0x00]

/-- **F15** (`fix:` 3455198): `vlan := int(p.data[14])<<8 | int(p.data[15])`, the whole tag — 41060 where the model
(and the regenerated expression) has the VLAN identifier 100 -/
example :
    (Expr.bor (.shl (.byte 14) 8) (.byte 15)).eval hdrF15 = 41060 ∧ (oct hdrF15 14 * 256 + oct hdrF15 15) % 4096 = 100 ∧
    (field Gen.DissectIR.vlan "Vlan").eval hdrF15 = 100 := by decide

/-- a TCP header whose octet 12 is 0x5b: data offset 5, reserved bits 0b101, NS set -/
def hdrF19c : Bytes := [1, 187, 199, 56, 0, 0, 0, 1, 0, 0, 0, 2, 0x5b, 0x12, 4, 0, 0, 0, 0, 0]

/-- **F19c** (`fix:` b4acc7b): `Reserved: 0` — the model has the three bits, 5 -/
example :
    (Expr.lit 0).eval hdrF19c = 0 ∧ oct hdrF19c 12 / 2 % 8 = 5 ∧ (field Gen.DissectIR.tcp "Reserved").eval hdrF19c = 5 := by
  decide

/-! ### the sFlow readers -/

/-- **Tie (datagram header)**: the model's `decodeHeader` is the interpretation of the regenerated statements of
`sfHeaderDecode`: version (≠ 5: `errSFVersionNotSupport`), address type, agent address of 4 octets — 16 iff the type
is 2 — read with `Reader.Read`, sub-agent id, sequence number, uptime, sample count; the `Header` is built from the
values by field name -/
theorem gen_sflow_datagram_header (bs : Bytes) :
    decodeHeader bs = SflowTie.outcomeAs SflowTie.headerOf (run Gen.SflowLayouts.datagramHeader {} bs) :=
  SflowTie.decodeHeader_ir bs

/-- **Tie (sample tag and dispatch)**: one iteration of the sample loop is the interpretation of the regenerated
`getSampleInfo` — enterprise = tag >> 12, format = tag & 0xfff, `errDataLengthUnknown` when the length word is
missing, an enterprise-specific sample skipped by its length — then the filter and the regenerated `switch` -/
theorem gen_sflow_sample (f : List Nat) (bs : Bytes) :
    sampleStep f bs =
      match run Gen.SflowLayouts.sampleInfo {} bs with
      | .done ρ r =>
        if ρ.num "sfTypeFormat" ∈ f then .ok (none, r.drop (ρ.num "sfDataLength"))
        else if SflowTie.callee Gen.SflowLayouts.sampleDispatch (ρ.num "sfTypeFormat") = some "decodeFlowSample" then
          (decodeFlowSample r).mapFst (fun s => some (.flow s))
        else if SflowTie.callee Gen.SflowLayouts.sampleDispatch (ρ.num "sfTypeFormat") = some "decodeFlowCounter" then
          (decodeCounterSample r).mapFst (fun c => some (.counter c))
        else .ok (none, r.drop (ρ.num "sfDataLength"))
      | .fail e => failAs e
      | .skip _ r => .ok (none, r)
      | .stuck => .panic :=
  SflowTie.sampleStep_ir f bs

/-- **Tie (flow sample header, F19b)**: sequence number, source id type (one octet), three octets assembled into
`SourceIDIdx` by the regenerated expression, sampling rate, pool, drops, input, output, record count -/
theorem gen_sflow_flow_sample (bs : Bytes) :
    decodeFlowSample bs =
      match run Gen.SflowLayouts.flowSample {} bs with
      | .done ρ r1 =>
        (match loopN flowRecord (r1.length + 1) (ρ.num "RecordsNo") r1 with
         | .ok (items, r2) => .ok (SflowTie.flowSampleOf ρ (FlowRecs.ofList items), r2)
         | .err e => .err e
         | .panic => .panic
         | .fuel => .fuel)
      | .fail e => failAs e
      | _ => .panic :=
  SflowTie.decodeFlowSample_ir bs

/-- **Tie (counter sample header)** -/
theorem gen_sflow_counter_sample (bs : Bytes) :
    decodeCounterSample bs =
      match run Gen.SflowLayouts.counterSample {} bs with
      | .done ρ r1 =>
        (match loopN counterRecord (r1.length + 1) (ρ.num "RecordsNo") r1 with
         | .ok (items, r2) => .ok (SflowTie.counterSampleOf ρ (CounterRecs.ofList items), r2)
         | .err e => .err e
         | .panic => .panic
         | .fuel => .fuel)
      | .fail e => failAs e
      | _ => .panic :=
  SflowTie.decodeCounterSample_ir bs

/-- **Tie (the 24-bit index, F19b)**: whatever expression the flow / counter sample header assigns to `SourceIDIdx`
over the three octets read, its value is their big-endian number (what the model's `readFields [.., 3, ..]` reads) -/
theorem gen_sflow_source_index (buf : Bytes) (h : buf.length = 3) (ρ : String → Nat) (e : Expr)
    (he : Row.set "SourceIDIdx" "buf" e ∈ Gen.SflowLayouts.flowSample ∨
          Row.set "SourceIDIdx" "buf" e ∈ Gen.SflowLayouts.counterSample) :
    e.evalWith ρ buf = beN buf := by
  have key : e = .bor (.bor (.byte 2) (.wrap 32 (.shl (.byte 1) 8))) (.wrap 32 (.shl (.byte 0) 16)) := by
    rcases he with he | he
    · simp [Gen.SflowLayouts.flowSample] at he; exact he
    · simp [Gen.SflowLayouts.counterSample] at he; exact he
  subst key
  simp only [Expr.evalWith]
  exact SflowTie.idx24 buf h

/-- **Tie (raw-packet-header record)**: protocol, frame length, stripped, header length (more than 1500:
`errMaxOutEthernetLength`), then header length plus XDR padding — `(4 - HeaderLength) % 4` in `uint32` — octets
read with `Reader.Read` unless there are none, cut back to the header length; the record reported is built from the
four words BY FIELD NAME through the regenerated composite literal of `decodeSampledHeader` (`SflowTie.rawHeaderOf`:
field `F` of `sflow.RawHeader` is the value read into the `SampledHeader` field the literal names for it — F33: until
the repair there was no such literal and the words were dropped; a literal that crossed two fields breaks this proof);
the dissector runs on these octets, its packet is kept when it succeeds -/
theorem gen_sflow_raw_header (bs : Bytes) :
    decodeSampledHeader bs =
      match run Gen.SflowLayouts.sampledHeader {} bs with
      | .done ρ r =>
        (match dissect (ρ.octets "Header") (ρ.num "Protocol") with
         | .ok p => .ok (SflowTie.rawHeaderOf ρ (some p), r)
         | .err _ => .ok (SflowTie.rawHeaderOf ρ none, r)
         | .panic => .panic
         | .fuel => .fuel)
      | .fail e => failAs e
      | _ => .panic :=
  SflowTie.decodeSampledHeader_ir bs

/-- a Go identifier is exported (what `encoding/json` renders) iff it starts with an upper-case letter -/
def exported (n : String) : Bool := n.front.isUpper

/-- **Tie (the published shape of the raw-header record, F33)**: the members the model renders for a raw-header record
are, in order, the named fields of the regenerated declaration of `sflow.RawHeader` — all `uint32` — followed by the
exported fields of `packet.Packet`, which the declaration embeds by pointer as its last field (`encoding/json` promotes
the members of an embedded struct and leaves them out when the pointer is nil: the correspondence shows that; the
member names and their order are pinned here).  No field carries a tag (`structDecl` would emit `!unrecognised`). -/
theorem gen_sflow_raw_header_struct (h : RawHeader) (p : Pkt) :
    (Gen.SflowLayouts.rawHeaderStruct.filter (fun f => f.1 != "")).map (·.1) = (Sflow.Json.rawHeaderWords h).map (·.1) ∧
    (Gen.SflowLayouts.rawHeaderStruct.filter (fun f => f.1 != "")).map (·.2) = ["uint32", "uint32", "uint32", "uint32"] ∧
    Gen.SflowLayouts.rawHeaderStruct.getLast? = some ("", "*packet.Packet") ∧
    (Gen.SflowLayouts.rawHeaderStruct.filter (fun f => f.1 == "")).length = 1 ∧
    ((Gen.SflowLayouts.packetStruct.map (·.1)).filter exported) = (Sflow.Json.pktMembers p).map (·.1) ∧
    (Sflow.Json.rawHeaderTree ⟨h.protocol, h.frameLength, h.stripped, h.headerLength, some p⟩ =
      Sflow.Json.obj (Sflow.Json.rawHeaderWords h ++ Sflow.Json.pktMembers p)) ∧
    (Sflow.Json.rawHeaderTree ⟨h.protocol, h.frameLength, h.stripped, h.headerLength, none⟩ =
      Sflow.Json.obj (Sflow.Json.rawHeaderWords h)) := by
  refine ⟨?_, by decide +kernel, by decide +kernel, by decide +kernel, ?_, rfl, ?_⟩
  · simp only [Sflow.Json.rawHeaderWords, List.map]; decide +kernel
  · simp only [Sflow.Json.pktMembers, List.map]; decide +kernel
  · simp [Sflow.Json.rawHeaderTree, Sflow.Json.rawHeaderWords]

/-- **Tie (extended router record)**: the length rule (16 or 28, else `errExtRouterDataLength`), `l - 8` octets of
address type and next hop read at once, `NextHop = buff[4:]`, the two masks -/
theorem gen_sflow_ext_router (l : Nat) (bs : Bytes) :
    decodeExtRouter l bs =
      SflowTie.outcomeAs SflowTie.extRouterOf (run Gen.SflowLayouts.extRouter { nums := [("l", l)] } bs) :=
  SflowTie.decodeExtRouter_ir l bs

/-- **Tie (extended switch record)**: the four words by field name -/
theorem gen_sflow_ext_switch (bs : Bytes) :
    decodeExtSwitch bs =
      match readFields (widths Gen.SflowLayouts.extSwitch) bs with
      | some (vs, r) =>
        .ok (⟨SflowTie.namedVal Gen.SflowLayouts.extSwitch vs "SrcVlan", SflowTie.namedVal Gen.SflowLayouts.extSwitch vs "SrcPriority",
              SflowTie.namedVal Gen.SflowLayouts.extSwitch vs "DstVlan", SflowTie.namedVal Gen.SflowLayouts.extSwitch vs "DstPriority"⟩, r)
      | none => .err .eof :=
  SflowTie.decodeExtSwitch_ir bs

/-- **Tie (flow record dispatch)**: the record loop's `switch rTypeFormat` is the regenerated table — raw header
(since F33 always stored: `gen_sflow_tables` has the key `RawHeader`, no longer `RawHeader?`), extended switch, extended router under the regenerated length
rule, anything else skipped by its declared length -/
theorem gen_sflow_flow_dispatch (bs : Bytes) :
    flowRecord bs =
      match u32 bs with
      | none => .err .eof
      | some (fmt, r1) =>
        match u32 r1 with
        | none => .err .eof
        | some (len, r2) =>
          if SflowTie.callee Gen.SflowLayouts.flowRecordDispatch fmt = some "decodeSampledHeader" then
            (decodeSampledHeader r2).mapFst (fun h => some (.raw h))
          else if SflowTie.callee Gen.SflowLayouts.flowRecordDispatch fmt = some "decodeExtSwitchData" then
            (decodeExtSwitch r2).mapFst (fun s => some (.sw s))
          else if SflowTie.callee Gen.SflowLayouts.flowRecordDispatch fmt = some "decodeExtRouterData" then
            if ((Gen.SflowLayouts.flowRecordSkips.lookup fmt).getD (.unrecognised "")).evalWith (fun _ => len) [] ≠ 0 then
              .ok (none, r2.drop len)
            else (decodeExtRouter len r2).mapFst (fun x => some (.rtr x))
          else .ok (none, r2.drop len) :=
  SflowTie.flowRecord_ir bs

/-- **Tie (counter record dispatch)**: the layout the model decodes a counter record of format `fmt` with is the one
the regenerated tables select: `switch rTypeFormat` → decoder function → the struct whose `unmarshal` it runs → that
struct's regenerated read sequence (`gen_counter_layouts`) -/
theorem gen_sflow_counter_dispatch (fmt : Nat) : counterLayout fmt = SflowTie.genCounterLayout fmt :=
  SflowTie.counterLayout_ir fmt

/-- **Tie (constants, keys, defaults)**: the dispatch constants by name, the `Records` keys, the default clauses (skip
by the declared length), what `getSampleInfo` hands back, which struct's `unmarshal` the two plain flow-record
decoders run, the statements of `decodeSampledHeader` (`SampledHeader.unmarshal`, the `RawHeader` literal over the
four words, then `packet.Decoder(h.Header, h.Protocol)`, its packet stored on success and its error swallowed: what
`gen_sflow_raw_header` composes), the literal's (field, source field) pairs, and no unrecognised statement in any of
the six readers -/
theorem gen_sflow_tables :
    Gen.SflowLayouts.consts.lookup "DataFlowSample" = some 1 ∧ Gen.SflowLayouts.consts.lookup "DataCounterSample" = some 2 ∧
    Gen.SflowLayouts.consts.lookup "SFDataRawHeader" = some 1 ∧ Gen.SflowLayouts.consts.lookup "SFDataExtSwitch" = some 1001 ∧
    Gen.SflowLayouts.consts.lookup "SFDataExtRouter" = some 1002 ∧
    Gen.SflowLayouts.consts.lookup "SFGenericInterfaceCounters" = some 1 ∧
    Gen.SflowLayouts.consts.lookup "SFEthernetInterfaceCounters" = some 2 ∧
    Gen.SflowLayouts.consts.lookup "SFTokenRingInterfaceCounters" = some 3 ∧
    Gen.SflowLayouts.consts.lookup "SF100BaseVGInterfaceCounters" = some 4 ∧
    Gen.SflowLayouts.consts.lookup "SFVLANCounters" = some 5 ∧ Gen.SflowLayouts.consts.lookup "SFProcessorCounters" = some 1001 ∧
    Gen.SflowLayouts.flowRecordDispatch.map (fun p => (p.1, p.2.2)) = [(1, "RawHeader"), (1001, "ExtSwitch"), (1002, "ExtRouter")] ∧
    Gen.SflowLayouts.counterDispatch.map (fun p => (p.1, p.2.2)) =
      [(1, "GenInt"), (2, "EthInt"), (3, "TRInt"), (4, "VGInt"), (5, "Vlan"), (1001, "Proc")] ∧
    Gen.SflowLayouts.sampleDispatchDefault = "d.reader.Seek(int64(sfDataLength), 1)" ∧
    Gen.SflowLayouts.flowRecordDispatchDefault = "r.Seek(int64(rTypeLength), 1)" ∧
    Gen.SflowLayouts.counterDispatchDefault = "r.Seek(int64(rTypeLength), 1)" ∧
    Gen.SflowLayouts.sampleInfoReturns = ["sfTypeFormat", "sfDataLength"] ∧
    Gen.SflowLayouts.flowDecoders = [("decodeExtSwitchData", "ExtSwitchData"), ("decodeExtRouterData", "ExtRouterData")] ∧
    Gen.SflowLayouts.sampledHeaderDecoder =
      ["var ( h = new(SampledHeader) err error )", "if err = h.unmarshal(r); err != nil { return nil, err }",
       "rh := &RawHeader{ Protocol: h.Protocol, FrameLength: h.FrameLength, Stripped: h.Stripped, HeaderLength: h.HeaderLength, }",
       "p := packet.NewPacket()", "if d, err := p.Decoder(h.Header, h.Protocol); err == nil { rh.Packet = d }",
       "return rh, nil"] ∧
    Gen.SflowLayouts.rawHeaderLiteral =
      [("Protocol", "Protocol"), ("FrameLength", "FrameLength"), ("Stripped", "Stripped"), ("HeaderLength", "HeaderLength")] ∧
    (Gen.SflowLayouts.datagramHeader ++ Gen.SflowLayouts.sampleInfo ++ Gen.SflowLayouts.flowSample ++
      Gen.SflowLayouts.counterSample ++ Gen.SflowLayouts.sampledHeader ++ Gen.SflowLayouts.extRouter).all Row.known = true :=
  SflowTie.tables

/-- a flow sample header: sequence 7, source id type 2, index 17, rate 1, pool 2, drops 0, input 3, output 4, no records -/
def fsF19b : Bytes :=
  [0, 0, 0, 7, 2, 0, 0, 17, 0, 0, 0, 1, 0, 0, 0, 2, 0, 0, 0, 0, 0, 0, 0, 3, 0, 0, 0, 4, 0, 0, 0, 0]

/-- **F19b** (`fix:` b4acc7b): the three octets were skipped (`r.Seek(3, 1)`) and `SourceIDIdx` did not exist: the
statement is none of the row shapes, so the translator emits `unrecognised` and the row list is stuck — where the
model, and the interpretation of the regenerated rows, has the index 17 -/
example :
    run [.num "SequenceNo" 4 "err", .num "SourceID" 1 "err", .unrecognised "r.Seek(3, 1)", .num "SamplingRate" 4 "err"]
      {} fsF19b = .stuck ∧
    (match decodeFlowSample fsF19b with | .ok (s, _) => s.sourceIDIdx | _ => 0) = 17 ∧
    (match run Gen.SflowLayouts.flowSample {} fsF19b with | .done ρ _ => ρ.num "SourceIDIdx" | _ => 0) = 17 := by
  decide

end Vflow.C07
