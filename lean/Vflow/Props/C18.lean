import Vflow.Proofs.SflowSpec2
import Vflow.Gen.OptionsTbl
import Vflow.Gen.SflowFilter
/-!
# C18 — the sFlow type filter removes exactly the listed sample types

`decode f bs` is `SFDecoder{filter: f}.SFDecode()`.  A sample whose format is in `f` is skipped by its
*declared length* without being decoded, whereas the unfiltered decoder decodes it by its contents.
The two therefore agree exactly when every sample the filter skips is *framed* (`Framed`): decoding its
body succeeds and ends where its declared length says — which is what "well-formed" means for a sample.
Under that hypothesis the theorem holds for **every** filter list and **every** octet string, errors
included; without it the statement is false (`framing_needed`).  When the filter lists neither flow (1)
nor counter (2) samples no hypothesis is needed at all.

What the hypothesis still asks since the F19 repairs: that the declared length of a skipped sample is its
real length and that the records in it can be *read* (no EOF inside a record, no sampled header longer
than 1500 octets).  It no longer asks anything of the sampled headers themselves, nor of the lengths of
extended-router records: a flow sample with a header the dissector rejects (truncated, not IP, …) used to
fail the unfiltered decode with the dissector's error while the filtered decode skipped it and succeeded —
a difference the hypothesis had to exclude; now such a sample decodes, ends where its length says, and is
framed (`filter_undissectable`, and `filter_encode` / `filter_encode'` over the widened well-formed
datagrams).  `framing_needed` is unchanged: a wrong declared length still separates the two decoders.
-/
namespace Vflow.C18
open Vflow Vflow.Sflow

/-- every sample of `bs` that the filter `f` would skip is framed by its declared length -/
def FramedDatagram (f : List Nat) (bs : Bytes) : Prop :=
  ∀ h r, decodeHeader bs = .ok (h, r) → Framed f (bs.length + 1) h.samplesNo r

/-- **C18**: for every filter list and every octet string whose filtered samples are framed, decoding
with the filter gives exactly what decoding without it gives — the same error, or the same datagram
minus the samples of the listed types, every other sample and counter unchanged and in the same order.
By induction over the sample loop (`loopN_filter`). -/
theorem filter_spec (f : List Nat) (bs : Bytes) (hfr : FramedDatagram f bs) :
    decode f bs = (decode [] bs).map (dropTypes f) := by
  unfold decode
  cases hx : decodeHeader bs with
  | ok p =>
    obtain ⟨h, r⟩ := p
    simp only
    rw [loopN_filter f _ _ _ (hfr h r hx)]
    cases loopN (sampleStep []) (bs.length + 1) h.samplesNo r with
    | ok q => obtain ⟨items, r'⟩ := q; simp [Res.mapFst, Res.map, mkDatagram_keep]
    | err e => simp [Res.mapFst, Res.map]
    | panic => simp [Res.mapFst, Res.map]
    | fuel => simp [Res.mapFst, Res.map]
  | err e => simp [Res.map]
  | panic => simp [Res.map]
  | fuel => simp [Res.map]

/-- **C18 (unsupported types)**: a filter that lists neither flow nor counter samples changes nothing,
for every octet string, with no hypothesis -/
theorem filter_unsupported (f : List Nat) (h1 : 1 ∉ f) (h2 : 2 ∉ f) (bs : Bytes) :
    decode f bs = decode [] bs := by
  rw [filter_spec f bs (fun h r _ => framed_of_unsupported f h1 h2 _ _ _)]
  have : ∀ d, dropTypes f d = d := by intro d; simp [dropTypes, h1, h2]
  cases decode [] bs <;> simp [Res.map, this]

/-- the empty filter is the unfiltered decoder's own specification (sanity of `dropTypes`) -/
theorem filter_nil (bs : Bytes) : (decode [] bs).map (dropTypes []) = decode [] bs := by
  have : ∀ d, dropTypes [] d = d := by intro d; simp [dropTypes]
  cases decode [] bs <;> simp [Res.map, this]

/-- the kept samples are decoded exactly as without the filter: membership form of `filter_spec` -/
theorem filter_spec_ok (f : List Nat) (bs : Bytes) (hfr : FramedDatagram f bs) (d : Datagram)
    (h : decode [] bs = .ok d) :
    decode f bs = .ok { d with samples := if 1 ∈ f then [] else d.samples,
                               counters := if 2 ∈ f then [] else d.counters } := by
  rw [filter_spec f bs hfr, h]; rfl

/-- **C18 (well-formed datagrams)**: for every filter list and every well-formed abstract datagram, the
filtered decode of its encoding is the expected datagram minus the listed types (C07 is the case `f = []`);
proved directly from the sample-level round trip, and an instance of `filter_spec` because encoded
samples are framed -/
theorem filter_encode (f : List Nat) (d : ADatagram) (hwf : d.WF) :
    decode f (encodeSflow d) = .ok (dropTypes f (expected d)) := decode_enc f d hwf

/-- **C18 (well-formed datagrams, abstract headers)**: the same over `ADatagram'`, whose raw-header records
are abstract headers — representable or undissectable (`ABad`) -/
theorem filter_encode' (f : List Nat) (d : ADatagram') (hwf : d.WF) :
    decode f (encodeSflow' d) = .ok (dropTypes f (expected' d)) := decode_enc' f d hwf

/-- a datagram: flow sample (extended switch record) followed by a counter sample (processor record) -/
def witness : Bytes :=
  [0,0,0,5, 0,0,0,1, 10,0,0,1, 0,0,0,0, 0,0,0,1, 0,0,0,2, 0,0,0,2,
   0,0,0,1, 0,0,0,56, 0,0,0,7, 0,0,0,0, 0,0,0,1, 0,0,0,2, 0,0,0,0, 0,0,0,3, 0,0,0,4, 0,0,0,1,
     0,0,3,233, 0,0,0,16, 0,0,0,1, 0,0,0,2, 0,0,0,3, 0,0,0,4,
   0,0,0,2, 0,0,0,48, 0,0,0,9, 2,0,0,17, 0,0,0,1,
     0,0,3,233, 0,0,0,28, 0,0,0,1, 0,0,0,2, 0,0,0,3, 0,0,0,0,0,0,0,4, 0,0,0,0,0,0,0,5]

set_option maxRecDepth 20000 in
/-- non-vacuity: on the witness the filtered flow sample precedes the counter sample, which is decoded
exactly as without the filter -/
example : decode [1] witness = (decode [] witness).map (dropTypes [1]) ∧
    (decode [] witness).map (fun d => (d.samples.length, d.counters.length)) = .ok (1, 1) ∧
    (decode [1] witness).map (fun d => (d.samples.length, d.counters.length)) = .ok (0, 1) := by
  decide

/-- a datagram: a flow sample whose only record is a raw header of 14 octets (Ethernet only — the
dissector's `errShortIPv4HeaderLength`) followed by a counter sample (processor record) -/
def witnessUndissectable : Bytes :=
  [0,0,0,5, 0,0,0,1, 10,0,0,1, 0,0,0,0, 0,0,0,1, 0,0,0,2, 0,0,0,2,
   0,0,0,1, 0,0,0,72, 0,0,0,7, 0,0,0,0, 0,0,0,1, 0,0,0,2, 0,0,0,0, 0,0,0,3, 0,0,0,4, 0,0,0,1,
     0,0,0,1, 0,0,0,32, 0,0,0,1, 0,0,0,64, 0,0,0,4, 0,0,0,14, 2,0,0,0,0,1, 2,0,0,0,0,2, 8,0, 0,0,
   0,0,0,2, 0,0,0,48, 0,0,0,9, 2,0,0,17, 0,0,0,1,
     0,0,3,233, 0,0,0,28, 0,0,0,1, 0,0,0,2, 0,0,0,3, 0,0,0,0,0,0,0,4, 0,0,0,0,0,0,0,5]

set_option maxRecDepth 20000 in
/-- **C18 (undissectable header in a filtered sample — F19a)**: the filtered and the unfiltered decoder
agree on the witness, and the unfiltered one reports the flow sample (its `RawHeader` the record's four words —
protocol 1, frame length 64, stripped 4, 14 octets — without a packet: F33) and the counter sample; before the F19a
repair it was `err ip4Short` against a datagram with one counter sample -/
theorem filter_undissectable :
    decode [1] witnessUndissectable = (decode [] witnessUndissectable).map (dropTypes [1]) ∧
    (decode [] witnessUndissectable).map (fun d => (d.samples.map (·.recs.raw), d.counters.length)) =
      .ok ([some ⟨1, 64, 4, 14, none⟩], 1) ∧
    (decode [1] witnessUndissectable).map (fun d => (d.samples.length, d.counters.length)) = .ok (0, 1) := by
  decide

/-- the framing hypothesis is necessary: a flow sample whose declared length (0) is not its real length
is skipped differently by the two decoders -/
theorem framing_needed : ∃ f bs, decode f bs ≠ (decode [] bs).map (dropTypes f) :=
  ⟨[1], [0,0,0,5, 0,0,0,1, 10,0,0,1, 0,0,0,0, 0,0,0,1, 0,0,0,2, 0,0,0,2,
         0,0,0,1, 0,0,0,0, 0,0,0,7, 0,0,0,0, 0,0,0,1, 0,0,0,2, 0,0,0,0, 0,0,0,3, 0,0,0,4, 0,0,0,0,
         0,0,0,2, 0,0,0,12, 0,0,0,9, 0,0,0,0, 0,0,0,0], by decide⟩

/-- one loop iteration looks at the filter list only to ask whether it lists the format of the sample at
hand, and for every format other than 1 (flow) and 2 (counter) a listed and an unlisted sample are skipped
alike — by the declared length -/
theorem sampleStep_depends (f g : List Nat) (h1 : 1 ∈ f ↔ 1 ∈ g) (h2 : 2 ∈ f ↔ 2 ∈ g) :
    sampleStep f = sampleStep g := by
  funext bs
  unfold sampleStep
  split
  · rename_i ent fmt len r _
    by_cases he : ent ≠ 0
    · rw [if_pos he, if_pos he]
    · by_cases hf1 : fmt = 1
      · subst hf1; rw [if_neg he, if_neg he]; simp only [h1]
      · by_cases hf2 : fmt = 2
        · subst hf2; rw [if_neg he, if_neg he]; simp only [h2]
        · rw [if_neg he, if_neg he]; simp only [hf1, hf2, if_false]
          by_cases a : fmt ∈ f <;> by_cases b : fmt ∈ g <;> simp only [a, b, if_true, if_false]
  all_goals rfl

/-- **C18 (all filter lists: "empty, flow, counter, unknown types, several")**: the decoded datagram depends on
the filter list only through whether it lists 1 and whether it lists 2 — for **every** octet string, framed or
not, errors included, with no hypothesis on the datagram.  Order, repetition and unknown types in the list are
immaterial, so the four lists `[]`, `[1]`, `[2]`, `[1, 2]` stand for all of them. -/
theorem filter_depends (f g : List Nat) (h1 : 1 ∈ f ↔ 1 ∈ g) (h2 : 2 ∈ f ↔ 2 ∈ g) (bs : Bytes) :
    decode f bs = decode g bs := by
  unfold decode; rw [sampleStep_depends f g h1 h2]

/-- two lists with the same members (a permutation, a list with repetitions, …) filter alike -/
theorem filter_same_members (f g : List Nat) (h : ∀ t, t ∈ f ↔ t ∈ g) (bs : Bytes) :
    decode f bs = decode g bs := filter_depends f g (h 1) (h 2) bs

/-- every filter list behaves as one of the four canonical ones -/
theorem filter_canonical (f : List Nat) (bs : Bytes) :
    decode f bs = decode ((if 1 ∈ f then [1] else []) ++ (if 2 ∈ f then [2] else [])) bs := by
  apply filter_depends <;> by_cases a : 1 ∈ f <;> by_cases b : 2 ∈ f <;> simp [a, b]

/-- **C18 (several occurrences of the option)**: the list built by two occurrences of `-sflow-type-filter`
(`gen_filter_flag_appends`: the second appends to the first) removes what either removes -/
theorem filter_append (f g : List Nat) (bs : Bytes) (hfr : FramedDatagram (f ++ g) bs) :
    decode (f ++ g) bs = (decode [] bs).map (dropTypes f ∘ dropTypes g) := by
  rw [filter_spec _ bs hfr]
  have : ∀ d, dropTypes (f ++ g) d = (dropTypes f ∘ dropTypes g) d := by
    intro d; simp only [dropTypes, Function.comp, List.mem_append]
    by_cases a : 1 ∈ f <;> by_cases b : 1 ∈ g <;> by_cases c : 2 ∈ f <;> by_cases e : 2 ∈ g <;> simp [a, b, c, e]
  cases decode [] bs <;> simp [Res.map, this]

/-- non-vacuity of `filter_depends`: a list with unknown types, repetitions and another order, on the witness -/
example : decode [7, 1, 4096, 1] witness = decode [1] witness := filter_depends _ _ (by decide) (by decide) _

/-- **Tie (what "listed" means)**: `isFilterMatch`, regenerated: `true` exactly when some element of the decoder's list
equals the sample's format — the model's `fmt ∈ f`; nothing else of the list is looked at (hence `filter_depends`) -/
theorem gen_filter_match :
    Gen.SflowFilter.filterMatch =
      ["func(f uint32) bool",
       "for _, v := range d.filter { if v == f { return true } }",
       "return false"] := by decide +kernel

/-- **Tie (where the filter is consulted)**: the sample loop of `SFDecode`, regenerated — per sample: read type and
length; a non-standard enterprise is skipped first (`sampleStep`: `ent ≠ 0`); then the filter: a match seeks forward by
the DECLARED length and goes to the next sample (`sampleStep`: `fmt ∈ f → r.drop len`); only then the dispatch on the
type, whose default also skips by the declared length.  The order of the three tests and the skip distance are the
model's; a filter test after the dispatch, or a skip by anything but `sfDataLength`, changes this list. -/
theorem gen_filter_loop :
    Gen.SflowFilter.sampleLoop =
      ["for i := uint32(0); i < datagram.SamplesNo; i++",
       "sfTypeFormat, sfDataLength, err := d.getSampleInfo()",
       "if err == errNoneEnterpriseStandard { continue }",
       "if err != nil { return nil, err }",
       "if m := d.isFilterMatch(sfTypeFormat); m { d.reader.Seek(int64(sfDataLength), 1) continue }",
       "switch sfTypeFormat",
       "default: d.reader.Seek(int64(sfDataLength), 1)"] := by decide +kernel

/-- **Tie (the configured list reaches every decoder unchanged)**: the `filter` field is written in one place — the
composite literal of `NewSFDecoder`, from its parameter — and read in one place, `isFilterMatch`; package `vflow`
constructs decoders in one place, `sFlowWorker`, with `opts.SFlowTypeFilter` (the anchor "filter passed to every
decoder instance") -/
theorem gen_filter_handover :
    Gen.SflowFilter.newDecoder =
      ["func(r io.ReadSeeker, f []uint32) SFDecoder", "return SFDecoder{ reader: r, filter: f, }"] ∧
    Gen.SflowFilter.filterUses =
      ["sflow/decoder.go NewSFDecoder: filter: f", "sflow/decoder.go isFilterMatch: d.filter"] ∧
    Gen.SflowFilter.decoderCalls =
      ["vflow/sflow.go sFlowWorker: sflow.NewSFDecoder(reader, opts.SFlowTypeFilter)"] := by decide +kernel

/-- **Tie (how the filter list is configured)**: the property quantifies over filter LISTS; how the option builds its
list is package `vflow`'s `arrUInt32Flags.Set`, regenerated here: every occurrence of `-sflow-type-filter` (and the
configuration file's entry before them) APPENDS its comma-separated types, so a type listed anywhere is in the list the
decoder gets.  (A `Set` that replaced the list would silently un-list the types given earlier; the configuration of a
list key is outside C17, which covers integer / string / boolean settings.) -/
theorem gen_filter_flag_appends :
    Gen.OptionsTbl.filterFlagSet =
      ["arr := strings.Split(value, \",\")",
       "for _, v := range arr { v64, err := strconv.ParseUint(v, 10, 32) if err != nil { return err } *a = append(*a, uint32(v64)) }",
       "return nil"] := by decide +kernel

end Vflow.C18
