import Vflow.Proofs.SflowSafe
/-!
# C01 (sFlow + packet share) — no datagram and no sampled header can make the decoder panic

In the model every Go operation that can panic is an explicit check yielding `Res.panic`:
`at?` (index), `slice?` / `from?` (slice expressions) in `Vflow.Model.Packet`, `sh.Header[:HeaderLength]`
and `buff[4:]` in `Vflow.Model.Sflow`; the `make` with a wire-derived size is bounded by the length
validation (`decodeExtRouter`) and the 1500-octet cap (`decodeSampledHeader`).  The theorems are about
the code after the `fix:` commits F5 and F7 (before them the model *did* return `panic` on the corpus
witnesses `corpus/C01/sflow-F5-extrouter-len.txt`, `corpus/C01/sflow-F7-vlan-short.txt`) and F19
(a dissector error and an extended-router record of another length are skipped, not fatal: the decoder
goes on over more octet strings than before, and is panic-free on all of them).
-/
namespace Vflow.C01Sflow
open Vflow Vflow.Sflow Vflow.Packet

/-- **C01 (dissector)**: for every sampled header and every header protocol the dissector returns a
packet or an error — never a panic -/
theorem dissect_ne_panic (hdr : Bytes) (proto : Nat) : dissect hdr proto ≠ .panic :=
  (dissect_safe hdr proto).1

/-- **C01 (sFlow)**: for every filter list and every octet string the decoder returns a datagram or
an error — never a panic -/
theorem decode_ne_panic (f : List Nat) (bs : Bytes) : decode f bs ≠ .panic := by
  unfold decode
  obtain ⟨hs, hk⟩ := decodeHeader_good bs
  cases hx : decodeHeader bs with
  | ok p =>
    obtain ⟨h, r⟩ := p
    have hr := hk _ _ hx
    simp only
    have := loopN_ne_panic (fun b => (sampleStep_good f b).1.1) (bs.length + 1) h.samplesNo r
    cases hl : loopN (sampleStep f) (bs.length + 1) h.samplesNo r <;> simp_all
  | err e => simp
  | panic => exact absurd hx hs.1
  | fuel => simp

/-- every step function of the decoder is panic-free on its own, too -/
theorem steps_ne_panic (f : List Nat) (bs : Bytes) :
    sampleStep f bs ≠ .panic ∧ flowRecord bs ≠ .panic ∧ counterRecord bs ≠ .panic ∧
    decodeSampledHeader bs ≠ .panic ∧ (∀ l, decodeExtRouter l bs ≠ .panic) :=
  ⟨(sampleStep_good f bs).1.1, (flowRecord_good bs).1.1, (counterRecord_good bs).1.1,
   (decodeSampledHeader_good bs).1.1, fun l => (decodeExtRouter_good l bs).1.1⟩

/-- non-vacuity (F7 witness): an 802.1Q ethertype in a 14-octet sampled header is an error, not a panic -/
example : dissect [2,0,0,0,0,1, 2,0,0,0,0,2, 0x81,0] 1 = .err .ethShort := by decide

/-- non-vacuity (the slice `p.data[hlen:]` of the F17 repair): an IPv4 header that announces 60 octets
(IHL 15) in a 24-octet sampled header is an error, not a slice past the end; an IHL below 5 (here 0) is
read as 20 octets, as before the repair -/
example : dissect [0x4f,0,0,24, 0,1,0,0, 64,17,0,0, 192,0,2,1, 192,0,2,2, 0,53,0,54] 11 = .err .ip4Short ∧
    dissect [0x40,0,0,28, 0,1,0,0, 64,17,0,0, 192,0,2,1, 192,0,2,2, 0,53,0,54,0,8,0,0] 11 =
      .ok ⟨{}, .v4 ⟨4, 0, 28, 1, 0, 0, 64, 17, 0, [192,0,2,1], [192,0,2,2]⟩, .udp 53 54⟩ := by decide

/-- non-vacuity (F5 witness): an extended-router record of declared length 8 is an error of
`ExtRouterData.unmarshal`, not a panic; since the F19d repair the record loop does not even call it but
skips the record by its declared length — 8 octets, or 4 294 967 295 (the position runs past the end:
what is left is empty, the next read is an EOF error) -/
example : decodeExtRouter 8 [0,0,0,1, 192,0,2,9, 0,0,0,24, 0,0,0,16] = .err .rtrLen ∧
    flowRecord [0,0,3,234, 0,0,0,8, 0,0,0,1, 192,0,2,9, 0,0,0,24, 0,0,0,16] = .ok (none, [0,0,0,24, 0,0,0,16]) ∧
    flowRecord [0,0,3,234, 255,255,255,255, 0,0,0,1, 192,0,2,9, 0,0,0,24, 0,0,0,16] = .ok (none, []) := by decide

/-- non-vacuity (F19a, F33): a raw-header record whose sampled header is the F7 witness (802.1Q ethertype in 14
octets) is consumed — 8 + 16 + 14 + 2 octets — and yields the record's four words without a packet; what follows
is left -/
example : flowRecord ([0,0,0,1, 0,0,0,32, 0,0,0,1, 0,0,0,64, 0,0,0,4, 0,0,0,14,
    2,0,0,0,0,1, 2,0,0,0,0,2, 0x81,0, 0,0] ++ [9, 9]) = .ok (some (.raw ⟨1, 64, 4, 14, none⟩), [9, 9]) := by decide

/-- non-vacuity: a well-formed extended-router record decodes -/
example : decodeExtRouter 16 [0,0,0,1, 192,0,2,9, 0,0,0,24, 0,0,0,16] = .ok (⟨[192,0,2,9], 24, 16⟩, []) := by decide

end Vflow.C01Sflow
