import Vflow.Proofs.Locks
import Vflow.Proofs.LocksRun
import Vflow.Proofs.LocksDeadlock
import Vflow.Proofs.LocksExec
import Vflow.Proofs.LockIR
import Vflow.Gen.LockRegions
/-!
# C10 — concurrent decoding, dumping and peer lookups keep the template cache sound

Model: `Vflow.Locks` (`Model/Locks.lean`): any number of threads, each a straight-line program of
mutex calls and shard-map accesses, the shard maps, and **every** schedule (`Run init hist cur`:
`hist` is the list of steps taken, each with the state it was taken in).

The programs are the ones `factgen` extracts from the current Go source (`Vflow.Gen.LockRegions`,
regenerated on every run): the obligations `gen_*` below re-check, by `decide`, that every
extracted function is well bracketed for all `shardNo` shards (a dropped lock, an access outside
its lock, an unlocked iteration, a lock leaked past the end, a new function touching the cache: each
is a failed named obligation). The general theorems are about *every* well-bracketed program and
do not depend on the generated values.
-/
namespace Vflow.C10
open Vflow Vflow.Locks

/-! ## Generated-fact obligations (re-checked against the current source by `lake build`) -/

/-- the functions of the three anchored files that touch the cache are exactly the ones below -/
theorem gen_functions_known : Gen.lockRegionNames =
    ["ipfixInsert", "ipfixRetrieve", "ipfixAllSetIds", "ipfixDump",
     "nf9Insert", "nf9Retrieve", "nf9Dump", "ipfixIRPCGet", "ipfixRPC"] := by decide

/-- `valid()` (added by the F9 repair) runs inside `GetCache`, before the cache is returned to — and so
before it can be shared with — any other goroutine; it only compares shard pointers and map headers
with nil.  Its exact statements are pinned here; it is not a concurrent cache operation. -/
theorem gen_load_time_checks : Gen.loadTimeChecks =
    [("ipfixValid", ["if len(m) != shardNo { return false }",
                     "for _, shard := range m { if shard == nil || shard.Templates == nil { return false } }",
                     "return true"]),
     ("nf9Valid", ["if len(m) != shardNo { return false }",
                   "for _, shard := range m { if shard == nil || shard.Templates == nil { return false } }",
                   "return true"])] := by decide +kernel

theorem gen_shardNo : Gen.ipfixShardNo = 32 ∧ Gen.nf9ShardNo = 32 := by decide

/-- `ipfix.MemCache.insert`: write under the shard's write lock, released on return -/
theorem gen_ipfixInsert_wb : wbRegion Gen.ipfixShardNo Gen.ipfixInsert = true := by decide
/-- `ipfix.MemCache.retrieve`: read under the shard's read lock, released on return -/
theorem gen_ipfixRetrieve_wb : wbRegion Gen.ipfixShardNo Gen.ipfixRetrieve = true := by decide
set_option maxRecDepth 100000 in
/-- `ipfix.MemCache.Dump`: every shard map is iterated (json.Marshal) under that shard's lock, locks
    taken in shard order, all released (F10: on the unrepaired code this is `false`) -/
theorem gen_ipfixDump_wb : wbRegion Gen.ipfixShardNo Gen.ipfixDump = true := by decide
theorem gen_nf9Insert_wb : wbRegion Gen.nf9ShardNo Gen.nf9Insert = true := by decide
theorem gen_nf9Retrieve_wb : wbRegion Gen.nf9ShardNo Gen.nf9Retrieve = true := by decide
set_option maxRecDepth 100000 in
theorem gen_nf9Dump_wb : wbRegion Gen.nf9ShardNo Gen.nf9Dump = true := by decide
set_option maxRecDepth 100000 in
/-- `Dump` is exactly: read-lock every shard in shard order, iterate every shard, release every shard -/
theorem gen_ipfixDump_shape : isDumpRegion Gen.ipfixShardNo Gen.ipfixDump = true := by decide
set_option maxRecDepth 100000 in
theorem gen_nf9Dump_shape : isDumpRegion Gen.nf9ShardNo Gen.nf9Dump = true := by decide
/-- `retrieve` takes its lock first and afterwards only reads and releases (two-phase, read-only) -/
theorem gen_ipfixRetrieve_twoPhase : twoPhaseRegion Gen.ipfixShardNo Gen.ipfixRetrieve = true := by decide
theorem gen_nf9Retrieve_twoPhase : twoPhaseRegion Gen.nf9ShardNo Gen.nf9Retrieve = true := by decide
/-- `IRPC.Get` (peer lookup) reaches the cache only through `retrieve` -/
theorem gen_ipfixIRPCGet : Gen.ipfixIRPCGet = [.once [.call "retrieve"]] := by decide
/-- `RPC` (answer from a peer) reaches the cache only through `insert` -/
theorem gen_ipfixRPC : Gen.ipfixRPC = [.once [.call "insert"]] := by decide

set_option maxRecDepth 100000 in
/-- `allSetIds` (debug helper, not called by the collector): today it reads `len(shard.Templates)`
    of every shard with no lock before iterating each shard under its read lock — reported, not part
    of the property's operations; the obligation accepts that exact shape or a well-bracketed one -/
theorem gen_ipfixAllSetIds_reported :
    (Gen.ipfixAllSetIds = [.each [.len], .each [.rlock, .iter, .runlock]] ∨
      wbRegion Gen.ipfixShardNo Gen.ipfixAllSetIds = true) ∧
    wbRegion Gen.ipfixShardNo [.each [.rlock, .iter, .runlock]] = true := by decide

/-! ## The library: one call of `insert`, `retrieve` (= `IRPC.Get`) or `Dump` -/

/-- a thread that runs one call of a function of library `lib` on some shard / key / value -/
def FromLibrary (n : Nat) (lib : List Region) (t : Thread) : Prop :=
  t.held = ⟨[], []⟩ ∧ t.obs = [] ∧
    ∃ r ∈ lib, ∃ (s k : Nat) (v : Val), s < n ∧ progOf n s k v r = some t.prog

def ipfixLibrary : List Region := [Gen.ipfixInsert, Gen.ipfixRetrieve, Gen.ipfixDump]
def nf9Library : List Region := [Gen.nf9Insert, Gen.nf9Retrieve, Gen.nf9Dump]

/-- a system all of whose threads run library calls starts in `Init` -/
theorem library_init {n : Nat} {lib : List Region} (hl : ∀ r ∈ lib, wbRegion n r = true) {σ : Sys}
    (h : ∀ t ∈ σ.threads, FromLibrary n lib t) : Init σ := by
  intro t ht
  obtain ⟨h1, h2, r, hr, s, k, v, hs, hp⟩ := h t ht
  obtain ⟨p, hp', hw⟩ := wbRegion_sound (hl r hr) (s := s) (k := k) (v := v) hs
  rw [hp] at hp'
  injection hp' with hp'
  exact ⟨h1, h2, hp' ▸ hw⟩

theorem ipfixLibrary_wb : ∀ r ∈ ipfixLibrary, wbRegion Gen.ipfixShardNo r = true := by
  intro r hr
  simp [ipfixLibrary] at hr
  rcases hr with rfl | rfl | rfl
  · exact gen_ipfixInsert_wb
  · exact gen_ipfixRetrieve_wb
  · exact gen_ipfixDump_wb

theorem nf9Library_wb : ∀ r ∈ nf9Library, wbRegion Gen.nf9ShardNo r = true := by
  intro r hr
  simp [nf9Library] at hr
  rcases hr with rfl | rfl | rfl
  · exact gen_nf9Insert_wb
  · exact gen_nf9Retrieve_wb
  · exact gen_nf9Dump_wb

/-! ## (1) no data race -/

/-- **C10 (1), no data race**: for any number of threads running any well-bracketed programs, in
every state reachable by any schedule no two threads are about to access the same shard map with
at least one of them writing -/
theorem no_data_race {init cur : Sys} {hist : List Ev} (h0 : Init init) (hr : Run init hist cur) :
    ¬ Race cur :=
  inv_no_race (run_linv h0 hr)

/-- the same for the code as extracted today: any number of concurrent `insert` / `retrieve` /
`IRPC.Get` / `Dump` calls on the IPFIX cache, any keys, any schedule -/
theorem ipfix_no_data_race {init cur : Sys} {hist : List Ev}
    (h : ∀ t ∈ init.threads, FromLibrary Gen.ipfixShardNo ipfixLibrary t) (hr : Run init hist cur) :
    ¬ Race cur :=
  no_data_race (library_init ipfixLibrary_wb h) hr

theorem nf9_no_data_race {init cur : Sys} {hist : List Ev}
    (h : ∀ t ∈ init.threads, FromLibrary Gen.nf9ShardNo nf9Library t) (hr : Run init hist cur) :
    ¬ Race cur :=
  no_data_race (library_init nf9Library_wb h) hr

/-- non-vacuity: a concrete system of an inserter, a lookup and a dump is in `Init` -/
example : Init ⟨[⟨⟨[], []⟩, [.lock 1, .wr 1 7 3, .unlock 1], []⟩,
                 ⟨⟨[], []⟩, [.rlock 1, .rd 1 7, .runlock 1], []⟩,
                 ⟨⟨[], []⟩, [.rlock 0, .rlock 1, .iter 0, .iter 1, .runlock 1, .runlock 0], []⟩],
                fun _ _ => none⟩ := by
  intro t ht
  simp at ht
  rcases ht with rfl | rfl | rfl <;> exact ⟨rfl, rfl, by decide⟩

/-- what F10 was: `Dump` iterating every shard map with no lock is not well bracketed, and next to
an inserter it is a data race in the very first state -/
example : wbRegion 32 [.once [.marshalAll]] = false := by decide
example : Race ⟨[⟨⟨[], []⟩, [.iter 0, .iter 1], []⟩, ⟨⟨[0], []⟩, [.wr 0 7 3, .unlock 0], []⟩],
                fun _ _ => none⟩ :=
  ⟨1, 0, _, _, .wr 0 7 3, .iter 0, by decide, rfl, rfl, rfl, rfl, rfl⟩

/-! ## (2) atomic visibility -/

/-- **C10 (2), atomic visibility**: take any run and any lookup step in it (`rd s k` by thread `i`,
taken in state `σ`, `pre` = the steps before it). Then
* the lookup returns, and the thread records, `σ.mem s k` — nothing, or one whole value;
* that is the value of the latest write to exactly that key in the step order (`lastWrite`);
* at that instant no other thread is inside a write critical section of the shard, i.e.
* every insert by another thread that had written into the shard before had also completed
  (released the shard's lock): the value is that of the latest *completed* insert on that key. -/
theorem lookup_atomic {init cur : Sys} {hist : List Ev} (h0 : Init init) (hr : Run init hist cur)
    {post pre : List Ev} {σ : Sys} {i s k : Nat} (hs : hist = post ++ ⟨σ, i, .rd s k⟩ :: pre) :
    (∃ σ' t t', Step σ i (.rd s k) σ' ∧ σ.threads[i]? = some t ∧ σ'.threads[i]? = some t' ∧
        t'.obs = .got s k (σ.mem s k) :: t.obs) ∧
    σ.mem s k = lastWrite init.mem pre s k ∧
    (∀ j tj, j ≠ i → σ.threads[j]? = some tj → s ∉ tj.held.w) ∧
    (∀ p2 p1 σ2 j k' v, j ≠ i → pre = p2 ++ ⟨σ2, j, .wr s k' v⟩ :: p1 →
        ∃ e ∈ p2, e.tid = j ∧ e.act = .unlock s) := by
  obtain ⟨hpre, σ', st⟩ := run_split hr post pre _ hs
  have hinv := run_linv h0 hpre
  obtain ⟨t, p, hi, hp, hi'⟩ := step_self st
  have hexcl : ∀ j tj, j ≠ i → σ.threads[j]? = some tj → s ∉ tj.held.w := by
    intro j tj hji hj hc
    have w := hinv.wbAll t (List.mem_of_getElem? hi)
    simp only at hp
    rw [hp] at w
    have := hinv.excl j i tj t s hj hi hji hc
    rcases wb_rd w with h | h
    · exact this.1 h
    · exact this.2 h
  refine ⟨⟨σ', t, _, st, hi, hi', rfl⟩, run_mem hpre s k, hexcl, ?_⟩
  intro p2 p1 σ2 j k' v hji hsplit
  apply Classical.byContradiction
  intro hno
  obtain ⟨tj, htj, hw⟩ := wrote_holds (linv_init h0) hpre p2 p1 σ2 j s k' v hsplit
    (fun e he hc => hno ⟨e, he, hc⟩)
  exact hexcl j tj hji htj hw

/-- **C10 (2), not superseded**: if a write of `v2` to the key precedes the lookup's read (in
particular: an insert that completed before the lookup began), the lookup returns `v2` or the value of
a write that came after it — never an older one, never nothing -/
theorem lookup_not_superseded {init cur : Sys} {hist : List Ev} (h0 : Init init) (hr : Run init hist cur)
    {post mid old : List Ev} {σ σ2 : Sys} {i j s k : Nat} {v2 : Val}
    (hs : hist = post ++ ⟨σ, i, .rd s k⟩ :: (mid ++ ⟨σ2, j, .wr s k v2⟩ :: old)) :
    σ.mem s k = some v2 ∨ ∃ e ∈ mid, ∃ v, e.act = .wr s k v ∧ σ.mem s k = some v := by
  have h := (lookup_atomic h0 hr hs).2.1
  rw [h]
  exact lastWrite_mid init.mem s k v2 σ2 j old mid

/-! ## (3) dump consistency -/

/-- **C10 (3), snapshot at the lock point** (general form): a thread that first takes all its locks
(`acq`) and then only reads, iterates and releases (`rest`) has, at every point of every run, either
recorded nothing yet, or there is **one** visited state `σ` such that everything it has recorded is
exactly what executing the finished part `done` of `rest` against `σ`'s shard maps gives, and the
shards it still holds have not changed since `σ` -/
theorem snapshot_at_lock_point {init cur : Sys} {hist : List Ev} (h0 : Init init) (hr : Run init hist cur)
    {i : Nat} {t0 : Thread} {acq rest : List Act} (hi0 : init.threads[i]? = some t0)
    (hprog : t0.prog = acq ++ rest) (hacq : ∀ a ∈ acq, isAcq a = true) (hrest : ∀ a ∈ rest, quiet a = true) :
    ∃ t, cur.threads[i]? = some t ∧
      ((t.obs = [] ∧ ∃ acq', acq' ≠ [] ∧ t.prog = acq' ++ rest) ∨
       (∃ σ done, Visited σ hist cur ∧ rest = done ++ t.prog ∧
          (∀ s, (s ∈ t.held.w ∨ s ∈ t.held.r) → cur.mem s = σ.mem s) ∧
          t.obs = (done.filterMap (obsOf σ.mem)).reverse)) :=
  two_phase h0 hr hi0 hprog hacq hrest

/-- **C10 (3), dump consistency**: a thread running the repaired `Dump` (`dumpProg n`: read-lock
every shard, iterate every shard, release) in any system, under any schedule: once it has finished,
what it has read is, shard by shard, the content of the whole cache at **one** instant `σ` of the
run (so by C11 the file loads back as exactly those templates) -/
theorem dump_consistent {init cur : Sys} {hist : List Ev} (h0 : Init init) (hr : Run init hist cur)
    {n i : Nat} {t0 t : Thread} (hi0 : init.threads[i]? = some t0) (hprog : t0.prog = dumpProg n)
    (hi : cur.threads[i]? = some t) (hfin : t.prog = []) :
    ∃ σ, Visited σ hist cur ∧ t.obs = ((List.range n).map fun s => Obs.snap s (σ.mem s)).reverse := by
  have hacq : ∀ a ∈ (List.range n).map Act.rlock, isAcq a = true := by
    intro a ha; simp at ha; obtain ⟨s, _, rfl⟩ := ha; rfl
  have hrest : ∀ a ∈ (List.range n).map Act.iter ++ (List.range n).map Act.runlock, quiet a = true := by
    intro a ha; simp at ha
    rcases ha with ⟨s, _, rfl⟩ | ⟨s, _, rfl⟩ <;> rfl
  obtain ⟨t', ht', h⟩ := two_phase h0 hr hi0 (by rw [hprog]; rfl) hacq hrest
  rw [hi] at ht'
  injection ht' with ht'
  subst ht'
  rcases h with ⟨_, acq', hne, hp⟩ | ⟨σ, done, hv, hd, _, hobs⟩
  · rw [hfin] at hp
    cases acq' with
    | nil => exact absurd rfl hne
    | cons b bs => simp at hp
  · refine ⟨σ, hv, ?_⟩
    rw [hfin, List.append_nil] at hd
    rw [hobs, ← hd]
    congr 1
    simp [List.filterMap_append, List.filterMap_map, Function.comp_def, obsOf]

/-- the same for the `Dump` extracted from the current source, called on any cache of
`Gen.ipfixShardNo` shards -/
theorem ipfix_dump_consistent {init cur : Sys} {hist : List Ev} (h0 : Init init) (hr : Run init hist cur)
    {i s k : Nat} {v : Val} {t0 t : Thread} (hs : s < Gen.ipfixShardNo) (hi0 : init.threads[i]? = some t0)
    (hprog : progOf Gen.ipfixShardNo s k v Gen.ipfixDump = some t0.prog)
    (hi : cur.threads[i]? = some t) (hfin : t.prog = []) :
    ∃ σ, Visited σ hist cur ∧
      t.obs = ((List.range Gen.ipfixShardNo).map fun s => Obs.snap s (σ.mem s)).reverse := by
  have := isDumpRegion_sound gen_ipfixDump_shape (s := s) (k := k) (v := v) hs
  rw [hprog] at this
  injection this with this
  exact dump_consistent h0 hr hi0 this hi hfin

theorem nf9_dump_consistent {init cur : Sys} {hist : List Ev} (h0 : Init init) (hr : Run init hist cur)
    {i s k : Nat} {v : Val} {t0 t : Thread} (hs : s < Gen.nf9ShardNo) (hi0 : init.threads[i]? = some t0)
    (hprog : progOf Gen.nf9ShardNo s k v Gen.nf9Dump = some t0.prog)
    (hi : cur.threads[i]? = some t) (hfin : t.prog = []) :
    ∃ σ, Visited σ hist cur ∧
      t.obs = ((List.range Gen.nf9ShardNo).map fun s => Obs.snap s (σ.mem s)).reverse := by
  have := isDumpRegion_sound gen_nf9Dump_shape (s := s) (k := k) (v := v) hs
  rw [hprog] at this
  injection this with this
  exact dump_consistent h0 hr hi0 this hi hfin

/-! ## (4) deadlock freedom -/

/-- **C10 (4), deadlock freedom**: in every state reachable by any schedule from well-bracketed
threads (locks taken one at a time or in increasing shard order), if some thread has not finished
then some thread can move — even under Go's writer preference (`StepStrict`: an `RLock` also waits
for waiting writers) -/
theorem no_deadlock {init cur : Sys} {hist : List Ev} (h0 : Init init) (hr : Run init hist cur)
    (hne : ∃ t ∈ cur.threads, t.prog ≠ []) :
    ∃ i a nxt, StepStrict cur i a nxt ∧ Step cur i a nxt := by
  obtain ⟨i, a, nxt, h⟩ := deadlock_free (run_linv h0 hr) hne
  exact ⟨i, a, nxt, h, stepStrict_step h⟩

/-- every schedule terminates: steps taken + actions left = total program length -/
theorem all_schedules_terminate {init cur : Sys} {hist : List Ev} (hr : Run init hist cur) :
    hist.length + remaining cur = remaining init :=
  run_length hr

/-! ## The model driver runs the relation -/

/-- what `vfmodel` (`Driver/Locks.lean`) executes for the `cachestress` correspondence is a run of
the step relation above, and a `race` it prints is a `Race` state reachable in the model -/
theorem driver_schedule_sound (pick : Nat → Nat) (fuel : Nat) (init : Sys) :
    ∃ hist, Run init hist (schedule pick fuel 0 init).2 ∧
      ((schedule pick fuel 0 init).1 = .race → Race (schedule pick fuel 0 init).2) :=
  schedule_sound pick fuel 0 init init [] Run.start

theorem driver_scheduleFreeze_sound (i fuel : Nat) (init : Sys) :
    ∃ hist, Run init hist (scheduleFreeze i fuel init).2 ∧
      ((scheduleFreeze i fuel init).1 = .race → Race (scheduleFreeze i fuel init).2) :=
  scheduleFreeze_sound i fuel init init [] Run.start

/-! ## Non-vacuity: a concrete run with a completed insert followed by a lookup -/

private def m0 : Mem := fun _ _ => none
private def s0 : Sys := ⟨[⟨⟨[], []⟩, [.lock 1, .wr 1 7 3, .unlock 1], []⟩,
                          ⟨⟨[], []⟩, [.rlock 1, .rd 1 7, .runlock 1], []⟩], m0⟩
private def s1 : Sys := after s0 0 ⟨⟨[], []⟩, [.lock 1, .wr 1 7 3, .unlock 1], []⟩ (.lock 1) [.wr 1 7 3, .unlock 1]
private def s2 : Sys := after s1 0 ⟨⟨[1], []⟩, [.wr 1 7 3, .unlock 1], []⟩ (.wr 1 7 3) [.unlock 1]
private def s3 : Sys := after s2 0 ⟨⟨[1], []⟩, [.unlock 1], []⟩ (.unlock 1) []
private def s4 : Sys := after s3 1 ⟨⟨[], []⟩, [.rlock 1, .rd 1 7, .runlock 1], []⟩ (.rlock 1) [.rd 1 7, .runlock 1]
private def s5 : Sys := after s4 1 ⟨⟨[], [1]⟩, [.rd 1 7, .runlock 1], []⟩ (.rd 1 7) [.runlock 1]

theorem nonvacuity_s0_init : Init s0 := by
  intro t ht
  simp [s0] at ht
  rcases ht with rfl | rfl <;> exact ⟨rfl, rfl, by decide⟩

/-- the hypotheses of `lookup_atomic` and `lookup_not_superseded` are satisfiable: insert completes,
then the lookup reads — and, as the theorems say, it sees the inserted value -/
example : ∃ hist cur post pre σ, Run s0 hist cur ∧ hist = post ++ ⟨σ, 1, .rd 1 7⟩ :: pre ∧
    σ.mem 1 7 = some 3 := by
  have e0 : Step s0 0 (.lock 1) s1 := ⟨_, _, rfl, rfl, ⟨by
      rintro ⟨t, ht, hs⟩; simp [s0] at ht; rcases ht with rfl | rfl <;> simp at hs, by
      rintro ⟨t, ht, hs⟩; simp [s0] at ht; rcases ht with rfl | rfl <;> simp at hs⟩, rfl⟩
  have e1 : Step s1 0 (.wr 1 7 3) s2 := ⟨_, _, rfl, rfl, trivial, rfl⟩
  have e2 : Step s2 0 (.unlock 1) s3 := ⟨_, _, rfl, rfl, trivial, rfl⟩
  have e3 : Step s3 1 (.rlock 1) s4 := ⟨_, _, rfl, rfl, by
      rintro ⟨t, ht, hs⟩
      simp [s3, s2, s1, s0, after, heldAfter] at ht
      rcases ht with rfl | rfl <;> simp at hs, rfl⟩
  have e4 : Step s4 1 (.rd 1 7) s5 := ⟨_, _, rfl, rfl, trivial, rfl⟩
  refine ⟨_, s5, [], _, s4, Run.step (Run.step (Run.step (Run.step (Run.step Run.start e0) e1) e2) e3) e4, rfl, ?_⟩
  simp [s4, s3, s2, s1, after, memAfter]

end Vflow.C10
