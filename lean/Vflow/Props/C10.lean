import Vflow.Proofs.Locks
import Vflow.Proofs.LockIR
import Vflow.Gen.LockRegions
/-!
# C10 — concurrent decoding, dumping and peer lookups keep the template cache sound

Model: `Vflow.Locks` (`Model/Locks.lean`): any number of threads, each a straight-line program of
mutex calls and shard-map accesses, the shard maps, and **every** schedule (`Run init hist cur`:
`hist` is the list of steps taken, each with the state it was taken in).

The programs are the ones `factgen` extracts from the current Go source (`Vflow.Gen.LockRegions`,
regenerated on every run): the obligations `gen_*` below re-check, by `decide`, that every
extracted function is well bracketed for all `shardNo` shards (a dropped lock, an access outside
its lock, an unlocked iteration, a lock leaked past the end, a new function touching the cache: each
is a failed named obligation). The general theorems are about *every* well-bracketed program and
do not depend on the generated values.
-/
namespace Vflow.C10
open Vflow Vflow.Locks

/-! ## Generated-fact obligations (re-checked against the current source by `lake build`) -/

/-- the functions of the three anchored files that touch the cache are exactly the ones below -/
theorem gen_functions_known : Gen.lockRegionNames =
    ["ipfixInsert", "ipfixRetrieve", "ipfixAllSetIds", "ipfixDump",
     "nf9Insert", "nf9Retrieve", "nf9Dump", "ipfixIRPCGet", "ipfixRPC"] := by decide

theorem gen_shardNo : Gen.ipfixShardNo = 32 ∧ Gen.nf9ShardNo = 32 := by decide

/-- `ipfix.MemCache.insert`: write under the shard's write lock, released on return -/
theorem gen_ipfixInsert_wb : wbRegion Gen.ipfixShardNo Gen.ipfixInsert = true := by decide
/-- `ipfix.MemCache.retrieve`: read under the shard's read lock, released on return -/
theorem gen_ipfixRetrieve_wb : wbRegion Gen.ipfixShardNo Gen.ipfixRetrieve = true := by decide
set_option maxRecDepth 100000 in
/-- `ipfix.MemCache.Dump`: every shard map is iterated (json.Marshal) under that shard's lock, locks
    taken in shard order, all released (F10: on the unrepaired code this is `false`) -/
theorem gen_ipfixDump_wb : wbRegion Gen.ipfixShardNo Gen.ipfixDump = true := by decide
theorem gen_nf9Insert_wb : wbRegion Gen.nf9ShardNo Gen.nf9Insert = true := by decide
theorem gen_nf9Retrieve_wb : wbRegion Gen.nf9ShardNo Gen.nf9Retrieve = true := by decide
set_option maxRecDepth 100000 in
theorem gen_nf9Dump_wb : wbRegion Gen.nf9ShardNo Gen.nf9Dump = true := by decide
/-- `IRPC.Get` (peer lookup) reaches the cache only through `retrieve` -/
theorem gen_ipfixIRPCGet : Gen.ipfixIRPCGet = [.once [.call "retrieve"]] := by decide
/-- `RPC` (answer from a peer) reaches the cache only through `insert` -/
theorem gen_ipfixRPC : Gen.ipfixRPC = [.once [.call "insert"]] := by decide

set_option maxRecDepth 100000 in
/-- `allSetIds` (debug helper, not called by the collector): today it reads `len(shard.Templates)`
    of every shard with no lock before iterating each shard under its read lock — reported, not part
    of the property's operations; the obligation accepts that exact shape or a well-bracketed one -/
theorem gen_ipfixAllSetIds_reported :
    (Gen.ipfixAllSetIds = [.each [.len], .each [.rlock, .iter, .runlock]] ∨
      wbRegion Gen.ipfixShardNo Gen.ipfixAllSetIds = true) ∧
    wbRegion Gen.ipfixShardNo [.each [.rlock, .iter, .runlock]] = true := by decide

/-! ## The library: one call of `insert`, `retrieve` (= `IRPC.Get`) or `Dump` -/

/-- a thread that runs one call of a function of library `lib` on some shard / key / value -/
def FromLibrary (n : Nat) (lib : List Region) (t : Thread) : Prop :=
  t.held = ⟨[], []⟩ ∧ t.obs = [] ∧
    ∃ r ∈ lib, ∃ (s k : Nat) (v : Val), s < n ∧ progOf n s k v r = some t.prog

def ipfixLibrary : List Region := [Gen.ipfixInsert, Gen.ipfixRetrieve, Gen.ipfixDump]
def nf9Library : List Region := [Gen.nf9Insert, Gen.nf9Retrieve, Gen.nf9Dump]

/-- a system all of whose threads run library calls starts in `Init` -/
theorem library_init {n : Nat} {lib : List Region} (hl : ∀ r ∈ lib, wbRegion n r = true) {σ : Sys}
    (h : ∀ t ∈ σ.threads, FromLibrary n lib t) : Init σ := by
  intro t ht
  obtain ⟨h1, h2, r, hr, s, k, v, hs, hp⟩ := h t ht
  obtain ⟨p, hp', hw⟩ := wbRegion_sound (hl r hr) (s := s) (k := k) (v := v) hs
  rw [hp] at hp'
  injection hp' with hp'
  exact ⟨h1, h2, hp' ▸ hw⟩

theorem ipfixLibrary_wb : ∀ r ∈ ipfixLibrary, wbRegion Gen.ipfixShardNo r = true := by
  intro r hr
  simp [ipfixLibrary] at hr
  rcases hr with rfl | rfl | rfl
  · exact gen_ipfixInsert_wb
  · exact gen_ipfixRetrieve_wb
  · exact gen_ipfixDump_wb

theorem nf9Library_wb : ∀ r ∈ nf9Library, wbRegion Gen.nf9ShardNo r = true := by
  intro r hr
  simp [nf9Library] at hr
  rcases hr with rfl | rfl | rfl
  · exact gen_nf9Insert_wb
  · exact gen_nf9Retrieve_wb
  · exact gen_nf9Dump_wb

/-! ## (1) no data race -/

/-- **C10 (1), no data race**: for any number of threads running any well-bracketed programs, in
every state reachable by any schedule no two threads are about to access the same shard map with
at least one of them writing -/
theorem no_data_race {init cur : Sys} {hist : List Ev} (h0 : Init init) (hr : Run init hist cur) :
    ¬ Race cur :=
  inv_no_race (run_linv h0 hr)

/-- the same for the code as extracted today: any number of concurrent `insert` / `retrieve` /
`IRPC.Get` / `Dump` calls on the IPFIX cache, any keys, any schedule -/
theorem ipfix_no_data_race {init cur : Sys} {hist : List Ev}
    (h : ∀ t ∈ init.threads, FromLibrary Gen.ipfixShardNo ipfixLibrary t) (hr : Run init hist cur) :
    ¬ Race cur :=
  no_data_race (library_init ipfixLibrary_wb h) hr

theorem nf9_no_data_race {init cur : Sys} {hist : List Ev}
    (h : ∀ t ∈ init.threads, FromLibrary Gen.nf9ShardNo nf9Library t) (hr : Run init hist cur) :
    ¬ Race cur :=
  no_data_race (library_init nf9Library_wb h) hr

/-- non-vacuity: a concrete system of an inserter, a lookup and a dump is in `Init` -/
example : Init ⟨[⟨⟨[], []⟩, [.lock 1, .wr 1 7 3, .unlock 1], []⟩,
                 ⟨⟨[], []⟩, [.rlock 1, .rd 1 7, .runlock 1], []⟩,
                 ⟨⟨[], []⟩, [.rlock 0, .rlock 1, .iter 0, .iter 1, .runlock 1, .runlock 0], []⟩],
                fun _ _ => none⟩ := by
  intro t ht
  simp at ht
  rcases ht with rfl | rfl | rfl <;> exact ⟨rfl, rfl, by decide⟩

/-- what F10 was: `Dump` iterating every shard map with no lock is not well bracketed, and next to
an inserter it is a data race in the very first state -/
example : wbRegion 32 [.once [.marshalAll]] = false := by decide
example : Race ⟨[⟨⟨[], []⟩, [.iter 0, .iter 1], []⟩, ⟨⟨[0], []⟩, [.wr 0 7 3, .unlock 0], []⟩],
                fun _ _ => none⟩ :=
  ⟨1, 0, _, _, .wr 0 7 3, .iter 0, by decide, rfl, rfl, rfl, rfl, rfl⟩

end Vflow.C10
