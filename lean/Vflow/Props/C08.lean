import Vflow.Proofs.V5Round
import Vflow.Proofs.JsonTree
import Vflow.Gen.Sites
import Vflow.Spec.Sites
/-!
# C08 — NetFlow v5 is decoded field for field (and published as such)

The decoder model `V5.decode` is the generic field reader instantiated with the layouts regenerated
from `netflow/v5/decoder.go`; the obligations `gen_v5Header_layout` / `gen_v5Record_layout` oblige
them to be Cisco's layout (`Vflow.Spec.V5Wire`: 24-octet header, 48-octet records, field names of the
Go structs in wire order).  On that layout:

* `decode_spec`: the complete outcome of `Decode` for **every** octet string;
* `decode_encode`: a well-formed datagram (version 5, count = number of records, 1..30) decodes to
  exactly its header and records, whatever octets follow it;
* `decode_ok_cases` / `decode_ok_flows` / `decode_ok_iff`: a message is only ever returned for a version-5
  datagram with a count in 1..30 that is entirely present, and then with exactly `Count` flows;
  `decode_rejected` / `decode_short_flows`: every other datagram — in particular one that carries fewer
  octets than its header announces — is rejected as a whole, no message is handed out (F29 repair: until
  then the header came back as a message without flows TOGETHER with the error, and the worker counted it);
* `decoded_header_at_offsets` / `decoded_flow_at_offsets`: every decoded value is the big-endian
  value of its octets at the Cisco offset (`cisco_offsets`);
* `v5_marshal_eq_render` / `v5_marshal_valid` (the v5 part of C05): the published text is the
  rendering of `v5Tree` — agent address, the nine header fields and per flow the twenty fields by
  name, addresses in dotted-quad form, everything else as the exact decimal text — and is valid JSON.
-/
namespace Vflow.C08
open Vflow Vflow.Spec Vflow.V5 Vflow.V5Round Vflow.JsonTree

/-! ## Obligations over the regenerated layouts and write programs -/

theorem gen_v5Header_layout : Gen.Layouts.v5Header = Spec.v5Header := by decide +kernel
theorem gen_v5Record_layout : Gen.Layouts.v5Record = Spec.v5Record := by decide +kernel
theorem gen_v5Agent : normalize Gen.JsonWrites.v5Agent = normalize Spec.v5AgentProg := by decide
theorem gen_v5Header : normalize Gen.JsonWrites.v5Header = normalize Spec.v5HeaderProg := by decide
theorem gen_v5Flow : normalize Gen.JsonWrites.v5Flow = normalize Spec.v5FlowProg := by decide

/-- the decoder of the current source is the generic decoder on the Cisco layout -/
theorem decode_eq_spec_layout (bs : Bytes) : V5.decode bs = V5.decodeWith Spec.v5Header Spec.v5Record bs := by
  rw [V5.decode, gen_v5Header_layout, gen_v5Record_layout]

/-- Cisco's offsets: header fields at 0, 2, 4, 8, 12, 16, 20, 21, 22 (24 octets); record fields at
0, 4, 8, 12, 14, 16, 20, 24, 28, 32, 34, 36, 37, 38, 39, 40, 42, 44, 45, 46 (48 octets) -/
theorem cisco_offsets :
    (List.range 10).map (offsetOf (widths Spec.v5Header)) = [0, 2, 4, 8, 12, 16, 20, 21, 22, 24] ∧
    (List.range 21).map (offsetOf (widths Spec.v5Record)) =
      [0, 4, 8, 12, 14, 16, 20, 24, 28, 32, 34, 36, 37, 38, 39, 40, 42, 44, 45, 46, 48] := by decide

/-! ## The generic field reader -/

/-- **C08 (field reader, complete)**: for every width list, `readFields` succeeds exactly when the octets
suffice; the values are the big-endian values of the consecutive slices and the rest is left -/
theorem readFields_spec (ws : List Nat) (bs : Bytes) (c : Nat) :
    readFields ws ⟨bs, c⟩ =
      if ws.sum ≤ bs.length then some (valuesAt ws bs, ⟨bs.drop ws.sum, c + ws.sum⟩) else none :=
  readFields_eq ws bs c

/-- **C08 (values at offsets)**: if the read succeeds, the `i`-th value is the big-endian value of the
`ws[i]` octets at offset `ws[0] + … + ws[i-1]` -/
theorem readFields_values (ws : List Nat) (bs : Bytes) (c : Nat) (vs : List Nat) (r' : Rd)
    (h : readFields ws ⟨bs, c⟩ = some (vs, r')) :
    vs.length = ws.length ∧
    ∀ i < ws.length, vs.getD i 0 = beN ((bs.drop (offsetOf ws i)).take (ws.getD i 0)) := by
  rw [readFields_eq] at h
  split at h
  · simp only [Option.some.injEq, Prod.mk.injEq] at h
    rw [← h.1]
    exact ⟨valuesAt_length ws bs, fun i hi => valuesAt_getD ws bs i hi⟩
  · simp at h

/-- **C08 (fields round trip)**: reading the encoding of fitting values returns the values and leaves exactly
what follows — generic in the width list -/
theorem readFields_encFields (ws vs : List Nat) (tail : Bytes) (c : Nat) (h : Fits ws vs) :
    readFields ws ⟨encFields ws vs ++ tail, c⟩ = some (vs, ⟨tail, c + ws.sum⟩) :=
  V5Round.readFields_encFields ws vs tail c h

/-! ## The decoder -/

/-- **C08 (complete outcome)**: `Decode` on every octet string — too short for a header; wrong version;
count outside 1..30; records not all present (`shortFlows`: no message, since the F29 repair); otherwise header
and exactly `Count` records, each the slices of its 48 octets -/
theorem decode_spec (bs : Bytes) : V5.decode bs = decodeSpec bs := by
  rw [decode_eq_spec_layout, decodeWith_spec_eq]

/-- **C08 (round trip)**: a datagram with version 5 whose count is its number of records (1..30) decodes to
exactly its header and its records, for **every** trailing octet string -/
theorem decode_encode (h : List Nat) (fs : List (List Nat)) (tail : Bytes)
    (hh : Fits (widths Spec.v5Header) h) (hfs : ∀ f ∈ fs, Fits (widths Spec.v5Record) f)
    (hv : fieldAt h 0 = 5) (hc : fieldAt h 1 = fs.length) (h1 : 1 ≤ fs.length) (h30 : fs.length ≤ 30) :
    V5.decode (encodeV5 h fs ++ tail) = .ok ⟨h, fs⟩ := by
  rw [decode_spec]; exact decodeSpec_encode h fs tail hh hfs hv hc h1 h30

/-- **C08 (results, all cases)**: a returned message is the header of a version-5 datagram with a count in 1..30
whose `Count` records are all present, with exactly those records; a header alone, or a partially decoded record
list, never occurs.  (Before the F29 repair there was a second case: the header with the error `shortFlows`.) -/
theorem decode_ok_cases (bs : Bytes) (m : Msg) (h : V5.decode bs = .ok m) :
    fieldAt m.hdr 0 = 5 ∧ 1 ≤ fieldAt m.hdr 1 ∧ fieldAt m.hdr 1 ≤ 30 ∧ 24 ≤ bs.length ∧
    m.hdr = valuesAt (widths Spec.v5Header) bs ∧
    24 + 48 * fieldAt m.hdr 1 ≤ bs.length ∧
    m.flows = flowsAt (widths Spec.v5Record) (fieldAt m.hdr 1) (bs.drop 24) := by
  rw [decode_spec] at h
  simp only [decodeSpec] at h
  split at h
  · simp at h
  · split at h
    · simp at h
    · split at h
      · simp at h
      · rename_i h24 hver hcnt
        split at h
        · simp at h
        · rename_i hl
          injection h with h
          subst h
          dsimp only
          exact ⟨by simpa using hver, by omega, by omega, by omega, rfl, by omega, rfl⟩

/-- **C08 (rejection)**: a message is returned only for a version-5 datagram whose count is in 1..30 and whose
`Count` records are all present; and then exactly `Count` flows (at least one) are returned.  No hypothesis on the
message (before the F29 repair: "if it has flows"). -/
theorem decode_ok_flows (bs : Bytes) (m : Msg) (h : V5.decode bs = .ok m) :
    fieldAt m.hdr 0 = 5 ∧ 1 ≤ fieldAt m.hdr 1 ∧ fieldAt m.hdr 1 ≤ 30 ∧
    24 + 48 * fieldAt m.hdr 1 ≤ bs.length ∧ m.flows.length = fieldAt m.hdr 1 ∧ m.flows ≠ [] := by
  obtain ⟨hv, h1, h30, _, _, hl, hf⟩ := decode_ok_cases bs m h
  have hlen : m.flows.length = fieldAt m.hdr 1 := by rw [hf, flowsAt_length]
  refine ⟨hv, h1, h30, hl, hlen, ?_⟩
  intro he
  rw [he] at hlen
  simp at hlen
  omega

/-- **C08 / C13 (rejection, the other direction)**: a datagram that is too short for a header, has another
version, a count outside 1..30 or fewer than `24 + 48·Count` octets is rejected as a whole: `Decode` returns
`(nil, err)` — no message, hence nothing the worker could count as decoded or publish -/
theorem decode_rejected (bs : Bytes)
    (h : bs.length < 24 ∨ fieldAt (valuesAt (widths Spec.v5Header) bs) 0 ≠ 5 ∨
      fieldAt (valuesAt (widths Spec.v5Header) bs) 1 < 1 ∨ fieldAt (valuesAt (widths Spec.v5Header) bs) 1 > 30 ∨
      bs.length < 24 + 48 * fieldAt (valuesAt (widths Spec.v5Header) bs) 1) :
    ∃ e, V5.decode bs = .error e := by
  rw [decode_spec]
  simp only [decodeSpec]
  split
  · exact ⟨_, rfl⟩
  · split
    · exact ⟨_, rfl⟩
    · split
      · exact ⟨_, rfl⟩
      · split
        · exact ⟨_, rfl⟩
        · omega

/-- **C13 (NetFlow v5: "decodes successfully")**: `Decode` returns a message exactly for the datagrams that hold a
header with version 5, a count in 1..30 and all `Count` records -/
theorem decode_ok_iff (bs : Bytes) :
    (∃ m, V5.decode bs = .ok m) ↔
      24 ≤ bs.length ∧ fieldAt (valuesAt (widths Spec.v5Header) bs) 0 = 5 ∧
      1 ≤ fieldAt (valuesAt (widths Spec.v5Header) bs) 1 ∧ fieldAt (valuesAt (widths Spec.v5Header) bs) 1 ≤ 30 ∧
      24 + 48 * fieldAt (valuesAt (widths Spec.v5Header) bs) 1 ≤ bs.length := by
  constructor
  · rintro ⟨m, hm⟩
    obtain ⟨hv, h1, h30, h24, hh, hl, _⟩ := decode_ok_cases bs m hm
    rw [hh] at hv h1 h30 hl
    exact ⟨h24, hv, h1, h30, hl⟩
  · rintro ⟨h24, hv, h1, h30, hl⟩
    cases hd : V5.decode bs with
    | ok m => exact ⟨m, rfl⟩
    | error e =>
      obtain ⟨e', he'⟩ : ∃ e, V5.decode bs = .error e := ⟨e, hd⟩
      rw [decode_spec] at he'
      simp only [decodeSpec] at he'
      rw [if_neg (by omega), if_neg (by simpa using hv), if_neg (by omega), if_neg (by omega)] at he'
      simp at he'

/-- **F29, the case the audit ran**: a well-formed header (version 5, count 1..30) followed by fewer than
`48·Count` octets — one octet short, say — gives `(nil, "Expect … bytes to read, … remaining")`: the message is
**absent**, not "present without flows" -/
theorem decode_short_flows (bs : Bytes) (h24 : 24 ≤ bs.length)
    (hv : fieldAt (valuesAt (widths Spec.v5Header) bs) 0 = 5)
    (h1 : 1 ≤ fieldAt (valuesAt (widths Spec.v5Header) bs) 1) (h30 : fieldAt (valuesAt (widths Spec.v5Header) bs) 1 ≤ 30)
    (hs : bs.length < 24 + 48 * fieldAt (valuesAt (widths Spec.v5Header) bs) 1) :
    V5.decode bs = .error .shortFlows := by
  rw [decode_spec]
  simp only [decodeSpec]
  rw [if_neg (by omega), if_neg (by simpa using hv), if_neg (by omega), if_pos hs]

/-- **C08 (header fields at Cisco offsets)** -/
theorem decoded_header_at_offsets (bs : Bytes) (m : Msg) (h : V5.decode bs = .ok m) :
    m.hdr.length = 9 ∧
    ∀ i < 9, fieldAt m.hdr i =
      beN ((bs.drop (offsetOf (widths Spec.v5Header) i)).take ((widths Spec.v5Header).getD i 0)) := by
  obtain ⟨_, _, _, _, hh, _⟩ := decode_ok_cases bs m h
  rw [hh]
  exact ⟨valuesAt_length _ _, fun i hi => valuesAt_getD _ bs i (by rw [hdr_len]; exact hi)⟩

/-- **C08 (flow fields at Cisco offsets)**: field `i` of the `j`-th decoded flow is the big-endian value of its
octets at `24 + 48·j + offset(i)` -/
theorem decoded_flow_at_offsets (bs : Bytes) (m : Msg) (h : V5.decode bs = .ok m) :
    ∀ j < m.flows.length, (m.flows.getD j []).length = 20 ∧
      ∀ i < 20, fieldAt (m.flows.getD j []) i =
        beN ((bs.drop (24 + 48 * j + offsetOf (widths Spec.v5Record) i)).take
          ((widths Spec.v5Record).getD i 0)) := by
  intro j hj
  obtain ⟨_, _, _, _, _, _, hf⟩ := decode_ok_cases bs m h
  rw [hf, flowsAt_length] at hj
  rw [hf, flowsAt_getD _ _ _ _ hj, rec_sum]
  refine ⟨valuesAt_length _ _, fun i hi => ?_⟩
  rw [fieldAt, valuesAt_getD _ _ i (by rw [rec_len]; exact hi)]
  simp only [List.drop_drop]
  congr 3; omega

/-! ## The published text (the NetFlow v5 part of C05) -/

/-- **C05/C08 (NetFlow v5, faithfulness)**: the published octets are exactly the rendering of `v5Tree a m`:
`{"AgentID":"<address>","Header":{"Version":…,"Count":…,"SysUpTimeMSecs":…,"UNIXSecs":…,"UNIXNSecs":…,"SeqNum":…,
"EngType":…,"EngID":…,"SmpInt":…},"Flows":[{"SrcAddr":"a.b.c.d","DstAddr":…,"NextHop":…,"Input":…,…,"Padding2":…},…]}`,
every number the exact decimal text of the decoded field.  No assumption. -/
theorem v5_marshal_eq_render (a : Bytes) (m : Msg) : V5.marshal (ipBytes a) m = render (v5Tree a m) := by
  rw [← marshalWith_spec]
  exact marshalWith_congr gen_v5Agent gen_v5Header gen_v5Flow _ _

theorem v5_tree_wf (a : Bytes) (m : Msg) : WF (v5Tree a m) := wf_v5Tree a m

/-- **C05/C08 (NetFlow v5, validity)**: the published octets derive `v5Tree a m` in the RFC 8259 grammar —
unconditionally (v5 has no float or string fields) -/
theorem v5_marshal_valid (a : Bytes) (m : Msg) : DVal (V5.marshal (ipBytes a) m) (v5Tree a m) := by
  rw [v5_marshal_eq_render]; exact derives_render _ (v5_tree_wf a m)

/-- end to end: what is published for a well-formed datagram shows its header and records -/
theorem decode_then_marshal (a : Bytes) (h : List Nat) (fs : List (List Nat)) (tail : Bytes)
    (hh : Fits (widths Spec.v5Header) h) (hfs : ∀ f ∈ fs, Fits (widths Spec.v5Record) f)
    (hv : fieldAt h 0 = 5) (hc : fieldAt h 1 = fs.length) (h1 : 1 ≤ fs.length) (h30 : fs.length ≤ 30) :
    ∃ m, V5.decode (encodeV5 h fs ++ tail) = .ok m ∧
      DVal (V5.marshal (ipBytes a) m) (v5Tree a ⟨h, fs⟩) :=
  ⟨_, decode_encode h fs tail hh hfs hv hc h1 h30, v5_marshal_valid a _⟩

/-! ## Non-vacuity: a concrete one-flow datagram -/

def exHeader : List Nat := [5, 1, 1000, 1700000000, 0, 7, 0, 0, 0]
def exFlow : List Nat :=
  [0xC0000201, 0xC6336407, 0, 1, 2, 10, 1500, 100, 200, 1234, 80, 0, 0x18, 6, 0, 64500, 64501, 24, 24, 0]
def exPacket : Bytes :=
  [0, 5, 0, 1, 0, 0, 3, 232, 101, 83, 241, 0, 0, 0, 0, 0, 0, 0, 0, 7, 0, 0, 0, 0,
   192, 0, 2, 1, 198, 51, 100, 7, 0, 0, 0, 0, 0, 1, 0, 2, 0, 0, 0, 10, 0, 0, 5, 220, 0, 0, 0, 100, 0, 0, 0, 200,
   4, 210, 0, 80, 0, 24, 6, 0, 251, 244, 251, 245, 24, 24, 0, 0]

example : encodeV5 exHeader [exFlow] = exPacket := by decide +kernel
/-- the hypotheses of `decode_encode` hold for the example -/
example : Fits (widths Spec.v5Header) exHeader ∧ (∀ f ∈ [exFlow], Fits (widths Spec.v5Record) f) ∧
    fieldAt exHeader 0 = 5 ∧ fieldAt exHeader 1 = [exFlow].length := by decide +kernel
example : V5.decode (exPacket ++ [1, 2, 3]) = .ok ⟨exHeader, [exFlow]⟩ := by decide +kernel
/-- F29: one octet short — no message (before the repair: `.ok ⟨exHeader, [], some .shortFlows⟩`) -/
example : V5.decode (exPacket.take 71) = .error .shortFlows := by decide +kernel
example : V5.decode (exPacket.take 24) = .error .shortFlows := by decide +kernel
example : V5.decode (exPacket.take 23) = .error .short := by decide +kernel
example : V5.decode (0 :: 9 :: exPacket.drop 2) = .error .badVersion := by decide +kernel
example : V5.marshal (ipBytes [192, 0, 2, 1]) ⟨exHeader, [exFlow]⟩ =
    txt ["{\"AgentID\":\"192.0.2.1\",\"Header\":{\"Versio",
      "n\":5,\"Count\":1,\"SysUpTimeMSecs\":1000,\"UN",
      "IXSecs\":1700000000,\"UNIXNSecs\":0,\"SeqNum",
      "\":7,\"EngType\":0,\"EngID\":0,\"SmpInt\":0},\"F",
      "lows\":[{\"SrcAddr\":\"192.0.2.1\",\"DstAddr\":",
      "\"198.51.100.7\",\"NextHop\":\"0.0.0.0\",\"Inpu",
      "t\":1,\"Output\":2,\"PktCount\":10,\"L3Octets\"",
      ":1500,\"StartTime\":100,\"EndTime\":200,\"Src",
      "Port\":1234,\"DstPort\":80,\"Padding1\":0,\"TC",
      "PFlags\":24,\"ProtType\":6,\"Tos\":0,\"SrcAsNu",
      "m\":64500,\"DstAsNum\":64501,\"SrcMask\":24,\"",
      "DstMask\":24,\"Padding2\":0}]}"] := by
  decide +kernel

/-- **Tie (control-flow skeleton)**: every branch / loop condition, switch case and `break` / `continue` of the
sources this model mirrors, re-extracted on every run, is exactly the reviewed inventory in `Spec/Sites.lean`
(which names the model clause of each).  A changed bound, a new or dropped branch breaks this obligation. -/
theorem guards_reviewed : Gen.Sites.guardsV5 = Spec.Sites.guardsV5 := by decide +kernel

/-- **Tie (error classes, F29)**: re-extracted on every run — `nonfatalError` in netflow/v5/decoder.go is declared as the
struct wrapper (as `type nonfatalError error` the case of the type switch in `Decode` matches every error and a failed
decode hands out a message) and nothing constructs one: every error of the v5 decoder is fatal, which is what
`V5.decodeWith` transcribes (`Except`: a message or an error, never both) -/
theorem v5_nonfatal_reviewed : Gen.Sites.nonfatalV5 = Spec.Sites.nonfatalV5 := by decide +kernel

end Vflow.C08
