import Vflow.Proofs.CacheLemmas
import Vflow.Model.Ipfix
import Vflow.Model.V9
import Vflow.Props.C03
import Vflow.Props.C06
import Vflow.Gen.CacheKey
import Vflow.Props.C05
import Vflow.Proofs.PipelineSeq
/-!
# C04 — data is decoded only with the same exporter's latest template

The concrete cache (`ipfix/memcache.go`, `netflow/v9/memcache.go`; the same `Cache` serves both decoder models) is 32
shard maps keyed by the hex text of `addr ‖ be16 id`, the shard chosen by the 32-bit FNV-1 hash of the same octets
(`cacheKey = (shardOf, keyText)`).  The abstract specification is a map keyed by `(addr, id)`: `latest h a id`.

Since the K1 repair (F26) the full-strength statement holds: for every history of announcements — any exporters, any
16-bit template ids, colliding under the hash or not — `lookup (run h) a id = latest h a id` (`refinement`), and an
announcement by another exporter never changes a lookup (`other_exporter_no_influence`, no hypothesis at all on the
ids).  Both rest on `cacheKey_inj`: the key determines the pair.  Before the repair the maps were keyed by the hash
alone (`oldCacheKey`), for which the statement is false: `hash_collision_counterexample` keeps that fact about the OLD
key function, and `colliding_pair_separate` shows the same pair holding two entries under the new one (the pair is the
corpus witness `corpus/C04/*-hist--K1-hash-collision.txt`, replayed on the real caches of both protocols; the `*-hist`
kinds search fresh colliding pairs in every run, which must now decode correctly).
-/
namespace Vflow.C04
open Vflow

/-- an announcement: exporter address, template id, definition -/
abbrev Ann := Bytes × Nat × Template

/-- the cache after a history of announcements (templates are inserted as soon as they are parsed) -/
def runAnn (c : Cache) (h : List Ann) : Cache := h.foldl (fun c e => c.insert e.1 e.2.1 e.2.2) c

/-- the abstract spec: the template most recently announced under `id` by exporter `a` -/
def latest : List Ann → Bytes → Nat → Option Template
  | [], _, _ => none
  | e :: h, a, id =>
    match latest h a id with
    | some t => some t
    | none => if e.1 = a ∧ e.2.1 = id then some e.2.2 else none

/-- no announcement of the history has the cache key of `(a, id)` without being an announcement of `(a, id)` -/
def NoCollision (h : List Ann) (a : Bytes) (id : Nat) : Prop :=
  ∀ e ∈ h, cacheKey e.1 e.2.1 = cacheKey a id → e.1 = a ∧ e.2.1 = id

/-- template ids are 16-bit: `uint16` in `TemplateRecord.TemplateID`, `SetHeader.SetID`, `RPCRequest.ID` and in the
signatures of `insert` / `retrieve` (a typing condition of the code, not an assumption about the input) -/
def Ids16 (h : List Ann) : Prop := ∀ e ∈ h, e.2.1 < 65536

/-- the refinement for arbitrary natural-number ids, under the hypothesis that used to be the gap (kept: the theorem
below discharges the hypothesis for everything the code can represent) -/
theorem refinement_of_no_collision (h : List Ann) (a : Bytes) (id : Nat) :
    ∀ c : Cache, NoCollision h a id →
      (runAnn c h).lookup a id = (match latest h a id with | some t => some t | none => c.lookup a id) := by
  induction h with
  | nil => intro c _; rfl
  | cons e h ih =>
    intro c hnc
    have hnc' : NoCollision h a id := fun x hx => hnc x (List.mem_cons_of_mem _ hx)
    have he := hnc e (List.mem_cons_self ..)
    show (runAnn (c.insert e.1 e.2.1 e.2.2) h).lookup a id = _
    rw [ih _ hnc', Cache.lookup_insert]
    simp only [latest]
    cases hl : latest h a id with
    | some t => rfl
    | none =>
      simp only
      by_cases hk : cacheKey a id = cacheKey e.1 e.2.1
      · have := he hk.symm
        simp [hk, this]
      · have : ¬ (e.1 = a ∧ e.2.1 = id) := fun hh => hk (by rw [hh.1, hh.2])
        simp [hk, this]

/-- **no two pairs share a key**: with 16-bit ids the hypothesis `NoCollision` holds of every history (false of the
hash-only key: `hash_collision_counterexample`) -/
theorem no_collision (h : List Ann) (a : Bytes) (id : Nat) (hh : Ids16 h) (hid : id < 65536) : NoCollision h a id :=
  fun e he hk => cacheKey_inj (hh e he) hid hk

/-- **C04 (refinement)**: for every starting cache and every history of announcements — any number of exporters, any
addresses (4-octet, 16-octet, any length), any 16-bit template ids, re-announcements, pairs that collide under FNV-1
included — the concrete lookup returns exactly the latest template announced by that exporter under that id, or what
the starting cache held if there is none.  No hypothesis about the hash (was `refinement_partial` with `NoCollision`). -/
theorem refinement (h : List Ann) (a : Bytes) (id : Nat) (hh : Ids16 h) (hid : id < 65536) (c : Cache) :
    (runAnn c h).lookup a id = (match latest h a id with | some t => some t | none => c.lookup a id) :=
  refinement_of_no_collision h a id c (no_collision h a id hh hid)

/-- from the empty cache: the lookup IS the specification -/
theorem refinement_empty (h : List Ann) (a : Bytes) (id : Nat) (hh : Ids16 h) (hid : id < 65536) :
    (runAnn [] h).lookup a id = latest h a id := by
  rw [refinement h a id hh hid]
  cases latest h a id <;> rfl

/-- **C04 (no interference)**: an announcement by ANOTHER exporter — whatever its template id, whatever the hash of the
two keys — never changes what a lookup for `(a, id)` returns (was `…_partial` with hypothesis
`cacheKey a id ≠ cacheKey a' id'`) -/
theorem other_exporter_no_influence (c : Cache) (a a' : Bytes) (id id' : Nat) (t : Template) (h : a ≠ a') :
    (c.insert a' id' t).lookup a id = c.lookup a id := by
  rw [Cache.lookup_insert]
  have : cacheKey a id ≠ cacheKey a' id' := fun hk => h (cacheKey_addr hk)
  simp [this]

/-- the same exporter announcing under another id does not change the lookup either -/
theorem other_id_no_influence (c : Cache) (a : Bytes) (id id' : Nat) (t : Template)
    (hid : id < 65536) (hid' : id' < 65536) (h : id ≠ id') :
    (c.insert a id' t).lookup a id = c.lookup a id := by
  rw [Cache.lookup_insert]
  have : cacheKey a id ≠ cacheKey a id' := fun hk => h (cacheKey_inj hid hid' hk).2
  simp [this]

/-- a re-announcement replaces the earlier definition for the same exporter and id -/
theorem reannounce_replaces (c : Cache) (a : Bytes) (id : Nat) (t₁ t₂ : Template) :
    ((c.insert a id t₁).insert a id t₂).lookup a id = some t₂ := by
  rw [Cache.lookup_insert]; simp

/-! ## The old key function, and the pair that collided under it -/

/-- the caches before the repair: one association list keyed by `oldCacheKey` (the hash alone) -/
def oldInsert (c : List (Nat × Template)) (a : Bytes) (id : Nat) (t : Template) : List (Nat × Template) :=
  (oldCacheKey a id, t) :: c.filter (fun e => e.1 ≠ oldCacheKey a id)
def oldLookup (c : List (Nat × Template)) (a : Bytes) (id : Nat) : Option Template :=
  (c.find? (fun e => e.1 = oldCacheKey a id)).map (·.2)

/-- the negation of the full-strength statement **for the OLD key function**, on a concrete witness: exporters
10.118.203.99 (template 1039) and 10.109.201.102 (template 3119) have the same hash, so with maps keyed by the hash
alone a lookup for A's key returned B's template after B announced (K1, repaired by F26; the pair was found by the
harness's birthday search) -/
theorem hash_collision_counterexample :
    oldCacheKey [10, 118, 203, 99] 1039 = oldCacheKey [10, 109, 201, 102] 3119 ∧
    ([10, 118, 203, 99], 1039) ≠ (([10, 109, 201, 102] : Bytes), 3119) ∧
    ∀ (tA tB : Template),
      oldLookup (oldInsert (oldInsert [] [10, 118, 203, 99] 1039 tA) [10, 109, 201, 102] 3119 tB)
        [10, 118, 203, 99] 1039 = some tB := by
  refine ⟨by decide, by decide, ?_⟩
  intro tA tB
  have : oldCacheKey [10, 118, 203, 99] 1039 = oldCacheKey [10, 109, 201, 102] 3119 := by decide
  simp [oldLookup, oldInsert, this]

/-- **the colliding pair now keeps two separate entries**: the two keys fall into the same shard (their hashes are
equal) but have different key texts, `0a76cb63040f` and `0a6dc9660c2f`; after both exporters announced, each lookup
returns its own exporter's template, in either order of the announcements -/
theorem colliding_pair_separate :
    shardOf [10, 118, 203, 99] 1039 = shardOf [10, 109, 201, 102] 3119 ∧
    keyText [10, 118, 203, 99] 1039 = str "0a76cb63040f" ∧ keyText [10, 109, 201, 102] 3119 = str "0a6dc9660c2f" ∧
    ∀ (tA tB : Template),
      Cache.lookup (Cache.insert (Cache.insert [] [10, 118, 203, 99] 1039 tA) [10, 109, 201, 102] 3119 tB)
        [10, 118, 203, 99] 1039 = some tA ∧
      Cache.lookup (Cache.insert (Cache.insert [] [10, 118, 203, 99] 1039 tA) [10, 109, 201, 102] 3119 tB)
        [10, 109, 201, 102] 3119 = some tB ∧
      Cache.lookup (Cache.insert (Cache.insert [] [10, 109, 201, 102] 3119 tB) [10, 118, 203, 99] 1039 tA)
        [10, 109, 201, 102] 3119 = some tB := by
  refine ⟨by decide, by decide +kernel, by decide +kernel, ?_⟩
  intro tA tB
  have hne : cacheKey [10, 118, 203, 99] 1039 ≠ cacheKey [10, 109, 201, 102] 3119 :=
    fun hk => absurd (cacheKey_addr hk) (by decide)
  refine ⟨?_, ?_, ?_⟩
  · rw [Cache.lookup_insert, Cache.lookup_insert]; simp [hne]
  · rw [Cache.lookup_insert]; simp
  · rw [Cache.lookup_insert, Cache.lookup_insert]; simp [hne.symm]

/-! ## The decoders use exactly this lookup, and unknown templates yield no records -/

/-- IPFIX: data whose template the exporter has not announced is reported as unknown and yields no record -/
theorem ipfix_unknown_template_no_records (addr : Bytes) (sid len start fuel : Nat) (st : Ipfix.St)
    (hs : sid > 255) (hl : st.cache.lookup addr sid = none) :
    (Ipfix.setBody addr sid len start fuel st).1.recs = st.recs ∧
    (Ipfix.setBody addr sid len start fuel st).1.cache = st.cache ∧
    ((Ipfix.setBody addr sid len start fuel st).2 = some .unknownTpl ∨
     (Ipfix.setBody addr sid len start fuel st).2 = some .short) := by
  simp only [Ipfix.setBody, Ipfix.lookupTpl, hs, if_true, hl, Ipfix.skipRest]
  split
  · split <;> simp
  · simp

/-- NetFlow v9: the same -/
theorem v9_unknown_template_no_records (addr : Bytes) (sid len start fuel : Nat) (st : V9.St)
    (hs : sid > 255) (hl : st.cache.lookup addr sid = none) :
    (V9.setBody addr sid len start fuel st).1.recs = st.recs ∧
    (V9.setBody addr sid len start fuel st).1.cache = st.cache ∧
    ((V9.setBody addr sid len start fuel st).2 = some .unknownTpl ∨
     (V9.setBody addr sid len start fuel st).2 = some .short) := by
  simp only [V9.setBody, V9.lookupTpl, hs, if_true, hl, V9.skipRest]
  simp only [show ((some Err.unknownTpl : Option Err) = some Err.fuel) = False by simp, if_false]
  split
  · split <;> simp
  · simp

/-- IPFIX: a data set is decoded with exactly the template the cache holds for (this exporter, this id)
at the moment the set starts — including templates inserted by earlier sets of the same message -/
theorem ipfix_data_uses_lookup (addr : Bytes) (sid len start fuel : Nat) (st : Ipfix.St) (t : Template)
    (hs : sid > 255) (hl : st.cache.lookup addr sid = some t) :
    Ipfix.setBody addr sid len start fuel st =
      (let res := Ipfix.setLoop ⟨addr, sid, len, start, t⟩ fuel st
       if res.2.2 then (res.1, res.2.1) else Ipfix.skipRest ⟨addr, sid, len, start, t⟩ res.1 res.2.1) := by
  simp [Ipfix.setBody, Ipfix.lookupTpl, hs, hl]

theorem v9_data_uses_lookup (addr : Bytes) (sid len start fuel : Nat) (st : V9.St) (t : Template)
    (hs : sid > 255) (hl : st.cache.lookup addr sid = some t) :
    V9.setBody addr sid len start fuel st =
      (let res := V9.setLoop ⟨addr, sid, len, start, t⟩ fuel st
       V9.skipRest ⟨addr, sid, len, start, t⟩ res.1 res.2) := by
  simp [V9.setBody, V9.lookupTpl, hs, hl]

/-! ## Obligations over regenerated facts: how the code keys and consults the cache

`cacheKey addr id = (fnv1 (addr ++ be16 id) % 32, hex (addr ++ be16 id))` in the model is what `getShard` computes
(32-bit FNV-1 over the exporter address followed by the big-endian template id; shard = hash mod shardNo; the key
inside the shard's map is `hex.EncodeToString` of the same octets), in both cache files; the maps are
`map[string]Data`, and `insert` / `retrieve` use the shard and the key `getShard` returned and nothing else; the decoders look templates up and store them under
(set id / template id, the datagram's source address), and the peer-RPC path asks for and stores the
template under exactly the requesting (id, address). A change to any of these statements is a failed
obligation. -/

def expectedGetShard : List String :=
  ["b := make([]byte, 2)", "binary.BigEndian.PutUint16(b, id)", "key := append(addr, b...)",
   "hash := fnv.New32()", "hash.Write(key)", "hSum32 := hash.Sum32()",
   "return m[uint(hSum32)%uint(shardNo)], hex.EncodeToString(key)"]

theorem gen_cache_key :
    Gen.CacheKey.ipfixGetShard = expectedGetShard ∧ Gen.CacheKey.nf9GetShard = expectedGetShard := by
  decide +kernel

def expectedInsert : List String :=
  ["shard, key := m.getShard(id, addr)", "shard.Lock()", "defer shard.Unlock()",
   "shard.Templates[key] = Data{tr, time.Now().Unix()}"]
def expectedRetrieve : List String :=
  ["shard, key := m.getShard(id, addr)", "shard.RLock()", "defer shard.RUnlock()",
   "v, ok := shard.Templates[key]", "return v.Template, ok"]

/-- the shard maps are keyed by the string `getShard` returns (`map[string]Data`, not the 32-bit hash: K1 / F26);
`insert` stores and `retrieve` reads under exactly (the shard, the key) of `getShard(id, addr)`; nothing else in the
two cache files indexes a `Templates` map or calls `getShard`; `hex`, `fnv`, `binary` are the standard packages -/
theorem gen_cache_key_use :
    Gen.CacheKey.ipfixGetShardSig = "func(id uint16, addr net.IP) (*TemplatesShard, string)" ∧
    Gen.CacheKey.nf9GetShardSig = "func(id uint16, addr net.IP) (*TemplatesShard, string)" ∧
    Gen.CacheKey.ipfixMapType = "map[string]Data" ∧ Gen.CacheKey.nf9MapType = "map[string]Data" ∧
    Gen.CacheKey.ipfixInsert = expectedInsert ∧ Gen.CacheKey.nf9Insert = expectedInsert ∧
    Gen.CacheKey.ipfixRetrieve = expectedRetrieve ∧ Gen.CacheKey.nf9Retrieve = expectedRetrieve ∧
    Gen.CacheKey.ipfixOtherKeyUses = [] ∧ Gen.CacheKey.nf9OtherKeyUses = [] ∧
    (∀ p ∈ ["\"encoding/hex\"", "\"hash/fnv\"", "\"encoding/binary\""],
      p ∈ Gen.CacheKey.ipfixImports ∧ p ∈ Gen.CacheKey.nf9Imports) := by
  decide +kernel

theorem gen_cache_calls :
    Gen.CacheKey.ipfixDecoderCalls = ["mem.retrieve(setHeader.SetID, d.raddr)", "mem.insert(tr.TemplateID, d.raddr, tr)"] ∧
    Gen.CacheKey.nf9DecoderCalls = ["mem.retrieve(setHeader.FlowSetID, d.raddr)", "mem.insert(tr.TemplateID, d.raddr, tr)"] ∧
    Gen.CacheKey.ipfixRpcCalls = ["r.mCache.retrieve(req.ID, req.IP)", "m.insert(req.ID, req.IP, *tr)"] := by
  decide +kernel

/-! ## Histories of whole messages, any number of exporters

`wfHistory` judges every message against the cache *as the decoder has left it* after the earlier
messages (`Wire.*.expected`), i.e. through the concrete lookup: a data set is well formed when the
template it was encoded with is what the cache returns for (this exporter, this id) at that point.
Under that premise every message of the history decodes to exactly its expected records — whatever
other exporters announced in between. (By `refinement` the concrete lookup is the latest announcement of
that exporter under that id, so the premise says: encoded with the exporter's latest template. Before the
K1 repair it failed for the victim's data set of a colliding pair.) -/

/-- decode a history of (exporter address, message) pairs in order -/
def ipfixRun (c : Cache) : List (Bytes × Wire.Ipfix.Msg) → List Ipfix.Result × Cache
  | [] => ([], c)
  | (a, m) :: h =>
    let r := Ipfix.decode c a (Wire.Ipfix.encodeMsg m)
    let rest := ipfixRun r.2 h
    (r.1 :: rest.1, rest.2)

def ipfixExpectedRun (c : Cache) : List (Bytes × Wire.Ipfix.Msg) → List Ipfix.Result × Cache
  | [] => ([], c)
  | (a, m) :: h =>
    let e := Wire.Ipfix.expected a c m
    let rest := ipfixExpectedRun e.2 h
    (.ok (Wire.Ipfix.expectedHdr m, e.1, []) :: rest.1, rest.2)

def ipfixWfHistory (c : Cache) : List (Bytes × Wire.Ipfix.Msg) → Bool
  | [] => true
  | (a, m) :: h => Wire.Ipfix.wfMsg a c m && ipfixWfHistory (Wire.Ipfix.expected a c m).2 h

/-- **C04 (histories, IPFIX)**: every message of a well-formed history — any exporters, any
interleaving of announcements, re-announcements and data — decodes to exactly its expected records,
and the cache evolves as the specification says -/
theorem ipfix_history_roundtrip (h : List (Bytes × Wire.Ipfix.Msg)) :
    ∀ c : Cache, ipfixWfHistory c h = true → ipfixRun c h = ipfixExpectedRun c h := by
  induction h with
  | nil => intro c _; rfl
  | cons x xs ih =>
    intro c hw
    obtain ⟨a, m⟩ := x
    simp only [ipfixWfHistory, Bool.and_eq_true] at hw
    have hm := C03.message_roundtrip c a m hw.1
    simp only [ipfixRun, ipfixExpectedRun, hm]
    rw [ih _ hw.2]

def v9Run (c : Cache) : List (Bytes × Wire.V9.Msg) → List V9.Result × Cache
  | [] => ([], c)
  | (a, m) :: h =>
    let r := V9.decode c a (Wire.V9.encodeMsg m)
    let rest := v9Run r.2 h
    (r.1 :: rest.1, rest.2)

def v9ExpectedRun (c : Cache) : List (Bytes × Wire.V9.Msg) → List V9.Result × Cache
  | [] => ([], c)
  | (a, m) :: h =>
    let e := Wire.V9.expected a c m
    let rest := v9ExpectedRun e.2 h
    (.ok (Wire.V9.expectedHdr m, e.1, []) :: rest.1, rest.2)

def v9WfHistory (c : Cache) : List (Bytes × Wire.V9.Msg) → Bool
  | [] => true
  | (a, m) :: h => Wire.V9.wfMsg a c m && v9WfHistory (Wire.V9.expected a c m).2 h

/-- **C04 (histories, NetFlow v9)** -/
theorem v9_history_roundtrip (h : List (Bytes × Wire.V9.Msg)) :
    ∀ c : Cache, v9WfHistory c h = true → v9Run c h = v9ExpectedRun c h := by
  induction h with
  | nil => intro c _; rfl
  | cons x xs ih =>
    intro c hw
    obtain ⟨a, m⟩ := x
    simp only [v9WfHistory, Bool.and_eq_true] at hw
    have hm := C06.packet_roundtrip c a m hw.1
    simp only [v9Run, v9ExpectedRun, hm]
    rw [ih _ hw.2]

/-- non-vacuity: a three-step history over two exporters, no collision, re-announcement wins -/
example :
    let tA : Template := ⟨256, 1, 0, [], [⟨8, 4, 0⟩]⟩
    let tA' : Template := ⟨256, 1, 0, [], [⟨12, 4, 0⟩]⟩
    let tB : Template := ⟨256, 1, 0, [], [⟨1, 8, 0⟩]⟩
    (runAnn [] [([10,0,0,1], 256, tA), ([10,0,0,2], 256, tB), ([10,0,0,1], 256, tA')]).lookup [10,0,0,1] 256 = some tA' ∧
    (runAnn [] [([10,0,0,1], 256, tA), ([10,0,0,2], 256, tB), ([10,0,0,1], 256, tA')]).lookup [10,0,0,2] 256 = some tB := by
  decide

/-! ## At the collector: the worker pool (finding K5) and the one-worker case

Everything above is about the sequential `Decode` API.  At the collector (`vflow/ipfix.go`, `run`) the datagrams are
taken from ONE UDP channel by N concurrent workers that share ONE template cache.  The pipeline model
(`Model/Pipeline.lean`, C12 / C13) has exactly this structure: a schedule is a list of `Action`s (`run`) resp. a `Reach`
derivation, the worker program is the regenerated `Gen.ipfixWorker`, and the ghost log records `received d`,
`decoded id cache result` and `published id payload` events.  Read oldest first: `arrivals log` (the datagrams in
arrival order) and `decodes log` (the decodes in the order in which they happened); the sequential semantics is
`decodeAll K c0 ds` (decode one after the other, threading the cache) with `cacheAfter K c0 ds` the cache it leaves.

* `k5_two_workers_counterexample` (+ `…_ipfix`): with TWO workers the property fails in the model — the model-level
  witness of finding K5.
* `one_worker_in_order`, `one_worker_published_sequential`: with at most ONE worker every schedule decodes in arrival
  order against the sequentially threaded cache, for every codec and every `Canonical` worker program.
* `one_worker_latest_template`: hence, for the IPFIX decoder model, C04 holds at the collector with one worker;
  `one_worker_latest_template_v9`: the same for the NetFlow v9 decoder model (`C05.v9Codec`, `Gen.netflowV9Worker`).  -/
section Collector
open Vflow.Pipeline Vflow.C12

variable {K : Codec} {cfg : Cfg} {spec : CountSpec}

/-- a toy template codec that makes the definition used visible: the cache maps (exporter, template id) to the
number of the definition announced last (an association list, newest first); the datagram `[0, id, df]` announces
definition `df` for `id` (a message without data, like an IPFIX message carrying only a template set); the datagram
`[1, id, v]` is data for `id`: it decodes to `[id, df, v]` — naming the definition `df` the cache holds for this
exporter and id at that moment — or to no message when there is none; the payload is the message itself -/
@[reducible] def tplToy : Codec where
  Cache := List ((Bytes × UInt8) × UInt8)
  Msg := Bytes
  decode := fun c addr bs =>
    match bs with
    | [0, id, df] => (some [], ((addr, id), df) :: c)
    | [1, id, v] =>
      match c.lookup (addr, id) with
      | some df => (some [id, df, v], c)
      | none => (none, c)
    | _ => (none, c)
  hasData := fun m => !m.isEmpty
  marshal := fun m => some m

instance : DecidableEq tplToy.Cache := inferInstanceAs (DecidableEq (List ((Bytes × UInt8) × UInt8)))
instance : DecidableEq tplToy.Msg := inferInstanceAs (DecidableEq Bytes)

/-- (0, id) for `received`, (1, id) for `decoded`: the skeleton of the log the K5 witness is about -/
def evTag : Event K → Option (Nat × Nat)
  | .received d => some (0, d.id)
  | .decoded id _ _ => some (1, id)
  | _ => none

/-- the schedule of the K5 witness: two workers are started; the read loop receives the three datagrams `dA`, `dB`,
`dD` of exporter `x` in this order (all three are in the UDP channel, in arrival order, before any worker runs); worker 0
handles `dA` completely (11 steps), takes `dB` from the channel and stops right in front of its `decode` (5 steps);
worker 1 takes `dD`, decodes and publishes it (15 steps); only then worker 0 goes on and decodes `dB`; the MQ consumer
reads the one published message -/
def k5Schedule (x dA dB dD : Bytes) : List Action :=
  [.spawn none, .spawn none] ++ feed x dA ++ feed x dB ++ feed x dD ++
    works 0 16 ++ works 1 15 ++ works 0 12 ++ [.mqConsume]

/-- the same three datagrams handled by ONE worker (three full iterations) -/
def oneWorkerSchedule (x dA dB dD : Bytes) : List Action :=
  [.spawn none] ++ feed x dA ++ feed x dB ++ feed x dD ++ works 0 45 ++ [.mqConsume]

/-- **finding K5, model-level witness** (a COUNTEREXAMPLE to C04 at the collector for the code as it is — not a property
of a repaired code): a kernel-checked run of the pipeline semantics with the worker program the current source has
(`Gen.ipfixWorker`), TWO workers, ONE exporter 192.0.2.1 and three datagrams — announce template 7 with definition
`0xA`, re-announce template 7 with definition `0xB`, data for template 7 — under `k5Schedule`.  All three datagrams are
received, in this order, before anything is decoded (log skeleton); the data datagram (id 2) is decoded BEFORE the
re-announcement (id 1), against a cache that holds definition `0xA`; what is published and delivered for it is
`[7, 0xA, 42]` — the payload the superseded definition gives — although `0xB` was received before it; the sequential
semantics of the same arrivals (`decodeAll`, what `refinement` / `ipfix_history_roundtrip` are about) decodes it against
the cache holding `0xB` and yields `[7, 0xB, 42]`.  Codec: `tplToy`. -/
theorem k5_two_workers_counterexample :
    let s := run (K := tplToy) { prog := Gen.ipfixWorker } (init tplToy [] (fun _ => []))
      (k5Schedule [192, 0, 2, 1] [0, 7, 0xA] [0, 7, 0xB] [1, 7, 42])
    s.workers.length = 2 ∧
    (arrivals s.log).map (fun d => (d.id, d.addr, d.bytes)) =
      [(0, [192, 0, 2, 1], [0, 7, 0xA]), (1, [192, 0, 2, 1], [0, 7, 0xB]), (2, [192, 0, 2, 1], [1, 7, 42])] ∧
    s.log.reverse.filterMap evTag = [(0, 0), (0, 1), (0, 2), (1, 0), (1, 2), (1, 1)] ∧
    decodes s.log =
      [(0, [], some []),
       (2, [(([192, 0, 2, 1], 7), 0xA)], some [7, 0xA, 42]),
       (1, [(([192, 0, 2, 1], 7), 0xA)], some [])] ∧
    s.delivered = [(2, [7, 0xA, 42])] ∧
    decodeAll tplToy [] (arrivals s.log) =
      [(0, [], some []),
       (1, [(([192, 0, 2, 1], 7), 0xA)], some []),
       (2, [(([192, 0, 2, 1], 7), 0xB), (([192, 0, 2, 1], 7), 0xA)], some [7, 0xB, 42])] ∧
    decodes s.log ≠ decodeAll tplToy [] (arrivals s.log) := by
  decide

/-- the state of the witness is reachable (every `run` is a `Reach` derivation), so it refutes the conclusion of
`one_worker_in_order` for two workers: no prefix of the sequential semantics is the list of decodes -/
theorem k5_two_workers_not_in_order :
    ∃ s : State tplToy, Reach { prog := Gen.ipfixWorker } (init tplToy [] (fun _ => [])) s ∧ s.workers.length = 2 ∧
      ¬ ∃ n, decodes s.log = (decodeAll tplToy [] (arrivals s.log)).take n := by
  refine ⟨_, reach_run _ _ (k5Schedule [192, 0, 2, 1] [0, 7, 0xA] [0, 7, 0xB] [1, 7, 42]), by decide, ?_⟩
  rintro ⟨n, hn⟩
  have h1 := congrArg (fun l => (l.map (·.1))[1]?) hn
  have h3 : ∀ n, ((List.take n ([0, 1, 2] : List Nat))[1]? = some 2) → False := by
    intro n; match n with
    | 0 => simp
    | 1 => simp
    | n+2 => simp
  refine h3 n ?_
  have e1 : (decodes (run (K := tplToy) { prog := Gen.ipfixWorker } (init tplToy [] (fun _ => []))
      (k5Schedule [192, 0, 2, 1] [0, 7, 0xA] [0, 7, 0xB] [1, 7, 42])).log).map (·.1) = [0, 2, 1] := by decide
  have e2 : (decodeAll tplToy [] (arrivals (run (K := tplToy) { prog := Gen.ipfixWorker } (init tplToy [] (fun _ => []))
      (k5Schedule [192, 0, 2, 1] [0, 7, 0xA] [0, 7, 0xB] [1, 7, 42])).log)).map (·.1) = [0, 1, 2] := by decide
  simp only [List.map_take, e1, e2] at h1
  simpa using h1.symm

/-! ### the same witness on real IPFIX octets, decoded by the IPFIX decoder model -/

/-- template 256, definition A: one field, sourceIPv4Address (element 8, 4 octets) -/
def k5TplA : Template := ⟨256, 1, 0, [], [⟨8, 4, 0⟩]⟩
/-- template 256, definition B: one field, destinationIPv4Address (element 12, 4 octets) -/
def k5TplB : Template := ⟨256, 1, 0, [], [⟨12, 4, 0⟩]⟩
/-- the three messages of the exporter: announce A; re-announce B; one data record, encoded with B (its latest) -/
def k5MsgA : Wire.Ipfix.Msg := ⟨1000, 0, 1, [.tpl [k5TplA] []]⟩
def k5MsgB : Wire.Ipfix.Msg := ⟨1001, 0, 1, [.tpl [k5TplB] []]⟩
def k5MsgD : Wire.Ipfix.Msg := ⟨1002, 0, 1, [.data k5TplB [[⟨[10, 0, 0, 9], false⟩]] []]⟩
/-- the float text is irrelevant here (no float field) -/
def k5Ft : Val → Bytes := fun _ => []

/-- **finding K5, model-level witness on real IPFIX octets** (a counterexample for the code as it is, see
`k5_two_workers_counterexample`): the pipeline's codec is the IPFIX decoder / marshal model (`C05.ipfixCodec`), the three
datagrams are the RFC 7011 encodings (`Wire.Ipfix.encodeMsg`) of: template 256 := sourceIPv4Address; template 256 :=
destinationIPv4Address; a data set of template 256 with the value 10.0.0.9, encoded with the exporter's latest definition.
Under `k5Schedule` (two workers) the collector publishes the value as element 8 (`"I":8`, sourceIPv4Address: the
superseded definition); decode order 0, 2, 1. -/
theorem k5_two_workers_counterexample_ipfix :
    let s := run (K := C05.ipfixCodec k5Ft) { prog := Gen.ipfixWorker } (init (C05.ipfixCodec k5Ft) [] (fun _ => []))
      (k5Schedule [192, 0, 2, 1] (Wire.Ipfix.encodeMsg k5MsgA) (Wire.Ipfix.encodeMsg k5MsgB) (Wire.Ipfix.encodeMsg k5MsgD))
    s.log.reverse.filterMap evTag = [(0, 0), (0, 1), (0, 2), (1, 0), (1, 2), (1, 1)] ∧
    s.delivered = [(2, str ("{\"AgentID\":\"192.0.2.1\",\"Header\":{\"Version\":10,\"Length\":24,\"ExportTime\":1002," ++
      "\"SequenceNo\":0,\"DomainID\":1},\"DataSets\":[[{\"I\":8,\"V\":\"10.0.0.9\"}]]}"))] := by
  decide +kernel

/-- non-vacuity of the one-worker theorems, and the contrast: the same three datagrams, ONE worker
(`oneWorkerSchedule`): decode order 0, 1, 2 and the value is published as element 12 (destinationIPv4Address, the
latest definition) -/
example :
    let s := run (K := C05.ipfixCodec k5Ft) { prog := Gen.ipfixWorker } (init (C05.ipfixCodec k5Ft) [] (fun _ => []))
      (oneWorkerSchedule [192, 0, 2, 1] (Wire.Ipfix.encodeMsg k5MsgA) (Wire.Ipfix.encodeMsg k5MsgB) (Wire.Ipfix.encodeMsg k5MsgD))
    s.workers.length = 1 ∧
    s.log.reverse.filterMap evTag = [(0, 0), (0, 1), (0, 2), (1, 0), (1, 1), (1, 2)] ∧
    s.delivered = [(2, str ("{\"AgentID\":\"192.0.2.1\",\"Header\":{\"Version\":10,\"Length\":24,\"ExportTime\":1002," ++
      "\"SequenceNo\":0,\"DomainID\":1},\"DataSets\":[[{\"I\":12,\"V\":\"10.0.0.9\"}]]}"))] := by
  decide +kernel

/-- the same with the toy codec: one worker, the data is decoded with definition `0xB`, and the decodes ARE the
sequential semantics -/
example :
    let s := run (K := tplToy) { prog := Gen.ipfixWorker } (init tplToy [] (fun _ => []))
      (oneWorkerSchedule [192, 0, 2, 1] [0, 7, 0xA] [0, 7, 0xB] [1, 7, 42])
    s.workers.length = 1 ∧ pending s = [] ∧
    s.delivered = [(2, [7, 0xB, 42])] ∧
    decodes s.log = decodeAll tplToy [] (arrivals s.log) := by
  decide

/-! ### one worker: every schedule decodes in arrival order -/

/-- **C04 at the collector, one worker (order)**: for EVERY codec, every `Canonical` worker program (in particular
`Gen.ipfixWorker`, `C12.ipfixWorker_canonical`), every datagram sequence (arbitrary octets and exporters: the `rxRead`
action), every initial cache, and EVERY schedule — every state `s` reachable from the initial state — in which at most
one worker was ever started (`s.workers.length ≤ 1`: workers are only ever appended to `s.workers`, one per
`Action.spawn`, and a worker that quits stays in the list as `halted`, see `Pipeline.step_workers_length`; so the
hypothesis says that the schedule contains at most one enabled `spawn`):

the datagrams are decoded in arrival order, and the cache against which the k-th received datagram is decoded is the
cache obtained by folding `K.decode` over the datagrams received before it, in arrival order, from the initial cache:
the list of `decoded id cache result` events (oldest first) is the prefix of length `n` of the sequential semantics
`decodeAll K c0 (arrivals s.log)`; the shared cache in `s` is the sequential cache after these `n` datagrams; and the
arrivals not decoded yet are exactly the pending ones (held by the worker in front of its `decode`, in the UDP channel,
in the read loop), in this order.

No hypothesis is needed on WHEN the worker is started (datagrams received earlier wait in the FIFO channel) nor on
quitting (the quit branch of the worker's `select`, `Action.work i true _` at `recvOrQuit`, is only taken between two
iterations: decoding stops, `n` stays); a worker that is started before the first datagram and never quits is a special
case.  With two workers the statement is false: `k5_two_workers_not_in_order`.
Proof: the invariant `Pipeline.Seq` over `Reach` (`Proofs/PipelineSeq.lean`). -/
theorem one_worker_in_order (hc : Canonical spec cfg.prog) {c0 : K.Cache} {mem0 : BufId → Bytes} {s : State K}
    (hr : Reach cfg (init K c0 mem0) s) (h1 : s.workers.length ≤ 1) :
    ∃ n, n ≤ (arrivals s.log).length ∧
      decodes s.log = (decodeAll K c0 (arrivals s.log)).take n ∧
      s.cache = cacheAfter K c0 ((arrivals s.log).take n) ∧
      (arrivals s.log).drop n = pending s :=
  (reach_seq hc hr h1).in_order

/-- the same over action lists: every schedule `acts` (any interleaving of read-loop steps with arbitrary datagrams,
worker steps with or without the quit flag, mirror and MQ consumer steps; disabled actions are skipped) that contains at
most one `spawn` — in particular `spawn` first, then anything without a `spawn` -/
theorem one_worker_in_order_schedule (hc : Canonical spec cfg.prog) (c0 : K.Cache) (mem0 : BufId → Bytes)
    (acts : List Action) (h1 : acts.countP Action.isSpawn ≤ 1) :
    ∃ n, n ≤ (arrivals (run cfg (init K c0 mem0) acts).log).length ∧
      decodes (run cfg (init K c0 mem0) acts).log =
        (decodeAll K c0 (arrivals (run cfg (init K c0 mem0) acts).log)).take n ∧
      (run cfg (init K c0 mem0) acts).cache =
        cacheAfter K c0 ((arrivals (run cfg (init K c0 mem0) acts).log).take n) ∧
      (arrivals (run cfg (init K c0 mem0) acts).log).drop n = pending (run cfg (init K c0 mem0) acts) := by
  refine one_worker_in_order hc (reach_run cfg _ acts) ?_
  have := run_workers_length cfg (init K c0 mem0) acts
  simp only [init, List.length_nil, Nat.zero_add] at this
  exact Nat.le_trans this h1

/-- once nothing is pending (UDP channel empty, read loop between two datagrams, the worker past its decode) every
received datagram has been decoded, in order -/
theorem one_worker_all_decoded (hc : Canonical spec cfg.prog) {c0 : K.Cache} {mem0 : BufId → Bytes} {s : State K}
    (hr : Reach cfg (init K c0 mem0) s) (h1 : s.workers.length ≤ 1) (hp : pending s = []) :
    decodes s.log = decodeAll K c0 (arrivals s.log) ∧ s.cache = cacheAfter K c0 (arrivals s.log) := by
  obtain ⟨n, hn, h2, h3, h4⟩ := one_worker_in_order hc hr h1
  rw [hp, List.drop_eq_nil_iff] at h4
  have hn' : n = (arrivals s.log).length := Nat.le_antisymm hn h4
  subst hn'
  rw [List.take_length] at h3
  rw [h2, h3]
  refine ⟨List.take_of_length_le ?_, rfl⟩
  rw [decodeAll_length]; exact Nat.le_refl _

/-- **C04 at the collector, one worker (what is published)**: every published payload is the outcome (decode, has
data, marshal) of the k-th received datagram decoded against the cache the sequential semantics has after the first `k`
arrivals — `k` being the position of that datagram in the arrival order -/
theorem one_worker_published_sequential (hc : Canonical spec cfg.prog) {c0 : K.Cache} {mem0 : BufId → Bytes}
    {s : State K} (hr : Reach cfg (init K c0 mem0) s) (h1 : s.workers.length ≤ 1)
    (id : Nat) (p : Bytes) (hp : Event.published id p ∈ s.log) :
    ∃ k d, (arrivals s.log)[k]? = some d ∧ d.id = id ∧
      outcome K (K.decode (cacheAfter K c0 ((arrivals s.log).take k)) d.addr d.bytes).1 = some p :=
  published_sequential hc hr h1 hp

/-! ### one worker, IPFIX: data is decoded with the same exporter's latest template

The premise is stated without any cache: `wfHistoryLatest` judges a history of (exporter, message) pairs in arrival
order against the list of announcements made so far (`histAnns`, wire order) — every data set must have been encoded
with the definition `latest` gives for (this exporter, this id), announcements earlier in the same message included
(falling back on what the initial cache `c0` holds when the exporter has not announced the id in this history; `c0 = []`:
a collector started without a cache file). -/

open Wire.Ipfix in
/-- the announcements of one set, in wire order -/
def setAnns (a : Bytes) : FlowSet → List Ann
  | .tpl ts _ => ts.map (fun t => (a, t.tid, t))
  | .optTpl ts _ => ts.map (fun t => (a, t.tid, t))
  | .data _ _ _ => []

/-- the announcements of the sets of a message -/
def setsAnns (a : Bytes) (sets : List Wire.Ipfix.FlowSet) : List Ann := sets.flatMap (setAnns a)

/-- the announcements of a history of (exporter, message) pairs, oldest first -/
def histAnns (h : List (Bytes × Wire.Ipfix.Msg)) : List Ann := h.flatMap (fun x => setsAnns x.1 x.2.sets)

/-- the latest definition announced in `anns` by exporter `a` under `id`, else what the initial cache holds -/
def latestOr (c0 : Cache) (anns : List Ann) (a : Bytes) (id : Nat) : Option Template :=
  match latest anns a id with
  | some t => some t
  | none => c0.lookup a id

open Wire.Ipfix in
/-- `Wire.Ipfix.wfSet` without its only reference to a cache (RFC 7011 shape of the set) -/
def wfSetShape : FlowSet → Bool
  | .tpl ts pad => !ts.isEmpty && ts.all wfTemplate && (wfTplPad pad && wfSetLen (ts.map encodeTemplate).flatten pad)
  | .optTpl ts pad => !ts.isEmpty && ts.all wfOptTemplate && (wfTplPad pad && wfSetLen (ts.map encodeOptTemplate).flatten pad)
  | .data t records pad =>
    decide (255 < t.tid) && decide (t.tid < 65536) &&
    !records.isEmpty && records.all (wfRecord t) &&
    (wfDataPad t pad && wfSetLen (records.map (encodeRecord t)).flatten pad)

/-- a data set is encoded with the latest definition its exporter announced under its id -/
def usesLatest (c0 : Cache) (anns : List Ann) (a : Bytes) : Wire.Ipfix.FlowSet → Bool
  | .data t _ _ => latestOr c0 anns a t.tid == some t
  | _ => true

def wfSetsLatest (c0 : Cache) (a : Bytes) : List Ann → List Wire.Ipfix.FlowSet → Bool
  | _, [] => true
  | anns, fs :: rest => wfSetShape fs && usesLatest c0 anns a fs && wfSetsLatest c0 a (anns ++ setAnns a fs) rest

def wfMsgLatest (c0 : Cache) (a : Bytes) (anns : List Ann) (m : Wire.Ipfix.Msg) : Bool :=
  decide (Wire.Ipfix.msgLen m < 65536) && decide (m.exportTime < 4294967296) &&
  decide (m.seq < 4294967296) && decide (m.domain < 4294967296) && wfSetsLatest c0 a anns m.sets

/-- **the cache-free premise**: every message has the RFC 7011 shape and every data set is encoded with the latest
definition announced before it, in arrival order, by the same exporter under the same id (`anns`: the announcements
made before the history starts) -/
def wfHistoryLatest (c0 : Cache) : List Ann → List (Bytes × Wire.Ipfix.Msg) → Bool
  | _, [] => true
  | anns, (a, m) :: h => wfMsgLatest c0 a anns m && wfHistoryLatest c0 (anns ++ setsAnns a m.sets) h

/-- the records of the data sets of a message, each read with the template the set was encoded with, in wire order -/
def dataRecs (m : Wire.Ipfix.Msg) : List Record :=
  m.sets.flatMap (fun
    | .data t records _ => records.map (Wire.Ipfix.expectedRecord t)
    | _ => [])

theorem runAnn_append (c : Cache) (x y : List Ann) : runAnn c (x ++ y) = runAnn (runAnn c x) y := by
  simp [runAnn, List.foldl_append]

theorem insertAll_eq_runAnn (a : Bytes) (c : Cache) (ts : List Template) :
    Wire.insertAll a c ts = runAnn c (ts.map (fun t => (a, t.tid, t))) := by
  simp [Wire.insertAll, runAnn, List.foldl_map]

/-- the cache after a set is the cache after its announcements -/
theorem applySet_cache (a : Bytes) (r : List Record) (c : Cache) (fs : Wire.Ipfix.FlowSet) :
    (Wire.Ipfix.applySet a (r, c) fs).2 = runAnn c (setAnns a fs) := by
  cases fs <;> simp [Wire.Ipfix.applySet, setAnns, insertAll_eq_runAnn, runAnn]

theorem foldl_applySet (a : Bytes) (sets : List Wire.Ipfix.FlowSet) : ∀ (r : List Record) (c : Cache),
    sets.foldl (Wire.Ipfix.applySet a) (r, c) =
      (r ++ dataRecs ⟨0, 0, 0, sets⟩, runAnn c (setsAnns a sets)) := by
  induction sets with
  | nil => intro r c; simp [dataRecs, setsAnns, runAnn]
  | cons fs rest ih =>
    intro r c
    have h2 := applySet_cache a r c fs
    have h1 : (Wire.Ipfix.applySet a (r, c) fs).1 = r ++ dataRecs ⟨0, 0, 0, [fs]⟩ := by
      cases fs <;> simp [Wire.Ipfix.applySet, dataRecs]
    rw [List.foldl_cons, ← Prod.eta (Wire.Ipfix.applySet a (r, c) fs), h1, h2, ih]
    simp [dataRecs, setsAnns, runAnn_append]

/-- what the specification `Wire.Ipfix.expected` says, in terms of announcements: the records are those of the data
sets, the cache is the cache after the message's announcements -/
theorem expected_eq (a : Bytes) (c : Cache) (m : Wire.Ipfix.Msg) :
    Wire.Ipfix.expected a c m = (dataRecs m, runAnn c (setsAnns a m.sets)) := by
  simp only [Wire.Ipfix.expected, foldl_applySet, List.nil_append]
  rfl

theorem ids16_append {x y : List Ann} (hx : Ids16 x) (hy : Ids16 y) : Ids16 (x ++ y) := by
  intro e he
  rcases List.mem_append.mp he with h | h
  · exact hx e h
  · exact hy e h

/-- announced template ids are 16-bit in a set of RFC shape -/
theorem ids16_setAnns (a : Bytes) (fs : Wire.Ipfix.FlowSet) (h : wfSetShape fs = true) : Ids16 (setAnns a fs) := by
  intro e he
  cases fs with
  | tpl ts pad =>
    simp only [setAnns, List.mem_map] at he
    obtain ⟨t, ht, rfl⟩ := he
    simp only [wfSetShape, Bool.and_eq_true, List.all_eq_true] at h
    have := h.1.2 t ht
    simp only [Wire.Ipfix.wfTemplate, Bool.and_eq_true, decide_eq_true_eq] at this
    exact this.1.1.1.1.1.1.2
  | optTpl ts pad =>
    simp only [setAnns, List.mem_map] at he
    obtain ⟨t, ht, rfl⟩ := he
    simp only [wfSetShape, Bool.and_eq_true, List.all_eq_true] at h
    have := h.1.2 t ht
    simp only [Wire.Ipfix.wfOptTemplate, Bool.and_eq_true, decide_eq_true_eq] at this
    exact this.1.1.1.1.1.2
  | data t records pad => simp [setAnns] at he

/-- one set: judged against the concrete cache after the announcements `anns` = RFC shape ∧ encoded with the latest
definition (`refinement`) -/
theorem wfSet_eq (c0 : Cache) (a : Bytes) (anns : List Ann) (hi : Ids16 anns) (fs : Wire.Ipfix.FlowSet) :
    Wire.Ipfix.wfSet a (runAnn c0 anns) fs = (wfSetShape fs && usesLatest c0 anns a fs) := by
  cases fs with
  | tpl ts pad => simp [Wire.Ipfix.wfSet, wfSetShape, usesLatest]
  | optTpl ts pad => simp [Wire.Ipfix.wfSet, wfSetShape, usesLatest]
  | data t records pad =>
    simp only [Wire.Ipfix.wfSet, wfSetShape, usesLatest, latestOr]
    by_cases hid : t.tid < 65536
    · rw [refinement anns a t.tid hi hid c0]
      generalize decide (255 < t.tid) = b1
      generalize decide (t.tid < 65536) = b2
      generalize ((match latest anns a t.tid with | some t => some t | none => c0.lookup a t.tid) == some t) = b3
      generalize (!records.isEmpty) = b4
      generalize records.all (Wire.Ipfix.wfRecord t) = b5
      generalize (Wire.Ipfix.wfDataPad t pad && Wire.Ipfix.wfSetLen (records.map (Wire.Ipfix.encodeRecord t)).flatten pad) = b6
      cases b1 <;> cases b2 <;> cases b3 <;> cases b4 <;> cases b5 <;> cases b6 <;> rfl
    · simp [hid]

theorem wfSets_eq (c0 : Cache) (a : Bytes) (sets : List Wire.Ipfix.FlowSet) : ∀ (anns : List Ann), Ids16 anns →
    Wire.Ipfix.wfSets a (runAnn c0 anns) sets = wfSetsLatest c0 a anns sets := by
  induction sets with
  | nil => intro _ _; rfl
  | cons fs rest ih =>
    intro anns hi
    simp only [Wire.Ipfix.wfSets, wfSetsLatest, wfSet_eq c0 a anns hi, applySet_cache, ← runAnn_append]
    cases hs : wfSetShape fs with
    | false => simp
    | true => rw [ih _ (ids16_append hi (ids16_setAnns a fs hs))]

theorem ids16_setsAnns (c0 : Cache) (a : Bytes) (sets : List Wire.Ipfix.FlowSet) : ∀ (anns : List Ann),
    wfSetsLatest c0 a anns sets = true → Ids16 (setsAnns a sets) := by
  induction sets with
  | nil => intro _ _ e he; simp [setsAnns] at he
  | cons fs rest ih =>
    intro anns h
    simp only [wfSetsLatest, Bool.and_eq_true] at h
    have := ids16_append (ids16_setAnns a fs h.1.1) (ih _ h.2)
    simpa [setsAnns] using this

theorem wfMsg_eq (c0 : Cache) (a : Bytes) (anns : List Ann) (hi : Ids16 anns) (m : Wire.Ipfix.Msg) :
    Wire.Ipfix.wfMsg a (runAnn c0 anns) m = wfMsgLatest c0 a anns m := by
  simp only [Wire.Ipfix.wfMsg, wfMsgLatest, wfSets_eq c0 a m.sets anns hi]

/-- **the two premises are one** (`refinement` lifted to histories of whole messages): judged against the concrete
cache as the sequential decoder leaves it (`ipfixWfHistory`, the premise of `ipfix_history_roundtrip`) = RFC shape ∧
every data set encoded with the latest definition its exporter announced (`wfHistoryLatest`, no cache) -/
theorem wfHistory_eq_latest (c0 : Cache) (h : List (Bytes × Wire.Ipfix.Msg)) : ∀ (anns : List Ann), Ids16 anns →
    ipfixWfHistory (runAnn c0 anns) h = wfHistoryLatest c0 anns h := by
  induction h with
  | nil => intro _ _; rfl
  | cons x xs ih =>
    intro anns hi
    obtain ⟨a, m⟩ := x
    simp only [ipfixWfHistory, wfHistoryLatest, wfMsg_eq c0 a anns hi, expected_eq, ← runAnn_append]
    cases hm : wfMsgLatest c0 a anns m with
    | false => simp
    | true =>
      simp only [wfMsgLatest, Bool.and_eq_true] at hm
      rw [ih _ (ids16_append hi (ids16_setsAnns c0 a m.sets anns hm.2))]

theorem ipfixExpectedRun_cache (h : List (Bytes × Wire.Ipfix.Msg)) : ∀ c : Cache,
    (ipfixExpectedRun c h).2 = runAnn c (histAnns h) := by
  induction h with
  | nil => intro c; rfl
  | cons x xs ih =>
    intro c
    obtain ⟨a, m⟩ := x
    simp only [ipfixExpectedRun, ih, expected_eq]
    simp [histAnns, runAnn_append]

/-- the k-th message of a well-formed history is well formed against the cache the first k messages leave -/
theorem wfHistory_index (h : List (Bytes × Wire.Ipfix.Msg)) : ∀ (k : Nat) (c : Cache) (a : Bytes) (m : Wire.Ipfix.Msg),
    ipfixWfHistory c h = true → h[k]? = some (a, m) →
    ipfixWfHistory c (h.take k) = true ∧ Wire.Ipfix.wfMsg a (ipfixExpectedRun c (h.take k)).2 m = true := by
  induction h with
  | nil => intro k c a m _ hk; simp at hk
  | cons x xs ih =>
    intro k c a m hw hk
    obtain ⟨a0, m0⟩ := x
    simp only [ipfixWfHistory, Bool.and_eq_true] at hw
    cases k with
    | zero =>
      simp at hk
      obtain ⟨rfl, rfl⟩ := hk
      exact ⟨rfl, hw.1⟩
    | succ k =>
      simp at hk
      obtain ⟨h1, h2⟩ := ih k _ a m hw.2 hk
      simp only [List.take_succ_cons, ipfixWfHistory, ipfixExpectedRun, Bool.and_eq_true]
      exact ⟨⟨hw.1, h1⟩, h2⟩

/-- the j-th set of a message of the history uses the latest definition announced before it -/
theorem wfSetsLatest_index (c0 : Cache) (a : Bytes) (sets : List Wire.Ipfix.FlowSet) :
    ∀ (j : Nat) (anns : List Ann) (fs : Wire.Ipfix.FlowSet),
    wfSetsLatest c0 a anns sets = true → sets[j]? = some fs →
    usesLatest c0 (anns ++ setsAnns a (sets.take j)) a fs = true := by
  induction sets with
  | nil => intro j anns fs _ hj; simp at hj
  | cons x xs ih =>
    intro j anns fs hw hj
    simp only [wfSetsLatest, Bool.and_eq_true] at hw
    cases j with
    | zero =>
      simp at hj; subst hj
      simpa [setsAnns] using hw.1.2
    | succ j =>
      simp at hj
      have := ih j _ fs hw.2 hj
      simpa [setsAnns, List.append_assoc] using this

theorem wfHistoryLatest_index (c0 : Cache) (h : List (Bytes × Wire.Ipfix.Msg)) :
    ∀ (k : Nat) (anns : List Ann) (a : Bytes) (m : Wire.Ipfix.Msg),
    wfHistoryLatest c0 anns h = true → h[k]? = some (a, m) →
    wfMsgLatest c0 a (anns ++ histAnns (h.take k)) m = true := by
  induction h with
  | nil => intro k anns a m _ hk; simp at hk
  | cons x xs ih =>
    intro k anns a m hw hk
    obtain ⟨a0, m0⟩ := x
    simp only [wfHistoryLatest, Bool.and_eq_true] at hw
    cases k with
    | zero =>
      simp at hk
      obtain ⟨rfl, rfl⟩ := hk
      simpa [histAnns] using hw.1
    | succ k =>
      simp at hk
      have := ih k _ a m hw.2 hk
      simpa [histAnns, List.append_assoc] using this

/-- the cache part of the IPFIX codec of the pipeline is the decoder model's -/
theorem ipfixCodec_decode_cache (ft : Val → Bytes) (c : Cache) (a bs : Bytes) :
    ((C05.ipfixCodec ft).decode c a bs).2 = (Ipfix.decode c a bs).2 := by
  show (match Ipfix.decode c a bs with
    | (.ok (h, recs, _), c') => (some (a, h, recs), c')
    | (.error _, c') => (none, c')).2 = _
  split <;> rename_i heq <;> rw [heq]

/-- the sequential semantics of the pipeline's IPFIX codec over datagrams that are the encodings of `h` is `ipfixRun` -/
theorem cacheAfter_ipfixRun (ft : Val → Bytes) (ds : List Dgram) : ∀ (h : List (Bytes × Wire.Ipfix.Msg)) (c : Cache),
    ds.map (fun d => (d.addr, d.bytes)) = h.map (fun x => (x.1, Wire.Ipfix.encodeMsg x.2)) →
    cacheAfter (C05.ipfixCodec ft) c ds = (ipfixRun c h).2 := by
  induction ds with
  | nil =>
    intro h c he
    cases h with
    | nil => rfl
    | cons _ _ => simp at he
  | cons d ds ih =>
    intro h c he
    cases h with
    | nil => simp at he
    | cons x xs =>
      obtain ⟨a, m⟩ := x
      simp only [List.map_cons, List.cons.injEq, Prod.mk.injEq] at he
      obtain ⟨⟨ha, hb⟩, hrest⟩ := he
      show cacheAfter (C05.ipfixCodec ft) (((C05.ipfixCodec ft).decode c d.addr d.bytes).2) ds = _
      rw [ipfixCodec_decode_cache, ih xs _ hrest, ha, hb]
      rfl

open Vflow.Spec Vflow.JsonTree Vflow.JsonLex in
/-- **C04 at the collector with one worker (IPFIX)**: the pipeline's codec is the IPFIX decoder / marshal model
(`C05.ipfixCodec`), the worker program any `Canonical` one (`Gen.ipfixWorker`: `C12.ipfixWorker_canonical`), the initial
cache `c0` arbitrary, and at most one worker is ever started (`one_worker_in_order`).  Let the first datagrams received
(`arrivals`, in arrival order; any number of exporters, interleaved in any way) be the RFC 7011 encodings of a history `h`
in which every data set is encoded with the LATEST definition announced before it, in arrival order, by the same exporter
under the same template id (`wfHistoryLatest c0 [] h`: no cache in the premise; whatever is received after `h` is
arbitrary).  Then for EVERY schedule, whatever is published for the k-th datagram, `h[k] = (a, m)`, is the rendering of
the tree of `m`'s header and of exactly the records of `m`'s data sets, each read with the template `t` its set was
encoded with (`dataRecs`), in wire order — and that `t` is the latest definition exporter `a` announced under `t.tid`
before that set (in the `k` earlier datagrams or earlier in `m`), or what the initial cache held if it announced none.

Chain: `one_worker_published_sequential` (the worker decodes the k-th datagram against the sequentially threaded cache) ∘
`ipfix_history_roundtrip` (the sequential decoder on a well-formed history) ∘ `wfHistory_eq_latest` (= `refinement`: the
concrete cache returns the latest announcement) ∘ `C05.ipfix_wellformed_published` (C03 roundtrip and the marshal model).
With two workers the conclusion fails for the very history of `k5_two_workers_counterexample_ipfix`
(`k5_history_wf`). -/
theorem one_worker_latest_template (ft : Val → Bytes) (hc : Canonical spec cfg.prog) {c0 : Cache}
    {mem0 : BufId → Bytes} {s : State (C05.ipfixCodec ft)}
    (hr : Reach cfg (init (C05.ipfixCodec ft) c0 mem0) s) (h1 : s.workers.length ≤ 1)
    (h : List (Bytes × Wire.Ipfix.Msg))
    (hrecv : h.map (fun x => (x.1, Wire.Ipfix.encodeMsg x.2)) <+: (arrivals s.log).map (fun d => (d.addr, d.bytes)))
    (hwf : wfHistoryLatest c0 [] h = true)
    (id : Nat) (p : Bytes) (hp : Event.published id p ∈ s.log) :
    ∃ k d, (arrivals s.log)[k]? = some d ∧ d.id = id ∧
      ∀ a m, h[k]? = some (a, m) →
        d.addr = a ∧ d.bytes = Wire.Ipfix.encodeMsg m ∧
        p = render (JsonTree.ipfixTree a (Wire.Ipfix.expectedHdr m) (C05.toJRecs ft (dataRecs m))) ∧
        ∀ j t records pad, m.sets[j]? = some (.data t records pad) →
          latestOr c0 (histAnns (h.take k) ++ setsAnns a (m.sets.take j)) a t.tid = some t := by
  obtain ⟨k, d, hk, hid, hout⟩ := published_sequential hc hr h1 hp
  refine ⟨k, d, hk, hid, ?_⟩
  intro a m hkm
  have hnil : Ids16 [] := by intro e he; simp at he
  have hwf' : ipfixWfHistory c0 h = true := by
    have := wfHistory_eq_latest c0 h [] hnil
    rw [hwf] at this; exact this
  obtain ⟨hpre, hm⟩ := wfHistory_index h k c0 a m hwf' hkm
  obtain ⟨rest, hrest⟩ := hrecv
  have hklt : k < h.length := by
    rcases Nat.lt_or_ge k h.length with hl | hl
    · exact hl
    · rw [List.getElem?_eq_none hl] at hkm; simp at hkm
  -- the k-th datagram is the encoding of `m` from `a`
  have hkd : ((arrivals s.log).map (fun d => (d.addr, d.bytes)))[k]? = some (a, Wire.Ipfix.encodeMsg m) := by
    rw [← hrest, List.getElem?_append_left (by simpa using hklt)]
    simp [hkm]
  rw [List.getElem?_map, hk] at hkd
  simp only [Option.map_some, Option.some.injEq, Prod.mk.injEq] at hkd
  obtain ⟨haddr, hbytes⟩ := hkd
  -- the first k datagrams are the encodings of the first k messages
  have htake : ((arrivals s.log).take k).map (fun d => (d.addr, d.bytes)) =
      (h.take k).map (fun x => (x.1, Wire.Ipfix.encodeMsg x.2)) := by
    rw [List.map_take, ← hrest, List.take_append_of_le_length (by simpa using Nat.le_of_lt hklt), ← List.map_take]
  have hcache : cacheAfter (C05.ipfixCodec ft) c0 ((arrivals s.log).take k) = (ipfixExpectedRun c0 (h.take k)).2 := by
    rw [cacheAfter_ipfixRun ft _ (h.take k) c0 htake, ipfix_history_roundtrip _ _ hpre]
  rw [hcache, haddr, hbytes] at hout
  refine ⟨haddr, hbytes, ?_, ?_⟩
  · have hrecs : (Wire.Ipfix.expected a (ipfixExpectedRun c0 (h.take k)).2 m).1 = dataRecs m := by rw [expected_eq]
    by_cases hne : (Wire.Ipfix.expected a (ipfixExpectedRun c0 (h.take k)).2 m).1 = []
    · -- a message without data records is not published
      have hdec := Ipfix.decode_roundtrip _ a m hm
      simp only [C05.ipfixCodec, hdec, outcome, Option.bind_some, hne] at hout
      simp at hout
    · have := C05.ipfix_wellformed_published ft _ a m hm hne
      rw [hout, hrecs] at this
      exact Option.some.inj this
  · intro j t records pad hj
    have h2 := wfHistoryLatest_index c0 h k [] a m hwf hkm
    simp only [wfMsgLatest, Bool.and_eq_true] at h2
    have h3 := wfSetsLatest_index c0 a m.sets j _ _ h2.2 hj
    simp only [usesLatest, List.nil_append, beq_iff_eq] at h3
    exact h3

/-- … with the worker loop the current source has, a collector started with an empty cache, and the whole arrival
sequence well formed: `latest` itself -/
theorem one_worker_latest_template_current_source (ft : Val → Bytes) (hprog : cfg.prog = Gen.ipfixWorker)
    {mem0 : BufId → Bytes} {s : State (C05.ipfixCodec ft)}
    (hr : Reach cfg (init (C05.ipfixCodec ft) [] mem0) s) (h1 : s.workers.length ≤ 1)
    (h : List (Bytes × Wire.Ipfix.Msg))
    (hrecv : (arrivals s.log).map (fun d => (d.addr, d.bytes)) = h.map (fun x => (x.1, Wire.Ipfix.encodeMsg x.2)))
    (hwf : wfHistoryLatest [] [] h = true)
    (id : Nat) (p : Bytes) (hp : Event.published id p ∈ s.log) :
    ∃ k d a m, (arrivals s.log)[k]? = some d ∧ d.id = id ∧ h[k]? = some (a, m) ∧
      p = Spec.render (JsonTree.ipfixTree a (Wire.Ipfix.expectedHdr m) (C05.toJRecs ft (dataRecs m))) ∧
      ∀ j t records pad, m.sets[j]? = some (.data t records pad) →
        latest (histAnns (h.take k) ++ setsAnns a (m.sets.take j)) a t.tid = some t := by
  have hc : Canonical .onMsg cfg.prog := by rw [hprog]; exact ipfixWorker_canonical
  obtain ⟨k, d, hk, hid, hall⟩ := one_worker_latest_template ft hc hr h1 h (by rw [hrecv]; exact List.prefix_refl _) hwf id p hp
  have hlen : k < h.length := by
    have : k < (arrivals s.log).length := by
      rcases Nat.lt_or_ge k (arrivals s.log).length with hl | hl
      · exact hl
      · rw [List.getElem?_eq_none hl] at hk; simp at hk
    have e := congrArg List.length hrecv
    simp only [List.length_map] at e
    omega
  obtain ⟨⟨a, m⟩, hkm⟩ : ∃ x, h[k]? = some x := ⟨h[k], List.getElem?_eq_getElem hlen⟩
  obtain ⟨_, _, hp', hl⟩ := hall a m hkm
  refine ⟨k, d, a, m, hk, hid, hkm, hp', ?_⟩
  intro j t records pad hj
  have := hl j t records pad hj
  simp only [latestOr] at this
  cases hlat : latest (histAnns (h.take k) ++ setsAnns a (m.sets.take j)) a t.tid with
  | some t' => rw [hlat] at this; exact this
  | none => rw [hlat] at this; simp [Cache.lookup] at this

/-- the history of the K5 witness satisfies the premise of `one_worker_latest_template` (the data set is encoded with
definition B, the exporter's latest) — with two workers its conclusion fails (`k5_two_workers_counterexample_ipfix`:
published as element 8) — and the same data set encoded with the superseded definition A does not -/
theorem k5_history_wf :
    wfHistoryLatest [] [] [([192, 0, 2, 1], k5MsgA), ([192, 0, 2, 1], k5MsgB), ([192, 0, 2, 1], k5MsgD)] = true ∧
    dataRecs k5MsgD = [[⟨12, 0, .ip [10, 0, 0, 9]⟩]] ∧
    wfHistoryLatest [] [] [([192, 0, 2, 1], k5MsgA), ([192, 0, 2, 1], k5MsgB),
      ([192, 0, 2, 1], ⟨1002, 0, 1, [.data k5TplA [[⟨[10, 0, 0, 9], false⟩]] []]⟩)] = false := by
  decide +kernel

/-! ### one worker, NetFlow v9: the same chain for the v9 instance of the pipeline's codec (`C05.v9Codec`)

The twins of the IPFIX definitions over `Wire.V9.Msg` carry the suffix `V9`; `Ann`, `latest`, `latestOr`, `runAnn`,
`refinement` are shared (one `Cache` serves both decoder models). -/

open Wire.V9 in
/-- the announcements of one flowset, in wire order -/
def setAnnsV9 (a : Bytes) : FlowSet → List Ann
  | .tpl ts _ => ts.map (fun t => (a, t.tid, t))
  | .optTpl ts _ => ts.map (fun t => (a, t.tid, t))
  | .data _ _ _ => []

/-- the announcements of the flowsets of an export packet -/
def setsAnnsV9 (a : Bytes) (sets : List Wire.V9.FlowSet) : List Ann := sets.flatMap (setAnnsV9 a)

/-- the announcements of a history of (exporter, export packet) pairs, oldest first -/
def histAnnsV9 (h : List (Bytes × Wire.V9.Msg)) : List Ann := h.flatMap (fun x => setsAnnsV9 x.1 x.2.sets)

open Wire.V9 in
/-- `Wire.V9.wfSet` without its only reference to a cache (RFC 3954 shape of the flowset) -/
def wfSetShapeV9 : FlowSet → Bool
  | .tpl ts pad => !ts.isEmpty && ts.all wfTemplate && (wfTplPad pad && wfSetLen (ts.map encodeTemplate).flatten pad)
  | .optTpl ts pad => !ts.isEmpty && ts.all wfOptTemplate && (wfTplPad pad && wfSetLen (ts.map encodeOptTemplate).flatten pad)
  | .data t records pad =>
    decide (255 < t.tid) && decide (t.tid < 65536) &&
    decide (0 < recLen t) && !records.isEmpty && records.all (wfRecord t) &&
    (wfDataPad t pad && wfSetLen (records.map (encodeRecord t)).flatten pad)

/-- a data flowset is encoded with the latest definition its exporter announced under its id -/
def usesLatestV9 (c0 : Cache) (anns : List Ann) (a : Bytes) : Wire.V9.FlowSet → Bool
  | .data t _ _ => latestOr c0 anns a t.tid == some t
  | _ => true

def wfSetsLatestV9 (c0 : Cache) (a : Bytes) : List Ann → List Wire.V9.FlowSet → Bool
  | _, [] => true
  | anns, fs :: rest => wfSetShapeV9 fs && usesLatestV9 c0 anns a fs && wfSetsLatestV9 c0 a (anns ++ setAnnsV9 a fs) rest

def wfMsgLatestV9 (c0 : Cache) (a : Bytes) (anns : List Ann) (m : Wire.V9.Msg) : Bool :=
  decide (m.count < 65536) && decide (m.upTime < 4294967296) && decide (m.secs < 4294967296) &&
  decide (m.seq < 4294967296) && decide (m.srcId < 4294967296) && wfSetsLatestV9 c0 a anns m.sets

/-- **the cache-free premise, NetFlow v9**: every export packet has the RFC 3954 shape and every data flowset is encoded
with the latest definition announced before it, in arrival order, by the same exporter under the same id (`anns`: the
announcements made before the history starts) -/
def wfHistoryLatestV9 (c0 : Cache) : List Ann → List (Bytes × Wire.V9.Msg) → Bool
  | _, [] => true
  | anns, (a, m) :: h => wfMsgLatestV9 c0 a anns m && wfHistoryLatestV9 c0 (anns ++ setsAnnsV9 a m.sets) h

/-- the records of the data flowsets of an export packet, each read with the template the flowset was encoded with, in
wire order -/
def dataRecsV9 (m : Wire.V9.Msg) : List Record :=
  m.sets.flatMap (fun
    | .data t records _ => records.map (Wire.expectedRecord t)
    | _ => [])

/-- the cache after a flowset is the cache after its announcements -/
theorem applySetV9_cache (a : Bytes) (r : List Record) (c : Cache) (fs : Wire.V9.FlowSet) :
    (Wire.V9.applySet a (r, c) fs).2 = runAnn c (setAnnsV9 a fs) := by
  cases fs <;> simp [Wire.V9.applySet, setAnnsV9, insertAll_eq_runAnn, runAnn]

theorem foldl_applySetV9 (a : Bytes) (sets : List Wire.V9.FlowSet) : ∀ (r : List Record) (c : Cache),
    sets.foldl (Wire.V9.applySet a) (r, c) =
      (r ++ dataRecsV9 ⟨0, 0, 0, 0, 0, sets⟩, runAnn c (setsAnnsV9 a sets)) := by
  induction sets with
  | nil => intro r c; simp [dataRecsV9, setsAnnsV9, runAnn]
  | cons fs rest ih =>
    intro r c
    have h2 := applySetV9_cache a r c fs
    have h1 : (Wire.V9.applySet a (r, c) fs).1 = r ++ dataRecsV9 ⟨0, 0, 0, 0, 0, [fs]⟩ := by
      cases fs <;> simp [Wire.V9.applySet, dataRecsV9]
    rw [List.foldl_cons, ← Prod.eta (Wire.V9.applySet a (r, c) fs), h1, h2, ih]
    simp [dataRecsV9, setsAnnsV9, runAnn_append]

/-- what the specification `Wire.V9.expected` says, in terms of announcements: the records are those of the data
flowsets, the cache is the cache after the packet's announcements -/
theorem expectedV9_eq (a : Bytes) (c : Cache) (m : Wire.V9.Msg) :
    Wire.V9.expected a c m = (dataRecsV9 m, runAnn c (setsAnnsV9 a m.sets)) := by
  simp only [Wire.V9.expected, foldl_applySetV9, List.nil_append]
  rfl

/-- announced template ids are 16-bit in a flowset of RFC shape -/
theorem ids16_setAnnsV9 (a : Bytes) (fs : Wire.V9.FlowSet) (h : wfSetShapeV9 fs = true) : Ids16 (setAnnsV9 a fs) := by
  intro e he
  cases fs with
  | tpl ts pad =>
    simp only [setAnnsV9, List.mem_map] at he
    obtain ⟨t, ht, rfl⟩ := he
    simp only [wfSetShapeV9, Bool.and_eq_true, List.all_eq_true] at h
    have := h.1.2 t ht
    simp only [Wire.V9.wfTemplate, Bool.and_eq_true, decide_eq_true_eq] at this
    exact this.1.1.1.1.1.1
  | optTpl ts pad =>
    simp only [setAnnsV9, List.mem_map] at he
    obtain ⟨t, ht, rfl⟩ := he
    simp only [wfSetShapeV9, Bool.and_eq_true, List.all_eq_true] at h
    have := h.1.2 t ht
    simp only [Wire.V9.wfOptTemplate, Bool.and_eq_true, decide_eq_true_eq] at this
    exact this.1.1.1.1.1.1
  | data t records pad => simp [setAnnsV9] at he

/-- one flowset: judged against the concrete cache after the announcements `anns` = RFC shape ∧ encoded with the latest
definition (`refinement`) -/
theorem wfSetV9_eq (c0 : Cache) (a : Bytes) (anns : List Ann) (hi : Ids16 anns) (fs : Wire.V9.FlowSet) :
    Wire.V9.wfSet a (runAnn c0 anns) fs = (wfSetShapeV9 fs && usesLatestV9 c0 anns a fs) := by
  cases fs with
  | tpl ts pad => simp [Wire.V9.wfSet, wfSetShapeV9, usesLatestV9]
  | optTpl ts pad => simp [Wire.V9.wfSet, wfSetShapeV9, usesLatestV9]
  | data t records pad =>
    simp only [Wire.V9.wfSet, wfSetShapeV9, usesLatestV9, latestOr]
    by_cases hid : t.tid < 65536
    · rw [refinement anns a t.tid hi hid c0]
      generalize decide (255 < t.tid) = b1
      generalize decide (t.tid < 65536) = b2
      generalize ((match latest anns a t.tid with | some t => some t | none => c0.lookup a t.tid) == some t) = b3
      generalize decide (0 < Wire.V9.recLen t) = b4
      generalize (!records.isEmpty) = b5
      generalize records.all (Wire.V9.wfRecord t) = b6
      generalize (Wire.V9.wfDataPad t pad && Wire.V9.wfSetLen (records.map (Wire.V9.encodeRecord t)).flatten pad) = b7
      cases b1 <;> cases b2 <;> cases b3 <;> cases b4 <;> cases b5 <;> cases b6 <;> cases b7 <;> rfl
    · simp [hid]

theorem wfSetsV9_eq (c0 : Cache) (a : Bytes) (sets : List Wire.V9.FlowSet) : ∀ (anns : List Ann), Ids16 anns →
    Wire.V9.wfSets a (runAnn c0 anns) sets = wfSetsLatestV9 c0 a anns sets := by
  induction sets with
  | nil => intro _ _; rfl
  | cons fs rest ih =>
    intro anns hi
    simp only [Wire.V9.wfSets, wfSetsLatestV9, wfSetV9_eq c0 a anns hi, applySetV9_cache, ← runAnn_append]
    cases hs : wfSetShapeV9 fs with
    | false => simp
    | true => rw [ih _ (ids16_append hi (ids16_setAnnsV9 a fs hs))]

theorem ids16_setsAnnsV9 (c0 : Cache) (a : Bytes) (sets : List Wire.V9.FlowSet) : ∀ (anns : List Ann),
    wfSetsLatestV9 c0 a anns sets = true → Ids16 (setsAnnsV9 a sets) := by
  induction sets with
  | nil => intro _ _ e he; simp [setsAnnsV9] at he
  | cons fs rest ih =>
    intro anns h
    simp only [wfSetsLatestV9, Bool.and_eq_true] at h
    have := ids16_append (ids16_setAnnsV9 a fs h.1.1) (ih _ h.2)
    simpa [setsAnnsV9] using this

theorem wfMsgV9_eq (c0 : Cache) (a : Bytes) (anns : List Ann) (hi : Ids16 anns) (m : Wire.V9.Msg) :
    Wire.V9.wfMsg a (runAnn c0 anns) m = wfMsgLatestV9 c0 a anns m := by
  simp only [Wire.V9.wfMsg, wfMsgLatestV9, wfSetsV9_eq c0 a m.sets anns hi]

/-- **the two premises are one, NetFlow v9** (`refinement` lifted to histories of whole export packets): judged against
the concrete cache as the sequential decoder leaves it (`v9WfHistory`, the premise of `v9_history_roundtrip`) = RFC shape ∧
every data flowset encoded with the latest definition its exporter announced (`wfHistoryLatestV9`, no cache) -/
theorem wfHistoryV9_eq_latest (c0 : Cache) (h : List (Bytes × Wire.V9.Msg)) : ∀ (anns : List Ann), Ids16 anns →
    v9WfHistory (runAnn c0 anns) h = wfHistoryLatestV9 c0 anns h := by
  induction h with
  | nil => intro _ _; rfl
  | cons x xs ih =>
    intro anns hi
    obtain ⟨a, m⟩ := x
    simp only [v9WfHistory, wfHistoryLatestV9, wfMsgV9_eq c0 a anns hi, expectedV9_eq, ← runAnn_append]
    cases hm : wfMsgLatestV9 c0 a anns m with
    | false => simp
    | true =>
      simp only [wfMsgLatestV9, Bool.and_eq_true] at hm
      rw [ih _ (ids16_append hi (ids16_setsAnnsV9 c0 a m.sets anns hm.2))]

theorem v9ExpectedRun_cache (h : List (Bytes × Wire.V9.Msg)) : ∀ c : Cache,
    (v9ExpectedRun c h).2 = runAnn c (histAnnsV9 h) := by
  induction h with
  | nil => intro c; rfl
  | cons x xs ih =>
    intro c
    obtain ⟨a, m⟩ := x
    simp only [v9ExpectedRun, ih, expectedV9_eq]
    simp [histAnnsV9, runAnn_append]

/-- the k-th export packet of a well-formed history is well formed against the cache the first k packets leave -/
theorem wfHistoryV9_index (h : List (Bytes × Wire.V9.Msg)) : ∀ (k : Nat) (c : Cache) (a : Bytes) (m : Wire.V9.Msg),
    v9WfHistory c h = true → h[k]? = some (a, m) →
    v9WfHistory c (h.take k) = true ∧ Wire.V9.wfMsg a (v9ExpectedRun c (h.take k)).2 m = true := by
  induction h with
  | nil => intro k c a m _ hk; simp at hk
  | cons x xs ih =>
    intro k c a m hw hk
    obtain ⟨a0, m0⟩ := x
    simp only [v9WfHistory, Bool.and_eq_true] at hw
    cases k with
    | zero =>
      simp at hk
      obtain ⟨rfl, rfl⟩ := hk
      exact ⟨rfl, hw.1⟩
    | succ k =>
      simp at hk
      obtain ⟨h1, h2⟩ := ih k _ a m hw.2 hk
      simp only [List.take_succ_cons, v9WfHistory, v9ExpectedRun, Bool.and_eq_true]
      exact ⟨⟨hw.1, h1⟩, h2⟩

/-- the j-th flowset of a packet of the history uses the latest definition announced before it -/
theorem wfSetsLatestV9_index (c0 : Cache) (a : Bytes) (sets : List Wire.V9.FlowSet) :
    ∀ (j : Nat) (anns : List Ann) (fs : Wire.V9.FlowSet),
    wfSetsLatestV9 c0 a anns sets = true → sets[j]? = some fs →
    usesLatestV9 c0 (anns ++ setsAnnsV9 a (sets.take j)) a fs = true := by
  induction sets with
  | nil => intro j anns fs _ hj; simp at hj
  | cons x xs ih =>
    intro j anns fs hw hj
    simp only [wfSetsLatestV9, Bool.and_eq_true] at hw
    cases j with
    | zero =>
      simp at hj; subst hj
      simpa [setsAnnsV9] using hw.1.2
    | succ j =>
      simp at hj
      have := ih j _ fs hw.2 hj
      simpa [setsAnnsV9, List.append_assoc] using this

theorem wfHistoryLatestV9_index (c0 : Cache) (h : List (Bytes × Wire.V9.Msg)) :
    ∀ (k : Nat) (anns : List Ann) (a : Bytes) (m : Wire.V9.Msg),
    wfHistoryLatestV9 c0 anns h = true → h[k]? = some (a, m) →
    wfMsgLatestV9 c0 a (anns ++ histAnnsV9 (h.take k)) m = true := by
  induction h with
  | nil => intro k anns a m _ hk; simp at hk
  | cons x xs ih =>
    intro k anns a m hw hk
    obtain ⟨a0, m0⟩ := x
    simp only [wfHistoryLatestV9, Bool.and_eq_true] at hw
    cases k with
    | zero =>
      simp at hk
      obtain ⟨rfl, rfl⟩ := hk
      simpa [histAnnsV9] using hw.1
    | succ k =>
      simp at hk
      have := ih k _ a m hw.2 hk
      simpa [histAnnsV9, List.append_assoc] using this

/-- the cache part of the NetFlow v9 codec of the pipeline is the decoder model's -/
theorem v9Codec_decode_cache (ft : Val → Bytes) (c : Cache) (a bs : Bytes) :
    ((C05.v9Codec ft).decode c a bs).2 = (V9.decode c a bs).2 := by
  show (match V9.decode c a bs with
    | (.ok (h, recs, _), c') => (some (a, h, recs), c')
    | (.error _, c') => (none, c')).2 = _
  split <;> rename_i heq <;> rw [heq]

/-- the sequential semantics of the pipeline's v9 codec over datagrams that are the encodings of `h` is `v9Run` -/
theorem cacheAfter_v9Run (ft : Val → Bytes) (ds : List Dgram) : ∀ (h : List (Bytes × Wire.V9.Msg)) (c : Cache),
    ds.map (fun d => (d.addr, d.bytes)) = h.map (fun x => (x.1, Wire.V9.encodeMsg x.2)) →
    cacheAfter (C05.v9Codec ft) c ds = (v9Run c h).2 := by
  induction ds with
  | nil =>
    intro h c he
    cases h with
    | nil => rfl
    | cons _ _ => simp at he
  | cons d ds ih =>
    intro h c he
    cases h with
    | nil => simp at he
    | cons x xs =>
      obtain ⟨a, m⟩ := x
      simp only [List.map_cons, List.cons.injEq, Prod.mk.injEq] at he
      obtain ⟨⟨ha, hb⟩, hrest⟩ := he
      show cacheAfter (C05.v9Codec ft) (((C05.v9Codec ft).decode c d.addr d.bytes).2) ds = _
      rw [v9Codec_decode_cache, ih xs _ hrest, ha, hb]
      rfl

open Vflow.Spec Vflow.JsonTree Vflow.JsonLex in
/-- **C04 at the collector with one worker (NetFlow v9)**: the pipeline's codec is the NetFlow v9 decoder / marshal model
(`C05.v9Codec`), the worker program any `Canonical` one (`Gen.netflowV9Worker`: `C12.netflowV9Worker_canonical`), the
initial cache `c0` arbitrary, and at most one worker is ever started (`one_worker_in_order`).  Let the first datagrams
received (`arrivals`, in arrival order; any number of exporters, interleaved in any way) be the RFC 3954 encodings of a
history `h` in which every data flowset is encoded with the LATEST definition announced before it, in arrival order, by
the same exporter under the same template id (`wfHistoryLatestV9 c0 [] h`: no cache in the premise; whatever is received
after `h` is arbitrary).  Then for EVERY schedule, whatever is published for the k-th datagram, `h[k] = (a, m)`, is the
rendering of the tree of `m`'s header and of exactly the records of `m`'s data flowsets, each read with the template `t`
its flowset was encoded with (`dataRecsV9`), in wire order — and that `t` is the latest definition exporter `a` announced
under `t.tid` before that flowset (in the `k` earlier datagrams or earlier in `m`), or what the initial cache held if it
announced none.

Chain: `one_worker_published_sequential` ∘ `v9_history_roundtrip` ∘ `wfHistoryV9_eq_latest` (= `refinement`) ∘
`C05.v9_wellformed_published` (C06 roundtrip and the marshal model). -/
theorem one_worker_latest_template_v9 (ft : Val → Bytes) (hc : Canonical spec cfg.prog) {c0 : Cache}
    {mem0 : BufId → Bytes} {s : State (C05.v9Codec ft)}
    (hr : Reach cfg (init (C05.v9Codec ft) c0 mem0) s) (h1 : s.workers.length ≤ 1)
    (h : List (Bytes × Wire.V9.Msg))
    (hrecv : h.map (fun x => (x.1, Wire.V9.encodeMsg x.2)) <+: (arrivals s.log).map (fun d => (d.addr, d.bytes)))
    (hwf : wfHistoryLatestV9 c0 [] h = true)
    (id : Nat) (p : Bytes) (hp : Event.published id p ∈ s.log) :
    ∃ k d, (arrivals s.log)[k]? = some d ∧ d.id = id ∧
      ∀ a m, h[k]? = some (a, m) →
        d.addr = a ∧ d.bytes = Wire.V9.encodeMsg m ∧
        p = render (JsonTree.v9Tree a (Wire.V9.expectedHdr m) (C05.toJRecs ft (dataRecsV9 m))) ∧
        ∀ j t records pad, m.sets[j]? = some (.data t records pad) →
          latestOr c0 (histAnnsV9 (h.take k) ++ setsAnnsV9 a (m.sets.take j)) a t.tid = some t := by
  obtain ⟨k, d, hk, hid, hout⟩ := published_sequential hc hr h1 hp
  refine ⟨k, d, hk, hid, ?_⟩
  intro a m hkm
  have hnil : Ids16 [] := by intro e he; simp at he
  have hwf' : v9WfHistory c0 h = true := by
    have := wfHistoryV9_eq_latest c0 h [] hnil
    rw [hwf] at this; exact this
  obtain ⟨hpre, hm⟩ := wfHistoryV9_index h k c0 a m hwf' hkm
  obtain ⟨rest, hrest⟩ := hrecv
  have hklt : k < h.length := by
    rcases Nat.lt_or_ge k h.length with hl | hl
    · exact hl
    · rw [List.getElem?_eq_none hl] at hkm; simp at hkm
  -- the k-th datagram is the encoding of `m` from `a`
  have hkd : ((arrivals s.log).map (fun d => (d.addr, d.bytes)))[k]? = some (a, Wire.V9.encodeMsg m) := by
    rw [← hrest, List.getElem?_append_left (by simpa using hklt)]
    simp [hkm]
  rw [List.getElem?_map, hk] at hkd
  simp only [Option.map_some, Option.some.injEq, Prod.mk.injEq] at hkd
  obtain ⟨haddr, hbytes⟩ := hkd
  -- the first k datagrams are the encodings of the first k packets
  have htake : ((arrivals s.log).take k).map (fun d => (d.addr, d.bytes)) =
      (h.take k).map (fun x => (x.1, Wire.V9.encodeMsg x.2)) := by
    rw [List.map_take, ← hrest, List.take_append_of_le_length (by simpa using Nat.le_of_lt hklt), ← List.map_take]
  have hcache : cacheAfter (C05.v9Codec ft) c0 ((arrivals s.log).take k) = (v9ExpectedRun c0 (h.take k)).2 := by
    rw [cacheAfter_v9Run ft _ (h.take k) c0 htake, v9_history_roundtrip _ _ hpre]
  rw [hcache, haddr, hbytes] at hout
  refine ⟨haddr, hbytes, ?_, ?_⟩
  · have hrecs : (Wire.V9.expected a (v9ExpectedRun c0 (h.take k)).2 m).1 = dataRecsV9 m := by rw [expectedV9_eq]
    by_cases hne : (Wire.V9.expected a (v9ExpectedRun c0 (h.take k)).2 m).1 = []
    · -- a packet without data records is not published
      have hdec := V9.decode_roundtrip _ a m hm
      simp only [C05.v9Codec, hdec, outcome, Option.bind_some, hne] at hout
      simp at hout
    · have := C05.v9_wellformed_published ft _ a m hm hne
      rw [hout, hrecs] at this
      exact Option.some.inj this
  · intro j t records pad hj
    have h2 := wfHistoryLatestV9_index c0 h k [] a m hwf hkm
    simp only [wfMsgLatestV9, Bool.and_eq_true] at h2
    have h3 := wfSetsLatestV9_index c0 a m.sets j _ _ h2.2 hj
    simp only [usesLatestV9, List.nil_append, beq_iff_eq] at h3
    exact h3

/-- … with the worker loop the current source has (`netflowV9Worker` of vflow/netflow_v9.go), a collector started with
an empty cache, and the whole arrival sequence well formed: `latest` itself -/
theorem one_worker_latest_template_v9_current_source (ft : Val → Bytes) (hprog : cfg.prog = Gen.netflowV9Worker)
    {mem0 : BufId → Bytes} {s : State (C05.v9Codec ft)}
    (hr : Reach cfg (init (C05.v9Codec ft) [] mem0) s) (h1 : s.workers.length ≤ 1)
    (h : List (Bytes × Wire.V9.Msg))
    (hrecv : (arrivals s.log).map (fun d => (d.addr, d.bytes)) = h.map (fun x => (x.1, Wire.V9.encodeMsg x.2)))
    (hwf : wfHistoryLatestV9 [] [] h = true)
    (id : Nat) (p : Bytes) (hp : Event.published id p ∈ s.log) :
    ∃ k d a m, (arrivals s.log)[k]? = some d ∧ d.id = id ∧ h[k]? = some (a, m) ∧
      p = Spec.render (JsonTree.v9Tree a (Wire.V9.expectedHdr m) (C05.toJRecs ft (dataRecsV9 m))) ∧
      ∀ j t records pad, m.sets[j]? = some (.data t records pad) →
        latest (histAnnsV9 (h.take k) ++ setsAnnsV9 a (m.sets.take j)) a t.tid = some t := by
  have hc : Canonical .onMsg cfg.prog := by rw [hprog]; exact netflowV9Worker_canonical
  obtain ⟨k, d, hk, hid, hall⟩ :=
    one_worker_latest_template_v9 ft hc hr h1 h (by rw [hrecv]; exact List.prefix_refl _) hwf id p hp
  have hlen : k < h.length := by
    have : k < (arrivals s.log).length := by
      rcases Nat.lt_or_ge k (arrivals s.log).length with hl | hl
      · exact hl
      · rw [List.getElem?_eq_none hl] at hk; simp at hk
    have e := congrArg List.length hrecv
    simp only [List.length_map] at e
    omega
  obtain ⟨⟨a, m⟩, hkm⟩ : ∃ x, h[k]? = some x := ⟨h[k], List.getElem?_eq_getElem hlen⟩
  obtain ⟨_, _, hp', hl⟩ := hall a m hkm
  refine ⟨k, d, a, m, hk, hid, hkm, hp', ?_⟩
  intro j t records pad hj
  have := hl j t records pad hj
  simp only [latestOr] at this
  cases hlat : latest (histAnnsV9 (h.take k) ++ setsAnnsV9 a (m.sets.take j)) a t.tid with
  | some t' => rw [hlat] at this; exact this
  | none => rw [hlat] at this; simp [Cache.lookup] at this

/-- the three export packets of one v9 exporter: announce template 256 := definition A (`k5TplA`, IPV4_SRC_ADDR);
re-announce template 256 := definition B (`k5TplB`, IPV4_DST_ADDR); one data record, encoded with B (its latest) -/
def k5V9MsgA : Wire.V9.Msg := ⟨1, 1000, 1000, 0, 1, [.tpl [k5TplA] []]⟩
def k5V9MsgB : Wire.V9.Msg := ⟨1, 1001, 1001, 1, 1, [.tpl [k5TplB] []]⟩
def k5V9MsgD : Wire.V9.Msg := ⟨1, 1002, 1002, 2, 1, [.data k5TplB [[[10, 0, 0, 9]]] []]⟩

/-- non-vacuity of `one_worker_latest_template_v9`: the history announce A / re-announce B / data satisfies its premise
(and does not when the data flowset is encoded with the superseded definition A); with ONE worker running the worker
loop of the current source (`Gen.netflowV9Worker`, `oneWorkerSchedule`) the three RFC 3954 encodings are decoded in the
order 0, 1, 2 and the value is published as element 12 (the latest definition, B) -/
example :
    wfHistoryLatestV9 [] [] [([192, 0, 2, 1], k5V9MsgA), ([192, 0, 2, 1], k5V9MsgB), ([192, 0, 2, 1], k5V9MsgD)] = true ∧
    dataRecsV9 k5V9MsgD = [[⟨12, 0, .ip [10, 0, 0, 9]⟩]] ∧
    wfHistoryLatestV9 [] [] [([192, 0, 2, 1], k5V9MsgA), ([192, 0, 2, 1], k5V9MsgB),
      ([192, 0, 2, 1], ⟨1, 1002, 1002, 2, 1, [.data k5TplA [[[10, 0, 0, 9]]] []]⟩)] = false ∧
    (let s := run (K := C05.v9Codec k5Ft) { prog := Gen.netflowV9Worker } (init (C05.v9Codec k5Ft) [] (fun _ => []))
      (oneWorkerSchedule [192, 0, 2, 1] (Wire.V9.encodeMsg k5V9MsgA) (Wire.V9.encodeMsg k5V9MsgB) (Wire.V9.encodeMsg k5V9MsgD))
     s.workers.length = 1 ∧
     s.log.reverse.filterMap evTag = [(0, 0), (0, 1), (0, 2), (1, 0), (1, 1), (1, 2)] ∧
     s.delivered = [(2, str ("{\"AgentID\":\"192.0.2.1\",\"Header\":{\"Version\":9,\"Count\":1,\"SysUpTime\":1002," ++
       "\"UNIXSecs\":1002,\"SeqNum\":2,\"SrcID\":1},\"DataSets\":[[{\"I\":12,\"V\":\"10.0.0.9\"}]]}"))]) := by
  decide +kernel

end Collector

end Vflow.C04
