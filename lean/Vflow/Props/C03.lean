import Vflow.Proofs.RoundIpfix
import Vflow.Proofs.HeaderLayouts
import Vflow.Proofs.Interpret
import Vflow.Proofs.IpfixIR
import Vflow.Proofs.IpfixIRTpl
import Vflow.Gen.Sites
import Vflow.Spec.Sites
/-!
# C03 — IPFIX: data records are decoded exactly as their templates describe

Round trip between the RFC 7011 encoders of `Vflow/Spec/Wire.lean` (written without reference to the
decoder) and the decoder model `Vflow/Model/Ipfix.lean` (tied to `ipfix/decoder.go` by the differential
correspondence).  From the leaves up: field / record (fixed and variable length, enterprise elements,
scope fields first), record loop, set, message.

Preconditions (the Boolean predicates `Wire.Ipfix.wf…`, all decidable; see `Spec/Wire.lean`):
* every specifier of the template is in the information model (`lookupElem ent id = some …`);
* the length 65535 announces a variable-length field for an element of ANY type (RFC 7011 §7; RFC 6313 structured
  data 291–293 is always sent so), the value then carries a 1-octet length prefix (< 255 octets) or the 3-octet
  prefix 255 + u16 (any length < 65536, also allowed for short values); every other specifier length is a fixed
  length and the value has exactly it.  Until the F23 repair this read "65535 only on string / octetArray elements":
  a hypothesis read off `getDataLength`, not off the RFC — on every other element the decoder tried to read 65535
  octets and the whole message was lost (`f23_repaired`);
* no hypothesis on field lengths versus the element's type: the reported value is `interpret octets type` for every
  length, and for the integer types that is the RFC's value of ALL the field's octets whenever the field is at least
  as long as the type and at most 8 octets (`unsigned_field_value`, `signed_field_value`; F24: before the repair the
  leading octets of the type's size were read, `f24_repaired`), the raw octets otherwise (`field_raw`);
* every data record has a positive length on the wire (a record of no octets cannot be told from the end
  of the set; the decoder reports `zero-length data record`, F2) — the former "longer than 4 octets"
  (finding K2) is gone since the padding repair: `k2_repaired`;
* padding (any content) of a data set **shorter than the shortest record of the template**, RFC 7011 §3.3.1
  (`wfDataPad`, `Wire.Ipfix.minRecLen`: fixed lengths plus one octet per variable-length field) — the
  former `pad ≤ 4` was a hypothesis forced by the decoder's constant `> 4`, not by the RFC; under it 5..7
  octets of padding after records of 8 or more octets lost the whole message (F16, `k3_repaired`);
  padding of a template set at most 4 octets (`wfTplPad`: the RFC gives 0..3; the unchanged template loop
  stops when at most 4 octets are left);
* set length < 65536 (the decoder's 16-bit arithmetic then never wraps), sets non-empty, template ids
  non-zero (id 0 at a record boundary of a template set is the padding test), a template record (set id 2)
  has at least one field, element ids < 32768, enterprise elements have id ≥ 1 (the decoder tests
  `id > 0x8000`, not the E bit);
* a data set's template is what `Cache.lookup` returns for (exporter address, set id) in the cache
  *as updated by the preceding sets of the same message* — no assumption about the hash other than
  `lookup (insert c a id t) a id = some t` (`announced_template_in_force`).
-/
namespace Vflow.C03
open Vflow Vflow.Wire
open Vflow.Wire.Ipfix (VVal)

/-- **C03 level 1 (record)**: for every template and every conforming list of field values (scope
fields first; variable-length values with either prefix form) the decoder returns exactly
`expectedRecord` — per field the element id, the enterprise number and `interpret octets type` — and the
reader ends right behind the record. -/
theorem record_roundtrip (t : Template) (vals : List VVal) (rest : Bytes) (c : Nat)
    (hw : Wire.Ipfix.wfRecord t vals = true) :
    Ipfix.decodeData t ⟨Wire.Ipfix.encodeRecord t vals ++ rest, c⟩ =
      (.ok (Wire.Ipfix.expectedRecord t vals), ⟨rest, c + (Wire.Ipfix.encodeRecord t vals).length⟩) :=
  Ipfix.decodeData_roundtrip t vals rest c hw

/-- the field loop alone, without the "positive length" condition (which belongs to the record
loop): any list of specifiers against a conforming list of values -/
theorem fields_roundtrip (specs : List Spec) (vals : List VVal) (rest : Bytes) (c : Nat) (acc : Record)
    (hl : specs.length = vals.length)
    (hw : (List.zipWith Wire.Ipfix.wfField specs vals).all id = true) :
    Ipfix.decFields specs ⟨(List.zipWith Wire.Ipfix.encodeField specs vals).flatten ++ rest, c⟩ acc =
      (.ok (acc ++ List.zipWith expectedField specs (vals.map (·.octets))),
       ⟨rest, c + (List.zipWith Wire.Ipfix.encodeField specs vals).flatten.length⟩) :=
  Ipfix.decFields_roundtrip specs vals rest c acc hl hw

/-- **C03 level 2a (record loop)**: over `records ++ pad ++ rest`, the set header announcing exactly
`records ++ pad`, the padding shorter than the shortest record of the template (RFC 7011 §3.3.1), the
loop yields all records in order, stops in front of the padding, no error, no direct return. -/
theorem recordLoop_roundtrip (ctx : Ipfix.Ctx) (hsid : 255 < ctx.setId) (hlen16 : ctx.len < 65536)
    (records : List (List VVal)) (pad rest : Bytes) (fuel : Nat) (st : Ipfix.St)
    (hrec : ∀ x ∈ records, Wire.Ipfix.wfRecord ctx.tr x = true)
    (hpad : pad.length < Wire.Ipfix.minRecLen ctx.tr)
    (hrem : st.r.rem = Ipfix.body ctx.tr records ++ (pad ++ rest))
    (hstart : ctx.start ≤ st.r.cnt)
    (hleft : (st.r.cnt - ctx.start) + ((Ipfix.body ctx.tr records).length + pad.length) = ctx.len)
    (hfuel : records.length < fuel) :
    Ipfix.setLoop ctx fuel st =
      ({ st with r := ⟨pad ++ rest, st.r.cnt + (Ipfix.body ctx.tr records).length⟩,
                 recs := st.recs ++ records.map (Wire.Ipfix.expectedRecord ctx.tr) }, none, false) :=
  Ipfix.setLoop_data ctx hsid hlen16 records pad rest fuel st hrec hpad hrem hstart hleft hfuel

/-- **C03 level 2b (data set)**: `decodeSet` consumes the whole encoded data set (the padding is
skipped), appends exactly the expected records in order, leaves the cache unchanged, no error. -/
theorem dataSet_roundtrip (addr : Bytes) (t : Template) (records : List (List VVal))
    (pad rest : Bytes) (c fuel : Nat) (cache : Cache) (recs : List Record)
    (hw : Wire.Ipfix.wfSet addr cache (.data t records pad) = true) (hfuel : records.length < fuel) :
    Ipfix.decodeSet addr fuel ⟨⟨Wire.Ipfix.encodeDataSet t records pad ++ rest, c⟩, cache, recs⟩ =
      (⟨⟨rest, c + (Wire.Ipfix.encodeDataSet t records pad).length⟩, cache,
        recs ++ records.map (Wire.Ipfix.expectedRecord t)⟩, none) :=
  Ipfix.decodeSet_data addr t records pad rest c fuel cache recs hw hfuel

/-- **C03 level 2c (template set)**: inserts exactly its templates — in order, a later one overriding
an earlier one with the same id (`insertAll`) — and adds no record. -/
theorem templateSet_roundtrip (addr : Bytes) (ts : List Template) (pad rest : Bytes)
    (c fuel : Nat) (cache : Cache) (recs : List Record)
    (hw : Wire.Ipfix.wfSet addr cache (.tpl ts pad) = true) (hfuel : ts.length < fuel) :
    Ipfix.decodeSet addr fuel ⟨⟨Wire.Ipfix.encodeTemplateSet ts pad ++ rest, c⟩, cache, recs⟩ =
      (⟨⟨rest, c + (Wire.Ipfix.encodeTemplateSet ts pad).length⟩, insertAll addr cache ts, recs⟩, none) :=
  Ipfix.decodeSet_tpl addr ts pad rest c fuel cache recs hw hfuel

/-- **C03 level 2d (options template set)** -/
theorem optTemplateSet_roundtrip (addr : Bytes) (ts : List Template) (pad rest : Bytes)
    (c fuel : Nat) (cache : Cache) (recs : List Record)
    (hw : Wire.Ipfix.wfSet addr cache (.optTpl ts pad) = true) (hfuel : ts.length < fuel) :
    Ipfix.decodeSet addr fuel ⟨⟨Wire.Ipfix.encodeOptTemplateSet ts pad ++ rest, c⟩, cache, recs⟩ =
      (⟨⟨rest, c + (Wire.Ipfix.encodeOptTemplateSet ts pad).length⟩, insertAll addr cache ts, recs⟩, none) :=
  Ipfix.decodeSet_optTpl addr ts pad rest c fuel cache recs hw hfuel

/-- **C03 level 3 (message)**: for every cache `c`, exporter address and well-formed message `m` the
decoder returns the header, exactly the expected records of all data sets in order, no non-fatal
error, and the cache updated with the message's templates; templates announced earlier in the message
are in force for its later data sets. -/
theorem message_roundtrip (c : Cache) (addr : Bytes) (m : Wire.Ipfix.Msg)
    (hw : Wire.Ipfix.wfMsg addr c m = true) :
    Ipfix.decode c addr (Wire.Ipfix.encodeMsg m) =
      (.ok (Wire.Ipfix.expectedHdr m, (Wire.Ipfix.expected addr c m).1, []),
       (Wire.Ipfix.expected addr c m).2) :=
  Ipfix.decode_roundtrip c addr m hw

/-- **RFC 7011 §3.3.1 "shorter than any allowable record"**: `Wire.Ipfix.minRecLen t` is a lower bound for
every conforming record of `t` — so `wfDataPad` is exactly the RFC's condition — and the decoder's loop
bound `Ipfix.minRecLen` is that number, clamped to 1. -/
theorem minRecLen_is_shortest (t : Template) (vals : List VVal) (hw : Wire.Ipfix.wfRecord t vals = true) :
    Wire.Ipfix.minRecLen t ≤ (Wire.Ipfix.encodeRecord t vals).length ∧
    Ipfix.minRecLen t = (if Wire.Ipfix.minRecLen t < 1 then 1 else Wire.Ipfix.minRecLen t) :=
  ⟨Ipfix.wfRecord_minRecLen hw, Ipfix.minRecLen_spec t⟩

/-- the template a set has just announced is the one a data set with its id gets: the cache condition
of `wfSet` is met by "announced earlier in this message under the same id" for every cache and every
hash function behaviour -/
theorem announced_template_in_force (addr : Bytes) (c : Cache) (t : Template) (pad : Bytes) :
    Cache.lookup (Wire.Ipfix.applySet addr ([], c) (.tpl [t] pad)).2 addr t.tid = some t := by
  simp only [Wire.Ipfix.applySet, insertAll, List.foldl_cons, List.foldl_nil]
  exact lookup_insert c addr t.tid t

/-! ## Non-vacuity: a concrete well-formed message — a template with a fixed and a variable-length
field, an options template with a scope field, a data set of two records (1-octet and 3-octet length
prefix) with padding, a data set of the options template — starting from the empty cache -/

def exAddr : Bytes := [192, 0, 2, 1]
def exTpl : Template := ⟨256, 2, 0, [], [⟨8, 4, 0⟩, ⟨82, 65535, 0⟩]⟩
def exOpt : Template := ⟨257, 2, 1, [⟨8, 4, 0⟩], [⟨1, 8, 0⟩]⟩
def exMsg : Wire.Ipfix.Msg :=
  { exportTime := 1700000000, seq := 7, domain := 1,
    sets := [.tpl [exTpl] [], .optTpl [exOpt] [0, 0],
             .data exTpl [[⟨[10,0,0,1], false⟩, ⟨[101,116,104,48], false⟩],
                          [⟨[10,0,0,3], false⟩, ⟨[120], true⟩]] [0,0,0],
             .data exOpt [[⟨[10,0,0,9], false⟩, ⟨[0,0,0,0,0,0,1,0], false⟩]] []] }

set_option maxRecDepth 100000 in
example : Wire.Ipfix.wfMsg exAddr [] exMsg = true := by decide

set_option maxRecDepth 100000 in
example : (Wire.Ipfix.expected exAddr [] exMsg).1 =
    [[⟨8, 0, .ip [10,0,0,1]⟩, ⟨82, 0, .str [101,116,104,48]⟩],
     [⟨8, 0, .ip [10,0,0,3]⟩, ⟨82, 0, .str [120]⟩],
     [⟨8, 0, .ip [10,0,0,9]⟩, ⟨1, 0, .u64 256⟩]] := by
  rfl

/-! (Enterprise-specific elements are covered by the quantified theorems; a concrete instance is not
evaluated here because a failed scan of the 400-row IANA table inside the kernel takes ~15 s. The
correspondence runs exercise them: `extElems`.) -/

/-! ## Repaired findings: K2 (records of ≤ 4 octets at the end of a set were dropped) and F16 (5..7 octets
of set padding were read as a record and the whole message was lost).  Both former counterexample inputs
are now well-formed messages, and the model — evaluated by the kernel, independently of
`message_roundtrip` — decodes them completely. -/

def k2Tpl : Template := ⟨256, 1, 0, [], [⟨8, 4, 0⟩]⟩
/-- template with one 4-octet field, then a data set with three records, no padding -/
def k2Msg : Wire.Ipfix.Msg :=
  { exportTime := 1700000000, seq := 8, domain := 1,
    sets := [.tpl [k2Tpl] [],
             .data k2Tpl [[⟨[10,0,0,1], false⟩], [⟨[10,0,0,2], false⟩], [⟨[10,0,0,3], false⟩]] []] }

set_option maxRecDepth 100000 in
/-- **K2 repaired**: three records of 4 octets were encoded; before the padding repair the decoder
returned the first two and no error (the former `k2_counterexample`); now the message is well-formed and
all three come back. -/
theorem k2_repaired :
    Wire.Ipfix.wfMsg exAddr [] k2Msg = true ∧
    (Wire.Ipfix.expected exAddr [] k2Msg).1.length = 3 ∧
    (Ipfix.decode [] exAddr (Wire.Ipfix.encodeMsg k2Msg)).1 =
      .ok (Wire.Ipfix.expectedHdr k2Msg, (Wire.Ipfix.expected exAddr [] k2Msg).1, []) ∧
    (Wire.Ipfix.encodeRecord k2Tpl [⟨[10,0,0,3], false⟩]).length = 4 := by
  refine ⟨by decide, by rfl, by rfl, by rfl⟩

def k3Tpl : Template := ⟨256, 2, 0, [], [⟨8, 4, 0⟩, ⟨12, 4, 0⟩]⟩
/-- template with two 4-octet fields, then three data sets of one 8-octet record followed by 5, 6 and 7
zero octets of padding (shorter than the shortest record: RFC 7011 §3.3.1, 8-octet alignment) -/
def k3Msg : Wire.Ipfix.Msg :=
  { exportTime := 1700000000, seq := 9, domain := 1,
    sets := [.tpl [k3Tpl] [],
             .data k3Tpl [[⟨[10,0,0,1], false⟩, ⟨[10,0,0,2], false⟩]] [0,0,0,0,0],
             .data k3Tpl [[⟨[10,0,0,3], false⟩, ⟨[10,0,0,4], false⟩]] [0,0,0,0,0,0],
             .data k3Tpl [[⟨[10,0,0,5], false⟩, ⟨[10,0,0,6], false⟩]] [0,0,0,0,0,0,0]] }

set_option maxRecDepth 100000 in
/-- **F16 repaired (long padding)**: before the repair each of the three data sets alone made `Decode`
return `(nil, "can not read the data")` — the padding, longer than 4 octets, was read as a record; the old
`wfSetLen` excluded such messages (`pad ≤ 4`).  Now they are well-formed and decode completely. -/
theorem k3_repaired :
    Wire.Ipfix.wfMsg exAddr [] k3Msg = true ∧
    (Ipfix.decode [] exAddr (Wire.Ipfix.encodeMsg k3Msg)).1 =
      .ok (Wire.Ipfix.expectedHdr k3Msg,
           [[⟨8, 0, .ip [10,0,0,1]⟩, ⟨12, 0, .ip [10,0,0,2]⟩], [⟨8, 0, .ip [10,0,0,3]⟩, ⟨12, 0, .ip [10,0,0,4]⟩],
            [⟨8, 0, .ip [10,0,0,5]⟩, ⟨12, 0, .ip [10,0,0,6]⟩]], []) := by
  refine ⟨by decide, by rfl⟩

set_option maxRecDepth 100000 in
/-- padding as long as the shortest record is not padding: the bound of `wfDataPad` is sharp (8 octets
after 8-octet records are one more record); and a variable-length field counts one octet (`exTpl`: 4 + 1) -/
example : Wire.Ipfix.wfSet exAddr (Wire.Ipfix.applySet exAddr ([], []) (.tpl [k3Tpl] [])).2
    (.data k3Tpl [[⟨[10,0,0,1], false⟩, ⟨[10,0,0,2], false⟩]] [0,0,0,0,0,0,0,0]) = false := by decide
example : Wire.Ipfix.minRecLen k3Tpl = 8 ∧ Wire.Ipfix.minRecLen exTpl = 5 ∧ Ipfix.minRecLen exTpl = 5 := by decide

/-- template with one variable-length field (interfaceName): its shortest record is the 1-octet length prefix
of an empty string -/
def vTpl : Template := ⟨256, 1, 0, [], [⟨82, 65535, 0⟩]⟩
/-- one 6-octet record ("eth01" with a 1-octet prefix) followed by ONE zero octet -/
def vMsg : Wire.Ipfix.Msg :=
  { exportTime := 1700000000, seq := 10, domain := 1,
    sets := [.tpl [vTpl] [], .data vTpl [[⟨[101,116,104,48,49], false⟩]] [0]] }

set_option maxRecDepth 100000 in
/-- **Where the old and the new well-formedness differ the other way.**  The old predicate (records longer than
4 octets, `pad ≤ 4`) accepted this message and the old decoder skipped the zero octet; RFC 7011 §3.3.1 does not:
the template's shortest record has 1 octet, so no padding at all is allowed, and the octet `00` IS a record (an
empty interfaceName).  `wfDataPad` rejects the message and the repaired decoder reports two records.  This —
templates with variable-length fields whose shortest record has at most 4 octets, "padded" with at least that many
octets — is the only region the old theorems covered and the new ones do not; everywhere else the new
preconditions are weaker.  (For NetFlow v9 there is no such region: `4 < recLen` and `pad ≤ 4` imply `pad < recLen`.) -/
theorem padding_not_shorter_than_a_record_is_data :
    Wire.Ipfix.minRecLen vTpl = 1 ∧
    Wire.Ipfix.wfMsg exAddr [] vMsg = false ∧
    Ipfix.recordsOf (Ipfix.decode [] exAddr (Wire.Ipfix.encodeMsg vMsg)).1 =
      [[⟨82, 0, .str [101,116,104,48,49]⟩], [⟨82, 0, .str []⟩]] := by
  refine ⟨by decide, by decide, by rfl⟩

/-- The point `wfSpec` excludes (enterprise bit set, element id 0: outside the 1..32767 range RFC 7012 §4 gives
enterprise-specific identifiers): the decoder tests `ElementID > 0x8000`, so the specifier `80 00` is taken as the
IANA element 32768 WITHOUT an enterprise number, and the four enterprise-number octets that follow are read as the
next specifier.  Malformed input, decoded without a crash (C01); recorded here because the proof forced the
hypothesis, and run against the real decoder by the `ipfix` correspondence (corpus/C03/ipfix--enterprise-id0.txt). -/
example : (Ipfix.readSpec ⟨[0x80, 0x00, 0x00, 0x04, 0x00, 0x00, 0x27, 0x0f], 0⟩).1 = .ok ⟨32768, 4, 0⟩ := by rfl
example : (Ipfix.readSpec ⟨[0x80, 0x01, 0x00, 0x04, 0x00, 0x00, 0x27, 0x0f], 0⟩).1 = .ok ⟨1, 4, 9999⟩ := by rfl

/-! ## Repaired findings F23 (the variable-length marker was honoured only for string / octetArray elements) and F24
(an integer field longer than its type decoded to its leading octets) -/

/-- **C03 (value of an unsigned field)**: what the round trips report for an unsigned8 … unsigned64 element sent in
`k ≤ n ≤ 8` octets (`k` the type's size: full-size, or over-long as NetFlow v9 exporters and mediators send them) is
the element id, the enterprise number and the number whose network-byte-order representation ALL `n` octets are
(`Wire.unsignedValue`, written from RFC 7011 §6.1.1 without reference to `interpret`).  False before the F24 repair:
samplerId (unsigned8) in the two octets `00 07` was reported as 0. -/
theorem unsigned_field_value (s : Spec) (v : Bytes) (fid ty k : Nat)
    (hl : lookupElem s.ent s.id = some (fid, ty)) (ht : uintSize? ty = some k)
    (hk : k ≤ v.length) (h8 : v.length ≤ 8) :
    (expectedField s v).id = fid ∧ (expectedField s v).ent = s.ent ∧
    intOf (expectedField s v).val = some (unsignedValue v : Int) :=
  Interp.expected_unsigned s v fid ty k hl ht hk h8

/-- **C03 (value of a signed field)**: signed8 … signed64 likewise, two's complement over all `8·n` bits (RFC 7011 §6.1.2) -/
theorem signed_field_value (s : Spec) (v : Bytes) (fid ty k : Nat)
    (hl : lookupElem s.ent s.id = some (fid, ty)) (ht : intSize? ty = some k)
    (hk : k ≤ v.length) (h8 : v.length ≤ 8) :
    (expectedField s v).id = fid ∧ (expectedField s v).ent = s.ent ∧
    intOf (expectedField s v).val = some (signedValue v) :=
  Interp.expected_signed s v fid ty k hl ht hk h8

/-- the Go type of an integer value: that of the element's size for a full-size field, 64 bits for a longer one -/
theorem integer_field_kind (b : Bytes) (t k : Nat) (hk : k ≤ b.length) (h8 : b.length ≤ 8) :
    (uintSize? t = some k → (interpret b t).kind = (if b.length = k then "u" ++ toString (8 * k) else "u64")) ∧
    (intSize? t = some k → (interpret b t).kind = (if b.length = k then "i" ++ toString (8 * k) else "i64")) :=
  ⟨fun ht => (Interp.interpret_unsigned b t k ht hk h8).2, fun ht => (Interp.interpret_signed b t k ht hk h8).2⟩

/-- **C03 ("raw octets when the field is encoded shorter than the type's size")**, and an integer field of more than
8 octets, which no 64-bit value can hold -/
theorem field_raw (s : Spec) (v : Bytes) (fid ty : Nat)
    (hl : lookupElem s.ent s.id = some (fid, ty))
    (h : v.length < minLen ty ∨ (((uintSize? ty).isSome ∨ (intSize? ty).isSome) ∧ 8 < v.length)) :
    expectedField s v = ⟨fid, s.ent, .raw v⟩ :=
  Interp.expected_raw s v fid ty hl h

/-- template 256: two IPv4 addresses; template 257: an address and a basicList (291, RFC 6313: always variable length);
template 258: ingressInterface (unsigned32) announced as variable length, and an address -/
def f23TplA : Template := ⟨256, 2, 0, [], [⟨8, 4, 0⟩, ⟨12, 4, 0⟩]⟩
def f23TplB : Template := ⟨257, 2, 0, [], [⟨8, 4, 0⟩, ⟨291, 65535, 0⟩]⟩
def f23TplC : Template := ⟨258, 2, 0, [], [⟨10, 65535, 0⟩, ⟨8, 4, 0⟩]⟩
/-- the witness of `corpus/C03/ipfix-wf--F23-variable-length-any-type.txt` (its first message, plus the second one's
template and record) -/
def f23Msg : Wire.Ipfix.Msg :=
  { exportTime := 0, seq := 1, domain := 0,
    sets := [.tpl [f23TplA, f23TplB, f23TplC] [],
             .data f23TplA [[⟨[10,0,0,1], false⟩, ⟨[10,0,0,2], false⟩]] [],
             .data f23TplB [[⟨[10,0,0,3], false⟩, ⟨[0xaa,0xbb,0xcc], false⟩]] [],
             .data f23TplC [[⟨[0,0,0,5], false⟩, ⟨[10,0,0,4], false⟩], [⟨[0,5], true⟩, ⟨[10,0,0,5], false⟩]] []] }

set_option maxRecDepth 100000 in
/-- **F23 repaired**: before the repair the data set of template 257 (and of 258) made `Decode` return
`(nil, "can not read the data")` — the record of template 256 in front of it was lost too — and the old `wfField`
excluded the message ("65535 only on string / octetArray").  Now it is well-formed and decodes completely: the
basicList as its octets (the collector does not interpret structured data), the variable-length unsigned32 as the
`uint32` 5 when sent in 4 octets and as its 2 octets when sent shorter than the type. -/
theorem f23_repaired :
    Wire.Ipfix.wfMsg exAddr [] f23Msg = true ∧
    (Ipfix.decode [] exAddr (Wire.Ipfix.encodeMsg f23Msg)).1 =
      .ok (Wire.Ipfix.expectedHdr f23Msg,
           [[⟨8, 0, .ip [10,0,0,1]⟩, ⟨12, 0, .ip [10,0,0,2]⟩],
            [⟨8, 0, .ip [10,0,0,3]⟩, ⟨291, 0, .raw [0xaa,0xbb,0xcc]⟩],
            [⟨10, 0, .u32 5⟩, ⟨8, 0, .ip [10,0,0,4]⟩], [⟨10, 0, .raw [0,5]⟩, ⟨8, 0, .ip [10,0,0,5]⟩]], []) := by
  refine ⟨by decide, by rfl⟩

/-- samplerId (48, unsigned8) announced with 2 octets, ingressInterface (10, unsigned32) with 8, and an address -/
def f24Tpl : Template := ⟨256, 3, 0, [], [⟨48, 2, 0⟩, ⟨10, 8, 0⟩, ⟨8, 4, 0⟩]⟩
def f24Msg : Wire.Ipfix.Msg :=
  { exportTime := 0, seq := 1, domain := 0,
    sets := [.tpl [f24Tpl] [],
             .data f24Tpl [[⟨[0,7], false⟩, ⟨[0,0,0,0,0,0,0,5], false⟩, ⟨[10,0,0,1], false⟩],
                           [⟨[1,0], false⟩, ⟨[255,255,255,255,255,255,255,255], false⟩, ⟨[10,0,0,2], false⟩]] []] }

set_option maxRecDepth 100000 in
/-- **F24 repaired** (`corpus/C03/ipfix-wf--F24-overlong-integers.txt`): before the repair the first record came back as
`uint8(0)`, `uint32(0)` — the leading octets — and the second as `uint8(1)`, `uint32(4294967295)`. -/
theorem f24_repaired :
    Wire.Ipfix.wfMsg exAddr [] f24Msg = true ∧
    (Ipfix.decode [] exAddr (Wire.Ipfix.encodeMsg f24Msg)).1 =
      .ok (Wire.Ipfix.expectedHdr f24Msg,
           [[⟨48, 0, .u64 7⟩, ⟨10, 0, .u64 5⟩, ⟨8, 0, .ip [10,0,0,1]⟩],
            [⟨48, 0, .u64 256⟩, ⟨10, 0, .u64 18446744073709551615⟩, ⟨8, 0, .ip [10,0,0,2]⟩]], []) := by
  refine ⟨by decide, by rfl⟩

/-- the values of `interpret` around the sizes, evaluated: unsigned16 in 1 (raw), 2 (`uint16`), 3 and 8 (`uint64`), 9
octets (raw); signed8 in 2 octets `ff fe` = −2 and signed32 in 5 octets `80 00 00 00 00` = −2^39 (`int64`, sign
extended from the field's own width); the RFC values computed independently -/
example : interpret [7] 2 = .raw [7] ∧ interpret [1,2] 2 = .u16 258 ∧ interpret [0,1,2] 2 = .u64 258 ∧
    interpret [1,0,0,0,0,0,0,0] 2 = .u64 72057594037927936 ∧ interpret [0,0,0,0,0,0,0,0,7] 2 = .raw [0,0,0,0,0,0,0,0,7] ∧
    interpret [255,254] 5 = .i64 (-2) ∧ interpret [128,0,0,0,0] 7 = .i64 (-549755813888) ∧
    signedValue [255,254] = -2 ∧ signedValue [128,0,0,0,0] = -549755813888 ∧ unsignedValue [0,1,2] = 258 := by decide

/-! ## Tie: the fixed-layout readers of the model read the layouts REGENERATED from the decoder source
(`Gen.Layouts.*`, re-extracted from the `unmarshal` chains on every run; proofs in `Proofs/HeaderLayouts.lean`) -/
theorem gen_header_layout (r : Rd) : Ipfix.readHeader r = V5.readFields (V5.widths Gen.Layouts.ipfixHeader) r :=
  HeaderLayouts.ipfix_header r
theorem gen_setHeader_layout (addr : Bytes) (fuel : Nat) (st : Ipfix.St) (sid len : Nat) (r2 : Rd)
    (h : V5.readFields (V5.widths Gen.Layouts.ipfixSetHeader) st.r = some ([sid, len], r2)) :
    Ipfix.decodeSet addr fuel st =
      if len < 4 then ({ st with r := r2 }, some .badSetLen)
      else Ipfix.setBody addr sid len st.r.cnt fuel { st with r := r2 } :=
  HeaderLayouts.ipfix_setHeader_read addr fuel st sid len r2 h
theorem gen_setHeader_short (addr : Bytes) (fuel : Nat) (st : Ipfix.St)
    (h : V5.readFields (V5.widths Gen.Layouts.ipfixSetHeader) st.r = none) :
    (Ipfix.decodeSet addr fuel st).2 = some .short := HeaderLayouts.ipfix_setHeader_short addr fuel st h
theorem gen_tplHeader_layout (r : Rd) (tid n : Nat) (r2 : Rd)
    (h : V5.readFields (V5.widths Gen.Layouts.ipfixTplHeader) r = some ([tid, n], r2)) :
    Ipfix.parseTpl r = (match Ipfix.readSpecs n r2 [] with
      | (.ok fs, r3) => (.ok ⟨tid, n, 0, [], fs⟩, r3)
      | (.error e, r3) => (.error e, r3)) := HeaderLayouts.ipfix_tplHeader_read r tid n r2 h
theorem gen_tplHeader_short (r : Rd) (h : V5.readFields (V5.widths Gen.Layouts.ipfixTplHeader) r = none) :
    (Ipfix.parseTpl r).1 = .error .short := HeaderLayouts.ipfix_tplHeader_short r h
theorem gen_optTplHeader_short (r : Rd) (h : V5.readFields (V5.widths Gen.Layouts.ipfixOptTplHeader) r = none) :
    (Ipfix.parseOptTpl r).1 = .error .short := HeaderLayouts.ipfix_optTplHeader_short r h
theorem gen_layout_field_names :
    Gen.Layouts.ipfixHeader.map (·.1) = ["Version", "Length", "ExportTime", "SequenceNo", "DomainID"] ∧
    Gen.Layouts.ipfixSetHeader.map (·.1) = ["SetID", "Length"] ∧
    Gen.Layouts.ipfixTplHeader.map (·.1) = ["TemplateID", "FieldCount"] ∧
    Gen.Layouts.ipfixOptTplHeader.map (·.1) = ["TemplateID", "FieldCount", "ScopeFieldCount"] := by decide
theorem gen_optTplHeader_layout (r : Rd) (tid n sc : Nat) (r3 : Rd)
    (h : V5.readFields (V5.widths Gen.Layouts.ipfixOptTplHeader) r = some ([tid, n, sc], r3)) :
    Ipfix.parseOptTpl r =
      (match Ipfix.readSpecs sc r3 [] with
       | (.error e, r4) => (.error e, r4)
       | (.ok scs, r4) =>
         match Ipfix.readSpecs ((n + 65536 - sc) % 65536) r4 [] with
         | (.error e, r5) => (.error e, r5)
         | (.ok fs, r5) => (.ok ⟨tid, n, sc, scs, fs⟩, r5)) := HeaderLayouts.ipfix_optTplHeader_read r tid n sc r3 h

/-! ## Tie: the decoder's functions TRANSLATED statement by statement on every run (`Gen.IpfixIR`, from the Go AST by
`go/cmd/factgen/ipfix_ir.go`) and interpreted with Go's semantics (`Model/IpfixIR.lean`: `Func.sem`, linked in
`Model/IpfixProg.lean`) ARE the functions of the hand-written model — for every argument, reader state, cache, exporter
address and fuel.  Not only the conditions (`guards_reviewed`) but what is assigned, in which order, what a loop carries
and what is returned on which path.  Proofs in `Proofs/IpfixIR.lean`.  A function result is
`some (state afterwards, final values of the by-pointer arguments, results)`; `none` would be a panic, an
unrecognised statement or an unfinished loop. -/

/-- the struct declarations the interpreter's field semantics (`fieldOf` / `setField`) stand for -/
theorem gen_ir_structs :
    Gen.IpfixIR.structs =
      [("Decoder", "raddr net.IP; reader *reader.Reader"),
       ("MessageHeader", "Version uint16; Length uint16; ExportTime uint32; SequenceNo uint32; DomainID uint32"),
       ("TemplateHeader", "TemplateID uint16; FieldCount uint16; ScopeFieldCount uint16"),
       ("TemplateRecord", "TemplateID uint16; FieldCount uint16; FieldSpecifiers []TemplateFieldSpecifier; ScopeFieldCount uint16; ScopeFieldSpecifiers []TemplateFieldSpecifier"),
       ("TemplateFieldSpecifier", "ElementID uint16; Length uint16; EnterpriseNo uint32"),
       ("Message", "AgentID string; Header MessageHeader; DataSets [][]DecodedField"),
       ("DecodedField", "ID uint16; Value interface{}; EnterpriseNo uint32"),
       ("SetHeader", "SetID uint16; Length uint16"),
       ("nonfatalError", "error"),
       ("ElementKey", "EnterpriseNo uint32; ElementID uint16"),
       ("InfoElementEntry", "FieldID uint16; Name string; Type FieldType")] := by decide +kernel

/-- **`Decoder.getDataLength` translated = `Ipfix.dataLen`**: same reader afterwards, same length or the reader's
error (returned as a fatal error with length 0), the cache untouched, for every specifier length -/
theorem gen_ir_getDataLength (addr : Bytes) (fuel : Nat) (r : Rd) (c : Cache) (len : Nat) :
    IpfixProg.getDataLength addr fuel [.int len] ⟨r, c⟩ =
      some (⟨(Ipfix.dataLen r len).2, c⟩, [], IpfixProg.lenResult (Ipfix.dataLen r len).1) :=
  IpfixIR.getDataLength_sem addr fuel r c len

/-- **`TemplateRecord.minRecordLen` translated = `Ipfix.minRecLen`** for every template (any number of scope and field
specifiers: the two `range` loops need no fuel); the template and the decoder state are left as they were -/
theorem gen_ir_minRecordLen (addr : Bytes) (fuel : Nat) (st : IpfixIR.St) (t : Template) :
    IpfixProg.minRecordLen addr fuel [.tpl t] st = some (st, [.tpl t], [.int (Ipfix.minRecLen t)]) :=
  IpfixIR.minRecordLen_sem addr fuel st t

/-- **`Decoder.decodeData` translated = `Ipfix.decodeData`** for every template, reader state, cache and exporter:
the two index loops over the scope and the field specifiers (element lookup, `getDataLength`, `Read`, `Interpret`,
`append`, in this order), the non-fatal "not exist" / "failed to decodeData" errors and the fatal read errors, the
reader position on every path.  `fuel` bounds the iterations of each loop: any value above the two specifier counts. -/
theorem gen_ir_decodeData (addr : Bytes) (fuel : Nat) (r : Rd) (c : Cache) (t : Template)
    (hs : t.scope.length < fuel) (hf : t.fields.length < fuel) :
    IpfixProg.decodeData addr fuel [.tpl t] ⟨r, c⟩ =
      some (⟨(Ipfix.decodeData t r).2, c⟩, [], IpfixProg.recResult (Ipfix.decodeData t r).1) :=
  IpfixIR.decodeData_sem addr fuel r c t hs hf

/-- **`TemplateFieldSpecifier.unmarshal` translated = `Ipfix.readSpec`** for every reader state and every previous
content `s0` of the specifier (the decoder reuses one `tf` across the loop): ElementID, Length, the test `> 0x8000`, the
mask `& 0x7fff` and the enterprise number, or `EnterpriseNo = 0`; on a short read the reader's error at the position
the model reports (the specifier is then partly overwritten: `s'`) -/
theorem gen_ir_fieldSpecUnmarshal (addr : Bytes) (fuel : Nat) (r : Rd) (c : Cache) (s0 : Spec) :
    match Ipfix.readSpec r with
    | (.ok s, r') => IpfixProg.fieldSpecUnmarshal addr fuel [.spec s0] ⟨r, c⟩ = some (⟨r', c⟩, [.spec s], [.nil])
    | (.error e, r') => ∃ s', IpfixProg.fieldSpecUnmarshal addr fuel [.spec s0] ⟨r, c⟩ =
        some (⟨r', c⟩, [.spec s'], [.err ⟨false, e⟩]) :=
  IpfixIR.fieldSpecUnmarshal_sem addr fuel r c s0

/-- **`TemplateHeader.unmarshal` translated**: TemplateID then FieldCount, 16 bits each; a failed read stores 0,
returns the reader's error and leaves the reader where it was (stronger than `gen_tplHeader_layout`: order, error paths
and positions, not only the widths) -/
theorem gen_ir_tplHeaderUnmarshal (addr : Bytes) (fuel : Nat) (r : Rd) (c : Cache) (a b sc : Nat) :
    IpfixProg.tplHeaderUnmarshal addr fuel [.thdr a b sc] ⟨r, c⟩ =
      match r.rU16 with
      | none => some (⟨r, c⟩, [.thdr 0 b sc], [IpfixIR.errReader])
      | some (tid, r1) =>
        match r1.rU16 with
        | none => some (⟨r1, c⟩, [.thdr tid 0 sc], [IpfixIR.errReader])
        | some (n, r2) => some (⟨r2, c⟩, [.thdr tid n sc], [.nil]) :=
  IpfixIR.tplHeaderUnmarshal_sem addr fuel r c a b sc

/-- **`TemplateHeader.unmarshalOpts` translated**: TemplateID, FieldCount, ScopeFieldCount -/
theorem gen_ir_tplHeaderUnmarshalOpts (addr : Bytes) (fuel : Nat) (r : Rd) (c : Cache) (a b sc : Nat) :
    IpfixProg.tplHeaderUnmarshalOpts addr fuel [.thdr a b sc] ⟨r, c⟩ =
      match r.rU16 with
      | none => some (⟨r, c⟩, [.thdr 0 b sc], [IpfixIR.errReader])
      | some (tid, r1) =>
        match r1.rU16 with
        | none => some (⟨r1, c⟩, [.thdr tid 0 sc], [IpfixIR.errReader])
        | some (n, r2) =>
          match r2.rU16 with
          | none => some (⟨r2, c⟩, [.thdr tid n 0], [IpfixIR.errReader])
          | some (m, r3) => some (⟨r3, c⟩, [.thdr tid n m], [.nil]) :=
  IpfixIR.tplHeaderUnmarshalOpts_sem addr fuel r c a b sc

/-- **`SetHeader.unmarshal` translated**: SetID then Length — the two reads with which `Ipfix.decodeSet` begins -/
theorem gen_ir_setHeaderUnmarshal (addr : Bytes) (fuel : Nat) (r : Rd) (c : Cache) (a b : Nat) :
    IpfixProg.setHeaderUnmarshal addr fuel [.shdr a b] ⟨r, c⟩ =
      match r.rU16 with
      | none => some (⟨r, c⟩, [.shdr 0 b], [IpfixIR.errReader])
      | some (sid, r1) =>
        match r1.rU16 with
        | none => some (⟨r1, c⟩, [.shdr sid 0], [IpfixIR.errReader])
        | some (len, r2) => some (⟨r2, c⟩, [.shdr sid len], [.nil]) :=
  IpfixIR.setHeaderUnmarshal_sem addr fuel r c a b

/-- **`TemplateRecord.unmarshal` translated = `Ipfix.parseTpl`** on a fresh record (`tr := TemplateRecord{}` in
`decodeSet`): header, the copies into `tr`, the count-down loop `for i := th.FieldCount; i > 0; i--` that appends one
specifier per round — for every reader state.  `fuel`: more than the octets left (a specifier takes at least 4). -/
theorem gen_ir_tplRecordUnmarshal (addr : Bytes) (fuel : Nat) (r : Rd) (c : Cache) (hfuel : r.rem.length < fuel) :
    match Ipfix.parseTpl r with
    | (.ok t, r') => IpfixProg.tplRecordUnmarshal addr fuel [.tpl Ipfix.emptyTpl] ⟨r, c⟩ = some (⟨r', c⟩, [.tpl t], [.nil])
    | (.error e, r') => ∃ t', IpfixProg.tplRecordUnmarshal addr fuel [.tpl Ipfix.emptyTpl] ⟨r, c⟩ =
        some (⟨r', c⟩, [.tpl t'], [.err ⟨false, e⟩]) :=
  IpfixIR.tplRecordUnmarshal_sem addr fuel r c hfuel

/-- **`TemplateRecord.unmarshalOpts` translated = `Ipfix.parseOptTpl`**: the scope loop, then the loop over
`th.FieldCount - th.ScopeFieldCount` — a 16-bit subtraction that WRAPS when the scope count exceeds the field count,
in the translation (`.bin .sub .u16`) as in the model (`(n + 65536 - sc) % 65536`) -/
theorem gen_ir_tplRecordUnmarshalOpts (addr : Bytes) (fuel : Nat) (r : Rd) (c : Cache) (hfuel : r.rem.length < fuel) :
    match Ipfix.parseOptTpl r with
    | (.ok t, r') => IpfixProg.tplRecordUnmarshalOpts addr fuel [.tpl Ipfix.emptyTpl] ⟨r, c⟩ = some (⟨r', c⟩, [.tpl t], [.nil])
    | (.error e, r') => ∃ t', IpfixProg.tplRecordUnmarshalOpts addr fuel [.tpl Ipfix.emptyTpl] ⟨r, c⟩ =
        some (⟨r', c⟩, [.tpl t'], [.err ⟨false, e⟩]) :=
  IpfixIR.tplRecordUnmarshalOpts_sem addr fuel r c hfuel

/-- **`MessageHeader.unmarshal` translated = `Ipfix.readHeader`**: Version, Length (16 bits), ExportTime, SequenceNo,
DomainID (32 bits) in this order; any short read gives the reader's error -/
theorem gen_ir_msgHeaderUnmarshal (addr : Bytes) (fuel : Nat) (r : Rd) (c : Cache) (h0 : IpfixIR.MHdr) :
    match Ipfix.readHeader r with
    | some (h, r') => ∃ h1 : IpfixIR.MHdr, h1.toHdr = h ∧
        IpfixProg.msgHeaderUnmarshal addr fuel [.mhdr h0] ⟨r, c⟩ = some (⟨r', c⟩, [.mhdr h1], [.nil])
    | none => ∃ r' h1, IpfixProg.msgHeaderUnmarshal addr fuel [.mhdr h0] ⟨r, c⟩ =
        some (⟨r', c⟩, [.mhdr h1], [IpfixIR.errReader]) :=
  IpfixIR.msgHeaderUnmarshal_sem addr fuel r c h0

/-- **`MessageHeader.validate` translated**: the version test of `Ipfix.decode` (`h.headD 0 ≠ 10`), a fatal error -/
theorem gen_ir_msgHeaderValidate (addr : Bytes) (fuel : Nat) (st : IpfixIR.St) (h : IpfixIR.MHdr) :
    IpfixProg.msgHeaderValidate addr fuel [.mhdr h] st =
      some (st, [.mhdr h], [if h.toHdr.headD 0 ≠ 10 then .err ⟨false, .badVersion⟩ else .nil]) :=
  IpfixIR.msgHeaderValidate_sem addr fuel st h

set_option maxRecDepth 100000 in
/-- non-vacuity: the translated `TemplateRecord.unmarshal` on the record `01 00 00 02 | 00 08 00 04 | 00 0c 00 04`
(template 256 with two fields) and on the same record cut inside its second specifier -/
example : IpfixProg.tplRecordUnmarshal [] 13 [.tpl Ipfix.emptyTpl] ⟨⟨[1, 0, 0, 2, 0, 8, 0, 4, 0, 12, 0, 4], 0⟩, []⟩ =
    some (⟨⟨[], 12⟩, []⟩, [.tpl ⟨256, 2, 0, [], [⟨8, 4, 0⟩, ⟨12, 4, 0⟩]⟩], [.nil]) :=
  gen_ir_tplRecordUnmarshal [] 13 ⟨[1, 0, 0, 2, 0, 8, 0, 4, 0, 12, 0, 4], 0⟩ [] (by decide)
set_option maxRecDepth 100000 in
example : ∃ t', IpfixProg.tplRecordUnmarshal [] 13 [.tpl Ipfix.emptyTpl] ⟨⟨[1, 0, 0, 2, 0, 8, 0, 4, 0, 12, 0], 0⟩, []⟩ =
    some (⟨⟨[0], 10⟩, []⟩, [.tpl t'], [.err ⟨false, .short⟩]) :=
  gen_ir_tplRecordUnmarshal [] 13 ⟨[1, 0, 0, 2, 0, 8, 0, 4, 0, 12, 0], 0⟩ [] (by decide)

/-- non-vacuity: the translated `getDataLength` on the three-octet prefix `ff 01 00` and on a short reader; the
translated `minRecordLen` on a template with a variable-length field -/
example : IpfixProg.getDataLength [] 0 [.int 65535] ⟨⟨[255, 1, 0, 7], 0⟩, []⟩ = some (⟨⟨[7], 3⟩, []⟩, [], [.int 256, .nil]) ∧
    IpfixProg.getDataLength [] 0 [.int 65535] ⟨⟨[255, 1], 0⟩, []⟩ = some (⟨⟨[1], 1⟩, []⟩, [], [.int 0, .err ⟨false, .short⟩]) ∧
    IpfixProg.minRecordLen [] 0 [.tpl exTpl] ⟨⟨[], 0⟩, []⟩ = some (⟨⟨[], 0⟩, []⟩, [.tpl exTpl], [.int 5]) := by
  refine ⟨?_, ?_, ?_⟩
  · rw [gen_ir_getDataLength]; rfl
  · rw [gen_ir_getDataLength]; rfl
  · rw [gen_ir_minRecordLen]; rfl

/-- **Tie (control-flow skeleton)**: every branch / loop condition, switch case and `break` / `continue` of the
sources this model mirrors, re-extracted on every run, is exactly the reviewed inventory in `Spec/Sites.lean`
(which names the model clause of each).  A changed bound, a new or dropped branch breaks this obligation. -/
theorem guards_reviewed : Gen.Sites.guardsIpfix = Spec.Sites.guardsIpfix := by decide +kernel

end Vflow.C03
