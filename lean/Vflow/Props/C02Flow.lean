import Vflow.Proofs.AllocIpfix
import Vflow.Proofs.AllocV9
/-!
# C02 (model part, IPFIX and NetFlow v9) — termination with the supplied fuel, record bound

`decode` hands `bs.length + 1` units of fuel to the set loop (`outer`) and `rem.length + 1` to every
record loop (`setLoop`).  The theorems say that this is always enough — the model never answers
`fuel`, i.e. (through the differential correspondence) the Go decoder terminates on every datagram,
for every content of the template cache — that the number of decoded records is bounded by the
datagram length, and that templates and records cannot have more fields than a bound `K` on the
cached templates' sizes and a quarter of the datagram length (allocation bound: total decoded fields
≤ `bs.length * K`).  Not covered: the octets held by the decoded values (each value is a slice of the
datagram; no theorem here).  All statements quantify over every cache `c`, every exporter address `addr` and
every octet string `bs`.
-/
namespace Vflow.C02Flow
open Vflow

/-! ## IPFIX -/

/-- **C02 termination (IPFIX)**: the fuel supplied by `decode` always suffices. -/
theorem ipfix_terminates (c : Cache) (addr bs : Bytes) :
    (Ipfix.decode c addr bs).1 ≠ .error .fuel :=
  (Ipfix.decode_fuel_records c addr bs).1

/-- **C02 record bound (IPFIX)**: every kept record consumed at least one octet of this datagram. -/
theorem ipfix_record_bound (c : Cache) (addr bs : Bytes) :
    (Ipfix.recordsOf (Ipfix.decode c addr bs).1).length ≤ bs.length :=
  (Ipfix.decode_fuel_records c addr bs).2

/-- the record loop alone: more fuel than octets left ⇒ no `fuel`, the reader only moves forward inside
the same buffer, and records added + octets left never exceeds what it was -/
theorem ipfix_setLoop_fuel (ctx : Ipfix.Ctx) (fuel : Nat) (st : Ipfix.St)
    (h : st.r.rem.length < fuel) :
    (Ipfix.setLoop ctx fuel st).2.1 ≠ some .fuel ∧
    (Ipfix.setLoop ctx fuel st).1.recs.length + (Ipfix.setLoop ctx fuel st).1.r.rem.length
      ≤ st.recs.length + st.r.rem.length := by
  have := Ipfix.setLoop_fuel ctx fuel st _ _ _ h rfl
  exact ⟨this.1, this.2.2⟩

/-- **C02 template size (IPFIX)**: a template record parsed from a datagram consumed at least
4 + 4 × (number of its specifiers) octets of it — a template never has more than a quarter of the
datagram's length in specifiers. -/
theorem ipfix_template_size (r r' : Rd) (t : Template) (h : Ipfix.parseTpl r = (.ok t, r')) :
    r.cnt + 4 + 4 * (t.scope.length + t.fields.length) ≤ r'.cnt ∧
    r'.cnt + r'.rem.length = r.cnt + r.rem.length :=
  ⟨(Ipfix.parseTpl_adv h).2 t rfl, (Ipfix.parseTpl_adv h).1.1⟩

theorem ipfix_optTemplate_size (r r' : Rd) (t : Template) (h : Ipfix.parseOptTpl r = (.ok t, r')) :
    r.cnt + 4 + 4 * (t.scope.length + t.fields.length) ≤ r'.cnt ∧
    r'.cnt + r'.rem.length = r.cnt + r.rem.length :=
  ⟨(Ipfix.parseOptTpl_adv h).2 t rfl, (Ipfix.parseOptTpl_adv h).1.1⟩

/-- **C02 allocation bound (IPFIX)**: let `K` bound the specifier count of every template in the cache
before the datagram and let `bs.length / 4 ≤ K`.  Then every template in the cache afterwards has at
most `K` specifiers (those parsed from this datagram have at most `bs.length / 4`), every decoded
record has at most `K` fields, and the total number of decoded fields is at most `bs.length * K`. -/
theorem ipfix_alloc_bound (c : Cache) (addr bs : Bytes) (K : Nat)
    (hc : ∀ e ∈ c, e.2.scope.length + e.2.fields.length ≤ K) (hK : bs.length / 4 ≤ K) :
    (∀ e ∈ (Ipfix.decode c addr bs).2, e.2.scope.length + e.2.fields.length ≤ K) ∧
    (∀ r ∈ Ipfix.recordsOf (Ipfix.decode c addr bs).1, r.length ≤ K) ∧
    ((Ipfix.recordsOf (Ipfix.decode c addr bs).1).map List.length).sum ≤ bs.length * K := by
  have h := Ipfix.decode_alloc c addr bs K hc hK
  refine ⟨h.1, h.2, ?_⟩
  have h1 := Ipfix.fieldCount_le K _ h.2
  have h2 := ipfix_record_bound c addr bs
  exact Nat.le_trans h1 (Nat.mul_le_mul_right K h2)

/-! ## NetFlow v9 -/

/-- **C02 termination (NetFlow v9)**: the fuel supplied by `decode` always suffices. -/
theorem v9_terminates (c : Cache) (addr bs : Bytes) :
    (V9.decode c addr bs).1 ≠ .error .fuel :=
  (V9.decode_fuel_records c addr bs).1

/-- **C02 record bound (NetFlow v9)** -/
theorem v9_record_bound (c : Cache) (addr bs : Bytes) :
    (V9.recordsOf (V9.decode c addr bs).1).length ≤ bs.length :=
  (V9.decode_fuel_records c addr bs).2

theorem v9_setLoop_fuel (ctx : V9.Ctx) (fuel : Nat) (st : V9.St)
    (h : st.r.rem.length < fuel) :
    (V9.setLoop ctx fuel st).2 ≠ some .fuel ∧
    (V9.setLoop ctx fuel st).1.recs.length + (V9.setLoop ctx fuel st).1.r.rem.length
      ≤ st.recs.length + st.r.rem.length := by
  have := V9.setLoop_fuel ctx fuel st _ _ h rfl
  exact ⟨this.1, this.2.2⟩

theorem v9_template_size (r r' : Rd) (t : Template) (h : V9.parseTpl r = (.ok t, r')) :
    r.cnt + 4 + 4 * (t.scope.length + t.fields.length) ≤ r'.cnt ∧
    r'.cnt + r'.rem.length = r.cnt + r.rem.length :=
  ⟨(V9.parseTpl_adv h).2 t rfl, (V9.parseTpl_adv h).1.1⟩

theorem v9_optTemplate_size (r r' : Rd) (t : Template) (h : V9.parseOptTpl r = (.ok t, r')) :
    r.cnt + 4 + 4 * (t.scope.length + t.fields.length) ≤ r'.cnt ∧
    r'.cnt + r'.rem.length = r.cnt + r.rem.length :=
  ⟨(V9.parseOptTpl_adv h).2 t rfl, (V9.parseOptTpl_adv h).1.1⟩

/-- **C02 allocation bound (NetFlow v9)**, as for IPFIX -/
theorem v9_alloc_bound (c : Cache) (addr bs : Bytes) (K : Nat)
    (hc : ∀ e ∈ c, e.2.scope.length + e.2.fields.length ≤ K) (hK : bs.length / 4 ≤ K) :
    (∀ e ∈ (V9.decode c addr bs).2, e.2.scope.length + e.2.fields.length ≤ K) ∧
    (∀ r ∈ V9.recordsOf (V9.decode c addr bs).1, r.length ≤ K) ∧
    ((V9.recordsOf (V9.decode c addr bs).1).map List.length).sum ≤ bs.length * K := by
  have h := V9.decode_alloc c addr bs K hc hK
  refine ⟨h.1, h.2, ?_⟩
  have h1 := V9.fieldCount_le K _ h.2
  have h2 := v9_record_bound c addr bs
  exact Nat.le_trans h1 (Nat.mul_le_mul_right K h2)

/-! ## Non-vacuity: the zero-length-record datagrams (the F2 hang before the repair)

A cached template whose records occupy no octets: the record loop ends with the non-fatal `zeroRec`
instead of spinning (= `fuel` in the model). -/

def exAddr : Bytes := [127, 0, 0, 1]

/-- v9: template 256 with no field at all -/
def exCacheV9 : Cache := Cache.insert [] exAddr 256 ⟨256, 0, 0, [], []⟩
def exDgV9 : Bytes :=
  [0,9,0,1, 0,0,0,1, 0,0,0,2, 0,0,0,3, 0,0,0,4] ++ [1,0, 0,12, 1,2,3,4,5,6,7,8]

example : (V9.decode exCacheV9 exAddr exDgV9).1 = .ok ([9,1,1,2,3,4], [], [.zeroRec]) := by rfl

/-- with too little fuel the same loop does answer `fuel`: the `fuel` outcome is reachable in the
model, the theorems above are not vacuous -/
example : (V9.setLoop ⟨exAddr, 256, 12, 20, ⟨256, 0, 0, [], []⟩⟩ 0 ⟨⟨[1,2,3,4,5,6,7,8], 24⟩, [], []⟩).2
    = some .fuel := by rfl

/-- IPFIX: template 256 with one field (octetDeltaCount) of length 0 -/
def exCacheIpfix : Cache := Cache.insert [] exAddr 256 ⟨256, 1, 0, [], [⟨1, 0, 0⟩]⟩
def exDgIpfix : Bytes :=
  [0,10,0,28, 0,0,0,1, 0,0,0,2, 0,0,0,3] ++ [1,0, 0,12, 1,2,3,4,5,6,7,8]

set_option maxRecDepth 100000 in
example : (Ipfix.decode exCacheIpfix exAddr exDgIpfix).1 = .ok ([10,28,1,2,3], [], [.zeroRec]) := by rfl

end Vflow.C02Flow
