import Vflow.Proofs.AllocIpfix
import Vflow.Proofs.AllocV9
import Vflow.Proofs.LinearIpfix
import Vflow.Proofs.LinearV9
/-!
# C02 (model part, IPFIX and NetFlow v9) — termination with the supplied fuel, record bound

`decode` hands `bs.length + 1` units of fuel to the set loop (`outer`) and `rem.length + 1` to every
record loop (`setLoop`).  The theorems say that this is always enough — the model never answers
`fuel`, i.e. (through the differential correspondence) the Go decoder terminates on every datagram,
for every content of the template cache — that the number of decoded records is bounded by the
datagram length, and that templates and records cannot have more fields than a bound `K` on the
cached templates' sizes and a quarter of the datagram length (product bound: total decoded fields
≤ `bs.length * K`), and that the product is due to the zero-length field specifiers alone (finding K4): the
number of decoded fields is at most `bs.length + records × Z` — `Z` the largest number of zero-length
specifiers of a template in force during the decode — and at most `bs.length` when no template has such a
specifier (`*_record_fields_le_octets`, `*_fields_linear`, `*_fields_le_octets`).  Not covered: the octets held by the decoded values (each value is a slice of the
datagram; no theorem here).  All statements quantify over every cache `c`, every exporter address `addr` and
every octet string `bs`.
-/
namespace Vflow.C02Flow
open Vflow

/-! ## IPFIX -/

/-- **C02 termination (IPFIX)**: the fuel supplied by `decode` always suffices. -/
theorem ipfix_terminates (c : Cache) (addr bs : Bytes) :
    (Ipfix.decode c addr bs).1 ≠ .error .fuel :=
  (Ipfix.decode_fuel_records c addr bs).1

/-- **C02 record bound (IPFIX)**: every kept record consumed at least one octet of this datagram. -/
theorem ipfix_record_bound (c : Cache) (addr bs : Bytes) :
    (Ipfix.recordsOf (Ipfix.decode c addr bs).1).length ≤ bs.length :=
  (Ipfix.decode_fuel_records c addr bs).2

/-- the record loop alone: more fuel than octets left ⇒ no `fuel`, the reader only moves forward inside
the same buffer, and records added + octets left never exceeds what it was -/
theorem ipfix_setLoop_fuel (ctx : Ipfix.Ctx) (fuel : Nat) (st : Ipfix.St)
    (h : st.r.rem.length < fuel) :
    (Ipfix.setLoop ctx fuel st).2.1 ≠ some .fuel ∧
    (Ipfix.setLoop ctx fuel st).1.recs.length + (Ipfix.setLoop ctx fuel st).1.r.rem.length
      ≤ st.recs.length + st.r.rem.length := by
  have := Ipfix.setLoop_fuel ctx fuel st _ _ _ h rfl
  exact ⟨this.1, this.2.2⟩

/-- **C02 template size (IPFIX)**: a template record parsed from a datagram consumed at least
4 + 4 × (number of its specifiers) octets of it — a template never has more than a quarter of the
datagram's length in specifiers. -/
theorem ipfix_template_size (r r' : Rd) (t : Template) (h : Ipfix.parseTpl r = (.ok t, r')) :
    r.cnt + 4 + 4 * (t.scope.length + t.fields.length) ≤ r'.cnt ∧
    r'.cnt + r'.rem.length = r.cnt + r.rem.length :=
  ⟨(Ipfix.parseTpl_adv h).2 t rfl, (Ipfix.parseTpl_adv h).1.1⟩

theorem ipfix_optTemplate_size (r r' : Rd) (t : Template) (h : Ipfix.parseOptTpl r = (.ok t, r')) :
    r.cnt + 4 + 4 * (t.scope.length + t.fields.length) ≤ r'.cnt ∧
    r'.cnt + r'.rem.length = r.cnt + r.rem.length :=
  ⟨(Ipfix.parseOptTpl_adv h).2 t rfl, (Ipfix.parseOptTpl_adv h).1.1⟩

/-- **C02 allocation bound (IPFIX)**: let `K` bound the specifier count of every template in the cache
before the datagram and let `bs.length / 4 ≤ K`.  Then every template in the cache afterwards has at
most `K` specifiers (those parsed from this datagram have at most `bs.length / 4`), every decoded
record has at most `K` fields, and the total number of decoded fields is at most `bs.length * K`. -/
theorem ipfix_alloc_bound (c : Cache) (addr bs : Bytes) (K : Nat)
    (hc : ∀ e ∈ c, e.2.scope.length + e.2.fields.length ≤ K) (hK : bs.length / 4 ≤ K) :
    (∀ e ∈ (Ipfix.decode c addr bs).2, e.2.scope.length + e.2.fields.length ≤ K) ∧
    (∀ r ∈ Ipfix.recordsOf (Ipfix.decode c addr bs).1, r.length ≤ K) ∧
    ((Ipfix.recordsOf (Ipfix.decode c addr bs).1).map List.length).sum ≤ bs.length * K := by
  have h := Ipfix.decode_alloc c addr bs K hc hK
  refine ⟨h.1, h.2, ?_⟩
  have h1 := Ipfix.fieldCount_le K _ h.2
  have h2 := ipfix_record_bound c addr bs
  exact Nat.le_trans h1 (Nat.mul_le_mul_right K h2)

/-- **C02 per record, linear (IPFIX; finding K4)**: a decoded data record has at most as many fields as it
consumed octets of the datagram, plus `zeroSpecs tr` — the number of specifiers of length 0 of its template
(scope and ordinary ones).  Unconditional: every specifier whose length is not 0 consumes at least one octet (a
fixed length `n ≥ 1` reads `n` octets; the variable-length marker 65535 reads at least its one-octet length
prefix, for every element type since the F23 repair); a specifier of length 0 is decoded — an entry with an
empty value — without consuming anything, which is K4. -/
theorem ipfix_record_fields_le_octets (tr : Template) (r r' : Rd) (fs : Record)
    (h : Ipfix.decodeData tr r = (.ok fs, r')) :
    fs.length ≤ (r'.cnt - r.cnt) + zeroSpecs tr :=
  Ipfix.decodeData_lin h

/-- **C02 allocation bound, linear (IPFIX; finding K4)**: let `Z` bound the number of zero-length field
specifiers (`zeroSpecs`) of every template that is in force at some point of the decode: every template of the
cache before the datagram (`hc`) and every template record or options template record that parses at some
offset of the datagram (`hP`; the reader is always the suffix of the datagram at its own offset, so these
include every template the decode inserts).  Then the total number of decoded fields is at most the number of
octets of the datagram plus `Z` per decoded record, hence at most `bs.length * (1 + Z)`, and every template of
the cache afterwards has at most `Z` zero-length specifiers (the statement composes over a sequence of
datagrams).  The term `records × Z` is exactly finding K4 (R short records of a template with Z zero-length
specifiers cost R × Z entries); it cannot be dropped, see `exK4Ipfix` below. -/
theorem ipfix_fields_linear (c : Cache) (addr bs : Bytes) (Z : Nat)
    (hc : ∀ e ∈ c, zeroSpecs e.2 ≤ Z)
    (hP : ∀ k t r', k ≤ bs.length →
      (Ipfix.parseTpl ⟨bs.drop k, k⟩ = (.ok t, r') ∨ Ipfix.parseOptTpl ⟨bs.drop k, k⟩ = (.ok t, r')) →
      zeroSpecs t ≤ Z) :
    ((Ipfix.recordsOf (Ipfix.decode c addr bs).1).map List.length).sum
      ≤ bs.length + (Ipfix.recordsOf (Ipfix.decode c addr bs).1).length * Z ∧
    ((Ipfix.recordsOf (Ipfix.decode c addr bs).1).map List.length).sum ≤ bs.length * (1 + Z) ∧
    (∀ e ∈ (Ipfix.decode c addr bs).2, zeroSpecs e.2 ≤ Z) := by
  have h := Ipfix.decode_linear c addr bs Z hc hP
  have h2 := ipfix_record_bound c addr bs
  refine ⟨h.2, ?_, h.1⟩
  have h3 := Nat.mul_le_mul_right Z h2
  have h4 := h.2
  simp only [fieldSum] at h4
  rw [Nat.mul_add, Nat.mul_one]
  omega

/-- **C02, no zero-length specifier (IPFIX)**: the case `Z = 0` of `ipfix_fields_linear` — when no cached
template and no template record of the datagram has a field specifier of length 0 (finding K4 out of the way),
the number of decoded fields is at most the number of octets of the datagram. -/
theorem ipfix_fields_le_octets (c : Cache) (addr bs : Bytes)
    (hc : ∀ e ∈ c, zeroSpecs e.2 = 0)
    (hP : ∀ k t r', k ≤ bs.length →
      (Ipfix.parseTpl ⟨bs.drop k, k⟩ = (.ok t, r') ∨ Ipfix.parseOptTpl ⟨bs.drop k, k⟩ = (.ok t, r')) →
      zeroSpecs t = 0) :
    ((Ipfix.recordsOf (Ipfix.decode c addr bs).1).map List.length).sum ≤ bs.length := by
  have h := (ipfix_fields_linear c addr bs 0 (fun e he => Nat.le_of_eq (hc e he))
    (fun k t r' hk hp => Nat.le_of_eq (hP k t r' hk hp))).1
  simpa using h

/-! ## NetFlow v9 -/

/-- **C02 termination (NetFlow v9)**: the fuel supplied by `decode` always suffices. -/
theorem v9_terminates (c : Cache) (addr bs : Bytes) :
    (V9.decode c addr bs).1 ≠ .error .fuel :=
  (V9.decode_fuel_records c addr bs).1

/-- **C02 record bound (NetFlow v9)** -/
theorem v9_record_bound (c : Cache) (addr bs : Bytes) :
    (V9.recordsOf (V9.decode c addr bs).1).length ≤ bs.length :=
  (V9.decode_fuel_records c addr bs).2

theorem v9_setLoop_fuel (ctx : V9.Ctx) (fuel : Nat) (st : V9.St)
    (h : st.r.rem.length < fuel) :
    (V9.setLoop ctx fuel st).2 ≠ some .fuel ∧
    (V9.setLoop ctx fuel st).1.recs.length + (V9.setLoop ctx fuel st).1.r.rem.length
      ≤ st.recs.length + st.r.rem.length := by
  have := V9.setLoop_fuel ctx fuel st _ _ h rfl
  exact ⟨this.1, this.2.2⟩

theorem v9_template_size (r r' : Rd) (t : Template) (h : V9.parseTpl r = (.ok t, r')) :
    r.cnt + 4 + 4 * (t.scope.length + t.fields.length) ≤ r'.cnt ∧
    r'.cnt + r'.rem.length = r.cnt + r.rem.length :=
  ⟨(V9.parseTpl_adv h).2 t rfl, (V9.parseTpl_adv h).1.1⟩

theorem v9_optTemplate_size (r r' : Rd) (t : Template) (h : V9.parseOptTpl r = (.ok t, r')) :
    r.cnt + 4 + 4 * (t.scope.length + t.fields.length) ≤ r'.cnt ∧
    r'.cnt + r'.rem.length = r.cnt + r.rem.length :=
  ⟨(V9.parseOptTpl_adv h).2 t rfl, (V9.parseOptTpl_adv h).1.1⟩

/-- **C02 allocation bound (NetFlow v9)**, as for IPFIX -/
theorem v9_alloc_bound (c : Cache) (addr bs : Bytes) (K : Nat)
    (hc : ∀ e ∈ c, e.2.scope.length + e.2.fields.length ≤ K) (hK : bs.length / 4 ≤ K) :
    (∀ e ∈ (V9.decode c addr bs).2, e.2.scope.length + e.2.fields.length ≤ K) ∧
    (∀ r ∈ V9.recordsOf (V9.decode c addr bs).1, r.length ≤ K) ∧
    ((V9.recordsOf (V9.decode c addr bs).1).map List.length).sum ≤ bs.length * K := by
  have h := V9.decode_alloc c addr bs K hc hK
  refine ⟨h.1, h.2, ?_⟩
  have h1 := V9.fieldCount_le K _ h.2
  have h2 := v9_record_bound c addr bs
  exact Nat.le_trans h1 (Nat.mul_le_mul_right K h2)

/-- **C02 per record, linear (NetFlow v9; finding K4)**: a decoded data record has at most as many fields as it
consumed octets of the datagram, plus `zeroSpecs tr` — the number of specifiers of length 0 of its template.
Unconditional: a specifier of length `n` reads exactly `n` octets (NetFlow v9 has no variable-length fields);
one of length 0 is decoded — an entry with an empty value — without consuming anything, which is K4. -/
theorem v9_record_fields_le_octets (tr : Template) (r r' : Rd) (fs : Record)
    (h : V9.decodeData tr r = (.ok fs, r')) :
    fs.length ≤ (r'.cnt - r.cnt) + zeroSpecs tr :=
  V9.decodeData_lin h

/-- **C02 allocation bound, linear (NetFlow v9; finding K4)**, as `ipfix_fields_linear`: `Z` bounds the number
of zero-length field specifiers (`zeroSpecs`) of every template in force at some point of the decode — those of
the cache before the datagram (`hc`) and every template / options template record that parses at some offset
of the datagram (`hP`).  Then decoded fields ≤ octets + `Z` per decoded record ≤ `bs.length * (1 + Z)`, and the
cache afterwards satisfies the same bound.  The term `records × Z` is exactly finding K4, see `exK4V9`. -/
theorem v9_fields_linear (c : Cache) (addr bs : Bytes) (Z : Nat)
    (hc : ∀ e ∈ c, zeroSpecs e.2 ≤ Z)
    (hP : ∀ k t r', k ≤ bs.length →
      (V9.parseTpl ⟨bs.drop k, k⟩ = (.ok t, r') ∨ V9.parseOptTpl ⟨bs.drop k, k⟩ = (.ok t, r')) →
      zeroSpecs t ≤ Z) :
    ((V9.recordsOf (V9.decode c addr bs).1).map List.length).sum
      ≤ bs.length + (V9.recordsOf (V9.decode c addr bs).1).length * Z ∧
    ((V9.recordsOf (V9.decode c addr bs).1).map List.length).sum ≤ bs.length * (1 + Z) ∧
    (∀ e ∈ (V9.decode c addr bs).2, zeroSpecs e.2 ≤ Z) := by
  have h := V9.decode_linear c addr bs Z hc hP
  have h2 := v9_record_bound c addr bs
  refine ⟨h.2, ?_, h.1⟩
  have h3 := Nat.mul_le_mul_right Z h2
  have h4 := h.2
  simp only [fieldSum] at h4
  rw [Nat.mul_add, Nat.mul_one]
  omega

/-- **C02, no zero-length specifier (NetFlow v9)**: the case `Z = 0` of `v9_fields_linear` — when no cached
template and no template record of the datagram has a field specifier of length 0 (finding K4 out of the way),
the number of decoded fields is at most the number of octets of the datagram. -/
theorem v9_fields_le_octets (c : Cache) (addr bs : Bytes)
    (hc : ∀ e ∈ c, zeroSpecs e.2 = 0)
    (hP : ∀ k t r', k ≤ bs.length →
      (V9.parseTpl ⟨bs.drop k, k⟩ = (.ok t, r') ∨ V9.parseOptTpl ⟨bs.drop k, k⟩ = (.ok t, r')) →
      zeroSpecs t = 0) :
    ((V9.recordsOf (V9.decode c addr bs).1).map List.length).sum ≤ bs.length := by
  have h := (v9_fields_linear c addr bs 0 (fun e he => Nat.le_of_eq (hc e he))
    (fun k t r' hk hp => Nat.le_of_eq (hP k t r' hk hp))).1
  simpa using h

/-! ## Non-vacuity: the zero-length-record datagrams (the F2 hang before the repair)

A cached template whose records occupy no octets: the record loop ends with the non-fatal `zeroRec`
instead of spinning (= `fuel` in the model). -/

def exAddr : Bytes := [127, 0, 0, 1]

/-- v9: template 256 with no field at all -/
def exCacheV9 : Cache := Cache.insert [] exAddr 256 ⟨256, 0, 0, [], []⟩
def exDgV9 : Bytes :=
  [0,9,0,1, 0,0,0,1, 0,0,0,2, 0,0,0,3, 0,0,0,4] ++ [1,0, 0,12, 1,2,3,4,5,6,7,8]

example : (V9.decode exCacheV9 exAddr exDgV9).1 = .ok ([9,1,1,2,3,4], [], [.zeroRec]) := by rfl

/-- with too little fuel the same loop does answer `fuel`: the `fuel` outcome is reachable in the
model, the theorems above are not vacuous -/
example : (V9.setLoop ⟨exAddr, 256, 12, 20, ⟨256, 0, 0, [], []⟩⟩ 0 ⟨⟨[1,2,3,4,5,6,7,8], 24⟩, [], []⟩).2
    = some .fuel := by rfl

/-- IPFIX: template 256 with one field (octetDeltaCount) of length 0 -/
def exCacheIpfix : Cache := Cache.insert [] exAddr 256 ⟨256, 1, 0, [], [⟨1, 0, 0⟩]⟩
def exDgIpfix : Bytes :=
  [0,10,0,28, 0,0,0,1, 0,0,0,2, 0,0,0,3] ++ [1,0, 0,12, 1,2,3,4,5,6,7,8]

set_option maxRecDepth 100000 in
example : (Ipfix.decode exCacheIpfix exAddr exDgIpfix).1 = .ok ([10,28,1,2,3], [], [.zeroRec]) := by rfl

/-! ## Non-vacuity of the linear bounds, and the K4 instance that shows the zero-length term is needed -/

/-- IPFIX, no zero-length specifier anywhere: template 256 (one 2-octet field) is cached; the datagram (60
octets) announces template 257 (two 4-octet fields), then carries two records of 257 and two of 256 -/
def exLinCacheIpfix : Cache := Cache.insert [] exAddr 256 ⟨256, 1, 0, [], [⟨1, 2, 0⟩]⟩
def exLinDgIpfix : Bytes :=
  [0,10,0,60, 1,2,3,4, 5,6,7,8, 9,10,11,12] ++
  [0,2, 0,16, 1,1, 0,2, 0,1,0,4, 0,2,0,4] ++
  [1,1, 0,20, 1,2,3,4, 5,6,7,8, 1,2,3,4, 5,6,7,8] ++
  [1,0, 0,8, 0,1, 0,2]

/-- the hypotheses of `ipfix_fields_le_octets` hold for it … -/
theorem exLinIpfix_hc : ∀ e ∈ exLinCacheIpfix, zeroSpecs e.2 = 0 := by decide
theorem exLinIpfix_hP : ∀ k t r', k ≤ exLinDgIpfix.length →
    (Ipfix.parseTpl ⟨exLinDgIpfix.drop k, k⟩ = (.ok t, r') ∨
     Ipfix.parseOptTpl ⟨exLinDgIpfix.drop k, k⟩ = (.ok t, r')) → zeroSpecs t = 0 := by
  intro k t r' hk hp
  exact Nat.le_zero.mp (Ipfix.TplZ.of_check (bs := exLinDgIpfix) (Z := 0) (by decide +kernel) k t r' hk hp)

/-- … and the conclusion is about a decode that does produce records: 6 fields in 4 records from 60 octets -/
example : ((Ipfix.recordsOf (Ipfix.decode exLinCacheIpfix exAddr exLinDgIpfix).1).map List.length) = [2, 2, 1, 1] ∧
    exLinDgIpfix.length = 60 := by decide +kernel
example : ((Ipfix.recordsOf (Ipfix.decode exLinCacheIpfix exAddr exLinDgIpfix).1).map List.length).sum ≤ 60 :=
  ipfix_fields_le_octets _ _ _ exLinIpfix_hc exLinIpfix_hP

/-- **K4 (IPFIX)**: a cached template with seven zero-length specifiers and one 1-octet specifier; eight
1-octet records ⇒ 64 decoded fields from a 28-octet datagram.  `Z = 7`: the linear bound gives
`28 + 8 × 7 = 84`; without the zero-length term (`≤ 28`) the statement would be false. -/
def exK4Tpl : Template :=
  ⟨256, 8, 0, [], [⟨1,0,0⟩, ⟨1,0,0⟩, ⟨1,0,0⟩, ⟨1,0,0⟩, ⟨1,0,0⟩, ⟨1,0,0⟩, ⟨1,0,0⟩, ⟨4,1,0⟩]⟩
def exK4CacheIpfix : Cache := Cache.insert [] exAddr 256 exK4Tpl
def exK4Ipfix : Bytes :=
  [0,10,0,28, 1,2,3,4, 5,6,7,8, 9,10,11,12] ++ [1,0, 0,12, 1,2,3,4,5,6,7,8]

example : zeroSpecs exK4Tpl = 7 := by decide
example : ((Ipfix.recordsOf (Ipfix.decode exK4CacheIpfix exAddr exK4Ipfix).1).map List.length).sum = 64 ∧
    (Ipfix.recordsOf (Ipfix.decode exK4CacheIpfix exAddr exK4Ipfix).1).length = 8 ∧
    exK4Ipfix.length = 28 := by decide +kernel
example : ((Ipfix.recordsOf (Ipfix.decode exK4CacheIpfix exAddr exK4Ipfix).1).map List.length).sum
    ≤ exK4Ipfix.length + (Ipfix.recordsOf (Ipfix.decode exK4CacheIpfix exAddr exK4Ipfix).1).length * 7 :=
  (ipfix_fields_linear exK4CacheIpfix exAddr exK4Ipfix 7 (by decide)
    (Ipfix.TplZ.of_check (by decide +kernel))).1

/-- NetFlow v9, no zero-length specifier anywhere (64 octets; same shape as `exLinDgIpfix`) -/
def exLinCacheV9 : Cache := Cache.insert [] exAddr 256 ⟨256, 1, 0, [], [⟨1, 2, 0⟩]⟩
def exLinDgV9 : Bytes :=
  [0,9,0,3, 1,2,3,4, 5,6,7,8, 9,10,11,12, 13,14,15,16] ++
  [0,0, 0,16, 1,1, 0,2, 0,1,0,4, 0,2,0,4] ++
  [1,1, 0,20, 1,2,3,4, 5,6,7,8, 1,2,3,4, 5,6,7,8] ++
  [1,0, 0,8, 0,1, 0,2]

theorem exLinV9_hc : ∀ e ∈ exLinCacheV9, zeroSpecs e.2 = 0 := by decide
theorem exLinV9_hP : ∀ k t r', k ≤ exLinDgV9.length →
    (V9.parseTpl ⟨exLinDgV9.drop k, k⟩ = (.ok t, r') ∨
     V9.parseOptTpl ⟨exLinDgV9.drop k, k⟩ = (.ok t, r')) → zeroSpecs t = 0 := by
  intro k t r' hk hp
  exact Nat.le_zero.mp (V9.TplZ.of_check (bs := exLinDgV9) (Z := 0) (by decide +kernel) k t r' hk hp)

example : ((V9.recordsOf (V9.decode exLinCacheV9 exAddr exLinDgV9).1).map List.length) = [2, 2, 1, 1] ∧
    exLinDgV9.length = 64 := by decide +kernel
example : ((V9.recordsOf (V9.decode exLinCacheV9 exAddr exLinDgV9).1).map List.length).sum ≤ 64 :=
  v9_fields_le_octets _ _ _ exLinV9_hc exLinV9_hP

/-- **K4 (NetFlow v9)**: the same template, eight 1-octet records ⇒ 64 decoded fields from a 32-octet
datagram; the linear bound with `Z = 7` gives `32 + 8 × 7 = 88` -/
def exK4CacheV9 : Cache := Cache.insert [] exAddr 256 exK4Tpl
def exK4V9 : Bytes :=
  [0,9,0,1, 1,2,3,4, 5,6,7,8, 9,10,11,12, 13,14,15,16] ++ [1,0, 0,12, 1,2,3,4,5,6,7,8]

example : ((V9.recordsOf (V9.decode exK4CacheV9 exAddr exK4V9).1).map List.length).sum = 64 ∧
    (V9.recordsOf (V9.decode exK4CacheV9 exAddr exK4V9).1).length = 8 ∧
    exK4V9.length = 32 := by decide +kernel
example : ((V9.recordsOf (V9.decode exK4CacheV9 exAddr exK4V9).1).map List.length).sum
    ≤ exK4V9.length + (V9.recordsOf (V9.decode exK4CacheV9 exAddr exK4V9).1).length * 7 :=
  (v9_fields_linear exK4CacheV9 exAddr exK4V9 7 (by decide)
    (V9.TplZ.of_check (by decide +kernel))).1

end Vflow.C02Flow
