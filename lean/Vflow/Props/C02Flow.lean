import Vflow.Proofs.FuelIpfix
import Vflow.Proofs.FuelV9
/-!
# C02 (model part, IPFIX and NetFlow v9) — termination with the supplied fuel, record bound

`decode` hands `bs.length + 1` units of fuel to the set loop (`outer`) and `rem.length + 1` to every
record loop (`setLoop`).  The theorems say that this is always enough — the model never answers
`fuel`, i.e. (through the differential correspondence) the Go decoder terminates on every datagram,
for every content of the template cache — and that the number of decoded records is bounded by the
datagram length.  All statements quantify over every cache `c`, every exporter address `addr` and
every octet string `bs`.
-/
namespace Vflow.C02Flow
open Vflow

/-! ## IPFIX -/

/-- **C02 termination (IPFIX)**: the fuel supplied by `decode` always suffices. -/
theorem ipfix_terminates (c : Cache) (addr bs : Bytes) :
    (Ipfix.decode c addr bs).1 ≠ .error .fuel :=
  (Ipfix.decode_fuel_records c addr bs).1

/-- **C02 record bound (IPFIX)**: every kept record consumed at least one octet of this datagram. -/
theorem ipfix_record_bound (c : Cache) (addr bs : Bytes) :
    (Ipfix.recordsOf (Ipfix.decode c addr bs).1).length ≤ bs.length :=
  (Ipfix.decode_fuel_records c addr bs).2

/-- the record loop alone: more fuel than octets left ⇒ no `fuel`, the reader only moves forward inside
the same buffer, and records added + octets left never exceeds what it was -/
theorem ipfix_setLoop_fuel (ctx : Ipfix.Ctx) (fuel : Nat) (st : Ipfix.St)
    (h : st.r.rem.length < fuel) :
    (Ipfix.setLoop ctx fuel st).2.1 ≠ some .fuel ∧
    (Ipfix.setLoop ctx fuel st).1.recs.length + (Ipfix.setLoop ctx fuel st).1.r.rem.length
      ≤ st.recs.length + st.r.rem.length := by
  have := Ipfix.setLoop_fuel ctx fuel st _ _ _ h rfl
  exact ⟨this.1, this.2.2⟩

/-! ## NetFlow v9 -/

/-- **C02 termination (NetFlow v9)**: the fuel supplied by `decode` always suffices. -/
theorem v9_terminates (c : Cache) (addr bs : Bytes) :
    (V9.decode c addr bs).1 ≠ .error .fuel :=
  (V9.decode_fuel_records c addr bs).1

/-- **C02 record bound (NetFlow v9)** -/
theorem v9_record_bound (c : Cache) (addr bs : Bytes) :
    (V9.recordsOf (V9.decode c addr bs).1).length ≤ bs.length :=
  (V9.decode_fuel_records c addr bs).2

theorem v9_setLoop_fuel (ctx : V9.Ctx) (fuel : Nat) (st : V9.St)
    (h : st.r.rem.length < fuel) :
    (V9.setLoop ctx fuel st).2 ≠ some .fuel ∧
    (V9.setLoop ctx fuel st).1.recs.length + (V9.setLoop ctx fuel st).1.r.rem.length
      ≤ st.recs.length + st.r.rem.length := by
  have := V9.setLoop_fuel ctx fuel st _ _ h rfl
  exact ⟨this.1, this.2.2⟩

/-! ## Non-vacuity: the zero-length-record datagrams (the F2 hang before the repair)

A cached template whose records occupy no octets: the record loop ends with the non-fatal `zeroRec`
instead of spinning (= `fuel` in the model). -/

def exAddr : Bytes := [127, 0, 0, 1]

/-- v9: template 256 with no field at all -/
def exCacheV9 : Cache := Cache.insert [] exAddr 256 ⟨256, 0, 0, [], []⟩
def exDgV9 : Bytes :=
  [0,9,0,1, 0,0,0,1, 0,0,0,2, 0,0,0,3, 0,0,0,4] ++ [1,0, 0,12, 1,2,3,4,5,6,7,8]

example : (V9.decode exCacheV9 exAddr exDgV9).1 = .ok ([9,1,1,2,3,4], [], [.zeroRec]) := by rfl

/-- with too little fuel the same loop does answer `fuel`: the `fuel` outcome is reachable in the
model, the theorems above are not vacuous -/
example : (V9.setLoop ⟨exAddr, 256, 12, 20, ⟨256, 0, 0, [], []⟩⟩ 0 ⟨⟨[1,2,3,4,5,6,7,8], 24⟩, [], []⟩).2
    = some .fuel := by rfl

/-- IPFIX: template 256 with one field (octetDeltaCount) of length 0 -/
def exCacheIpfix : Cache := Cache.insert [] exAddr 256 ⟨256, 1, 0, [], [⟨1, 0, 0⟩]⟩
def exDgIpfix : Bytes :=
  [0,10,0,28, 0,0,0,1, 0,0,0,2, 0,0,0,3] ++ [1,0, 0,12, 1,2,3,4,5,6,7,8]

set_option maxRecDepth 100000 in
example : (Ipfix.decode exCacheIpfix exAddr exDgIpfix).1 = .ok ([10,28,1,2,3], [], [.zeroRec]) := by rfl

end Vflow.C02Flow
