import Vflow.Proofs.JsonTree
import Vflow.Props.C08
import Vflow.Proofs.SflowJsonTree
import Vflow.Proofs.JsonAccepted
import Vflow.Props.C12
import Vflow.Props.C03
import Vflow.Props.C14
import Vflow.Proofs.RoundIpfix
import Vflow.Proofs.RoundV9
/-!
# C05 — every published message is valid JSON that faithfully carries the decode

For the three hand-written encoders (IPFIX, NetFlow v9, NetFlow v5 — the v5 statements live in
`Vflow.Props.C08` and are re-exported here) and for **every** exporter address, header, record
list, field value (all 16 value kinds, arbitrary octets in strings, every bit pattern, no bound on
the integers):

* `…_marshal_eq_render`: the octets the encoder publishes are the compact rendering of the message
  tree `ipfixTree` / `v9Tree` / `v5Tree`.  **The tree is the faithfulness statement**: `AgentID` is the
  canonical text of the exporter address; `Header` shows the header fields by name and in order, each
  as the exact decimal text of the decoded value (`decode10 (natDigits n) = n`); `DataSets` shows,
  per record and in decode order, per field the element id `I`, the value `V` in the form given by
  `valJson`, and the enterprise number `E` exactly when it is non-zero.
* `…_marshal_valid`: that text derives, in the RFC 8259 grammar `DVal`, exactly that tree (so a
  conforming parser reads back the same members with the same number / string tokens).

The fixed text and member order come from the Go source: the encoders' write programs are regenerated
by factgen on every run and the `gen_*` theorems below oblige them to be the specification programs
of `Vflow.Spec.JsonProgs` up to merging of adjacent literal writes.

**Assumption** (`FloatOk`, stated per field): `strconv.FormatFloat(f,'E',-1,bits)` is not modelled; its text
is an input, assumed to be a JSON number for a finite bit pattern and a string body (`NaN`, `+Inf`,
`-Inf`) otherwise.

**sFlow** (the fourth protocol) is published as `json.Marshal(datagram)` — `encoding/json`, library code.
Its model is `Spec.render (sflowTree d)` (`Vflow.Model.SflowJson`): `sflow_tree_wf` / `sflow_json_valid` /
`sflow_published_valid` prove that this rendering is valid JSON deriving exactly `sflowTree d`, for every
datagram value.  That the rendering **equals what `encoding/json` emits** is established by the
byte-for-byte correspondence (kinds `sflow`, `sflowf`, `dissect`; C07 / C18 / C01 / C05 checks), **not
proved**.
-/
namespace Vflow.C05
open Vflow Vflow.Spec Vflow.JsonTree Vflow.JsonLex

/-! ## Obligations over the regenerated write programs -/

theorem gen_ipfixAgent : normalize Gen.JsonWrites.ipfixAgent = normalize Spec.ipfixAgentProg := by decide
theorem gen_ipfixHeader : normalize Gen.JsonWrites.ipfixHeader = normalize Spec.ipfixHeaderProg := by decide
theorem gen_v9Agent : normalize Gen.JsonWrites.v9Agent = normalize Spec.v9AgentProg := by decide
theorem gen_v9Header : normalize Gen.JsonWrites.v9Header = normalize Spec.v9HeaderProg := by decide

/-! ## IPFIX -/

/-- **C05 (IPFIX, faithfulness)**: the published octets are exactly the rendering of `ipfixTree a hdr recs` —
`{"AgentID":"<net.IP.String of a>","Header":{"Version":…,"Length":…,"ExportTime":…,"SequenceNo":…,"DomainID":…},
"DataSets":[[{"I":id,"V":value[,"E":enterprise]},…],…]}` with every number the exact decimal text of the
decoded value.  No assumption (float text is carried as given). -/
theorem ipfix_marshal_eq_render (a : Bytes) (hdr : List Nat) (recs : List (List JField)) :
    Ipfix.marshal (ipBytes a) hdr recs = render (ipfixTree a hdr recs) := by
  rw [ipfixTree_eq, ← marshalFlow_spec ipfixHeaderKeys (by decide)]
  exact marshalFlow_congr gen_ipfixAgent gen_ipfixHeader _ _ _

/-- the IPFIX message tree is well-formed (every key and string a string body, every number a JSON number) -/
theorem ipfix_tree_wf (a : Bytes) (hdr : List Nat) (recs : List (List JField))
    (hf : ∀ r ∈ recs, ∀ f ∈ r, FloatOk f) : WF (ipfixTree a hdr recs) := by
  rw [ipfixTree_eq]; exact wf_flowMsgTree _ (by decide) a hdr recs hf

/-- **C05 (IPFIX, validity)**: the published octets derive `ipfixTree a hdr recs` in the RFC 8259 grammar.
Assumes only `FloatOk` for the float-valued fields. -/
theorem ipfix_marshal_valid (a : Bytes) (hdr : List Nat) (recs : List (List JField))
    (hf : ∀ r ∈ recs, ∀ f ∈ r, FloatOk f) :
    DVal (Ipfix.marshal (ipBytes a) hdr recs) (ipfixTree a hdr recs) := by
  rw [ipfix_marshal_eq_render]; exact derives_render _ (ipfix_tree_wf a hdr recs hf)

/-! ## NetFlow v9 -/

/-- **C05 (NetFlow v9, faithfulness)**: as for IPFIX, with the header members
`Version, Count, SysUpTime, UNIXSecs, SeqNum, SrcID`. -/
theorem v9_marshal_eq_render (a : Bytes) (hdr : List Nat) (recs : List (List JField)) :
    V9.marshal (ipBytes a) hdr recs = render (v9Tree a hdr recs) := by
  rw [v9Tree_eq, ← marshalFlow_spec v9HeaderKeys (by decide)]
  exact marshalFlow_congr gen_v9Agent gen_v9Header _ _ _

theorem v9_tree_wf (a : Bytes) (hdr : List Nat) (recs : List (List JField))
    (hf : ∀ r ∈ recs, ∀ f ∈ r, FloatOk f) : WF (v9Tree a hdr recs) := by
  rw [v9Tree_eq]; exact wf_flowMsgTree _ (by decide) a hdr recs hf

/-- **C05 (NetFlow v9, validity)** -/
theorem v9_marshal_valid (a : Bytes) (hdr : List Nat) (recs : List (List JField))
    (hf : ∀ r ∈ recs, ∀ f ∈ r, FloatOk f) :
    DVal (V9.marshal (ipBytes a) hdr recs) (v9Tree a hdr recs) := by
  rw [v9_marshal_eq_render]; exact derives_render _ (v9_tree_wf a hdr recs hf)


/-! ## NetFlow v5 (proved in `Vflow.Props.C08`, re-exported) -/

/-- **C05 (NetFlow v5, faithfulness)**: the published octets are the rendering of `v5Tree a m` — agent address, the
nine header fields and, per flow, the twenty fields by name; addresses in dotted-quad text, all other
fields the exact decimal text.  Relies on the obligations `C08.gen_v5Agent/gen_v5Header/gen_v5Flow`. -/
theorem v5_marshal_eq_render (a : Bytes) (m : V5.Msg) : V5.marshal (ipBytes a) m = render (v5Tree a m) :=
  C08.v5_marshal_eq_render a m

/-- **C05 (NetFlow v5, validity)**: unconditional (no float or string fields) -/
theorem v5_marshal_valid (a : Bytes) (m : V5.Msg) : DVal (V5.marshal (ipBytes a) m) (v5Tree a m) :=
  C08.v5_marshal_valid a m

/-! ## sFlow (published through `encoding/json`) -/

section SflowSection
open Vflow.Sflow Vflow.Sflow.Json Vflow.SflowJsonTree

/-- **C05 (sFlow, well-formed tree)**: for every datagram value — any number of flow and counter samples, any
combination of records, any field values, any octets in the sampled header's addresses, MACs and ICMP
rest-of-header — every number leaf of `sflowTree d` is an RFC 8259 number, every string leaf and every
key a string body.  **The tree is the faithfulness statement**: the datagram header fields by Go field
name in declaration order, each the exact decimal text of the decoded value; `Samples` / `Counters` in
decode order; `Records` as a map with sorted keys (`ExtRouter` < `ExtSwitch` < `RawHeader`; `EthInt` <
`GenInt` < `Proc` < `TRInt` < `VGInt` < `Vlan`); the raw packet header record (F33) as its own `Protocol`,
`FrameLength`, `Stripped`, `HeaderLength` — each the exact decimal text of the word read — followed, when the
sampled octets have a breakdown, by the sampled packet's `L2` / `L3` / `L4` objects (`null`
when a layer is absent) with MACs as `xx:xx:…` text, addresses as `net.IP.String` text, `[]byte` as base64;
`IPAddress` / `NextHop` as `net.IP.MarshalText`. -/
theorem sflow_tree_wf (d : Datagram) : WF (sflowTree d) := wf_sflowTree d

/-- **C05 (sFlow, validity)**: the rendering of the sFlow message tree derives exactly that tree in the
RFC 8259 grammar.  The model of the published text is this rendering; its equality with what
`encoding/json` (library code) emits is established by the correspondence, not proved. -/
theorem sflow_json_valid (d : Datagram) : DVal (render (sflowTree d)) (sflowTree d) :=
  derives_render _ (sflow_tree_wf d)

/-- **C05 (sFlow, what is published)**: whenever the model of `json.Marshal(datagram)` yields a text (it yields
none — marshal error, nothing is published — exactly when a `net.IP` in the datagram has a length other
than 0, 4 or 16), that text is valid JSON deriving `sflowTree d` -/
theorem sflow_published_valid (d : Datagram) (bs : Bytes) (h : sflowJson? d = some bs) :
    DVal bs (sflowTree d) := by
  unfold sflowJson? at h
  split at h
  · injection h with h; rw [← h]; exact sflow_json_valid d
  · simp at h

/-- the raw packet header record alone (F33): its four words and, when there is one, the packet's layers — for every
record value, with or without a packet -/
theorem sflow_raw_header_valid (h : RawHeader) : DVal (render (rawHeaderTree h)) (rawHeaderTree h) :=
  derives_render _ (wf_rawHeaderTree h)

/-- the sampled packet alone (what the `dissect` correspondence compares) -/
theorem sflow_packet_valid (p : Packet.Pkt) : DVal (render (pktTree p)) (pktTree p) :=
  derives_render _ (wf_pktTree p)

/-! ## Accepted by Go's own validator

`Spec.jsonValid` is the Lean port of `encoding/json`'s scanner (`scanner.go`, including its nesting limit of
10000), tied to the real `json.Valid` by the `jsonvalid` correspondence of C11.  Every published payload of the
four protocols is accepted by it — the message trees nest 4 (IPFIX, NetFlow v9), 3 (NetFlow v5) and at most 6
(sFlow) deep (`Proofs/JsonAccepted.lean`), so the depth hypothesis of `JsonScan.render_valid` is discharged. -/

theorem ipfix_marshal_accepted (a : Bytes) (hdr : List Nat) (recs : List (List JField))
    (hf : ∀ r ∈ recs, ∀ f ∈ r, FloatOk f) : jsonValid (Ipfix.marshal (ipBytes a) hdr recs) = true := by
  rw [ipfix_marshal_eq_render]
  refine JsonScan.render_valid _ (ipfix_tree_wf a hdr recs hf) ?_
  rw [ipfixTree_eq]
  exact Nat.le_trans (JsonAccepted.depth_flowMsgTree _ a hdr recs) (by decide)

theorem v9_marshal_accepted (a : Bytes) (hdr : List Nat) (recs : List (List JField))
    (hf : ∀ r ∈ recs, ∀ f ∈ r, FloatOk f) : jsonValid (V9.marshal (ipBytes a) hdr recs) = true := by
  rw [v9_marshal_eq_render]
  refine JsonScan.render_valid _ (v9_tree_wf a hdr recs hf) ?_
  rw [v9Tree_eq]
  exact Nat.le_trans (JsonAccepted.depth_flowMsgTree _ a hdr recs) (by decide)

theorem v5_marshal_accepted (a : Bytes) (m : V5.Msg) : jsonValid (V5.marshal (ipBytes a) m) = true := by
  rw [v5_marshal_eq_render]
  exact JsonScan.render_valid _ (C08.v5_tree_wf a m) (Nat.le_trans (JsonAccepted.depth_v5Tree a m) (by decide))

theorem sflow_published_accepted (d : Datagram) (bs : Bytes) (h : sflowJson? d = some bs) : jsonValid bs = true := by
  unfold sflowJson? at h
  split at h
  · injection h with h; rw [← h]
    exact JsonScan.render_valid _ (sflow_tree_wf d) (Nat.le_trans (JsonAccepted.depth_sflowTree d) (by decide))
  · simp at h

/-- address strings of the sampled header are carried verbatim: for a non-empty address the `Src` / `Dst`
string leaf is exactly `net.IP.String()` (the escaping `encoding/json` applies is the identity on it) -/
theorem sflow_address_verbatim (b : Bytes) (h : b.length ≠ 0) : ipStringLeaf b = .str (ipBytes b) :=
  ipStringLeaf_verbatim b h

/-- an Ethernet / IPv4 / TCP sampled header -/
def examplePkt : Packet.Pkt :=
  { l2 := { srcMAC := [0, 17, 34, 51, 68, 85], dstMAC := [170, 187, 204, 221, 238, 255], vlan := 0, etherType := 2048 },
    l3 := .v4 { version := 4, tos := 0, totalLen := 40, id := 1, flags := 2, fragOff := 0, ttl := 64, protocol := 6,
                checksum := 0, src := [192, 0, 2, 1], dst := [198, 51, 100, 7] },
    l4 := .tcp 1234 80 5 5 280 }

def exampleFlowSample : FlowSample :=
  { seqNo := 1, sourceID := 3, sourceIDIdx := 16777215, samplingRate := 512, samplePool := 1024, drops := 0, input := 1, output := 2,
    recordsNo := 3,
    recs := { raw := some ⟨1, 1518, 4, 54, some examplePkt⟩,
              sw := some { srcVlan := 10, srcPriority := 0, dstVlan := 20, dstPriority := 0 },
              rtr := some { nextHop := [0x20, 0x01, 0x0d, 0xb8, 0, 0, 0, 0, 0, 0, 0, 0, 0, 0, 0, 1],
                            srcMask := 24, dstMask := 16 } } }

def exampleCounterSample : CounterSample :=
  { seqNo := 2, sourceIDType := 0, sourceIDIdx := 3, recordsNo := 1,
    recs := { proc := some [1, 2, 3, 18446744073709551615, 0] } }

/-- a datagram with one flow sample (extended router with IPv6 next hop, extended switch, sampled header)
and one counter sample (processor record) -/
def exampleDatagram : Datagram :=
  { version := 5, ipVersion := 1, agentSubID := 0, seqNo := 7, sysUpTime := 1000, samplesNo := 2,
    samples := [exampleFlowSample], counters := [exampleCounterSample], ip := [192, 0, 2, 9] }

example : sflowJson? exampleDatagram = some (txt [
    "{\"Version\":5,\"IPVersion\":1,\"AgentSubID\":0,\"SequenceNo\":7,",
    "\"SysUpTime\":1000,\"SamplesNo\":2,\"Samples\":[{\"SequenceNo\":1,",
    "\"SourceID\":3,\"SourceIDIdx\":16777215,\"SamplingRate\":512,",
    "\"SamplePool\":1024,\"Drops\":0,",
    "\"Input\":1,\"Output\":2,\"RecordsNo\":3,\"Records\":{",
    "\"ExtRouter\":{\"NextHop\":\"2001:db8::1\",\"SrcMask\":24,\"DstMask\":16},",
    "\"ExtSwitch\":{\"SrcVlan\":10,\"SrcPriority\":0,\"DstVlan\":20,",
    "\"DstPriority\":0},\"RawHeader\":{\"Protocol\":1,\"FrameLength\":1518,",
    "\"Stripped\":4,\"HeaderLength\":54,\"L2\":{\"SrcMAC\":\"00:11:22:33:44:55\",",
    "\"DstMAC\":\"aa:bb:cc:dd:ee:ff\",\"Vlan\":0,\"EtherType\":2048},",
    "\"L3\":{\"Version\":4,\"TOS\":0,\"TotalLen\":40,\"ID\":1,\"Flags\":2,",
    "\"FragOff\":0,\"TTL\":64,\"Protocol\":6,\"Checksum\":0,",
    "\"Src\":\"192.0.2.1\",\"Dst\":\"198.51.100.7\"},",
    "\"L4\":{\"SrcPort\":1234,\"DstPort\":80,\"DataOffset\":5,\"Reserved\":5,",
    "\"Flags\":280}}}}],\"Counters\":[{\"SequenceNo\":2,\"SourceIDType\":0,",
    "\"SourceIDIdx\":3,\"RecordsNo\":1,\"Records\":{\"Proc\":{\"CPU5s\":1,",
    "\"CPU1m\":2,\"CPU5m\":3,\"TotalMemory\":18446744073709551615,",
    "\"FreeMemory\":0}}}],\"IPAddress\":\"192.0.2.9\",\"ColTime\":0}"]) := by decide +kernel

/-- `[]byte` leaves are base64 (`AQID` = 01 02 03, padding for 1 and 2 octets); an absent layer is `null` -/
example : render (pktTree ⟨{}, .none, .icmp 8 0 [1, 2, 3, 4]⟩) = txt [
    "{\"L2\":{\"SrcMAC\":\"\",\"DstMAC\":\"\",\"Vlan\":0,\"EtherType\":0},",
    "\"L3\":null,\"L4\":{\"Type\":8,\"Code\":0,\"RestHeader\":\"AQIDBA==\"}}"] := by decide +kernel

/-- F33: the raw-header record of a sampled header without a breakdown is its own four words, no `L2` / `L3` / `L4`
members and no `null` (the embedded `*packet.Packet` is nil); with a packet the words come first, the layers keep
their names and values -/
example : render (rawHeaderTree ⟨7, 1400, 0, 5, none⟩) = txt [
    "{\"Protocol\":7,\"FrameLength\":1400,\"Stripped\":0,\"HeaderLength\":5}"] ∧
    render (rawHeaderTree ⟨11, 4294967295, 4, 28, some ⟨{}, .none, .udp 53 4660⟩⟩) = txt [
    "{\"Protocol\":11,\"FrameLength\":4294967295,\"Stripped\":4,",
    "\"HeaderLength\":28,\"L2\":{\"SrcMAC\":\"\",\"DstMAC\":\"\",\"Vlan\":0,",
    "\"EtherType\":0},\"L3\":null,\"L4\":{\"SrcPort\":53,\"DstPort\":4660}}"] := by decide +kernel

/-- a 5-octet agent address cannot be marshalled: nothing is published -/
example : sflowJson? { exampleDatagram with ip := [1, 2, 3, 4, 5] } = none := by decide +kernel

end SflowSection

/-! ## End to end: what the worker pool publishes

The pipeline theorems (C12 / C13) are about an abstract codec; the decoding theorems (C03 / C06) and the rendering
theorems above are about one call. Here the pipeline's codec parameter is instantiated with the decoder models and
the marshal model, and the pieces are composed: for ANY number of workers running the worker loop extracted from the
current source, ANY sequence of datagrams (arbitrary octets, arbitrary exporters) and EVERY schedule, every payload
handed to the message queue is the compact rendering of the message tree of the decode of ONE received datagram's own
octets (against the template cache in force when it was decoded), and is accepted by `encoding/json`'s scanner.
`ft` is the float text (`strconv.FormatFloat`, an input of the model: hypothesis `FloatOk`, see the header). -/
section EndToEnd
open Vflow.Pipeline

/-- a decoded field as the marshaller sees it -/
def toJ (ft : Val → Bytes) (f : DField) : JField := ⟨f.id, f.ent, f.val, ft f.val⟩

def toJRecs (ft : Val → Bytes) (recs : List Record) : List (List JField) := recs.map (·.map (toJ ft))

/-- the IPFIX instance of the pipeline's codec: `Decode` (`none` = nil message), the worker's
`len(decodedMsg.DataSets) > 0`, `JSONMarshal` (never fails) -/
def ipfixCodec (ft : Val → Bytes) : Codec where
  Cache := Cache
  Msg := Bytes × Hdr × List Record
  decode := fun c addr bs =>
    match Ipfix.decode c addr bs with
    | (.ok (h, recs, _), c') => (some (addr, h, recs), c')
    | (.error _, c') => (none, c')
  hasData := fun m => !m.2.2.isEmpty
  marshal := fun m => some (Ipfix.marshal (ipBytes m.1) m.2.1 (toJRecs ft m.2.2))

/-- the NetFlow v9 instance (`decodedMsg.DataSets != nil`) -/
def v9Codec (ft : Val → Bytes) : Codec where
  Cache := Cache
  Msg := Bytes × Hdr × List Record
  decode := fun c addr bs =>
    match V9.decode c addr bs with
    | (.ok (h, recs, _), c') => (some (addr, h, recs), c')
    | (.error _, c') => (none, c')
  hasData := fun m => !m.2.2.isEmpty
  marshal := fun m => some (V9.marshal (ipBytes m.1) m.2.1 (toJRecs ft m.2.2))

theorem toJRecs_floatOk (ft : Val → Bytes) (hft : ∀ i e v, FloatOk ⟨i, e, v, ft v⟩) (recs : List Record) :
    ∀ r ∈ toJRecs ft recs, ∀ f ∈ r, FloatOk f := by
  intro r hr f hf
  simp only [toJRecs, List.mem_map] at hr
  obtain ⟨r0, _, rfl⟩ := hr
  simp only [List.mem_map] at hf
  obtain ⟨f0, _, rfl⟩ := hf
  exact hft f0.id f0.ent f0.val

/-- what a solo result of the IPFIX codec is -/
theorem ipfix_sol_spec (ft : Val → Bytes) (hft : ∀ i e v, FloatOk ⟨i, e, v, ft v⟩)
    {log : List (Event (ipfixCodec ft))} {id : Nat} {p : Bytes} (hs : Sol log id p) :
    ∃ (d : Dgram) (cache : Cache) (h : Hdr) (recs : List Record) (errs : List Err),
      Event.received d ∈ log ∧ d.id = id ∧
      (Ipfix.decode cache d.addr d.bytes).1 = .ok (h, recs, errs) ∧ recs ≠ [] ∧
      p = render (ipfixTree d.addr h (toJRecs ft recs)) ∧
      DVal p (ipfixTree d.addr h (toJRecs ft recs)) ∧ jsonValid p = true := by
  obtain ⟨d, cache, h1, h2, m, hm, hd, hmar⟩ := C12.solo_spelled_out hs
  have hdec : (ipfixCodec ft).decode cache d.addr d.bytes =
      (match Ipfix.decode cache d.addr d.bytes with
       | (.ok (h, recs, _), c') => (some (d.addr, h, recs), c')
       | (.error _, c') => (none, c')) := rfl
  rw [hdec] at hm
  cases hx : Ipfix.decode cache d.addr d.bytes with
  | mk res c' =>
    rw [hx] at hm
    cases res with
    | error e => simp at hm
    | ok v =>
      obtain ⟨h, recs, errs⟩ := v
      have hm' := Option.some.inj hm
      subst hm'
      have hne : recs ≠ [] := by
        intro h0; subst h0; simp [ipfixCodec] at hd
      have hp' : p = Ipfix.marshal (ipBytes d.addr) h (toJRecs ft recs) := by
        simp [ipfixCodec] at hmar; exact hmar.symm
      have hfo := toJRecs_floatOk ft hft recs
      refine ⟨d, cache, h, recs, errs, h1, h2, by rw [hx], hne, ?_, ?_, ?_⟩
      · rw [hp', ipfix_marshal_eq_render]
      · rw [hp']; exact ipfix_marshal_valid _ _ _ hfo
      · rw [hp']; exact ipfix_marshal_accepted _ _ _ hfo

/-- **C05 end to end (IPFIX)**: every payload the IPFIX worker pool publishes -/
theorem ipfix_published_end_to_end {cfg : Cfg} {spec : CountSpec} (ft : Val → Bytes)
    (hft : ∀ i e v, FloatOk ⟨i, e, v, ft v⟩) (hc : Canonical spec cfg.prog)
    {c : Cache} {mem0 : BufId → Bytes} {s : State (ipfixCodec ft)}
    (hr : Reach cfg (init (ipfixCodec ft) c mem0) s) (id : Nat) (p : Bytes)
    (hp : Event.published id p ∈ s.log) :
    ∃ (d : Dgram) (cache : Cache) (h : Hdr) (recs : List Record) (errs : List Err),
      Event.received d ∈ s.log ∧ d.id = id ∧
      (Ipfix.decode cache d.addr d.bytes).1 = .ok (h, recs, errs) ∧ recs ≠ [] ∧
      p = render (ipfixTree d.addr h (toJRecs ft recs)) ∧
      DVal p (ipfixTree d.addr h (toJRecs ft recs)) ∧ jsonValid p = true :=
  ipfix_sol_spec ft hft ((C12.published_is_solo hc hr).2.2 id p hp)

/-- what reaches the raw-socket sink, for any codec: hand the payloads the MQ consumer has taken from the channel, in the order
it took them, to the producer model; for every outcome script of the network and every retry limit, every chunk the sink
receives is one of those payloads — a solo result — followed by a newline -/
theorem sink_chunk_is_solo {K : Codec} {cfg : Cfg} {spec : CountSpec} (hc : Canonical spec cfg.prog)
    {c : K.Cache} {mem0 : BufId → Bytes} {s : State K} (hr : Reach cfg (init K c mem0) s)
    (wo : Nat → Producer.WOut) (dl : Nat → Producer.DOut) (rm : Nat) :
    ∀ e ∈ (Producer.run wo dl rm (s.delivered.reverse.map (·.2))).delivered,
      ∃ id p, Sol s.log id p ∧ e.data = p ++ [10] := by
  intro e he
  obtain ⟨m, hm, hdata⟩ := (C14.delivered_in_order wo dl rm _).2 e he
  have hmem : m ∈ s.delivered.reverse.map (·.2) := List.mem_of_getElem? hm
  simp only [List.mem_map, List.mem_reverse] at hmem
  obtain ⟨⟨id, p⟩, hin, rfl⟩ := hmem
  exact ⟨id, p, (C12.published_is_solo hc hr).2.1 id p hin, hdata⟩

/-- **C05 ∘ C14 (lines received by the message-queue sink, IPFIX over the raw-socket producer)**: hand the payloads the
MQ consumer has taken from the channel, in the order it took them, to the producer model; then for every outcome
script of the network (writes that succeed, are lost, fail; dials that succeed or fail) and every retry limit, every
chunk the sink receives is the rendering of the message tree of the decode of one received datagram's own octets,
followed by a newline — nothing else ever reaches the sink -/
theorem ipfix_sink_lines {cfg : Cfg} {spec : CountSpec} (ft : Val → Bytes)
    (hft : ∀ i e v, FloatOk ⟨i, e, v, ft v⟩) (hc : Canonical spec cfg.prog)
    {c : Cache} {mem0 : BufId → Bytes} {s : State (ipfixCodec ft)}
    (hr : Reach cfg (init (ipfixCodec ft) c mem0) s)
    (wo : Nat → Producer.WOut) (dl : Nat → Producer.DOut) (rm : Nat) :
    ∀ e ∈ (Producer.run wo dl rm (s.delivered.reverse.map (·.2))).delivered,
      ∃ (d : Dgram) (cache : Cache) (h : Hdr) (recs : List Record) (errs : List Err),
        Event.received d ∈ s.log ∧ (Ipfix.decode cache d.addr d.bytes).1 = .ok (h, recs, errs) ∧ recs ≠ [] ∧
        e.data = render (ipfixTree d.addr h (toJRecs ft recs)) ++ [10] ∧
        jsonValid (render (ipfixTree d.addr h (toJRecs ft recs))) = true := by
  intro e he
  obtain ⟨m, hm, hdata⟩ := (C14.delivered_in_order wo dl rm _).2 e he
  have hmem : m ∈ s.delivered.reverse.map (·.2) := List.mem_of_getElem? hm
  simp only [List.mem_map, List.mem_reverse] at hmem
  obtain ⟨⟨id, p⟩, hin, rfl⟩ := hmem
  obtain ⟨d, cache, h, recs, errs, h1, _, h3, h4, h5, _, h7⟩ :=
    ipfix_sol_spec ft hft ((C12.published_is_solo hc hr).2.1 id p hin)
  exact ⟨d, cache, h, recs, errs, h1, h3, h4, by rw [hdata]; simp only [h5], by rw [← h5]; exact h7⟩

/-- what a solo result of this codec is -/
theorem v9_sol_spec (ft : Val → Bytes) (hft : ∀ i e v, FloatOk ⟨i, e, v, ft v⟩)
    {log : List (Event (v9Codec ft))} {id : Nat} {p : Bytes} (hs : Sol log id p) :
    ∃ (d : Dgram) (cache : Cache) (h : Hdr) (recs : List Record) (errs : List Err),
      Event.received d ∈ log ∧ d.id = id ∧
      (V9.decode cache d.addr d.bytes).1 = .ok (h, recs, errs) ∧ recs ≠ [] ∧
      p = render (v9Tree d.addr h (toJRecs ft recs)) ∧
      DVal p (v9Tree d.addr h (toJRecs ft recs)) ∧ jsonValid p = true := by
  obtain ⟨d, cache, h1, h2, m, hm, hd, hmar⟩ := C12.solo_spelled_out hs
  have hdec : (v9Codec ft).decode cache d.addr d.bytes =
      (match V9.decode cache d.addr d.bytes with
       | (.ok (h, recs, _), c') => (some (d.addr, h, recs), c')
       | (.error _, c') => (none, c')) := rfl
  rw [hdec] at hm
  cases hx : V9.decode cache d.addr d.bytes with
  | mk res c' =>
    rw [hx] at hm
    cases res with
    | error e => simp at hm
    | ok v =>
      obtain ⟨h, recs, errs⟩ := v
      have hm' := Option.some.inj hm
      subst hm'
      have hne : recs ≠ [] := by
        intro h0; subst h0; simp [v9Codec] at hd
      have hp' : p = V9.marshal (ipBytes d.addr) h (toJRecs ft recs) := by
        simp [v9Codec] at hmar; exact hmar.symm
      have hfo := toJRecs_floatOk ft hft recs
      refine ⟨d, cache, h, recs, errs, h1, h2, by rw [hx], hne, ?_, ?_, ?_⟩
      · rw [hp', v9_marshal_eq_render]
      · rw [hp']; exact v9_marshal_valid _ _ _ hfo
      · rw [hp']; exact v9_marshal_accepted _ _ _ hfo

/-- **C05 end to end (NetFlow v9)** -/
theorem v9_published_end_to_end {cfg : Cfg} {spec : CountSpec} (ft : Val → Bytes)
    (hft : ∀ i e v, FloatOk ⟨i, e, v, ft v⟩) (hc : Canonical spec cfg.prog)
    {c : Cache} {mem0 : BufId → Bytes} {s : State (v9Codec ft)}
    (hr : Reach cfg (init (v9Codec ft) c mem0) s) (id : Nat) (p : Bytes)
    (hp : Event.published id p ∈ s.log) :
    ∃ (d : Dgram) (cache : Cache) (h : Hdr) (recs : List Record) (errs : List Err),
      Event.received d ∈ s.log ∧ d.id = id ∧
      (V9.decode cache d.addr d.bytes).1 = .ok (h, recs, errs) ∧ recs ≠ [] ∧
      p = render (v9Tree d.addr h (toJRecs ft recs)) ∧
      DVal p (v9Tree d.addr h (toJRecs ft recs)) ∧ jsonValid p = true :=
  v9_sol_spec ft hft ((C12.published_is_solo hc hr).2.2 id p hp)

/-- … and with the worker loops the current source has (regenerated `Gen.ipfixWorker` / `Gen.netflowV9Worker`) -/
theorem ipfix_published_current_source (ft : Val → Bytes) (hft : ∀ i e v, FloatOk ⟨i, e, v, ft v⟩)
    {cfg : Cfg} (hprog : cfg.prog = Gen.ipfixWorker)
    {c : Cache} {mem0 : BufId → Bytes} {s : State (ipfixCodec ft)}
    (hr : Reach cfg (init (ipfixCodec ft) c mem0) s) (id : Nat) (p : Bytes)
    (hp : Event.published id p ∈ s.log) :
    jsonValid p = true ∧ ∃ (d : Dgram) (cache : Cache) (h : Hdr) (recs : List Record) (errs : List Err),
      Event.received d ∈ s.log ∧ d.id = id ∧
      (Ipfix.decode cache d.addr d.bytes).1 = .ok (h, recs, errs) ∧
      p = render (ipfixTree d.addr h (toJRecs ft recs)) := by
  have hc : Canonical .onMsg cfg.prog := by rw [hprog]; exact C12.ipfixWorker_canonical
  obtain ⟨d, cache, h, recs, errs, h1, h2, h3, _, h5, _, h7⟩ := ipfix_published_end_to_end ft hft hc hr id p hp
  exact ⟨h7, d, cache, h, recs, errs, h1, h2, h3, h5⟩

/-- the whole chain for a conforming exporter: if the received datagram is the encoding of a well-formed IPFIX
message `m` (RFC 7011 as specified in `Spec.Wire`, templates in the cache or announced earlier in `m`), the payload is
the rendering of the tree of `m`'s header and of exactly `m`'s records, in wire order (C03 `message_roundtrip` ∘ the
theorem above) -/
theorem ipfix_wellformed_published (ft : Val → Bytes) (cache : Cache) (addr : Bytes) (m : Wire.Ipfix.Msg)
    (hw : Wire.Ipfix.wfMsg addr cache m = true) (hne : (Wire.Ipfix.expected addr cache m).1 ≠ []) :
    outcome (ipfixCodec ft) ((ipfixCodec ft).decode cache addr (Wire.Ipfix.encodeMsg m)).1 =
      some (render (ipfixTree addr (Wire.Ipfix.expectedHdr m) (toJRecs ft (Wire.Ipfix.expected addr cache m).1))) := by
  have h := Ipfix.decode_roundtrip cache addr m hw
  simp only [ipfixCodec, h, outcome, Option.bind_some]
  have : (Wire.Ipfix.expected addr cache m).1.isEmpty = false := by
    cases hx : (Wire.Ipfix.expected addr cache m).1 with
    | nil => exact absurd hx hne
    | cons _ _ => rfl
  simp [this, ipfix_marshal_eq_render]

/-- the same chain for a conforming NetFlow v9 exporter: if the received datagram is the encoding of a well-formed
export packet `m` (RFC 3954 as specified in `Spec.Wire`, templates in the cache or announced earlier in `m`), the payload
is the rendering of the tree of `m`'s header and of exactly `m`'s records, in wire order (C06 `packet_roundtrip` ∘
`v9_marshal_eq_render`) -/
theorem v9_wellformed_published (ft : Val → Bytes) (cache : Cache) (addr : Bytes) (m : Wire.V9.Msg)
    (hw : Wire.V9.wfMsg addr cache m = true) (hne : (Wire.V9.expected addr cache m).1 ≠ []) :
    outcome (v9Codec ft) ((v9Codec ft).decode cache addr (Wire.V9.encodeMsg m)).1 =
      some (render (v9Tree addr (Wire.V9.expectedHdr m) (toJRecs ft (Wire.V9.expected addr cache m).1))) := by
  have h := V9.decode_roundtrip cache addr m hw
  simp only [v9Codec, h, outcome, Option.bind_some]
  have : (Wire.V9.expected addr cache m).1.isEmpty = false := by
    cases hx : (Wire.V9.expected addr cache m).1 with
    | nil => exact absurd hx hne
    | cons _ _ => rfl
  simp [this, v9_marshal_eq_render]

/-- the NetFlow v5 instance (no template cache; `Flows != nil`; `JSONMarshal` never fails) -/
def v5CodecA : Codec where
  Cache := Unit
  Msg := Bytes × V5.Msg
  decode := fun _ addr bs =>
    (match V5.decode bs with
     | .ok m => some (addr, m)
     | .error _ => none, ())
  hasData := fun m => !m.2.flows.isEmpty
  marshal := fun m => some (V5.marshal (ipBytes m.1) m.2)

/-- what a solo result of this codec is -/
theorem v5_sol_spec 
    {log : List (Event (v5CodecA))} {id : Nat} {p : Bytes} (hs : Sol log id p) :
    ∃ (d : Dgram) (m : V5.Msg),
      Event.received d ∈ log ∧ d.id = id ∧ V5.decode d.bytes = .ok m ∧ m.flows ≠ [] ∧
      p = render (v5Tree d.addr m) ∧ DVal p (v5Tree d.addr m) ∧ jsonValid p = true := by
  obtain ⟨d, cache, h1, h2, m, hm, hd, hmar⟩ := C12.solo_spelled_out hs
  have hdec : (v5CodecA.decode cache d.addr d.bytes).1 =
      (match V5.decode d.bytes with
       | .ok m => some (d.addr, m)
       | .error _ => none) := rfl
  rw [hdec] at hm
  cases hx : V5.decode d.bytes with
  | error e => rw [hx] at hm; simp at hm
  | ok m0 =>
    rw [hx] at hm
    have hm' := Option.some.inj hm
    subst hm'
    have hne : m0.flows ≠ [] := by
      intro h0; simp [v5CodecA, h0] at hd
    have hp' : p = V5.marshal (ipBytes d.addr) m0 := by
      simp [v5CodecA] at hmar; exact hmar.symm
    refine ⟨d, m0, h1, h2, hx, hne, ?_, ?_, ?_⟩
    · rw [hp', v5_marshal_eq_render]
    · rw [hp']; exact v5_marshal_valid _ _
    · rw [hp']; exact v5_marshal_accepted _ _

/-- **C05 end to end (NetFlow v5)**: unconditional (no float or string fields) -/
theorem v5_published_end_to_end {cfg : Cfg} {spec : CountSpec} (hc : Canonical spec cfg.prog)
    {mem0 : BufId → Bytes} {s : State v5CodecA}
    (hr : Reach cfg (init v5CodecA () mem0) s) (id : Nat) (p : Bytes)
    (hp : Event.published id p ∈ s.log) :
    ∃ (d : Dgram) (m : V5.Msg),
      Event.received d ∈ s.log ∧ d.id = id ∧ V5.decode d.bytes = .ok m ∧ m.flows ≠ [] ∧
      p = render (v5Tree d.addr m) ∧ DVal p (v5Tree d.addr m) ∧ jsonValid p = true :=
  v5_sol_spec  ((C12.published_is_solo hc hr).2.2 id p hp)

/-- the sFlow instance (filter list `f`; no cache; the worker's `len(Counters) < 1 && len(Samples) < 1` test;
`json.Marshal(datagram)`, which fails — nothing is published — exactly when an address has a length other than 0, 4, 16;
`ColTime` is 0 in the model) -/
def sflowCodec (f : List Nat) : Codec where
  Cache := Unit
  Msg := Sflow.Datagram
  decode := fun _ _ bs =>
    (match Sflow.decode f bs with
     | .ok d => some d
     | _ => none, ())
  hasData := fun d => !(d.counters.isEmpty && d.samples.isEmpty)
  marshal := fun d => Sflow.Json.sflowJson? d

/-- what a solo result of this codec is -/
theorem sflow_sol_spec (f : List Nat)
    {log : List (Event (sflowCodec f))} {id : Nat} {p : Bytes} (hs : Sol log id p) :
    ∃ (d : Dgram) (dg : Sflow.Datagram),
      Event.received d ∈ log ∧ d.id = id ∧ Sflow.decode f d.bytes = .ok dg ∧
      (dg.counters ≠ [] ∨ dg.samples ≠ []) ∧
      p = render (Sflow.Json.sflowTree dg) ∧ DVal p (Sflow.Json.sflowTree dg) ∧ jsonValid p = true := by
  obtain ⟨d, cache, h1, h2, m, hm, hd, hmar⟩ := C12.solo_spelled_out hs
  have hdec : ((sflowCodec f).decode cache d.addr d.bytes).1 =
      (match Sflow.decode f d.bytes with
       | .ok dg => some dg
       | _ => none) := rfl
  rw [hdec] at hm
  cases hx : Sflow.decode f d.bytes with
  | ok dg =>
    rw [hx] at hm
    have hm' := Option.some.inj hm
    subst hm'
    have hne : dg.counters ≠ [] ∨ dg.samples ≠ [] := by
      by_cases hcnt : dg.counters = []
      · right; intro hs; simp [sflowCodec, hcnt, hs] at hd
      · left; exact hcnt
    have hj : Sflow.Json.sflowJson? dg = some p := hmar
    have hp' : p = render (Sflow.Json.sflowTree dg) := by
      unfold Sflow.Json.sflowJson? at hj
      split at hj
      · exact (Option.some.inj hj).symm
      · simp at hj
    exact ⟨d, dg, h1, h2, hx, hne, hp', sflow_published_valid dg p hj, sflow_published_accepted dg p hj⟩
  | err e => rw [hx] at hm; simp at hm
  | panic => rw [hx] at hm; simp at hm
  | fuel => rw [hx] at hm; simp at hm

/-- **C05 end to end (sFlow)**: unconditional -/
theorem sflow_published_end_to_end {cfg : Cfg} {spec : CountSpec} (f : List Nat) (hc : Canonical spec cfg.prog)
    {mem0 : BufId → Bytes} {s : State (sflowCodec f)}
    (hr : Reach cfg (init (sflowCodec f) () mem0) s) (id : Nat) (p : Bytes)
    (hp : Event.published id p ∈ s.log) :
    ∃ (d : Dgram) (dg : Sflow.Datagram),
      Event.received d ∈ s.log ∧ d.id = id ∧ Sflow.decode f d.bytes = .ok dg ∧
      (dg.counters ≠ [] ∨ dg.samples ≠ []) ∧
      p = render (Sflow.Json.sflowTree dg) ∧ DVal p (Sflow.Json.sflowTree dg) ∧ jsonValid p = true :=
  sflow_sol_spec f ((C12.published_is_solo hc hr).2.2 id p hp)

/-- **lines at the sink, NetFlow v9 / v5 / sFlow**: as `ipfix_sink_lines` -/
theorem v9_sink_lines {cfg : Cfg} {spec : CountSpec} (ft : Val → Bytes)
    (hft : ∀ i e v, FloatOk ⟨i, e, v, ft v⟩) (hc : Canonical spec cfg.prog)
    {c : Cache} {mem0 : BufId → Bytes} {s : State (v9Codec ft)}
    (hr : Reach cfg (init (v9Codec ft) c mem0) s)
    (wo : Nat → Producer.WOut) (dl : Nat → Producer.DOut) (rm : Nat) :
    ∀ e ∈ (Producer.run wo dl rm (s.delivered.reverse.map (·.2))).delivered,
      ∃ (d : Dgram) (cache : Cache) (h : Hdr) (recs : List Record) (errs : List Err),
        Event.received d ∈ s.log ∧ (V9.decode cache d.addr d.bytes).1 = .ok (h, recs, errs) ∧
        e.data = render (v9Tree d.addr h (toJRecs ft recs)) ++ [10] ∧
        jsonValid (render (v9Tree d.addr h (toJRecs ft recs))) = true := by
  intro e he
  obtain ⟨id, p, hs, hdata⟩ := sink_chunk_is_solo hc hr wo dl rm e he
  obtain ⟨d, cache, h, recs, errs, h1, _, h3, _, h5, _, h7⟩ := v9_sol_spec ft hft hs
  exact ⟨d, cache, h, recs, errs, h1, h3, by rw [hdata]; simp only [h5], by rw [← h5]; exact h7⟩

theorem v5_sink_lines {cfg : Cfg} {spec : CountSpec} (hc : Canonical spec cfg.prog)
    {mem0 : BufId → Bytes} {s : State v5CodecA} (hr : Reach cfg (init v5CodecA () mem0) s)
    (wo : Nat → Producer.WOut) (dl : Nat → Producer.DOut) (rm : Nat) :
    ∀ e ∈ (Producer.run wo dl rm (s.delivered.reverse.map (·.2))).delivered,
      ∃ (d : Dgram) (m : V5.Msg), Event.received d ∈ s.log ∧ V5.decode d.bytes = .ok m ∧
        e.data = render (v5Tree d.addr m) ++ [10] ∧ jsonValid (render (v5Tree d.addr m)) = true := by
  intro e he
  obtain ⟨id, p, hs, hdata⟩ := sink_chunk_is_solo hc hr wo dl rm e he
  obtain ⟨d, m, h1, _, h3, _, h5, _, h7⟩ := v5_sol_spec hs
  exact ⟨d, m, h1, h3, by rw [hdata]; simp only [h5], by rw [← h5]; exact h7⟩

theorem sflow_sink_lines {cfg : Cfg} {spec : CountSpec} (f : List Nat) (hc : Canonical spec cfg.prog)
    {mem0 : BufId → Bytes} {s : State (sflowCodec f)} (hr : Reach cfg (init (sflowCodec f) () mem0) s)
    (wo : Nat → Producer.WOut) (dl : Nat → Producer.DOut) (rm : Nat) :
    ∀ e ∈ (Producer.run wo dl rm (s.delivered.reverse.map (·.2))).delivered,
      ∃ (d : Dgram) (dg : Sflow.Datagram), Event.received d ∈ s.log ∧ Sflow.decode f d.bytes = .ok dg ∧
        e.data = render (Sflow.Json.sflowTree dg) ++ [10] ∧ jsonValid (render (Sflow.Json.sflowTree dg)) = true := by
  intro e he
  obtain ⟨id, p, hs, hdata⟩ := sink_chunk_is_solo hc hr wo dl rm e he
  obtain ⟨d, dg, h1, _, h3, _, h5, _, h7⟩ := sflow_sol_spec f hs
  exact ⟨d, dg, h1, h3, by rw [hdata]; simp only [h5], by rw [← h5]; exact h7⟩

/-- non-vacuity of the chain: the example message of C03 (a template, an options template, two data sets with a
variable-length field and set padding, three records) meets both hypotheses -/
example : Wire.Ipfix.wfMsg C03.exAddr [] C03.exMsg = true ∧ (Wire.Ipfix.expected C03.exAddr [] C03.exMsg).1 ≠ [] := by
  refine ⟨by set_option maxRecDepth 100000 in decide, ?_⟩
  intro h
  have h3 : (Wire.Ipfix.expected C03.exAddr [] C03.exMsg).1.length = 3 := by rfl
  rw [h] at h3; exact absurd h3 (by decide)

end EndToEnd

/-! ## What the leaves carry (re-exported from `Vflow.Proofs.JsonLex`) -/

/-- numbers are exact: the emitted decimal text is an RFC 8259 number and reads back, in base 10, as the
decoded value — for every natural number (64-bit extremes included) -/
theorem number_text_exact (n : Nat) : isNumber (natDigits n) = true ∧ decode10 (natDigits n) = n :=
  ⟨natDigits_isNumber n, decode10_natDigits n⟩

/-- every string value — arbitrary octets — is escaped to a valid JSON string body -/
theorem string_text_valid (s : Bytes) : isStrBody (escString s) = true := escString_isStrBody s

/-- printable ASCII without `" \ < > &` is carried verbatim -/
theorem plain_text_verbatim {s : Bytes} (h : ∀ c ∈ s, 32 ≤ c ∧ c < 127 ∧ c ∉ [34, 92, 60, 62, 38]) :
    escString s = s := escString_id_of_plain h

/-! ## Non-vacuity: concrete messages -/

/-- one record with a string `a"b`, a boolean with enterprise number 9, a NaN (`ftext = NaN`), the 64-bit
extremes, an IPv6 address and a finite float; and one empty record -/
def exampleRecs : List (List JField) :=
  [[⟨8, 0, .str [97, 34, 98], []⟩, ⟨1, 9, .bool true, []⟩, ⟨2, 0, .f32 0x7FC00000, [78, 97, 78]⟩,
    ⟨3, 0, .i64 (-9223372036854775808), []⟩, ⟨4, 0, .u64 18446744073709551615, []⟩,
    ⟨27, 0, .ip [0x20, 0x01, 0x0d, 0xb8, 0, 0, 0, 0, 0, 0, 0, 0, 0, 0, 0, 1], []⟩,
    ⟨5, 0, .f64 0x3FF8000000000000, [49, 46, 53, 69, 43, 48, 48]⟩], []]

example : Ipfix.marshal (ipBytes [192, 0, 2, 1]) [10, 64, 1700000000, 7, 42] exampleRecs =
    txt ["{\"AgentID\":\"192.0.2.1\",\"Header\":{\"Versio",
      "n\":10,\"Length\":64,\"ExportTime\":170000000",
      "0,\"SequenceNo\":7,\"DomainID\":42},\"DataSet",
      "s\":[[{\"I\":8,\"V\":\"a\\\"b\"},{\"I\":1,\"V\":true,",
      "\"E\":9},{\"I\":2,\"V\":\"NaN\"},{\"I\":3,\"V\":-922",
      "3372036854775808},{\"I\":4,\"V\":18446744073",
      "709551615},{\"I\":27,\"V\":\"2001:db8::1\"},{\"",
      "I\":5,\"V\":1.5E+00}],[]]}"] := by
  decide +kernel

/-- the float assumption holds for the example (`NaN` is a string body, `1.5E+00` a number) -/
theorem example_floatOk : ∀ r ∈ exampleRecs, ∀ f ∈ r, FloatOk f := by decide

example : DVal (Ipfix.marshal (ipBytes [192, 0, 2, 1]) [10, 64, 1700000000, 7, 42] exampleRecs)
    (ipfixTree [192, 0, 2, 1] [10, 64, 1700000000, 7, 42] exampleRecs) :=
  ipfix_marshal_valid _ _ _ example_floatOk

example : V9.marshal (ipBytes [192, 0, 2, 1]) [9, 1, 1000, 1700000000, 7, 42] [[⟨1, 0, .u32 1500, []⟩]] =
    txt ["{\"AgentID\":\"192.0.2.1\",\"Header\":{\"Versio",
      "n\":9,\"Count\":1,\"SysUpTime\":1000,\"UNIXSec",
      "s\":1700000000,\"SeqNum\":7,\"SrcID\":42},\"Da",
      "taSets\":[[{\"I\":1,\"V\":1500}]]}"] := by
  decide +kernel

/-- the hypotheses are not trivially satisfiable: a float field whose text is not a number violates `FloatOk` -/
example : ¬ FloatOk ⟨5, 0, .f64 0x3FF8000000000000, [120]⟩ := by decide

end Vflow.C05
