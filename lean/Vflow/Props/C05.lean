import Vflow.Proofs.JsonTree
import Vflow.Props.C08
/-!
# C05 — every published message is valid JSON that faithfully carries the decode

For the three hand-written encoders (IPFIX, NetFlow v9, NetFlow v5 — the v5 statements live in
`Vflow.Props.C08` and are re-exported here) and for **every** exporter address, header, record
list, field value (all 16 value kinds, arbitrary octets in strings, every bit pattern, no bound on
the integers):

* `…_marshal_eq_render`: the octets the encoder publishes are the compact rendering of the message
  tree `ipfixTree` / `v9Tree` / `v5Tree`.  **The tree is the faithfulness statement**: `AgentID` is the
  canonical text of the exporter address; `Header` shows the header fields by name and in order, each
  as the exact decimal text of the decoded value (`decode10 (natDigits n) = n`); `DataSets` shows,
  per record and in decode order, per field the element id `I`, the value `V` in the form given by
  `valJson`, and the enterprise number `E` exactly when it is non-zero.
* `…_marshal_valid`: that text derives, in the RFC 8259 grammar `DVal`, exactly that tree (so a
  conforming parser reads back the same members with the same number / string tokens).

The fixed text and member order come from the Go source: the encoders' write programs are regenerated
by factgen on every run and the `gen_*` theorems below oblige them to be the specification programs
of `Vflow.Spec.JsonProgs` up to merging of adjacent literal writes.

**Assumption** (`FloatOk`, stated per field): `strconv.FormatFloat(f,'E',-1,bits)` is not modelled; its text
is an input, assumed to be a JSON number for a finite bit pattern and a string body (`NaN`, `+Inf`,
`-Inf`) otherwise.  sFlow messages are published through `encoding/json` (library) and are not
covered here.
-/
namespace Vflow.C05
open Vflow Vflow.Spec Vflow.JsonTree Vflow.JsonLex

/-! ## Obligations over the regenerated write programs -/

theorem gen_ipfixAgent : normalize Gen.JsonWrites.ipfixAgent = normalize Spec.ipfixAgentProg := by decide
theorem gen_ipfixHeader : normalize Gen.JsonWrites.ipfixHeader = normalize Spec.ipfixHeaderProg := by decide
theorem gen_v9Agent : normalize Gen.JsonWrites.v9Agent = normalize Spec.v9AgentProg := by decide
theorem gen_v9Header : normalize Gen.JsonWrites.v9Header = normalize Spec.v9HeaderProg := by decide

/-! ## IPFIX -/

/-- **C05 (IPFIX, faithfulness)**: the published octets are exactly the rendering of `ipfixTree a hdr recs` —
`{"AgentID":"<net.IP.String of a>","Header":{"Version":…,"Length":…,"ExportTime":…,"SequenceNo":…,"DomainID":…},
"DataSets":[[{"I":id,"V":value[,"E":enterprise]},…],…]}` with every number the exact decimal text of the
decoded value.  No assumption (float text is carried as given). -/
theorem ipfix_marshal_eq_render (a : Bytes) (hdr : List Nat) (recs : List (List JField)) :
    Ipfix.marshal (ipBytes a) hdr recs = render (ipfixTree a hdr recs) := by
  rw [ipfixTree_eq, ← marshalFlow_spec ipfixHeaderKeys (by decide)]
  exact marshalFlow_congr gen_ipfixAgent gen_ipfixHeader _ _ _

/-- the IPFIX message tree is well-formed (every key and string a string body, every number a JSON number) -/
theorem ipfix_tree_wf (a : Bytes) (hdr : List Nat) (recs : List (List JField))
    (hf : ∀ r ∈ recs, ∀ f ∈ r, FloatOk f) : WF (ipfixTree a hdr recs) := by
  rw [ipfixTree_eq]; exact wf_flowMsgTree _ (by decide) a hdr recs hf

/-- **C05 (IPFIX, validity)**: the published octets derive `ipfixTree a hdr recs` in the RFC 8259 grammar.
Assumes only `FloatOk` for the float-valued fields. -/
theorem ipfix_marshal_valid (a : Bytes) (hdr : List Nat) (recs : List (List JField))
    (hf : ∀ r ∈ recs, ∀ f ∈ r, FloatOk f) :
    DVal (Ipfix.marshal (ipBytes a) hdr recs) (ipfixTree a hdr recs) := by
  rw [ipfix_marshal_eq_render]; exact derives_render _ (ipfix_tree_wf a hdr recs hf)

/-! ## NetFlow v9 -/

/-- **C05 (NetFlow v9, faithfulness)**: as for IPFIX, with the header members
`Version, Count, SysUpTime, UNIXSecs, SeqNum, SrcID`. -/
theorem v9_marshal_eq_render (a : Bytes) (hdr : List Nat) (recs : List (List JField)) :
    V9.marshal (ipBytes a) hdr recs = render (v9Tree a hdr recs) := by
  rw [v9Tree_eq, ← marshalFlow_spec v9HeaderKeys (by decide)]
  exact marshalFlow_congr gen_v9Agent gen_v9Header _ _ _

theorem v9_tree_wf (a : Bytes) (hdr : List Nat) (recs : List (List JField))
    (hf : ∀ r ∈ recs, ∀ f ∈ r, FloatOk f) : WF (v9Tree a hdr recs) := by
  rw [v9Tree_eq]; exact wf_flowMsgTree _ (by decide) a hdr recs hf

/-- **C05 (NetFlow v9, validity)** -/
theorem v9_marshal_valid (a : Bytes) (hdr : List Nat) (recs : List (List JField))
    (hf : ∀ r ∈ recs, ∀ f ∈ r, FloatOk f) :
    DVal (V9.marshal (ipBytes a) hdr recs) (v9Tree a hdr recs) := by
  rw [v9_marshal_eq_render]; exact derives_render _ (v9_tree_wf a hdr recs hf)


/-! ## NetFlow v5 (proved in `Vflow.Props.C08`, re-exported) -/

/-- **C05 (NetFlow v5, faithfulness)**: the published octets are the rendering of `v5Tree a m` — agent address, the
nine header fields and, per flow, the twenty fields by name; addresses in dotted-quad text, all other
fields the exact decimal text.  Relies on the obligations `C08.gen_v5Agent/gen_v5Header/gen_v5Flow`. -/
theorem v5_marshal_eq_render (a : Bytes) (m : V5.Msg) : V5.marshal (ipBytes a) m = render (v5Tree a m) :=
  C08.v5_marshal_eq_render a m

/-- **C05 (NetFlow v5, validity)**: unconditional (no float or string fields) -/
theorem v5_marshal_valid (a : Bytes) (m : V5.Msg) : DVal (V5.marshal (ipBytes a) m) (v5Tree a m) :=
  C08.v5_marshal_valid a m

/-! ## What the leaves carry (re-exported from `Vflow.Proofs.JsonLex`) -/

/-- numbers are exact: the emitted decimal text is an RFC 8259 number and reads back, in base 10, as the
decoded value — for every natural number (64-bit extremes included) -/
theorem number_text_exact (n : Nat) : isNumber (natDigits n) = true ∧ decode10 (natDigits n) = n :=
  ⟨natDigits_isNumber n, decode10_natDigits n⟩

/-- every string value — arbitrary octets — is escaped to a valid JSON string body -/
theorem string_text_valid (s : Bytes) : isStrBody (escString s) = true := escString_isStrBody s

/-- printable ASCII without `" \ < > &` is carried verbatim -/
theorem plain_text_verbatim {s : Bytes} (h : ∀ c ∈ s, 32 ≤ c ∧ c < 127 ∧ c ∉ [34, 92, 60, 62, 38]) :
    escString s = s := escString_id_of_plain h

/-! ## Non-vacuity: concrete messages -/

/-- one record with a string `a"b`, a boolean with enterprise number 9, a NaN (`ftext = NaN`), the 64-bit
extremes, an IPv6 address and a finite float; and one empty record -/
def exampleRecs : List (List JField) :=
  [[⟨8, 0, .str [97, 34, 98], []⟩, ⟨1, 9, .bool true, []⟩, ⟨2, 0, .f32 0x7FC00000, [78, 97, 78]⟩,
    ⟨3, 0, .i64 (-9223372036854775808), []⟩, ⟨4, 0, .u64 18446744073709551615, []⟩,
    ⟨27, 0, .ip [0x20, 0x01, 0x0d, 0xb8, 0, 0, 0, 0, 0, 0, 0, 0, 0, 0, 0, 1], []⟩,
    ⟨5, 0, .f64 0x3FF8000000000000, [49, 46, 53, 69, 43, 48, 48]⟩], []]

example : Ipfix.marshal (ipBytes [192, 0, 2, 1]) [10, 64, 1700000000, 7, 42] exampleRecs =
    txt ["{\"AgentID\":\"192.0.2.1\",\"Header\":{\"Versio",
      "n\":10,\"Length\":64,\"ExportTime\":170000000",
      "0,\"SequenceNo\":7,\"DomainID\":42},\"DataSet",
      "s\":[[{\"I\":8,\"V\":\"a\\\"b\"},{\"I\":1,\"V\":true,",
      "\"E\":9},{\"I\":2,\"V\":\"NaN\"},{\"I\":3,\"V\":-922",
      "3372036854775808},{\"I\":4,\"V\":18446744073",
      "709551615},{\"I\":27,\"V\":\"2001:db8::1\"},{\"",
      "I\":5,\"V\":1.5E+00}],[]]}"] := by
  decide +kernel

/-- the float assumption holds for the example (`NaN` is a string body, `1.5E+00` a number) -/
theorem example_floatOk : ∀ r ∈ exampleRecs, ∀ f ∈ r, FloatOk f := by decide

example : DVal (Ipfix.marshal (ipBytes [192, 0, 2, 1]) [10, 64, 1700000000, 7, 42] exampleRecs)
    (ipfixTree [192, 0, 2, 1] [10, 64, 1700000000, 7, 42] exampleRecs) :=
  ipfix_marshal_valid _ _ _ example_floatOk

example : V9.marshal (ipBytes [192, 0, 2, 1]) [9, 1, 1000, 1700000000, 7, 42] [[⟨1, 0, .u32 1500, []⟩]] =
    txt ["{\"AgentID\":\"192.0.2.1\",\"Header\":{\"Versio",
      "n\":9,\"Count\":1,\"SysUpTime\":1000,\"UNIXSec",
      "s\":1700000000,\"SeqNum\":7,\"SrcID\":42},\"Da",
      "taSets\":[[{\"I\":1,\"V\":1500}]]}"] := by
  decide +kernel

/-- the hypotheses are not trivially satisfiable: a float field whose text is not a number violates `FloatOk` -/
example : ¬ FloatOk ⟨5, 0, .f64 0x3FF8000000000000, [120]⟩ := by decide

end Vflow.C05
