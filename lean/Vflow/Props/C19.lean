import Vflow.Model.Reader
import Vflow.Gen.Sites
import Vflow.Gen.ReaderIR
import Vflow.Spec.Sites
/-!
# C19 — the byte reader never reads outside its buffer and accounts exactly

All theorems quantify over every buffer `b`, every finite operation sequence `ops`
and every length argument `n : Int` (negative included).
-/
namespace Vflow.C19
open Vflow

/-- the accounting invariant relative to the original buffer -/
def Good (b : Bytes) (r : Rd) : Prop := r.cnt ≤ b.length ∧ r.rem = b.drop r.cnt

theorem take?_some {r : Rd} {n : Int} {x : Bytes} (h : r.take? n = some x) :
    0 ≤ n ∧ n.toNat ≤ r.rem.length ∧ x = r.rem.take n.toNat := by
  unfold Rd.take? at h
  split at h
  · simp at h
  · split at h
    · simp at h
    · simp at h; exact ⟨by omega, by omega, h.symm⟩

theorem good_adv (b : Bytes) (r : Rd) (k : Nat) (h : Good b r) (hk : k ≤ r.rem.length) :
    Good b (r.adv k) := by
  obtain ⟨h1, h2⟩ := h
  have : r.rem.length = b.length - r.cnt := by rw [h2]; simp
  refine ⟨by simp [Rd.adv]; omega, ?_⟩
  simp [Rd.adv, h2, List.drop_drop]

theorem step_good (b : Bytes) (r : Rd) (o : ROp) (h : Good b r) : Good b (r.step o).1 := by
  cases o <;> simp only [Rd.step]
  case len => exact h
  case readCount => exact h
  all_goals
    split
    · rename_i x hx
      have := take?_some hx
      first
        | exact h
        | exact good_adv b r _ h (by simpa using this.2.1)
    · exact h

/-- every reachable state: the remainder is the suffix of the original buffer at the consumed count -/
theorem run_good (b : Bytes) (ops : List ROp) : Good b (Rd.run ⟨b, 0⟩ ops) := by
  suffices ∀ r, Good b r → Good b (Rd.run r ops) from this ⟨b, 0⟩ ⟨Nat.zero_le _, by simp⟩
  induction ops with
  | nil => intro r h; exact h
  | cons o os ih => intro r h; exact ih _ (step_good b r o h)

/-- **C19 (accounting)**: consumed + remaining = buffer length, after any operation sequence -/
theorem run_accounting (b : Bytes) (ops : List ROp) :
    (Rd.run ⟨b, 0⟩ ops).cnt + (Rd.run ⟨b, 0⟩ ops).rem.length = b.length := by
  have := run_good b ops
  have h1 := this.1
  rw [this.2]; simp; omega

/-- **C19 (read)**: a read of `n` octets returns exactly the next `n` octets of the original buffer
and advances by `n`, or fails and leaves the state unchanged — for every `n`, negative included -/
theorem read_spec (b : Bytes) (r : Rd) (n : Int) (h : Good b r) :
    ((r.step (.read n)).2 = .fail ∧ (r.step (.read n)).1 = r) ∨
    (0 ≤ n ∧ (r.step (.read n)).2 = .bytes ((b.drop r.cnt).take n.toNat) ∧
      (r.step (.read n)).1.cnt = r.cnt + n.toNat ∧ ((b.drop r.cnt).take n.toNat).length = n.toNat) := by
  simp only [Rd.step]
  split
  · rename_i x hx
    have := take?_some hx
    right
    refine ⟨this.1, by rw [this.2.2, h.2], rfl, ?_⟩
    rw [← h.2]; simp; exact Nat.min_eq_left this.2.1
  · left; exact ⟨rfl, rfl⟩

/-- width of the fixed-size integer reads -/
def width : ROp → Option Nat
  | .u8 => some 1 | .u16 => some 2 | .u32 => some 4 | .u64 => some 8 | _ => none

/-- **C19 (integers)**: `UintK` returns the big-endian value of the next `K` octets of the original
buffer and advances by `K`, or fails and leaves the state unchanged -/
theorem uint_spec (b : Bytes) (r : Rd) (o : ROp) (k : Nat) (hw : width o = some k) (h : Good b r) :
    ((r.step o).2 = .fail ∧ (r.step o).1 = r) ∨
    ((r.step o).2 = .num (beN ((b.drop r.cnt).take k)) ∧ (r.step o).1.cnt = r.cnt + k ∧
      ((b.drop r.cnt).take k).length = k) := by
  cases o <;> simp [width] at hw <;> subst hw <;> simp only [Rd.step]
  all_goals
    split
    · rename_i x hx
      have := take?_some hx
      right
      refine ⟨by rw [this.2.2, h.2]; rfl, rfl, ?_⟩
      rw [← h.2]; simp; exact Nat.min_eq_left (by simpa using this.2.1)
    · left; exact ⟨rfl, rfl⟩

/-- **C19 (failure)**: whatever the operation, a failed operation leaves the state unchanged -/
theorem fail_unchanged (r : Rd) (o : ROp) (h : (r.step o).2 = .fail) : (r.step o).1 = r := by
  cases o <;> simp only [Rd.step] at h ⊢ <;> (try rfl) <;> split <;> simp_all

/-- **C19 (peeks)**: `Peek`, `PeekUint16`, `Len`, `ReadCount` never change the state -/
theorem peek_no_advance (r : Rd) (n : Int) : (r.step (.peek n)).1 = r := by
  simp only [Rd.step]; split <;> rfl
theorem peekU16_no_advance (r : Rd) : (r.step .peekU16).1 = r := by
  simp only [Rd.step]; split <;> rfl
theorem len_no_advance (r : Rd) : (r.step .len).1 = r := rfl
theorem readCount_no_advance (r : Rd) : (r.step .readCount).1 = r := rfl

/-- a peek returns exactly what the read at the same position returns -/
theorem peek_then_read (r : Rd) (n : Int) : (r.step (.peek n)).2 = (r.step (.read n)).2 := by
  simp only [Rd.step]; split <;> rfl

/-- `Len()` reports the number of remaining octets and `ReadCount()` the number consumed,
and in every reachable state they add up to the buffer length -/
theorem len_readCount (b : Bytes) (ops : List ROp) :
    ∃ l c, ((Rd.run ⟨b, 0⟩ ops).step .len).2 = .num l ∧
      ((Rd.run ⟨b, 0⟩ ops).step .readCount).2 = .num c ∧ c + l = b.length :=
  ⟨_, _, rfl, rfl, run_accounting b ops⟩

/-- the `Nat`-indexed read the decoders use is the `Int` read at a non-negative length -/
theorem readN_eq_read (r : Rd) (n : Nat) :
    (r.readN n).map (·.1) = r.take? (n : Int) ∧
    ∀ b r', r.readN n = some (b, r') → r' = r.adv n := by
  unfold Rd.readN Rd.take? Rd.adv
  constructor
  · have : ¬ ((n : Int) < 0) := by omega
    simp only [this, if_false, Int.toNat_natCast]
    split <;> simp
  · intro b r' h; split at h <;> simp at h; exact h.2.symm

/-- non-vacuity: a concrete run exercising a failed read, a negative read, a peek and integer reads -/
example : Rd.outs ⟨[1,2,3,4,5], 0⟩ [.u16, .read (-1), .peek 2, .read 9, .u8, .len, .readCount, .read 2, .u8] =
    [.num 258, .fail, .bytes [3,4], .fail, .num 3, .num 2, .num 3, .bytes [4,5], .fail] := by decide

/-! ## Algebraic laws: reads compose, and wide integers are made of narrow ones -/

theorem beN_foldl_acc (b : Bytes) (acc : Nat) :
    b.foldl (fun a x => a * 256 + x.toNat) acc = acc * 256 ^ b.length + beN b := by
  induction b generalizing acc with
  | nil => simp [beN]
  | cons x xs ih =>
    simp only [List.foldl_cons, List.length_cons, beN]
    rw [ih, ih (0 * 256 + x.toNat)]
    simp only [Nat.zero_mul, Nat.zero_add, Nat.pow_succ]
    rw [Nat.add_mul, Nat.add_assoc]
    congr 1
    rw [Nat.mul_assoc, Nat.mul_comm 256]

theorem beN_append (a b : Bytes) : beN (a ++ b) = beN a * 256 ^ b.length + beN b := by
  unfold beN; rw [List.foldl_append]; exact beN_foldl_acc b _

/-- a fixed-width integer read of `k` octets, as in `Rd.step` -/
def fixedRead (r : Rd) (k : Nat) : Rd × ROut :=
  match r.take? k with | some b => (r.adv k, .num (beN b)) | none => (r, .fail)

theorem take?_nat (r : Rd) (k : Nat) :
    r.take? (k : Int) = if r.rem.length < k then none else some (r.rem.take k) := by
  unfold Rd.take?
  have : ¬ ((k : Int) < 0) := by omega
  simp only [this, if_false, Int.toNat_natCast]

/-- **C19 (integers in big-endian order, compositional form)**: an integer read of `j + k` octets is an integer read
of `j` octets followed by one of `k` octets, the first the more significant — and it fails, leaving the reader where it
was, exactly when either of the two would fail.  For every reader state. -/
theorem fixed_split (r : Rd) (j k : Nat) :
    fixedRead r (j + k) =
      match fixedRead r j with
      | (r1, .num a) =>
        match fixedRead r1 k with
        | (r2, .num b) => (r2, .num (a * 256 ^ k + b))
        | _ => (r, .fail)
      | _ => (r, .fail) := by
  unfold fixedRead
  rw [take?_nat, take?_nat]
  by_cases h1 : r.rem.length < j
  · have : r.rem.length < j + k := by omega
    simp [h1, this]
  · simp only [h1, if_false]
    rw [take?_nat]
    by_cases h2 : r.rem.length < j + k
    · have : (r.adv j).rem.length < k := by simp [Rd.adv]; omega
      simp [h2, this]
    · have : ¬ (r.adv j).rem.length < k := by simp [Rd.adv]; omega
      simp only [h2, this, if_false]
      have hlen : ((r.rem.drop j).take k).length = k := by simp; omega
      have : r.rem.take (j + k) = r.rem.take j ++ (r.rem.drop j).take k := by
        rw [List.take_add]
      rw [this, beN_append, hlen]
      simp [Rd.adv, List.drop_drop]; omega

/-- **C19 (reads compose)**: `Read(m+n)` is `Read(m)` followed by `Read(n)` — the same octets, the same final position
and count — and fails without moving exactly when either of the two would fail (a decoder that reads a record field by
field consumes what one read of the record's length consumes).  For every reader state and all `m`, `n`. -/
theorem read_split (r : Rd) (m n : Nat) :
    r.step (.read ((m + n : Nat) : Int)) =
      match r.step (.read m) with
      | (r1, .bytes x1) =>
        match r1.step (.read n) with
        | (r2, .bytes x2) => (r2, .bytes (x1 ++ x2))
        | _ => (r, .fail)
      | _ => (r, .fail) := by
  simp only [Rd.step, take?_nat, Int.toNat_natCast]
  by_cases h1 : r.rem.length < m
  · have : r.rem.length < m + n := by omega
    simp [h1, this]
  · simp only [h1, if_false]
    by_cases h2 : r.rem.length < m + n
    · have : (r.adv m).rem.length < n := by simp [Rd.adv]; omega
      simp [h2, this]
    · have : ¬ (r.adv m).rem.length < n := by simp [Rd.adv]; omega
      simp only [h2, this, if_false]
      simp [Rd.adv, List.drop_drop, List.take_add]; omega

/-- `Uint16` is two `Uint8`s, `Uint32` two `Uint16`s, `Uint64` two `Uint32`s, most significant first; a short buffer
fails the wide read and leaves the reader unmoved even when the first half could be read -/
theorem u16_is_two_u8 (r : Rd) :
    r.step .u16 = match r.step .u8 with
      | (r1, .num a) => (match r1.step .u8 with | (r2, .num b) => (r2, .num (a * 256 + b)) | _ => (r, .fail))
      | _ => (r, .fail) := fixed_split r 1 1
theorem u32_is_two_u16 (r : Rd) :
    r.step .u32 = match r.step .u16 with
      | (r1, .num a) => (match r1.step .u16 with | (r2, .num b) => (r2, .num (a * 65536 + b)) | _ => (r, .fail))
      | _ => (r, .fail) := fixed_split r 2 2
theorem u64_is_two_u32 (r : Rd) :
    r.step .u64 = match r.step .u32 with
      | (r1, .num a) => (match r1.step .u32 with | (r2, .num b) => (r2, .num (a * 4294967296 + b)) | _ => (r, .fail))
      | _ => (r, .fail) := fixed_split r 4 4

/-- non-vacuity: the composition laws on a buffer where the second half is missing, and on one where it is there -/
example : (Rd.step ⟨[1,2,3], 0⟩ .u32).2 = .fail ∧ (Rd.step ⟨[1,2,3], 0⟩ .u16).2 = .num 258 ∧
    (Rd.step ⟨[1,2,3,4], 7⟩ .u32) = (⟨[], 11⟩, .num 16909060) ∧ 16909060 = 258 * 65536 + 772 := by decide

/-! ## Tie (translation): the methods of `reader/reader.go`, translated on every run, are the steps of the model

`Gen.ReaderIR` is regenerated from the Go AST by `factgen` (`reader_ir.go`); `ReaderIR.Body.run` gives the translated
statements Go's slice semantics, with `none` for an index or slice bound out of range.  Each theorem below is for every
state and every `int` argument: the translated method returns exactly what `Rd.step` returns — in particular it never
reaches `none` (no panic, no octet beyond `len(r.data)`), a failing call leaves the reader untouched, and the
theorems above are about what the current source says. -/
section Translation
open ReaderIR

/-- the translated method, run on state `r` with argument `n` -/
def runGen (m : Method) (r : Rd) (n : Int) : Option (Rd × ROut) :=
  m.body.run Gen.ReaderIR.advance Gen.ReaderIR.peek.body r n

theorem fixed_step (r : Rd) (k : Nat) (hk : 0 < k) (n : Int) (v : Val)
    (hv : ∀ d : Bytes, k ≤ d.length → v.eval d n = some (.num (beN (d.take k)))) :
    Body.runSimple (.readLike ⟨false, .k k⟩ v (.k k)) [.reslice, .countAdd] r n =
      some (match r.take? k with | some b => (r.adv k, .num (beN b)) | none => (r, .fail)) := by
  unfold Body.runSimple Guard.fails Rd.take? Rd.adv
  have h0 : ¬ ((k : Int) < 0) := by omega
  by_cases h : r.rem.length < k
  · have : ((r.rem.length : Int) < (k : Int)) := by omega
    simp [Width.eval, h, this]
  · have h' : ¬ ((r.rem.length : Int) < (k : Int)) := by omega
    have hv' := hv r.rem (by omega)
    simp [Width.eval, h, h', hv', runAdv, AdvStmt.run, h0, Int.toNat_natCast]
    omega

theorem gen_reader_uint8 (r : Rd) (n : Int) : runGen Gen.ReaderIR.uint8 r n = some (r.step .u8) := by
  unfold runGen
  simp only [Gen.ReaderIR.uint8, Gen.ReaderIR.advance, Body.run]
  rw [fixed_step r 1 (by decide) n .index0]
  · rfl
  · intro d hd
    match d, hd with
    | x :: t, _ => simp [Val.eval, beN]

theorem gen_reader_uint16 (r : Rd) (n : Int) : runGen Gen.ReaderIR.uint16 r n = some (r.step .u16) := by
  unfold runGen
  simp only [Gen.ReaderIR.uint16, Gen.ReaderIR.advance, Body.run]
  rw [fixed_step r 2 (by decide) n (.be 2)]
  · rfl
  · intro d hd; simp [Val.eval]; omega

theorem gen_reader_uint32 (r : Rd) (n : Int) : runGen Gen.ReaderIR.uint32 r n = some (r.step .u32) := by
  unfold runGen
  simp only [Gen.ReaderIR.uint32, Gen.ReaderIR.advance, Body.run]
  rw [fixed_step r 4 (by decide) n (.be 4)]
  · rfl
  · intro d hd; simp [Val.eval]; omega

theorem gen_reader_uint64 (r : Rd) (n : Int) : runGen Gen.ReaderIR.uint64 r n = some (r.step .u64) := by
  unfold runGen
  simp only [Gen.ReaderIR.uint64, Gen.ReaderIR.advance, Body.run]
  rw [fixed_step r 8 (by decide) n (.be 8)]
  · rfl
  · intro d hd; simp [Val.eval]; omega

theorem peek_simple (r : Rd) (n : Int) :
    Body.runSimple (.peekLike ⟨true, .arg⟩ (.pfx .arg)) [.reslice, .countAdd] r n =
      some (match r.take? n with | some b => (r, .bytes b) | none => (r, .fail)) := by
  unfold Body.runSimple Guard.fails Rd.take?
  by_cases hn : n < 0
  · simp [hn]
  · have hn' : n = (n.toNat : Int) := by omega
    by_cases h : r.rem.length < n.toNat
    · have : ((r.rem.length : Int) < n) := by omega
      simp [Width.eval, hn, h, this]
    · have : ¬ ((r.rem.length : Int) < n) := by omega
      simp [Width.eval, hn, h, this, Val.eval]

theorem gen_reader_peek (r : Rd) (n : Int) : runGen Gen.ReaderIR.peek r n = some (r.step (.peek n)) := by
  unfold runGen
  simp only [Gen.ReaderIR.peek, Gen.ReaderIR.advance, Body.run]
  rw [peek_simple]; rfl

theorem gen_reader_read (r : Rd) (n : Int) : runGen Gen.ReaderIR.read r n = some (r.step (.read n)) := by
  unfold runGen
  simp only [Gen.ReaderIR.read, Gen.ReaderIR.advance, Body.run]
  unfold Body.runSimple Guard.fails Rd.step Rd.take? Rd.adv
  by_cases hn : n < 0
  · simp [hn]
  · have hn' : n = (n.toNat : Int) := by omega
    by_cases h : r.rem.length < n.toNat
    · have : ((r.rem.length : Int) < n) := by omega
      simp [Width.eval, hn, h, this]
    · have : ¬ ((r.rem.length : Int) < n) := by omega
      simp [Width.eval, hn, h, this, Val.eval, runAdv, AdvStmt.run]
      omega

theorem gen_reader_peekUint16 (r : Rd) (n : Int) :
    runGen Gen.ReaderIR.peekUint16 r n = some (r.step .peekU16) := by
  unfold runGen
  simp only [Gen.ReaderIR.peekUint16, Gen.ReaderIR.peek, Gen.ReaderIR.advance, Body.run]
  rw [peek_simple]
  unfold Rd.step
  cases h : r.take? 2 with
  | none => rfl
  | some b =>
    have hl := take?_some h
    have hb : b.length = 2 := by
      rw [hl.2.2]; simp [List.length_take]; omega
    have : ¬ (b.length < 2) := by omega
    simp only [this, if_false]
    rw [List.take_of_length_le (by omega)]

theorem gen_reader_len (r : Rd) (n : Int) : runGen Gen.ReaderIR.len r n = some (r.step .len) := rfl
theorem gen_reader_readCount (r : Rd) (n : Int) : runGen Gen.ReaderIR.readCount r n = some (r.step .readCount) := rfl

/-- signatures and fields: `count` is an `int` (a narrower counter wraps on long buffers), the integer reads return
the full-width unsigned types, `Read` / `Peek` take an `int`; `NewReader` starts with the whole buffer and count 0
(the start state of `run_accounting`); the package has no other function that could touch the fields -/
theorem gen_reader_signatures :
    Gen.ReaderIR.fields = [("data", "[]byte"), ("count", "int")] ∧
    Gen.ReaderIR.advanceParamType = "int" ∧
    Gen.ReaderIR.newReader = .dataFromArgCountZero ∧
    Gen.ReaderIR.otherFuncs = [] ∧
    [Gen.ReaderIR.uint8, Gen.ReaderIR.uint16, Gen.ReaderIR.uint32, Gen.ReaderIR.uint64, Gen.ReaderIR.read,
      Gen.ReaderIR.peek, Gen.ReaderIR.peekUint16, Gen.ReaderIR.len, Gen.ReaderIR.readCount].map
        (fun m => (m.params, m.results)) =
      [("", "uint8, error"), ("", "uint16, error"), ("", "uint32, error"), ("", "uint64, error"),
       ("int", "[]byte, error"), ("int", "[]byte, error"), ("", "uint16, error"), ("", "int"), ("", "int")] := by
  decide +kernel

end Translation

/-- **Tie (control-flow skeleton)**: every branch / loop condition, switch case and `break` / `continue` of the
sources this model mirrors, re-extracted on every run, is exactly the reviewed inventory in `Spec/Sites.lean`
(which names the model clause of each).  A changed bound, a new or dropped branch breaks this obligation. -/
theorem guards_reviewed : Gen.Sites.guardsReader = Spec.Sites.guardsReader := by decide +kernel

end Vflow.C19
