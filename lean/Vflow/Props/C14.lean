import Vflow.Proofs.Producer
import Vflow.Proofs.SaramaLoop
import Vflow.Gen.ProducerFacts
import Vflow.Gen.ProducerRun
/-!
# C14 — the producer delivers every message once, unmodified, newline-terminated, in order

Model: `Vflow.Producer.run wo dl retryMax ms` (`Model/Producer.lean`), the loop of
`producer/rawSocket.go inputMsg` against an arbitrary *outcome script*: `wo j` is the outcome of the
`j`-th write of the run (`ok`, `lost` = write returned nil but the octets never arrive,
`errPipe`, `errOther`), `dl j` the outcome of the `j`-th redial.

Every theorem quantifies over **every** message list (any octets), **every** script (functions
`Nat → WOut`, `Nat → DOut`, so also infinite ones) and **every** `retryMax : Nat`.

What the outcome script abstracts (trusted, not proved): a write whose outcome is `ok` puts the whole
framed message on the wire; a write that returns an error has put no *complete* line on the wire (Go's
`Write` reports an error for a partial write, and the sink counts only complete lines); `lost` covers
a write the kernel accepted for a connection/port that is already dead. A write that is cut off
half-way (large message, stalled sink, connection closed or reset while the producer is blocked in the
write: event `s<k>` of the socket harness) is such a failed write — the part of the line already on the
wire has no newline and dies with the connection, and the retry sends the whole message again, which
is what `sendOne` does (it always frames the full `m`). Kernel timing decides *which*
script occurs; the theorems hold for all of them.

A sink that stays connected but reads nothing for a while (event `z<k>` of the socket harness: seconds of
silence while a message larger than the socket buffers is being written) is **not** a new kind of outcome:
the loop sets no write deadline, the write blocks and returns nil when the sink reads again, so such a run
is a script in which that write is `ok` — every theorem below already quantifies over it, and a run in which
the sink only stalls is the all-`ok` script of `no_fault_all_delivered` (everything arrives once, in order,
on the first connection, no error counted; after the last real fault: `resumption`). What the stall *tests*
is the trusted clause above, "a failed write leaves no part of a line in front of the retry": it holds
because a write fails only on a connection that is gone. A write that could fail on a healthy connection
(a deadline, say) after putting part of the line on the wire would break it — the retry of the whole message
would land behind the fragment; the harness demands exact, duplicate-free, in-order delivery with a zero error
counter from every stalled run, and `gen_rawLoop_expected` pins that the loop consists of the write, the error
branch and nothing else.

The tie to the source is (A) the obligations on `Vflow.Gen.ProducerFacts` at the end of this file
(regenerated from `producer/*.go` on every run) and (B) the `producer` correspondence
(`producer/verif_rawsocket_test.go` against real sockets).

The default backend, kafka (`producer/sarama.go`), has its own small model: `Vflow.Producer.runK lp sc ms`
(`Model/SaramaLoop.lean`) interprets the *regenerated description* `Gen.saramaLoop` of the send loop of
`KafkaSarama.inputMsg` against an arm script `sc` (which arm of the `select` the client library / the
scheduler lets the loop take, one entry per `select` executed). The theorems `kafka_*` below quantify
over **every** message list (of any type) and **every** script; they are about `Gen.saramaLoop`
itself, so they are re-proved against the current source by every `lake build`. On the loop as it
was before the F20 repair they are false (`f20_drop_counterexample`). Tie (B):
`producer/verif_sarama_test.go` runs the real `inputMsg` against sarama's own mock producer and
against a scripted `AsyncProducer` (correspondence kind `producerk`).
-/
namespace Vflow.C14
open Vflow Vflow.Producer

/-! ## Generated-fact obligations (re-checked against the current source by `lake build`) -/

/-- the message is written as a *value* (`fmt.Fprintf(conn, "%s\n", msg)`), never used as the
    printf format: this is what makes `frame m = m ++ [10]` the octets on the wire (F12) -/
theorem gen_rawWrite_verbatim : writeIsVerbatim Gen.rawWrite = true := by decide

/-- the receive / retry / redial skeleton of `RawSocket.inputMsg` is the one `sendOne`/`sendAll`
    transcribe: one write per attempt, leave on success, count the error, redial only on
    "broken pipe", give up when `i >= MaxRetry` -/
theorem gen_rawLoop_expected : Gen.rawLoop = expectedLoop := by decide

/-- kafka (sarama): the payload is the received message itself -/
theorem gen_sarama_payload : Gen.saramaPayload = .byteEncoderOfRecvVar := by decide
/-- kafka (segmentio): the payload is the received message itself -/
theorem gen_segmentio_payload : Gen.segmentioPayload = .recvVar := by decide
/-- nsq: the payload is the received message itself -/
theorem gen_nsq_payload : Gen.nsqPayload = .recvVar := by decide
/-- nats: the payload is the received message itself -/
theorem gen_nats_payload : Gen.natsPayload = .recvVar := by decide

/-- kafka (sarama): the send loop is the repaired one, token for token: `msg, ok = <-mCh`,
    `if !ok { break }`, then `offer: for { select { case Input() <- …: break offer;
    case err := <-Errors(): log; *ec++ } }` and nothing else -/
theorem gen_saramaLoop_expected : Gen.saramaLoop = expectedSaramaLoop := by decide

/-- kafka (sarama): under Go's control flow (`armAfter`) the regenerated loop offers the message in
    hand again after every error report, moves on only after `Input()` accepted it, and logs and
    counts each error report once -/
theorem gen_saramaLoop_retries : Gen.saramaLoop.retriesUntilAccepted :=
  ⟨⟨_, rfl, rfl, rfl⟩, ⟨_, rfl, rfl, rfl⟩⟩

/-! ## The property theorems: kafka (sarama) send loop -/

/-- **C14 (kafka: every message is offered until accepted, once, in order)**: for every message list
and every arm script, what the client library has accepted on `Input()` is exactly the first `k`
handed-over messages, `k` the number of `select`s of the script in which the library accepts — no
message is skipped, repeated or reordered, whatever the error reports in between; the loop never
reaches an undefined state -/
theorem kafka_offered_is_prefix {α : Type} (sc : List Arm) (ms : List α) :
    (runK Gen.saramaLoop sc ms).offered = ms.take (inputArms sc) ∧
    (runK Gen.saramaLoop sc ms).stuck = false :=
  have h := runK_retrying Gen.saramaLoop gen_saramaLoop_retries sc ms
  ⟨h.1, h.2.1⟩

/-- **C14 (kafka: the sequence offered to the library = the sequence received)**: as soon as the
library has accepted as many inputs as messages were handed over, it has been offered exactly those
messages, each once, in the order they were handed over -/
theorem kafka_offered_eq_received {α : Type} (sc : List Arm) (ms : List α)
    (h : ms.length ≤ inputArms sc) :
    (runK Gen.saramaLoop sc ms).offered = ms := by
  rw [(kafka_offered_is_prefix sc ms).1, List.take_of_length_le h]

/-- **C14 (kafka: error counter)**: `MQErrorCount` and the number of logged error reports both equal
the number of error reports taken from `Errors()` in the `select`s the run executed; the run executes
`select`s exactly until every message has been accepted (or the script ends) -/
theorem kafka_counters_exact {α : Type} (sc : List Arm) (ms : List α) :
    let r := runK Gen.saramaLoop sc ms
    r.ec = errorArms (sc.take r.steps) ∧ r.logged = errorArms (sc.take r.steps) ∧
    r.steps ≤ sc.length ∧ inputArms (sc.take r.steps) = min ms.length (inputArms sc) :=
  have h := runK_retrying Gen.saramaLoop gen_saramaLoop_retries sc ms
  ⟨h.2.2.2.1, h.2.2.2.2.1, h.2.2.1, h.2.2.2.2.2⟩

/-- **F20**: on the loop as it was (`select` once per message, the error arm leaves it as well) the
property is false — an error report taken while message 0 is in hand discards message 0: the library
is offered message 1 only, although it accepts two inputs, and the run is not stuck -/
theorem f20_drop_counterexample :
    (runK saramaLoopBeforeF20 [.error, .input, .input] [0, 1]).offered = [1] ∧
    (runK saramaLoopBeforeF20 [.error, .input, .input] [0, 1]).stuck = false ∧
    (runK saramaLoopBeforeF20 [.error, .input, .input] [0, 1]).offered ≠ [0, 1].take (inputArms [.error, .input, .input]) := by
  decide

/-- non-vacuity: three messages, an error report while the second is in hand and two while the third
is: all three are offered, in order, three errors counted and logged, six `select`s -/
example :
    runK Gen.saramaLoop [.input, .error, .input, .error, .error, .input, .error] [10, 20, 30] =
      { offered := [10, 20, 30], ec := 3, logged := 3, steps := 6, stuck := false } := by
  decide

/-- fail closed: a loop the extractor could not read is given no meaning (`stuck`), so
    `kafka_offered_is_prefix` cannot be proved about it -/
example : (runK { recvFirst := true, offer := .unrecognised "x", extra := [] } [.input] [0]).stuck = true := by
  decide

/-! ## The property theorems: raw socket -/

/-- **C14 (unmodified, newline-terminated, in order, no duplicates)**: every chunk the sink receives
is `msg ++ "\n"` for the handed-over message with that index, byte for byte; the indices of the
received chunks are strictly increasing (in order, none twice) -/
theorem delivered_in_order (wo : Nat → WOut) (dl : Nat → DOut) (rm : Nat) (ms : List Bytes) :
    (idxs (run wo dl rm ms)).Pairwise (· < ·) ∧
    ∀ e ∈ (run wo dl rm ms).delivered, ∃ m, ms[e.idx]? = some m ∧ e.data = m ++ [10] := by
  have := sendAll_ordered wo dl rm ms 0 {} (by simp [idxs]) (by simp [idxs])
  refine ⟨this.1, ?_⟩
  intro e he
  rcases this.2 e he with h | ⟨m, hm, _, heq⟩
  · simp at h
  · exact ⟨m, by simpa using hm, heq⟩

/-- **C14 (subsequence)**: the octet chunks received over all connections, in arrival order, are
exactly `sub.map (· ++ "\n")` for a subsequence `sub` of the handed-over list (order kept, nothing
invented, nothing twice, nothing altered) -/
theorem delivered_subsequence (wo : Nat → WOut) (dl : Nat → DOut) (rm : Nat) (ms : List Bytes) :
    ∃ sub : List Bytes, sub.Sublist ms ∧
      (run wo dl rm ms).delivered.map (·.data) = sub.map (fun m => m ++ [10]) := by
  obtain ⟨sub, h1, h2⟩ := sendAll_sublist wo dl rm ms 0 {}
  have hf : frame = fun m => m ++ [10] := rfl
  exact ⟨sub, h1, by rw [← hf]; simpa [run] using h2⟩

/-- **C14 (bounded gap)**: the number of handed-over messages the sink does not have is at most the
number of write outcomes, among those consumed, that were not a delivery; and the run consumes at
most `retryMax + 1` writes per message -/
theorem bounded_gap (wo : Nat → WOut) (dl : Nat → DOut) (rm : Nat) (ms : List Bytes) :
    ms.length - (run wo dl rm ms).delivered.length ≤ countTo notDelivered wo (run wo dl rm ms).wi ∧
    (run wo dl rm ms).wi ≤ ms.length * (rm + 1) := by
  obtain ⟨h, h1, h2⟩ := sendAll_acct wo dl rm ms 0 {} (acct_init wo dl)
  have hs := countTo_split wo (run wo dl rm ms).wi
  have hd := h.dlv
  simp only [run] at *
  refine ⟨?_, by simpa using h2⟩
  have : ms.length ≤ (sendAll wo dl rm ms 0 {}).wi := by simpa using h1
  omega

/-- **C14 (error counter, reconnects)**: `MQErrorCount` equals the number of failed writes; a redial
is attempted exactly after each broken-pipe failure; the connection in use is the one established
by the last successful redial -/
theorem counters_exact (wo : Nat → WOut) (dl : Nat → DOut) (rm : Nat) (ms : List Bytes) :
    (run wo dl rm ms).ec = countTo isErr wo (run wo dl rm ms).wi ∧
    (run wo dl rm ms).di = countTo isPipe wo (run wo dl rm ms).wi ∧
    (run wo dl rm ms).conn = dialsOk dl (run wo dl rm ms).di := by
  obtain ⟨h, _, _⟩ := sendAll_acct wo dl rm ms 0 {} (acct_init wo dl)
  exact ⟨h.ec, h.di, h.conn⟩

/-- **C14 (resumption)**: split the hand-over at any point; if no write fails or is lost after the
first part has been processed (the last failure outcome is behind us), then *every* later message
is delivered, in order, each with a single write, on the connection then in use, and the error
counter no longer moves -/
theorem resumption (wo : Nat → WOut) (dl : Nat → DOut) (rm : Nat) (ms1 ms2 : List Bytes)
    (hok : ∀ j, (run wo dl rm ms1).wi ≤ j → wo j = .ok) :
    (run wo dl rm (ms1 ++ ms2)).delivered =
      (run wo dl rm ms1).delivered ++ framesFrom (run wo dl rm ms1).conn ms1.length ms2 ∧
    (run wo dl rm (ms1 ++ ms2)).ec = (run wo dl rm ms1).ec := by
  have h := sendAll_all_ok wo dl rm ms2 (0 + ms1.length) (run wo dl rm ms1) hok
  simp only [run, sendAll_append] at *
  exact ⟨by simpa using h.1, h.2.1⟩

/-- with no fault at all every message arrives exactly once, in order, on the first connection,
and no error is counted -/
theorem no_fault_all_delivered (dl : Nat → DOut) (rm : Nat) (ms : List Bytes) :
    (run (fun _ => .ok) dl rm ms).delivered = framesFrom 0 0 ms ∧ (run (fun _ => .ok) dl rm ms).ec = 0 := by
  have h := sendAll_all_ok (fun _ => .ok) dl rm ms 0 {} (fun _ _ => rfl)
  exact ⟨by simpa [run] using h.1, by simpa [run] using h.2.1⟩

/-! ## Non-vacuity: concrete runs -/

/-- three messages (one containing `%d`), the second write hits a broken pipe, the redial succeeds:
everything arrives, the second message on connection 1, one error counted -/
example :
    let r := run (scriptW [.ok, .errPipe, .ok, .ok]) (scriptD [.ok]) 2 [[37, 100], [1, 2], [255]]
    r.delivered = [⟨0, 0, [37, 100, 10]⟩, ⟨1, 1, [1, 2, 10]⟩, ⟨1, 2, [255, 10]⟩] ∧ r.ec = 1 ∧ r.conn = 1 := by
  decide

/-- retry-max 0 and the sink down: the message is given up after one write, the next one is not
held back; one silently lost write leaves a gap of exactly one -/
example :
    let r := run (scriptW [.errPipe, .lost, .ok]) (scriptD [.fail]) 0 [[1], [2], [3]]
    r.delivered = [⟨0, 2, [3, 10]⟩] ∧ r.ec = 1 ∧ r.wi = 3 := by
  decide

/-- what F12 did: with the message used as printf format, `%d` arrives as `%!d(MISSING)` — not
`frame m`; the repaired write expression is the generated fact `gen_rawWrite_verbatim` -/
example : writeIsVerbatim (.fprintf false "string(msg) + \"\\n\"" []) = false := by decide

/-! ## Tie: the hand-over between a worker's send and the backend's `inputMsg`

The hooks drive `setup` / `inputMsg` of the backends directly; what lies in between — `producer/producer.go` and the
block of each protocol's `run()` that constructs the producer — is regenerated on every run and obliged to be exactly
this: each backend name maps to its own type; `Run` sets the backend up (an error ends the start) and then calls
`inputMsg` once, with the producer's own topic, channel and error counter, and waits for it; each protocol hands its
producer its OWN message-queue channel, topic option and error counter; and nothing else in package `vflow` receives
from or sends on a message-queue channel (the worker's send, the producer's channel, the queue length in the stats). -/

/-- the producer block of a protocol's `run()` -/
def expectedWiring (stats chan topic : String) : List String :=
  ["if !opts.ProducerEnabled { return }",
   "p := producer.NewProducer(opts.MQName)",
   "p.MQConfigFile = path.Join(opts.VFlowConfigPath, opts.MQConfigFile)",
   "p.MQErrorCount = &" ++ stats ++ ".stats.MQErrorCount",
   "p.Logger = logger",
   "p.Chan = " ++ chan,
   "p.Topic = opts." ++ topic,
   "if err := p.Run(); err != nil { logger.Fatal(err) }"]

def expectedChanUses (file worker chan : String) : List String :=
  [file ++ " (package level): " ++ chan ++ " = make(chan []byte, 1000)",
   file ++ " " ++ worker ++ ": " ++ chan ++ " <- append([]byte{}, b...)",
   file ++ " run: p.Chan = " ++ chan,
   file ++ " status: MessageQueue: len(" ++ chan ++ ")"]

theorem gen_producer_registry :
    Gen.ProducerRun.registry =
      ["\"kafka\" => new(KafkaSarama)", "\"kafka.sarama\" => new(KafkaSarama)",
       "\"kafka.segmentio\" => new(KafkaSegmentio)", "\"nats\" => new(NATS)", "\"nsq\" => new(NSQ)",
       "\"rawSocket\" => new(RawSocket)"] ∧
    Gen.ProducerRun.newProducer =
      ["var mqRegistered = map[string]MQueue{…}", "return &Producer{ MQ: mqRegistered[mqName], }"] ∧
    Gen.ProducerRun.mqueue = ["setup(string, *log.Logger) error", "inputMsg(string, chan []byte, *uint64)"] := by
  decide +kernel

theorem gen_producer_run :
    Gen.ProducerRun.run =
      ["var ( wg sync.WaitGroup err error )",
       "err = p.MQ.setup(p.MQConfigFile, p.Logger)",
       "if err != nil { return err }",
       "wg.Add(1)",
       "go func() { defer wg.Done() topic := p.Topic p.MQ.inputMsg(topic, p.Chan, p.MQErrorCount) }()",
       "wg.Wait()",
       "return nil"] ∧
    Gen.ProducerRun.shutdown = ["close(p.Chan)"] := by
  decide +kernel

theorem gen_producer_wiring :
    Gen.ProducerRun.wiringIpfix = expectedWiring "i" "ipfixMQCh" "IPFIXTopic" ∧
    Gen.ProducerRun.wiringSflow = expectedWiring "s" "sFlowMQCh" "SFlowTopic" ∧
    Gen.ProducerRun.wiringV5 = expectedWiring "i" "netflowV5MQCh" "NetflowV5Topic" ∧
    Gen.ProducerRun.wiringV9 = expectedWiring "i" "netflowV9MQCh" "NetflowV9Topic" := by
  decide +kernel

theorem gen_mq_channel_uses :
    Gen.ProducerRun.mqChanUses =
      expectedChanUses "ipfix.go" "ipfixWorker" "ipfixMQCh" ++
      expectedChanUses "netflow_v5.go" "netflowV5Worker" "netflowV5MQCh" ++
      expectedChanUses "netflow_v9.go" "netflowV9Worker" "netflowV9MQCh" ++
      ["sflow.go (package level): sFlowMQCh = make(chan []byte, 1000)",
       "sflow.go run: p.Chan = sFlowMQCh",
       "sflow.go sFlowWorker: sFlowMQCh <- append([]byte{}, b...)",
       "sflow.go status: MessageQueue: len(sFlowMQCh)"] := by
  decide +kernel

end Vflow.C14
