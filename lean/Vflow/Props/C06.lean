import Vflow.Proofs.RoundV9
import Vflow.Proofs.HeaderLayouts
import Vflow.Proofs.Interpret
import Vflow.Proofs.V9IRTpl
import Vflow.Gen.Sites
import Vflow.Spec.Sites
/-!
# C06 — NetFlow v9: data records are decoded exactly as their templates describe

Round trip between the RFC 3954 encoders of `Vflow/Spec/Wire.lean` (written without reference to the
decoder) and the decoder model `Vflow/Model/V9.lean` (tied to `netflow/v9/decoder.go` by the
differential correspondence).  From the leaves up: record, record loop, flowset, export packet.

Preconditions (the Boolean predicates `Wire.V9.wf…`, all decidable; see `Spec/Wire.lean`):
* every specifier of the template is in the information model (`lookupElem … = some …`), v9 has no
  enterprise numbers (`ent = 0`), each value has exactly the announced length;
* no hypothesis on field lengths versus the field type's data type ("any field types and lengths"): the reported
  value is `interpret octets type` for every length, and for the integer types that is the value of ALL the field's
  octets whenever the field is at least as long as the type and at most 8 octets (`unsigned_field_value`,
  `signed_field_value`) — F24: before the repair `Interpret` read the leading octets of the type's size, so
  FLOW_SAMPLER_ID (unsigned8) in the 2 octets `00 07` was 0 (`f24_repaired`) — and the raw octets otherwise (`field_raw`);
* every data record has a positive length (`0 < recLen t`; a template of zero-length fields describes
  no octets, the decoder reports `zero-length data record`, F2) — the former "longer than 4 octets"
  (finding K2) is gone since the padding repair: `k2_repaired`;
* padding (any content) of a data flowset **shorter than the template's record** (`wfDataPad`: the only
  rule that can tell padding from a record; 4-octet alignment gives 0..3 octets, 8-octet alignment up to
  7) — the former `pad ≤ 4` was a hypothesis forced by the decoder's constant, under which 5..7 octets of
  padding after records of 8 or more octets lost the whole packet (F16, `k3_repaired`); padding of a
  template flowset at most 4 octets (`wfTplPad`: RFC 3954 gives 0..3; the unchanged template loop stops
  when at most 4 octets are left);
* flowset length < 65536, flowsets non-empty, a template record has at least one field (a 4-octet
  template record would be taken for padding);
* a data flowset's template is what `Cache.lookup` returns for (exporter address, flowset id) in the
  cache *as updated by the preceding flowsets of the same packet* — no assumption about the hash
  other than `lookup (insert c a id t) a id = some t` (`announced_template_in_force`).
-/
namespace Vflow.C06
open Vflow Vflow.Wire

/-- **C06 level 1 (record)**: for every template and every conforming list of field values (scope
fields first) the decoder returns exactly `expectedRecord` — per field the element id, enterprise 0 and
`interpret octets type` — and the reader ends right behind the record. -/
theorem record_roundtrip (t : Template) (vals : List Bytes) (rest : Bytes) (c : Nat)
    (hw : Wire.V9.wfRecord t vals = true) :
    V9.decodeData t ⟨Wire.V9.encodeRecord t vals ++ rest, c⟩ =
      (.ok (expectedRecord t vals), ⟨rest, c + (Wire.V9.encodeRecord t vals).length⟩) :=
  V9.decodeData_roundtrip t vals rest c hw

/-- **C06 level 2a (record loop)**: over `records ++ pad ++ rest`, the flowset header announcing exactly
`records ++ pad`, the loop yields all records in order, stops in front of the padding, no error. -/
theorem recordLoop_roundtrip (ctx : V9.Ctx) (hsid : 255 < ctx.setId) (hbig : 0 < Wire.V9.recLen ctx.tr)
    (records : List (List Bytes)) (pad rest : Bytes) (fuel : Nat) (st : V9.St)
    (hrec : ∀ x ∈ records, Wire.V9.wfRecord ctx.tr x = true) (hpad : pad.length < Wire.V9.recLen ctx.tr)
    (hrem : st.r.rem = V9.body ctx.tr records ++ (pad ++ rest))
    (hleft : V9.leftInt ctx st.r = (((V9.body ctx.tr records).length + pad.length : Nat) : Int))
    (hfuel : records.length < fuel) :
    V9.setLoop ctx fuel st =
      ({ st with r := ⟨pad ++ rest, st.r.cnt + (V9.body ctx.tr records).length⟩,
                 recs := st.recs ++ records.map (expectedRecord ctx.tr) }, none) :=
  V9.setLoop_data ctx hsid hbig records pad rest fuel st hrec hpad hrem hleft hfuel

/-- **C06 level 2b (data flowset)**: `decodeSet` consumes the whole encoded data flowset (the padding
is skipped), appends exactly the expected records in order, leaves the cache unchanged, no error. -/
theorem dataFlowSet_roundtrip (addr : Bytes) (t : Template) (records : List (List Bytes))
    (pad rest : Bytes) (c fuel : Nat) (cache : Cache) (recs : List Record)
    (hw : Wire.V9.wfSet addr cache (.data t records pad) = true) (hfuel : records.length < fuel) :
    V9.decodeSet addr fuel ⟨⟨Wire.V9.encodeDataSet t records pad ++ rest, c⟩, cache, recs⟩ =
      (⟨⟨rest, c + (Wire.V9.encodeDataSet t records pad).length⟩, cache,
        recs ++ records.map (expectedRecord t)⟩, none) :=
  V9.decodeSet_data addr t records pad rest c fuel cache recs hw hfuel

/-- **C06 level 2c (template flowset)**: inserts exactly its templates — in order, a later one
overriding an earlier one with the same id (`insertAll`) — and adds no record. -/
theorem templateFlowSet_roundtrip (addr : Bytes) (ts : List Template) (pad rest : Bytes)
    (c fuel : Nat) (cache : Cache) (recs : List Record)
    (hw : Wire.V9.wfSet addr cache (.tpl ts pad) = true) (hfuel : ts.length < fuel) :
    V9.decodeSet addr fuel ⟨⟨Wire.V9.encodeTemplateSet ts pad ++ rest, c⟩, cache, recs⟩ =
      (⟨⟨rest, c + (Wire.V9.encodeTemplateSet ts pad).length⟩, insertAll addr cache ts, recs⟩, none) :=
  V9.decodeSet_tpl addr ts pad rest c fuel cache recs hw hfuel

/-- **C06 level 2d (options template flowset)** -/
theorem optTemplateFlowSet_roundtrip (addr : Bytes) (ts : List Template) (pad rest : Bytes)
    (c fuel : Nat) (cache : Cache) (recs : List Record)
    (hw : Wire.V9.wfSet addr cache (.optTpl ts pad) = true) (hfuel : ts.length < fuel) :
    V9.decodeSet addr fuel ⟨⟨Wire.V9.encodeOptTemplateSet ts pad ++ rest, c⟩, cache, recs⟩ =
      (⟨⟨rest, c + (Wire.V9.encodeOptTemplateSet ts pad).length⟩, insertAll addr cache ts, recs⟩, none) :=
  V9.decodeSet_optTpl addr ts pad rest c fuel cache recs hw hfuel

/-- **C06 level 3 (export packet)**: for every cache `c`, exporter address and well-formed packet `m`
the decoder returns the header, exactly the expected records of all data flowsets in order, no
non-fatal error, and the cache updated with the packet's templates; templates announced earlier in the
packet are in force for its later data flowsets. -/
theorem packet_roundtrip (c : Cache) (addr : Bytes) (m : Wire.V9.Msg)
    (hw : Wire.V9.wfMsg addr c m = true) :
    V9.decode c addr (Wire.V9.encodeMsg m) =
      (.ok (Wire.V9.expectedHdr m, (Wire.V9.expected addr c m).1, []), (Wire.V9.expected addr c m).2) :=
  V9.decode_roundtrip c addr m hw

/-- the template a flowset has just announced is the one a data flowset with its id gets: the cache
condition of `wfSet` is met by "announced earlier in this packet under the same id" for every cache
and every hash function behaviour -/
theorem announced_template_in_force (addr : Bytes) (c : Cache) (t : Template) (pad : Bytes) :
    Cache.lookup (Wire.V9.applySet addr ([], c) (.tpl [t] pad)).2 addr t.tid = some t := by
  simp only [Wire.V9.applySet, insertAll, List.foldl_cons, List.foldl_nil]
  exact lookup_insert c addr t.tid t

/-! ## Non-vacuity: a concrete well-formed packet (template flowset, then a data flowset using it,
two records of two IPv4 fields, two octets of padding), starting from the empty cache -/

def exAddr : Bytes := [192, 0, 2, 1]
def exTpl : Template := ⟨256, 2, 0, [], [⟨8, 4, 0⟩, ⟨12, 4, 0⟩]⟩
def exMsg : Wire.V9.Msg :=
  { count := 3, upTime := 1000, secs := 1700000000, seq := 7, srcId := 1,
    sets := [.tpl [exTpl] [],
             .data exTpl [[[10,0,0,1],[10,0,0,2]], [[10,0,0,3],[10,0,0,4]]] [0,0]] }

set_option maxRecDepth 100000 in
example : Wire.V9.wfMsg exAddr [] exMsg = true := by decide

set_option maxRecDepth 100000 in
example : (Wire.V9.expected exAddr [] exMsg).1 =
    [[⟨8, 0, .ip [10,0,0,1]⟩, ⟨12, 0, .ip [10,0,0,2]⟩], [⟨8, 0, .ip [10,0,0,3]⟩, ⟨12, 0, .ip [10,0,0,4]⟩]] := by
  rfl

/-! ## Repaired findings: K2 (records of ≤ 4 octets at the end of a flowset were dropped) and F16 (5..7
octets of flowset padding were read as a record and the whole packet was lost).  Both former
counterexample inputs are now well-formed packets, and the model — evaluated by the kernel, independently of
`packet_roundtrip` — decodes them completely. -/

def k2Tpl : Template := ⟨256, 1, 0, [], [⟨8, 4, 0⟩]⟩
/-- template with one 4-octet field, then a data flowset with three records, no padding -/
def k2Msg : Wire.V9.Msg :=
  { count := 4, upTime := 1000, secs := 1700000000, seq := 8, srcId := 1,
    sets := [.tpl [k2Tpl] [], .data k2Tpl [[[10,0,0,1]], [[10,0,0,2]], [[10,0,0,3]]] []] }

set_option maxRecDepth 100000 in
/-- **K2 repaired**: three records of 4 octets were encoded; before the padding repair the decoder
returned the first two and no error (the former `k2_counterexample`); now the packet is well-formed and
all three come back. -/
theorem k2_repaired :
    Wire.V9.wfMsg exAddr [] k2Msg = true ∧
    (Wire.V9.expected exAddr [] k2Msg).1.length = 3 ∧
    (V9.decode [] exAddr (Wire.V9.encodeMsg k2Msg)).1 =
      .ok (Wire.V9.expectedHdr k2Msg, (Wire.V9.expected exAddr [] k2Msg).1, []) ∧
    Wire.V9.recLen k2Tpl = 4 := by
  refine ⟨by decide, by rfl, by rfl, by rfl⟩

/-- template with two 4-octet fields, then three data flowsets of one 8-octet record followed by 5, 6 and 7
zero octets of padding (shorter than the record: 8-octet alignment) -/
def k3Msg : Wire.V9.Msg :=
  { count := 4, upTime := 1000, secs := 1700000000, seq := 9, srcId := 1,
    sets := [.tpl [exTpl] [],
             .data exTpl [[[10,0,0,1],[10,0,0,2]]] [0,0,0,0,0],
             .data exTpl [[[10,0,0,3],[10,0,0,4]]] [0,0,0,0,0,0],
             .data exTpl [[[10,0,0,5],[10,0,0,6]]] [0,0,0,0,0,0,0]] }

set_option maxRecDepth 100000 in
/-- **F16 repaired (long padding)**: before the repair each of the three data flowsets alone made `Decode`
return `(nil, "can not read the data")` — the padding, longer than 4 octets, was read as a record; the old
`wfSetLen` excluded such packets (`pad ≤ 4`).  Now they are well-formed and decode completely. -/
theorem k3_repaired :
    Wire.V9.wfMsg exAddr [] k3Msg = true ∧
    (V9.decode [] exAddr (Wire.V9.encodeMsg k3Msg)).1 =
      .ok (Wire.V9.expectedHdr k3Msg,
           [[⟨8, 0, .ip [10,0,0,1]⟩, ⟨12, 0, .ip [10,0,0,2]⟩], [⟨8, 0, .ip [10,0,0,3]⟩, ⟨12, 0, .ip [10,0,0,4]⟩],
            [⟨8, 0, .ip [10,0,0,5]⟩, ⟨12, 0, .ip [10,0,0,6]⟩]], []) := by
  refine ⟨by decide, by rfl⟩

set_option maxRecDepth 100000 in
/-- padding as long as a record is not padding: the bound of `wfDataPad` is sharp (8 octets after 8-octet
records are a fourth record) -/
example : Wire.V9.wfSet exAddr (Wire.V9.applySet exAddr ([], []) (.tpl [exTpl] [])).2
    (.data exTpl [[[10,0,0,1],[10,0,0,2]]] [0,0,0,0,0,0,0,0]) = false := by decide

/-! ## Repaired finding F24: an integer field longer than its type decoded to its leading octets -/

/-- **C06 (value of an unsigned field)**: what the round trips report for an unsigned8 … unsigned64 field type sent in
`k ≤ n ≤ 8` octets (`k` the type's size; RFC 3954 §8 gives most counters and indices a configurable length `N`, and
exporters send unsigned8 / unsigned32 types in 2, 4 or 8 octets) is the field type id, enterprise 0 and the number
whose network-byte-order representation ALL `n` octets are (`Wire.unsignedValue`, written without reference to
`interpret`).  False before the F24 repair. -/
theorem unsigned_field_value (s : Spec) (v : Bytes) (fid ty k : Nat)
    (hl : lookupElem s.ent s.id = some (fid, ty)) (ht : uintSize? ty = some k)
    (hk : k ≤ v.length) (h8 : v.length ≤ 8) :
    (expectedField s v).id = fid ∧ (expectedField s v).ent = s.ent ∧
    intOf (expectedField s v).val = some (unsignedValue v : Int) :=
  Interp.expected_unsigned s v fid ty k hl ht hk h8

/-- **C06 (value of a signed field)**: two's complement over all `8·n` bits of the field -/
theorem signed_field_value (s : Spec) (v : Bytes) (fid ty k : Nat)
    (hl : lookupElem s.ent s.id = some (fid, ty)) (ht : intSize? ty = some k)
    (hk : k ≤ v.length) (h8 : v.length ≤ 8) :
    (expectedField s v).id = fid ∧ (expectedField s v).ent = s.ent ∧
    intOf (expectedField s v).val = some (signedValue v) :=
  Interp.expected_signed s v fid ty k hl ht hk h8

/-- the Go type of an integer value: that of the type's size for a full-size field, 64 bits for a longer one -/
theorem integer_field_kind (b : Bytes) (t k : Nat) (hk : k ≤ b.length) (h8 : b.length ≤ 8) :
    (uintSize? t = some k → (interpret b t).kind = (if b.length = k then "u" ++ toString (8 * k) else "u64")) ∧
    (intSize? t = some k → (interpret b t).kind = (if b.length = k then "i" ++ toString (8 * k) else "i64")) :=
  ⟨fun ht => (Interp.interpret_unsigned b t k ht hk h8).2, fun ht => (Interp.interpret_signed b t k ht hk h8).2⟩

/-- **C06 ("raw octets when encoded shorter than the type's size")**, and an integer field of more than 8 octets -/
theorem field_raw (s : Spec) (v : Bytes) (fid ty : Nat)
    (hl : lookupElem s.ent s.id = some (fid, ty))
    (h : v.length < minLen ty ∨ (((uintSize? ty).isSome ∨ (intSize? ty).isSome) ∧ 8 < v.length)) :
    expectedField s v = ⟨fid, s.ent, .raw v⟩ :=
  Interp.expected_raw s v fid ty hl h

/-- FLOW_SAMPLER_ID (48, unsigned8) announced with 2 octets, INPUT_SNMP (10, unsigned32) with 8, IPV4_SRC_ADDR -/
def f24Tpl : Template := ⟨256, 3, 0, [], [⟨48, 2, 0⟩, ⟨10, 8, 0⟩, ⟨8, 4, 0⟩]⟩
/-- the witness of `corpus/C06/nf9-wf--F24-overlong-integers.txt` (2 octets of flowset padding) and a second record -/
def f24Msg : Wire.V9.Msg :=
  { count := 1, upTime := 0, secs := 0, seq := 1, srcId := 0,
    sets := [.tpl [f24Tpl] [],
             .data f24Tpl [[[0,7], [0,0,0,0,0,0,0,5], [10,0,0,1]],
                           [[1,0], [255,255,255,255,255,255,255,255], [10,0,0,2]]] [0,0]] }

set_option maxRecDepth 100000 in
/-- **F24 repaired**: before the repair the first record came back as `uint8(0)`, `uint32(0)` — the leading octets of
the type's size — and the second as `uint8(1)`, `uint32(4294967295)`; now the values are those of the fields. -/
theorem f24_repaired :
    Wire.V9.wfMsg exAddr [] f24Msg = true ∧
    (V9.decode [] exAddr (Wire.V9.encodeMsg f24Msg)).1 =
      .ok (Wire.V9.expectedHdr f24Msg,
           [[⟨48, 0, .u64 7⟩, ⟨10, 0, .u64 5⟩, ⟨8, 0, .ip [10,0,0,1]⟩],
            [⟨48, 0, .u64 256⟩, ⟨10, 0, .u64 18446744073709551615⟩, ⟨8, 0, .ip [10,0,0,2]⟩]], []) := by
  refine ⟨by decide, by rfl⟩

/-! ## Tie: the fixed-layout readers of the model read the layouts REGENERATED from the decoder source
(`Gen.Layouts.*`, re-extracted from the `unmarshal` chains on every run; proofs in `Proofs/HeaderLayouts.lean`) -/
theorem gen_header_layout (r : Rd) : V9.readHeader r = V5.readFields (V5.widths Gen.Layouts.v9Header) r :=
  HeaderLayouts.v9_header r
theorem gen_setHeader_layout (addr : Bytes) (fuel : Nat) (st : V9.St) (sid len : Nat) (r2 : Rd)
    (h : V5.readFields (V5.widths Gen.Layouts.v9SetHeader) st.r = some ([sid, len], r2)) :
    V9.decodeSet addr fuel st =
      if len < 4 then ({ st with r := r2 }, some .badSetLen)
      else V9.setBody addr sid len st.r.cnt fuel { st with r := r2 } :=
  HeaderLayouts.v9_setHeader_read addr fuel st sid len r2 h
theorem gen_setHeader_short (addr : Bytes) (fuel : Nat) (st : V9.St)
    (h : V5.readFields (V5.widths Gen.Layouts.v9SetHeader) st.r = none) :
    (V9.decodeSet addr fuel st).2 = some .short := HeaderLayouts.v9_setHeader_short addr fuel st h
theorem gen_tplHeader_layout (r : Rd) (tid n : Nat) (r2 : Rd)
    (h : V5.readFields (V5.widths Gen.Layouts.v9TplHeader) r = some ([tid, n], r2)) :
    V9.parseTpl r = (match V9.readSpecs n r2 [] with
      | (.ok fs, r3) => (.ok ⟨tid, n, 0, [], fs⟩, r3)
      | (.error e, r3) => (.error e, r3)) := HeaderLayouts.v9_tplHeader_read r tid n r2 h
theorem gen_tplHeader_short (r : Rd) (h : V5.readFields (V5.widths Gen.Layouts.v9TplHeader) r = none) :
    (V9.parseTpl r).1 = .error .short := HeaderLayouts.v9_tplHeader_short r h
theorem gen_optTplHeader_short (r : Rd) (h : V5.readFields (V5.widths Gen.Layouts.v9OptTplHeader) r = none) :
    (V9.parseOptTpl r).1 = .error .short := HeaderLayouts.v9_optTplHeader_short r h
theorem gen_layout_field_names :
    Gen.Layouts.v9Header.map (·.1) = ["Version", "Count", "SysUpTime", "UNIXSecs", "SeqNum", "SrcID"] ∧
    Gen.Layouts.v9SetHeader.map (·.1) = ["FlowSetID", "Length"] ∧
    Gen.Layouts.v9TplHeader.map (·.1) = ["TemplateID", "FieldCount"] ∧
    Gen.Layouts.v9OptTplHeader.map (·.1) = ["TemplateID", "OptionScopeLen", "OptionLen"] ∧
    Gen.Layouts.v9FieldSpec.map (·.1) = ["ElementID", "Length"] := by decide
theorem gen_optTplHeader_layout (r : Rd) (tid sl ol : Nat) (r3 : Rd)
    (h : V5.readFields (V5.widths Gen.Layouts.v9OptTplHeader) r = some ([tid, sl, ol], r3)) :
    V9.parseOptTpl r =
      (match V9.readSpecs (sl / 4) r3 [] with
       | (.error e, r4) => (.error e, r4)
       | (.ok scs, r4) =>
         match V9.readSpecs (ol / 4) r4 [] with
         | (.error e, r5) => (.error e, r5)
         | (.ok fs, r5) => (.ok ⟨tid, 0, 0, scs, fs⟩, r5)) := HeaderLayouts.v9_optTplHeader_read r tid sl ol r3 h
theorem gen_fieldSpec_layout (r : Rd) (id len : Nat) (r2 : Rd)
    (h : V5.readFields (V5.widths Gen.Layouts.v9FieldSpec) r = some ([id, len], r2)) :
    V9.readSpec r = (.ok ⟨id, len, 0⟩, r2) := HeaderLayouts.v9_fieldSpec_read r id len r2 h
theorem gen_fieldSpec_short (r : Rd) (h : V5.readFields (V5.widths Gen.Layouts.v9FieldSpec) r = none) :
    (V9.readSpec r).1 = .error .short := HeaderLayouts.v9_fieldSpec_short r h

/-! ## Tie: the decoder's functions TRANSLATED statement by statement on every run (`Gen.V9IR`, from the Go AST by
`go/cmd/factgen/ipfix_ir.go`, second profile) and interpreted with Go's semantics (`Model/IpfixIR.lean`; linked in
`Model/V9Prog.lean`) ARE the functions of the hand-written model `Vflow.V9` — for every argument, reader state, cache,
exporter address and fuel (as C03 for IPFIX; proofs in `Proofs/V9IR.lean`, `Proofs/V9IRTpl.lean`; `decodeSet` /
`Decode`: C09). -/

/-- the struct declarations the interpreter's field semantics stand for -/
theorem gen_ir_structs :
    Gen.V9IR.structs =
      [("nonfatalError", "error"),
       ("PacketHeader", "Version uint16; Count uint16; SysUpTime uint32; UNIXSecs uint32; SeqNum uint32; SrcID uint32"),
       ("SetHeader", "FlowSetID uint16; Length uint16"),
       ("TemplateHeader", "TemplateID uint16; FieldCount uint16; OptionLen uint16; OptionScopeLen uint16"),
       ("TemplateFieldSpecifier", "ElementID uint16; Length uint16"),
       ("TemplateRecord", "TemplateID uint16; FieldCount uint16; FieldSpecifiers []TemplateFieldSpecifier; ScopeFieldCount uint16; ScopeFieldSpecifiers []TemplateFieldSpecifier"),
       ("DecodedField", "ID uint16; Value interface{}"),
       ("Decoder", "raddr net.IP; reader *reader.Reader"),
       ("Message", "AgentID string; Header PacketHeader; DataSets [][]DecodedField"),
       ("ElementKey", "EnterpriseNo uint32; ElementID uint16"),
       ("InfoElementEntry", "FieldID uint16; Name string; Type FieldType")] := by decide +kernel

/-- **`TemplateRecord.minRecordLen` translated = `V9.minRecLen`** -/
theorem gen_ir_minRecordLen (addr : Bytes) (fuel : Nat) (st : IpfixIR.St) (t : Template) :
    V9Prog.minRecordLen addr fuel [.tpl t] st = some (st, [.tpl t], [.int (V9.minRecLen t)]) :=
  V9IR.minRecordLen_sem addr fuel st t

/-- **`Decoder.decodeData` translated = `V9.decodeData`** for every template, reader state and cache: per specifier the
read, THEN the element lookup (a missing element is reported after its octets were consumed), `Interpret`, `append`;
the reader's error is fatal, the missing element non-fatal -/
theorem gen_ir_decodeData (addr : Bytes) (fuel : Nat) (r : Rd) (c : Cache) (t : Template)
    (hs : t.scope.length < fuel) (hf : t.fields.length < fuel) :
    V9Prog.decodeData addr fuel [.tpl t] ⟨r, c⟩ =
      some (⟨(V9.decodeData t r).2, c⟩, [], V9Prog.recResult (V9.decodeData t r).1) :=
  V9IR.decodeData_sem addr fuel r c t hs hf

/-- **`TemplateFieldSpecifier.unmarshal` translated = `V9.readSpec`** (the Go struct has no enterprise number: the
third component of the model's `Spec` is 0 and stays 0) -/
theorem gen_ir_fieldSpecUnmarshal (addr : Bytes) (fuel : Nat) (r : Rd) (c : Cache) (s0 : Spec) (h0 : s0.ent = 0) :
    match V9.readSpec r with
    | (.ok s, r') => V9Prog.fieldSpecUnmarshal addr fuel [.spec s0] ⟨r, c⟩ = some (⟨r', c⟩, [.spec s], [.nil])
    | (.error e, r') => ∃ s', V9Prog.fieldSpecUnmarshal addr fuel [.spec s0] ⟨r, c⟩ =
        some (⟨r', c⟩, [.spec s'], [.err ⟨false, e⟩]) :=
  V9IR.fieldSpecUnmarshal_sem addr fuel r c s0 h0

/-- **`TemplateHeader.unmarshal` translated**: TemplateID, FieldCount -/
theorem gen_ir_tplHeaderUnmarshal (addr : Bytes) (fuel : Nat) (r : Rd) (c : Cache) (a b ol osl : Nat) :
    V9Prog.tplHeaderUnmarshal addr fuel [.thdr9 a b ol osl] ⟨r, c⟩ =
      match r.rU16 with
      | none => some (⟨r, c⟩, [.thdr9 0 b ol osl], [IpfixIR.errReader])
      | some (tid, r1) =>
        match r1.rU16 with
        | none => some (⟨r1, c⟩, [.thdr9 tid 0 ol osl], [IpfixIR.errReader])
        | some (n, r2) => some (⟨r2, c⟩, [.thdr9 tid n ol osl], [.nil]) :=
  V9IR.tplHeaderUnmarshal_sem addr fuel r c a b ol osl

/-- **`TemplateHeader.unmarshalOpts` translated**: TemplateID, OptionScopeLen, OptionLen (in this order) -/
theorem gen_ir_tplHeaderUnmarshalOpts (addr : Bytes) (fuel : Nat) (r : Rd) (c : Cache) (a b ol osl : Nat) :
    V9Prog.tplHeaderUnmarshalOpts addr fuel [.thdr9 a b ol osl] ⟨r, c⟩ =
      match r.rU16 with
      | none => some (⟨r, c⟩, [.thdr9 0 b ol osl], [IpfixIR.errReader])
      | some (tid, r1) =>
        match r1.rU16 with
        | none => some (⟨r1, c⟩, [.thdr9 tid b ol 0], [IpfixIR.errReader])
        | some (sl, r2) =>
          match r2.rU16 with
          | none => some (⟨r2, c⟩, [.thdr9 tid b 0 sl], [IpfixIR.errReader])
          | some (l, r3) => some (⟨r3, c⟩, [.thdr9 tid b l sl], [.nil]) :=
  V9IR.tplHeaderUnmarshalOpts_sem addr fuel r c a b ol osl

/-- **`SetHeader.unmarshal` translated**: FlowSetID then Length -/
theorem gen_ir_setHeaderUnmarshal (addr : Bytes) (fuel : Nat) (r : Rd) (c : Cache) (a b : Nat) :
    V9Prog.setHeaderUnmarshal addr fuel [.shdr a b] ⟨r, c⟩ =
      match r.rU16 with
      | none => some (⟨r, c⟩, [.shdr 0 b], [IpfixIR.errReader])
      | some (sid, r1) =>
        match r1.rU16 with
        | none => some (⟨r1, c⟩, [.shdr sid 0], [IpfixIR.errReader])
        | some (len, r2) => some (⟨r2, c⟩, [.shdr sid len], [.nil]) :=
  V9IR.setHeaderUnmarshal_sem addr fuel r c a b

/-- **`TemplateRecord.unmarshal` translated = `V9.parseTpl`** on a fresh record, for every reader state; `fuel`: more
than the octets left -/
theorem gen_ir_tplRecordUnmarshal (addr : Bytes) (fuel : Nat) (r : Rd) (c : Cache) (hfuel : r.rem.length < fuel) :
    match V9.parseTpl r with
    | (.ok t, r') => V9Prog.tplRecordUnmarshal addr fuel [.tpl V9.emptyTpl] ⟨r, c⟩ = some (⟨r', c⟩, [.tpl t], [.nil])
    | (.error e, r') => ∃ t', V9Prog.tplRecordUnmarshal addr fuel [.tpl V9.emptyTpl] ⟨r, c⟩ =
        some (⟨r', c⟩, [.tpl t'], [.err ⟨false, e⟩]) :=
  V9IR.tplRecordUnmarshal_sem addr fuel r c hfuel

/-- **`TemplateRecord.unmarshalOpts` translated = `V9.parseOptTpl`**: `OptionScopeLen / 4` scope specifiers, then
`OptionLen / 4` option specifiers; `FieldCount` stays 0 -/
theorem gen_ir_tplRecordUnmarshalOpts (addr : Bytes) (fuel : Nat) (r : Rd) (c : Cache) (hfuel : r.rem.length < fuel) :
    match V9.parseOptTpl r with
    | (.ok t, r') => V9Prog.tplRecordUnmarshalOpts addr fuel [.tpl V9.emptyTpl] ⟨r, c⟩ = some (⟨r', c⟩, [.tpl t], [.nil])
    | (.error e, r') => ∃ t', V9Prog.tplRecordUnmarshalOpts addr fuel [.tpl V9.emptyTpl] ⟨r, c⟩ =
        some (⟨r', c⟩, [.tpl t'], [.err ⟨false, e⟩]) :=
  V9IR.tplRecordUnmarshalOpts_sem addr fuel r c hfuel

/-- **`PacketHeader.unmarshal` translated = `V9.readHeader`** -/
theorem gen_ir_pktHeaderUnmarshal (addr : Bytes) (fuel : Nat) (r : Rd) (c : Cache) (h0 : IpfixIR.PHdr) :
    match V9.readHeader r with
    | some (h, r') => ∃ h1 : IpfixIR.PHdr, h1.toHdr = h ∧
        V9Prog.pktHeaderUnmarshal addr fuel [.phdr h0] ⟨r, c⟩ = some (⟨r', c⟩, [.phdr h1], [.nil])
    | none => ∃ r' h1, V9Prog.pktHeaderUnmarshal addr fuel [.phdr h0] ⟨r, c⟩ =
        some (⟨r', c⟩, [.phdr h1], [IpfixIR.errReader]) :=
  V9IR.pktHeaderUnmarshal_sem addr fuel r c h0

/-- **`PacketHeader.validate` translated**: version 9 or the (fatal) version error -/
theorem gen_ir_pktHeaderValidate (addr : Bytes) (fuel : Nat) (st : IpfixIR.St) (h : IpfixIR.PHdr) :
    V9Prog.pktHeaderValidate addr fuel [.phdr h] st =
      some (st, [.phdr h], [if h.toHdr.headD 0 ≠ 9 then .err ⟨false, .badVersion⟩ else .nil]) :=
  V9IR.pktHeaderValidate_sem addr fuel st h

set_option maxRecDepth 100000 in
/-- non-vacuity: the translated `unmarshalOpts` on an options template record with 4 octets of scope and 8 octets of
options (template 257), and the translated `minRecordLen` on the example template -/
example : V9Prog.tplRecordUnmarshalOpts [] 19 [.tpl V9.emptyTpl]
      ⟨⟨[1, 1, 0, 4, 0, 8, 0, 1, 0, 4, 0, 8, 0, 4, 0, 12, 0, 4], 0⟩, []⟩ =
    some (⟨⟨[], 18⟩, []⟩, [.tpl ⟨257, 0, 0, [⟨1, 4, 0⟩], [⟨8, 4, 0⟩, ⟨12, 4, 0⟩]⟩], [.nil]) :=
  gen_ir_tplRecordUnmarshalOpts [] 19 ⟨[1, 1, 0, 4, 0, 8, 0, 1, 0, 4, 0, 8, 0, 4, 0, 12, 0, 4], 0⟩ [] (by decide)
example : V9Prog.minRecordLen [] 0 [.tpl exTpl] ⟨⟨[], 0⟩, []⟩ = some (⟨⟨[], 0⟩, []⟩, [.tpl exTpl], [.int 8]) := by
  rw [gen_ir_minRecordLen]; rfl

/-- **Tie (control-flow skeleton)**: every branch / loop condition, switch case and `break` / `continue` of the
sources this model mirrors, re-extracted on every run, is exactly the reviewed inventory in `Spec/Sites.lean`
(which names the model clause of each).  A changed bound, a new or dropped branch breaks this obligation. -/
theorem guards_reviewed : Gen.Sites.guardsV9 = Spec.Sites.guardsV9 := by decide +kernel

end Vflow.C06
