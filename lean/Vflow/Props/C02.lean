import Vflow.Props.C02Flow
import Vflow.Props.C02Sflow
import Vflow.Proofs.V5Bounds
import Vflow.Gen.Sites
import Vflow.Spec.Sites
/-!
# C02 — decoding work and memory are bounded by the datagram's size

* IPFIX / NetFlow v9 (`Props/C02Flow`): `ipfix_terminates`, `v9_terminates` (the fuel `decode`
  supplies, `length + 1`, always suffices: every loop iteration consumes at least one octet — the F2
  repair makes this true), `*_record_bound` (records ≤ octets), `*_template_size`, `*_alloc_bound`
  (fields decoded ≤ octets × largest template, a template parsed from n octets has ≤ n/4 fields), and the
  linear bounds that isolate finding K4: `*_record_fields_le_octets` (fields of a record ≤ octets it consumed +
  zero-length specifiers of its template), `*_fields_linear` (fields ≤ octets + records × Z), `*_fields_le_octets`
  (no zero-length specifier ⇒ fields ≤ octets).
* sFlow (`Props/C02Sflow`): `decode_ne_fuel`, `samples_le`, `records_le`, `alloc_linear`.
* NetFlow v5 (here): structural recursion (no fuel), `v5_flow_bound`.
* Over regenerated facts: `alloc_sites_reviewed` — the make/new/append calls of the decoder packages
  are exactly the reviewed inventory (`Spec/Sites.lean`), so an allocation sized by a wire field that
  the model does not account for cannot appear unnoticed.

What is *measured* rather than proved: seconds and bytes — the watchdog and the
`runtime.MemStats.TotalAlloc` delta of every decode call of the correspondence runs.
-/
namespace Vflow.C02
open Vflow

/-- **C02 (NetFlow v5)**: at most 30 flows, and 48 octets of the datagram behind each of them -/
theorem v5_flow_bound (bs : Bytes) (m : V5.Msg) (h : V5.decode bs = .ok m) :
    m.flows.length ≤ 30 ∧ m.flows.length * (V5.widths Gen.Layouts.v5Record).sum ≤ bs.length := by
  unfold V5.decode V5.decodeWith at h
  split at h
  · simp at h
  · rename_i hd r hh
    simp only at h
    split at h
    · simp at h
    · split at h
      · simp at h
      · rename_i hc
        have hlen := V5.readFields_len _ _ _ _ hh
        simp only at hlen
        split at h
        · simp at h
        · generalize hrf : V5.readFlows (V5.widths Gen.Layouts.v5Record) (V5.fieldAt hd 1) r [] = res at h
          obtain ⟨fs, ok⟩ := res
          have hb := V5.readFlows_bound _ _ _ _ _ _ hrf
          simp only [List.length_nil, Nat.zero_add, Nat.sub_zero] at hb
          have hfl : m.flows = fs := by
            cases ok
            · simp at h
            · simp only [Except.ok.injEq] at h; rw [← h]
          rw [hfl]
          refine ⟨by omega, ?_⟩
          omega

/-- the record layout regenerated from the source is 48 octets, the header 24 -/
theorem v5_layout_sizes :
    (V5.widths Gen.Layouts.v5Record).sum = 48 ∧ (V5.widths Gen.Layouts.v5Header).sum = 24 := by decide +kernel

/-- over regenerated facts: the allocation sites of the decoder packages are the reviewed inventory -/
theorem alloc_sites_reviewed : Gen.Sites.allocSites = Spec.Sites.allocSites := by decide +kernel

/-- re-stated headline statements (proved in `Props/C02Flow`) -/
theorem ipfix_terminates (c : Cache) (addr bs : Bytes) : (Ipfix.decode c addr bs).1 ≠ .error .fuel :=
  C02Flow.ipfix_terminates c addr bs
theorem v9_terminates (c : Cache) (addr bs : Bytes) : (V9.decode c addr bs).1 ≠ .error .fuel :=
  C02Flow.v9_terminates c addr bs
theorem ipfix_record_bound (c : Cache) (addr bs : Bytes) :
    (Ipfix.recordsOf (Ipfix.decode c addr bs).1).length ≤ bs.length := C02Flow.ipfix_record_bound c addr bs
theorem v9_record_bound (c : Cache) (addr bs : Bytes) :
    (V9.recordsOf (V9.decode c addr bs).1).length ≤ bs.length := C02Flow.v9_record_bound c addr bs

/-! re-stated linear allocation bounds (proved in `Props/C02Flow`, helper lemmas in `Proofs/LinearIpfix`,
`Proofs/LinearV9`); `zeroSpecs tr` = number of field specifiers of length 0 of `tr` — finding K4: such a
specifier is decoded without consuming an octet — and `Z` bounds it for every template in force during the
decode (the cache before the datagram, `hc`; every template record that parses at some offset of it, `hP`) -/

/-- **C02 per record (IPFIX; K4)**: fields of a decoded record ≤ octets it consumed + zero-length specifiers -/
theorem ipfix_record_fields_le_octets (tr : Template) (r r' : Rd) (fs : Record)
    (h : Ipfix.decodeData tr r = (.ok fs, r')) : fs.length ≤ (r'.cnt - r.cnt) + zeroSpecs tr :=
  C02Flow.ipfix_record_fields_le_octets tr r r' fs h

/-- **C02 per record (NetFlow v9; K4)** -/
theorem v9_record_fields_le_octets (tr : Template) (r r' : Rd) (fs : Record)
    (h : V9.decodeData tr r = (.ok fs, r')) : fs.length ≤ (r'.cnt - r.cnt) + zeroSpecs tr :=
  C02Flow.v9_record_fields_le_octets tr r r' fs h

/-- **C02 allocation, linear (IPFIX; K4)**: decoded fields ≤ octets + records × Z -/
theorem ipfix_fields_linear (c : Cache) (addr bs : Bytes) (Z : Nat)
    (hc : ∀ e ∈ c, zeroSpecs e.2 ≤ Z)
    (hP : ∀ k t r', k ≤ bs.length →
      (Ipfix.parseTpl ⟨bs.drop k, k⟩ = (.ok t, r') ∨ Ipfix.parseOptTpl ⟨bs.drop k, k⟩ = (.ok t, r')) →
      zeroSpecs t ≤ Z) :
    ((Ipfix.recordsOf (Ipfix.decode c addr bs).1).map List.length).sum
      ≤ bs.length + (Ipfix.recordsOf (Ipfix.decode c addr bs).1).length * Z :=
  (C02Flow.ipfix_fields_linear c addr bs Z hc hP).1

/-- **C02 allocation, linear (NetFlow v9; K4)** -/
theorem v9_fields_linear (c : Cache) (addr bs : Bytes) (Z : Nat)
    (hc : ∀ e ∈ c, zeroSpecs e.2 ≤ Z)
    (hP : ∀ k t r', k ≤ bs.length →
      (V9.parseTpl ⟨bs.drop k, k⟩ = (.ok t, r') ∨ V9.parseOptTpl ⟨bs.drop k, k⟩ = (.ok t, r')) →
      zeroSpecs t ≤ Z) :
    ((V9.recordsOf (V9.decode c addr bs).1).map List.length).sum
      ≤ bs.length + (V9.recordsOf (V9.decode c addr bs).1).length * Z :=
  (C02Flow.v9_fields_linear c addr bs Z hc hP).1

/-- **C02 allocation, no zero-length specifier (IPFIX)**: decoded fields ≤ octets of the datagram -/
theorem ipfix_fields_le_octets (c : Cache) (addr bs : Bytes)
    (hc : ∀ e ∈ c, zeroSpecs e.2 = 0)
    (hP : ∀ k t r', k ≤ bs.length →
      (Ipfix.parseTpl ⟨bs.drop k, k⟩ = (.ok t, r') ∨ Ipfix.parseOptTpl ⟨bs.drop k, k⟩ = (.ok t, r')) →
      zeroSpecs t = 0) :
    ((Ipfix.recordsOf (Ipfix.decode c addr bs).1).map List.length).sum ≤ bs.length :=
  C02Flow.ipfix_fields_le_octets c addr bs hc hP

/-- **C02 allocation, no zero-length specifier (NetFlow v9)** -/
theorem v9_fields_le_octets (c : Cache) (addr bs : Bytes)
    (hc : ∀ e ∈ c, zeroSpecs e.2 = 0)
    (hP : ∀ k t r', k ≤ bs.length →
      (V9.parseTpl ⟨bs.drop k, k⟩ = (.ok t, r') ∨ V9.parseOptTpl ⟨bs.drop k, k⟩ = (.ok t, r')) →
      zeroSpecs t = 0) :
    ((V9.recordsOf (V9.decode c addr bs).1).map List.length).sum ≤ bs.length :=
  C02Flow.v9_fields_le_octets c addr bs hc hP

end Vflow.C02
