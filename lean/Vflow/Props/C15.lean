import Vflow.Model.Shutdown
import Vflow.Proofs.ShutdownReach
import Vflow.Gen.ShutdownIR
import Vflow.Gen.PidFile
/-!
# C15 — SIGTERM stops the collector cleanly

Protocol-level model (`Vflow.Model.Shutdown`): one read loop and one `shutdown()` goroutine per
protocol, statements regenerated from the Go source (`Vflow.Gen.ShutdownIR`): the statements of
`shutdown()`, the body of the read loop, the statements of `run()` after the loop, and every send on /
close of a UDP work queue anywhere in package vflow.  "Every schedule" = every interleaving of the
atomic steps; the reachable state space of each generated program is finite and is enumerated
completely by the kernel (`decide +kernel`: the kernel evaluates the `Decidable` instance, no axiom is added), so the statements below hold for all interleavings of the
modelled steps, not for a sample.

Since the F21 repair the read loop — the only sender — closes its queue itself after it has left the
loop and `shutdown()` does not touch it, so `no_send_on_closed_queue` holds with **no** hypothesis:
neither the hand-off hypothesis `H` of the design nor the fact about the two 1 s constants
(`Assume.none` = every interleaving; `deadlines_only_restrict` and `handoff_irrelevant` carry the safety statements over to
every combination of the assumptions).  The program before the repair is kept as `unrepairedProgs`: there the send on the closed
channel is reachable as soon as `H` is dropped (`close_race_without_H`; reproduced on the real binary
by freezing the process for longer than the grace period, `e2e.stall_cycle`).

Since the F27 repair the dump of `shutdown()` is guarded by an atomic "loaded" flag that `run()` sets right after it
has assigned the loaded cache to the package-level variable.  `run()` and `shutdown()` are two goroutines with only the
signal in between, and `GetCache` takes as long as the file of the previous run is large, so the model's reader starts
BEFORE those statements (`RPc.starting`): `dump_only_after_load` says that in no interleaving the file is rewritten
from a cache that has not been loaded, `skipped_dump_loses_nothing` that a skipped dump leaves the file as it was in a
run that never read a datagram.  On the programs before the repair (`unguardedProgs`) the wipe is reachable under
every combination of the timing assumptions, in a run that ends normally (`early_dump_wipes_unguarded`; on the real
binary: `e2e.early_stop_cycle`).

The pid file (F28) is a separate, sequential model (`Vflow.Model.PidFile`, facts `Vflow.Gen.PidFile`):
`is_running_spec` and its corollaries at the end of this file.

What the model cannot exhibit (labelled partial in the manifest): wall-clock seconds, signal
delivery, the non-atomic `stop` flag.  Survival of the templates across the restart is the
composition with C10 (dump under the shard read locks = one consistent snapshot) and C11
(`load_save`): `dump_after_stop_and_sleep` says the dump is taken after the read loop has been told
to stop and the grace period has elapsed.
-/
namespace Vflow.C15
open Vflow.Shutdown Vflow.Gen.ShutdownIR

/-- the statements that matter for synchronisation -/
def essential (p : List SStep) : List SStep := p.filter fun s => s ≠ .guardEnabled ∧ s ≠ .log

/-! ## Obligations over the regenerated facts -/

/-- `shutdown()` sets the stop flag, sleeps, dumps **if the cache has been loaded** (F27 repair) — and does **not**
close the queue (F21 repair) -/
theorem gen_ipfix_shutdown : essential ipfixShutdown = [.setStop, .sleep1s, .dumpIfLoaded] := by decide
theorem gen_v9_shutdown : essential netflowV9Shutdown = [.setStop, .sleep1s, .dumpIfLoaded] := by decide
theorem gen_v5_shutdown : essential netflowV5Shutdown = [.setStop, .sleep1s] := by decide
theorem gen_sflow_shutdown : essential sflowShutdown = [.setStop, .sleep1s, .closeConn] := by decide

def canonicalReadLoop : List RStep := [.whileNotStop, .getBuf, .deadline1s, .read, .onErrorContinue, .countUDP, .enqueue]

/-- what follows the loop in `run()`: the reader closes the queue it sends on (the generator emits
`.closeQueue` only for `close(ch)` with `ch` the channel of the loop's send statement) -/
def canonicalAfterLoop : List RStep := [.closeQueue]

/-- all four read loops have the shape the model's reader implements: check `stop`, arm a 1 s
deadline, read, on error go back to the check, count, enqueue; after the loop: close the queue -/
theorem gen_read_loops :
    ipfixReadLoop = canonicalReadLoop ∧ netflowV9ReadLoop = canonicalReadLoop ∧
    netflowV5ReadLoop = canonicalReadLoop ∧ sflowReadLoop = canonicalReadLoop ∧
    ipfixAfterLoop = canonicalAfterLoop ∧ netflowV9AfterLoop = canonicalAfterLoop ∧
    netflowV5AfterLoop = canonicalAfterLoop ∧ sflowAfterLoop = canonicalAfterLoop := by decide

/-- what `run()` does with the template cache before its read loop: the cache variable `shutdown()` dumps is assigned
the result of `GetCache` on the file `shutdown()` dumps to, THEN the flag the dump tests is stored (atomically), then
(IPFIX) the loaded cache is handed to the RPC goroutine; the generator emits these steps only when the variable, the
file and the flag are the ones named in the dump statement of the same protocol's `shutdown()` -/
theorem gen_before_loops :
    ipfixBeforeLoop = [.loadCache, .markLoaded, .spawnRPC] ∧ netflowV9BeforeLoop = [.loadCache, .markLoaded] ∧
    netflowV5BeforeLoop = [] ∧ sflowBeforeLoop = [] := by decide

/-- in the whole of package vflow a template cache variable is assigned exactly once, by the `run()` of its protocol
(no initial value, no other assignment, its address is never taken), and a "loaded" flag is used in exactly two
places: the atomic store of 1 in that `run()` and the atomic load in that protocol's `shutdown()` (no plain read or
write, no initial value, no other store: once set it stays set, and it is set only after the assignment) -/
theorem gen_cache_writers :
    cacheWriters = [("IPFIX.run", "mCache = ipfix.GetCache(opts.IPFIXTplCacheFile)"),
                    ("NetflowV9.run", "mCacheNF9 = netflow9.GetCache(opts.NetflowV9TplCacheFile)")] ∧
    loadedFlagUses = [("IPFIX.run", "atomic.StoreInt32(&mCacheLoaded, 1)"), ("IPFIX.shutdown", "atomic.LoadInt32(&mCacheLoaded)"),
                      ("NetflowV9.run", "atomic.StoreInt32(&mCacheNF9Loaded, 1)"),
                      ("NetflowV9.shutdown", "atomic.LoadInt32(&mCacheNF9Loaded)")] := by decide

/-- in the whole of package vflow each UDP work queue has exactly one send statement and exactly one
`close`, both in the `run()` of its own protocol (so the model's two goroutines are all there is: no
other function sends on, closes, or is handed a queue) -/
theorem gen_single_sender_and_closer :
    queueSenders = [("IPFIX.run", "ipfixUDPCh"), ("NetflowV5.run", "netflowV5UDPCh"),
                    ("NetflowV9.run", "netflowV9UDPCh"), ("SFlow.run", "sFlowUDPCh")] ∧
    queueClosers = queueSenders := by decide

/-- `main`: signals registered before anything runs; the information model (a global map read by the IPFIX and NetFlow
v9 decoders) is replaced by `LoadExtElements` BEFORE any run loop is started (F18 repair: it used to be replaced from
inside `IPFIX.run()`, concurrently with running NetFlow v9 workers); the run loops and, after the signal, the
shutdowns are all counted in the wait group; `main` returns (exit status 0) after `wg.Wait()` -/
theorem gen_main :
    mainSteps = [.notifySigintSigterm, .loadElements, .spawnRunsCounted, .spawnStats, .awaitSignal, .spawnShutdownsCounted, .waitAll] := by
  decide

/-! ## All interleavings of the generated programs -/

def progs : List Prog :=
  [⟨ipfixShutdown, ipfixBeforeLoop, ipfixAfterLoop⟩, ⟨netflowV9Shutdown, netflowV9BeforeLoop, netflowV9AfterLoop⟩,
   ⟨netflowV5Shutdown, netflowV5BeforeLoop, netflowV5AfterLoop⟩, ⟨sflowShutdown, sflowBeforeLoop, sflowAfterLoop⟩]

/-- the two protocols that keep a template cache (IPFIX, NetFlow v9) -/
def cacheProgs : List Prog := progs.take 2

/-- the programs as they were before the F21 repair (repository commit 4d10a36; IPFIX — NetFlow v9 had the
same one without the RPC statement —, then NetFlow v5, then sFlow): `shutdown()` closes the queue as its last
statement, nothing follows the read loop (and the dump is unguarded: see `unguardedProgs`) -/
def unrepairedProgs : List Prog :=
  [⟨[.guardEnabled, .setStop, .log, .sleep1s, .dump, .log, .closeQueue], [.loadCache, .spawnRPC], []⟩,
   ⟨[.guardEnabled, .setStop, .log, .sleep1s, .log, .closeQueue], [], []⟩,
   ⟨[.guardEnabled, .setStop, .log, .sleep1s, .closeConn, .log, .closeQueue], [], []⟩]

/-- the IPFIX and NetFlow v9 programs as they were before the F27 repair (repository commit 6770a64, as this
generator extracts them from that tree): the dump of `shutdown()` is unconditional and `run()` has no flag -/
def unguardedProgs : List Prog :=
  [⟨[.guardEnabled, .setStop, .log, .sleep1s, .dump, .log], [.loadCache, .spawnRPC], [.closeQueue]⟩,
   ⟨[.guardEnabled, .setStop, .log, .sleep1s, .dump, .log], [.loadCache], [.closeQueue]⟩]

/-- the assumptions under which the repaired programs are enumerated: none, or the fact about the two 1 s
constants; the hand-off hypothesis changes nothing for them (`handoff_irrelevant`) -/
def timing : List Assume := [.none, ⟨false, true⟩]

/-- the enumerated state sets are closed under every step, i.e. they are *all* reachable states (the unrepaired
programs under the one combination for which a universal statement is made below; the `∃` statements about them
need no closure: the enumeration only ever adds successors of states it already holds) -/
theorem reachable_closed :
    (∀ p ∈ progs, ∀ a ∈ timing, closedUnderNext p a = true) ∧
    (∀ p ∈ unrepairedProgs, closedUnderNext p ⟨true, true⟩ = true) := by
  decide +kernel

/-- no `shutdown()` closes a queue (F21 repair; `gen_*_shutdown`), so the hand-off hypothesis has nothing to guard -/
theorem no_close_in_shutdown : ∀ p ∈ progs, SStep.closeQueue ∉ p.shutdown := by decide

/-- the hand-off hypothesis makes no difference to the repaired programs (their `shutdown()` has no `close`):
same reachable states, same steps (`Proofs/ShutdownReach`: it only guards a `closeQueue` of `shutdown()`) -/
theorem handoff_irrelevant :
    ∀ p ∈ progs, ∀ d ∈ [false, true], reachable p ⟨true, d⟩ = reachable p ⟨false, d⟩ ∧
      ∀ s ∈ reachable p ⟨false, d⟩, next p ⟨true, d⟩ s = next p ⟨false, d⟩ s :=
  fun p hp d _ => ⟨(reachable_handoff p (no_close_in_shutdown p hp) d).1, fun s _ => (reachable_handoff p (no_close_in_shutdown p hp) d).2 s⟩

/-- the fact about the 1 s constants only removes interleavings: whatever is reachable with it is reachable
without. So what holds in every state of `reachable p .none` holds under every combination of assumptions.
(`Proofs/ShutdownReach`: the fact only disables a step, and `reachable p .none` is closed under all steps.) -/
theorem deadlines_only_restrict :
    ∀ p ∈ progs, ∀ s ∈ reachable p ⟨false, true⟩, (reachable p .none).contains s = true :=
  fun p hp s hs => List.contains_iff_mem.mpr
    (reachable_deadlines_subset p false (reachable_closed.1 p hp .none (by simp [timing])) s hs)

/-- remaining work once `stop` is set: reader distance to the return of `run()` + shutdown statements left -/
def measure (p : Prog) (s : St) : Nat :=
  (match s.rpc with
    | .exited => 0 | .leaving k => 1 + (p.afterLoop.length - k)
    | .starting k => 3 + p.afterLoop.length + (p.beforeLoop.length - k)
    | .atCheck => 2 + p.afterLoop.length | .havePacket => 3 + p.afterLoop.length | .inRead => 4 + p.afterLoop.length)
  + (p.shutdown.length - s.spc)

set_option synthInstance.maxSize 1024 in
/-- one enumeration for the safety statements below (each reachable state of each program, no assumption) -/
theorem safety_all_interleavings :
    ∀ p ∈ progs, ∀ s ∈ reachable p .none,
      s.panicked = false ∧
      (s.closed = true → s.stop = true ∧ s.pastLoop = true ∧ s.rpc ≠ .leaving 0) ∧
      s.readsAfterStop ≤ 1 ∧
      -- the dump and the load (F27)
      s.wiped = false ∧
      (s.dumped = true → s.cacheSet = true ∧ s.loadedFlag = true) ∧
      (s.loadedFlag = true → s.cacheSet = true) ∧
      (s.dumpSkipped = true → s.everRead = false ∧ s.dumped = false ∧ s.stop = true) ∧
      (s.spc = p.shutdown.length → s.everRead = true → p ∈ cacheProgs → s.dumped = true) := by decide +kernel

/-- **C15 (no panic)**: no interleaving sends on the closed queue or closes it twice — with no assumption on
timing or scheduling (`Assume.none`: every interleaving of the atomic steps): not the hand-off hypothesis `H`,
not the 1 s constants. (Before the F21 repair: `no_send_on_closed_queue_partial`, under hypothesis `H` in the
timed model only.) -/
theorem no_send_on_closed_queue : ∀ p ∈ progs, ∀ s ∈ reachable p .none, s.panicked = false :=
  fun p hp s hs => (safety_all_interleavings p hp s hs).1

/-- whatever holds in every state reachable without assumptions holds under any combination of the assumptions
(they only remove interleavings: `deadlines_only_restrict`, `handoff_irrelevant`) -/
theorem safety_transfer {P : St → Prop} (p : Prog) (hp : p ∈ progs) (h : ∀ s ∈ reachable p .none, P s) :
    ∀ a ∈ Assume.all, ∀ s ∈ reachable p a, P s := by
  intro a ha s hs
  have key : ∀ d ∈ [false, true], ∀ s ∈ reachable p ⟨false, d⟩, P s := by
    intro d hd s hs
    simp only [List.mem_cons, List.not_mem_nil, or_false] at hd
    rcases hd with rfl | rfl
    · exact h s hs
    · exact h s (List.contains_iff_mem.mp (deadlines_only_restrict p hp s hs))
  simp only [Assume.all, List.mem_cons, List.not_mem_nil, or_false] at ha
  rcases ha with rfl | rfl | rfl | rfl
  · exact key false (by simp) s hs
  · exact key true (by simp) s hs
  · rw [(handoff_irrelevant p hp false (by simp)).1] at hs; exact key false (by simp) s hs
  · rw [(handoff_irrelevant p hp true (by simp)).1] at hs; exact key true (by simp) s hs

/-- the same under any combination of the assumptions (they only remove interleavings) -/
theorem no_send_on_closed_queue_assuming : ∀ p ∈ progs, ∀ a ∈ Assume.all, ∀ s ∈ reachable p a, s.panicked = false :=
  fun p hp => safety_transfer p hp (no_send_on_closed_queue p hp)

/-- the reason: the queue is closed only by the reader, after it has left its loop for good -/
theorem closed_only_after_loop :
    ∀ p ∈ progs, ∀ s ∈ reachable p .none, s.closed = true →
      s.stop = true ∧ s.pastLoop = true ∧ s.rpc ≠ .leaving 0 :=
  fun p hp s hs => (safety_all_interleavings p hp s hs).2.1

/-- regression witness (the code before the repair): without `H` the panic is reachable in every one of
the old programs, already in the timed model (a datagram arriving in the last instant of the deadline,
the reader descheduled between `ReadFromUDP` and the channel send until after `close`) … -/
theorem close_race_without_H : ∀ p ∈ unrepairedProgs, ∃ s ∈ reachable p ⟨false, true⟩, s.panicked = true := by decide +kernel

/-- … and `H`, together with the fact about the two 1 s constants, was exactly what excluded it (the old
`no_send_on_closed_queue_partial`) -/
theorem unrepaired_no_send_under_H : ∀ p ∈ unrepairedProgs, ∀ s ∈ reachable p ⟨true, true⟩, s.panicked = false := by decide +kernel

/-- … while a process that does not run during the grace period (the 1 s sleep over before the read armed
before `stop` has returned: `deadlines := false`) reached the panic even under `H`: the read returns a datagram
after `shutdown()` has closed the queue (IPFIX / NetFlow v9 and NetFlow v5; the sFlow `shutdown()` closed the
socket first, so there the late read fails instead). This is the schedule the stalled stops of the e2e check
produce on the real binary. -/
theorem close_race_when_frozen : ∀ p ∈ unrepairedProgs.take 2, ∃ s ∈ reachable p ⟨true, false⟩, s.panicked = true := by decide +kernel

/-- a half-applied repair (the reader closes AND `shutdown()` still closes) panics on the second `close`,
even under both assumptions: the model is sensitive to who closes -/
theorem double_close_panics :
    ∃ s ∈ reachable ⟨[.guardEnabled, .setStop, .log, .sleep1s, .log, .closeQueue], [], [.closeQueue]⟩ ⟨true, true⟩,
      s.panicked = true := by decide +kernel

/-- **C15 (the read loop stops)**: after `stop` is set at most one more read completes, in every interleaving -/
theorem at_most_one_read_after_stop : ∀ p ∈ progs, ∀ s ∈ reachable p .none, s.readsAfterStop ≤ 1 :=
  fun p hp s hs => (safety_all_interleavings p hp s hs).2.2.1

/-! ## The dump and the load (F27) -/

/-- the F27 part of `safety_all_interleavings` -/
theorem load_all_interleavings :
    ∀ p ∈ progs, ∀ s ∈ reachable p .none,
      s.wiped = false ∧
      (s.dumped = true → s.cacheSet = true ∧ s.loadedFlag = true) ∧
      (s.loadedFlag = true → s.cacheSet = true) ∧
      (s.dumpSkipped = true → s.everRead = false ∧ s.dumped = false ∧ s.stop = true) ∧
      (s.spc = p.shutdown.length → s.everRead = true → p ∈ cacheProgs → s.dumped = true) :=
  fun p hp s hs => (safety_all_interleavings p hp s hs).2.2.2

/-- **C15 (the file of the previous run survives an early stop)**: in no interleaving of `run()` — started before it
has loaded the cache file, however long that takes — and `shutdown()` is the cache file rewritten from a cache that has
not been loaded: whenever the dump has been taken, the cache variable held the loaded templates and the flag was set;
the flag is never set before the variable is assigned. No assumption on timing or scheduling. -/
theorem dump_only_after_load :
    ∀ p ∈ progs, ∀ s ∈ reachable p .none,
      s.wiped = false ∧ (s.dumped = true → s.cacheSet = true ∧ s.loadedFlag = true) ∧ (s.loadedFlag = true → s.cacheSet = true) :=
  fun p hp s hs => ⟨(load_all_interleavings p hp s hs).1, (load_all_interleavings p hp s hs).2.1, (load_all_interleavings p hp s hs).2.2.1⟩

/-- the same under any combination of the assumptions -/
theorem dump_only_after_load_assuming : ∀ p ∈ progs, ∀ a ∈ Assume.all, ∀ s ∈ reachable p a, s.wiped = false :=
  fun p hp => safety_transfer p hp (fun s hs => (dump_only_after_load p hp s hs).1)

/-- a dump that is skipped (the flag was not set yet when `shutdown()` reached it) loses nothing: `stop` had been
set before, so the read loop of that run never arms a read — no datagram, hence no template, was received in this
run, and the file is left exactly as the previous run wrote it -/
theorem skipped_dump_loses_nothing :
    ∀ p ∈ progs, ∀ s ∈ reachable p .none, s.dumpSkipped = true → s.everRead = false ∧ s.dumped = false ∧ s.stop = true :=
  fun p hp s hs => (load_all_interleavings p hp s hs).2.2.2.1

/-- and conversely: once `shutdown()` of IPFIX / NetFlow v9 has run to its end in a run that has armed a read at
least once, the dump HAS been taken (the guard never suppresses the dump of a collector that was receiving) -/
theorem receiving_run_is_dumped :
    ∀ p ∈ cacheProgs, ∀ s ∈ reachable p .none, s.spc = p.shutdown.length → s.everRead = true → s.dumped = true :=
  fun p hp s hs h1 h2 => (load_all_interleavings p (List.mem_of_mem_take hp) s hs).2.2.2.2 h1 h2 hp

/-- regression witness (the code before the F27 repair, `unguardedProgs`): under EVERY combination of the timing
assumptions — nothing bounds the time `GetCache` takes — a run is reachable that ends normally (reader returned,
`shutdown()` at its end, no panic: exit status 0) with the cache file of the previous run replaced by the dump of
the nil cache. This is what `e2e.early_stop_cycle` shows on the real binary (117 MB file, SIGTERM right after
"ipfix is running": `{"Cache":null,"ShardNo":32}`). -/
theorem early_dump_wipes_unguarded :
    ∀ p ∈ unguardedProgs, ∀ a ∈ Assume.all, ∃ s ∈ reachable p a,
      s.wiped = true ∧ s.rpc = .exited ∧ s.spc = p.shutdown.length ∧ s.panicked = false ∧ s.everRead = false := by
  -- enumerated without the hand-off hypothesis; with it the reachable states are the same (no `close` in `shutdown()`)
  have key : ∀ p ∈ unguardedProgs, SStep.closeQueue ∉ p.shutdown ∧ ∀ d ∈ [false, true], ∃ s ∈ reachable p ⟨false, d⟩,
      s.wiped = true ∧ s.rpc = .exited ∧ s.spc = p.shutdown.length ∧ s.panicked = false ∧ s.everRead = false := by
    decide +kernel
  intro p hp a ha
  simp only [Assume.all, List.mem_cons, List.not_mem_nil, or_false] at ha
  rcases ha with rfl | rfl | rfl | rfl
  · exact (key p hp).2 false (by simp)
  · exact (key p hp).2 true (by simp)
  · rw [(reachable_handoff p (key p hp).1 false).1]; exact (key p hp).2 false (by simp)
  · rw [(reachable_handoff p (key p hp).1 true).1]; exact (key p hp).2 true (by simp)

/-- a half-applied repair is told apart: the guard without the store of the flag never dumps (templates learned in a
receiving run are lost), and the store placed BEFORE the assignment still wipes the file -/
theorem guard_needs_store_after_load :
    (∃ s ∈ reachable ⟨ipfixShutdown, [.loadCache, .spawnRPC], ipfixAfterLoop⟩ .none,
      s.spc = ipfixShutdown.length ∧ s.everRead = true ∧ s.dumped = false) ∧
    (∃ s ∈ reachable ⟨ipfixShutdown, [.markLoaded, .loadCache, .spawnRPC], ipfixAfterLoop⟩ .none, s.wiped = true) := by
  decide +kernel

set_option synthInstance.maxSize 1024 in
/-- one enumeration for the three statements below (each reachable state of each program, without and with the
fact about the 1 s constants) -/
theorem progress_all_interleavings :
    ∀ p ∈ progs, ∀ a ∈ timing, ∀ s ∈ reachable p a,
      (s.stop = true →
        (∀ t ∈ next p a s, measure p t < measure p s) ∧
        (next p a s = [] → s.rpc = .exited ∧ s.spc = p.shutdown.length ∧ s.closed = true ∧ s.panicked = false)) ∧
      (s.stop = false → s.spc ≤ 1 ∧ (shutdownSteps p a s ≠ [])) ∧
      (s.dumped = true → s.dumpedAfterStop = true ∧ s.stop = true) ∧
      (a.deadlines = true → s.dumped = true → s.rpc ≠ .inRead) := by decide +kernel

/-- **C15 (termination)**: once `stop` is set every step of every interleaving strictly decreases
`measure`, so the read loop exits, closes the queue, `run()` and `shutdown()` return after at most
`4 + lengths` further steps; and no state before the end is stuck (some step is always enabled); at the
end the queue is closed (the workers, which drain it until it is closed, terminate) and nothing panicked -/
theorem terminates_after_stop :
    ∀ p ∈ progs, ∀ a ∈ timing, ∀ s ∈ reachable p a, s.stop = true →
      (∀ t ∈ next p a s, measure p t < measure p s) ∧
      (next p a s = [] → s.rpc = .exited ∧ s.spc = p.shutdown.length ∧ s.closed = true ∧ s.panicked = false) :=
  fun p hp a ha s hs => (progress_all_interleavings p hp a ha s hs).1

/-- before the signal the shutdown goroutine does not exist; once it runs, `setStop` is its first
effective step and it is always enabled -/
theorem stop_always_reachable :
    ∀ p ∈ progs, ∀ a ∈ timing, ∀ s ∈ reachable p a, s.stop = false → s.spc ≤ 1 ∧ (shutdownSteps p a s ≠ []) :=
  fun p hp a ha s hs => (progress_all_interleavings p hp a ha s hs).2.1

/-- **C15 (dump)**: whenever the cache has been dumped, `stop` had been set (the dump statement comes after
`setStop` and `sleep1s`); and, given the fact about the two 1 s constants, the grace period has done its work:
when the dump is taken the read loop is not blocked in `ReadFromUDP` any more (it is handing over its last
datagram, leaving, or gone) and will not read again. The queue is no longer closed by `shutdown()`, so the
former clause "closed only after the dump" is replaced by `closed_only_after_loop`: the workers drain the
queue whichever of dump and close comes first. -/
theorem dump_after_stop_and_sleep :
    ∀ p ∈ progs, ∀ a ∈ timing, ∀ s ∈ reachable p a,
      (s.dumped = true → s.dumpedAfterStop = true ∧ s.stop = true) ∧
      (a.deadlines = true → s.dumped = true → s.rpc ≠ .inRead) :=
  fun p hp a ha s hs => (progress_all_interleavings p hp a ha s hs).2.2

/-- non-vacuity: the state spaces are not trivial, and the final state (reader exited, queue closed by it,
shutdown done, no panic) is reachable -/
example : (reachable ⟨ipfixShutdown, ipfixBeforeLoop, ipfixAfterLoop⟩ .none).length > 20 ∧
    (reachable ⟨ipfixShutdown, ipfixBeforeLoop, ipfixAfterLoop⟩ .none).any (fun s => s.rpc == .exited && s.spc == ipfixShutdown.length && s.dumped && s.everRead && s.closed && !s.panicked) = true ∧
    -- the early stop: shutdown() ran to its end before the cache was loaded; the dump was skipped, nothing wiped
    (reachable ⟨ipfixShutdown, ipfixBeforeLoop, ipfixAfterLoop⟩ .none).any (fun s => s.rpc == .exited && s.spc == ipfixShutdown.length && s.dumpSkipped && !s.dumped && !s.wiped && s.closed && !s.panicked) = true := by
  decide +kernel

/-! ## The pid file (F28) -/

section PidFile
open Vflow.PidFile Vflow.Gen.PidFile

/-- `vFlowIsRunning`: read the pid file (unreadable ⇒ not running); a recorded PID equal to the process's own PID
⇒ not running (F28 repair); otherwise `kill -0` on the recorded text decides -/
theorem gen_is_running :
    isRunningSteps = [.readPidFile, .unreadableNotRunning, .ownPidNotRunning, .probeKill0, .runProbe, .runningIffProbeOk] := by decide

/-- `vFlowPIDWrite` writes `os.Getpid()` in decimal, with nothing after it, over whatever the file held — the text
the own-PID test compares with (`strconv.Itoa(os.Getpid())`); `GetOptions` tests first and writes after; no other
function of package vflow touches the pid file (nothing removes it at exit) -/
theorem gen_pid_write :
    pidWriteSteps = [.openTruncCreate, .openErrorLogReturn, .writeOwnPidDecimal, .writeErrorLog] ∧
    getOptionsPidSteps = [.refuseIfRunning, .writePidFile] ∧
    pidFileUsers = [("GetOptions", "vFlowIsRunning"), ("GetOptions", "vFlowPIDWrite"), ("NewOptions", "PIDFile"),
                    ("Options.flagSet", "PIDFile"), ("Options.vFlowIsRunning", "PIDFile"), ("Options.vFlowPIDWrite", "PIDFile")] := by decide

/-- **C15 (repeated stop/start cycles: the pid file)**: for every content of the pid file, every own PID and every
set of live PIDs, the regenerated `vFlowIsRunning` answers "running" exactly when the file records the PID of a live
process OTHER than the one that is starting -/
theorem is_running_spec (e : Env) :
    isRunning isRunningSteps e = some (match e.file with
      | .pid n => decide (n ≠ e.own) && e.alive n
      | _ => false) := by
  rw [gen_is_running]
  cases hf : e.file with
  | absent => simp [isRunning, hf]
  | garbage => simp [isRunning, afterRead, hf]
  | pid n =>
    by_cases h : n = e.own
    · simp [isRunning, afterRead, hf, h]
    · simp [isRunning, afterRead, hf, h]

/-- a restart that gets the PID of the previous run (a container: the pid file is stale and records the new
process's own PID, which `kill -0` finds alive) is not refused … -/
theorem same_pid_restart_not_refused (e : Env) (h : e.file = .pid e.own) : isRunning isRunningSteps e = some false := by
  rw [is_running_spec, h]; simp

/-- … while a second instance is: the file records the PID of another process that is alive -/
theorem second_instance_refused (e : Env) (n : Nat) (h : e.file = .pid n) (hn : n ≠ e.own) (ha : e.alive n = true) :
    isRunning isRunningSteps e = some true := by
  rw [is_running_spec, h]; simp [hn, ha]

/-- `vFlowIsRunning` before the F28 repair (repository commit 6770a64) -/
def unrepairedIsRunning : List PStep := [.readPidFile, .unreadableNotRunning, .probeKill0, .runProbe, .runningIffProbeOk]

/-- regression witness: the old test refused EVERY restart under the PID of the previous run (a process is alive
to itself): `docker restart` with the shipped entrypoint never came up again -/
theorem same_pid_restart_refused_unrepaired (e : Env) (h : e.file = .pid e.own) (ha : e.alive e.own = true) :
    isRunning unrepairedIsRunning e = some true := by
  simp [unrepairedIsRunning, isRunning, afterRead, h, ha]

/-- non-vacuity: PID 3 recorded, own PID 3 (alive): start; own PID 7 and 3 alive: refused; 3 dead: start -/
example : isRunning isRunningSteps ⟨.pid 3, 3, fun _ => true⟩ = some false ∧
    isRunning isRunningSteps ⟨.pid 3, 7, fun _ => true⟩ = some true ∧
    isRunning isRunningSteps ⟨.pid 3, 7, fun n => n != 3⟩ = some false ∧
    isRunning unrepairedIsRunning ⟨.pid 3, 3, fun _ => true⟩ = some true := by decide

end PidFile

end Vflow.C15
