import Vflow.Model.Shutdown
import Vflow.Gen.ShutdownIR
/-!
# C15 — SIGTERM stops the collector cleanly

Protocol-level model (`Vflow.Model.Shutdown`): one read loop and one `shutdown()` goroutine per
protocol, statements regenerated from the Go source (`Vflow.Gen.ShutdownIR`): the statements of
`shutdown()`, the body of the read loop, the statements of `run()` after the loop, and every send on /
close of a UDP work queue anywhere in package vflow.  "Every schedule" = every interleaving of the
atomic steps; the reachable state space of each generated program is finite and is enumerated
completely by the kernel (`decide +kernel`: the kernel evaluates the `Decidable` instance, no axiom is added), so the statements below hold for all interleavings of the
modelled steps, not for a sample.

Since the F21 repair the read loop — the only sender — closes its queue itself after it has left the
loop and `shutdown()` does not touch it, so `no_send_on_closed_queue` holds with **no** hypothesis:
neither the hand-off hypothesis `H` of the design nor the fact about the two 1 s constants
(`Assume.none` = every interleaving; `deadlines_only_restrict` and `handoff_irrelevant` carry the safety statements over to
every combination of the assumptions).  The program before the repair is kept as `unrepairedProgs`: there the send on the closed
channel is reachable as soon as `H` is dropped (`close_race_without_H`; reproduced on the real binary
by freezing the process for longer than the grace period, `e2e.stall_cycle`).

What the model cannot exhibit (labelled partial in the manifest): wall-clock seconds, signal
delivery, the non-atomic `stop` flag.  Survival of the templates across the restart is the
composition with C10 (dump under the shard read locks = one consistent snapshot) and C11
(`load_save`): `dump_after_stop_and_sleep` says the dump is taken after the read loop has been told
to stop and the grace period has elapsed.
-/
namespace Vflow.C15
open Vflow.Shutdown Vflow.Gen.ShutdownIR

/-- the statements that matter for synchronisation -/
def essential (p : List SStep) : List SStep := p.filter fun s => s ≠ .guardEnabled ∧ s ≠ .log

/-! ## Obligations over the regenerated facts -/

/-- `shutdown()` sets the stop flag, sleeps, dumps — and does **not** close the queue (F21 repair) -/
theorem gen_ipfix_shutdown : essential ipfixShutdown = [.setStop, .sleep1s, .dump] := by decide
theorem gen_v9_shutdown : essential netflowV9Shutdown = [.setStop, .sleep1s, .dump] := by decide
theorem gen_v5_shutdown : essential netflowV5Shutdown = [.setStop, .sleep1s] := by decide
theorem gen_sflow_shutdown : essential sflowShutdown = [.setStop, .sleep1s, .closeConn] := by decide

def canonicalReadLoop : List RStep := [.whileNotStop, .getBuf, .deadline1s, .read, .onErrorContinue, .countUDP, .enqueue]

/-- what follows the loop in `run()`: the reader closes the queue it sends on (the generator emits
`.closeQueue` only for `close(ch)` with `ch` the channel of the loop's send statement) -/
def canonicalAfterLoop : List RStep := [.closeQueue]

/-- all four read loops have the shape the model's reader implements: check `stop`, arm a 1 s
deadline, read, on error go back to the check, count, enqueue; after the loop: close the queue -/
theorem gen_read_loops :
    ipfixReadLoop = canonicalReadLoop ∧ netflowV9ReadLoop = canonicalReadLoop ∧
    netflowV5ReadLoop = canonicalReadLoop ∧ sflowReadLoop = canonicalReadLoop ∧
    ipfixAfterLoop = canonicalAfterLoop ∧ netflowV9AfterLoop = canonicalAfterLoop ∧
    netflowV5AfterLoop = canonicalAfterLoop ∧ sflowAfterLoop = canonicalAfterLoop := by decide

/-- in the whole of package vflow each UDP work queue has exactly one send statement and exactly one
`close`, both in the `run()` of its own protocol (so the model's two goroutines are all there is: no
other function sends on, closes, or is handed a queue) -/
theorem gen_single_sender_and_closer :
    queueSenders = [("IPFIX.run", "ipfixUDPCh"), ("NetflowV5.run", "netflowV5UDPCh"),
                    ("NetflowV9.run", "netflowV9UDPCh"), ("SFlow.run", "sFlowUDPCh")] ∧
    queueClosers = queueSenders := by decide

/-- `main`: signals registered before anything runs; the information model (a global map read by the IPFIX and NetFlow
v9 decoders) is replaced by `LoadExtElements` BEFORE any run loop is started (F18 repair: it used to be replaced from
inside `IPFIX.run()`, concurrently with running NetFlow v9 workers); the run loops and, after the signal, the
shutdowns are all counted in the wait group; `main` returns (exit status 0) after `wg.Wait()` -/
theorem gen_main :
    mainSteps = [.notifySigintSigterm, .loadElements, .spawnRunsCounted, .spawnStats, .awaitSignal, .spawnShutdownsCounted, .waitAll] := by
  decide

/-! ## All interleavings of the generated programs -/

def progs : List Prog :=
  [⟨ipfixShutdown, ipfixAfterLoop⟩, ⟨netflowV9Shutdown, netflowV9AfterLoop⟩,
   ⟨netflowV5Shutdown, netflowV5AfterLoop⟩, ⟨sflowShutdown, sflowAfterLoop⟩]

/-- the programs as they were before the F21 repair (repository commit 4d10a36; IPFIX and NetFlow v9 had the
same one, then NetFlow v5, then sFlow): `shutdown()` closes the queue as its last statement, nothing follows
the read loop -/
def unrepairedProgs : List Prog :=
  [⟨[.guardEnabled, .setStop, .log, .sleep1s, .dump, .log, .closeQueue], []⟩,
   ⟨[.guardEnabled, .setStop, .log, .sleep1s, .log, .closeQueue], []⟩,
   ⟨[.guardEnabled, .setStop, .log, .sleep1s, .closeConn, .log, .closeQueue], []⟩]

/-- the assumptions under which the repaired programs are enumerated: none, or the fact about the two 1 s
constants; the hand-off hypothesis changes nothing for them (`handoff_irrelevant`) -/
def timing : List Assume := [.none, ⟨false, true⟩]

/-- the enumerated state sets are closed under every step, i.e. they are *all* reachable states (the unrepaired
programs under the one combination for which a universal statement is made below; the `∃` statements about them
need no closure: the enumeration only ever adds successors of states it already holds) -/
theorem reachable_closed :
    (∀ p ∈ progs, ∀ a ∈ timing, closedUnderNext p a = true) ∧
    (∀ p ∈ unrepairedProgs, closedUnderNext p ⟨true, true⟩ = true) := by
  decide +kernel

/-- the hand-off hypothesis makes no difference to the repaired programs (their `shutdown()` has no `close`):
same reachable states, same steps -/
theorem handoff_irrelevant :
    ∀ p ∈ progs, ∀ d ∈ [false, true], reachable p ⟨true, d⟩ = reachable p ⟨false, d⟩ ∧
      ∀ s ∈ reachable p ⟨false, d⟩, next p ⟨true, d⟩ s = next p ⟨false, d⟩ s := by decide +kernel

/-- the fact about the 1 s constants only removes interleavings: whatever is reachable with it is reachable
without. So what holds in every state of `reachable p .none` holds under every combination of assumptions. -/
theorem deadlines_only_restrict :
    ∀ p ∈ progs, ∀ s ∈ reachable p ⟨false, true⟩, (reachable p .none).contains s = true := by
  decide +kernel

/-- remaining work once `stop` is set: reader distance to the return of `run()` + shutdown statements left -/
def measure (p : Prog) (s : St) : Nat :=
  (match s.rpc with
    | .exited => 0 | .leaving k => 1 + (p.afterLoop.length - k)
    | .atCheck => 2 + p.afterLoop.length | .havePacket => 3 + p.afterLoop.length | .inRead => 4 + p.afterLoop.length)
  + (p.shutdown.length - s.spc)

/-- one enumeration for the three safety statements below (each reachable state of each program, no assumption) -/
theorem safety_all_interleavings :
    ∀ p ∈ progs, ∀ s ∈ reachable p .none,
      s.panicked = false ∧
      (s.closed = true → s.stop = true ∧ s.pastLoop = true ∧ s.rpc ≠ .leaving 0) ∧
      s.readsAfterStop ≤ 1 := by decide +kernel

/-- **C15 (no panic)**: no interleaving sends on the closed queue or closes it twice — with no assumption on
timing or scheduling (`Assume.none`: every interleaving of the atomic steps): not the hand-off hypothesis `H`,
not the 1 s constants. (Before the F21 repair: `no_send_on_closed_queue_partial`, under hypothesis `H` in the
timed model only.) -/
theorem no_send_on_closed_queue : ∀ p ∈ progs, ∀ s ∈ reachable p .none, s.panicked = false :=
  fun p hp s hs => (safety_all_interleavings p hp s hs).1

/-- the same under any combination of the assumptions (they only remove interleavings) -/
theorem no_send_on_closed_queue_assuming : ∀ p ∈ progs, ∀ a ∈ Assume.all, ∀ s ∈ reachable p a, s.panicked = false := by
  intro p hp a ha s hs
  have key : ∀ d ∈ [false, true], ∀ s ∈ reachable p ⟨false, d⟩, s.panicked = false := by
    intro d hd s hs
    simp only [List.mem_cons, List.not_mem_nil, or_false] at hd
    rcases hd with rfl | rfl
    · exact no_send_on_closed_queue p hp s hs
    · exact no_send_on_closed_queue p hp s (List.contains_iff_mem.mp (deadlines_only_restrict p hp s hs))
  simp only [Assume.all, List.mem_cons, List.not_mem_nil, or_false] at ha
  rcases ha with rfl | rfl | rfl | rfl
  · exact key false (by simp) s hs
  · exact key true (by simp) s hs
  · rw [(handoff_irrelevant p hp false (by simp)).1] at hs; exact key false (by simp) s hs
  · rw [(handoff_irrelevant p hp true (by simp)).1] at hs; exact key true (by simp) s hs

/-- the reason: the queue is closed only by the reader, after it has left its loop for good -/
theorem closed_only_after_loop :
    ∀ p ∈ progs, ∀ s ∈ reachable p .none, s.closed = true →
      s.stop = true ∧ s.pastLoop = true ∧ s.rpc ≠ .leaving 0 :=
  fun p hp s hs => (safety_all_interleavings p hp s hs).2.1

/-- regression witness (the code before the repair): without `H` the panic is reachable in every one of
the old programs, already in the timed model (a datagram arriving in the last instant of the deadline,
the reader descheduled between `ReadFromUDP` and the channel send until after `close`) … -/
theorem close_race_without_H : ∀ p ∈ unrepairedProgs, ∃ s ∈ reachable p ⟨false, true⟩, s.panicked = true := by decide +kernel

/-- … and `H`, together with the fact about the two 1 s constants, was exactly what excluded it (the old
`no_send_on_closed_queue_partial`) -/
theorem unrepaired_no_send_under_H : ∀ p ∈ unrepairedProgs, ∀ s ∈ reachable p ⟨true, true⟩, s.panicked = false := by decide +kernel

/-- … while a process that does not run during the grace period (the 1 s sleep over before the read armed
before `stop` has returned: `deadlines := false`) reached the panic even under `H`: the read returns a datagram
after `shutdown()` has closed the queue (IPFIX / NetFlow v9 and NetFlow v5; the sFlow `shutdown()` closed the
socket first, so there the late read fails instead). This is the schedule the stalled stops of the e2e check
produce on the real binary. -/
theorem close_race_when_frozen : ∀ p ∈ unrepairedProgs.take 2, ∃ s ∈ reachable p ⟨true, false⟩, s.panicked = true := by decide +kernel

/-- a half-applied repair (the reader closes AND `shutdown()` still closes) panics on the second `close`,
even under both assumptions: the model is sensitive to who closes -/
theorem double_close_panics :
    ∃ s ∈ reachable ⟨[.guardEnabled, .setStop, .log, .sleep1s, .log, .closeQueue], [.closeQueue]⟩ ⟨true, true⟩,
      s.panicked = true := by decide +kernel

/-- **C15 (the read loop stops)**: after `stop` is set at most one more read completes, in every interleaving -/
theorem at_most_one_read_after_stop : ∀ p ∈ progs, ∀ s ∈ reachable p .none, s.readsAfterStop ≤ 1 :=
  fun p hp s hs => (safety_all_interleavings p hp s hs).2.2

set_option synthInstance.maxSize 1024 in
/-- one enumeration for the three statements below (each reachable state of each program, without and with the
fact about the 1 s constants) -/
theorem progress_all_interleavings :
    ∀ p ∈ progs, ∀ a ∈ timing, ∀ s ∈ reachable p a,
      (s.stop = true →
        (∀ t ∈ next p a s, measure p t < measure p s) ∧
        (next p a s = [] → s.rpc = .exited ∧ s.spc = p.shutdown.length ∧ s.closed = true ∧ s.panicked = false)) ∧
      (s.stop = false → s.spc ≤ 1 ∧ (shutdownSteps p a s ≠ [])) ∧
      (s.dumped = true → s.dumpedAfterStop = true ∧ s.stop = true) ∧
      (a.deadlines = true → s.dumped = true → s.rpc ≠ .inRead) := by decide +kernel

/-- **C15 (termination)**: once `stop` is set every step of every interleaving strictly decreases
`measure`, so the read loop exits, closes the queue, `run()` and `shutdown()` return after at most
`4 + lengths` further steps; and no state before the end is stuck (some step is always enabled); at the
end the queue is closed (the workers, which drain it until it is closed, terminate) and nothing panicked -/
theorem terminates_after_stop :
    ∀ p ∈ progs, ∀ a ∈ timing, ∀ s ∈ reachable p a, s.stop = true →
      (∀ t ∈ next p a s, measure p t < measure p s) ∧
      (next p a s = [] → s.rpc = .exited ∧ s.spc = p.shutdown.length ∧ s.closed = true ∧ s.panicked = false) :=
  fun p hp a ha s hs => (progress_all_interleavings p hp a ha s hs).1

/-- before the signal the shutdown goroutine does not exist; once it runs, `setStop` is its first
effective step and it is always enabled -/
theorem stop_always_reachable :
    ∀ p ∈ progs, ∀ a ∈ timing, ∀ s ∈ reachable p a, s.stop = false → s.spc ≤ 1 ∧ (shutdownSteps p a s ≠ []) :=
  fun p hp a ha s hs => (progress_all_interleavings p hp a ha s hs).2.1

/-- **C15 (dump)**: whenever the cache has been dumped, `stop` had been set (the dump statement comes after
`setStop` and `sleep1s`); and, given the fact about the two 1 s constants, the grace period has done its work:
when the dump is taken the read loop is not blocked in `ReadFromUDP` any more (it is handing over its last
datagram, leaving, or gone) and will not read again. The queue is no longer closed by `shutdown()`, so the
former clause "closed only after the dump" is replaced by `closed_only_after_loop`: the workers drain the
queue whichever of dump and close comes first. -/
theorem dump_after_stop_and_sleep :
    ∀ p ∈ progs, ∀ a ∈ timing, ∀ s ∈ reachable p a,
      (s.dumped = true → s.dumpedAfterStop = true ∧ s.stop = true) ∧
      (a.deadlines = true → s.dumped = true → s.rpc ≠ .inRead) :=
  fun p hp a ha s hs => (progress_all_interleavings p hp a ha s hs).2.2

/-- non-vacuity: the state spaces are not trivial, and the final state (reader exited, queue closed by it,
shutdown done, no panic) is reachable -/
example : (reachable ⟨ipfixShutdown, ipfixAfterLoop⟩ .none).length > 20 ∧
    (reachable ⟨ipfixShutdown, ipfixAfterLoop⟩ .none).any (fun s => s.rpc == .exited && s.spc == ipfixShutdown.length && s.dumped && s.closed && !s.panicked) = true := by
  decide +kernel

end Vflow.C15
