import Vflow.Model.Shutdown
import Vflow.Proofs.MainSignal
import Vflow.Proofs.ShutdownReach
import Vflow.Gen.ShutdownIR
import Vflow.Gen.PidFile
/-!
# C15 — SIGTERM stops the collector cleanly

Protocol-level model (`Vflow.Model.Shutdown`): one read loop and one `shutdown()` goroutine per
protocol, statements regenerated from the Go source (`Vflow.Gen.ShutdownIR`): the statements of
`shutdown()`, the body of the read loop, the statements of `run()` after the loop, and every send on /
close of a UDP work queue anywhere in package vflow.  "Every schedule" = every interleaving of the
atomic steps; the reachable state space of each generated program is finite and is enumerated
completely by the kernel (`decide +kernel`: the kernel evaluates the `Decidable` instance, no axiom is added), so the statements below hold for all interleavings of the
modelled steps, not for a sample.

Since the F21 repair the read loop — the only sender — closes its queue itself after it has left the
loop and `shutdown()` does not touch it, so `no_send_on_closed_queue` holds with **no** hypothesis:
neither the hand-off hypothesis `H` of the design nor the fact about the two 1 s constants
(`Assume.none` = every interleaving; `deadlines_only_restrict` and `handoff_irrelevant` carry the safety statements over to
every combination of the assumptions).  The program before the repair is kept as `unrepairedProgs`: there the send on the closed
channel is reachable as soon as `H` is dropped (`close_race_without_H`; reproduced on the real binary
by freezing the process for longer than the grace period, `e2e.stall_cycle`).

Since the F27 repair the dump of `shutdown()` is guarded by an atomic "loaded" flag that `run()` sets right after it
has assigned the loaded cache to the package-level variable.  `run()` and `shutdown()` are two goroutines with only the
signal in between, and `GetCache` takes as long as the file of the previous run is large, so the model's reader starts
BEFORE those statements (`RPc.starting`): `dump_only_after_load` says that in no interleaving the file is rewritten
from a cache that has not been loaded, `skipped_dump_loses_nothing` that a skipped dump leaves the file as it was in a
run that never read a datagram.  On the programs before the repair (`unguardedProgs`) the wipe is reachable under
every combination of the timing assumptions, in a run that ends normally (`early_dump_wipes_unguarded`; on the real
binary: `e2e.early_stop_cycle`).

The pid file (F28) is a separate, sequential model (`Vflow.Model.PidFile`, facts `Vflow.Gen.PidFile`):
`is_running_spec` and its corollaries at the end of this file.

What the model cannot exhibit (labelled partial in the manifest): wall-clock seconds, signal
delivery, the non-atomic `stop` flag.  Survival of the templates across the restart is the
composition with C10 (dump under the shard read locks = one consistent snapshot) and C11
(`load_save`): `dump_after_stop_and_sleep` says the dump is taken after the read loop has been told
to stop and the grace period has elapsed.
-/
namespace Vflow.C15
open Vflow.Shutdown Vflow.Gen.ShutdownIR

/-- the statements that matter for synchronisation -/
def essential (p : List SStep) : List SStep := p.filter fun s => s ≠ .guardEnabled ∧ s ≠ .log

/-! ## Obligations over the regenerated facts -/

/-- `shutdown()` sets the stop flag, sleeps, dumps **if the cache has been loaded** (F27 repair) — and does **not**
close the queue (F21 repair) -/
theorem gen_ipfix_shutdown : essential ipfixShutdown = [.setStop, .sleep1s, .dumpIfLoaded] := by decide
theorem gen_v9_shutdown : essential netflowV9Shutdown = [.setStop, .sleep1s, .dumpIfLoaded] := by decide
theorem gen_v5_shutdown : essential netflowV5Shutdown = [.setStop, .sleep1s] := by decide
theorem gen_sflow_shutdown : essential sflowShutdown = [.setStop, .sleep1s, .closeConn] := by decide

def canonicalReadLoop : List RStep := [.whileNotStop, .getBuf, .deadline1s, .read, .onErrorContinue, .countUDP, .enqueue]

/-- what follows the loop in `run()`: the reader closes the queue it sends on (the generator emits
`.closeQueue` only for `close(ch)` with `ch` the channel of the loop's send statement) -/
def canonicalAfterLoop : List RStep := [.closeQueue]

/-- all four read loops have the shape the model's reader implements: check `stop`, arm a 1 s
deadline, read, on error go back to the check, count, enqueue; after the loop: close the queue -/
theorem gen_read_loops :
    ipfixReadLoop = canonicalReadLoop ∧ netflowV9ReadLoop = canonicalReadLoop ∧
    netflowV5ReadLoop = canonicalReadLoop ∧ sflowReadLoop = canonicalReadLoop ∧
    ipfixAfterLoop = canonicalAfterLoop ∧ netflowV9AfterLoop = canonicalAfterLoop ∧
    netflowV5AfterLoop = canonicalAfterLoop ∧ sflowAfterLoop = canonicalAfterLoop := by decide

/-- what `run()` does with the template cache before its read loop: the cache variable `shutdown()` dumps is assigned
the result of `GetCache` on the file `shutdown()` dumps to, THEN the flag the dump tests is stored (atomically), then
(IPFIX) the loaded cache is handed to the RPC goroutine; the generator emits these steps only when the variable, the
file and the flag are the ones named in the dump statement of the same protocol's `shutdown()` -/
theorem gen_before_loops :
    ipfixBeforeLoop = [.loadCache, .markLoaded, .spawnRPC] ∧ netflowV9BeforeLoop = [.loadCache, .markLoaded] ∧
    netflowV5BeforeLoop = [] ∧ sflowBeforeLoop = [] := by decide

/-- in the whole of package vflow a template cache variable is assigned exactly once, by the `run()` of its protocol
(no initial value, no other assignment, its address is never taken), and a "loaded" flag is used in exactly two
places: the atomic store of 1 in that `run()` and the atomic load in that protocol's `shutdown()` (no plain read or
write, no initial value, no other store: once set it stays set, and it is set only after the assignment) -/
theorem gen_cache_writers :
    cacheWriters = [("IPFIX.run", "mCache = ipfix.GetCache(opts.IPFIXTplCacheFile)"),
                    ("NetflowV9.run", "mCacheNF9 = netflow9.GetCache(opts.NetflowV9TplCacheFile)")] ∧
    loadedFlagUses = [("IPFIX.run", "atomic.StoreInt32(&mCacheLoaded, 1)"), ("IPFIX.shutdown", "atomic.LoadInt32(&mCacheLoaded)"),
                      ("NetflowV9.run", "atomic.StoreInt32(&mCacheNF9Loaded, 1)"),
                      ("NetflowV9.shutdown", "atomic.LoadInt32(&mCacheNF9Loaded)")] := by decide

/-- in the whole of package vflow each UDP work queue has exactly one send statement and exactly one
`close`, both in the `run()` of its own protocol (so the model's two goroutines are all there is: no
other function sends on, closes, or is handed a queue) -/
theorem gen_single_sender_and_closer :
    queueSenders = [("IPFIX.run", "ipfixUDPCh"), ("NetflowV5.run", "netflowV5UDPCh"),
                    ("NetflowV9.run", "netflowV9UDPCh"), ("SFlow.run", "sFlowUDPCh")] ∧
    queueClosers = queueSenders := by decide

/-- `main`, every statement: the signal channel is made with room for one signal and `signal.Notify` is the FIRST
statement after the declarations (F32 repair: it used to come after `opts = GetOptions()` and `runtime.GOMAXPROCS`, so a
signal that arrived while the options were being read had its default action); then the options, set-up statements that
synchronise with nothing; the information model (a global map read by the IPFIX and NetFlow v9 decoders) is replaced by
`LoadExtElements` BEFORE any run loop is started (F18 repair: it used to be replaced from inside `IPFIX.run()`,
concurrently with running NetFlow v9 workers), whenever the IPFIX OR the NetFlow v9 listener is switched on (F34 repair: the
guard used to name the IPFIX switch alone; `C20.gen_load_guard_covers_readers`); the run loops and, after the signal, the
shutdowns are all counted in the wait group; `main` returns (exit status 0) after `wg.Wait()` -/
theorem gen_main :
    mainSteps = [.makeSignalChan 1, .notifySigintSigterm, .getOptions, .setUp, .setUp, .setUp,
                 .loadElementsIf ["IPFIXEnabled", "NetflowV9Enabled"], .setUp,
                 .spawnRunsCounted, .spawnStats, .awaitSignal, .spawnShutdownsCounted, .waitAll] := by
  decide

/-! ## All interleavings of the generated programs -/

def progs : List Prog :=
  [⟨ipfixShutdown, ipfixBeforeLoop, ipfixAfterLoop⟩, ⟨netflowV9Shutdown, netflowV9BeforeLoop, netflowV9AfterLoop⟩,
   ⟨netflowV5Shutdown, netflowV5BeforeLoop, netflowV5AfterLoop⟩, ⟨sflowShutdown, sflowBeforeLoop, sflowAfterLoop⟩]

/-- the two protocols that keep a template cache (IPFIX, NetFlow v9) -/
def cacheProgs : List Prog := progs.take 2

/-- the programs as they were before the F21 repair (repository commit 4d10a36; IPFIX — NetFlow v9 had the
same one without the RPC statement —, then NetFlow v5, then sFlow): `shutdown()` closes the queue as its last
statement, nothing follows the read loop (and the dump is unguarded: see `unguardedProgs`) -/
def unrepairedProgs : List Prog :=
  [⟨[.guardEnabled, .setStop, .log, .sleep1s, .dump, .log, .closeQueue], [.loadCache, .spawnRPC], []⟩,
   ⟨[.guardEnabled, .setStop, .log, .sleep1s, .log, .closeQueue], [], []⟩,
   ⟨[.guardEnabled, .setStop, .log, .sleep1s, .closeConn, .log, .closeQueue], [], []⟩]

/-- the IPFIX and NetFlow v9 programs as they were before the F27 repair (repository commit 6770a64, as this
generator extracts them from that tree): the dump of `shutdown()` is unconditional and `run()` has no flag -/
def unguardedProgs : List Prog :=
  [⟨[.guardEnabled, .setStop, .log, .sleep1s, .dump, .log], [.loadCache, .spawnRPC], [.closeQueue]⟩,
   ⟨[.guardEnabled, .setStop, .log, .sleep1s, .dump, .log], [.loadCache], [.closeQueue]⟩]

/-- the assumptions under which the repaired programs are enumerated: none, or the fact about the two 1 s
constants; the hand-off hypothesis changes nothing for them (`handoff_irrelevant`) -/
def timing : List Assume := [.none, ⟨false, true⟩]

/-- the enumerated state sets are closed under every step, i.e. they are *all* reachable states (the unrepaired
programs under the one combination for which a universal statement is made below; the `∃` statements about them
need no closure: the enumeration only ever adds successors of states it already holds) -/
theorem reachable_closed :
    (∀ p ∈ progs, ∀ a ∈ timing, closedUnderNext p a = true) ∧
    (∀ p ∈ unrepairedProgs, closedUnderNext p ⟨true, true⟩ = true) := by
  decide +kernel

/-- no `shutdown()` closes a queue (F21 repair; `gen_*_shutdown`), so the hand-off hypothesis has nothing to guard -/
theorem no_close_in_shutdown : ∀ p ∈ progs, SStep.closeQueue ∉ p.shutdown := by decide

/-- the hand-off hypothesis makes no difference to the repaired programs (their `shutdown()` has no `close`):
same reachable states, same steps (`Proofs/ShutdownReach`: it only guards a `closeQueue` of `shutdown()`) -/
theorem handoff_irrelevant :
    ∀ p ∈ progs, ∀ d ∈ [false, true], reachable p ⟨true, d⟩ = reachable p ⟨false, d⟩ ∧
      ∀ s ∈ reachable p ⟨false, d⟩, next p ⟨true, d⟩ s = next p ⟨false, d⟩ s :=
  fun p hp d _ => ⟨(reachable_handoff p (no_close_in_shutdown p hp) d).1, fun s _ => (reachable_handoff p (no_close_in_shutdown p hp) d).2 s⟩

/-- the fact about the 1 s constants only removes interleavings: whatever is reachable with it is reachable
without. So what holds in every state of `reachable p .none` holds under every combination of assumptions.
(`Proofs/ShutdownReach`: the fact only disables a step, and `reachable p .none` is closed under all steps.) -/
theorem deadlines_only_restrict :
    ∀ p ∈ progs, ∀ s ∈ reachable p ⟨false, true⟩, (reachable p .none).contains s = true :=
  fun p hp s hs => List.contains_iff_mem.mpr
    (reachable_deadlines_subset p false (reachable_closed.1 p hp .none (by simp [timing])) s hs)

/-- remaining work once `stop` is set: reader distance to the return of `run()` + shutdown statements left -/
def measure (p : Prog) (s : St) : Nat :=
  (match s.rpc with
    | .exited => 0 | .leaving k => 1 + (p.afterLoop.length - k)
    | .starting k => 3 + p.afterLoop.length + (p.beforeLoop.length - k)
    | .atCheck => 2 + p.afterLoop.length | .havePacket => 3 + p.afterLoop.length | .inRead => 4 + p.afterLoop.length)
  + (p.shutdown.length - s.spc)

set_option synthInstance.maxSize 1024 in
/-- one enumeration for the safety statements below (each reachable state of each program, no assumption) -/
theorem safety_all_interleavings :
    ∀ p ∈ progs, ∀ s ∈ reachable p .none,
      s.panicked = false ∧
      (s.closed = true → s.stop = true ∧ s.pastLoop = true ∧ s.rpc ≠ .leaving 0) ∧
      s.readsAfterStop ≤ 1 ∧
      -- the dump and the load (F27)
      s.wiped = false ∧
      (s.dumped = true → s.cacheSet = true ∧ s.loadedFlag = true) ∧
      (s.loadedFlag = true → s.cacheSet = true) ∧
      (s.dumpSkipped = true → s.everRead = false ∧ s.dumped = false ∧ s.stop = true) ∧
      (s.spc = p.shutdown.length → s.everRead = true → p ∈ cacheProgs → s.dumped = true) := by decide +kernel

/-- **C15 (no panic)**: no interleaving sends on the closed queue or closes it twice — with no assumption on
timing or scheduling (`Assume.none`: every interleaving of the atomic steps): not the hand-off hypothesis `H`,
not the 1 s constants. (Before the F21 repair: `no_send_on_closed_queue_partial`, under hypothesis `H` in the
timed model only.) -/
theorem no_send_on_closed_queue : ∀ p ∈ progs, ∀ s ∈ reachable p .none, s.panicked = false :=
  fun p hp s hs => (safety_all_interleavings p hp s hs).1

/-- whatever holds in every state reachable without assumptions holds under any combination of the assumptions
(they only remove interleavings: `deadlines_only_restrict`, `handoff_irrelevant`) -/
theorem safety_transfer {P : St → Prop} (p : Prog) (hp : p ∈ progs) (h : ∀ s ∈ reachable p .none, P s) :
    ∀ a ∈ Assume.all, ∀ s ∈ reachable p a, P s := by
  intro a ha s hs
  have key : ∀ d ∈ [false, true], ∀ s ∈ reachable p ⟨false, d⟩, P s := by
    intro d hd s hs
    simp only [List.mem_cons, List.not_mem_nil, or_false] at hd
    rcases hd with rfl | rfl
    · exact h s hs
    · exact h s (List.contains_iff_mem.mp (deadlines_only_restrict p hp s hs))
  simp only [Assume.all, List.mem_cons, List.not_mem_nil, or_false] at ha
  rcases ha with rfl | rfl | rfl | rfl
  · exact key false (by simp) s hs
  · exact key true (by simp) s hs
  · rw [(handoff_irrelevant p hp false (by simp)).1] at hs; exact key false (by simp) s hs
  · rw [(handoff_irrelevant p hp true (by simp)).1] at hs; exact key true (by simp) s hs

/-- the same under any combination of the assumptions (they only remove interleavings) -/
theorem no_send_on_closed_queue_assuming : ∀ p ∈ progs, ∀ a ∈ Assume.all, ∀ s ∈ reachable p a, s.panicked = false :=
  fun p hp => safety_transfer p hp (no_send_on_closed_queue p hp)

/-- the reason: the queue is closed only by the reader, after it has left its loop for good -/
theorem closed_only_after_loop :
    ∀ p ∈ progs, ∀ s ∈ reachable p .none, s.closed = true →
      s.stop = true ∧ s.pastLoop = true ∧ s.rpc ≠ .leaving 0 :=
  fun p hp s hs => (safety_all_interleavings p hp s hs).2.1

/-- regression witness (the code before the repair): without `H` the panic is reachable in every one of
the old programs, already in the timed model (a datagram arriving in the last instant of the deadline,
the reader descheduled between `ReadFromUDP` and the channel send until after `close`) … -/
theorem close_race_without_H : ∀ p ∈ unrepairedProgs, ∃ s ∈ reachable p ⟨false, true⟩, s.panicked = true := by decide +kernel

/-- … and `H`, together with the fact about the two 1 s constants, was exactly what excluded it (the old
`no_send_on_closed_queue_partial`) -/
theorem unrepaired_no_send_under_H : ∀ p ∈ unrepairedProgs, ∀ s ∈ reachable p ⟨true, true⟩, s.panicked = false := by decide +kernel

/-- … while a process that does not run during the grace period (the 1 s sleep over before the read armed
before `stop` has returned: `deadlines := false`) reached the panic even under `H`: the read returns a datagram
after `shutdown()` has closed the queue (IPFIX / NetFlow v9 and NetFlow v5; the sFlow `shutdown()` closed the
socket first, so there the late read fails instead). This is the schedule the stalled stops of the e2e check
produce on the real binary. -/
theorem close_race_when_frozen : ∀ p ∈ unrepairedProgs.take 2, ∃ s ∈ reachable p ⟨true, false⟩, s.panicked = true := by decide +kernel

/-- a half-applied repair (the reader closes AND `shutdown()` still closes) panics on the second `close`,
even under both assumptions: the model is sensitive to who closes -/
theorem double_close_panics :
    ∃ s ∈ reachable ⟨[.guardEnabled, .setStop, .log, .sleep1s, .log, .closeQueue], [], [.closeQueue]⟩ ⟨true, true⟩,
      s.panicked = true := by decide +kernel

/-- **C15 (the read loop stops)**: after `stop` is set at most one more read completes, in every interleaving -/
theorem at_most_one_read_after_stop : ∀ p ∈ progs, ∀ s ∈ reachable p .none, s.readsAfterStop ≤ 1 :=
  fun p hp s hs => (safety_all_interleavings p hp s hs).2.2.1

/-! ## The dump and the load (F27) -/

/-- the F27 part of `safety_all_interleavings` -/
theorem load_all_interleavings :
    ∀ p ∈ progs, ∀ s ∈ reachable p .none,
      s.wiped = false ∧
      (s.dumped = true → s.cacheSet = true ∧ s.loadedFlag = true) ∧
      (s.loadedFlag = true → s.cacheSet = true) ∧
      (s.dumpSkipped = true → s.everRead = false ∧ s.dumped = false ∧ s.stop = true) ∧
      (s.spc = p.shutdown.length → s.everRead = true → p ∈ cacheProgs → s.dumped = true) :=
  fun p hp s hs => (safety_all_interleavings p hp s hs).2.2.2

/-- **C15 (the file of the previous run survives an early stop)**: in no interleaving of `run()` — started before it
has loaded the cache file, however long that takes — and `shutdown()` is the cache file rewritten from a cache that has
not been loaded: whenever the dump has been taken, the cache variable held the loaded templates and the flag was set;
the flag is never set before the variable is assigned. No assumption on timing or scheduling. -/
theorem dump_only_after_load :
    ∀ p ∈ progs, ∀ s ∈ reachable p .none,
      s.wiped = false ∧ (s.dumped = true → s.cacheSet = true ∧ s.loadedFlag = true) ∧ (s.loadedFlag = true → s.cacheSet = true) :=
  fun p hp s hs => ⟨(load_all_interleavings p hp s hs).1, (load_all_interleavings p hp s hs).2.1, (load_all_interleavings p hp s hs).2.2.1⟩

/-- the same under any combination of the assumptions -/
theorem dump_only_after_load_assuming : ∀ p ∈ progs, ∀ a ∈ Assume.all, ∀ s ∈ reachable p a, s.wiped = false :=
  fun p hp => safety_transfer p hp (fun s hs => (dump_only_after_load p hp s hs).1)

/-- a dump that is skipped (the flag was not set yet when `shutdown()` reached it) loses nothing: `stop` had been
set before, so the read loop of that run never arms a read — no datagram, hence no template, was received in this
run, and the file is left exactly as the previous run wrote it -/
theorem skipped_dump_loses_nothing :
    ∀ p ∈ progs, ∀ s ∈ reachable p .none, s.dumpSkipped = true → s.everRead = false ∧ s.dumped = false ∧ s.stop = true :=
  fun p hp s hs => (load_all_interleavings p hp s hs).2.2.2.1

/-- and conversely: once `shutdown()` of IPFIX / NetFlow v9 has run to its end in a run that has armed a read at
least once, the dump HAS been taken (the guard never suppresses the dump of a collector that was receiving) -/
theorem receiving_run_is_dumped :
    ∀ p ∈ cacheProgs, ∀ s ∈ reachable p .none, s.spc = p.shutdown.length → s.everRead = true → s.dumped = true :=
  fun p hp s hs h1 h2 => (load_all_interleavings p (List.mem_of_mem_take hp) s hs).2.2.2.2 h1 h2 hp

/-- regression witness (the code before the F27 repair, `unguardedProgs`): under EVERY combination of the timing
assumptions — nothing bounds the time `GetCache` takes — a run is reachable that ends normally (reader returned,
`shutdown()` at its end, no panic: exit status 0) with the cache file of the previous run replaced by the dump of
the nil cache. This is what `e2e.early_stop_cycle` shows on the real binary (117 MB file, SIGTERM right after
"ipfix is running": `{"Cache":null,"ShardNo":32}`). -/
theorem early_dump_wipes_unguarded :
    ∀ p ∈ unguardedProgs, ∀ a ∈ Assume.all, ∃ s ∈ reachable p a,
      s.wiped = true ∧ s.rpc = .exited ∧ s.spc = p.shutdown.length ∧ s.panicked = false ∧ s.everRead = false := by
  -- enumerated without the hand-off hypothesis; with it the reachable states are the same (no `close` in `shutdown()`)
  have key : ∀ p ∈ unguardedProgs, SStep.closeQueue ∉ p.shutdown ∧ ∀ d ∈ [false, true], ∃ s ∈ reachable p ⟨false, d⟩,
      s.wiped = true ∧ s.rpc = .exited ∧ s.spc = p.shutdown.length ∧ s.panicked = false ∧ s.everRead = false := by
    decide +kernel
  intro p hp a ha
  simp only [Assume.all, List.mem_cons, List.not_mem_nil, or_false] at ha
  rcases ha with rfl | rfl | rfl | rfl
  · exact (key p hp).2 false (by simp)
  · exact (key p hp).2 true (by simp)
  · rw [(reachable_handoff p (key p hp).1 false).1]; exact (key p hp).2 false (by simp)
  · rw [(reachable_handoff p (key p hp).1 true).1]; exact (key p hp).2 true (by simp)

/-- a half-applied repair is told apart: the guard without the store of the flag never dumps (templates learned in a
receiving run are lost), and the store placed BEFORE the assignment still wipes the file -/
theorem guard_needs_store_after_load :
    (∃ s ∈ reachable ⟨ipfixShutdown, [.loadCache, .spawnRPC], ipfixAfterLoop⟩ .none,
      s.spc = ipfixShutdown.length ∧ s.everRead = true ∧ s.dumped = false) ∧
    (∃ s ∈ reachable ⟨ipfixShutdown, [.markLoaded, .loadCache, .spawnRPC], ipfixAfterLoop⟩ .none, s.wiped = true) := by
  decide +kernel

set_option synthInstance.maxSize 1024 in
/-- one enumeration for the three statements below (each reachable state of each program, without and with the
fact about the 1 s constants) -/
theorem progress_all_interleavings :
    ∀ p ∈ progs, ∀ a ∈ timing, ∀ s ∈ reachable p a,
      (s.stop = true →
        (∀ t ∈ next p a s, measure p t < measure p s) ∧
        (next p a s = [] → s.rpc = .exited ∧ s.spc = p.shutdown.length ∧ s.closed = true ∧ s.panicked = false)) ∧
      (s.stop = false → s.spc ≤ 1 ∧ (shutdownSteps p a s ≠ [])) ∧
      (s.dumped = true → s.dumpedAfterStop = true ∧ s.stop = true) ∧
      (a.deadlines = true → s.dumped = true → s.rpc ≠ .inRead) := by decide +kernel

/-- **C15 (termination)**: once `stop` is set every step of every interleaving strictly decreases
`measure`, so the read loop exits, closes the queue, `run()` and `shutdown()` return after at most
`4 + lengths` further steps; and no state before the end is stuck (some step is always enabled); at the
end the queue is closed (the workers, which drain it until it is closed, terminate) and nothing panicked -/
theorem terminates_after_stop :
    ∀ p ∈ progs, ∀ a ∈ timing, ∀ s ∈ reachable p a, s.stop = true →
      (∀ t ∈ next p a s, measure p t < measure p s) ∧
      (next p a s = [] → s.rpc = .exited ∧ s.spc = p.shutdown.length ∧ s.closed = true ∧ s.panicked = false) :=
  fun p hp a ha s hs => (progress_all_interleavings p hp a ha s hs).1

/-- before the signal the shutdown goroutine does not exist; once it runs, `setStop` is its first
effective step and it is always enabled -/
theorem stop_always_reachable :
    ∀ p ∈ progs, ∀ a ∈ timing, ∀ s ∈ reachable p a, s.stop = false → s.spc ≤ 1 ∧ (shutdownSteps p a s ≠ []) :=
  fun p hp a ha s hs => (progress_all_interleavings p hp a ha s hs).2.1

/-- **C15 (dump)**: whenever the cache has been dumped, `stop` had been set (the dump statement comes after
`setStop` and `sleep1s`); and, given the fact about the two 1 s constants, the grace period has done its work:
when the dump is taken the read loop is not blocked in `ReadFromUDP` any more (it is handing over its last
datagram, leaving, or gone) and will not read again. The queue is no longer closed by `shutdown()`, so the
former clause "closed only after the dump" is replaced by `closed_only_after_loop`: the workers drain the
queue whichever of dump and close comes first. -/
theorem dump_after_stop_and_sleep :
    ∀ p ∈ progs, ∀ a ∈ timing, ∀ s ∈ reachable p a,
      (s.dumped = true → s.dumpedAfterStop = true ∧ s.stop = true) ∧
      (a.deadlines = true → s.dumped = true → s.rpc ≠ .inRead) :=
  fun p hp a ha s hs => (progress_all_interleavings p hp a ha s hs).2.2

/-- non-vacuity: the state spaces are not trivial, and the final state (reader exited, queue closed by it,
shutdown done, no panic) is reachable -/
example : (reachable ⟨ipfixShutdown, ipfixBeforeLoop, ipfixAfterLoop⟩ .none).length > 20 ∧
    (reachable ⟨ipfixShutdown, ipfixBeforeLoop, ipfixAfterLoop⟩ .none).any (fun s => s.rpc == .exited && s.spc == ipfixShutdown.length && s.dumped && s.everRead && s.closed && !s.panicked) = true ∧
    -- the early stop: shutdown() ran to its end before the cache was loaded; the dump was skipped, nothing wiped
    (reachable ⟨ipfixShutdown, ipfixBeforeLoop, ipfixAfterLoop⟩ .none).any (fun s => s.rpc == .exited && s.spc == ipfixShutdown.length && s.dumpSkipped && !s.dumped && !s.wiped && s.closed && !s.panicked) = true := by
  decide +kernel

/-! ## `main` and the signal (F32): a signal at any moment from `main`'s first statement on

`Vflow.Model.MainSignal`: the regenerated `main` runs next to the goroutines it starts (`run()` from `spawnRunsCounted`
on, `shutdown()` from `spawnShutdownsCounted` on: the programs above) and next to an environment that sends the signal at
ANY moment, also before `signal.Notify` has run (then the process is `killed`: default action, the wait status is the
signal).  `SysReach` = every interleaving. Every reachable state is a pair of a state of `main` alone (`amReachable`,
enumerated) and a protocol state of the enumeration above (`Proofs/MainSignal`); the kernel checks an inductive
invariant that ties the two parts (`mainInv`) and every claim below on all pairs that satisfy it (`pairCheck`). -/

/-- what ties the state of `main` to the state of a protocol's goroutines: nothing has moved before `run()` is started,
`shutdown()` has not moved before it is started, it is started after `run()`, and once `wg.Wait()` has returned both
have returned -/
def mainInv (p : Prog) (m : MSt) (s : St) : Bool :=
  (m.runsStarted || decide (s = {})) && (m.stopsStarted || (s.spc == 0 && !s.stop)) && (!m.stopsStarted || m.runsStarted) &&
  (!m.waited || ((!m.runsStarted || decide (s.rpc = .exited)) && (!m.stopsStarted || s.spc == p.shutdown.length)))

/-- the claims about one state (see `signal_during_options_is_handled`) -/
def mainGood (ms : List MStep) (p : Prog) (x : Sys) : Bool :=
  (!x.m.killed || (decide (x.m.killedAt ≤ 1) && !x.m.optsRead && !x.m.caught)) &&
  (!x.m.optsRead || x.m.handler) &&
  (!x.m.sigInOptions || (x.m.caught && !x.m.killed)) &&
  (!(x.m.caught && !x.s.stop && !x.m.over) ||
    (!(mMain ms (wgDone p x) x.m).isEmpty || (x.m.stopsStarted && !(shutdownSteps p .none x.s).isEmpty))) &&
  (!(sysNext ms p .none x).isEmpty || (x.m.killed || x.m.exited0)) &&
  (!x.m.exited0 || (x.m.caught && !x.m.killed && x.m.stopsStarted && decide (x.s.rpc = .exited) &&
    x.s.spc == p.shutdown.length && x.s.closed)) &&
  (!x.s.stop || (x.m.caught && x.m.stopsStarted))

/-- the claims about one step -/
def mainGoodStep (ms : List MStep) (p : Prog) (x t : Sys) : Bool :=
  (if t.s.rpc = x.s.rpc then decide (ctlMeasure ms p t < ctlMeasure ms p x) else ctlMeasure ms p t == ctlMeasure ms p x) &&
  (!x.s.stop || decide (sysMeasure ms p t < sysMeasure ms p x))

/-- the invariant holds initially; from every pair (state of `main` alone, protocol state) that satisfies it every step
leads to a pair that satisfies it, and the claims hold for the pair and for the step -/
def pairCheck (ms : List MStep) (p : Prog) (n : Nat) : Bool :=
  mainInv p { sigsLeft := n } {} &&
  (amReachable ms n).all fun m => (reachable p .none).all fun s =>
    !mainInv p m s || (mainGood ms p ⟨m, s⟩ && (sysNext ms p .none ⟨m, s⟩).all fun t => mainInv p t.m t.s && mainGoodStep ms p ⟨m, s⟩ t)

/-- the enumeration of `main` alone (one signal; two signals) is complete -/
theorem main_alone_closed : amClosed mainSteps 1 = true ∧ amClosed mainSteps 2 = true := by decide +kernel

/-- one evaluation for the statements below: all pairs, each protocol, one and two signals -/
theorem main_pairs_checked : ∀ p ∈ progs, ∀ n ∈ [1, 2], pairCheck mainSteps p n = true := by decide +kernel

/-- every reachable state of `main` + a protocol + one or two signals: its protocol part is a state of the protocol-level
enumeration, the claims hold for it and for each of its steps -/
theorem main_all_interleavings :
    ∀ p ∈ progs, ∀ n ∈ [1, 2], ∀ x, SysReach mainSteps p .none n x →
      x.s ∈ reachable p .none ∧ mainGood mainSteps p x = true ∧
      ∀ t ∈ sysNext mainSteps p .none x, mainGoodStep mainSteps p x t = true := by
  intro p hp n hn x hx
  have hc := main_pairs_checked p hp n hn
  simp only [pairCheck, Bool.and_eq_true, List.all_eq_true] at hc
  have hA : amClosed mainSteps n = true := by
    simp only [List.mem_cons, List.not_mem_nil, or_false] at hn
    rcases hn with rfl | rfl
    · exact main_alone_closed.1
    · exact main_alone_closed.2
  have hC := reachable_closed.1 p hp .none (by simp [timing])
  have unpack : ∀ m ∈ amReachable mainSteps n, ∀ s ∈ reachable p .none, mainInv p m s = true →
      mainGood mainSteps p ⟨m, s⟩ = true ∧
      ∀ t ∈ sysNext mainSteps p .none ⟨m, s⟩, mainInv p t.m t.s = true ∧ mainGoodStep mainSteps p ⟨m, s⟩ t = true := by
    intro m hm s hs hi
    have h2 := imp_of_not_or (hc.2 m hm s hs) hi
    rw [Bool.and_eq_true, List.all_eq_true] at h2
    exact ⟨h2.1, fun t ht => Bool.and_eq_true _ _ ▸ h2.2 t ht⟩
  have key := sysReach_invariant hA hC (mainInv p) hc.1 (fun m hm s hs hi t ht => ((unpack m hm s hs hi).2 t ht).1) x hx
  have h2 := unpack x.m key.1 x.s key.2.1 key.2.2
  exact ⟨key.2.1, h2.1, fun t ht => (h2.2 t ht).2⟩

/-- **C15 (all signal arrival times: a signal during start-up)**: in every interleaving (`SysReach`) of the regenerated
`main`, the goroutines it starts and a signal (or two) sent at ANY moment,
* the signal ends the process by its default action only while `main` is at one of its first two statements — the
  declaration of the channel and `signal.Notify` itself (`killedAt ≤ 1`, `gen_main`) —, never once the options phase has
  begun; what `GetOptions` leaves behind (the pid file: `optsRead`) implies an installed handler — this is what the
  start-up stops of the e2e check judge by;
* a signal that arrives while `main` is reading its options (`sigInOptions`) is caught: it waits in the channel (which
  has room for it) and is taken by `<-signalCh` once the listeners have been started;
* once a signal is caught the run ends through the stop protocol with exit status 0: every step other than one of the
  read loop decreases `ctlMeasure`, which no step of the read loop changes; until `stop` is set such a step is always
  enabled (`main` is never blocked, then `shutdown()` is not); from then on EVERY step decreases `sysMeasure`; the only
  states without a successor are "killed" (see above) and "returned from `main`", and `main` returns only after a
  signal was caught, the shutdowns were started, `run()` has returned having closed its queue and `shutdown()` has
  returned;
* on the way nothing panics and `dump_only_after_load` still holds — the shutdown goroutines may well run before
  `run()` has loaded the cache file (the signal was waiting when the listeners were started): the guarded dump (F27)
  leaves the file alone; the protocol part of every reachable state is a state of the protocol-level enumeration
  above, so every statement about `reachable p .none` carries over.
No assumption on timing or scheduling. What is outside: the instants before `main` runs (exec, start of the Go runtime)
are the operating system's. -/
theorem signal_during_options_is_handled :
    ∀ p ∈ progs, ∀ n ∈ [1, 2], ∀ x, SysReach mainSteps p .none n x →
      (x.m.killed = true → x.m.killedAt ≤ 1 ∧ x.m.optsRead = false ∧ x.m.caught = false) ∧
      (x.m.optsRead = true → x.m.handler = true) ∧
      (x.m.sigInOptions = true → x.m.caught = true ∧ x.m.killed = false) ∧
      (x.m.caught = true → x.s.stop = false → x.m.over = false →
        mMain mainSteps (wgDone p x) x.m ≠ [] ∨ (x.m.stopsStarted = true ∧ shutdownSteps p .none x.s ≠ [])) ∧
      (∀ t ∈ sysNext mainSteps p .none x,
        (t.s.rpc = x.s.rpc → ctlMeasure mainSteps p t < ctlMeasure mainSteps p x) ∧
        (t.s.rpc ≠ x.s.rpc → ctlMeasure mainSteps p t = ctlMeasure mainSteps p x) ∧
        (x.s.stop = true → sysMeasure mainSteps p t < sysMeasure mainSteps p x)) ∧
      (sysNext mainSteps p .none x = [] → x.m.killed = true ∨ x.m.exited0 = true) ∧
      (x.m.exited0 = true → x.m.caught = true ∧ x.m.killed = false ∧ x.m.stopsStarted = true ∧
        x.s.rpc = .exited ∧ x.s.spc = p.shutdown.length ∧ x.s.closed = true) ∧
      (x.s.stop = true → x.m.caught = true ∧ x.m.stopsStarted = true) ∧
      x.s ∈ reachable p .none ∧ x.s.panicked = false ∧
      x.s.wiped = false ∧ (x.s.dumped = true → x.s.cacheSet = true ∧ x.s.loadedFlag = true) ∧ (x.s.loadedFlag = true → x.s.cacheSet = true) := by
  intro p hp n hn x hx
  obtain ⟨hs, hg, hst⟩ := main_all_interleavings p hp n hn x hx
  simp only [mainGood, Bool.and_eq_true] at hg
  obtain ⟨⟨⟨⟨⟨⟨g1, g2⟩, g3⟩, g4⟩, g5⟩, g6⟩, g7⟩ := hg
  refine ⟨?_, imp_of_not_or g2, ?_, ?_, ?_, ?_, ?_, ?_, hs, no_send_on_closed_queue p hp x.s hs, dump_only_after_load p hp x.s hs⟩
  · intro h; have := imp_of_not_or g1 h; simpa [Bool.and_eq_true, and_assoc] using this
  · intro h; have := imp_of_not_or g3 h; simpa [Bool.and_eq_true] using this
  · intro h1 h2 h3
    have := imp_of_not_or g4 (by simp [h1, h2, h3])
    simpa [List.isEmpty_iff] using this
  · intro t ht
    have := hst t ht
    simp only [mainGoodStep, Bool.and_eq_true] at this
    refine ⟨fun h => ?_, fun h => ?_, fun h => ?_⟩
    · simpa [h] using this.1
    · simpa [h] using this.1
    · simpa using imp_of_not_or this.2 h
  · intro h
    have := imp_of_not_or g5 (by simp [h])
    simpa using this
  · intro h; have := imp_of_not_or g6 h; simpa [Bool.and_eq_true, and_assoc] using this
  · intro h; have := imp_of_not_or g7 h; simpa [Bool.and_eq_true] using this

/-- `main` as it was before the F32 repair (repository commit 3fdfe98, as this generator extracts it from that tree):
`signal.Notify` after `opts = GetOptions()` and `runtime.GOMAXPROCS(…)` -/
def f32_old_main : List MStep :=
  [.makeSignalChan 1, .getOptions, .setUp, .notifySigintSigterm, .setUp, .setUp, .loadElementsIf ["IPFIXEnabled"], .setUp,
   .spawnRunsCounted, .spawnStats, .awaitSignal, .spawnShutdownsCounted, .waitAll]

/-- regression witness (the code before the F32 repair): a signal that arrives while `main` is reading its options is
not handled — the process is killed by it —, and so is one that arrives between the return of `GetOptions` (the pid file
already holds the process's PID: what the e2e start-up stops observe) and `signal.Notify` -/
theorem f32_old_main_kills :
    ∀ p ∈ progs,
      (∃ x, SysReach f32_old_main p .none 1 x ∧ (x.m.sigInOptions && x.m.killed && !x.m.caught && !x.m.optsRead) = true) ∧
      (∃ x, SysReach f32_old_main p .none 1 x ∧ (x.m.killed && x.m.optsRead && x.m.killedAt == 3 && !x.m.handler) = true) := by
  have key : ∀ p ∈ progs,
      (follow f32_old_main p .none ⟨{ sigsLeft := 1 }, {}⟩ [1, 0]).any
        (fun x => x.m.sigInOptions && x.m.killed && !x.m.caught && !x.m.optsRead) = true ∧
      (follow f32_old_main p .none ⟨{ sigsLeft := 1 }, {}⟩ [1, 1, 1, 0]).any
        (fun x => x.m.killed && x.m.optsRead && x.m.killedAt == 3 && !x.m.handler) = true := by decide +kernel
  exact fun p hp => ⟨exists_of_follow _ _ (key p hp).1, exists_of_follow _ _ (key p hp).2⟩

/-- the repair needs the buffered channel: with `make(chan os.Signal)` a signal relayed while `main` is still reading
its options finds no room and no receiver and is dropped (package os/signal never blocks), and `main` then waits in
`<-signalCh` for a signal that has already been sent -/
theorem unbuffered_channel_loses_signal :
    ∃ x, SysReach (MStep.makeSignalChan 0 :: mainSteps.drop 1) ⟨ipfixShutdown, ipfixBeforeLoop, ipfixAfterLoop⟩ .none 1 x ∧
      (x.m.sigInOptions && x.m.lost && !x.m.caught && x.m.sigsLeft == 0 && !x.m.over &&
        decide (mainSteps[x.m.mpc]? = some MStep.awaitSignal) &&
        (mMain (MStep.makeSignalChan 0 :: mainSteps.drop 1) true x.m).isEmpty && (mSignal mainSteps x.m).isEmpty) = true :=
  exists_of_follow [1, 1, 0, 0, 0, 0, 0, 0, 0, 0, 0] _ (by decide +kernel)

/-- non-vacuity: a run in which the signal arrived during the options phase and the collector then came up, stopped and
returned from `main` exists (IPFIX: with the dump skipped because the cache had not been loaded yet, and with the dump
taken in a run that armed a read), and so does the run that is killed before `signal.Notify` has returned -/
example :
    (∃ x, SysReach mainSteps ⟨ipfixShutdown, ipfixBeforeLoop, ipfixAfterLoop⟩ .none 1 x ∧
      (x.m.sigInOptions && x.m.exited0 && x.s.dumpSkipped && !x.s.wiped) = true) ∧
    (∃ x, SysReach mainSteps ⟨ipfixShutdown, ipfixBeforeLoop, ipfixAfterLoop⟩ .none 1 x ∧
      (x.m.sigInOptions && x.m.exited0 && x.s.dumped && x.s.everRead) = true) ∧
    (∃ x, SysReach mainSteps ⟨ipfixShutdown, ipfixBeforeLoop, ipfixAfterLoop⟩ .none 1 x ∧ (x.m.killed && x.m.killedAt == 1) = true) :=
  ⟨exists_of_follow [1, 1, 0, 0, 0, 0, 0, 0, 0, 0, 0, 0, 0, 0, 1, 1, 1, 1, 1, 0, 0, 0, 0, 0, 0, 0, 0, 0] _ (by decide +kernel),
   exists_of_follow [1, 1, 0, 0, 0, 0, 0, 0, 0, 0, 0, 0, 0, 0, 0, 0, 0, 0, 0, 1, 1, 0, 0, 0, 0, 0, 0, 0, 0, 0] _ (by decide +kernel),
   exists_of_follow [1, 0] _ (by decide +kernel)⟩

/-! ## The pid file (F28) -/

section PidFile
open Vflow.PidFile Vflow.Gen.PidFile

/-- `vFlowIsRunning`: read the pid file (unreadable ⇒ not running); a recorded PID equal to the process's own PID
⇒ not running (F28 repair); otherwise `kill -0` on the recorded text decides -/
theorem gen_is_running :
    isRunningSteps = [.readPidFile, .unreadableNotRunning, .ownPidNotRunning, .probeKill0, .runProbe, .runningIffProbeOk] := by decide

/-- `vFlowPIDWrite` writes `os.Getpid()` in decimal, with nothing after it, over whatever the file held — the text
the own-PID test compares with (`strconv.Itoa(os.Getpid())`); `GetOptions` tests first and writes after; no other
function of package vflow touches the pid file (nothing removes it at exit) -/
theorem gen_pid_write :
    pidWriteSteps = [.openTruncCreate, .openErrorLogReturn, .writeOwnPidDecimal, .writeErrorLog] ∧
    getOptionsPidSteps = [.refuseIfRunning, .writePidFile] ∧
    pidFileUsers = [("GetOptions", "vFlowIsRunning"), ("GetOptions", "vFlowPIDWrite"), ("NewOptions", "PIDFile"),
                    ("Options.flagSet", "PIDFile"), ("Options.vFlowIsRunning", "PIDFile"), ("Options.vFlowPIDWrite", "PIDFile")] := by decide

/-- **C15 (repeated stop/start cycles: the pid file)**: for every content of the pid file, every own PID and every
set of live PIDs, the regenerated `vFlowIsRunning` answers "running" exactly when the file records the PID of a live
process OTHER than the one that is starting -/
theorem is_running_spec (e : Env) :
    isRunning isRunningSteps e = some (match e.file with
      | .pid n => decide (n ≠ e.own) && e.alive n
      | _ => false) := by
  rw [gen_is_running]
  cases hf : e.file with
  | absent => simp [isRunning, hf]
  | garbage => simp [isRunning, afterRead, hf]
  | pid n =>
    by_cases h : n = e.own
    · simp [isRunning, afterRead, hf, h]
    · simp [isRunning, afterRead, hf, h]

/-- a restart that gets the PID of the previous run (a container: the pid file is stale and records the new
process's own PID, which `kill -0` finds alive) is not refused … -/
theorem same_pid_restart_not_refused (e : Env) (h : e.file = .pid e.own) : isRunning isRunningSteps e = some false := by
  rw [is_running_spec, h]; simp

/-- … while a second instance is: the file records the PID of another process that is alive -/
theorem second_instance_refused (e : Env) (n : Nat) (h : e.file = .pid n) (hn : n ≠ e.own) (ha : e.alive n = true) :
    isRunning isRunningSteps e = some true := by
  rw [is_running_spec, h]; simp [hn, ha]

/-- `vFlowIsRunning` before the F28 repair (repository commit 6770a64) -/
def unrepairedIsRunning : List PStep := [.readPidFile, .unreadableNotRunning, .probeKill0, .runProbe, .runningIffProbeOk]

/-- regression witness: the old test refused EVERY restart under the PID of the previous run (a process is alive
to itself): `docker restart` with the shipped entrypoint never came up again -/
theorem same_pid_restart_refused_unrepaired (e : Env) (h : e.file = .pid e.own) (ha : e.alive e.own = true) :
    isRunning unrepairedIsRunning e = some true := by
  simp [unrepairedIsRunning, isRunning, afterRead, h, ha]

/-- non-vacuity: PID 3 recorded, own PID 3 (alive): start; own PID 7 and 3 alive: refused; 3 dead: start -/
example : isRunning isRunningSteps ⟨.pid 3, 3, fun _ => true⟩ = some false ∧
    isRunning isRunningSteps ⟨.pid 3, 7, fun _ => true⟩ = some true ∧
    isRunning isRunningSteps ⟨.pid 3, 7, fun n => n != 3⟩ = some false ∧
    isRunning unrepairedIsRunning ⟨.pid 3, 3, fun _ => true⟩ = some true := by decide

end PidFile

end Vflow.C15
