import Vflow.Model.Shutdown
import Vflow.Gen.ShutdownIR
/-!
# C15 — SIGTERM stops the collector cleanly

Protocol-level model (`Vflow.Model.Shutdown`): one read loop and one `shutdown()` goroutine per
protocol, statements regenerated from the Go source (`Vflow.Gen.ShutdownIR`).  "Every schedule" =
every interleaving of the atomic steps; the reachable state space of each generated program is
finite and is enumerated completely by the kernel (`decide`), so the statements below hold for all
interleavings of the modelled steps, not for a sample.

What the model cannot exhibit (labelled partial in the manifest): wall-clock seconds (the 1 s sleep and
the 1 s read deadline enter only as the enabledness facts stated in the model file), signal delivery,
the non-atomic `stop` flag, and the hand-off hypothesis `H` (the reader enqueues a datagram it has
already received before the shutdown goroutine reaches `close(queue)`), without which a send on the
closed channel IS reachable (`close_race_without_H`).  Survival of the templates across the restart is
the composition with C10 (dump under the shard read locks = one consistent snapshot) and C11
(`load_save`): `dump_after_stop_and_sleep` says the dump is taken after the read loop has been told
to stop and the grace period has elapsed.
-/
namespace Vflow.C15
open Vflow.Shutdown Vflow.Gen.ShutdownIR

/-- the statements that matter for synchronisation -/
def essential (p : List SStep) : List SStep := p.filter fun s => s ≠ .guardEnabled ∧ s ≠ .log

/-! ## Obligations over the regenerated facts -/

theorem gen_ipfix_shutdown : essential ipfixShutdown = [.setStop, .sleep1s, .dump, .closeQueue] := by decide
theorem gen_v9_shutdown : essential netflowV9Shutdown = [.setStop, .sleep1s, .dump, .closeQueue] := by decide
theorem gen_v5_shutdown : essential netflowV5Shutdown = [.setStop, .sleep1s, .closeQueue] := by decide
theorem gen_sflow_shutdown : essential sflowShutdown = [.setStop, .sleep1s, .closeConn, .closeQueue] := by decide

def canonicalReadLoop : List RStep := [.whileNotStop, .getBuf, .deadline1s, .read, .onErrorContinue, .countUDP, .enqueue]

/-- all four read loops have the shape the model's reader implements: check `stop`, arm a 1 s
deadline, read, on error go back to the check, count, enqueue -/
theorem gen_read_loops :
    ipfixReadLoop = canonicalReadLoop ∧ netflowV9ReadLoop = canonicalReadLoop ∧
    netflowV5ReadLoop = canonicalReadLoop ∧ sflowReadLoop = canonicalReadLoop := by decide

/-- `main`: signals registered before anything runs; the information model (a global map read by the IPFIX and NetFlow
v9 decoders) is replaced by `LoadExtElements` BEFORE any run loop is started (F18 repair: it used to be replaced from
inside `IPFIX.run()`, concurrently with running NetFlow v9 workers); the run loops and, after the signal, the
shutdowns are all counted in the wait group; `main` returns (exit status 0) after `wg.Wait()` -/
theorem gen_main :
    mainSteps = [.notifySigintSigterm, .loadElements, .spawnRunsCounted, .spawnStats, .awaitSignal, .spawnShutdownsCounted, .waitAll] := by
  decide

/-! ## All interleavings of the generated programs -/

def progs : List (List SStep) := [ipfixShutdown, netflowV9Shutdown, netflowV5Shutdown, sflowShutdown]

/-- the enumerated state sets are closed under every step, i.e. they are *all* reachable states -/
theorem reachable_closed : ∀ p ∈ progs, closedUnderNext p true = true ∧ closedUnderNext p false = true := by
  decide

/-- remaining work once `stop` is set: reader distance to exit + shutdown statements left -/
def measure (p : List SStep) (s : St) : Nat :=
  (match s.rpc with | .exited => 0 | .atCheck => 1 | .havePacket => 2 | .inRead => 3) + (p.length - s.spc)

/-- **C15 (no panic, under H)**: with the hand-off hypothesis no interleaving sends on the closed queue -/
theorem no_send_on_closed_queue_partial : ∀ p ∈ progs, ∀ s ∈ reachable p true, s.panicked = false := by decide

/-- the hypothesis is needed: without it the panic is reachable in every one of the four programs
(idle link, a datagram arriving in the last instant of the deadline, the reader descheduled between
`ReadFromUDP` and the channel send until after `close`) -/
theorem close_race_without_H : ∀ p ∈ progs, ∃ s ∈ reachable p false, s.panicked = true := by decide

/-- **C15 (the read loop stops)**: after `stop` is set at most one more read completes, in every interleaving -/
theorem at_most_one_read_after_stop : ∀ p ∈ progs, ∀ s ∈ reachable p true, s.readsAfterStop ≤ 1 := by decide

/-- **C15 (termination)**: once `stop` is set every step of every interleaving strictly decreases
`measure`, so the read loop exits and `shutdown()` returns after at most `3 + length` further steps;
and no state before the end is stuck (some step is always enabled) -/
theorem terminates_after_stop :
    ∀ p ∈ progs, ∀ s ∈ reachable p true, s.stop = true →
      (∀ t ∈ next p true s, measure p t < measure p s) ∧
      (next p true s = [] → s.rpc = .exited ∧ s.spc = p.length) := by decide

/-- before the signal the shutdown goroutine does not exist; once it runs, `setStop` is its first
effective step and it is always enabled -/
theorem stop_always_reachable : ∀ p ∈ progs, ∀ s ∈ reachable p true, s.stop = false → s.spc ≤ 1 ∧ (shutdownSteps p true s ≠ []) := by
  decide

/-- **C15 (dump)**: whenever the cache has been dumped, `stop` had been set and the grace period was
over (the dump statement comes after `sleep1s`), and the queue is closed only after the dump -/
theorem dump_after_stop_and_sleep :
    ∀ p ∈ progs, ∀ s ∈ reachable p true,
      (s.dumped = true → s.dumpedAfterStop = true ∧ s.stop = true) ∧
      (s.closed = true → p.contains .dump = true → s.dumped = true) := by decide

/-- non-vacuity: the state spaces are not trivial, and the final state (reader exited, shutdown done, no panic) is reachable -/
example : (reachable ipfixShutdown true).length > 20 ∧
    (reachable ipfixShutdown true).any (fun s => s.rpc == .exited && s.spc == ipfixShutdown.length && s.dumped && s.closed && !s.panicked) = true := by
  decide

end Vflow.C15
