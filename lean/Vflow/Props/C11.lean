import Vflow.Proofs.CacheReach
/-!
# C11 — the template cache survives a restart; any cache file content is safe to load

Model: `CacheFile.dumpJson` (the octets `Dump` writes), `CacheFile.Doc` (what `json.Unmarshal`
can produce for `memCacheDisk`: absent / null shards, null maps, any `ShardNo`), `CacheFile.loadDoc`
(`GetCache` after the F9 repair), `CacheFile.docOf c` (the document `json.Unmarshal` reads back from
`Dump`'s output for cache `c`).

Not modelled (library, trusted, exercised by the correspondence on every run): the binding of file
octets to `Doc` by `encoding/json` — in particular "a proper prefix of the dumped file is rejected",
which the `*-cachefile` correspondence kinds check for EVERY prefix length of every sampled file
on the real `GetCache`.  Hence the crash-point part of the property is `load_prefix_partial` below.
-/
namespace Vflow.C11
open Vflow Vflow.CacheFile

/-- **C11 (restart)**: for every cache reachable by decoding (keys distinct), loading the document
written for it gives a cache in which every key maps to the same template — so every datagram
sequence decodes against `load (save c)` exactly as against `c` (lookups are the decoders' only
access to the cache: `C04.ipfix_data_uses_lookup`, `C04.v9_data_uses_lookup`) -/
theorem load_save (c : Cache) (hnd : NoDupKeys c) (k : Nat) :
    Cache.lookupKey (loadDoc (some (docOf c))) k = Cache.lookupKey c k := by
  have hp := docEntries_docOf_perm c
  have hnd' : NoDupKeys (docEntries (docOf c)) := by
    unfold NoDupKeys at *; exact (hp.map _).nodup_iff.mpr hnd
  simp only [loadDoc, docUsable_docOf, if_true]
  rw [lookupKey_foldl_insertKey _ hnd' [] k, lookupKey_perm hp hnd' k]
  cases Cache.lookupKey c k <;> rfl

/-- the same, at the (exporter, id) level the decoders use -/
theorem load_save_lookup (c : Cache) (hnd : NoDupKeys c) (a : Bytes) (id : Nat) :
    (loadDoc (some (docOf c))).lookup a id = c.lookup a id := by
  rw [Cache.lookup_eq, Cache.lookup_eq, load_save c hnd]

/-- the hypothesis of `load_save` holds for every cache reachable from the empty cache (or from any
loaded cache) by decoding any datagrams, IPFIX and NetFlow v9 -/
theorem reachable_ipfix (c : Cache) (addr bs : Bytes) (h : NoDupKeys c) : NoDupKeys (Ipfix.decode c addr bs).2 :=
  Ipfix.decode_nodup c addr bs h
theorem reachable_v9 (c : Cache) (addr bs : Bytes) (h : NoDupKeys c) : NoDupKeys (V9.decode c addr bs).2 :=
  V9.decode_nodup c addr bs h
theorem empty_nodup : NoDupKeys ([] : Cache) := List.nodup_nil

/-- whatever is loaded has distinct keys again (so restart cycles compose) -/
theorem loadDoc_nodup (d : Option Doc) : NoDupKeys (loadDoc d) := by
  cases d with
  | none => exact List.nodup_nil
  | some d =>
    simp only [loadDoc]
    split
    · suffices ∀ (l : List (Nat × Template)) (acc : Cache), NoDupKeys acc →
          NoDupKeys (l.foldl (fun c e => CacheFile.insertKey c e.1 e.2) acc) from this _ _ List.nodup_nil
      intro l
      induction l with
      | nil => intro acc h; exact h
      | cons x xs ih => intro acc h; exact ih _ (insertKey_nodup acc x.1 x.2 h)
    · exact List.nodup_nil

/-- **C11 (any content, usable)**: `GetCache` returns either the document's cache — and then the
document has 32 shards, none null, every map present, which is what the decoders index into — or a
fresh cache.  There is no third outcome, whatever the file contains. -/
theorem load_usable (d : Option Doc) :
    loadDoc d = [] ∨ ∃ doc, d = some doc ∧ doc.shardNo = 32 ∧ doc.shards.length = 32 ∧
      ∀ s ∈ doc.shards, ∃ l, s = some (some l) := by
  cases d with
  | none => left; rfl
  | some doc =>
    by_cases hu : docUsable doc = true
    · right
      refine ⟨doc, rfl, ?_⟩
      simp only [docUsable, Bool.and_eq_true, beq_iff_eq, List.all_eq_true] at hu
      refine ⟨hu.1.1, hu.1.2, ?_⟩
      intro s hs
      have := hu.2 s hs
      match s, this with
      | some (some l), _ => exact ⟨l, rfl⟩
    · left; simp [loadDoc, hu]

/-- **C11 (any content, only saved templates)**: every entry of the loaded cache is an entry of the document -/
theorem load_subset (d : Doc) : ∀ e ∈ loadDoc (some d), e ∈ docEntries d := by
  simp only [loadDoc]
  split
  · suffices ∀ (l : List (Nat × Template)) (acc : Cache),
        ∀ e ∈ l.foldl (fun c e => CacheFile.insertKey c e.1 e.2) acc, e ∈ l ∨ e ∈ acc by
      intro e he
      rcases this _ [] e he with h | h
      · exact h
      · cases h
    intro l
    induction l with
    | nil => intro acc e he; right; exact he
    | cons x xs ih =>
      intro acc e he
      rcases ih _ e he with h | h
      · left; exact List.mem_cons_of_mem _ h
      · unfold CacheFile.insertKey at h
        rcases List.mem_cons.mp h with h | h
        · left; rw [h]; exact List.mem_cons_self ..
        · right; exact (List.mem_filter.mp h).1
  · intro e he; cases he

/-- unreadable / rejected file ⇒ fresh cache; inconsistent document ⇒ fresh cache -/
theorem load_rejected : loadDoc none = [] := rfl
theorem load_inconsistent (d : Doc) (h : docUsable d = false) : loadDoc (some d) = [] := by
  simp [loadDoc, h]

/-- **C11 (crash points, partial)**: if `encoding/json` rejects a file content (as it does every
proper prefix of a dumped file — checked exhaustively per sampled file by the correspondence, not
proved: the JSON parser is library code), the result is the fresh cache.
*Partial*: the premise "rejected" is an assumption about the library for prefixes. -/
theorem load_prefix_partial (bind : Bytes → Option Doc) (file : Bytes) (n : Nat)
    (hrej : bind (file.take n) = none) : loadDoc (bind (file.take n)) = [] := by
  rw [hrej]; rfl

/-- the F9 witnesses are now loaded as fresh caches: `{"Cache":[],"ShardNo":32}`, a null shard, a shard without a map -/
example : loadDoc (some ⟨32, []⟩) = [] := by decide
example : loadDoc (some ⟨32, List.replicate 31 (some (some [])) ++ [none]⟩) = [] := by decide
example : loadDoc (some ⟨32, List.replicate 31 (some (some [])) ++ [some none]⟩) = [] := by decide
/-- non-vacuity of `load_save`: a two-template cache -/
def exCache : Cache :=
  Cache.insert (Cache.insert [] [10,0,0,1] 256 ⟨256, 1, 0, [], [⟨8, 4, 0⟩]⟩) [10,0,0,2] 300 ⟨300, 1, 0, [], [⟨1, 8, 0⟩]⟩
example : (exCache.map (·.1)).Nodup := by decide
example : (loadDoc (some (docOf exCache))).lookup [10,0,0,1] 256 = some ⟨256, 1, 0, [], [⟨8, 4, 0⟩]⟩ := by decide

end Vflow.C11
