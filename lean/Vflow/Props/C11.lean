import Vflow.Proofs.CacheReach
import Vflow.Proofs.JsonPrefix
/-!
# C11 — the template cache survives a restart; any cache file content is safe to load

Model: `CacheFile.dumpJson` (the octets `Dump` writes), `CacheFile.Doc` (what `json.Unmarshal`
can produce for `memCacheDisk`: absent / null shards, null maps, any `ShardNo`), `CacheFile.loadDoc`
(`GetCache` after the F9 repair), `CacheFile.docOf c` (the document `json.Unmarshal` reads back from
`Dump`'s output for cache `c`).

Crash points (the collector is killed while `Dump` writes the file): `Spec.jsonValid` is a port of the scanner
of Go's `encoding/json` (= `json.Valid`; `Spec/JsonText.lean`), `CacheFile.dumpJsonTs` the file with the
timestamps that are really written.  Proved here: the file is accepted (`dump_valid`), **every proper prefix of
it is rejected** (`dump_prefix_rejected`; both are instances of theorems about all RFC 8259 trees,
`json_render_valid` / `json_render_prefix_rejected`), hence the next start comes up with a fresh cache
(`load_prefix`).

Not modelled (library, trusted): (1) `jsonValid` = `json.Valid` — sampled on every run by the `jsonvalid`
correspondence kind (real dumps and their prefixes, structure-aware mutations, random octets); (2)
`json.Unmarshal` returns an error for whatever `json.Valid` rejects (it runs the same scanner over the whole
input first — `bindFile`); (3) the reflection-driven binding of an accepted text to `Doc` — a parameter of
`load_prefix`, obtained from `encoding/json` itself in the `*-cachefile` correspondence kinds, which also load
EVERY prefix of every sampled file with the real `GetCache`.
-/
namespace Vflow.C11
open Vflow Vflow.CacheFile Vflow.Spec

/-- lookup by key looks at the entries under that key only -/
theorem lookupKey_filter (c : Cache) (p : CKey × Template → Bool) (k : CKey) (h : ∀ e, e.1 = k → p e = true) :
    Cache.lookupKey (c.filter p) k = Cache.lookupKey c k := by
  unfold Cache.lookupKey
  rw [List.find?_filter]
  congr 2
  funext e
  by_cases he : e.1 = k
  · simp [he, h e he]
  · simp [he]

/-- **C11 (restart)**: for every cache reachable by decoding (keys distinct), loading the document
written for it gives a cache in which every key of the 32 shards maps to the same template — so every datagram
sequence decodes against `load (save c)` exactly as against `c` (lookups are the decoders' only
access to the cache: `C04.ipfix_data_uses_lookup`, `C04.v9_data_uses_lookup`; their keys are `cacheKey a id`,
whose shard index is below 32: `load_save_lookup` has no such premise) -/
theorem load_save (c : Cache) (hnd : NoDupKeys c) (k : CKey) (hk : k.1 < 32) :
    Cache.lookupKey (loadDoc (some (docOf c))) k = Cache.lookupKey c k := by
  have hp := docEntries_docOf_perm c
  have hndf : NoDupKeys (c.filter fun e => e.1.1 < 32) := by
    unfold NoDupKeys at *; exact (List.filter_sublist.map _).nodup hnd
  have hnd' : NoDupKeys (docEntries (docOf c)) := by
    unfold NoDupKeys at *; exact (hp.map _).nodup_iff.mpr hndf
  simp only [loadDoc, docUsable_docOf, if_true]
  rw [lookupKey_foldl_insertKey _ hnd' [] k, lookupKey_perm hp hnd' k,
    lookupKey_filter c _ k (fun e he => by simp [he, hk])]
  cases Cache.lookupKey c k <;> rfl

/-- the same, at the (exporter, id) level the decoders use: for every exporter address and template id -/
theorem load_save_lookup (c : Cache) (hnd : NoDupKeys c) (a : Bytes) (id : Nat) :
    (loadDoc (some (docOf c))).lookup a id = c.lookup a id := by
  rw [Cache.lookup_eq, Cache.lookup_eq, load_save c hnd _ (shardOf_lt a id)]

/-- the hypothesis of `load_save` holds for every cache reachable from the empty cache (or from any
loaded cache) by decoding any datagrams, IPFIX and NetFlow v9 -/
theorem reachable_ipfix (c : Cache) (addr bs : Bytes) (h : NoDupKeys c) : NoDupKeys (Ipfix.decode c addr bs).2 :=
  Ipfix.decode_nodup c addr bs h
theorem reachable_v9 (c : Cache) (addr bs : Bytes) (h : NoDupKeys c) : NoDupKeys (V9.decode c addr bs).2 :=
  V9.decode_nodup c addr bs h
theorem empty_nodup : NoDupKeys ([] : Cache) := List.nodup_nil

/-- whatever is loaded has distinct keys again (so restart cycles compose) -/
theorem loadDoc_nodup (d : Option Doc) : NoDupKeys (loadDoc d) := by
  cases d with
  | none => exact List.nodup_nil
  | some d =>
    simp only [loadDoc]
    split
    · suffices ∀ (l : List (CKey × Template)) (acc : Cache), NoDupKeys acc →
          NoDupKeys (l.foldl (fun c e => CacheFile.insertKey c e.1 e.2) acc) from this _ _ List.nodup_nil
      intro l
      induction l with
      | nil => intro acc h; exact h
      | cons x xs ih => intro acc h; exact ih _ (insertKey_nodup acc x.1 x.2 h)
    · exact List.nodup_nil

/-- **C11 (any content, usable)**: `GetCache` returns either the document's cache — and then the
document has 32 shards, none null, every map present, which is what the decoders index into — or a
fresh cache.  There is no third outcome, whatever the file contains. -/
theorem load_usable (d : Option Doc) :
    loadDoc d = [] ∨ ∃ doc, d = some doc ∧ doc.shardNo = 32 ∧ doc.shards.length = 32 ∧
      ∀ s ∈ doc.shards, ∃ l, s = some (some l) := by
  cases d with
  | none => left; rfl
  | some doc =>
    by_cases hu : docUsable doc = true
    · right
      refine ⟨doc, rfl, ?_⟩
      simp only [docUsable, Bool.and_eq_true, beq_iff_eq, List.all_eq_true] at hu
      refine ⟨hu.1.1, hu.1.2, ?_⟩
      intro s hs
      have := hu.2 s hs
      match s, this with
      | some (some l), _ => exact ⟨l, rfl⟩
    · left; simp [loadDoc, hu]

/-- **C11 (any content, only saved templates)**: every entry of the loaded cache is an entry of the document -/
theorem load_subset (d : Doc) : ∀ e ∈ loadDoc (some d), e ∈ docEntries d := by
  simp only [loadDoc]
  split
  · suffices ∀ (l : List (CKey × Template)) (acc : Cache),
        ∀ e ∈ l.foldl (fun c e => CacheFile.insertKey c e.1 e.2) acc, e ∈ l ∨ e ∈ acc by
      intro e he
      rcases this _ [] e he with h | h
      · exact h
      · cases h
    intro l
    induction l with
    | nil => intro acc e he; right; exact he
    | cons x xs ih =>
      intro acc e he
      rcases ih _ e he with h | h
      · left; exact List.mem_cons_of_mem _ h
      · unfold CacheFile.insertKey at h
        rcases List.mem_cons.mp h with h | h
        · left; rw [h]; exact List.mem_cons_self ..
        · right; exact (List.mem_filter.mp h).1
  · intro e he; cases he

/-- every entry of `docEntriesFrom i l` sits in one of the shards `i … i + l.length - 1` -/
theorem docEntriesFrom_shard (l : List DocShard) : ∀ (i : Nat), ∀ e ∈ docEntriesFrom i l, i ≤ e.1.1 ∧ e.1.1 < i + l.length := by
  induction l with
  | nil => intro i e he; cases he
  | cons s ss ih =>
    intro i e he
    simp only [docEntriesFrom, List.mem_append] at he
    rcases he with he | he
    · have : e.1.1 = i := by
        unfold shardEntries at he
        split at he
        · obtain ⟨x, _, rfl⟩ := List.mem_map.mp he; rfl
        · cases he
      simp only [List.length_cons]; omega
    · have := ih (i + 1) e he
      simp only [List.length_cons]; omega

/-- whatever is loaded lies in the 32 shards the decoders index (so `load_save` speaks about every key of a loaded cache) -/
theorem loadDoc_shard_lt (d : Doc) : ∀ e ∈ loadDoc (some d), e.1.1 < 32 := by
  intro e he
  have hm := load_subset d e he
  by_cases hu : docUsable d = true
  · simp only [docUsable, Bool.and_eq_true, beq_iff_eq] at hu
    have := (docEntriesFrom_shard d.shards 0 e hm).2
    omega
  · simp [loadDoc, hu] at he

/-! ## Upgrading: a file written before the K1 repair

The old code wrote the entries under the decimal text of the 32-bit hash (`map[uint32]Data`).  Such a file is still
valid input: `json.Unmarshal` binds the decimal strings as map keys, `valid()` accepts the document, the entries sit in
the cache (and are written back by every later `Dump`) — but no lookup ever asks for them: a key text built by
`getShard` for an address of 4 or more octets has at least 12 characters, the decimal text of a 32-bit number at most
10.  So after the upgrade every lookup answers as on a fresh cache and templates are learnt again from the exporters. -/

theorem natDigits_length_le : ∀ (k n : Nat), n < 10 ^ (k + 1) → (natDigits n).length ≤ k + 1
  | 0, n, h => by
    rw [natDigits]; simp only [Nat.zero_add, Nat.pow_one] at h; simp [h]
  | k+1, n, h => by
    rw [natDigits]
    split
    · simp
    · have : n / 10 < 10 ^ (k + 1) := by
        rw [Nat.div_lt_iff_lt_mul (by decide)]; rw [Nat.pow_succ] at h; exact h
      have := natDigits_length_le k (n / 10) this
      simp only [List.length_append, List.length_cons, List.length_nil]; omega

theorem hexBytes_length : ∀ (b : Bytes), (hexBytes b).length = 2 * b.length
  | [] => rfl
  | _ :: t => by simp only [hexBytes, List.length_cons, hexBytes_length t]; omega

/-- the decimal text of a 32-bit hash is never the key text of an (address, id) pair with an address of ≥ 4 octets -/
theorem old_key_never_cache_key (n : Nat) (hn : n < 4294967296) (i : Nat) (a : Bytes) (ha : 4 ≤ a.length) (id : Nat) :
    (i, natDigits n) ≠ cacheKey a id := by
  intro h
  have h2 := congrArg (fun k : CKey => k.2.length) h
  simp only [cacheKey, keyText, keyOctets, hexBytes_length, List.length_append, encBE_length] at h2
  have := natDigits_length_le 9 n (by omega)
  omega

/-- a document all of whose keys are decimal texts of 32-bit numbers (what the code before the repair wrote) -/
def OldFormat (d : Doc) : Prop := ∀ e ∈ docEntries d, ∃ n, n < 4294967296 ∧ e.1.2 = natDigits n

/-- **C11 (upgrade)**: loading a file of the old format gives a usable cache (`load_usable`) in which every lookup —
any exporter address of 4 or more octets (IPv4 and IPv6 addresses have 4 or 16), any template id — finds nothing: the
old entries are never used to decode, templates are learnt again -/
theorem load_old_format_lookup (d : Doc) (hold : OldFormat d) (a : Bytes) (ha : 4 ≤ a.length) (id : Nat) :
    (loadDoc (some d)).lookup a id = none := by
  simp only [Cache.lookup, Option.map_eq_none_iff, List.find?_eq_none]
  intro e he hk
  obtain ⟨n, hn, hkey⟩ := hold e (load_subset d e he)
  have hk' : e.1 = cacheKey a id := by simpa using hk
  apply old_key_never_cache_key n hn e.1.1 a ha id
  rw [← hkey, ← hk']

/-- unreadable / rejected file ⇒ fresh cache; inconsistent document ⇒ fresh cache -/
theorem load_rejected : loadDoc none = [] := rfl
theorem load_inconsistent (d : Doc) (h : docUsable d = false) : loadDoc (some d) = [] := by
  simp [loadDoc, h]

/-- **C11 (crash points, given rejection)**: if `encoding/json` rejects a file content, the result is the fresh
cache — for any file and any binding function.  *Partial* in that "rejected" is a premise; for the prefixes of
a dumped file the premise is now a theorem: see `load_prefix` below (`dump_prefix_rejected` + `bindFile`). -/
theorem load_prefix_partial (bind : Bytes → Option Doc) (file : Bytes) (n : Nat)
    (hrej : bind (file.take n) = none) : loadDoc (bind (file.take n)) = [] := by
  rw [hrej]; rfl

/-! ## Crash points: every proper prefix of the dumped file is rejected -/

/-- **RFC 8259 trees are accepted**: for every well-formed tree `j` (`Spec.WF`: numbers satisfy `isNumber`, string
bodies and keys `isStrBody`) whose brackets nest at most `maxNestingDepth` = 10000 deep — the limit of Go's
scanner, which `jsonValid` mirrors; beyond it Go rejects the text — the compact rendering is accepted by
`jsonValid` (the port of `json.Valid`) -/
theorem json_render_valid (j : Json) (hwf : WF j) (hd : JsonScan.depth j ≤ maxNestingDepth) :
    jsonValid (render j) = true :=
  JsonScan.render_valid j hwf hd

/-- **no proper prefix of a rendered object or array is accepted** (for scalars it is false: `1` is a prefix of `12`) -/
theorem json_render_prefix_rejected (j : Json) (hwf : WF j) (hd : JsonScan.depth j ≤ maxNestingDepth)
    (hc : JsonScan.isContainer j = true) (n : Nat) (hn : n < (render j).length) :
    jsonValid ((render j).take n) = false :=
  JsonScan.render_prefix_rejected j hwf hd hc n hn

/-- the scanner fact behind it, for any text: an accepted text that begins with `{` or `[` and does not end in
whitespace has no accepted proper prefix -/
theorem json_valid_prefix_rejected (d : Bytes) (c0 : UInt8) (t : Bytes) (hd : d = c0 :: t) (hc0 : c0 = 123 ∨ c0 = 91)
    (l : Bytes) (z : UInt8) (hlast : d = l ++ [z]) (hz : isSpace z = false) (hv : jsonValid d = true)
    (n : Nat) (hn : n < d.length) : jsonValid (d.take n) = false :=
  JsonScan.valid_prefix_rejected d c0 t hd hc0 l z hlast hz hv n hn

/-- the file with real timestamps is the rendering of a well-formed object tree (`JsonPrefix.dumpTree`), 8 deep at most -/
theorem dump_is_render (ipfix : Bool) (ts : CKey → Int) (c : Cache) :
    dumpJsonTs ipfix ts c = render (JsonPrefix.dumpTree ipfix ts c) ∧ WF (JsonPrefix.dumpTree ipfix ts c) ∧
      JsonScan.isContainer (JsonPrefix.dumpTree ipfix ts c) = true ∧ JsonScan.depth (JsonPrefix.dumpTree ipfix ts c) ≤ 8 :=
  ⟨JsonPrefix.dumpJsonTs_eq_render ipfix ts c, JsonPrefix.dumpTree_wf ipfix ts c, rfl, JsonPrefix.dumpTree_depth ipfix ts c⟩

/-- the canonical dump of the correspondence (`cf-dump` lines) is the one with all timestamps 0 -/
theorem dump_zero (ipfix : Bool) (c : Cache) : dumpJson ipfix c = dumpJsonTs ipfix (fun _ => 0) c :=
  JsonPrefix.dumpJsonTs_zero ipfix c

/-- **the file `Dump` writes is valid JSON**, for every cache and every timestamps (both protocols) -/
theorem dump_valid (ipfix : Bool) (ts : CKey → Int) (c : Cache) : jsonValid (dumpJsonTs ipfix ts c) = true :=
  JsonPrefix.dump_valid ipfix ts c

/-- **C11 (crash points)**: every proper prefix of the file `Dump` writes — whatever was written when the
collector was killed — is rejected by the JSON scanner -/
theorem dump_prefix_rejected (ipfix : Bool) (ts : CKey → Int) (c : Cache) (n : Nat)
    (h : n < (dumpJsonTs ipfix ts c).length) : jsonValid ((dumpJsonTs ipfix ts c).take n) = false :=
  JsonPrefix.dump_prefix_rejected ipfix ts c n h

/-- `GetCache` reads the file: `json.Unmarshal(b, &mem)` first runs the scanner over the WHOLE input and returns its
error without touching `mem` (`encoding/json/decode.go`, Go 1.23, `func Unmarshal`, lines 97–105:
`err := checkValid(data, &d.scan); if err != nil { return err }` — `checkValid` is also all that `json.Valid`
does, `scanner.go` lines 16–20 and 26–41); only an accepted text reaches the reflection-driven binding
`bindValid` (library code, not modelled: any function). -/
def bindFile (bindValid : Bytes → Option Doc) (bs : Bytes) : Option Doc :=
  if jsonValid bs then bindValid bs else none

/-- **C11 (crash points, restart)**: the collector killed at ANY point of writing the cache file comes up with a
fresh, usable cache at the next start — for every cache, every timestamps, every prefix length, both protocols,
and whatever the library's binding would make of a text -/
theorem load_prefix (bindValid : Bytes → Option Doc) (ipfix : Bool) (ts : CKey → Int) (c : Cache) (n : Nat)
    (h : n < (dumpJsonTs ipfix ts c).length) :
    loadDoc (bindFile bindValid ((dumpJsonTs ipfix ts c).take n)) = [] := by
  simp only [bindFile, dump_prefix_rejected ipfix ts c n h]
  rfl

/-- the complete file does reach the binding (so `load_save` applies to it when the binding yields `docOf c`) -/
theorem load_whole (bindValid : Bytes → Option Doc) (ipfix : Bool) (ts : CKey → Int) (c : Cache) :
    bindFile bindValid (dumpJsonTs ipfix ts c) = bindValid (dumpJsonTs ipfix ts c) := by
  simp only [bindFile, dump_valid ipfix ts c, if_true]

/-- the F9 witnesses are now loaded as fresh caches: `{"Cache":[],"ShardNo":32}`, a null shard, a shard without a map -/
example : loadDoc (some ⟨32, []⟩) = [] := by decide
example : loadDoc (some ⟨32, List.replicate 31 (some (some [])) ++ [none]⟩) = [] := by decide
example : loadDoc (some ⟨32, List.replicate 31 (some (some [])) ++ [some none]⟩) = [] := by decide
/-- non-vacuity of `load_save`: a two-template cache -/
def exCache : Cache :=
  Cache.insert (Cache.insert [] [10,0,0,1] 256 ⟨256, 1, 0, [], [⟨8, 4, 0⟩]⟩) [10,0,0,2] 300 ⟨300, 1, 0, [], [⟨1, 8, 0⟩]⟩
example : (exCache.map (·.1)).Nodup := by decide
example : (loadDoc (some (docOf exCache))).lookup [10,0,0,1] 256 = some ⟨256, 1, 0, [], [⟨8, 4, 0⟩]⟩ := by decide
/-- non-vacuity of the crash-point theorems on the same two-template cache (IPFIX, timestamps 1700000000 + key):
the recogniser, evaluated by the kernel, accepts the 960-octet file and rejects the file without its last octet,
the file cut inside the first template, and the empty file -/
def exTs : CKey → Int := fun k => 1700000000 + k.1
example : (dumpJsonTs true exTs exCache).length = 960 := by decide +kernel
example : jsonValid (dumpJsonTs true exTs exCache) = true := by decide +kernel
example : jsonValid ((dumpJsonTs true exTs exCache).take 959) = false := by decide +kernel
example : jsonValid ((dumpJsonTs true exTs exCache).take 300) = false := by decide +kernel
example : jsonValid ((dumpJsonTs false exTs exCache).take 0) = false := by decide +kernel
/-- non-vacuity of the upgrade theorem: the file the old code wrote for exporter 10.118.203.99 / template 1039 (hash
2885243512, shard 24) is of the old format, loads to a one-entry cache, and the lookup for that very exporter and id
finds nothing (`corpus/C11/*-cachefile--F26-old-format.txt` loads such files with the real `GetCache`) -/
def exOldDoc : Doc :=
  ⟨32, List.replicate 24 (some (some [])) ++ [some (some [(natDigits 2885243512, ⟨1039, 1, 0, [], [⟨8, 4, 0⟩]⟩)])] ++
    List.replicate 7 (some (some []))⟩
example : docEntries exOldDoc = [((24, natDigits 2885243512), ⟨1039, 1, 0, [], [⟨8, 4, 0⟩]⟩)] := by decide +kernel
example : OldFormat exOldDoc := by
  intro e he
  have : docEntries exOldDoc = [((24, natDigits 2885243512), ⟨1039, 1, 0, [], [⟨8, 4, 0⟩]⟩)] := by decide +kernel
  rw [this, List.mem_singleton] at he
  exact ⟨2885243512, by decide, by rw [he]⟩
example : loadDoc (some exOldDoc) = [((24, natDigits 2885243512), ⟨1039, 1, 0, [], [⟨8, 4, 0⟩]⟩)] := by decide +kernel
example : oldCacheKey [10, 118, 203, 99] 1039 = 2885243512 ∧ 2885243512 % 32 = 24 := by decide
example : (loadDoc (some exOldDoc)).lookup [10, 118, 203, 99] 1039 = none := by decide +kernel
/-- the scanner is not trivial: it accepts a text with whitespace, rejects a trailing comma and a second value -/
example : jsonValid (str " {\"a\" : [1.5e+3, null]}\n") = true := by decide +kernel
example : jsonValid (str "{\"a\":[1,]}") = false := by decide +kernel
example : jsonValid (str "{} {}") = false := by decide +kernel

end Vflow.C11
