import Vflow.Model.Options
import Vflow.Gen.OptionsTbl
/-!
# C17 — configuration sources are applied in the documented order
-/
namespace Vflow.C17
open Vflow Vflow.Options

/-- the statement order of `flagSet`, as extracted, is the canonical one -/
theorem gen_stages : Gen.OptionsTbl.stages = canonicalStages := by decide

end Vflow.C17
