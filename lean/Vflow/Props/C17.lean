import Vflow.Model.Options
import Vflow.Proofs.OptionsCfg
import Vflow.Proofs.OptionsCli
import Vflow.Gen.OptionsTbl
/-!
# C17 — configuration sources are applied in the documented order

`run tbl stages inp` interprets the statement order of `flagSet` (data, regenerated from the source)
over the raw inputs of a process.  The theorems hold for **every** option table `tbl`, every environment,
every file system content, every `os.Args`.
-/
namespace Vflow.C17
open Vflow Vflow.Options

/-- every flag of the table is registered with the field's current value as its default -/
def RegistersCurrent (tbl : List Row) : Prop := ∀ r ∈ tbl, r.fdef = .current ∨ r.fdef = .noflag

instance (tbl : List Row) : Decidable (RegistersCurrent tbl) := by unfold RegistersCurrent; infer_instance

theorem rowOf_mem {tbl : List Row} {f : String} {r : Row} (h : rowOf tbl f = some r) : r ∈ tbl :=
  List.mem_of_find?_eq_some h

/-- registering flags whose default is the current value changes no value -/
theorem register_current (tbl : List Row) (cur : Settings) (h : RegistersCurrent tbl) :
    apply cur (registerSource tbl cur) = cur := by
  funext f
  simp only [apply, registerSource]
  cases hr : rowOf tbl f with
  | none => simp
  | some r =>
    rcases h r (rowOf_mem hr) with h' | h' <;> simp [h']

/-- when the canonical stage list runs to completion, its result is the three sources applied in order, and
`flag.Parse` left no positional argument -/
theorem run_canonical (tbl : List Row) (inp : Inputs) (s : Settings) (hc : RegistersCurrent tbl)
    (h : run tbl canonicalStages inp = .ok s) :
    envFatal tbl inp.env = false ∧
    ∃ file l, cfgSource tbl inp = some file ∧
      parseArgs (configReg :: regsOf tbl) (inp.args.length + 1) inp.args = .ok l ∧
      strayArgs (configReg :: regsOf tbl) (inp.args.length + 1) inp.args = [] ∧
      s = apply (apply (apply (defaults tbl) (envSource tbl inp.env)) file) (lastOf l) := by
  simp only [run, canonicalStages, runFrom, step, Outcome.bind, List.nil_append] at h
  cases hf : envFatal tbl inp.env with
  | true => simp [hf] at h
  | false =>
    simp only [hf, Bool.false_eq_true, ↓reduceIte] at h
    cases hcfg : cfgSource tbl inp with
    | none => simp [hcfg] at h
    | some file =>
      simp only [hcfg] at h
      rw [register_current tbl _ hc] at h
      simp only [List.singleton_append] at h
      cases hp : parseArgs (configReg :: regsOf tbl) (inp.args.length + 1) inp.args with
      | ok l =>
        simp only [hp] at h
        cases hst : strayArgs (configReg :: regsOf tbl) (inp.args.length + 1) inp.args with
        | nil =>
          simp only [hst, List.isEmpty_nil, ↓reduceIte] at h
          refine ⟨rfl, file, l, rfl, rfl, rfl, ?_⟩
          injection h with h
          exact h.symm
        | cons a r => simp [hst] at h
      | exit c => simp [hp] at h
      | panic => simp [hp] at h

/-- three sources applied in the order environment, file, command line give the documented rule -/
theorem apply_three (d : Settings) (env file flags : Source) (f : String) :
    apply (apply (apply d env) file) flags f = resolve d env file flags f := by
  simp only [apply, resolve]
  cases flags f <;> cases file f <;> cases env f <;> rfl

/-- **C17 (precedence)**: for every option table whose flags are registered with the current value,
every environment, every file content and every command line: if option loading reaches the end of
`flagSet` (no `log.Fatal`, no flag error, `-config` / `--config` not the last word), every setting has the
value given on the command line if given there, otherwise the one in the file `loadCfg` locates (the first
word of `os.Args` that spells the config flag in any of the four ways package `flag` accepts —
`config_word_spec`, `precedence_spelling`, `precedence_config_flag` say which file that is) if present
there, otherwise the one of `VFLOW_<KEY>` if set and non-empty, otherwise the built-in default. -/
theorem precedence (tbl : List Row) (inp : Inputs) (s : Settings) (hc : RegistersCurrent tbl)
    (h : run tbl canonicalStages inp = .ok s) :
    ∃ file, cfgSource tbl inp = some file ∧
      ∀ f, s f = resolve (defaults tbl) (envSource tbl inp.env) file (flagSource tbl inp.args) f := by
  obtain ⟨_, file, l, hcfg, hp, _, hs⟩ := run_canonical tbl inp s hc h
  refine ⟨file, hcfg, fun f => ?_⟩
  rw [hs, apply_three]
  simp [flagSource, hp]

/-- **C17 (when loading completes)**: the canonical run ends in settings exactly when no environment
value is malformed, the first word spelling the config flag is not `-config` / `--config` as the last
word, the command line parses, and every word of it is a flag or the value of one (F31: `flag.Parse` leaves
no positional argument) -/
theorem run_ok_iff (tbl : List Row) (inp : Inputs) (hc : RegistersCurrent tbl) :
    (∃ s, run tbl canonicalStages inp = .ok s) ↔
      (envFatal tbl inp.env = false ∧ (cfgSource tbl inp).isSome ∧
       (∃ l, parseArgs (configReg :: regsOf tbl) (inp.args.length + 1) inp.args = .ok l) ∧
       strayArgs (configReg :: regsOf tbl) (inp.args.length + 1) inp.args = []) := by
  constructor
  · rintro ⟨s, h⟩
    obtain ⟨h1, file, l, h2, h3, h4, _⟩ := run_canonical tbl inp s hc h
    exact ⟨h1, by simp [h2], ⟨l, h3⟩, h4⟩
  · rintro ⟨h1, h2, ⟨l, h3⟩, h4⟩
    obtain ⟨file, h2⟩ := Option.isSome_iff_exists.mp h2
    refine ⟨apply (apply (apply (defaults tbl) (envSource tbl inp.env)) file) (lastOf l), ?_⟩
    simp only [run, canonicalStages, runFrom, step, Outcome.bind, List.nil_append, List.cons_append,
      h1, h2, Bool.false_eq_true, ↓reduceIte]
    rw [register_current tbl _ hc]
    simp [h3, h4]

/-! ## what each source provides (so that `precedence` is not about empty sources) -/

/-- a well-formed integer in `VFLOW_<KEY>` is provided by the environment source -/
theorem envSource_int (tbl : List Row) (env : String → String) (r : Row) (n : Int)
    (hr : rowOf tbl r.field = some r) (hk : r.kind = .int) (hy : r.yaml ≠ "")
    (hv : env (envName r.yaml) ≠ "") (hn : atoi (env (envName r.yaml)) = some n) :
    envSource tbl env r.field = some (.int n) := by
  simp [envSource, hr, envRow, hy, hv, hk, hn]

/-- a non-empty `VFLOW_<KEY>` of a string setting is taken as it is -/
theorem envSource_str (tbl : List Row) (env : String → String) (r : Row)
    (hr : rowOf tbl r.field = some r) (hk : r.kind = .str) (hy : r.yaml ≠ "")
    (hv : env (envName r.yaml) ≠ "") :
    envSource tbl env r.field = some (.str (env (envName r.yaml))) := by
  simp [envSource, hr, envRow, hy, hv, hk]

/-- an unset or empty variable provides nothing -/
theorem envSource_empty (tbl : List Row) (env : String → String) (r : Row)
    (hr : rowOf tbl r.field = some r) (hv : env (envName r.yaml) = "") :
    envSource tbl env r.field = none := by
  by_cases hy : r.yaml = "" <;> simp [envSource, hr, envRow, hy, hv]

/-- a file value of the field's own kind is provided by the file source -/
theorem fileSource_same (tbl : List Row) (m : String → Option Val) (r : Row) (v : Val)
    (hr : rowOf tbl r.field = some r) (hy : r.yaml ≠ "") (hm : m r.yaml = some v)
    (hk : coerce r.kind v = some v) :
    fileSource tbl m r.field = some v := by
  simp [fileSource, hr, hy, hm, hk]

/-- without a readable file named by the config flag (or the default path) the file source is empty -/
theorem cfgSource_absent (tbl : List Row) (inp : Inputs) (h : ∀ p, inp.readFile p = none) (src : Source)
    (hs : cfgSource tbl inp = some src) : ∀ f, src f = none := by
  intro f
  unfold cfgSource cfgSourceWith at hs
  split at hs
  · simp at hs
  · simp [fileAt, h] at hs; rw [← hs]
  · simp [fileAt, h] at hs; rw [← hs]

/-! ## which file: the spellings of the config flag (F22) -/

/-- **the spelling test of `loadCfg` is package `flag`'s**: `loadCfg` takes a word of `os.Args` for the
config flag (`-config`, `--config`: value in the next word; `-config=V`, `--config=V`: value `V`) exactly
when package `flag` reads that word as the flag `config` (`flagCfgWord`: one or two dashes, the name up to
the first `=`), with the same inline value — for every string. -/
theorem config_word_spec (s : String) : cfgWord s = flagCfgWord s := cfgWord_eq_flagCfgWord s

/-- the four ways package `flag` accepts the flag `config` with the value `p` -/
def cfgSpellings (p : String) : List (List String) :=
  [["-config", p], ["--config", p], ["-config=" ++ p], ["--config=" ++ p]]

theorem cfgWord_eq_spelling (pre : String) (p : String)
    (h : pre = "-config=" ∨ pre = "--config=") : cfgWord (pre ++ p) = some (some p) := by
  rw [cfgWord_eq_flagCfgWord]
  have := flagCfgWord_eq (s := pre ++ p) (v := p.toList)
    (by rcases h with h | h <;> subst h <;> simp [String.toList_append, cfgName] <;> rfl)
  rw [this, String.ofList_toList]

/-- `loadCfg` finds the path in each of the four spellings, wherever the flag stands, as long as no
earlier word spells the config flag -/
theorem findConfig_spelling (pre post : List String) (p : String) (w : List String) (hw : w ∈ cfgSpellings p)
    (hpre : ∀ x ∈ pre, cfgWord x = none) : findConfig (pre ++ w ++ post) = some (some p) := by
  induction pre with
  | nil =>
    simp only [cfgSpellings, List.mem_cons, List.not_mem_nil, or_false] at hw
    rcases hw with hw | hw | hw | hw <;> subst hw
    · have : cfgWord "-config" = some none := by decide
      simp [findConfig, this]
    · have : cfgWord "--config" = some none := by decide
      simp [findConfig, this]
    · simp [findConfig, cfgWord_eq_spelling "-config=" p (Or.inl rfl)]
    · simp [findConfig, cfgWord_eq_spelling "--config=" p (Or.inr rfl)]
  | cons a pre ih =>
    have ha : cfgWord a = none := hpre a (by simp)
    have := ih (fun x hx => hpre x (List.mem_cons_of_mem _ hx))
    simpa [findConfig, ha] using this

/-- **C17 for every spelling of the config flag**: whichever of `-config p`, `--config p`, `-config=p`,
`--config=p` the command line carries (anywhere, no earlier word spelling the config flag), the file
that takes part in the precedence is the one at `p`. -/
theorem precedence_spelling (tbl : List Row) (inp : Inputs) (s : Settings) (hc : RegistersCurrent tbl)
    (h : run tbl canonicalStages inp = .ok s)
    (pre post : List String) (p : String) (w : List String) (hw : w ∈ cfgSpellings p)
    (hargs : inp.arg0 :: inp.args = pre ++ w ++ post) (hpre : ∀ x ∈ pre, cfgWord x = none) :
    ∀ f, s f = resolve (defaults tbl) (envSource tbl inp.env) (fileAt tbl inp p) (flagSource tbl inp.args) f := by
  obtain ⟨file, hcfg, hs⟩ := precedence tbl inp s hc h
  have hfind := findConfig_spelling pre post p w hw hpre
  rw [← hargs] at hfind
  simp only [cfgSource, cfgSourceWith, hfind, Option.some.injEq] at hcfg
  rw [hcfg]; exact hs

/-- the values package `flag` assigns to its `config` variable, in command-line order -/
def flagConfigs (tbl : List Row) (args : List String) : List String :=
  match parseArgs (configReg :: regsOf tbl) (args.length + 1) args with
  | .ok l => cfgAssigns l
  | _ => []

/-- what `flag.Parse` leaves in the `config` variable: the last value given, else the registered default -/
def flagConfigPath (tbl : List Row) (args : List String) : String :=
  (flagConfigs tbl args).getLast?.getD defaultCfg

/-- `loadCfg` reads the first value package `flag` binds to `config` (else the default path), provided
every word of `os.Args` that spells the config flag is read by package `flag` as the config flag -/
theorem cfgSource_eq_first_flag_value (tbl : List Row) (inp : Inputs) (l : List (Option String × Val))
    (hp : parseArgs (configReg :: regsOf tbl) (inp.args.length + 1) inp.args = .ok l)
    (hw : cfgWords (inp.arg0 :: inp.args) = (cfgAssigns l).length) :
    cfgSource tbl inp = some (fileAt tbl inp ((cfgAssigns l).head?.getD defaultCfg)) := by
  have hregs := cfgRegs_table tbl
  have hle := cfgAssigns_le_cfgWords hregs _ _ _ hp
  have hfind : findConfig (inp.arg0 :: inp.args) = (cfgAssigns l).head?.map some := by
    cases h0 : cfgWord inp.arg0 with
    | none =>
      rw [cfgWords_cons_none h0] at hw
      rw [findConfig_cons_none h0]
      exact findConfig_eq_first_assign hregs _ _ _ hp hw
    | some x =>
      rw [cfgWords_cons_some h0] at hw
      omega
  simp only [cfgSource, cfgSourceWith, hfind]
  cases (cfgAssigns l).head? <;> rfl

/-- **C17 with the file package `flag` names**: if every word of `os.Args` that spells the config flag
is read by package `flag` as the config flag (as many such words as assignments to `config`: none is the
program name, the value of another flag, or behind the end of the flags) and the flag is given at most
once, the file that takes part in the precedence is the one whose path `flag.Parse` leaves in `config`
(the registered default `/etc/vflow/vflow.conf` when not given).  Both hypotheses are necessary:
`config_twice_counterexample`, `config_behind_terminator_counterexample`, `config_as_value_counterexample`. -/
theorem precedence_config_flag (tbl : List Row) (inp : Inputs) (s : Settings) (hc : RegistersCurrent tbl)
    (h : run tbl canonicalStages inp = .ok s)
    (hw : cfgWords (inp.arg0 :: inp.args) = (flagConfigs tbl inp.args).length)
    (h1 : (flagConfigs tbl inp.args).length ≤ 1) :
    ∀ f, s f = resolve (defaults tbl) (envSource tbl inp.env)
      (fileAt tbl inp (flagConfigPath tbl inp.args)) (flagSource tbl inp.args) f := by
  obtain ⟨_, file, l, hcfg, hp, _, _⟩ := run_canonical tbl inp s hc h
  obtain ⟨file', hcfg', hs⟩ := precedence tbl inp s hc h
  have hfc : flagConfigs tbl inp.args = cfgAssigns l := by simp [flagConfigs, hp]
  rw [hfc] at hw h1
  have := cfgSource_eq_first_flag_value tbl inp l hp hw
  rw [hcfg'] at this
  injection this with this
  have hpath : flagConfigPath tbl inp.args = (cfgAssigns l).head?.getD defaultCfg := by
    unfold flagConfigPath; rw [hfc]
    match hl : cfgAssigns l with
    | [] => rfl
    | [a] => rfl
    | a :: b :: r => rw [hl] at h1; simp at h1
  rw [hpath, ← this]; exact hs

/-! ## the other orders are wrong -/

/-- a one-row table: an integer setting `P` with yaml key/flag `p` -/
def tbl1 : List Row := [⟨"P", .int, "p", "p", .int 0, .current⟩]

/-- inputs: `VFLOW_P=1`, the file named by `-config c` says `p: 2`, no other argument -/
def inpEnvFile : Inputs :=
  { env := fun n => if n = "VFLOW_P" then "1" else "",
    readFile := fun p => if p = "c" then some (fun k => if k = "p" then some (.int 2) else none) else none,
    arg0 := "vflow", args := ["-config", "c"] }

/-- observed value of `P` after a run (`none` when the process ended early) -/
def valueOf (o : Outcome Settings) (f : String) : Option Val :=
  match o with
  | .ok s => some (s f)
  | _ => none

/-- non-vacuity of `precedence`: a concrete run completes; the file beats the environment -/
example : valueOf (run tbl1 canonicalStages inpEnvFile) "P" = some (.int 2) := by decide

/-- … with each of the four spellings of the config flag (non-vacuity of `precedence_spelling`) -/
example : (cfgSpellings "c").map (fun w => valueOf (run tbl1 canonicalStages { inpEnvFile with args := w }) "P")
    = [some (.int 2), some (.int 2), some (.int 2), some (.int 2)] := by decide

/-- non-vacuity of `precedence_config_flag`: its hypotheses hold for the four spellings, and the path is `c` -/
example : (cfgSpellings "c").all (fun w =>
    cfgWords ("vflow" :: w) == (flagConfigs tbl1 w).length && (flagConfigs tbl1 w).length == 1 &&
    flagConfigPath tbl1 w == "c") = true := by decide

/-- the scan of `os.Args` before the repair of F22: only the exact word `-config` -/
def findConfigOld : List String → Option (Option String)
  | [] => none
  | a :: rest => if a = "-config" then some rest.head? else findConfigOld rest

/-- **F22**: for `--config c`, `-config=c`, `--config=c` the old scan finds nothing — the file is ignored
and the environment value stands where the documented rule gives the file's — while package `flag` binds
`c` to `config` for all four; the repaired scan finds `c` for all four. -/
theorem old_locate_counterexample :
    (cfgSpellings "c").map (fun w => findConfigOld ("vflow" :: w)) = [some (some "c"), none, none, none] ∧
    (cfgSpellings "c").map (fun w => findConfig ("vflow" :: w))
      = [some (some "c"), some (some "c"), some (some "c"), some (some "c")] ∧
    (cfgSpellings "c").map (fun w => flagConfigPath tbl1 w) = ["c", "c", "c", "c"] ∧
    (cfgSpellings "c").map (fun w => (cfgSourceWith findConfigOld tbl1 { inpEnvFile with args := w }).map (· "P"))
      = [some (some (.int 2)), some none, some none, some none] ∧
    (cfgSpellings "c").map (fun w => (cfgSource tbl1 { inpEnvFile with args := w }).map (· "P"))
      = [some (some (.int 2)), some (some (.int 2)), some (some (.int 2)), some (some (.int 2))] := by decide

/-- `-config a -config c`: `loadCfg` reads the first (`a`), package `flag` keeps the last (`c`) -/
theorem config_twice_counterexample :
    findConfig ["vflow", "-config", "a", "-config", "c"] = some (some "a") ∧
    flagConfigPath tbl1 ["-config", "a", "-config", "c"] = "c" ∧
    cfgWords ["vflow", "-config", "a", "-config", "c"] = (flagConfigs tbl1 ["-config", "a", "-config", "c"]).length := by
  decide

/-- `-- -config c`: behind the end of the flags package `flag` does not read the word, `loadCfg` does -/
theorem config_behind_terminator_counterexample :
    findConfig ["vflow", "--", "-config", "c"] = some (some "c") ∧
    flagConfigPath tbl1 ["--", "-config", "c"] = defaultCfg ∧
    (flagConfigs tbl1 ["--", "-config", "c"]).length ≤ 1 := by decide

/-- `-l -config c` (`l` a string flag): `-config` is the value of `-l` for package `flag` (and `c` ends the
flags), `loadCfg` takes it for the config flag -/
theorem config_as_value_counterexample :
    findConfig ["vflow", "-l", "-config", "c"] = some (some "c") ∧
    flagConfigPath [⟨"L", .str, "l", "l", .str "", .current⟩] ["-l", "-config", "c"] = defaultCfg ∧
    flagSource [⟨"L", .str, "l", "l", .str "", .current⟩] ["-l", "-config", "c"] "L" = some (.str "-config") := by
  decide

/-- loading the file before the environment inverts the documented order (environment would beat the file) -/
theorem file_before_env_counterexample :
    valueOf (run tbl1 [.registerConfig, .file, .env, .register, .parse] inpEnvFile) "P" = some (.int 1) ∧
    resolve (defaults tbl1) (envSource tbl1 inpEnvFile.env)
      (fileSource tbl1 (fun k => if k = "p" then some (.int 2) else none)) (flagSource tbl1 inpEnvFile.args) "P"
      = .int 2 := by decide

/-- registering a flag with the built-in default instead of the current value discards environment and file -/
theorem register_builtin_counterexample :
    valueOf (run [⟨"P", .int, "p", "p", .int 0, .builtin⟩] canonicalStages inpEnvFile) "P" = some (.int 0) := by
  decide

/-- inputs: `-p 3` on the command line and `p: 2` in the file -/
def inpFileFlag : Inputs :=
  { env := fun _ => "",
    readFile := fun p => if p = "c" then some (fun k => if k = "p" then some (.int 2) else none) else none,
    arg0 := "vflow", args := ["-p", "3", "-config", "c"] }

example : valueOf (run tbl1 canonicalStages inpFileFlag) "P" = some (.int 3) := by decide

/-- loading the file after parsing the command line lets the file beat the command line -/
theorem file_after_parse_counterexample :
    valueOf (run tbl1 [.registerConfig, .env, .register, .parse, .file] inpFileFlag) "P" = some (.int 2) := by
  decide

/-- loading the environment after parsing lets the environment beat the command line -/
theorem env_after_parse_counterexample :
    valueOf (run tbl1 [.registerConfig, .file, .register, .parse, .env]
      { inpFileFlag with env := fun n => if n = "VFLOW_P" then "1" else "" }) "P" = some (.int 1) := by
  decide

/-! ## given on the command line: what it says, not what the parser reads (F31)

`precedence` takes the command line as the source `flagSource`, which is *defined by* the model of package
`flag`'s parser — and that parser stops at the first word that is neither a flag nor the value of one.
docs/config.md writes every key as `-key value`; for a boolean flag package `flag` never takes the next
word, so `-ipfix-enabled false -sflow-port 7000` set `ipfix-enabled` to true and dropped `-sflow-port 7000`
without a word (F31, `f31_counterexample`).  The theorems below take the command line as what it *says*:
`cliGiven` / `cliMentions` / `cliSource` (`Model/Options.lean`) read every `-key value`, `-key=value` and
bare boolean `-key` of the whole token list; nothing ends that reading.  Since the repair `flagSet` refuses
a command line on which `flag.Parse` leaves a positional argument (`Stage.refuseStray`, regenerated as the
last statement of `flagSet`: `gen_stages`), and on every other command line the two readings agree. -/

/-- the process does not reach the end of `flagSet`: it ends with a status (`log.Fatal`, a flag error, a
positional argument) or panics -/
def Refused (o : Outcome Settings) : Prop := ∀ s, o ≠ .ok s

/-- when option loading completes, package `flag` has read the command line as it is written:
`flagSource` (the parser's reading) is `cliSource` (every `-key value` of the whole token list) -/
theorem flagSource_eq_cliSource (tbl : List Row) (inp : Inputs) (s : Settings) (hc : RegistersCurrent tbl)
    (h : run tbl canonicalStages inp = .ok s) : flagSource tbl inp.args = cliSource tbl inp.args := by
  obtain ⟨_, _, l, _, hp, hst, _⟩ := run_canonical tbl inp s hc h
  rw [cliSource_eq_lastOf tbl inp.args l hp hst]
  simp [flagSource, hp]

/-- **C17 (precedence, the command line as it is written)**: for every option table whose flags are
registered with the current value, every environment, every file content and every command line: if option
loading reaches the end of `flagSet`, every setting has the value the command line *says* (`cliSource`:
the last `-key value` / `-key=value` / bare boolean `-key` naming its key anywhere on the command line — not
"what the parser got to"), otherwise the file's, otherwise the environment's, otherwise the built-in
default.  Same statement as `precedence` with the parser-defined source replaced by the written one; false
for `flagSet` before the repair of F31 (`f31_counterexample`). -/
theorem precedence_cli (tbl : List Row) (inp : Inputs) (s : Settings) (hc : RegistersCurrent tbl)
    (h : run tbl canonicalStages inp = .ok s) :
    ∃ file, cfgSource tbl inp = some file ∧
      ∀ f, s f = resolve (defaults tbl) (envSource tbl inp.env) file (cliSource tbl inp.args) f := by
  obtain ⟨file, hcfg, hs⟩ := precedence tbl inp s hc h
  refine ⟨file, hcfg, fun f => ?_⟩
  rw [hs f, flagSource_eq_cliSource tbl inp s hc h]

/-- **C17 (given or refused)**: for every option table (flags registered with the current value, field
names pairwise distinct), every environment, every file content and every argument list: either the
process refuses to start, or every key the command line mentions — `-k v` / `--k v` with `v` not spelt like
a flag, `-k=v`, a bare boolean `-k` (= `true`), a non-boolean `-k` with whatever word follows; the last
mention when there are several — is a registered key, the mentioned text is a value of its kind, and its
setting has exactly that value.  No word of the command line is silently dropped. -/
theorem cli_given_or_refused (tbl : List Row) (inp : Inputs) (hc : RegistersCurrent tbl)
    (hd : (tbl.map (·.field)).Nodup) :
    Refused (run tbl canonicalStages inp) ∨
    ∃ s, run tbl canonicalStages inp = .ok s ∧
      ∀ k v, cliMentions tbl inp.args k = some v →
        ∃ reg val, flagOf tbl k = some reg ∧ flagValue reg.kind v = some val ∧
          ∀ f, reg.target = some f → s f = val := by
  cases hrun : run tbl canonicalStages inp with
  | exit c => left; intro s hs; cases hs
  | panic => left; intro s hs; cases hs
  | ok s =>
    right
    refine ⟨s, rfl, fun k v hm => ?_⟩
    obtain ⟨_, file, l, _, hp, hst, hs⟩ := run_canonical tbl inp s hc hrun
    have hfull := parse_full (regs := configReg :: regsOf tbl) _ _ _ (Nat.lt_succ_self _) hp hst
    have hrev : (cliGiven (boolKey tbl) inp.args).reverse.map (assignOf (configReg :: regsOf tbl))
        = l.reverse.map some := by
      rw [List.map_reverse, List.map_reverse]
      exact congrArg List.reverse hfull
    unfold cliMentions at hm
    cases hfind : (cliGiven (boolKey tbl) inp.args).reverse.find? (fun p => p.1 = k) with
    | none => simp [hfind] at hm
    | some p =>
      simp only [hfind, Option.map_some, Option.some.injEq] at hm
      obtain ⟨reg, val, hr, hv, hl⟩ :=
        mention_assigned (keysToFields_table tbl hd) _ _ hrev k p hfind
      refine ⟨reg, val, hr, by rw [← hm]; exact hv, fun f hf => ?_⟩
      have hlast : lastOf l f = some val := hl f hf
      rw [hs]
      simp [apply, hlast]

/-- the audit's command line: the documented `-key value` form for a boolean, a flag behind it -/
def inpF31 : Inputs :=
  { env := fun _ => "", readFile := fun _ => none, arg0 := "vflow",
    args := ["-ipfix-enabled", "false", "-sflow-port", "7000"] }

/-- the outcome is a refusal with this exit status -/
def exitsWith (o : Outcome Settings) (c : Nat) : Bool :=
  match o with
  | .exit c' => c' == c
  | _ => false

/-- **F31**: `vflow -ipfix-enabled false -sflow-port 7000`, real option table.  The command line says
`ipfix-enabled` = `false` and `sflow-port` = `7000`.  `flagSet` before the repair (`stagesBeforeF31`: nothing
behind `flag.Parse()`) reached its end — the process started — with `IPFIXEnabled = true` and `SFlowPort` at
its built-in 6343: `false` was the first positional argument and ended the parsing, what `flag.Parse` left is
`["false", "-sflow-port", "7000"]`.  So `precedence_cli` and `cli_given_or_refused` are false of the old
stage list, while `precedence` (parser-defined source) held of it: the parser's `flagSource` gives
`sflow-port` nothing.  The repaired `flagSet` refuses the command line (`exit 2`). -/
theorem f31_counterexample :
    cliMentions Gen.OptionsTbl.rows inpF31.args "ipfix-enabled" = some "false" ∧
    cliMentions Gen.OptionsTbl.rows inpF31.args "sflow-port" = some "7000" ∧
    cliSource Gen.OptionsTbl.rows inpF31.args "SFlowPort" = some (.int 7000) ∧
    flagSource Gen.OptionsTbl.rows inpF31.args "SFlowPort" = none ∧
    valueOf (run Gen.OptionsTbl.rows stagesBeforeF31 inpF31) "SFlowPort" = some (.int 6343) ∧
    valueOf (run Gen.OptionsTbl.rows stagesBeforeF31 inpF31) "IPFIXEnabled" = some (.bool true) ∧
    strayArgs (configReg :: regsOf Gen.OptionsTbl.rows) 5 inpF31.args = ["false", "-sflow-port", "7000"] ∧
    exitsWith (run Gen.OptionsTbl.rows canonicalStages inpF31) 2 = true := by decide

/-- the reading of the command line ends nowhere: a stray word, `--`, a boolean in both forms, a negative number -/
example : cliGiven (boolKey Gen.OptionsTbl.rows)
      ["stray", "-sflow-port", "-5", "--", "-verbose", "--ipfix-enabled", "0", "-mqueue=nsq", "-", "-netflow9-enabled"]
    = [("sflow-port", "-5"), ("verbose", "true"), ("ipfix-enabled", "0"), ("mqueue", "nsq"), ("netflow9-enabled", "true")] := by
  decide

/-- non-vacuity of `cli_given_or_refused` / `precedence_cli` (second alternative): `-key=value` for the
boolean, a bare boolean in front of a flag, `--` as the last word — the process starts, and the mentioned
keys have the mentioned values -/
example :
    let args := ["-ipfix-enabled=false", "-verbose", "-sflow-port", "7000", "--"]
    let o := run Gen.OptionsTbl.rows canonicalStages { inpF31 with args := args }
    (cliMentions Gen.OptionsTbl.rows args "ipfix-enabled", cliMentions Gen.OptionsTbl.rows args "verbose",
      cliMentions Gen.OptionsTbl.rows args "sflow-port") = (some "false", some "true", some "7000") ∧
    (valueOf o "IPFIXEnabled", valueOf o "Verbose", valueOf o "SFlowPort")
      = (some (.bool false), some (.bool true), some (.int 7000)) := by decide

/-- … (first alternative) a stray word, words behind `--`, a lone `-`, a boolean followed by a word that is
no boolean: refused with status 2, wherever the word stands -/
example : [["stray", "-sflow-port", "7000"], ["-sflow-port", "7000", "stray"], ["--", "-sflow-port", "7000"],
      ["-", "-sflow-port", "7000"], ["-verbose", "maybe"], ["-verbose", "true", "-ipfix-workers", "20"]].all
    (fun args => exitsWith (run Gen.OptionsTbl.rows canonicalStages { inpF31 with args := args }) 2) = true := by
  decide

/-! ## the generated facts (re-checked against the source on every run) -/

/-- the statement order of `flagSet`, as extracted, is the canonical one — its last statement, behind
`flag.Parse()`, is `if flag.NArg() > 0 { fmt.Fprintf(os.Stderr, …); os.Exit(2) }` (F31: without it, or with it
anywhere else, this obligation fails) -/
theorem gen_stages : Gen.OptionsTbl.stages = canonicalStages := by decide

/-- every flag is registered with `opts.F` itself as the default -/
theorem gen_registers_current : RegistersCurrent Gen.OptionsTbl.rows := by decide

/-- `GetOptions` starts with `NewOptions()` followed by `flagSet()` -/
theorem gen_get_options : Gen.OptionsTbl.getOptionsHead = ["opts := NewOptions()", "opts.flagSet()"] := by decide

/-- nothing in the anchored declarations was left unrecognised; `getEnv`/`loadCfg` have the transcribed shape -/
theorem gen_recognised : Gen.OptionsTbl.unrecognised = [] ∧ Gen.OptionsTbl.getEnvShape = true ∧
    Gen.OptionsTbl.loadCfgShape = true := by decide

def kindOfVal : Val → Kind
  | .int _ => .int | .str _ => .str | .bool _ => .bool

/-- every row is an int/string/bool setting whose default has the row's kind; every setting with a yaml
key has a flag (bound to the same field, hence of the same kind) -/
theorem gen_rows_wellformed :
    Gen.OptionsTbl.rows.all (fun r => kindOfVal r.dflt == r.kind && (r.yaml == "" || r.flag != "")) = true := by
  decide

/-- field names, yaml keys and flag names are pairwise distinct -/
theorem gen_rows_distinct :
    (Gen.OptionsTbl.rows.map (·.field)).Nodup ∧
    ((Gen.OptionsTbl.rows.map (·.yaml)).filter (· ≠ "")).Nodup ∧
    ((Gen.OptionsTbl.rows.map (·.flag)).filter (· ≠ "")).Nodup := by decide

/-- every flag name is a word package `flag` can read as a flag: not empty, no leading `-` or `=`, no `=` inside -/
theorem gen_key_shape : Gen.OptionsTbl.rows.all (fun r => r.flag == "" || keyShape r.flag) = true := by decide

/-- **how the keys of the real table are spelt on the command line** (what `cliGiven` takes for a mention of
the key): `-name`, `--name`, `-name=v`, `--name=v`, for every flag of the table and every text `v` -/
theorem gen_key_spellings (r : Row) (hr : r ∈ Gen.OptionsTbl.rows) (hf : r.flag ≠ "") :
    wordOf ("-" ++ r.flag) = .flag r.flag none ∧ wordOf ("--" ++ r.flag) = .flag r.flag none ∧
    ∀ v : String, wordOf ("-" ++ r.flag ++ "=" ++ v) = .flag r.flag (some v) ∧
      wordOf ("--" ++ r.flag ++ "=" ++ v) = .flag r.flag (some v) := by
  have h := List.all_eq_true.mp gen_key_shape r hr
  simp only [Bool.or_eq_true, beq_iff_eq, hf, false_or] at h
  exact wordOf_key h

/-- the only field of another type carrying a yaml key is the list-valued `sflow-type-filter` (out of scope) -/
theorem gen_other_fields : Gen.OptionsTbl.otherFields =
    ["Logger *log.Logger ", "SFlowTypeFilter arrUInt32Flags sflow-type-filter"] := by decide

/-- the sources on the real table, concretely: `-sflow-port 99 --verbose -mqueue=nsq` sets three settings … -/
example : (flagSource Gen.OptionsTbl.rows ["-sflow-port", "99", "--verbose", "-mqueue=nsq"] "SFlowPort",
           flagSource Gen.OptionsTbl.rows ["-sflow-port", "99", "--verbose", "-mqueue=nsq"] "Verbose",
           flagSource Gen.OptionsTbl.rows ["-sflow-port", "99", "--verbose", "-mqueue=nsq"] "MQName",
           flagSource Gen.OptionsTbl.rows ["-sflow-port", "99", "--verbose", "-mqueue=nsq"] "IPFIXPort")
    = (some (.int 99), some (.bool true), some (.str "nsq"), none) := by decide

/-- … and the environment variable of `ipfix-mirror-port` is `VFLOW_IPFIX_MIRROR_PORT` -/
example : envName "ipfix-mirror-port" = "VFLOW_IPFIX_MIRROR_PORT" ∧
    envSource Gen.OptionsTbl.rows (fun n => if n = "VFLOW_IPFIX_MIRROR_PORT" then "4000" else "") "IPFIXMirrorPort"
      = some (.int 4000) := by decide

/-- **C17 for the code as it is**: `precedence` instantiated with the regenerated table and stage order -/
theorem precedence_generated (inp : Inputs) (s : Settings)
    (h : run Gen.OptionsTbl.rows Gen.OptionsTbl.stages inp = .ok s) :
    ∃ file, cfgSource Gen.OptionsTbl.rows inp = some file ∧
      ∀ f, s f = resolve (defaults Gen.OptionsTbl.rows) (envSource Gen.OptionsTbl.rows inp.env) file
        (flagSource Gen.OptionsTbl.rows inp.args) f := by
  rw [gen_stages] at h
  exact precedence _ inp s gen_registers_current h

/-- **C17 for the code as it is, the command line as it is written**: `precedence_cli` instantiated with the
regenerated table and stage order (whose last statement is the refusal of a positional argument) -/
theorem precedence_generated_cli (inp : Inputs) (s : Settings)
    (h : run Gen.OptionsTbl.rows Gen.OptionsTbl.stages inp = .ok s) :
    ∃ file, cfgSource Gen.OptionsTbl.rows inp = some file ∧
      ∀ f, s f = resolve (defaults Gen.OptionsTbl.rows) (envSource Gen.OptionsTbl.rows inp.env) file
        (cliSource Gen.OptionsTbl.rows inp.args) f := by
  rw [gen_stages] at h
  exact precedence_cli _ inp s gen_registers_current h

/-- **C17 for the code as it is, given or refused**: `cli_given_or_refused` instantiated with the regenerated
table and stage order -/
theorem cli_given_or_refused_generated (inp : Inputs) :
    Refused (run Gen.OptionsTbl.rows Gen.OptionsTbl.stages inp) ∨
    ∃ s, run Gen.OptionsTbl.rows Gen.OptionsTbl.stages inp = .ok s ∧
      ∀ k v, cliMentions Gen.OptionsTbl.rows inp.args k = some v →
        ∃ reg val, flagOf Gen.OptionsTbl.rows k = some reg ∧ flagValue reg.kind v = some val ∧
          ∀ f, reg.target = some f → s f = val := by
  rw [gen_stages]
  exact cli_given_or_refused _ inp gen_registers_current gen_rows_distinct.1

/-- **C17 for the code as it is, every spelling of the config flag**: `precedence_spelling` instantiated
with the regenerated table and stage order -/
theorem precedence_generated_spelling (inp : Inputs) (s : Settings)
    (h : run Gen.OptionsTbl.rows Gen.OptionsTbl.stages inp = .ok s)
    (pre post : List String) (p : String) (w : List String) (hw : w ∈ cfgSpellings p)
    (hargs : inp.arg0 :: inp.args = pre ++ w ++ post) (hpre : ∀ x ∈ pre, cfgWord x = none) :
    ∀ f, s f = resolve (defaults Gen.OptionsTbl.rows) (envSource Gen.OptionsTbl.rows inp.env)
      (fileAt Gen.OptionsTbl.rows inp p) (flagSource Gen.OptionsTbl.rows inp.args) f := by
  rw [gen_stages] at h
  exact precedence_spelling _ inp s gen_registers_current h pre post p w hw hargs hpre

/-- **C17 for the code as it is, with the file package `flag` names**: `precedence_config_flag`
instantiated with the regenerated table and stage order -/
theorem precedence_generated_config_flag (inp : Inputs) (s : Settings)
    (h : run Gen.OptionsTbl.rows Gen.OptionsTbl.stages inp = .ok s)
    (hw : cfgWords (inp.arg0 :: inp.args) = (flagConfigs Gen.OptionsTbl.rows inp.args).length)
    (h1 : (flagConfigs Gen.OptionsTbl.rows inp.args).length ≤ 1) :
    ∀ f, s f = resolve (defaults Gen.OptionsTbl.rows) (envSource Gen.OptionsTbl.rows inp.env)
      (fileAt Gen.OptionsTbl.rows inp (flagConfigPath Gen.OptionsTbl.rows inp.args))
      (flagSource Gen.OptionsTbl.rows inp.args) f := by
  rw [gen_stages] at h
  exact precedence_config_flag _ inp s gen_registers_current h hw h1

end Vflow.C17
