import Vflow.Model.Options
import Vflow.Gen.OptionsTbl
/-!
# C17 — configuration sources are applied in the documented order

`run tbl stages inp` interprets the statement order of `flagSet` (data, regenerated from the source)
over the raw inputs of a process.  The theorems hold for **every** option table `tbl`, every environment,
every file system content, every `os.Args`.
-/
namespace Vflow.C17
open Vflow Vflow.Options

/-- every flag of the table is registered with the field's current value as its default -/
def RegistersCurrent (tbl : List Row) : Prop := ∀ r ∈ tbl, r.fdef = .current ∨ r.fdef = .noflag

instance (tbl : List Row) : Decidable (RegistersCurrent tbl) := by unfold RegistersCurrent; infer_instance

theorem rowOf_mem {tbl : List Row} {f : String} {r : Row} (h : rowOf tbl f = some r) : r ∈ tbl :=
  List.mem_of_find?_eq_some h

/-- registering flags whose default is the current value changes no value -/
theorem register_current (tbl : List Row) (cur : Settings) (h : RegistersCurrent tbl) :
    apply cur (registerSource tbl cur) = cur := by
  funext f
  simp only [apply, registerSource]
  cases hr : rowOf tbl f with
  | none => simp
  | some r =>
    rcases h r (rowOf_mem hr) with h' | h' <;> simp [h']

/-- when the canonical stage list runs to completion, its result is the three sources applied in order -/
theorem run_canonical (tbl : List Row) (inp : Inputs) (s : Settings) (hc : RegistersCurrent tbl)
    (h : run tbl canonicalStages inp = .ok s) :
    envFatal tbl inp.env = false ∧
    ∃ file l, cfgSource tbl inp = some file ∧
      parseArgs (configReg :: regsOf tbl) (inp.args.length + 1) inp.args = .ok l ∧
      s = apply (apply (apply (defaults tbl) (envSource tbl inp.env)) file) (lastOf l) := by
  simp only [run, canonicalStages, runFrom, step, Outcome.bind, List.nil_append] at h
  cases hf : envFatal tbl inp.env with
  | true => simp [hf] at h
  | false =>
    simp only [hf, Bool.false_eq_true, ↓reduceIte] at h
    cases hcfg : cfgSource tbl inp with
    | none => simp [hcfg] at h
    | some file =>
      simp only [hcfg] at h
      rw [register_current tbl _ hc] at h
      simp only [List.singleton_append] at h
      cases hp : parseArgs (configReg :: regsOf tbl) (inp.args.length + 1) inp.args with
      | ok l =>
        simp only [hp] at h
        refine ⟨rfl, file, l, rfl, rfl, ?_⟩
        injection h with h
        exact h.symm
      | exit c => simp [hp] at h
      | panic => simp [hp] at h

/-- three sources applied in the order environment, file, command line give the documented rule -/
theorem apply_three (d : Settings) (env file flags : Source) (f : String) :
    apply (apply (apply d env) file) flags f = resolve d env file flags f := by
  simp only [apply, resolve]
  cases flags f <;> cases file f <;> cases env f <;> rfl

/-- **C17 (precedence)**: for every option table whose flags are registered with the current value,
every environment, every file content and every command line: if option loading reaches the end of
`flagSet` (no `log.Fatal`, no flag error, `-config` not the last word), every setting has the value
given on the command line if given there, otherwise the one in the file named by `-config` if present
there, otherwise the one of `VFLOW_<KEY>` if set and non-empty, otherwise the built-in default. -/
theorem precedence (tbl : List Row) (inp : Inputs) (s : Settings) (hc : RegistersCurrent tbl)
    (h : run tbl canonicalStages inp = .ok s) :
    ∃ file, cfgSource tbl inp = some file ∧
      ∀ f, s f = resolve (defaults tbl) (envSource tbl inp.env) file (flagSource tbl inp.args) f := by
  obtain ⟨_, file, l, hcfg, hp, hs⟩ := run_canonical tbl inp s hc h
  refine ⟨file, hcfg, fun f => ?_⟩
  rw [hs, apply_three]
  simp [flagSource, hp]

/-- **C17 (when loading completes)**: the canonical run ends in settings exactly when no environment
value is malformed, `-config` is not the last word and the command line parses -/
theorem run_ok_iff (tbl : List Row) (inp : Inputs) (hc : RegistersCurrent tbl) :
    (∃ s, run tbl canonicalStages inp = .ok s) ↔
      (envFatal tbl inp.env = false ∧ (cfgSource tbl inp).isSome ∧
       ∃ l, parseArgs (configReg :: regsOf tbl) (inp.args.length + 1) inp.args = .ok l) := by
  constructor
  · rintro ⟨s, h⟩
    obtain ⟨h1, file, l, h2, h3, _⟩ := run_canonical tbl inp s hc h
    exact ⟨h1, by simp [h2], l, h3⟩
  · rintro ⟨h1, h2, l, h3⟩
    obtain ⟨file, h2⟩ := Option.isSome_iff_exists.mp h2
    refine ⟨apply (apply (apply (defaults tbl) (envSource tbl inp.env)) file) (lastOf l), ?_⟩
    simp only [run, canonicalStages, runFrom, step, Outcome.bind, List.nil_append, List.cons_append,
      h1, h2, Bool.false_eq_true, ↓reduceIte]
    rw [register_current tbl _ hc]
    simp [h3]

/-! ## what each source provides (so that `precedence` is not about empty sources) -/

/-- a well-formed integer in `VFLOW_<KEY>` is provided by the environment source -/
theorem envSource_int (tbl : List Row) (env : String → String) (r : Row) (n : Int)
    (hr : rowOf tbl r.field = some r) (hk : r.kind = .int) (hy : r.yaml ≠ "")
    (hv : env (envName r.yaml) ≠ "") (hn : atoi (env (envName r.yaml)) = some n) :
    envSource tbl env r.field = some (.int n) := by
  simp [envSource, hr, envRow, hy, hv, hk, hn]

/-- a non-empty `VFLOW_<KEY>` of a string setting is taken as it is -/
theorem envSource_str (tbl : List Row) (env : String → String) (r : Row)
    (hr : rowOf tbl r.field = some r) (hk : r.kind = .str) (hy : r.yaml ≠ "")
    (hv : env (envName r.yaml) ≠ "") :
    envSource tbl env r.field = some (.str (env (envName r.yaml))) := by
  simp [envSource, hr, envRow, hy, hv, hk]

/-- an unset or empty variable provides nothing -/
theorem envSource_empty (tbl : List Row) (env : String → String) (r : Row)
    (hr : rowOf tbl r.field = some r) (hv : env (envName r.yaml) = "") :
    envSource tbl env r.field = none := by
  by_cases hy : r.yaml = "" <;> simp [envSource, hr, envRow, hy, hv]

/-- a file value of the field's own kind is provided by the file source -/
theorem fileSource_same (tbl : List Row) (m : String → Option Val) (r : Row) (v : Val)
    (hr : rowOf tbl r.field = some r) (hy : r.yaml ≠ "") (hm : m r.yaml = some v)
    (hk : coerce r.kind v = some v) :
    fileSource tbl m r.field = some v := by
  simp [fileSource, hr, hy, hm, hk]

/-- without a readable file named by `-config` (or the default path) the file source is empty -/
theorem cfgSource_absent (tbl : List Row) (inp : Inputs) (h : ∀ p, inp.readFile p = none) (src : Source)
    (hs : cfgSource tbl inp = some src) : ∀ f, src f = none := by
  intro f
  unfold cfgSource at hs
  split at hs
  · simp at hs
  · simp [h] at hs; rw [← hs]
  · simp [h] at hs; rw [← hs]

/-! ## the other orders are wrong -/

/-- a one-row table: an integer setting `P` with yaml key/flag `p` -/
def tbl1 : List Row := [⟨"P", .int, "p", "p", .int 0, .current⟩]

/-- inputs: `VFLOW_P=1`, the file named by `-config c` says `p: 2`, no other argument -/
def inpEnvFile : Inputs :=
  { env := fun n => if n = "VFLOW_P" then "1" else "",
    readFile := fun p => if p = "c" then some (fun k => if k = "p" then some (.int 2) else none) else none,
    arg0 := "vflow", args := ["-config", "c"] }

/-- observed value of `P` after a run (`none` when the process ended early) -/
def valueOf (o : Outcome Settings) (f : String) : Option Val :=
  match o with
  | .ok s => some (s f)
  | _ => none

/-- non-vacuity of `precedence`: a concrete run completes; the file beats the environment -/
example : valueOf (run tbl1 canonicalStages inpEnvFile) "P" = some (.int 2) := by decide

/-- loading the file before the environment inverts the documented order (environment would beat the file) -/
theorem file_before_env_counterexample :
    valueOf (run tbl1 [.registerConfig, .file, .env, .register, .parse] inpEnvFile) "P" = some (.int 1) ∧
    resolve (defaults tbl1) (envSource tbl1 inpEnvFile.env)
      (fileSource tbl1 (fun k => if k = "p" then some (.int 2) else none)) (flagSource tbl1 inpEnvFile.args) "P"
      = .int 2 := by decide

/-- registering a flag with the built-in default instead of the current value discards environment and file -/
theorem register_builtin_counterexample :
    valueOf (run [⟨"P", .int, "p", "p", .int 0, .builtin⟩] canonicalStages inpEnvFile) "P" = some (.int 0) := by
  decide

/-- inputs: `-p 3` on the command line and `p: 2` in the file -/
def inpFileFlag : Inputs :=
  { env := fun _ => "",
    readFile := fun p => if p = "c" then some (fun k => if k = "p" then some (.int 2) else none) else none,
    arg0 := "vflow", args := ["-p", "3", "-config", "c"] }

example : valueOf (run tbl1 canonicalStages inpFileFlag) "P" = some (.int 3) := by decide

/-- loading the file after parsing the command line lets the file beat the command line -/
theorem file_after_parse_counterexample :
    valueOf (run tbl1 [.registerConfig, .env, .register, .parse, .file] inpFileFlag) "P" = some (.int 2) := by
  decide

/-- loading the environment after parsing lets the environment beat the command line -/
theorem env_after_parse_counterexample :
    valueOf (run tbl1 [.registerConfig, .file, .register, .parse, .env]
      { inpFileFlag with env := fun n => if n = "VFLOW_P" then "1" else "" }) "P" = some (.int 1) := by
  decide

/-! ## the generated facts (re-checked against the source on every run) -/

/-- the statement order of `flagSet`, as extracted, is the canonical one -/
theorem gen_stages : Gen.OptionsTbl.stages = canonicalStages := by decide

/-- every flag is registered with `opts.F` itself as the default -/
theorem gen_registers_current : RegistersCurrent Gen.OptionsTbl.rows := by decide

/-- `GetOptions` starts with `NewOptions()` followed by `flagSet()` -/
theorem gen_get_options : Gen.OptionsTbl.getOptionsHead = ["opts := NewOptions()", "opts.flagSet()"] := by decide

/-- nothing in the anchored declarations was left unrecognised; `getEnv`/`loadCfg` have the transcribed shape -/
theorem gen_recognised : Gen.OptionsTbl.unrecognised = [] ∧ Gen.OptionsTbl.getEnvShape = true ∧
    Gen.OptionsTbl.loadCfgShape = true := by decide

def kindOfVal : Val → Kind
  | .int _ => .int | .str _ => .str | .bool _ => .bool

/-- every row is an int/string/bool setting whose default has the row's kind; every setting with a yaml
key has a flag (bound to the same field, hence of the same kind) -/
theorem gen_rows_wellformed :
    Gen.OptionsTbl.rows.all (fun r => kindOfVal r.dflt == r.kind && (r.yaml == "" || r.flag != "")) = true := by
  decide

/-- field names, yaml keys and flag names are pairwise distinct -/
theorem gen_rows_distinct :
    (Gen.OptionsTbl.rows.map (·.field)).Nodup ∧
    ((Gen.OptionsTbl.rows.map (·.yaml)).filter (· ≠ "")).Nodup ∧
    ((Gen.OptionsTbl.rows.map (·.flag)).filter (· ≠ "")).Nodup := by decide

/-- the only field of another type carrying a yaml key is the list-valued `sflow-type-filter` (out of scope) -/
theorem gen_other_fields : Gen.OptionsTbl.otherFields =
    ["Logger *log.Logger ", "SFlowTypeFilter arrUInt32Flags sflow-type-filter"] := by decide

/-- the sources on the real table, concretely: `-sflow-port 99 --verbose -mqueue=nsq` sets three settings … -/
example : (flagSource Gen.OptionsTbl.rows ["-sflow-port", "99", "--verbose", "-mqueue=nsq"] "SFlowPort",
           flagSource Gen.OptionsTbl.rows ["-sflow-port", "99", "--verbose", "-mqueue=nsq"] "Verbose",
           flagSource Gen.OptionsTbl.rows ["-sflow-port", "99", "--verbose", "-mqueue=nsq"] "MQName",
           flagSource Gen.OptionsTbl.rows ["-sflow-port", "99", "--verbose", "-mqueue=nsq"] "IPFIXPort")
    = (some (.int 99), some (.bool true), some (.str "nsq"), none) := by decide

/-- … and the environment variable of `ipfix-mirror-port` is `VFLOW_IPFIX_MIRROR_PORT` -/
example : envName "ipfix-mirror-port" = "VFLOW_IPFIX_MIRROR_PORT" ∧
    envSource Gen.OptionsTbl.rows (fun n => if n = "VFLOW_IPFIX_MIRROR_PORT" then "4000" else "") "IPFIXMirrorPort"
      = some (.int 4000) := by decide

/-- **C17 for the code as it is**: `precedence` instantiated with the regenerated table and stage order -/
theorem precedence_generated (inp : Inputs) (s : Settings)
    (h : run Gen.OptionsTbl.rows Gen.OptionsTbl.stages inp = .ok s) :
    ∃ file, cfgSource Gen.OptionsTbl.rows inp = some file ∧
      ∀ f, s f = resolve (defaults Gen.OptionsTbl.rows) (envSource Gen.OptionsTbl.rows inp.env) file
        (flagSource Gen.OptionsTbl.rows inp.args) f := by
  rw [gen_stages] at h
  exact precedence _ inp s gen_registers_current h

end Vflow.C17
