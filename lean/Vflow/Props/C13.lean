import Vflow.Proofs.PipelineAcct
import Vflow.Gen.WorkerIR
import Vflow.Props.C08
import Vflow.Model.Ipfix
import Vflow.Model.V9
/-!
# C13 — each received datagram is accounted for and published at most once

Same model as C12 (`Vflow.Pipeline`), with the ghost event log: `received d`, `countUDP id`
(`UDPCount++`), `decoded id cache result`, `countDecoded id` (`DecodedCount++`), `published id payload`
(the non-blocking MQ enqueue found room), `dropped id payload` (it did not). `nK k log id` counts the
events of kind `k` about datagram `id`: 0 countUDP, 1 decoded, 2 countDecoded, 3 publish attempt
(published or dropped).

All theorems: ANY number of workers, ANY datagram sequence, EVERY schedule (`Reach`), every `Canonical`
worker program; `spec` is the code's own notion of "decoded" (`.onMsg`: ipfix / v9 / v5 count when
`Decode` returned a message; `.onYield`: sFlow counts when the datagram decoded, has a sample and
marshalled) — the obligations at the end check the extracted programs against it.

For NetFlow v5 the two notions coincide since the F29 repair (`v5_counted_iff_decodes`): the decoder model
returns a message **or** an error, never both (`V5.decode : Except V5Err Msg`), and it returns a message
exactly for the datagrams that hold a version-5 header with a count in 1..30 and all announced records
(`C08.decode_ok_iff`).  Before the repair `type nonfatalError error` made `Decode` hand out the header
together with the error for a datagram shorter than announced, and `DecodedCount` counted it.
-/
namespace Vflow.C13
open Vflow Vflow.Pipeline

variable {K : Codec} {cfg : Cfg} {spec : CountSpec}

/-- the counts of a received datagram, by where it currently is -/
theorem counts_by_place (hc : Canonical spec cfg.prog) {c : K.Cache} {mem0 : BufId → Bytes} {s : State K}
    (hr : Reach cfg (init K c mem0) s) (d : Dgram) (hd : Event.received d ∈ s.log) :
    (nK 0 s.log d.id = 0 ∧ (∃ b, s.rx = .read b d) ∨ nK 0 s.log d.id = 1) ∧
    nK 1 s.log d.id ≤ 1 ∧ nK 2 s.log d.id ≤ 1 ∧ nK 3 s.log d.id ≤ 1 := by
  obtain ⟨hinv, hacct, _⟩ := reach_all (spec := spec) hc hr
  rcases hacct.place d hd with ⟨b, hrx | hrx⟩ | ⟨b, hq⟩ | ⟨i, w, hi, hw⟩ | hf
  · obtain ⟨h0, h1, h2, h3⟩ := hacct.rxR b d hrx
    exact ⟨.inl ⟨h0, b, hrx⟩, by omega, by omega, by omega⟩
  · obtain ⟨h0, h1, h2, h3⟩ := hacct.rxC b d hrx
    exact ⟨.inr h0, by omega, by omega, by omega⟩
  · obtain ⟨h0, h1, h2, h3⟩ := hacct.qA b d hq
    exact ⟨.inr h0, by omega, by omega, by omega⟩
  · obtain ⟨h0, h1, h2, h3⟩ := hacct.wA i w hi d hw
    rcases hinv.wk i w hi with ⟨_, hcn⟩ | ⟨a, hsim, _⟩
    · rw [hcn] at hw; simp at hw
    · have e1 := hsim.cnt_dec; have e2 := hsim.cnt_cnt; have e3 := hsim.cnt_pub
      refine ⟨.inr h0, ?_, ?_, ?_⟩
      · rw [h1, e1]; split <;> omega
      · rw [h2, e2]; split <;> omega
      · rw [h3, e3]; split <;> omega
  · obtain ⟨_, c', _, h0, h1, h2, h3⟩ := hacct.finA d hf
    refine ⟨.inr h0, by omega, ?_, ?_⟩
    · rw [h2]; split <;> omega
    · rw [h3]; split <;> omega

/-- **C13 (accounted for)**: every received datagram is, in every reachable state, in exactly one of:
the read loop (read, not yet enqueued), the UDP channel, one worker, or finished — it is never lost
and never duplicated (`drefs` counts the places with multiplicity) -/
theorem received_is_somewhere (hc : Canonical spec cfg.prog) {c : K.Cache} {mem0 : BufId → Bytes} {s : State K}
    (hr : Reach cfg (init K c mem0) s) (d : Dgram) (hd : Event.received d ∈ s.log) :
    inPlace s d ∧ drefs s d.id ≤ 1 :=
  let h := reach_all (spec := spec) hc hr
  ⟨h.2.1.place d hd, h.2.1.dlive d.id⟩

/-- **C13 (UDPCount)**: each received datagram contributes exactly one `countUDP` — none only while the
read loop is between `ReadFromUDP` and the increment —, and the counter is the number of such events -/
theorem countUDP_exactly_once (hc : Canonical spec cfg.prog) {c : K.Cache} {mem0 : BufId → Bytes} {s : State K}
    (hr : Reach cfg (init K c mem0) s) (d : Dgram) (hd : Event.received d ∈ s.log) :
    nK 0 s.log d.id ≤ 1 ∧ ((∀ b, s.rx ≠ .read b d) → nK 0 s.log d.id = 1) ∧
    s.udpCount = s.log.countP isCountUDP := by
  have h := (counts_by_place hc hr d hd).1
  refine ⟨by rcases h with ⟨h, _⟩ | h <;> omega, ?_, (reach_all (spec := spec) hc hr).2.1.totU⟩
  intro hn
  rcases h with ⟨_, b, hb⟩ | h
  · exact absurd hb (hn b)
  · exact h

/-- **C13 (at most once)**: in every reachable state each received datagram has been decoded at most
once, counted in `DecodedCount` at most once, and handed to the MQ channel at most once (attempts,
successful or not) -/
theorem at_most_once (hc : Canonical spec cfg.prog) {c : K.Cache} {mem0 : BufId → Bytes} {s : State K}
    (hr : Reach cfg (init K c mem0) s) (d : Dgram) (hd : Event.received d ∈ s.log) :
    nK 1 s.log d.id ≤ 1 ∧ nK 2 s.log d.id ≤ 1 ∧ nK 3 s.log d.id ≤ 1 ∧
    s.decCount = s.log.countP isCountDecoded :=
  let h := counts_by_place hc hr d hd
  ⟨h.2.1, h.2.2.1, h.2.2.2, (reach_all (spec := spec) hc hr).2.1.totD⟩

/-- **C13 (exactly once iff)**: once the worker's iteration for datagram `d` is over (`d ∈ fin`): one
`countUDP`; decoded exactly once, under some cache `c`, with result `r = decode c addr octets` of its
own octets; exactly one `countDecoded` iff `r` counts by the code's own notion (`counts`), else none;
exactly one publish attempt iff `r` has data and marshals (`outcome`), else none -/
theorem finished_account (hc : Canonical spec cfg.prog) {c : K.Cache} {mem0 : BufId → Bytes} {s : State K}
    (hr : Reach cfg (init K c mem0) s) (d : Dgram) (hf : d ∈ s.fin) :
    Event.received d ∈ s.log ∧
    ∃ c', Event.decoded d.id c' (K.decode c' d.addr d.bytes).1 ∈ s.log ∧
      nK 0 s.log d.id = 1 ∧ nK 1 s.log d.id = 1 ∧
      nK 2 s.log d.id = (if counts K spec (K.decode c' d.addr d.bytes).1 = true then 1 else 0) ∧
      nK 3 s.log d.id = (if (outcome K (K.decode c' d.addr d.bytes).1).isSome = true then 1 else 0) :=
  (reach_all (spec := spec) hc hr).2.1.finA d hf

/-- **C13 (queue not full at that step)**: a publish attempt is recorded as `published` only by a step
that finds room on the MQ channel, and as `dropped` only by a step that finds it full — so a datagram
that yields a payload is published exactly once iff the queue is not full at that step -/
theorem attempt_outcome {s s' : State K} (hs : Step cfg s s') (id : Nat) (p : Bytes) :
    (Event.published id p ∈ s'.log → Event.published id p ∈ s.log ∨ s.mq.length < cfg.mqCap) ∧
    (Event.dropped id p ∈ s'.log → Event.dropped id p ∈ s.log ∨ cfg.mqCap ≤ s.mq.length) :=
  ⟨published_only_with_room hs id p, dropped_only_when_full hs id p⟩

/-- **C13 (belongs)**: every published payload belongs to a received datagram and is its solo result;
and what was handed to the MQ channel is exactly what is queued there plus what its consumer has read -/
theorem published_belongs (hc : Canonical spec cfg.prog) {c : K.Cache} {mem0 : BufId → Bytes} {s : State K}
    (hr : Reach cfg (init K c mem0) s) :
    (∀ id p, (id, p) ∈ pubList s.log → Sol s.log id p) ∧
    pubList s.log = (s.mq.reverse.map itemPair) ++ s.delivered := by
  obtain ⟨hinv, _, hpub⟩ := reach_all (spec := spec) hc hr
  exact ⟨fun id p h => hinv.pubOk id p (mem_pubList.mp h), hpub⟩

/-- quiescence: the read loop is between datagrams, the UDP channel is empty, no worker is in the
middle of an iteration -/
def Quiescent (s : State K) : Prop :=
  (s.rx = .idle ∨ ∃ b, s.rx = .got b) ∧ s.udpq = [] ∧
  ∀ (i : Nat) (w : Worker K), s.workers[i]? = some w → w.cur = none

theorem quiescent_fin (hc : Canonical spec cfg.prog) {c : K.Cache} {mem0 : BufId → Bytes} {s : State K}
    (hr : Reach cfg (init K c mem0) s) (hq : Quiescent s) (d : Dgram) (hd : Event.received d ∈ s.log) :
    d ∈ s.fin := by
  obtain ⟨_, hacct, _⟩ := reach_all (spec := spec) hc hr
  obtain ⟨hrx, hu, hw⟩ := hq
  rcases hacct.place d hd with ⟨b, h | h⟩ | ⟨b, h⟩ | ⟨i, w, hi, h⟩ | hf
  · rcases hrx with e | ⟨b', e⟩ <;> rw [e] at h <;> simp at h
  · rcases hrx with e | ⟨b', e⟩ <;> rw [e] at h <;> simp at h
  · rw [hu] at h; simp at h
  · rw [hw i w hi] at h; simp at h
  · exact hf

/-- **C13 (quiescence)**: at quiescence, if the MQ channel was never found full, the published
messages are exactly the solo results of the received datagrams that yield one: for every received
datagram `d` there is the cache `c'` under which it was (once) decoded, a message with id `d.id` and
payload `p` was published iff `p` is `marshal (decode c' addr octets)` of `d`'s own octets (message with
data that marshals), and at most one message carries `d.id`; every published message carries the id
of a received datagram (`published_belongs`). Together with `countUDP_exactly_once` and
`finished_account` the counters are `UDPCount = #received`, `DecodedCount = #{d | counts d}`. -/
theorem quiescent_published_exact (hc : Canonical spec cfg.prog) {c : K.Cache} {mem0 : BufId → Bytes}
    {s : State K} (hr : Reach cfg (init K c mem0) s) (hq : Quiescent s)
    (hnd : ∀ id p, Event.dropped id p ∉ s.log) (d : Dgram) (hd : Event.received d ∈ s.log) :
    ∃ c', Event.decoded d.id c' (K.decode c' d.addr d.bytes).1 ∈ s.log ∧
      (∀ p, (d.id, p) ∈ pubList s.log ↔ outcome K (K.decode c' d.addr d.bytes).1 = some p) ∧
      ((pubList s.log).map (·.1)).count d.id ≤ 1 := by
  obtain ⟨hinv, hacct, _⟩ := reach_all (spec := spec) hc hr
  have hru := reach_recvUniq hr
  have hf := quiescent_fin hc hr hq d hd
  obtain ⟨_, c', hdec, h0, h1, h2, h3⟩ := hacct.finA d hf
  have hfwd : ∀ p, (d.id, p) ∈ pubList s.log → outcome K (K.decode c' d.addr d.bytes).1 = some p := by
    intro p hp
    obtain ⟨d2, c2, r1, r2, r3, r4⟩ := hinv.pubOk d.id p (mem_pubList.mp hp)
    have : d2 = d := hru.2 d2 d r1 hd r2
    subst this
    have he := uniq_of_countP_le_one (p := fun e => tag e == some (1, d2.id)) (l := s.log)
      (by have : nK 1 s.log d2.id = 1 := h1
          simp only [nK] at this; omega) r3 hdec (by simp [tag]) (by simp [tag])
    simp at he
    rw [← he.1]; exact r4
  refine ⟨c', hdec, fun p => ⟨hfwd p, ?_⟩, ?_⟩
  · intro hp
    -- the datagram yields: there is exactly one attempt, and it was not dropped
    rw [hp] at h3
    simp at h3
    have hpos : 0 < s.log.countP (fun e => tag e == some (3, d.id)) := by
      have : nK 3 s.log d.id = 1 := h3
      simp only [nK] at this; omega
    obtain ⟨e, he, hte⟩ := List.countP_pos_iff.mp hpos
    cases e <;> simp [tag] at hte
    · rename_i id' p'
      subst hte
      have hm : (d.id, p') ∈ pubList s.log := mem_pubList.mpr he
      have := hfwd p' hm
      rw [hp] at this; simp at this; subst this
      exact hm
    · rename_i id' p'
      exact absurd he (hnd _ _)
  · have := count_pubList_le s.log d.id
    have h3' : nK 3 s.log d.id ≤ 1 := by rw [h3]; split <;> omega
    omega

/-! ## the tie to the current source (regenerated facts) -/

/-- obligation: ipfix / v9 / v5 workers count and publish each datagram exactly as `.onMsg` says -/
theorem head_workers_canonical :
    Canonical .onMsg Gen.ipfixWorker ∧ Canonical .onMsg Gen.netflowV9Worker ∧
    Canonical .onMsg Gen.netflowV5Worker := by decide
/-- obligation: the sFlow worker counts and publishes each datagram exactly as `.onYield` says -/
theorem sFlowWorker_canonical : Canonical .onYield Gen.sFlowWorker := by decide
/-- obligation: the four read loops count each datagram once, before enqueueing it, and all that follows the
loop in `run()` is the reader closing its own UDP channel (`canonicalRxTail`: nothing is counted or enqueued after the loop) -/
theorem readloops_canonical :
    Gen.ipfixRun = canonicalRx ∧ Gen.netflowV9Run = canonicalRx ∧ Gen.netflowV5Run = canonicalRx ∧
    Gen.sFlowRun = canonicalRx ∧
    Gen.ipfixRunTail = canonicalRxTail ∧ Gen.netflowV9RunTail = canonicalRxTail ∧
    Gen.netflowV5RunTail = canonicalRxTail ∧ Gen.sFlowRunTail = canonicalRxTail := by decide

/-! ## NetFlow v5: "counted as decoded" is "decodes successfully" (F29) -/

/-- the NetFlow v5 instance of the pipeline's codec parameter: `Decode` of `Vflow.V5` (no template cache; `none`
= `(nil, err)`), the worker's `Flows != nil` test, `JSONMarshal` (never fails) -/
def v5Codec : Codec where
  Cache := Unit
  Msg := V5.Msg
  decode := fun _ addr bs =>
    (match V5.decode bs with
     | .ok m => some m
     | .error _ => none, ())
  hasData := fun m => !m.flows.isEmpty
  marshal := fun m => some (V5.marshal [] m)

/-- **C13 (NetFlow v5, exactly once as decoded iff it decodes successfully)**: for every number of workers, every
datagram sequence and every schedule of the extracted `netflowV5Worker` (any `.onMsg`-canonical program), a
datagram whose iteration is over has been counted in `DecodedCount` exactly once if it holds a header with
version 5, a count in 1..30 and all `24 + 48·Count` octets, and not at all otherwise — in particular not when it
is 1..47 octets short of what its header announces (the F29 input) -/
theorem v5_counted_iff_decodes (hc : Canonical .onMsg cfg.prog) {mem0 : BufId → Bytes} {s : State v5Codec}
    (hr : Reach cfg (init v5Codec () mem0) s) (d : Dgram) (hf : d ∈ s.fin) :
    nK 2 s.log d.id =
      (if 24 ≤ d.bytes.length ∧ V5.fieldAt (Spec.valuesAt (V5.widths Spec.v5Header) d.bytes) 0 = 5 ∧
          1 ≤ V5.fieldAt (Spec.valuesAt (V5.widths Spec.v5Header) d.bytes) 1 ∧
          V5.fieldAt (Spec.valuesAt (V5.widths Spec.v5Header) d.bytes) 1 ≤ 30 ∧
          24 + 48 * V5.fieldAt (Spec.valuesAt (V5.widths Spec.v5Header) d.bytes) 1 ≤ d.bytes.length
       then 1 else 0) := by
  obtain ⟨_, c', _, _, _, h2, _⟩ := finished_account (spec := .onMsg) hc hr d hf
  rw [h2]
  have hiff := C08.decode_ok_iff d.bytes
  have hcnt : counts v5Codec .onMsg (v5Codec.decode c' d.addr d.bytes).1 = true ↔ ∃ m, V5.decode d.bytes = .ok m := by
    simp only [counts, v5Codec]
    cases V5.decode d.bytes with
    | ok m => simp
    | error e => simp
  by_cases hok : ∃ m, V5.decode d.bytes = .ok m
  · rw [if_pos (hcnt.mpr hok), if_pos (hiff.mp hok)]
  · rw [if_neg (fun h => hok (hcnt.mp h)), if_neg (fun h => hok (hiff.mpr h))]

/-- non-vacuity: the one-flow datagram of `Props/C08` counts as decoded and yields a payload; cut one octet
short it does neither (before the F29 repair it counted) -/
example :
    counts v5Codec .onMsg (v5Codec.decode () [] C08.exPacket).1 = true ∧
    (outcome v5Codec (v5Codec.decode () [] C08.exPacket).1).isSome = true ∧
    counts v5Codec .onMsg (v5Codec.decode () [] (C08.exPacket.take 71)).1 = false ∧
    outcome v5Codec (v5Codec.decode () [] (C08.exPacket.take 71)).1 = none := by decide +kernel

/-! ## IPFIX and NetFlow v9: counted iff `Decode` returned a message, offered iff it holds a record -/


/-- the message a worker holds after `Decode`: `none` = `(nil, err)` -/
def msgOf (addr : Bytes) : Except Err (Hdr × List Record × List Err) → Option (Bytes × Hdr × List Record)
  | .ok (h, recs, _) => some (addr, h, recs)
  | .error _ => none

/-- the pipeline's codec parameter for a flow decoder `dec` with template cache (IPFIX, NetFlow v9): a message iff `Decode`
returned one, the worker's data-set test, a `JSONMarshal` that never fails -/
def flowCodec (dec : Cache → Bytes → Bytes → Except Err (Hdr × List Record × List Err) × Cache)
    (mar : Bytes → Hdr → List Record → Bytes) : Codec where
  Cache := Cache
  Msg := Bytes × Hdr × List Record
  decode := fun c addr bs => (msgOf addr (dec c addr bs).1, (dec c addr bs).2)
  hasData := fun m => !m.2.2.isEmpty
  marshal := fun m => some (mar m.1 m.2.1 m.2.2)

/-- how often a finished datagram is counted as decoded / offered to the queue, by what its decode returned -/
def decodedTimes : Except Err (Hdr × List Record × List Err) → Nat
  | .ok _ => 1 | .error _ => 0
def offeredTimes : Except Err (Hdr × List Record × List Err) → Nat
  | .ok (_, [], _) => 0 | .ok _ => 1 | .error _ => 0

theorem msgOf_counts (addr : Bytes) (r : Except Err (Hdr × List Record × List Err)) :
    (if (msgOf addr r).isSome = true then 1 else 0) = decodedTimes r := by
  cases r with
  | ok m => obtain ⟨h, recs, es⟩ := m; simp [msgOf, decodedTimes]
  | error e => simp [msgOf, decodedTimes]

theorem msgOf_offered (mar : Bytes → Hdr → List Record → Bytes) (addr : Bytes)
    (r : Except Err (Hdr × List Record × List Err)) :
    (if ((msgOf addr r).bind fun m => if (!m.2.2.isEmpty) = true then some (mar m.1 m.2.1 m.2.2) else none).isSome = true
      then 1 else 0) = offeredTimes r := by
  cases r with
  | ok m => obtain ⟨h, recs, es⟩ := m; cases recs <;> simp [msgOf, offeredTimes]
  | error e => simp [msgOf, offeredTimes]

theorem flowCodec_counts (dec : Cache → Bytes → Bytes → Except Err (Hdr × List Record × List Err) × Cache)
    (mar : Bytes → Hdr → List Record → Bytes) (c' : Cache) (addr bs : Bytes) :
    (if counts (flowCodec dec mar) .onMsg ((flowCodec dec mar).decode c' addr bs).1 = true then 1 else 0) =
      decodedTimes (dec c' addr bs).1 := msgOf_counts addr _

theorem flowCodec_offered (dec : Cache → Bytes → Bytes → Except Err (Hdr × List Record × List Err) × Cache)
    (mar : Bytes → Hdr → List Record → Bytes) (c' : Cache) (addr bs : Bytes) :
    (if (outcome (flowCodec dec mar) ((flowCodec dec mar).decode c' addr bs).1).isSome = true then 1 else 0) =
      offeredTimes (dec c' addr bs).1 := msgOf_offered mar addr _

/-- **C13 (IPFIX / NetFlow v9 shape, in the property's words)**: for every number of workers, every datagram sequence and
every schedule of an `.onMsg`-canonical worker program, a datagram whose iteration is over was counted once as received
and — with `c'` the template cache in force when it was decoded — counted as decoded exactly once if `Decode` returned
a message and not at all if it returned an error; and offered to the outgoing queue exactly once if that message holds
at least one record, not at all otherwise: a template-only datagram, a datagram whose sets are all unknown, and an
undecodable one give rise to no message (the seed C13-i published the worker's previous payload for the first kind). -/
theorem flow_counted_and_offered
    (dec : Cache → Bytes → Bytes → Except Err (Hdr × List Record × List Err) × Cache)
    (mar : Bytes → Hdr → List Record → Bytes)
    (hc : Canonical .onMsg cfg.prog) {c : Cache} {mem0 : BufId → Bytes} {s : State (flowCodec dec mar)}
    (hr : Reach cfg (init (flowCodec dec mar) c mem0) s) (d : Dgram) (hf : d ∈ s.fin) :
    nK 0 s.log d.id = 1 ∧
    ∃ c' : Cache, nK 2 s.log d.id = decodedTimes (dec c' d.addr d.bytes).1 ∧
      nK 3 s.log d.id = offeredTimes (dec c' d.addr d.bytes).1 := by
  obtain ⟨_, c', _, h0, _, h2, h3⟩ := finished_account (spec := .onMsg) hc hr d hf
  exact ⟨h0, c', h2.trans (flowCodec_counts dec mar c' d.addr d.bytes),
    h3.trans (flowCodec_offered dec mar c' d.addr d.bytes)⟩

/-- the IPFIX instance (`Ipfix.decode`, any marshal function) -/
theorem ipfix_counted_and_offered (mar : Bytes → Hdr → List Record → Bytes)
    (hc : Canonical .onMsg cfg.prog) {c : Cache} {mem0 : BufId → Bytes} {s : State (flowCodec Ipfix.decode mar)}
    (hr : Reach cfg (init (flowCodec Ipfix.decode mar) c mem0) s) (d : Dgram) (hf : d ∈ s.fin) :
    nK 0 s.log d.id = 1 ∧
    ∃ c' : Cache, nK 2 s.log d.id = decodedTimes (Ipfix.decode c' d.addr d.bytes).1 ∧
      nK 3 s.log d.id = offeredTimes (Ipfix.decode c' d.addr d.bytes).1 :=
  flow_counted_and_offered Ipfix.decode mar hc hr d hf

/-- the NetFlow v9 instance -/
theorem v9_counted_and_offered (mar : Bytes → Hdr → List Record → Bytes)
    (hc : Canonical .onMsg cfg.prog) {c : Cache} {mem0 : BufId → Bytes} {s : State (flowCodec V9.decode mar)}
    (hr : Reach cfg (init (flowCodec V9.decode mar) c mem0) s) (d : Dgram) (hf : d ∈ s.fin) :
    nK 0 s.log d.id = 1 ∧
    ∃ c' : Cache, nK 2 s.log d.id = decodedTimes (V9.decode c' d.addr d.bytes).1 ∧
      nK 3 s.log d.id = offeredTimes (V9.decode c' d.addr d.bytes).1 :=
  flow_counted_and_offered V9.decode mar hc hr d hf


set_option maxRecDepth 20000 in
/-- non-vacuity: a template-only message is counted and not offered; the data message for it is not offered before the
template is known (no record) and offered after; a malformed message is neither counted nor offered -/
example :
    let tmpl : Bytes := [0,10,0,28, 0,0,0,0, 0,0,0,1, 0,0,0,0, 0,2,0,12, 1,0,0,1, 0,4,0,1]
    let data : Bytes := [0,10,0,21, 0,0,0,0, 0,0,0,2, 0,0,0,0, 1,0,0,5, 17]
    let bad : Bytes := [0,10,0,20,0,0,0,0,0,0,0,1,0,0,0,0,1,0,0,3,9,9]
    let c1 := (Ipfix.decode [] [10,0,0,1] tmpl).2
    (decodedTimes (Ipfix.decode [] [10,0,0,1] tmpl).1, offeredTimes (Ipfix.decode [] [10,0,0,1] tmpl).1) = (1, 0) ∧
    (decodedTimes (Ipfix.decode [] [10,0,0,1] data).1, offeredTimes (Ipfix.decode [] [10,0,0,1] data).1) = (1, 0) ∧
    (decodedTimes (Ipfix.decode c1 [10,0,0,1] data).1, offeredTimes (Ipfix.decode c1 [10,0,0,1] data).1) = (1, 1) ∧
    (decodedTimes (Ipfix.decode c1 [10,0,0,1] bad).1, offeredTimes (Ipfix.decode c1 [10,0,0,1] bad).1) = (0, 0) := by
  refine ⟨by rfl, by rfl, by rfl, by rfl⟩

/-! ## non-vacuity and mutants -/

/-- a toy codec: decodes iff non-empty, has data iff longer than one octet, marshals (to the reversal)
iff the first octet is not 255 -/
def toy : Codec where
  Cache := Unit
  Msg := Bytes
  decode := fun _ _ bs => (if bs.isEmpty then none else some bs, ())
  hasData := fun m => decide (1 < m.length)
  marshal := fun m => if m.head? = some 255 then none else some m.reverse

def feed (addr bytes : Bytes) : List Action := [.rxGetNew, .rxRead (some (addr, bytes)), .rxCount, .rxEnqueue]
def works (i n : Nat) : List Action := List.replicate n (.work i false none)

/-- non-vacuity (ipfix shape): four datagrams — yields / template-only / undecodable / marshal error —
two workers; quiescent at the end; UDPCount 4, DecodedCount 3, one message published -/
example :
    let s := run (K := toy) { prog := Gen.ipfixWorker } (init toy () (fun _ => []))
      ([.spawn none, .spawn none] ++ feed [1] [10, 11] ++ feed [1] [7] ++ feed [2] [] ++ feed [2] [255, 1] ++
       works 0 20 ++ works 1 20 ++ works 0 20 ++ works 1 20)
    s.udpCount = 4 ∧ s.decCount = 3 ∧ pubList s.log = [(0, [11, 10])] ∧ s.fin.length = 4 ∧
    s.udpq = [] ∧ s.rx = .idle ∧ s.workers.all (fun w => w.cur.isNone) = true := by decide

/-- non-vacuity (sFlow shape): the same traffic; DecodedCount counts only what is published -/
example :
    let s := run (K := toy) { prog := Gen.sFlowWorker } (init toy () (fun _ => []))
      ([.spawn none, .spawn none] ++ feed [1] [10, 11] ++ feed [1] [7] ++ feed [2] [] ++ feed [2] [255, 1] ++
       works 0 20 ++ works 1 20 ++ works 0 20 ++ works 1 20)
    s.udpCount = 4 ∧ s.decCount = 1 ∧ pubList s.log = [(0, [11, 10])] ∧ s.fin.length = 4 := by decide

/-- a full MQ channel: the second message is dropped, not published (capacity 1, no consumer) -/
example :
    let s := run (K := toy) { prog := Gen.ipfixWorker, mqCap := 1 } (init toy () (fun _ => []))
      ([.spawn none] ++ feed [1] [10, 11] ++ feed [1] [20, 21] ++ works 0 40)
    pubList s.log = [(0, [11, 10])] ∧ nK 3 s.log 1 = 1 ∧ s.decCount = 2 := by decide

def dropCount (p : Prog) : Prog := { p with loop := p.loop.filter (· ≠ .countDecoded) }
def dupInstr (x : Instr) (p : Prog) : Prog := { p with loop := p.loop.flatMap (fun i => if i = x then [i, i] else [i]) }
def dropDataTest (p : Prog) : Prog := { p with loop := p.loop.filter (· ≠ .contIf .noData false) }

/-- mutants: dropping the increment, incrementing twice, publishing twice, publishing without the
data test are all rejected by `Canonical` -/
theorem mutants_not_canonical :
    ¬ Canonical .onMsg (dropCount Gen.ipfixWorker) ∧
    ¬ Canonical .onMsg (dupInstr .countDecoded Gen.ipfixWorker) ∧
    ¬ Canonical .onMsg (dupInstr .publishCopy Gen.ipfixWorker) ∧
    ¬ Canonical .onMsg (dropDataTest Gen.ipfixWorker) ∧
    ¬ Canonical .onYield (dropCount Gen.sFlowWorker) ∧
    ¬ Canonical .onYield (dupInstr .publishCopy Gen.sFlowWorker) := by
  decide

end Vflow.C13
