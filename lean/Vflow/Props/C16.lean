import Vflow.Model.Mirror
import Vflow.Proofs.Mirror
import Vflow.Gen.MirrorFacts
/-!
# C16 — mirrored datagrams reach the third-party collector unchanged

`assembleFrom sport max src dst port payload` is the first iteration, `mirrorSeq … msgs` a whole life, of `mirrorIPFIX` (`sport` = 55117) /
`mirrorSFlow` (55118) for an IPv4 target, as the code is after the `fix:` commit for F13.
The theorems quantify over every payload, every maximum, every IPv4 source in 4-octet or IPv4-mapped
16-octet form, every IPv4 target (either form) and every port.

Bound stated: the IPv4 total-length field has 16 bits, so `28 + length ≤ 65535` is required (beyond it
`SetLen` wraps around, see `total_length_wraps`); it holds whenever `max ≤ 65507`, the largest UDP payload.
Checksums: the code leaves the IPv4 header checksum 0 (the kernel fills it in on a raw socket) and the UDP
checksum 0 (= none, legal over IPv4); the model has them as they are and nothing is claimed about them.
-/
namespace Vflow.C16
open Vflow Vflow.Mirror

/-- **C16 (every datagram of a worker's life)**: a worker started for an IPv4 target sends, for every
message of any sequence (each with an IPv4 source in either form and a payload of at most `max` octets),
exactly the RFC 791 / RFC 768 datagram of *that* message — nothing of earlier messages survives in the
reused header and packet buffers — and never panics -/
theorem mirrorSeq_spec (sport m : Nat) (dst dst4 : Bytes) (port : Nat) (msgs : List (Bytes × Bytes))
    (hd : IsV4 dst dst4) (hsp : sport < 65536) (hp : port < 65536)
    (hv : ∀ x ∈ msgs, IsV4 x.1 (v4of x.1) ∧ x.2.length ≤ m ∧ 28 + x.2.length ≤ 65535) :
    mirrorSeq sport (m : Int) dst port msgs =
      .ok (msgs.map (fun x => ipv4udp (v4of x.1) dst4 sport port x.2)) := by
  obtain ⟨w, hi, hw⟩ := init_ready sport m dst dst4 port hd hsp hp
  simp only [mirrorSeq, hi, ok_bind]
  clear hi
  induction msgs generalizing w with
  | nil => rfl
  | cons x rest ih =>
    obtain ⟨src, payload⟩ := x
    have hx := hv (src, payload) (by simp)
    obtain ⟨w', hstep, hw'⟩ := step_spec sport port m w src dst (v4of src) dst4 payload hw hx.1 hd hx.2.1 hx.2.2
    simp only [Worker.run, hstep, ok_bind, List.map_cons]
    rw [ih (fun y hy => hv y (by simp [hy])) w' hw']
    rfl

/-- **C16 (layout)**: the octets handed to `Send` are exactly the RFC 791 / RFC 768 datagram with the
exporter as source, the configured target and port, total length `28 + n`, UDP length `8 + n` and the
payload unchanged -/
theorem assembleFrom_eq (sport : Nat) (max : Int) (src dst src4 dst4 : Bytes) (port : Nat) (payload : Bytes)
    (hs : IsV4 src src4) (hd : IsV4 dst dst4) (hmax : (payload.length : Int) ≤ max)
    (hlen : 28 + payload.length ≤ 65535) (hsp : sport < 65536) (hp : port < 65536) :
    assembleFrom sport max src dst port payload = .ok (ipv4udp src4 dst4 sport port payload) := by
  have hmax0 : 0 ≤ max := by omega
  obtain ⟨m, rfl⟩ := Int.eq_ofNat_of_zero_le hmax0
  obtain ⟨w, hi, hw⟩ := init_ready sport m dst dst4 port hd hsp hp
  obtain ⟨w', hstep, _⟩ := step_spec sport port m w src dst src4 dst4 payload hw hs hd (by omega) hlen
  simp [assembleFrom, hi, hstep]

/-- the receiver's view of a well-formed datagram -/
theorem parse4_ipv4udp (src4 dst4 : Bytes) (sport dport : Nat) (payload : Bytes)
    (hs : src4.length = 4) (hd : dst4.length = 4) (hlen : 28 + payload.length ≤ 65535)
    (hsp : sport < 65536) (hdp : dport < 65536) :
    parse4 (ipv4udp src4 dst4 sport dport payload) =
      some ⟨src4, dst4, sport, dport, 28 + payload.length, 8 + payload.length, payload⟩ := by
  obtain ⟨s0, s1, s2, s3, rfl⟩ := len4 src4 hs
  obtain ⟨d0, d1, d2, d3, rfl⟩ := len4 dst4 hd
  have e1 := be2 (28 + payload.length) (by omega)
  have e2 := be2 (8 + payload.length) (by omega)
  have e3 := be2 sport hsp
  have e4 := be2 dport hdp
  simp only [encBE_two] at e1 e2 e3 e4
  simp [parse4, ipv4udp, encBE_two, e1, e2, e3, e4]
  exact ⟨by omega, by omega⟩

/-- **C16 (never panics)**: no slice expression, `make` or index of the mirror path fails -/
theorem assemble_no_panic (sport : Nat) (max : Int) (src dst src4 dst4 : Bytes) (port : Nat) (payload : Bytes)
    (hs : IsV4 src src4) (hd : IsV4 dst dst4) (hmax : (payload.length : Int) ≤ max)
    (hlen : 28 + payload.length ≤ 65535) (hsp : sport < 65536) (hp : port < 65536) :
    ∀ w, assembleFrom sport max src dst port payload ≠ .panic w := by
  intro w; rw [assembleFrom_eq sport max src dst src4 dst4 port payload hs hd hmax hlen hsp hp]; simp

/-- what a receiver parses out of a `Res Bytes` -/
def parsed (r : Res Bytes) : Option Pkt4 :=
  match r with
  | .ok b => parse4 b
  | _ => none

/-- **C16 (IPFIX)**: `parse4 (assemble …) = ⟨src4, dst4, 55117, port, 28 + len, 8 + len, payload⟩` -/
theorem mirror_ipfix (max : Int) (src dst src4 dst4 : Bytes) (port : Nat) (payload : Bytes)
    (hs : IsV4 src src4) (hd : IsV4 dst dst4) (hmax : (payload.length : Int) ≤ max)
    (hlen : 28 + payload.length ≤ 65535) (hp : port < 65536) :
    parsed (assemble max src dst port payload) =
      some ⟨src4, dst4, 55117, port, 28 + payload.length, 8 + payload.length, payload⟩ := by
  unfold assemble
  rw [assembleFrom_eq ipfixSrcPort max src dst src4 dst4 port payload hs hd hmax hlen (by decide) hp]
  exact parse4_ipv4udp src4 dst4 _ port payload hs.1 hd.1 hlen (by decide) hp

/-- **C16 (sFlow)**: the same for `mirrorSFlow` (source port 55118) -/
theorem mirror_sflow (max : Int) (src dst src4 dst4 : Bytes) (port : Nat) (payload : Bytes)
    (hs : IsV4 src src4) (hd : IsV4 dst dst4) (hmax : (payload.length : Int) ≤ max)
    (hlen : 28 + payload.length ≤ 65535) (hp : port < 65536) :
    parsed (assembleSFlow max src dst port payload) =
      some ⟨src4, dst4, 55118, port, 28 + payload.length, 8 + payload.length, payload⟩ := by
  unfold assembleSFlow
  rw [assembleFrom_eq sflowSrcPort max src dst src4 dst4 port payload hs hd hmax hlen (by decide) hp]
  exact parse4_ipv4udp src4 dst4 _ port payload hs.1 hd.1 hlen (by decide) hp

/-- non-vacuity: hypotheses are satisfiable and the statement computes on a concrete datagram
(4-octet source, 16-octet target, payload of exactly `max` octets) -/
example : IsV4 [192, 168, 1, 1] [192, 168, 1, 1] ∧ IsV4 (mapped [127, 0, 0, 1]) [127, 0, 0, 1] ∧
    parsed (assemble 3 [192, 168, 1, 1] (mapped [127, 0, 0, 1]) 4172 [1, 2, 3]) =
      some ⟨[192, 168, 1, 1], [127, 0, 0, 1], 55117, 4172, 31, 11, [1, 2, 3]⟩ := by
  refine ⟨⟨rfl, .inl rfl⟩, ⟨rfl, .inr rfl⟩, by decide⟩

/-- why the bound `28 + length ≤ 65535` is stated: `SetLen` adds in 16 bits, a payload of 65508 octets
would get total length 0 -/
theorem total_length_wraps :
    setLen4 (List.replicate 20 0) (65508 + 8) = .ok (List.replicate 20 0) := by decide

/-- non-vacuity of `mirrorSeq_spec`: a long datagram from a 16-octet source followed by a short one from
a 4-octet source through the same worker; the second packet carries nothing of the first -/
example : mirrorSeq 55118 4 (mapped [127, 0, 0, 9]) 9 [(mapped [10, 0, 0, 1], [1, 2, 3, 4]), ([10, 0, 0, 2], [5])] =
    .ok [ipv4udp [10, 0, 0, 1] [127, 0, 0, 9] 55118 9 [1, 2, 3, 4], ipv4udp [10, 0, 0, 2] [127, 0, 0, 9] 55118 9 [5]] := by
  decide

/-! ## F13: the code before the `fix:` commit -/

/-- `IPv4.SetAddrs` before the fix: `copy(b[12:16], src[12:16]); copy(b[16:20], dst[12:16])` -/
def setAddrsUnrepaired (b src dst : Bytes) : Res Bytes := do
  let s ← slice src 12 16
  let b ← copyInto b 12 16 s
  let d ← slice dst 12 16
  copyInto b 16 20 d

/-- the first message of a fresh worker before the fix: `packet = make([]byte, max)` -/
def assembleUnrepaired (sport : Nat) (max : Int) (src dst : Bytes) (port : Nat) (payload : Bytes) : Res Bytes := do
  let packet ← makeBytes max
  let udpHdr ← udpMarshal sport port
  if (to4 dst).isNone then .v6 else
  let ipHdr ← ipv4Tpl udpProto
  let ipHdr ← setAddrsUnrepaired ipHdr src dst
  let ipHdr ← setLen4 ipHdr (payload.length + udpHLen)
  let udpHdr ← udpSetLen udpHdr payload.length
  let packet ← copyInto packet 0 ipv4HLen ipHdr
  let packet ← copyInto packet ipv4HLen (ipv4HLen + 8) udpHdr
  let packet ← copyInto packet (ipv4HLen + 8) packet.length payload
  slice packet 0 (ipv4HLen + 8 + payload.length)

def isPanic {α : Type} : Res α → Bool
  | .panic _ => true
  | _ => false

/-- F13 (a): before the fix a payload of `max − 27` octets (37 with `max` = 64) panics in
`packet[0:ipHLen+8+pLen]`; the repaired model sends it (corpus/C16/mirror-f13.txt, replayed on the code) -/
theorem f13_buffer_counterexample :
    isPanic (assembleUnrepaired 55117 64 (mapped [192, 168, 1, 1]) (mapped [127, 0, 0, 1]) 4172 (List.replicate 37 7)) = true ∧
    isPanic (assembleFrom 55117 64 (mapped [192, 168, 1, 1]) (mapped [127, 0, 0, 1]) 4172 (List.replicate 37 7)) = false := by
  decide

/-- F13 (b): before the fix a 4-octet source address panics in `src[12:16]` -/
theorem f13_source_counterexample :
    isPanic (assembleUnrepaired 55117 64 [192, 168, 1, 1] (mapped [127, 0, 0, 1]) 4172 [104, 101, 108, 108, 111]) = true ∧
    isPanic (assembleFrom 55117 64 [192, 168, 1, 1] (mapped [127, 0, 0, 1]) 4172 [104, 101, 108, 108, 111]) = false := by
  decide

/-! ## the generated facts (re-extracted from the Go source on every run) tie the model's constants to the code -/

open Vflow.Gen.MirrorFacts in
/-- what the model transcribes of a mirror worker, written with the model's own constants: buffer of
`bufExtra + max` octets, `ipHLen = 20`, `SetLen(pLen + 8)`, `udp.SetLen(pLen)`, the three copies at
`[0:20]`, `[20:28]`, `[28:]`, `Send(packet[0 : 28 + pLen])`, `Put(msg.body[:max])`, and the statement order -/
def expectedWorker (sport : Nat) : Gen.MirrorFacts.Worker :=
  { bufSize := .lin bufExtra 0 1
    srcPort := .lin sport 0 0
    dstPort := "port"
    ipHLenV4 := .lin ipv4HLen 0 0
    pLenIs := "len(msg.body)"
    setLenArg := .lin udpHLen 1 0
    udpSetLenArg := .lin 0 1 0
    copies := [(.lin 0 0 0, .lin ipv4HLen 0 0, "ipHdr"),
               (.lin ipv4HLen 0 0, .lin (ipv4HLen + 8) 0 0, "udpHdr"),
               (.lin (ipv4HLen + 8) 0 0, .len, "msg.body")]
    sendLo := .lin 0 0 0
    sendHi := .lin (ipv4HLen + 8) 1 0
    putLo := .lin 0 0 0
    putHi := .lin 0 0 1
    loop := ["recv", "pLen", "SetAddrs(ipHdr,msg.raddr.IP,dst)", "SetLen", "udp.SetLen", "if !ipv4",
             "copy", "copy", "copy", "Put", "Send"] }

/-- `mirrorIPFIX` has the transcribed buffer size, offsets, bounds and statement order -/
theorem gen_mirrorIPFIX : Gen.MirrorFacts.mirrorIPFIX = expectedWorker ipfixSrcPort := by decide

/-- `mirrorSFlow` likewise -/
theorem gen_mirrorSFlow : Gen.MirrorFacts.mirrorSFlow = expectedWorker sflowSrcPort := by decide

/-- the constants of package mirror -/
theorem gen_consts : Gen.MirrorFacts.constIPv4HLen = ipv4HLen ∧ Gen.MirrorFacts.constIPv6HLen = ipv6HLen ∧
    Gen.MirrorFacts.constUDPHLen = udpHLen ∧ Gen.MirrorFacts.constUDPProto = udpProto := by decide

/-- the header helpers of package mirror are, statement for statement, what `ipv4Tpl`, `setLen4`,
`setAddrs`, `udpMarshal`, `udpSetLen` transcribe (template values, octet offsets 0,1,2,6,7,8,9 / 2 /
12..16,16..20 with `To4` / 0,2,4,6 / 4) -/
theorem gen_headers :
    Gen.MirrorFacts.newIPv4HeaderTpl =
      ["return IPv4{ Version: 4, IHL: 5, TOS: 0, TTL: 64, Protocol: uint8(proto), }"] ∧
    Gen.MirrorFacts.ipv4Marshal =
      ["b := make([]byte, IPv4HLen)", "b[0] = byte((ip.Version << 4) | ip.IHL)", "b[1] = byte(ip.TOS)",
       "binary.BigEndian.PutUint16(b[2:], ip.Length)", "b[6] = byte(0)", "b[7] = byte(0)",
       "b[8] = byte(ip.TTL)", "b[9] = byte(ip.Protocol)", "return b"] ∧
    Gen.MirrorFacts.ipv4SetLen = ["binary.BigEndian.PutUint16(b[2:], IPv4HLen+uint16(n))"] ∧
    Gen.MirrorFacts.ipv4SetAddrs = ["copy(b[12:16], src.To4())", "copy(b[16:20], dst.To4())"] ∧
    Gen.MirrorFacts.udpMarshal =
      ["b := make([]byte, UDPHLen)", "binary.BigEndian.PutUint16(b[0:], uint16(u.SrcPort))",
       "binary.BigEndian.PutUint16(b[2:], uint16(u.DstPort))",
       "binary.BigEndian.PutUint16(b[4:], uint16(UDPHLen+u.Length))",
       "binary.BigEndian.PutUint16(b[6:], uint16(u.Checksum))", "return b"] ∧
    Gen.MirrorFacts.udpSetLen = ["binary.BigEndian.PutUint16(b[4:], uint16(UDPHLen+n))"] := by decide

/-- "never changes what is decoded": the decoding worker hands the mirror a **copy** of the datagram in
its own pool buffer (`append(mirror.body[:0], msg.body...)`) and never blocks on the mirror queue
(`select … default`); the mirror path therefore shares no octets with what is decoded (the decode side
is C12's subject) -/
theorem gen_hand_over :
    Gen.MirrorFacts.ipfixHandOver =
      ["mirror.body = ipfixBuffer.Get().([]byte)", "mirror.raddr = msg.raddr",
       "mirror.body = append(mirror.body[:0], msg.body...)",
       "select { case ipfixMCh <- mirror: default: }"] ∧
    Gen.MirrorFacts.sflowHandOver =
      ["mirror.raddr = msg.raddr", "mirror.body = sFlowBuffer.Get().([]byte)",
       "mirror.body = append(mirror.body[:0], msg.body...)",
       "select { case sFlowMCh <- mirror: default: }"] := by decide

end Vflow.C16
