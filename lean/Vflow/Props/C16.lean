import Vflow.Model.Mirror
import Vflow.Proofs.Mirror
import Vflow.Gen.MirrorFacts
/-!
# C16 — mirrored datagrams reach the third-party collector unchanged

`assembleFrom sport max src dst port payload` is one iteration of `mirrorIPFIX` (`sport` = 55117) /
`mirrorSFlow` (55118) for an IPv4 target, as the code is after the `fix:` commit for F13.
The theorems quantify over every payload, every maximum, every IPv4 source in 4-octet or IPv4-mapped
16-octet form, every IPv4 target (either form) and every port.

Bound stated: the IPv4 total-length field has 16 bits, so `28 + length ≤ 65535` is required (beyond it
`SetLen` wraps around, see `total_length_wraps`); it holds whenever `max ≤ 65507`, the largest UDP payload.
Checksums: the code leaves the IPv4 header checksum 0 (the kernel fills it in on a raw socket) and the UDP
checksum 0 (= none, legal over IPv4); the model has them as they are and nothing is claimed about them.
-/
namespace Vflow.C16
open Vflow Vflow.Mirror

/-- the 16-octet IPv4-mapped form `::ffff:a.b.c.d` of a 4-octet address (what `net.ParseIP` and a
dual-stack socket deliver) -/
def mapped (a : Bytes) : Bytes := List.replicate 10 0 ++ [0xff, 0xff] ++ a

/-- `ip` is the IPv4 address `a` in 4-octet or in 16-octet form -/
def IsV4 (ip a : Bytes) : Prop := a.length = 4 ∧ (ip = a ∨ ip = mapped a)

theorem to4_isV4 {ip a : Bytes} (h : IsV4 ip a) : to4 ip = some a := by
  obtain ⟨h4, h | h⟩ := h
  · subst h; simp [to4, h4]
  · obtain ⟨a, b, c, d, rfl⟩ := len4 a h4
    subst h
    simp [to4, mapped]


/-- **C16 (layout)**: the octets handed to `Send` are exactly the RFC 791 / RFC 768 datagram with the
exporter as source, the configured target and port, total length `28 + n`, UDP length `8 + n` and the
payload unchanged -/
theorem assembleFrom_eq (sport : Nat) (max : Int) (src dst src4 dst4 : Bytes) (port : Nat) (payload : Bytes)
    (hs : IsV4 src src4) (hd : IsV4 dst dst4) (hmax : (payload.length : Int) ≤ max)
    (hlen : 28 + payload.length ≤ 65535) (hsp : sport < 65536) (hp : port < 65536) :
    assembleFrom sport max src dst port payload = .ok (ipv4udp src4 dst4 sport port payload) := by
  have hs4 := to4_isV4 hs
  have hd4 := to4_isV4 hd
  obtain ⟨s0, s1, s2, s3, rfl⟩ := len4 src4 hs.1
  obtain ⟨d0, d1, d2, d3, rfl⟩ := len4 dst4 hd.1
  have hmax0 : 0 ≤ max := by omega
  obtain ⟨m, rfl⟩ := Int.eq_ofNat_of_zero_le hmax0
  have hm : payload.length ≤ m := by omega
  unfold assembleFrom
  have hmk : makeBytes ((bufExtra : Nat) + (m : Int)) = .ok (List.replicate (48 + m) 0) := by
    simp only [makeBytes, bufExtra, ipv6HLen, udpHLen]
    have : ¬ ((((40 + 8 : Nat) : Int)) + (m : Int) < 0) := by omega
    simp only [this, ↓reduceIte]
    congr 2
  simp only [hmk, ok_bind, udpMarshal_val, hd4, Option.isNone_some, Bool.false_eq_true, ↓reduceIte,
    ipv4Tpl_val, udpProto, setAddrs_val s0 s1 s2 s3 d0 d1 d2 d3 src dst hs4 hd4]
  have hT : (ipv4HLen + (payload.length + udpHLen) % 65536) % 65536 = 28 + payload.length := by
    simp only [ipv4HLen, udpHLen]; omega
  have hU : (udpHLen + payload.length) % 65536 = 8 + payload.length := by
    simp only [udpHLen]; omega
  have hsl : setLen4 [69, 0, 0, 0, 0, 0, 0, 0, 64, 17, 0, 0, s0, s1, s2, s3, d0, d1, d2, d3] (payload.length + udpHLen)
      = .ok ([69, 0] ++ encBE 2 (28 + payload.length) ++ [0, 0, 0, 0, 64, 17, 0, 0, s0, s1, s2, s3, d0, d1, d2, d3]) := by
    simp [setLen4, putU16, hT]
  have hul : udpSetLen (encBE 2 (sport % 65536) ++ encBE 2 (port % 65536) ++ [0, 8, 0, 0]) payload.length
      = .ok (encBE 2 sport ++ encBE 2 port ++ encBE 2 (8 + payload.length) ++ [0, 0]) := by
    simp [udpSetLen, putU16, hU, encBE_two, Nat.mod_eq_of_lt hsp, Nat.mod_eq_of_lt hp]
  simp only [hsl, hul, ok_bind]
  generalize hH : ([69, 0] ++ encBE 2 (28 + payload.length) ++
      [0, 0, 0, 0, 64, 17, 0, 0, s0, s1, s2, s3, d0, d1, d2, d3] : Bytes) = H
  generalize hUh : (encBE 2 sport ++ encBE 2 port ++ encBE 2 (8 + payload.length) ++ [0, 0] : Bytes) = U
  have hHl : H.length = 20 := by subst hH; simp [encBE_two]
  have hUl : U.length = 8 := by subst hUh; simp [encBE_two]
  have c1 : copyInto (List.replicate (48 + m) 0) 0 ipv4HLen H = .ok (H ++ List.replicate (28 + m) 0) := by
    have := copyInto_at [] (List.replicate (48 + m) 0) H 0 20 rfl (by omega) (by simp; omega)
    simp only [List.nil_append, Nat.sub_zero] at this
    rw [ipv4HLen, this, List.take_of_length_le (by omega), hHl, List.drop_replicate]
    congr 3; omega
  have c2 : copyInto (H ++ List.replicate (28 + m) 0) ipv4HLen (ipv4HLen + 8) U
      = .ok ((H ++ U) ++ List.replicate (20 + m) 0) := by
    have := copyInto_at H (List.replicate (28 + m) 0) U 20 28 hHl (by omega) (by simp; omega)
    rw [ipv4HLen, this, List.take_of_length_le (by omega), hUl, List.drop_replicate]
    congr 3; omega
  have c3 : copyInto ((H ++ U) ++ List.replicate (20 + m) 0) (ipv4HLen + 8)
      ((H ++ U) ++ List.replicate (20 + m) 0).length payload
      = .ok (((H ++ U) ++ payload) ++ List.replicate (20 + m - payload.length) 0) := by
    have hl : ((H ++ U) ++ List.replicate (20 + m) 0).length = 48 + m := by simp [hHl, hUl]; omega
    have := copyInto_at (H ++ U) (List.replicate (20 + m) 0) payload 28 (48 + m) (by simp [hHl, hUl]) (by omega) (by simp; omega)
    rw [hl, ipv4HLen, this, List.take_of_length_le (by omega), List.drop_replicate]
  rw [c1]; simp only [ok_bind]
  rw [c2]; simp only [ok_bind]
  rw [c3]; simp only [ok_bind]
  have hb : ¬ ((m : Int) < 0 ∨ bodyCap (m : Int) payload.length < (m : Int)) := by
    unfold bodyCap
    split <;> omega
  simp only [hb, ↓reduceIte]
  unfold slice
  have hsl2 : 0 ≤ ipv4HLen + 8 + payload.length ∧ ipv4HLen + 8 + payload.length ≤
      (((H ++ U) ++ payload) ++ List.replicate (20 + m - payload.length) 0).length := by
    simp [hHl, hUl, ipv4HLen]; omega
  simp only [hsl2, and_self, ↓reduceIte, List.drop_zero, Nat.sub_zero]
  have htk : ipv4HLen + 8 + payload.length = ((H ++ U) ++ payload).length := by simp [hHl, hUl, ipv4HLen]; omega
  rw [htk, List.take_left']
  · subst hH; subst hUh
    simp [ipv4udp, encBE_two]
  · rfl


/-- the receiver's view of a well-formed datagram -/
theorem parse4_ipv4udp (src4 dst4 : Bytes) (sport dport : Nat) (payload : Bytes)
    (hs : src4.length = 4) (hd : dst4.length = 4) (hlen : 28 + payload.length ≤ 65535)
    (hsp : sport < 65536) (hdp : dport < 65536) :
    parse4 (ipv4udp src4 dst4 sport dport payload) =
      some ⟨src4, dst4, sport, dport, 28 + payload.length, 8 + payload.length, payload⟩ := by
  obtain ⟨s0, s1, s2, s3, rfl⟩ := len4 src4 hs
  obtain ⟨d0, d1, d2, d3, rfl⟩ := len4 dst4 hd
  have e1 := be2 (28 + payload.length) (by omega)
  have e2 := be2 (8 + payload.length) (by omega)
  have e3 := be2 sport hsp
  have e4 := be2 dport hdp
  simp only [encBE_two] at e1 e2 e3 e4
  simp [parse4, ipv4udp, encBE_two, e1, e2, e3, e4]
  exact ⟨by omega, by omega⟩

/-- **C16 (never panics)**: no slice expression, `make` or index of the mirror path fails -/
theorem assemble_no_panic (sport : Nat) (max : Int) (src dst src4 dst4 : Bytes) (port : Nat) (payload : Bytes)
    (hs : IsV4 src src4) (hd : IsV4 dst dst4) (hmax : (payload.length : Int) ≤ max)
    (hlen : 28 + payload.length ≤ 65535) (hsp : sport < 65536) (hp : port < 65536) :
    ∀ w, assembleFrom sport max src dst port payload ≠ .panic w := by
  intro w; rw [assembleFrom_eq sport max src dst src4 dst4 port payload hs hd hmax hlen hsp hp]; simp

/-- what a receiver parses out of a `Res Bytes` -/
def parsed (r : Res Bytes) : Option Pkt4 :=
  match r with
  | .ok b => parse4 b
  | _ => none

/-- **C16 (IPFIX)**: `parse4 (assemble …) = ⟨src4, dst4, 55117, port, 28 + len, 8 + len, payload⟩` -/
theorem mirror_ipfix (max : Int) (src dst src4 dst4 : Bytes) (port : Nat) (payload : Bytes)
    (hs : IsV4 src src4) (hd : IsV4 dst dst4) (hmax : (payload.length : Int) ≤ max)
    (hlen : 28 + payload.length ≤ 65535) (hp : port < 65536) :
    parsed (assemble max src dst port payload) =
      some ⟨src4, dst4, 55117, port, 28 + payload.length, 8 + payload.length, payload⟩ := by
  unfold assemble
  rw [assembleFrom_eq ipfixSrcPort max src dst src4 dst4 port payload hs hd hmax hlen (by decide) hp]
  exact parse4_ipv4udp src4 dst4 _ port payload hs.1 hd.1 hlen (by decide) hp

/-- **C16 (sFlow)**: the same for `mirrorSFlow` (source port 55118) -/
theorem mirror_sflow (max : Int) (src dst src4 dst4 : Bytes) (port : Nat) (payload : Bytes)
    (hs : IsV4 src src4) (hd : IsV4 dst dst4) (hmax : (payload.length : Int) ≤ max)
    (hlen : 28 + payload.length ≤ 65535) (hp : port < 65536) :
    parsed (assembleSFlow max src dst port payload) =
      some ⟨src4, dst4, 55118, port, 28 + payload.length, 8 + payload.length, payload⟩ := by
  unfold assembleSFlow
  rw [assembleFrom_eq sflowSrcPort max src dst src4 dst4 port payload hs hd hmax hlen (by decide) hp]
  exact parse4_ipv4udp src4 dst4 _ port payload hs.1 hd.1 hlen (by decide) hp

/-- non-vacuity: hypotheses are satisfiable and the statement computes on a concrete datagram
(4-octet source, 16-octet target, payload of exactly `max` octets) -/
example : IsV4 [192, 168, 1, 1] [192, 168, 1, 1] ∧ IsV4 (mapped [127, 0, 0, 1]) [127, 0, 0, 1] ∧
    parsed (assemble 3 [192, 168, 1, 1] (mapped [127, 0, 0, 1]) 4172 [1, 2, 3]) =
      some ⟨[192, 168, 1, 1], [127, 0, 0, 1], 55117, 4172, 31, 11, [1, 2, 3]⟩ := by
  refine ⟨⟨rfl, .inl rfl⟩, ⟨rfl, .inr rfl⟩, by decide⟩

/-- why the bound `28 + length ≤ 65535` is stated: `SetLen` adds in 16 bits, a payload of 65508 octets
would get total length 0 -/
theorem total_length_wraps :
    setLen4 (List.replicate 20 0) (65508 + 8) = .ok (List.replicate 20 0) := by decide

/-! ## the generated facts (re-extracted from the Go source on every run) tie the model's constants to the code -/

open Vflow.Gen.MirrorFacts in
/-- what the model transcribes of a mirror worker, written with the model's own constants: buffer of
`bufExtra + max` octets, `ipHLen = 20`, `SetLen(pLen + 8)`, `udp.SetLen(pLen)`, the three copies at
`[0:20]`, `[20:28]`, `[28:]`, `Send(packet[0 : 28 + pLen])`, `Put(msg.body[:max])`, and the statement order -/
def expectedWorker (sport : Nat) : Worker :=
  { bufSize := .lin bufExtra 0 1
    srcPort := .lin sport 0 0
    dstPort := "port"
    ipHLenV4 := .lin ipv4HLen 0 0
    pLenIs := "len(msg.body)"
    setLenArg := .lin udpHLen 1 0
    udpSetLenArg := .lin 0 1 0
    copies := [(.lin 0 0 0, .lin ipv4HLen 0 0, "ipHdr"),
               (.lin ipv4HLen 0 0, .lin (ipv4HLen + 8) 0 0, "udpHdr"),
               (.lin (ipv4HLen + 8) 0 0, .len, "msg.body")]
    sendLo := .lin 0 0 0
    sendHi := .lin (ipv4HLen + 8) 1 0
    putLo := .lin 0 0 0
    putHi := .lin 0 0 1
    loop := ["recv", "pLen", "SetAddrs(ipHdr,msg.raddr.IP,dst)", "SetLen", "udp.SetLen", "if !ipv4",
             "copy", "copy", "copy", "Put", "Send"] }

/-- `mirrorIPFIX` has the transcribed buffer size, offsets, bounds and statement order -/
theorem gen_mirrorIPFIX : Gen.MirrorFacts.mirrorIPFIX = expectedWorker ipfixSrcPort := by decide

/-- `mirrorSFlow` likewise -/
theorem gen_mirrorSFlow : Gen.MirrorFacts.mirrorSFlow = expectedWorker sflowSrcPort := by decide

/-- the constants of package mirror -/
theorem gen_consts : Gen.MirrorFacts.constIPv4HLen = ipv4HLen ∧ Gen.MirrorFacts.constIPv6HLen = ipv6HLen ∧
    Gen.MirrorFacts.constUDPHLen = udpHLen ∧ Gen.MirrorFacts.constUDPProto = udpProto := by decide

/-- the header helpers of package mirror are, statement for statement, what `ipv4Tpl`, `setLen4`,
`setAddrs`, `udpMarshal`, `udpSetLen` transcribe (template values, octet offsets 0,1,2,6,7,8,9 / 2 /
12..16,16..20 with `To4` / 0,2,4,6 / 4) -/
theorem gen_headers :
    Gen.MirrorFacts.newIPv4HeaderTpl =
      ["return IPv4{ Version: 4, IHL: 5, TOS: 0, TTL: 64, Protocol: uint8(proto), }"] ∧
    Gen.MirrorFacts.ipv4Marshal =
      ["b := make([]byte, IPv4HLen)", "b[0] = byte((ip.Version << 4) | ip.IHL)", "b[1] = byte(ip.TOS)",
       "binary.BigEndian.PutUint16(b[2:], ip.Length)", "b[6] = byte(0)", "b[7] = byte(0)",
       "b[8] = byte(ip.TTL)", "b[9] = byte(ip.Protocol)", "return b"] ∧
    Gen.MirrorFacts.ipv4SetLen = ["binary.BigEndian.PutUint16(b[2:], IPv4HLen+uint16(n))"] ∧
    Gen.MirrorFacts.ipv4SetAddrs = ["copy(b[12:16], src.To4())", "copy(b[16:20], dst.To4())"] ∧
    Gen.MirrorFacts.udpMarshal =
      ["b := make([]byte, UDPHLen)", "binary.BigEndian.PutUint16(b[0:], uint16(u.SrcPort))",
       "binary.BigEndian.PutUint16(b[2:], uint16(u.DstPort))",
       "binary.BigEndian.PutUint16(b[4:], uint16(UDPHLen+u.Length))",
       "binary.BigEndian.PutUint16(b[6:], uint16(u.Checksum))", "return b"] ∧
    Gen.MirrorFacts.udpSetLen = ["binary.BigEndian.PutUint16(b[4:], uint16(UDPHLen+n))"] := by decide

end Vflow.C16
