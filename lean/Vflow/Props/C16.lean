import Vflow.Model.Mirror
/-!
# C16 — mirrored datagrams reach the third-party collector unchanged
-/
namespace Vflow.C16
open Vflow Vflow.Mirror

/-- non-vacuity: a concrete datagram is assembled and parses back -/
example : (assemble 64 [192, 168, 1, 1] (List.replicate 10 0 ++ [0xff, 0xff, 127, 0, 0, 1]) 4172 [1, 2, 3]).bind
    (fun p => .ok (parse4 p)) =
    .ok (some ⟨[192, 168, 1, 1], [127, 0, 0, 1], 55117, 4172, 31, 11, [1, 2, 3]⟩) := by decide

end Vflow.C16
