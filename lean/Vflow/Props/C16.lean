import Vflow.Model.Mirror
import Vflow.Proofs.Mirror
import Vflow.Gen.MirrorFacts
/-!
# C16 — mirrored datagrams reach the third-party collector unchanged

`assembleFrom sport max src dst port payload` is the first iteration, `mirrorSeq send … msgs` a whole life, of
`mirrorIPFIX` (`sport` = 55117) / `mirrorSFlow` (55118) for an IPv4 target, `mirrorAll` the dispatcher in front
of it, as the code is after the `fix:` commits for F13 and F25.
The theorems quantify over every payload, every maximum, every IPv4 source in 4-octet or IPv4-mapped
16-octet form, every IPv4 target (either form), every port — and every behaviour of the kernel's `sendto`
(`send : Bytes → Bool`): a packet the path cannot carry is lost, and only that packet.

The 16-bit total-length field: an IPv4 datagram has at most 65535 octets, so a payload with
`28 + length > 65535` cannot be mirrored by anybody; the code's `SetLen` wraps around on it (`total_length_wraps`)
and the kernel refuses the packet (`EMSGSIZE`), which is the hypothesis `hsend` of `mirrorSeq_spec` /
`mirror_spec`.  The single-datagram theorems keep the bound `28 + length ≤ 65535` (it holds whenever
`max ≤ 65507`, the largest UDP payload over IPv4).
Checksums: the code leaves the IPv4 header checksum 0 (the kernel fills it in on a raw socket) and the UDP
checksum 0 (= none, legal over IPv4); the model has them as they are and nothing is claimed about them.
-/
namespace Vflow.C16
open Vflow Vflow.Mirror

/-- the datagram C16 asks for: exporter as source, configured target and port, payload unchanged -/
abbrev want (dst4 : Bytes) (sport port : Nat) (x : Bytes × Bytes) : Bytes :=
  ipv4udp (v4of x.1) dst4 sport port x.2

/-- **C16 (every datagram of a worker's life, whatever the path refuses)**: a worker started for an IPv4
target handles EVERY sequence of messages (each with an IPv4 source in either form and a payload of at
most `max` octets) without a panic, and what leaves the machine is, in order, exactly the RFC 791 / RFC 768
datagram of every message whose datagram the kernel takes: a refused packet (longer than the path MTU —
a raw socket does not fragment —, or longer than 65535 octets) costs that one datagram and nothing else;
nothing of earlier messages, sent or refused, survives in the reused header and packet buffers.
`send` is arbitrary except that it refuses what no IPv4 datagram can hold. -/
theorem mirrorSeq_spec (send : Bytes → Bool) (sport m : Nat) (dst dst4 : Bytes) (port : Nat)
    (msgs : List (Bytes × Bytes))
    (hd : IsV4 dst dst4) (hsp : sport < 65536) (hp : port < 65536)
    (hsend : ∀ b, 65535 < b.length → send b = false)
    (hv : ∀ x ∈ msgs, IsV4 x.1 (v4of x.1) ∧ x.2.length ≤ m) :
    mirrorSeq send sport (m : Int) dst port msgs =
      .ok ((msgs.map (want dst4 sport port)).filter send) := by
  obtain ⟨w, hi, hw⟩ := init_ready sport m dst dst4 port hd hsp hp
  simp only [mirrorSeq, hi, ok_bind]
  rw [run_spec send sport port m dst dst4 hd msgs w hw hv]
  congr 1
  apply filter_map_congr
  intro x hx
  have h4 : (v4of x.1).length = 4 := (hv x hx).1.1
  by_cases hl : 28 + x.2.length ≤ 65535
  · exact .inl (wire_eq_ipv4udp _ _ _ _ _ hl)
  · refine .inr ⟨hsend _ ?_, hsend _ ?_⟩
    · rw [wire_length _ _ _ _ _ h4 hd.1]; omega
    · rw [ipv4udp_length _ _ _ _ _ h4 hd.1]; omega

/-- the same for ANY `send` at all (nothing assumed about the kernel) when every payload fits an IPv4
datagram (`28 + length ≤ 65535`, e.g. `max ≤ 65507`) -/
theorem mirrorSeq_spec_bounded (send : Bytes → Bool) (sport m : Nat) (dst dst4 : Bytes) (port : Nat)
    (msgs : List (Bytes × Bytes))
    (hd : IsV4 dst dst4) (hsp : sport < 65536) (hp : port < 65536)
    (hv : ∀ x ∈ msgs, IsV4 x.1 (v4of x.1) ∧ x.2.length ≤ m ∧ 28 + x.2.length ≤ 65535) :
    mirrorSeq send sport (m : Int) dst port msgs =
      .ok ((msgs.map (want dst4 sport port)).filter send) := by
  obtain ⟨w, hi, hw⟩ := init_ready sport m dst dst4 port hd hsp hp
  simp only [mirrorSeq, hi, ok_bind]
  rw [run_spec send sport port m dst dst4 hd msgs w hw (fun x hx => ⟨(hv x hx).1, (hv x hx).2.1⟩)]
  congr 1
  apply filter_map_congr
  intro x hx
  exact .inl (wire_eq_ipv4udp _ _ _ _ _ (hv x hx).2.2)

/-- the statement as it was before F25 (every send succeeds): every message is sent, as its own datagram -/
theorem mirrorSeq_all_sent (sport m : Nat) (dst dst4 : Bytes) (port : Nat) (msgs : List (Bytes × Bytes))
    (hd : IsV4 dst dst4) (hsp : sport < 65536) (hp : port < 65536)
    (hv : ∀ x ∈ msgs, IsV4 x.1 (v4of x.1) ∧ x.2.length ≤ m ∧ 28 + x.2.length ≤ 65535) :
    mirrorSeq (fun _ => true) sport (m : Int) dst port msgs =
      .ok (msgs.map (fun x => ipv4udp (v4of x.1) dst4 sport port x.2)) := by
  rw [mirrorSeq_spec_bounded (fun _ => true) sport m dst dst4 port msgs hd hsp hp hv]
  simp

/-- the dispatcher's split for an IPv4 target with at least one worker: exactly the datagrams of IPv4
exporters (either address form) reach the workers; the others are dropped, none is queued -/
theorem toCh4_v4_target (workers : Nat) (dst dst4 : Bytes) (hd : IsV4 dst dst4) (hw : 0 < workers)
    (msgs : List (Bytes × Bytes)) :
    toCh4 (has4Of workers dst) (has6Of workers dst) msgs = msgs.filter (fun x => (to4 x.1).isSome) ∧
    ∀ x ∈ msgs, route (has4Of workers dst) (has6Of workers dst) x.1 ≠ .ch6 := by
  have h4 : has4Of workers dst = true := by simp [has4Of, hw, to4_isV4 hd]
  have h6 : has6Of workers dst = false := by simp [has6Of, to4_isV4 hd]
  rw [h4, h6]
  refine ⟨?_, ?_⟩
  · unfold toCh4
    apply List.filter_congr
    intro x _
    unfold route
    cases (to4 x.1).isSome <;> simp
  · intro x _
    unfold route
    cases (to4 x.1).isSome <;> simp

/-- **C16 (dispatcher and worker, every stream)**: for EVERY stream of datagrams — exporters of any
address family, payloads up to `max` — towards an IPv4 target, what leaves the machine is, in order, the
RFC 791 / RFC 768 datagram of every datagram that came from an IPv4 exporter and that the kernel takes.
Datagrams of IPv6 exporters (which an IPv4 packet cannot name as its source) are dropped by the
dispatcher; they are never queued for a worker that does not exist (`toCh4_v4_target`), so no number of
them stops the others from being mirrored. -/
theorem mirror_spec (send : Bytes → Bool) (sport m workers : Nat) (dst dst4 : Bytes) (port : Nat)
    (msgs : List (Bytes × Bytes))
    (hd : IsV4 dst dst4) (hsp : sport < 65536) (hp : port < 65536) (hw : 0 < workers)
    (hsend : ∀ b, 65535 < b.length → send b = false)
    (hv : ∀ x ∈ msgs, x.2.length ≤ m) :
    mirrorAll send sport (m : Int) dst port workers msgs =
      .ok (((msgs.filter (fun x => (to4 x.1).isSome)).map (want dst4 sport port)).filter send) := by
  have hw0 : workers ≠ 0 := by omega
  simp only [mirrorAll, hw0, ↓reduceIte]
  rw [(toCh4_v4_target workers dst dst4 hd hw msgs).1]
  apply mirrorSeq_spec send sport m dst dst4 port _ hd hsp hp hsend
  intro x hx
  rw [List.mem_filter] at hx
  exact ⟨isV4_of_to4 hx.2, hv x hx.1⟩

/-- **C16 (layout)**: the octets handed to `Send` are exactly the RFC 791 / RFC 768 datagram with the
exporter as source, the configured target and port, total length `28 + n`, UDP length `8 + n` and the
payload unchanged -/
theorem assembleFrom_eq (sport : Nat) (max : Int) (src dst src4 dst4 : Bytes) (port : Nat) (payload : Bytes)
    (hs : IsV4 src src4) (hd : IsV4 dst dst4) (hmax : (payload.length : Int) ≤ max)
    (hlen : 28 + payload.length ≤ 65535) (hsp : sport < 65536) (hp : port < 65536) :
    assembleFrom sport max src dst port payload = .ok (ipv4udp src4 dst4 sport port payload) := by
  have hmax0 : 0 ≤ max := by omega
  obtain ⟨m, rfl⟩ := Int.eq_ofNat_of_zero_le hmax0
  obtain ⟨w, hi, hw⟩ := init_ready sport m dst dst4 port hd hsp hp
  obtain ⟨w', hstep, _⟩ := step_spec sport port m w src dst src4 dst4 payload hw hs hd (by omega)
  simp [assembleFrom, hi, hstep, wire_eq_ipv4udp _ _ _ _ _ hlen]

/-- the receiver's view of a well-formed datagram -/
theorem parse4_ipv4udp (src4 dst4 : Bytes) (sport dport : Nat) (payload : Bytes)
    (hs : src4.length = 4) (hd : dst4.length = 4) (hlen : 28 + payload.length ≤ 65535)
    (hsp : sport < 65536) (hdp : dport < 65536) :
    parse4 (ipv4udp src4 dst4 sport dport payload) =
      some ⟨src4, dst4, sport, dport, 28 + payload.length, 8 + payload.length, payload⟩ := by
  obtain ⟨s0, s1, s2, s3, rfl⟩ := len4 src4 hs
  obtain ⟨d0, d1, d2, d3, rfl⟩ := len4 dst4 hd
  have e1 := be2 (28 + payload.length) (by omega)
  have e2 := be2 (8 + payload.length) (by omega)
  have e3 := be2 sport hsp
  have e4 := be2 dport hdp
  simp only [encBE_two] at e1 e2 e3 e4
  simp [parse4, ipv4udp, encBE_two, e1, e2, e3, e4]
  exact ⟨by omega, by omega⟩

/-- **C16 (never panics)**: no slice expression, `make` or index of the mirror path fails -/
theorem assemble_no_panic (sport : Nat) (max : Int) (src dst src4 dst4 : Bytes) (port : Nat) (payload : Bytes)
    (hs : IsV4 src src4) (hd : IsV4 dst dst4) (hmax : (payload.length : Int) ≤ max)
    (hlen : 28 + payload.length ≤ 65535) (hsp : sport < 65536) (hp : port < 65536) :
    ∀ w, assembleFrom sport max src dst port payload ≠ .panic w := by
  intro w; rw [assembleFrom_eq sport max src dst src4 dst4 port payload hs hd hmax hlen hsp hp]; simp

/-- what a receiver parses out of a `Res Bytes` -/
def parsed (r : Res Bytes) : Option Pkt4 :=
  match r with
  | .ok b => parse4 b
  | _ => none

/-- **C16 (IPFIX)**: `parse4 (assemble …) = ⟨src4, dst4, 55117, port, 28 + len, 8 + len, payload⟩` -/
theorem mirror_ipfix (max : Int) (src dst src4 dst4 : Bytes) (port : Nat) (payload : Bytes)
    (hs : IsV4 src src4) (hd : IsV4 dst dst4) (hmax : (payload.length : Int) ≤ max)
    (hlen : 28 + payload.length ≤ 65535) (hp : port < 65536) :
    parsed (assemble max src dst port payload) =
      some ⟨src4, dst4, 55117, port, 28 + payload.length, 8 + payload.length, payload⟩ := by
  unfold assemble
  rw [assembleFrom_eq ipfixSrcPort max src dst src4 dst4 port payload hs hd hmax hlen (by decide) hp]
  exact parse4_ipv4udp src4 dst4 _ port payload hs.1 hd.1 hlen (by decide) hp

/-- **C16 (sFlow)**: the same for `mirrorSFlow` (source port 55118) -/
theorem mirror_sflow (max : Int) (src dst src4 dst4 : Bytes) (port : Nat) (payload : Bytes)
    (hs : IsV4 src src4) (hd : IsV4 dst dst4) (hmax : (payload.length : Int) ≤ max)
    (hlen : 28 + payload.length ≤ 65535) (hp : port < 65536) :
    parsed (assembleSFlow max src dst port payload) =
      some ⟨src4, dst4, 55118, port, 28 + payload.length, 8 + payload.length, payload⟩ := by
  unfold assembleSFlow
  rw [assembleFrom_eq sflowSrcPort max src dst src4 dst4 port payload hs hd hmax hlen (by decide) hp]
  exact parse4_ipv4udp src4 dst4 _ port payload hs.1 hd.1 hlen (by decide) hp

/-- non-vacuity: hypotheses are satisfiable and the statement computes on a concrete datagram
(4-octet source, 16-octet target, payload of exactly `max` octets) -/
example : IsV4 [192, 168, 1, 1] [192, 168, 1, 1] ∧ IsV4 (mapped [127, 0, 0, 1]) [127, 0, 0, 1] ∧
    parsed (assemble 3 [192, 168, 1, 1] (mapped [127, 0, 0, 1]) 4172 [1, 2, 3]) =
      some ⟨[192, 168, 1, 1], [127, 0, 0, 1], 55117, 4172, 31, 11, [1, 2, 3]⟩ := by
  refine ⟨⟨rfl, .inl rfl⟩, ⟨rfl, .inr rfl⟩, by decide⟩

/-- why the bound `28 + length ≤ 65535` is stated for a single datagram (and why `mirrorSeq_spec` asks
the kernel to refuse longer packets): `SetLen` adds in 16 bits, a payload of 65508 octets would get total
length 0 -/
theorem total_length_wraps :
    setLen4 (List.replicate 20 0) (65508 + 8) = .ok (List.replicate 20 0) := by decide

/-- non-vacuity of `mirrorSeq_spec`: a long datagram from a 16-octet source followed by a short one from
a 4-octet source through the same worker; the second packet carries nothing of the first -/
example : mirrorSeq (linkSend 1500) 55118 4 (mapped [127, 0, 0, 9]) 9 [(mapped [10, 0, 0, 1], [1, 2, 3, 4]), ([10, 0, 0, 2], [5])] =
    .ok [ipv4udp [10, 0, 0, 1] [127, 0, 0, 9] 55118 9 [1, 2, 3, 4], ipv4udp [10, 0, 0, 2] [127, 0, 0, 9] 55118 9 [5]] := by
  decide

/-- `linkSend` satisfies the hypothesis `hsend` for every MTU -/
theorem linkSend_refuses_long (mtu : Nat) : ∀ b : Bytes, 65535 < b.length → linkSend mtu b = false := by
  intro b h; simp [linkSend]; omega

/-- non-vacuity of the refused branch: path MTU 30; the 4-octet payload (32 octets on the wire) is refused,
the 1-octet payloads before and after it (other exporters) go out through the same worker -/
example : mirrorSeq (linkSend 30) 55117 4 (mapped [127, 0, 0, 9]) 9
      [([10, 0, 0, 1], [7]), (mapped [10, 0, 0, 2], [1, 2, 3, 4]), ([10, 0, 0, 3], [8])] =
    .ok [ipv4udp [10, 0, 0, 1] [127, 0, 0, 9] 55117 9 [7], ipv4udp [10, 0, 0, 3] [127, 0, 0, 9] 55117 9 [8]] := by
  decide

/-- non-vacuity of `mirror_spec`: an IPv6 exporter (2001:db8::1) between two IPv4 ones, five workers -/
example : mirrorAll (linkSend 1500) 55117 4 (mapped [127, 0, 0, 9]) 9 5
      [([10, 0, 0, 1], [7]), ([0x20, 0x01, 0x0d, 0xb8, 0, 0, 0, 0, 0, 0, 0, 0, 0, 0, 0, 1], [9, 9]), (mapped [10, 0, 0, 3], [8])] =
    .ok [ipv4udp [10, 0, 0, 1] [127, 0, 0, 9] 55117 9 [7], ipv4udp [10, 0, 0, 3] [127, 0, 0, 9] 55117 9 [8]] := by
  decide

/-! ## F25: the code before its `fix:` commit -/

/-- the worker loop before the fix: `if err = conn.Send(…); err != nil { return err }` — the first refused
packet ends the goroutine; what was sent until then is all that is ever sent -/
def runUnrepaired (send : Bytes → Bool) (w : Worker) (max : Int) (dst : Bytes) : List (Bytes × Bytes) → Res (List Bytes)
  | [] => .ok []
  | (src, payload) :: rest => do
    let (w', out) ← w.step max dst src payload
    if send out then
      let outs ← runUnrepaired send w' max dst rest
      .ok (out :: outs)
    else .ok []

def mirrorSeqUnrepaired (send : Bytes → Bool) (sport : Nat) (max : Int) (dst : Bytes) (port : Nat)
    (msgs : List (Bytes × Bytes)) : Res (List Bytes) := do
  let w ← Worker.init sport max dst port
  runUnrepaired send w max dst msgs

/-- F25 (a): path MTU 1500, a 1480-octet datagram (1508 on the wire) followed by a 100-octet one from
another exporter: before the fix nothing is mirrored (the worker is gone), after it the second datagram is
(corpus/C16/mirror--F25-send-error.txt, replayed on the code) -/
theorem f25_worker_counterexample :
    mirrorSeqUnrepaired (linkSend 1500) 55117 1500 (mapped [127, 0, 0, 1]) 4172
      [(mapped [10, 0, 0, 1], List.replicate 1480 1), (mapped [10, 0, 0, 2], List.replicate 100 2)] = .ok [] ∧
    mirrorSeq (linkSend 1500) 55117 1500 (mapped [127, 0, 0, 1]) 4172
      [(mapped [10, 0, 0, 1], List.replicate 1480 1), (mapped [10, 0, 0, 2], List.replicate 100 2)] =
      .ok [ipv4udp [10, 0, 0, 2] [127, 0, 0, 1] 55117 4172 (List.replicate 100 2)] := by
  decide +kernel

/-- the dispatcher before the fix: every datagram is queued for the workers of its own family; a queue
nobody reads holds `cap` datagrams (1000 in the code), the next one blocks the dispatcher for good.
Result: what reaches `ch4` (IPv4 target: only `ch4` has readers); `queued` = datagrams sitting in `ch6` -/
def toCh4Unrepaired (cap : Nat) (queued : Nat) : List (Bytes × Bytes) → List (Bytes × Bytes)
  | [] => []
  | x :: rest =>
    if (to4 x.1).isSome then x :: toCh4Unrepaired cap queued rest
    else if queued < cap then toCh4Unrepaired cap (queued + 1) rest
    else []

/-- F25 (b): before the fix, `cap + 1` datagrams of IPv6 exporters (from the start: 1001) end the mirroring of
EVERY later datagram, whatever follows; after the fix all later IPv4 datagrams still reach the workers -/
theorem f25_dispatcher_counterexample (cap q : Nat) (v6 : List (Bytes × Bytes)) (rest : List (Bytes × Bytes))
    (h6 : ∀ x ∈ v6, (to4 x.1).isSome = false) (hn : cap + 1 ≤ q + v6.length) (hq : q ≤ cap)
    (workers : Nat) (dst dst4 : Bytes) (hd : IsV4 dst dst4) (hw : 0 < workers) :
    toCh4Unrepaired cap q (v6 ++ rest) = [] ∧
    toCh4 (has4Of workers dst) (has6Of workers dst) (v6 ++ rest) = rest.filter (fun x => (to4 x.1).isSome) := by
  refine ⟨?_, ?_⟩
  · induction v6 generalizing q with
    | nil => simp at hn; omega
    | cons a t ih =>
      have ha := h6 a (by simp)
      simp only [List.cons_append, toCh4Unrepaired, ha, Bool.false_eq_true, ↓reduceIte]
      by_cases hlt : q < cap
      · simp only [hlt, ↓reduceIte]
        exact ih (q + 1) (fun y hy => h6 y (by simp [hy])) (by simp at hn; omega) (by omega)
      · simp only [hlt, ↓reduceIte]
  · rw [(toCh4_v4_target workers dst dst4 hd hw _).1, List.filter_append]
    have : v6.filter (fun x => (to4 x.1).isSome) = [] := by
      rw [List.filter_eq_nil_iff]
      intro x hx; simp [h6 x hx]
    rw [this, List.nil_append]

/-- non-vacuity of `f25_dispatcher_counterexample` with the code's queue length: 1001 datagrams from 2001:db8::1 -/
example : (List.replicate 1001 (([0x20, 0x01, 0x0d, 0xb8, 0, 0, 0, 0, 0, 0, 0, 0, 0, 0, 0, 1], [0]) : Bytes × Bytes)).length = 1000 + 1 ∧
    (to4 [0x20, 0x01, 0x0d, 0xb8, 0, 0, 0, 0, 0, 0, 0, 0, 0, 0, 0, 1]).isSome = false :=
  ⟨List.length_replicate .., by decide⟩

/-! ## F13: the code before the `fix:` commit -/

/-- `IPv4.SetAddrs` before the fix: `copy(b[12:16], src[12:16]); copy(b[16:20], dst[12:16])` -/
def setAddrsUnrepaired (b src dst : Bytes) : Res Bytes := do
  let s ← slice src 12 16
  let b ← copyInto b 12 16 s
  let d ← slice dst 12 16
  copyInto b 16 20 d

/-- the first message of a fresh worker before the fix: `packet = make([]byte, max)` -/
def assembleUnrepaired (sport : Nat) (max : Int) (src dst : Bytes) (port : Nat) (payload : Bytes) : Res Bytes := do
  let packet ← makeBytes max
  let udpHdr ← udpMarshal sport port
  if (to4 dst).isNone then .v6 else
  let ipHdr ← ipv4Tpl udpProto
  let ipHdr ← setAddrsUnrepaired ipHdr src dst
  let ipHdr ← setLen4 ipHdr (payload.length + udpHLen)
  let udpHdr ← udpSetLen udpHdr payload.length
  let packet ← copyInto packet 0 ipv4HLen ipHdr
  let packet ← copyInto packet ipv4HLen (ipv4HLen + 8) udpHdr
  let packet ← copyInto packet (ipv4HLen + 8) packet.length payload
  slice packet 0 (ipv4HLen + 8 + payload.length)

def isPanic {α : Type} : Res α → Bool
  | .panic _ => true
  | _ => false

/-- F13 (a): before the fix a payload of `max − 27` octets (37 with `max` = 64) panics in
`packet[0:ipHLen+8+pLen]`; the repaired model sends it (corpus/C16/mirror--f13.txt, replayed on the code) -/
theorem f13_buffer_counterexample :
    isPanic (assembleUnrepaired 55117 64 (mapped [192, 168, 1, 1]) (mapped [127, 0, 0, 1]) 4172 (List.replicate 37 7)) = true ∧
    isPanic (assembleFrom 55117 64 (mapped [192, 168, 1, 1]) (mapped [127, 0, 0, 1]) 4172 (List.replicate 37 7)) = false := by
  decide

/-- F13 (b): before the fix a 4-octet source address panics in `src[12:16]` -/
theorem f13_source_counterexample :
    isPanic (assembleUnrepaired 55117 64 [192, 168, 1, 1] (mapped [127, 0, 0, 1]) 4172 [104, 101, 108, 108, 111]) = true ∧
    isPanic (assembleFrom 55117 64 [192, 168, 1, 1] (mapped [127, 0, 0, 1]) 4172 [104, 101, 108, 108, 111]) = false := by
  decide

/-! ## the generated facts (re-extracted from the Go source on every run) tie the model's constants to the code -/

open Vflow.Gen.MirrorFacts in
/-- what the model transcribes of a mirror worker, written with the model's own constants: buffer of
`bufExtra + max` octets, `ipHLen = 20`, `SetLen(pLen + 8)`, `udp.SetLen(pLen)`, the three copies at
`[0:20]`, `[20:28]`, `[28:]`, `Send(packet[0 : 28 + pLen])`, `Put(msg.body[:max])`, the statement order, what
follows a failed `Send` (the error is logged, nothing else: `Worker.run` goes on with the next message) and
the absence of any statement that leaves the loop (`return`, `break`, `goto`, `panic`, `Fatal`, … at any depth) -/
def expectedWorker (sport : Nat) : Gen.MirrorFacts.Worker :=
  { bufSize := .lin bufExtra 0 1
    srcPort := .lin sport 0 0
    dstPort := "port"
    ipHLenV4 := .lin ipv4HLen 0 0
    pLenIs := "len(msg.body)"
    setLenArg := .lin udpHLen 1 0
    udpSetLenArg := .lin 0 1 0
    copies := [(.lin 0 0 0, .lin ipv4HLen 0 0, "ipHdr"),
               (.lin ipv4HLen 0 0, .lin (ipv4HLen + 8) 0 0, "udpHdr"),
               (.lin (ipv4HLen + 8) 0 0, .len, "msg.body")]
    sendLo := .lin 0 0 0
    sendHi := .lin (ipv4HLen + 8) 1 0
    putLo := .lin 0 0 0
    putHi := .lin 0 0 1
    loop := ["recv", "pLen", "SetAddrs(ipHdr,msg.raddr.IP,dst)", "SetLen", "udp.SetLen", "if !ipv4",
             "copy", "copy", "copy", "Put", "Send"]
    sendFail := ["logger.Println(err)"]
    exits := [] }

/-- `mirrorIPFIX` has the transcribed buffer size, offsets, bounds and statement order -/
theorem gen_mirrorIPFIX : Gen.MirrorFacts.mirrorIPFIX = expectedWorker ipfixSrcPort := by decide

/-- `mirrorSFlow` likewise -/
theorem gen_mirrorSFlow : Gen.MirrorFacts.mirrorSFlow = expectedWorker sflowSrcPort := by decide

open Vflow.Gen.MirrorFacts in
/-- what the model transcribes of a dispatcher (`route`, `has4Of`, `has6Of`, `toCh4`): `workers` workers are
started, all on the channel of the target's family, which sets `has4` / `has6`; the endless loop takes a datagram
and queues it on `ch4` (IPv4 exporter and a worker reads `ch4`), on `ch6` (other exporter and a worker reads
`ch6`), or puts its buffer back (`msg.body[:max]`, as the worker does) — it never queues for a channel nobody
reads; nothing leaves the loop.  `chanT` / `flag` / `worker` / `pool` / `optPrefix` are the protocol's names. -/
def expectedDispatcher (chanT flag worker pool optPrefix name : String) : Gen.MirrorFacts.Dispatcher :=
  { decls := ["ch4 = make(chan " ++ chanT ++ ", 1000)", "ch6 = make(chan " ++ chanT ++ ", 1000)", "msg " ++ chanT, "has4, has6 bool"]
    guard := ["if opts." ++ optPrefix ++ "MirrorAddr == \"\" { return }"]
    spawnHead := ["for w := 0; w < opts." ++ optPrefix ++ "MirrorWorkers; w++"]
    spawn := ["dst := net.ParseIP(opts." ++ optPrefix ++ "MirrorAddr)", "if dst.To4() != nil",
              "then: go " ++ worker ++ "(dst, opts." ++ optPrefix ++ "MirrorPort, ch4); has4 = true",
              "else: go " ++ worker ++ "(dst, opts." ++ optPrefix ++ "MirrorPort, ch6); has6 = true"]
    between := [flag ++ " = true",
                "logger.Printf(\"" ++ name ++ " mirror service is running (workers#: %d) ...\", opts." ++ optPrefix ++ "MirrorWorkers)"]
    loop := ["msg = <-ch", "switch v4 := msg.raddr.IP.To4() != nil", "case v4 && has4: ch4 <- msg",
             "case !v4 && has6: ch6 <- msg", "default: " ++ pool ++ ".Put(msg.body[:opts." ++ optPrefix ++ "UDPSize])"]
    exits := [] }

/-- `mirrorIPFIXDispatcher` is the transcribed dispatcher -/
theorem gen_ipfixDispatcher : Gen.MirrorFacts.ipfixDispatcher =
    expectedDispatcher "IPFIXUDPMsg" "ipfixMirrorEnabled" "mirrorIPFIX" "ipfixBuffer" "IPFIX" "ipfix" := by decide

/-- `mirrorSFlowDispatcher` likewise -/
theorem gen_sflowDispatcher : Gen.MirrorFacts.sflowDispatcher =
    expectedDispatcher "SFUDPMsg" "sFlowMirrorEnabled" "mirrorSFlow" "sFlowBuffer" "SFlow" "sflow" := by decide

/-- the model's `route` is the dispatch `switch`, case by case -/
theorem route_cases (has4 has6 : Bool) (src : Bytes) :
    (route has4 has6 src = .ch4 ↔ ((to4 src).isSome = true ∧ has4 = true)) ∧
    (route has4 has6 src = .ch6 ↔ ((to4 src).isSome = false ∧ has6 = true)) := by
  unfold route
  cases (to4 src).isSome <;> cases has4 <;> cases has6 <;> simp

/-- the constants of package mirror -/
theorem gen_consts : Gen.MirrorFacts.constIPv4HLen = ipv4HLen ∧ Gen.MirrorFacts.constIPv6HLen = ipv6HLen ∧
    Gen.MirrorFacts.constUDPHLen = udpHLen ∧ Gen.MirrorFacts.constUDPProto = udpProto := by decide

/-- the header helpers of package mirror are, statement for statement, what `ipv4Tpl`, `setLen4`,
`setAddrs`, `udpMarshal`, `udpSetLen` transcribe (template values, octet offsets 0,1,2,6,7,8,9 / 2 /
12..16,16..20 with `To4` / 0,2,4,6 / 4) -/
theorem gen_headers :
    Gen.MirrorFacts.newIPv4HeaderTpl =
      ["return IPv4{ Version: 4, IHL: 5, TOS: 0, TTL: 64, Protocol: uint8(proto), }"] ∧
    Gen.MirrorFacts.ipv4Marshal =
      ["b := make([]byte, IPv4HLen)", "b[0] = byte((ip.Version << 4) | ip.IHL)", "b[1] = byte(ip.TOS)",
       "binary.BigEndian.PutUint16(b[2:], ip.Length)", "b[6] = byte(0)", "b[7] = byte(0)",
       "b[8] = byte(ip.TTL)", "b[9] = byte(ip.Protocol)", "return b"] ∧
    Gen.MirrorFacts.ipv4SetLen = ["binary.BigEndian.PutUint16(b[2:], IPv4HLen+uint16(n))"] ∧
    Gen.MirrorFacts.ipv4SetAddrs = ["copy(b[12:16], src.To4())", "copy(b[16:20], dst.To4())"] ∧
    Gen.MirrorFacts.udpMarshal =
      ["b := make([]byte, UDPHLen)", "binary.BigEndian.PutUint16(b[0:], uint16(u.SrcPort))",
       "binary.BigEndian.PutUint16(b[2:], uint16(u.DstPort))",
       "binary.BigEndian.PutUint16(b[4:], uint16(UDPHLen+u.Length))",
       "binary.BigEndian.PutUint16(b[6:], uint16(u.Checksum))", "return b"] ∧
    Gen.MirrorFacts.udpSetLen = ["binary.BigEndian.PutUint16(b[4:], uint16(UDPHLen+n))"] := by decide

/-- "never changes what is decoded": the decoding worker hands the mirror a **copy** of the datagram in
its own pool buffer (`append(mirror.body[:0], msg.body...)`) and never blocks on the mirror queue
(`select … default`); the mirror path therefore shares no octets with what is decoded (the decode side
is C12's subject) -/
theorem gen_hand_over :
    Gen.MirrorFacts.ipfixHandOver =
      ["mirror.body = ipfixBuffer.Get().([]byte)", "mirror.raddr = msg.raddr",
       "mirror.body = append(mirror.body[:0], msg.body...)",
       "select { case ipfixMCh <- mirror: default: }"] ∧
    Gen.MirrorFacts.sflowHandOver =
      ["mirror.raddr = msg.raddr", "mirror.body = sFlowBuffer.Get().([]byte)",
       "mirror.body = append(mirror.body[:0], msg.body...)",
       "select { case sFlowMCh <- mirror: default: }"] := by decide

end Vflow.C16
