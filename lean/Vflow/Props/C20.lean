import Vflow.Gen.InfoModelTbl
import Vflow.Gen.InterpretTbl
import Vflow.Spec.Registry
import Vflow.Model.Flow
import Vflow.Gen.ShutdownIR
/-!
# C20 — built-in and shipped IPFIX information models agree

Every statement is about the tables *regenerated from the current source* by factgen
(`Vflow.Gen.InfoModelTbl`: the `InfoModel` literal, the `FieldTypes` map, the iota block of
`ipfix/rfc5102_model.go`; `scripts/ipfix.elements`), so `lake build` re-decides them against what
the code says now.  The space is finite (402 + 402 entries) and fully enumerated by the kernel.
-/
namespace Vflow.C20
open Vflow Vflow.Gen.InfoModelTbl

/-- the built-in table as `LoadExtElements` would rebuild it: (pen, id, name, type name) -/
def builtinAsShipped : List (Nat × Nat × String × String) :=
  builtin.map fun r => (r.1, r.2.1, r.2.2.2.1, r.2.2.2.2)

/-- **C20 (equality)**: the built-in model and the shipped file define the same elements with
identical names and abstract data types -/
theorem builtin_eq_shipped : builtinAsShipped = shipped := by decide +kernel

/-- the YAML-subset parser of factgen recognised every line of the shipped file -/
theorem shipped_fully_parsed : shippedUnrecognised = [] := by decide

/-- **C20 (self-keyed)**: every entry is keyed by its own element id -/
theorem builtin_self_keyed : ∀ r ∈ builtin, r.2.2.1 = r.2.1 := by decide +kernel

/-- keys are duplicate-free (the table is sorted strictly by (pen, id)) -/
def strictlySorted : List (Nat × Nat) → Bool
  | a :: b :: t => (a.1 < b.1 || (a.1 == b.1 && a.2 < b.2)) && strictlySorted (b :: t)
  | _ => true
theorem builtin_keys_distinct : strictlySorted (builtin.map fun r => (r.1, r.2.1)) = true := by decide +kernel
theorem shipped_keys_distinct : strictlySorted (shipped.map fun r => (r.1, r.2.1)) = true := by decide +kernel

/-- **C20 (recognised types)**: every type name is in the generated `FieldTypes` map, or is one of the
three RFC 6313 structured types (basicList 291, subTemplateList 292, subTemplateMultiList 293), which resolve to
`Unknown` on both load paths: the collector does not interpret structured data and reports such a field as its
octets.  These elements are always sent variable-length (specifier length 65535); until the F23 repair the decoder
honoured the marker only for string / octetArray elements, so a data set of a template containing one of them lost
the whole message — they were excluded from C03's well-formedness predicate for that reason and are inside it now
(`C03.f23_repaired`; `structured_elements_unknown` below pins how they resolve). -/
theorem builtin_types_recognised :
    ∀ r ∈ builtin, (fieldTypes.map (·.1)).contains r.2.2.2.2 = true ∨ r.2.2.2.2 ∈ Spec.structuredTypes := by
  decide +kernel
theorem shipped_types_recognised :
    ∀ r ∈ shipped, (fieldTypes.map (·.1)).contains r.2.2.2 = true ∨ r.2.2.2 ∈ Spec.structuredTypes := by
  decide +kernel

/-- the three structured-data elements are in the decoder's table, keyed by their own ids, with type index 0 (`Unknown`):
`interpret` returns their octets for every length -/
theorem structured_elements_unknown :
    Vflow.lookupElem 0 291 = some (291, 0) ∧ Vflow.lookupElem 0 292 = some (292, 0) ∧
    Vflow.lookupElem 0 293 = some (293, 0) ∧ ∀ b : Bytes, Vflow.interpret b 0 = .raw b := by
  refine ⟨by decide +kernel, by decide +kernel, by decide +kernel, fun b => ?_⟩
  simp [Vflow.interpret, Vflow.minLen, Vflow.isUintT, Vflow.isIntT]

/-- the generated `FieldTypes` map is the registry's type table (names and FieldType indices) -/
theorem fieldTypes_eq_registry : fieldTypes = Spec.registryTypes := by decide

/-- **C20 (snapshot)**: both tables equal the committed registry snapshot the decoders are validated against -/
theorem shipped_eq_snapshot : shipped = Spec.registrySnapshot := by decide +kernel
theorem builtin_eq_snapshot : builtinAsShipped = Spec.registrySnapshot := by
  rw [builtin_eq_shipped]; exact shipped_eq_snapshot

/-- the table the decoder model uses (`infoModelTbl`) is the built-in table with each type name
resolved through `FieldTypes` — i.e. `InfoModel` as a function, before *and* after
`LoadExtElements` on the shipped file (by `builtin_eq_shipped` both paths build the same map) -/
theorem decoder_table_is_builtin :
    infoModelTbl.toList = builtin.map (fun r => (r.1, r.2.1, r.2.2.1, typeIndex r.2.2.2.2)) := by
  decide +kernel

/-- "decoding does not change depending on whether the file is installed": resolving the shipped
rows gives exactly the decoder table -/
theorem decoder_table_is_shipped :
    infoModelTbl.toList = shipped.map (fun r => (r.1, r.2.1, r.2.1, typeIndex r.2.2.2)) := by
  decide +kernel

/-- over regenerated facts: `LoadExtElements` builds each entry as the theorems above assume — keyed by
(PEN, element id), FieldID = the element id, type = the `FieldTypes` lookup of the row's type name
(a missing name giving `Unknown`) -/
theorem load_path_as_modelled :
    loadExtAssignment =
      "InfoModel[ElementKey{PEN, elementID}] = InfoElementEntry{FieldID: elementID, Name: prop[0], Type: FieldTypes[prop[1]]}" := by
  decide +kernel

/-! ## The hand-written model's `minLen` / `interpret` agree with the generated switch tables -/

/-- `minLen` of the generated switch of `ipfix/interpret.go` -/
def genMinLen (t : Nat) : Option String :=
  match Gen.InterpretTbl.minLen.find? (·.1 = t) with
  | some e => some e.2
  | none => (Gen.InterpretTbl.minLen.find? (·.1 = 9998)).map (·.2)   -- default arm

theorem minLen_matches_source : ∀ t ∈ List.range 21, genMinLen t = some (toString (Vflow.minLen t)) := by
  decide

/-- the result kind of the generated `Interpret` switch, per FieldType -/
def genKind (t : Nat) : Option String := (Gen.InterpretTbl.interpretKind.find? (·.1 = t)).map (·.2)

/-- the helper the over-long branch of the generated `Interpret` (`if len(*b) > t.minLen() { switch t … }`, F24 repair)
calls for FieldType `t`, if any -/
def genWide (t : Nat) : Option String := (Gen.InterpretTbl.interpretWide.find? (·.1 = t)).map (·.2)

/-- the result kind the SOURCE gives a field of `n` octets of FieldType `t`, read off the regenerated facts: the guard
(`minLen`, tied to the generated switch by `minLen_matches_source`), the over-long branch (helper by `interpretWide`;
both helpers return the octets as they are when there are more than 8 and a 64-bit integer otherwise: their statements
are pinned in `interpret_wide_matches_source`), the main switch -/
def srcKind (t n : Nat) : Option String :=
  if n < Vflow.minLen t then some "raw"
  else if n > Vflow.minLen t ∧ (genWide t).isSome then
    (if genWide t = some "wideUint" then some (if n > 8 then "raw" else "u64")
     else if genWide t = some "wideInt" then some (if n > 8 then "raw" else "i64")
     else none)
  else genKind t

/-- every FieldType × every field length 0..20 (shorter than, equal to and longer than every type's size, below and
above 8 octets): `interpret` yields the kind the source returns -/
theorem interpret_kind_matches_source :
    ∀ t ∈ List.range 21, ∀ n ∈ List.range 21,
      srcKind t n = some (Vflow.interpret (List.replicate n 1) t).kind := by
  decide +kernel

/-- the statements of `Interpret` in order: guard, over-long branch, switch, final return; `minLen` is one switch -/
theorem interpret_guard_matches_source :
    Gen.InterpretTbl.interpretKindOther =
      ["if len(*b) < t.minLen() { return *b }", "if len(*b) > t.minLen() { switch t <interpretWide> }",
       "switch t <interpretKind>", "return *b"] ∧
    Gen.InterpretTbl.minLenOther = ["switch t <minLen>"] := by decide

/-- the over-long branch sends exactly the unsigned types to `wideUint` and the signed ones to `wideInt` (the model's
`isUintT` / `isIntT`), and the two helpers are, statement by statement, what `Vflow.wideUint` / `Vflow.wideInt`
transcribe; no further function in the file -/
theorem interpret_wide_matches_source :
    (∀ t ∈ List.range 21, genWide t =
      if Vflow.isUintT t then some "wideUint" else if Vflow.isIntT t then some "wideInt" else none) ∧
    Gen.InterpretTbl.interpretWide.length = 8 ∧
    Gen.InterpretTbl.wideUintBody =
      ["func(b []byte) interface{}", "if len(b) > 8 { return b }", "var v uint64",
       "for _, x := range b { v = v<<8 | uint64(x) }", "return v"] ∧
    Gen.InterpretTbl.wideIntBody =
      ["func(b []byte) interface{}", "if len(b) > 8 { return b }", "var v uint64",
       "for _, x := range b { v = v<<8 | uint64(x) }", "shift := uint(64 - 8*len(b))",
       "return int64(v<<shift) >> shift"] ∧
    Gen.InterpretTbl.interpretFuncs = ["Interpret", "wideUint", "wideInt", "minLen"] := by
  decide +kernel

/-- the FieldType constants the decoder model hard-codes -/
theorem model_type_constants : typeIndex "string" = Vflow.tString ∧ typeIndex "octetArray" = Vflow.tOctets := by
  decide

/-- non-vacuity: the tables are the real ones (402 entries each, first and last element) -/
example : builtin.length = 402 ∧ shipped.length = 402 ∧
    builtin.head? = some (0, 1, 1, "octetDeltaCount", "unsigned64") ∧
    shipped.getLast? = some (0, 433, "ignoredLayer2FrameTotalCount", "unsigned64") := by decide +kernel

/-! ## "does not change depending on whether the file is installed": the load happens before anything decodes

`LoadExtElements` replaces the global `ipfix.InfoModel` map (a `make` followed by one assignment per row) that the
IPFIX **and the NetFlow v9** decoders read.  F18: it used to be called from `IPFIX.run()`, after the IPFIX workers had
been started and next to the already running NetFlow v9 listener — a datagram decoded at that moment ended the process
(`fatal error: concurrent map read and map write`), so with the file installed the collector could die at start-up.
The repaired `main` loads the file before any protocol is started; the two regenerated facts below pin that down. -/

/-- the only run-time writers of the shared model: `main` (the one call of the loader) and the loader itself -/
theorem gen_model_writers :
    Gen.InfoModelTbl.modelWriters =
      ["vflow/vflow.go main: call ipfix.LoadExtElements",
       "ipfix/rfc5102_model.go LoadExtElements: assign InfoModel",
       "ipfix/rfc5102_model.go LoadExtElements: assign InfoModel[ElementKey{PEN, elementID}]"] := by decide

/-- in `main` the load comes before the statement that spawns the four `run()` loops: apart from statements that
synchronise with nothing (`.setUp`), `main` begins with the signal channel, `signal.Notify`, the options, the load — under
the guard "the IPFIX or the NetFlow v9 listener is switched on" (F34 repair) —, and only then the start of the listeners
(nothing unrecognised in between) -/
theorem gen_load_before_listeners :
    (Gen.ShutdownIR.mainSteps.filter (· ≠ .setUp)).take 5 =
      [.makeSignalChan 1, .notifySigintSigterm, .getOptions, .loadElementsIf ["IPFIXEnabled", "NetflowV9Enabled"],
       .spawnRunsCounted] := by decide

/-! ## … and whichever decoder reads the model is switched on (F34)

The load in `main` stands under a guard. F34: the guard named the IPFIX switch alone (F18 had moved the call out of the
IPFIX listener together with the test it stood under there), so with `-ipfix-enabled=false` the NetFlow v9 decoder — which
reads the same map — never saw the extension elements of the installed file: its decoding depended on the switch of
another protocol. The obligation below is stated over regenerated facts so that a future third reader is caught: every
package whose functions index `ipfix.InfoModel` (`modelReaders`) must be the decoder package of a listener
(`decoderSwitches`: which package's `New…Decoder` the listener's workers call, which option its `run()` tests first), and
that listener's switch must be one of the disjuncts of the guard. -/

/-- the guard the load of `main` stands under: `none` = unconditional (then every reader is covered) -/
def loadGuard (ms : List Shutdown.MStep) : Option (Option (List String)) :=
  ms.findSome? fun
    | .loadElementsIf g => some (some g)
    | .loadElements => some none
    | _ => none

/-- every reader of the model is the decoder of a listener whose switch is in the guard `g` -/
def guardCovers (readers : List String) (switches : List (String × String)) (g : Option (Option (List String))) : Bool :=
  match g with
  | none => false                      -- no load at all
  | some none => true                  -- unconditional
  | some (some opts) => readers.all fun pkg => switches.any fun sw => sw.1 == pkg && opts.contains sw.2

/-- the packages that read the shared model, and which listener decodes with which package under which switch -/
theorem gen_model_readers :
    Gen.InfoModelTbl.modelReaders = ["ipfix", "netflow/v9"] ∧
    Gen.ShutdownIR.decoderSwitches = [("ipfix", "IPFIXEnabled"), ("netflow/v9", "NetflowV9Enabled"),
                                      ("netflow/v5", "NetflowV5Enabled"), ("sflow", "SFlowEnabled")] := by decide

/-- **the obligation**: every package that reads `ipfix.InfoModel` is the decoder of a listener whose switch is a
disjunct of the guard of the load (stated on the regenerated lists themselves, not on their pinned values: a third reader,
a reader that is no listener's decoder, or a guard that loses a disjunct makes it false) -/
theorem gen_load_guard_covers_readers :
    guardCovers Gen.InfoModelTbl.modelReaders Gen.ShutdownIR.decoderSwitches (loadGuard Gen.ShutdownIR.mainSteps) = true := by
  decide

/-- regression witness (the guard before the F34 repair, `if opts.IPFIXEnabled`): the NetFlow v9 reader is not covered;
and the obligation is sensitive to a third reader and to a reader that is not a listener's decoder -/
theorem f34_old_guard_misses_v9 :
    guardCovers Gen.InfoModelTbl.modelReaders Gen.ShutdownIR.decoderSwitches (some (some ["IPFIXEnabled"])) = false ∧
    guardCovers ("sflow" :: Gen.InfoModelTbl.modelReaders) Gen.ShutdownIR.decoderSwitches (loadGuard Gen.ShutdownIR.mainSteps) = false ∧
    guardCovers ("producer" :: Gen.InfoModelTbl.modelReaders) Gen.ShutdownIR.decoderSwitches (loadGuard Gen.ShutdownIR.mainSteps) = false ∧
    guardCovers Gen.InfoModelTbl.modelReaders Gen.ShutdownIR.decoderSwitches (loadGuard []) = false := by decide

end Vflow.C20
