import Vflow.Gen.InfoModelTbl
import Vflow.Gen.InterpretTbl
import Vflow.Spec.Registry
import Vflow.Model.Flow
import Vflow.Gen.ShutdownIR
/-!
# C20 — built-in and shipped IPFIX information models agree

Every statement is about the tables *regenerated from the current source* by factgen
(`Vflow.Gen.InfoModelTbl`: the `InfoModel` literal, the `FieldTypes` map, the iota block of
`ipfix/rfc5102_model.go`; `scripts/ipfix.elements`), so `lake build` re-decides them against what
the code says now.  The space is finite (402 + 402 entries) and fully enumerated by the kernel.
-/
namespace Vflow.C20
open Vflow Vflow.Gen.InfoModelTbl

/-- the built-in table as `LoadExtElements` would rebuild it: (pen, id, name, type name) -/
def builtinAsShipped : List (Nat × Nat × String × String) :=
  builtin.map fun r => (r.1, r.2.1, r.2.2.2.1, r.2.2.2.2)

/-- **C20 (equality)**: the built-in model and the shipped file define the same elements with
identical names and abstract data types -/
theorem builtin_eq_shipped : builtinAsShipped = shipped := by decide +kernel

/-- the YAML-subset parser of factgen recognised every line of the shipped file -/
theorem shipped_fully_parsed : shippedUnrecognised = [] := by decide

/-- **C20 (self-keyed)**: every entry is keyed by its own element id -/
theorem builtin_self_keyed : ∀ r ∈ builtin, r.2.2.1 = r.2.1 := by decide +kernel

/-- keys are duplicate-free (the table is sorted strictly by (pen, id)) -/
def strictlySorted : List (Nat × Nat) → Bool
  | a :: b :: t => (a.1 < b.1 || (a.1 == b.1 && a.2 < b.2)) && strictlySorted (b :: t)
  | _ => true
theorem builtin_keys_distinct : strictlySorted (builtin.map fun r => (r.1, r.2.1)) = true := by decide +kernel
theorem shipped_keys_distinct : strictlySorted (shipped.map fun r => (r.1, r.2.1)) = true := by decide +kernel

/-- **C20 (recognised types)**: every type name is in the generated `FieldTypes` map, or is one of the
three RFC 6313 structured types, which resolve to `Unknown` on both load paths -/
theorem builtin_types_recognised :
    ∀ r ∈ builtin, (fieldTypes.map (·.1)).contains r.2.2.2.2 = true ∨ r.2.2.2.2 ∈ Spec.structuredTypes := by
  decide +kernel
theorem shipped_types_recognised :
    ∀ r ∈ shipped, (fieldTypes.map (·.1)).contains r.2.2.2 = true ∨ r.2.2.2 ∈ Spec.structuredTypes := by
  decide +kernel

/-- the generated `FieldTypes` map is the registry's type table (names and FieldType indices) -/
theorem fieldTypes_eq_registry : fieldTypes = Spec.registryTypes := by decide

/-- **C20 (snapshot)**: both tables equal the committed registry snapshot the decoders are validated against -/
theorem shipped_eq_snapshot : shipped = Spec.registrySnapshot := by decide +kernel
theorem builtin_eq_snapshot : builtinAsShipped = Spec.registrySnapshot := by
  rw [builtin_eq_shipped]; exact shipped_eq_snapshot

/-- the table the decoder model uses (`infoModelTbl`) is the built-in table with each type name
resolved through `FieldTypes` — i.e. `InfoModel` as a function, before *and* after
`LoadExtElements` on the shipped file (by `builtin_eq_shipped` both paths build the same map) -/
theorem decoder_table_is_builtin :
    infoModelTbl.toList = builtin.map (fun r => (r.1, r.2.1, r.2.2.1, typeIndex r.2.2.2.2)) := by
  decide +kernel

/-- "decoding does not change depending on whether the file is installed": resolving the shipped
rows gives exactly the decoder table -/
theorem decoder_table_is_shipped :
    infoModelTbl.toList = shipped.map (fun r => (r.1, r.2.1, r.2.1, typeIndex r.2.2.2)) := by
  decide +kernel

/-- over regenerated facts: `LoadExtElements` builds each entry as the theorems above assume — keyed by
(PEN, element id), FieldID = the element id, type = the `FieldTypes` lookup of the row's type name
(a missing name giving `Unknown`) -/
theorem load_path_as_modelled :
    loadExtAssignment =
      "InfoModel[ElementKey{PEN, elementID}] = InfoElementEntry{FieldID: elementID, Name: prop[0], Type: FieldTypes[prop[1]]}" := by
  decide +kernel

/-! ## The hand-written model's `minLen` / `interpret` agree with the generated switch tables -/

/-- `minLen` of the generated switch of `ipfix/interpret.go` -/
def genMinLen (t : Nat) : Option String :=
  match Gen.InterpretTbl.minLen.find? (·.1 = t) with
  | some e => some e.2
  | none => (Gen.InterpretTbl.minLen.find? (·.1 = 9998)).map (·.2)   -- default arm

theorem minLen_matches_source : ∀ t ∈ List.range 21, genMinLen t = some (toString (Vflow.minLen t)) := by
  decide

/-- the result kind of the generated `Interpret` switch, per FieldType -/
def genKind (t : Nat) : Option String := (Gen.InterpretTbl.interpretKind.find? (·.1 = t)).map (·.2)

/-- a probe long enough for every type: `interpret` yields the kind the source switch returns -/
theorem interpret_kind_matches_source :
    ∀ t ∈ List.range 21, genKind t = some (Vflow.interpret (List.replicate 16 1) t).kind := by
  decide

theorem interpret_guard_matches_source :
    Gen.InterpretTbl.interpretKindOther = ["if len(*b) < t.minLen() { return *b }", "return *b"] ∧
    Gen.InterpretTbl.minLenOther = [] := by decide

/-- the FieldType constants the decoder model hard-codes -/
theorem model_type_constants : typeIndex "string" = Vflow.tString ∧ typeIndex "octetArray" = Vflow.tOctets := by
  decide

/-- non-vacuity: the tables are the real ones (402 entries each, first and last element) -/
example : builtin.length = 402 ∧ shipped.length = 402 ∧
    builtin.head? = some (0, 1, 1, "octetDeltaCount", "unsigned64") ∧
    shipped.getLast? = some (0, 433, "ignoredLayer2FrameTotalCount", "unsigned64") := by decide +kernel

/-! ## "does not change depending on whether the file is installed": the load happens before anything decodes

`LoadExtElements` replaces the global `ipfix.InfoModel` map (a `make` followed by one assignment per row) that the
IPFIX **and the NetFlow v9** decoders read.  F18: it used to be called from `IPFIX.run()`, after the IPFIX workers had
been started and next to the already running NetFlow v9 listener — a datagram decoded at that moment ended the process
(`fatal error: concurrent map read and map write`), so with the file installed the collector could die at start-up.
The repaired `main` loads the file before any protocol is started; the two regenerated facts below pin that down. -/

/-- the only run-time writers of the shared model: `main` (the one call of the loader) and the loader itself -/
theorem gen_model_writers :
    Gen.InfoModelTbl.modelWriters =
      ["vflow/vflow.go main: call ipfix.LoadExtElements",
       "ipfix/rfc5102_model.go LoadExtElements: assign InfoModel",
       "ipfix/rfc5102_model.go LoadExtElements: assign InfoModel[ElementKey{PEN, elementID}]"] := by decide

/-- in `main` the load comes before the statement that spawns the four `run()` loops (and nothing unrecognised in between) -/
theorem gen_load_before_listeners :
    Gen.ShutdownIR.mainSteps.take 3 = [.notifySigintSigterm, .loadElements, .spawnRunsCounted] := by decide

end Vflow.C20
