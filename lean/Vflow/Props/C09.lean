import Vflow.Proofs.TruncV9
import Vflow.Proofs.TruncIpfix
/-!
# C09 — an undecodable set never corrupts its neighbours; truncation never fabricates

Statements about the two executable decoder models `Vflow.Ipfix.decode` / `Vflow.V9.decode`
(tied to `ipfix/decoder.go` and `netflow/v9/decoder.go` by the differential correspondence).
All theorems quantify over every template cache `c`, exporter address `addr`, octet string `bs`
and truncation length `n`.  Helper lemmas: `Vflow/Proofs/Trunc*.lean`, `Vflow/Proofs/Skip*.lean`.
-/
namespace Vflow.C09
open Vflow

/-! ## Concrete messages for the non-vacuity examples

One template set (template 256: sourceIPv4Address, destinationIPv4Address), then two data sets of
one 8-octet record each. -/

def exAddr : Bytes := [127, 0, 0, 1]
def exRec1 : Record := [⟨8, 0, .ip [10, 0, 0, 1]⟩, ⟨12, 0, .ip [10, 0, 0, 2]⟩]
def exRec2 : Record := [⟨8, 0, .ip [10, 0, 0, 3]⟩, ⟨12, 0, .ip [10, 0, 0, 4]⟩]
def exData1 : Bytes := [1, 0, 0, 12, 10, 0, 0, 1, 10, 0, 0, 2]
def exData2 : Bytes := [1, 0, 0, 12, 10, 0, 0, 3, 10, 0, 0, 4]
/-- a set whose declared length is 2 (< 4): fatal `badSetLen` -/
def exBadSet : Bytes := [1, 0, 0, 2, 0]

def v9Hdr : Bytes := [0, 9, 0, 3, 0, 0, 0, 1, 0, 0, 0, 2, 0, 0, 0, 3, 0, 0, 0, 4]
def v9Tpl : Bytes := [0, 0, 0, 16, 1, 0, 0, 2, 0, 8, 0, 4, 0, 12, 0, 4]
def v9Msg : Bytes := v9Hdr ++ v9Tpl ++ exData1 ++ exData2

def ipfixHdr : Bytes := [0, 10, 0, 56, 0, 0, 0, 1, 0, 0, 0, 2, 0, 0, 0, 3]
def ipfixTpl : Bytes := [0, 2, 0, 16, 1, 0, 0, 2, 0, 8, 0, 4, 0, 12, 0, 4]
def ipfixMsg : Bytes := ipfixHdr ++ ipfixTpl ++ exData1 ++ exData2

/-! ## (b) Truncation ⇒ prefix -/

/-- **C09(b), NetFlow v9, no hypothesis.**  Cut the datagram `bs` after any `n` octets.  Either the
truncated decode emits no record at all, or the full decode got past the packet header and what the
truncated decode emits is a prefix of the records the full run had accumulated when its set loop
stopped (`V9.finalSt`: the state of the `for d.reader.Len() > 4` loop at its end, whether it ended
normally, with a fatal error or by running out of model fuel). -/
theorem V9.truncation_prefix_state (c : Cache) (addr bs : Bytes) (n : Nat) :
    V9.recordsOf (V9.decode c addr (bs.take n)).1 = [] ∨
    ∃ st, V9.finalSt c addr bs = some st ∧ V9.recordsOf (V9.decode c addr (bs.take n)).1 <+: st.recs :=
  Vflow.V9.truncation_prefix_state c addr bs n

/-- **C09(b), NetFlow v9.**  If the full decode does not fail (`Decode` returns a message, possibly
with non-fatal errors), the records decoded from any truncation of the datagram are a prefix of the
records decoded from the whole datagram.

The hypothesis excludes exactly the inputs on which the *full* decode returns `(nil, err)` (fatal
error: short read, bad version, bad set length, or the model's `fuel`).  It cannot be dropped: when
the full decode fails it hands out *no* records, whereas a truncation that ends before the offending
set decodes cleanly and hands out the records before it (`V9.truncation_prefix_unconditional_counterexample`).
No separate fuel hypothesis is needed: a truncated run that exhausts its (smaller) fuel emits nothing. -/
theorem V9.truncation_prefix (c : Cache) (addr bs : Bytes) (n : Nat)
    {m : Hdr × List Record × List Err} (hok : (V9.decode c addr bs).1 = .ok m) :
    V9.recordsOf (V9.decode c addr (bs.take n)).1 <+: V9.recordsOf (V9.decode c addr bs).1 := by
  obtain ⟨h, recs, errs⟩ := m
  obtain ⟨st, hst, hrecs⟩ := Vflow.V9.decode_ok_finalSt hok
  rcases Vflow.V9.truncation_prefix_state c addr bs n with h0 | ⟨st', hst', hpre⟩
  · rw [h0]; exact List.nil_prefix
  · rw [hst] at hst'
    simp only [Option.some.injEq] at hst'
    subst hst'
    rw [hok]
    simpa [V9.recordsOf, hrecs] using hpre

set_option maxRecDepth 100000 in
/-- the unconditional form of `V9.truncation_prefix` is false: header, template, one data set, then a
set with declared length 2.  The whole datagram is rejected (`badSetLen`, no records); cut after the
data set it decodes to one record. -/
theorem V9.truncation_prefix_unconditional_counterexample :
    ∃ (c : Cache) (addr bs : Bytes) (n : Nat),
      ¬ (V9.recordsOf (V9.decode c addr (bs.take n)).1 <+: V9.recordsOf (V9.decode c addr bs).1) :=
  ⟨[], exAddr, v9Hdr ++ v9Tpl ++ exData1 ++ exBadSet, 48, by decide⟩

set_option maxRecDepth 100000 in
/-- non-vacuity of `V9.truncation_prefix`: the full datagram decodes to two records, cut after the
first data set (and two octets into the next set header) to exactly the first one, cut inside the
second data set to nothing -/
example :
    (V9.decode [] exAddr v9Msg).1 = .ok ([9, 3, 1, 2, 3, 4], [exRec1, exRec2], []) ∧
    V9.recordsOf (V9.decode [] exAddr (v9Msg.take 50)).1 = [exRec1] ∧
    V9.recordsOf (V9.decode [] exAddr (v9Msg.take 59)).1 = [] := ⟨rfl, rfl, rfl⟩

set_option maxRecDepth 100000 in
example : V9.recordsOf (V9.decode [] exAddr (v9Msg.take 50)).1 <+: V9.recordsOf (V9.decode [] exAddr v9Msg).1 :=
  V9.truncation_prefix [] exAddr v9Msg 50 (m := ([9, 3, 1, 2, 3, 4], [exRec1, exRec2], [])) rfl

/-- **C09(b), IPFIX, no hypothesis.**  As `V9.truncation_prefix_state`. -/
theorem Ipfix.truncation_prefix_state (c : Cache) (addr bs : Bytes) (n : Nat) :
    Ipfix.recordsOf (Ipfix.decode c addr (bs.take n)).1 = [] ∨
    ∃ st, Ipfix.finalSt c addr bs = some st ∧
      Ipfix.recordsOf (Ipfix.decode c addr (bs.take n)).1 <+: st.recs :=
  Vflow.Ipfix.truncation_prefix_state c addr bs n

/-- **C09(b), IPFIX.**  If the full decode does not fail, the records decoded from any truncation of
the message are a prefix of the records decoded from the whole message.

The hypothesis excludes exactly the inputs on which the *full* decode returns `(nil, err)` (short
read, bad version, bad set length, set id 0/1 in the record loop, empty data record, or the model's
`fuel`); it cannot be dropped (`Ipfix.truncation_prefix_unconditional_counterexample`).  No separate
fuel hypothesis is needed. -/
theorem Ipfix.truncation_prefix (c : Cache) (addr bs : Bytes) (n : Nat)
    {m : Hdr × List Record × List Err} (hok : (Ipfix.decode c addr bs).1 = .ok m) :
    Ipfix.recordsOf (Ipfix.decode c addr (bs.take n)).1 <+: Ipfix.recordsOf (Ipfix.decode c addr bs).1 := by
  obtain ⟨h, recs, errs⟩ := m
  obtain ⟨st, hst, hrecs⟩ := Vflow.Ipfix.decode_ok_finalSt hok
  rcases Vflow.Ipfix.truncation_prefix_state c addr bs n with h0 | ⟨st', hst', hpre⟩
  · rw [h0]; exact List.nil_prefix
  · rw [hst] at hst'
    simp only [Option.some.injEq] at hst'
    subst hst'
    rw [hok]
    simpa [Ipfix.recordsOf, hrecs] using hpre

set_option maxRecDepth 100000 in
/-- the unconditional form of `Ipfix.truncation_prefix` is false (same construction as for v9) -/
theorem Ipfix.truncation_prefix_unconditional_counterexample :
    ∃ (c : Cache) (addr bs : Bytes) (n : Nat),
      ¬ (Ipfix.recordsOf (Ipfix.decode c addr (bs.take n)).1 <+: Ipfix.recordsOf (Ipfix.decode c addr bs).1) :=
  ⟨[], exAddr, ipfixHdr ++ ipfixTpl ++ exData1 ++ exBadSet, 44, by decide⟩

set_option maxRecDepth 100000 in
/-- non-vacuity of `Ipfix.truncation_prefix` -/
example :
    (Ipfix.decode [] exAddr ipfixMsg).1 = .ok ([10, 56, 1, 2, 3], [exRec1, exRec2], []) ∧
    Ipfix.recordsOf (Ipfix.decode [] exAddr (ipfixMsg.take 46)).1 = [exRec1] ∧
    Ipfix.recordsOf (Ipfix.decode [] exAddr (ipfixMsg.take 55)).1 = [] := ⟨rfl, rfl, rfl⟩

set_option maxRecDepth 100000 in
example : Ipfix.recordsOf (Ipfix.decode [] exAddr (ipfixMsg.take 46)).1 <+:
    Ipfix.recordsOf (Ipfix.decode [] exAddr ipfixMsg).1 :=
  Ipfix.truncation_prefix [] exAddr ipfixMsg 46 (m := ([10, 56, 1, 2, 3], [exRec1, exRec2], [])) rfl

end Vflow.C09
