import Vflow.Proofs.SkipV9
import Vflow.Proofs.SkipIpfix
import Vflow.Props.C02Flow
import Vflow.Proofs.IpfixIRMsg
import Vflow.Proofs.V9IRMsg
import Vflow.Gen.Sites
import Vflow.Spec.Sites
/-!
# C09 — an undecodable set never corrupts its neighbours; truncation never fabricates

Statements about the two executable decoder models `Vflow.Ipfix.decode` / `Vflow.V9.decode`
(tied to `ipfix/decoder.go` and `netflow/v9/decoder.go` by the differential correspondence).
All theorems quantify over every template cache `c`, exporter address `addr`, octet string `bs`
and truncation length `n`.  Helper lemmas: `Vflow/Proofs/Trunc*.lean`, `Vflow/Proofs/Skip*.lean`.
-/
namespace Vflow.C09
open Vflow

/-! ## Concrete messages for the non-vacuity examples

One template set (template 256: sourceIPv4Address, destinationIPv4Address), then two data sets of
one 8-octet record each. -/

def exAddr : Bytes := [127, 0, 0, 1]
def exRec1 : Record := [⟨8, 0, .ip [10, 0, 0, 1]⟩, ⟨12, 0, .ip [10, 0, 0, 2]⟩]
def exRec2 : Record := [⟨8, 0, .ip [10, 0, 0, 3]⟩, ⟨12, 0, .ip [10, 0, 0, 4]⟩]
def exData1 : Bytes := [1, 0, 0, 12, 10, 0, 0, 1, 10, 0, 0, 2]
def exData2 : Bytes := [1, 0, 0, 12, 10, 0, 0, 3, 10, 0, 0, 4]
/-- a set whose declared length is 2 (< 4): fatal `badSetLen` -/
def exBadSet : Bytes := [1, 0, 0, 2, 0]

def v9Hdr : Bytes := [0, 9, 0, 3, 0, 0, 0, 1, 0, 0, 0, 2, 0, 0, 0, 3, 0, 0, 0, 4]
def v9Tpl : Bytes := [0, 0, 0, 16, 1, 0, 0, 2, 0, 8, 0, 4, 0, 12, 0, 4]
def v9Msg : Bytes := v9Hdr ++ v9Tpl ++ exData1 ++ exData2

def ipfixHdr : Bytes := [0, 10, 0, 56, 0, 0, 0, 1, 0, 0, 0, 2, 0, 0, 0, 3]
def ipfixTpl : Bytes := [0, 2, 0, 16, 1, 0, 0, 2, 0, 8, 0, 4, 0, 12, 0, 4]
def ipfixMsg : Bytes := ipfixHdr ++ ipfixTpl ++ exData1 ++ exData2

/-- template 256 as both decoders store it -/
def exTpl : Template := ⟨256, 2, 0, [], [⟨8, 4, 0⟩, ⟨12, 4, 0⟩]⟩
/-- the cache after the template set of the example messages -/
def exCache : Cache := Cache.insert [] exAddr 256 exTpl
/-- a data set for template 999, which nobody announced -/
def exUnknown : Bytes := setBytes 999 [1, 2, 3, 4, 5]
/-- template 400, whose second field names element `x` (`x := 9000` is not in the information model) -/
def exTplBad (x : Nat) : Template := ⟨400, 3, 0, [], [⟨8, 4, 0⟩, ⟨x, 4, 0⟩, ⟨12, 4, 0⟩]⟩
def exCacheBad (x : Nat) : Cache := Cache.insert exCache exAddr 400 (exTplBad x)
def exBadBody : Bytes := [10, 0, 0, 9, 1, 2, 3, 4, 10, 0, 0, 8]

set_option maxRecDepth 100000 in
theorem ex_lookup_8 : lookupElem 0 8 = some (8, 19) := by rw [lookupElem_list]; decide +kernel
set_option maxRecDepth 100000 in
/-- element 9000 is not in the information model -/
theorem ex_lookup_9000 : lookupElem 0 9000 = none := by rw [lookupElem_list]; decide +kernel

theorem ok_ne_fuel {α : Type} {x : Except Err α} {m : α} (h : x = .ok m) : x ≠ .error .fuel := by
  rw [h]; exact fun h' => nomatch h'

/-! ## (b) Truncation ⇒ prefix -/

/-- **C09(b), NetFlow v9, no hypothesis.**  Cut the datagram `bs` after any `n` octets.  Either the
truncated decode emits no record at all, or the full decode got past the packet header and what the
truncated decode emits is a prefix of the records the full run had accumulated when its set loop
stopped (`V9.finalSt`: the state of the `for d.reader.Len() > 4` loop at its end, whether it ended
normally, with a fatal error or by running out of model fuel). -/
theorem V9.truncation_prefix_state (c : Cache) (addr bs : Bytes) (n : Nat) :
    V9.recordsOf (V9.decode c addr (bs.take n)).1 = [] ∨
    ∃ st, V9.finalSt c addr bs = some st ∧ V9.recordsOf (V9.decode c addr (bs.take n)).1 <+: st.recs :=
  Vflow.V9.truncation_prefix_state c addr bs n

/-- **C09(b), NetFlow v9.**  If the full decode does not fail (`Decode` returns a message, possibly
with non-fatal errors), the records decoded from any truncation of the datagram are a prefix of the
records decoded from the whole datagram.

The hypothesis excludes exactly the inputs on which the *full* decode returns `(nil, err)` (fatal
error: short read, bad version, bad set length, or the model's `fuel`).  It cannot be dropped: when
the full decode fails it hands out *no* records, whereas a truncation that ends before the offending
set decodes cleanly and hands out the records before it (`V9.truncation_prefix_unconditional_counterexample`).
No separate fuel hypothesis is needed: a truncated run that exhausts its (smaller) fuel emits nothing. -/
theorem V9.truncation_prefix (c : Cache) (addr bs : Bytes) (n : Nat)
    {m : Hdr × List Record × List Err} (hok : (V9.decode c addr bs).1 = .ok m) :
    V9.recordsOf (V9.decode c addr (bs.take n)).1 <+: V9.recordsOf (V9.decode c addr bs).1 := by
  obtain ⟨h, recs, errs⟩ := m
  obtain ⟨st, hst, hrecs⟩ := Vflow.V9.decode_ok_finalSt hok
  rcases Vflow.V9.truncation_prefix_state c addr bs n with h0 | ⟨st', hst', hpre⟩
  · rw [h0]; exact List.nil_prefix
  · rw [hst] at hst'
    simp only [Option.some.injEq] at hst'
    subst hst'
    rw [hok]
    simpa [V9.recordsOf, hrecs] using hpre

set_option maxRecDepth 100000 in
/-- the unconditional form of `V9.truncation_prefix` is false: header, template, one data set, then a
set with declared length 2.  The whole datagram is rejected (`badSetLen`, no records); cut after the
data set it decodes to one record. -/
theorem V9.truncation_prefix_unconditional_counterexample :
    ∃ (c : Cache) (addr bs : Bytes) (n : Nat),
      ¬ (V9.recordsOf (V9.decode c addr (bs.take n)).1 <+: V9.recordsOf (V9.decode c addr bs).1) :=
  ⟨[], exAddr, v9Hdr ++ v9Tpl ++ exData1 ++ exBadSet, 48, by decide⟩

set_option maxRecDepth 100000 in
/-- non-vacuity of `V9.truncation_prefix`: the full datagram decodes to two records, cut after the
first data set (and two octets into the next set header) to exactly the first one, cut inside the
second data set to nothing -/
example :
    (V9.decode [] exAddr v9Msg).1 = .ok ([9, 3, 1, 2, 3, 4], [exRec1, exRec2], []) ∧
    V9.recordsOf (V9.decode [] exAddr (v9Msg.take 50)).1 = [exRec1] ∧
    V9.recordsOf (V9.decode [] exAddr (v9Msg.take 59)).1 = [] := ⟨rfl, rfl, rfl⟩

set_option maxRecDepth 100000 in
example : V9.recordsOf (V9.decode [] exAddr (v9Msg.take 50)).1 <+: V9.recordsOf (V9.decode [] exAddr v9Msg).1 :=
  V9.truncation_prefix [] exAddr v9Msg 50 (m := ([9, 3, 1, 2, 3, 4], [exRec1, exRec2], [])) rfl

/-- **C09(b), IPFIX, no hypothesis.**  As `V9.truncation_prefix_state`. -/
theorem Ipfix.truncation_prefix_state (c : Cache) (addr bs : Bytes) (n : Nat) :
    Ipfix.recordsOf (Ipfix.decode c addr (bs.take n)).1 = [] ∨
    ∃ st, Ipfix.finalSt c addr bs = some st ∧
      Ipfix.recordsOf (Ipfix.decode c addr (bs.take n)).1 <+: st.recs :=
  Vflow.Ipfix.truncation_prefix_state c addr bs n

/-- **C09(b), IPFIX.**  If the full decode does not fail, the records decoded from any truncation of
the message are a prefix of the records decoded from the whole message.

The hypothesis excludes exactly the inputs on which the *full* decode returns `(nil, err)` (short
read, bad version, bad set length, set id 0 in the record loop, or the model's `fuel` — since the F30
repair no longer a data set for a template without fields or a set with id 1: `Ipfix.decodeSet_skips_noFields`);
it cannot be dropped (`Ipfix.truncation_prefix_unconditional_counterexample`).  No separate
fuel hypothesis is needed. -/
theorem Ipfix.truncation_prefix (c : Cache) (addr bs : Bytes) (n : Nat)
    {m : Hdr × List Record × List Err} (hok : (Ipfix.decode c addr bs).1 = .ok m) :
    Ipfix.recordsOf (Ipfix.decode c addr (bs.take n)).1 <+: Ipfix.recordsOf (Ipfix.decode c addr bs).1 := by
  obtain ⟨h, recs, errs⟩ := m
  obtain ⟨st, hst, hrecs⟩ := Vflow.Ipfix.decode_ok_finalSt hok
  rcases Vflow.Ipfix.truncation_prefix_state c addr bs n with h0 | ⟨st', hst', hpre⟩
  · rw [h0]; exact List.nil_prefix
  · rw [hst] at hst'
    simp only [Option.some.injEq] at hst'
    subst hst'
    rw [hok]
    simpa [Ipfix.recordsOf, hrecs] using hpre

set_option maxRecDepth 100000 in
/-- the unconditional form of `Ipfix.truncation_prefix` is false (same construction as for v9) -/
theorem Ipfix.truncation_prefix_unconditional_counterexample :
    ∃ (c : Cache) (addr bs : Bytes) (n : Nat),
      ¬ (Ipfix.recordsOf (Ipfix.decode c addr (bs.take n)).1 <+: Ipfix.recordsOf (Ipfix.decode c addr bs).1) :=
  ⟨[], exAddr, ipfixHdr ++ ipfixTpl ++ exData1 ++ exBadSet, 44, by decide⟩

set_option maxRecDepth 100000 in
/-- non-vacuity of `Ipfix.truncation_prefix` -/
example :
    (Ipfix.decode [] exAddr ipfixMsg).1 = .ok ([10, 56, 1, 2, 3], [exRec1, exRec2], []) ∧
    Ipfix.recordsOf (Ipfix.decode [] exAddr (ipfixMsg.take 46)).1 = [exRec1] ∧
    Ipfix.recordsOf (Ipfix.decode [] exAddr (ipfixMsg.take 55)).1 = [] := ⟨rfl, rfl, rfl⟩

set_option maxRecDepth 100000 in
example : Ipfix.recordsOf (Ipfix.decode [] exAddr (ipfixMsg.take 46)).1 <+:
    Ipfix.recordsOf (Ipfix.decode [] exAddr ipfixMsg).1 :=
  Ipfix.truncation_prefix [] exAddr ipfixMsg 46 (m := ([10, 56, 1, 2, 3], [exRec1, exRec2], [])) rfl

/-! ## (a) Skip-equivalence

`setBytes sid body` = `be16 sid ++ be16 (4 + |body|) ++ body` is a whole set.  It is `Undecodable`
for a cache `c` when `sid > 255` and `c` holds no template `sid` for the exporter, or when `sid` is
not a template / data set id (IPFIX: `4 ≤ sid ≤ 255`; NetFlow v9: `2 ≤ sid ≤ 255`, ids 2 and 3
taking the `zeroRec` path).  The third kind of the property text — a data set whose template names
an element missing from the information model — is `decodeSet_skips_unknownElem`.  A fourth kind (F30):
a data set whose template has no field specifier at all — a template record with field count 0 (the
withdrawal format) that sat in a template set in front of other records is installed as such a template —
is `Ipfix.decodeSet_skips_noFields` (`Ipfix.NoFields`; NetFlow v9 reports it as `zeroRec`, see the example
after `V9.decodeSet_skips`).  The cache meant
is always the cache *at the point where the set is met* (earlier sets of the same message may have
added templates). -/

/-- **C09(a), V9, one flowset.**  On an undecodable flowset followed by any `rest`, `decodeSet` changes the
decoder state only by moving the reader over the flowset: cache and records are untouched; the error slot
holds the non-fatal `V9.skipErr` (`unknownTpl` for `sid > 255`, nothing for `4 ≤ sid ≤ 255`, `zeroRec` for `sid = 2, 3` with a body of more than 4 octets) — never a fatal error.  Side conditions: the flowset is
encodable (`sid`, `4 + |body|` fit in 16 bits) and the loop fuel is positive (the outer loop passes
`remaining + 1`).  Nothing is assumed about `rest`. -/
theorem V9.decodeSet_skips (addr : Bytes) (fuel : Nat) (st : V9.St) (sid : Nat) (body rest : Bytes)
    (hsid : sid < 65536) (hlen : 4 + body.length < 65536) (hfuel : 0 < fuel)
    (hrem : st.r.rem = setBytes sid body ++ rest) (hu : V9.Undecodable st.cache addr sid) :
    V9.decodeSet addr fuel st =
      ({ st with r := ⟨rest, st.r.cnt + (setBytes sid body).length⟩ }, V9.skipErr sid body) :=
  Vflow.V9.decodeSet_skips addr fuel st sid body rest hsid hlen hfuel hrem hu

theorem V9.skipErr_nonfatal (sid : Nat) (body : Bytes) (e : Err) (h : V9.skipErr sid body = some e) :
    e.nonfatal = true := Vflow.V9.skipErr_nonfatal sid body e h

/-- **C09(a), V9, one flowset, element missing from the information model.**  A data flowset whose
template `t` is in the cache, with a body of at least `minRecLen t` octets (one shortest record: the record
loop is entered — the padding repair replaced the former "more than 4 octets") on which the record decoder — run on
the body alone — stops with `unknownElem` (a field specifier of `t` names an element that
`lookupElem` does not know, and the fields before it fit in the body), is skipped in the same way in
front of any `rest`; the error slot holds `unknownElem`. -/
theorem V9.decodeSet_skips_unknownElem (addr : Bytes) (fuel : Nat) (st : V9.St) (sid : Nat)
    (body rest : Bytes) (t : Template) (r1 : Rd)
    (hsid : sid < 65536) (hlen : 4 + body.length < 65536) (hfuel : 0 < fuel)
    (hrem : st.r.rem = setBytes sid body ++ rest)
    (hbig : sid > 255) (hlook : st.cache.lookup addr sid = some t) (hbody : body.length ≥ V9.minRecLen t)
    (hdec : V9.decodeData t ⟨body, st.r.cnt + 4⟩ = (.error .unknownElem, r1)) :
    V9.decodeSet addr fuel st =
      ({ st with r := ⟨rest, st.r.cnt + (setBytes sid body).length⟩ }, some .unknownElem) :=
  Vflow.V9.decodeSet_skips_unknownElem addr fuel st sid body rest t r1 hsid hlen hfuel hrem hbig hlook
    hbody hdec

/-- the two syntactic sufficient conditions for `V9.Skipped addr c u e` ("at cache `c`, in front of
any rest, at any count, with any records accumulated, `decodeSet` only moves the reader over the whole
flowset `u`, with the non-fatal error slot `e`"), the notion the outer-loop and message-level theorems are
stated with: an undecodable flowset … -/
theorem V9.skipped_of_undecodable (addr : Bytes) (c : Cache) (sid : Nat) (body : Bytes)
    (hsid : sid < 65536) (hlen : 4 + body.length < 65536) (hu : V9.Undecodable c addr sid) :
    V9.Skipped addr c (setBytes sid body) (V9.skipErr sid body) :=
  Vflow.V9.skipped_of_undecodable addr c sid body hsid hlen hu

/-- … and a data flowset that runs into an element missing from the information model -/
theorem V9.skipped_of_unknownElem (addr : Bytes) (c : Cache) (sid : Nat) (body : Bytes) (t : Template)
    (r1 : Rd) (hsid : sid < 65536) (hlen : 4 + body.length < 65536)
    (hbig : sid > 255) (hlook : c.lookup addr sid = some t) (hbody : body.length ≥ V9.minRecLen t)
    (hdec : V9.decodeData t ⟨body, 0⟩ = (.error .unknownElem, r1)) :
    V9.Skipped addr c (setBytes sid body) (some .unknownElem) :=
  Vflow.V9.skipped_of_unknownElem addr c sid body t r1 hsid hlen hbig hlook hbody hdec

/-- **C09(a), V9, outer loop.**  With a skipped flowset `u` in front (and more than 4 octets in all), the
outer loop spends one iteration on it and continues on `rest` exactly as if started there: same cache,
same records, count advanced by `|u|`, the error slot appended to the non-fatal errors. -/
theorem V9.outer_skips (addr : Bytes) (fuel : Nat) (st : V9.St) (errs : List Err) (u rest : Bytes)
    (e : Option Err) (hs : V9.Skipped addr st.cache u e) (hrem : st.r.rem = u ++ rest)
    (hgt : u.length + rest.length > 4) :
    V9.outer addr (fuel + 1) st errs =
      V9.outer addr fuel { st with r := ⟨rest, st.r.cnt + u.length⟩ } (errs ++ e.toList) :=
  Vflow.V9.outer_skips_gen addr fuel st errs u rest e hs hrem hgt

/-- tail case of `V9.outer_skips`: when at most 4 octets remain (a bare 4-octet flowset header at the
very end, say) the outer loop stops without looking at them, exactly as it would on the empty rest. -/
theorem V9.outer_skips_tail (addr : Bytes) (fuel : Nat) (st : V9.St) (errs : List Err)
    (h : st.r.rem.length ≤ 4) :
    V9.outer addr (fuel + 1) st errs = (st, none, errs) :=
  Vflow.V9.outer_tail addr fuel st errs h

/-- **Locality, V9.**  If the outer loop, run on the octets `x` alone (state `stT`), ends without a
fatal error in state `stT'` with error list `errs'`, then (i) at most 4 octets of `x` are left, and
(ii) there is a `j` such that on *every* extension `x ++ s` (state `stF`, `SRel s stT stF`: same cache,
records and count, `s` appended to the remaining octets) the loop passes after `j` iterations through
the state `stF'` corresponding to `stT'` with the same error list: what was decoded from `x` does not
depend on what follows.  The hypothesis that makes this true is that the run on `x` *alone* is clean:
the loop conditions look at the number of remaining octets (`> 4`, `≥ minLeft`), so a run that is starved on `x`
alone (fatal short read) can behave differently when more octets follow. -/
theorem V9.outer_locality (addr : Bytes) (fuelT : Nat) (stT : V9.St) (errs : List Err)
    (stT' : V9.St) (errs' : List Err)
    (h : V9.outer addr fuelT stT errs = (stT', none, errs')) :
    stT'.r.rem.length ≤ 4 ∧ ∃ j, j ≤ fuelT ∧ ∀ (s : Bytes) (stF : V9.St), V9.SRel s stT stF →
      ∃ stF', V9.SRel s stT' stF' ∧
        ∀ m, V9.outer addr (j + m) stF errs = V9.outer addr m stF' errs' :=
  Vflow.V9.outer_ext addr fuelT stT errs stT' errs' h

/-- **C09(a), V9, whole datagram.**  `hdr` is a packet header (`hh`); `pre` is a sequence of flowsets that the
outer loop, started after the header with cache `c`, decodes *on its own* exactly to its end without a
fatal error (`hpre`), leaving the cache `c1` — this is how "a position between two flowsets" is
expressed; `u` is skipped at `c1`, the cache at that point (`V9.Skipped`; by
`V9.skipped_of_undecodable` / `V9.skipped_of_unknownElem`: unknown template, reserved id, element
missing from the model).  Then for every `post`, inserting `u` between `pre` and `post` changes neither
the decoded records, nor the resulting cache, nor whether / with which fatal error `Decode` fails (at
most one more non-fatal error is reported).

Hypotheses, exactly: `hpre` (it is about `pre` alone because a flowset of `pre` that reads past the end of
`pre` makes the decoding of `pre` depend on what follows, see `V9.outer_locality`); `hfuel`: the decode
of the datagram *without* `u` does not run out of model fuel (to be discharged by the fuel-sufficiency
theorem). -/
theorem V9.decode_skips (c : Cache) (addr hdr pre post u : Bytes) (e : Option Err)
    (h : Hdr) (k k1 : Nat) (c1 : Cache) (recs1 : List Record) (errs1 : List Err)
    (hh : V9.readHeader ⟨hdr, 0⟩ = some (h, ⟨[], k⟩))
    (hpre : V9.outer addr (pre.length + 1) ⟨⟨pre, k⟩, c, []⟩ [] = (⟨⟨[], k1⟩, c1, recs1⟩, none, errs1))
    (hs : V9.Skipped addr c1 u e)
    (hfuel : (V9.decode c addr (hdr ++ (pre ++ post))).1 ≠ .error .fuel) :
    V9.recordsOf (V9.decode c addr (hdr ++ (pre ++ (u ++ post)))).1 =
      V9.recordsOf (V9.decode c addr (hdr ++ (pre ++ post))).1 ∧
    (V9.decode c addr (hdr ++ (pre ++ (u ++ post)))).2 = (V9.decode c addr (hdr ++ (pre ++ post))).2 ∧
    ∀ x, (V9.decode c addr (hdr ++ (pre ++ (u ++ post)))).1 = .error x ↔
      (V9.decode c addr (hdr ++ (pre ++ post))).1 = .error x :=
  Vflow.V9.decode_skips c addr hdr pre post u e h k k1 c1 recs1 errs1 hh hpre hs hfuel

set_option maxRecDepth 100000 in
/-- non-vacuity of `V9.decodeSet_skips` / `V9.outer_skips`: the three kinds of undecodable flowset
(unknown template 999, reserved id 100, id 2) in front of a decodable data flowset -/
example :
    V9.decodeSet exAddr 1 ⟨⟨exUnknown ++ exData2, 48⟩, exCache, [exRec1]⟩ =
      (⟨⟨exData2, 57⟩, exCache, [exRec1]⟩, some .unknownTpl) ∧
    V9.decodeSet exAddr 1 ⟨⟨setBytes 100 [1, 2, 3, 4, 5] ++ exData2, 48⟩, exCache, [exRec1]⟩ =
      (⟨⟨exData2, 57⟩, exCache, [exRec1]⟩, none) ∧
    V9.decodeSet exAddr 1 ⟨⟨setBytes 2 [1, 2, 3, 4, 5] ++ exData2, 48⟩, exCache, [exRec1]⟩ =
      (⟨⟨exData2, 57⟩, exCache, [exRec1]⟩, some .zeroRec) ∧
    (V9.outer exAddr 3 ⟨⟨exUnknown ++ exData2, 48⟩, exCache, [exRec1]⟩ []).1.recs = [exRec1, exRec2] :=
  ⟨V9.decodeSet_skips exAddr 1 _ 999 [1, 2, 3, 4, 5] exData2 (by decide) (by decide) (by decide) rfl
      (.inl ⟨by decide, by decide⟩),
   V9.decodeSet_skips exAddr 1 _ 100 [1, 2, 3, 4, 5] exData2 (by decide) (by decide) (by decide) rfl
      (.inr (by decide)),
   V9.decodeSet_skips exAddr 1 _ 2 [1, 2, 3, 4, 5] exData2 (by decide) (by decide) (by decide) rfl
      (.inr (by decide)),
   by rw [V9.outer_skips exAddr 2 _ [] exUnknown exData2 _
        (V9.skipped_of_undecodable exAddr exCache 999 [1, 2, 3, 4, 5] (by decide) (by decide)
          (.inl ⟨by decide, by decide⟩)) rfl (by decide)]; rfl⟩

/-- non-vacuity of `V9.decodeSet_skips_unknownElem`: data for template 400, whose second field names an
element `x` missing from the information model (the v9 decoder reads the field, then looks the element
up), in front of a decodable data flowset.  Proved for a variable `x` and instantiated with 9000 so
that the kernel is never asked to evaluate the decoder through the 400-entry table. -/
theorem V9.ex_unknownElem (x : Nat) (hx : lookupElem 0 x = none) :
    V9.decodeSet exAddr 1 ⟨⟨setBytes 400 exBadBody ++ exData2, 48⟩, exCacheBad x, [exRec1]⟩ =
      (⟨⟨exData2, 64⟩, exCacheBad x, [exRec1]⟩, some .unknownElem) :=
  V9.decodeSet_skips_unknownElem exAddr 1 _ 400 exBadBody exData2 (exTplBad x) ⟨[10, 0, 0, 8], 60⟩
    (by decide) (by decide) (by decide) rfl (by decide)
    (by simp [exCacheBad, Cache.lookup, Cache.insert]) (by simp [V9.minRecLen, exTplBad, exBadBody])
    (by simp [V9.decodeData, exTplBad, V9.decFields_cons, exBadBody, Rd.readN, ex_lookup_8, hx])

example :
    V9.decodeSet exAddr 1 ⟨⟨setBytes 400 exBadBody ++ exData2, 48⟩, exCacheBad 9000, [exRec1]⟩ =
      (⟨⟨exData2, 64⟩, exCacheBad 9000, [exRec1]⟩, some .unknownElem) :=
  V9.ex_unknownElem 9000 ex_lookup_9000

set_option maxRecDepth 100000 in
/-- non-vacuity of `V9.decode_skips`: header, template flowset, data flowset | unknown-template
flowset | data flowset: the same two records with and without the inserted flowset -/
example :
    V9.recordsOf (V9.decode [] exAddr (v9Hdr ++ ((v9Tpl ++ exData1) ++ (exUnknown ++ exData2)))).1 =
      V9.recordsOf (V9.decode [] exAddr (v9Hdr ++ ((v9Tpl ++ exData1) ++ exData2))).1 ∧
    V9.recordsOf (V9.decode [] exAddr (v9Hdr ++ ((v9Tpl ++ exData1) ++ exData2))).1 = [exRec1, exRec2] :=
  ⟨(V9.decode_skips [] exAddr v9Hdr (v9Tpl ++ exData1) exData2 exUnknown _
      [9, 3, 1, 2, 3, 4] 20 48 exCache [exRec1] [] rfl rfl
      (V9.skipped_of_undecodable exAddr exCache 999 [1, 2, 3, 4, 5] (by decide) (by decide)
        (.inl ⟨by decide, by decide⟩))
      (ok_ne_fuel (m := ([9, 3, 1, 2, 3, 4], [exRec1, exRec2], [])) rfl)).1, rfl⟩

/-- **C09(a), Ipfix, one set.**  On an undecodable set followed by any `rest`, `decodeSet` changes the
decoder state only by moving the reader over the set: cache and records are untouched; the error slot
holds the non-fatal `Ipfix.skipErr` (`unknownTpl` for `sid > 255`, nothing for a reserved id `4 ≤ sid ≤ 255`; set id 0 is *not* skipped by the IPFIX decoder, it ends the decode with the fatal `invalidSet`; set id 1 is skipped since the F30 repair: `Ipfix.decodeSet_skips_noFields`) — never a fatal error.  Side conditions: the set is
encodable (`sid`, `4 + |body|` fit in 16 bits) and the loop fuel is positive (the outer loop passes
`remaining + 1`).  Nothing is assumed about `rest`. -/
theorem Ipfix.decodeSet_skips (addr : Bytes) (fuel : Nat) (st : Ipfix.St) (sid : Nat) (body rest : Bytes)
    (hsid : sid < 65536) (hlen : 4 + body.length < 65536) (hfuel : 0 < fuel)
    (hrem : st.r.rem = setBytes sid body ++ rest) (hu : Ipfix.Undecodable st.cache addr sid) :
    Ipfix.decodeSet addr fuel st =
      ({ st with r := ⟨rest, st.r.cnt + (setBytes sid body).length⟩ }, Ipfix.skipErr sid) :=
  Vflow.Ipfix.decodeSet_skips addr fuel st sid body rest hsid hlen hfuel hrem hu

theorem Ipfix.skipErr_nonfatal (sid : Nat) (e : Err) (h : Ipfix.skipErr sid = some e) :
    e.nonfatal = true := Vflow.Ipfix.skipErr_nonfatal sid e h

/-- the errors after which the IPFIX `Decode` goes on (`nonfatalError{…}` in the source): those it shares with
NetFlow v9 and, since the F30 repair, `emptyRec` ("failed to decodeData") -/
theorem Ipfix.nonfatalErr_iff (e : Err) : Ipfix.nonfatalErr e = true ↔ (e.nonfatal = true ∨ e = .emptyRec) := by
  cases e <;> simp [Ipfix.nonfatalErr, Err.nonfatal]

/-- **C09(a), Ipfix, one set, template without fields (F30).**  `Ipfix.NoFields c addr sid`: the template cached
under `sid > 255` for this exporter has neither scope nor field specifiers — what `decodeSet` installs for a
template record with field count 0 (RFC 7011 §8.1 withdrawal format) that is followed by other octets in its
template set — or `sid = 1` (decoded with the zero template, the same code path).  Such a set, with **any** body,
in front of any `rest`, is skipped exactly like an undecodable one: cache and records are untouched, the reader
moves over the set, and the error slot holds the non-fatal `emptyRec` when the body is long enough for the record
loop to be entered (1 octet; 5 for set id 1) and nothing otherwise.  Before the repair `emptyRec` was fatal:
`Decode` returned `(nil, "failed to decodeData")` and the records of every other set of the message were lost. -/
theorem Ipfix.decodeSet_skips_noFields (addr : Bytes) (fuel : Nat) (st : Ipfix.St) (sid : Nat) (body rest : Bytes)
    (hsid : sid < 65536) (hlen : 4 + body.length < 65536) (hfuel : 0 < fuel)
    (hrem : st.r.rem = setBytes sid body ++ rest) (hn : Ipfix.NoFields st.cache addr sid) :
    Ipfix.decodeSet addr fuel st =
      ({ st with r := ⟨rest, st.r.cnt + (setBytes sid body).length⟩ }, Ipfix.emptyErr sid body) :=
  Vflow.Ipfix.decodeSet_skips_noFields addr fuel st sid body rest hsid hlen hfuel hrem hn

theorem Ipfix.emptyErr_nonfatal (sid : Nat) (body : Bytes) (e : Err) (h : Ipfix.emptyErr sid body = some e) :
    Ipfix.nonfatalErr e = true := Vflow.Ipfix.emptyErr_nonfatal sid body e h

/-- **C09(a), Ipfix, one set, element missing from the information model.**  A data set whose
template `t` is in the cache, with a body of at least `minRecLen t` octets (one shortest record: the record
loop is entered — the padding repair replaced the former "more than 4 octets") on which the record decoder — run on
the body alone — stops with `unknownElem` (a field specifier of `t` names an element that
`lookupElem` does not know, and the fields before it fit in the body), is skipped in the same way in
front of any `rest`; the error slot holds `unknownElem`. -/
theorem Ipfix.decodeSet_skips_unknownElem (addr : Bytes) (fuel : Nat) (st : Ipfix.St) (sid : Nat)
    (body rest : Bytes) (t : Template) (r1 : Rd)
    (hsid : sid < 65536) (hlen : 4 + body.length < 65536) (hfuel : 0 < fuel)
    (hrem : st.r.rem = setBytes sid body ++ rest)
    (hbig : sid > 255) (hlook : st.cache.lookup addr sid = some t) (hbody : body.length ≥ Ipfix.minRecLen t)
    (hdec : Ipfix.decodeData t ⟨body, st.r.cnt + 4⟩ = (.error .unknownElem, r1)) :
    Ipfix.decodeSet addr fuel st =
      ({ st with r := ⟨rest, st.r.cnt + (setBytes sid body).length⟩ }, some .unknownElem) :=
  Vflow.Ipfix.decodeSet_skips_unknownElem addr fuel st sid body rest t r1 hsid hlen hfuel hrem hbig hlook
    hbody hdec

/-- the two syntactic sufficient conditions for `Ipfix.Skipped addr c u e` ("at cache `c`, in front of
any rest, at any count, with any records accumulated, `decodeSet` only moves the reader over the whole
set `u`, with the non-fatal error slot `e`"), the notion the outer-loop and message-level theorems are
stated with: an undecodable set … -/
theorem Ipfix.skipped_of_undecodable (addr : Bytes) (c : Cache) (sid : Nat) (body : Bytes)
    (hsid : sid < 65536) (hlen : 4 + body.length < 65536) (hu : Ipfix.Undecodable c addr sid) :
    Ipfix.Skipped addr c (setBytes sid body) (Ipfix.skipErr sid) :=
  Vflow.Ipfix.skipped_of_undecodable addr c sid body hsid hlen hu

/-- … a data set for a template without fields, or a set with id 1 (F30) … -/
theorem Ipfix.skipped_of_noFields (addr : Bytes) (c : Cache) (sid : Nat) (body : Bytes)
    (hsid : sid < 65536) (hlen : 4 + body.length < 65536) (hn : Ipfix.NoFields c addr sid) :
    Ipfix.Skipped addr c (setBytes sid body) (Ipfix.emptyErr sid body) :=
  Vflow.Ipfix.skipped_of_noFields addr c sid body hsid hlen hn

/-- … and a data set that runs into an element missing from the information model -/
theorem Ipfix.skipped_of_unknownElem (addr : Bytes) (c : Cache) (sid : Nat) (body : Bytes) (t : Template)
    (r1 : Rd) (hsid : sid < 65536) (hlen : 4 + body.length < 65536)
    (hbig : sid > 255) (hlook : c.lookup addr sid = some t) (hbody : body.length ≥ Ipfix.minRecLen t)
    (hdec : Ipfix.decodeData t ⟨body, 0⟩ = (.error .unknownElem, r1)) :
    Ipfix.Skipped addr c (setBytes sid body) (some .unknownElem) :=
  Vflow.Ipfix.skipped_of_unknownElem addr c sid body t r1 hsid hlen hbig hlook hbody hdec

/-- **C09(a), Ipfix, outer loop.**  With a skipped set `u` in front (and more than 4 octets in all), the
outer loop spends one iteration on it and continues on `rest` exactly as if started there: same cache,
same records, count advanced by `|u|`, the error slot appended to the non-fatal errors. -/
theorem Ipfix.outer_skips (addr : Bytes) (fuel : Nat) (st : Ipfix.St) (errs : List Err) (u rest : Bytes)
    (e : Option Err) (hs : Ipfix.Skipped addr st.cache u e) (hrem : st.r.rem = u ++ rest)
    (hgt : u.length + rest.length > 4) :
    Ipfix.outer addr (fuel + 1) st errs =
      Ipfix.outer addr fuel { st with r := ⟨rest, st.r.cnt + u.length⟩ } (errs ++ e.toList) :=
  Vflow.Ipfix.outer_skips_gen addr fuel st errs u rest e hs hrem hgt

/-- tail case of `Ipfix.outer_skips`: when at most 4 octets remain (a bare 4-octet set header at the
very end, say) the outer loop stops without looking at them, exactly as it would on the empty rest. -/
theorem Ipfix.outer_skips_tail (addr : Bytes) (fuel : Nat) (st : Ipfix.St) (errs : List Err)
    (h : st.r.rem.length ≤ 4) :
    Ipfix.outer addr (fuel + 1) st errs = (st, none, errs) :=
  Vflow.Ipfix.outer_tail addr fuel st errs h

/-- **Locality, Ipfix.**  If the outer loop, run on the octets `x` alone (state `stT`), ends without a
fatal error in state `stT'` with error list `errs'`, then (i) at most 4 octets of `x` are left, and
(ii) there is a `j` such that on *every* extension `x ++ s` (state `stF`, `SRel s stT stF`: same cache,
records and count, `s` appended to the remaining octets) the loop passes after `j` iterations through
the state `stF'` corresponding to `stT'` with the same error list: what was decoded from `x` does not
depend on what follows.  The hypothesis that makes this true is that the run on `x` *alone* is clean:
the loop conditions look at the number of remaining octets (`> 4`, `≥ minLeft`), so a run that is starved on `x`
alone (fatal short read) can behave differently when more octets follow. -/
theorem Ipfix.outer_locality (addr : Bytes) (fuelT : Nat) (stT : Ipfix.St) (errs : List Err)
    (stT' : Ipfix.St) (errs' : List Err)
    (h : Ipfix.outer addr fuelT stT errs = (stT', none, errs')) :
    stT'.r.rem.length ≤ 4 ∧ ∃ j, j ≤ fuelT ∧ ∀ (s : Bytes) (stF : Ipfix.St), Ipfix.SRel s stT stF →
      ∃ stF', Ipfix.SRel s stT' stF' ∧
        ∀ m, Ipfix.outer addr (j + m) stF errs = Ipfix.outer addr m stF' errs' :=
  Vflow.Ipfix.outer_ext addr fuelT stT errs stT' errs' h

/-- **C09(a), Ipfix, whole message.**  `hdr` is a message header (`hh`); `pre` is a sequence of sets that the
outer loop, started after the header with cache `c`, decodes *on its own* exactly to its end without a
fatal error (`hpre`), leaving the cache `c1` — this is how "a position between two sets" is
expressed; `u` is skipped at `c1`, the cache at that point (`Ipfix.Skipped`; by
`Ipfix.skipped_of_undecodable` / `Ipfix.skipped_of_unknownElem` / `Ipfix.skipped_of_noFields`: unknown template,
reserved id, element missing from the model, template without fields).  Then for every `post`, inserting `u` between `pre` and `post` changes neither
the decoded records, nor the resulting cache, nor whether / with which fatal error `Decode` fails (at
most one more non-fatal error is reported).

Hypotheses, exactly: `hpre` (it is about `pre` alone because a set of `pre` that reads past the end of
`pre` makes the decoding of `pre` depend on what follows, see `Ipfix.outer_locality`); `hfuel`: the decode
of the message *without* `u` does not run out of model fuel (to be discharged by the fuel-sufficiency
theorem). -/
theorem Ipfix.decode_skips (c : Cache) (addr hdr pre post u : Bytes) (e : Option Err)
    (h : Hdr) (k k1 : Nat) (c1 : Cache) (recs1 : List Record) (errs1 : List Err)
    (hh : Ipfix.readHeader ⟨hdr, 0⟩ = some (h, ⟨[], k⟩))
    (hpre : Ipfix.outer addr (pre.length + 1) ⟨⟨pre, k⟩, c, []⟩ [] = (⟨⟨[], k1⟩, c1, recs1⟩, none, errs1))
    (hs : Ipfix.Skipped addr c1 u e)
    (hfuel : (Ipfix.decode c addr (hdr ++ (pre ++ post))).1 ≠ .error .fuel) :
    Ipfix.recordsOf (Ipfix.decode c addr (hdr ++ (pre ++ (u ++ post)))).1 =
      Ipfix.recordsOf (Ipfix.decode c addr (hdr ++ (pre ++ post))).1 ∧
    (Ipfix.decode c addr (hdr ++ (pre ++ (u ++ post)))).2 = (Ipfix.decode c addr (hdr ++ (pre ++ post))).2 ∧
    ∀ x, (Ipfix.decode c addr (hdr ++ (pre ++ (u ++ post)))).1 = .error x ↔
      (Ipfix.decode c addr (hdr ++ (pre ++ post))).1 = .error x :=
  Vflow.Ipfix.decode_skips c addr hdr pre post u e h k k1 c1 recs1 errs1 hh hpre hs hfuel

set_option maxRecDepth 100000 in
/-- non-vacuity of `Ipfix.decodeSet_skips` / `Ipfix.outer_skips` -/
example :
    Ipfix.decodeSet exAddr 1 ⟨⟨exUnknown ++ exData2, 44⟩, exCache, [exRec1]⟩ =
      (⟨⟨exData2, 53⟩, exCache, [exRec1]⟩, some .unknownTpl) ∧
    Ipfix.decodeSet exAddr 1 ⟨⟨setBytes 100 [1, 2, 3, 4, 5] ++ exData2, 44⟩, exCache, [exRec1]⟩ =
      (⟨⟨exData2, 53⟩, exCache, [exRec1]⟩, none) ∧
    (Ipfix.outer exAddr 3 ⟨⟨exUnknown ++ exData2, 44⟩, exCache, [exRec1]⟩ []).1.recs = [exRec1, exRec2] :=
  ⟨Ipfix.decodeSet_skips exAddr 1 _ 999 [1, 2, 3, 4, 5] exData2 (by decide) (by decide) (by decide) rfl
      (.inl ⟨by decide, by decide⟩),
   Ipfix.decodeSet_skips exAddr 1 _ 100 [1, 2, 3, 4, 5] exData2 (by decide) (by decide) (by decide) rfl
      (.inr (by decide)),
   by rw [Ipfix.outer_skips exAddr 2 _ [] exUnknown exData2 _
        (Ipfix.skipped_of_undecodable exAddr exCache 999 [1, 2, 3, 4, 5] (by decide) (by decide)
          (.inl ⟨by decide, by decide⟩)) rfl (by decide)]; rfl⟩

/-! ### F30: the template record with field count 0

`exZeroTplSet` is the template set `{259: field count 0; 260: sourceIPv4Address/4}` of the audit's input: the
decoder installs 259 as a template without fields (`exZeroTpl`).  A data set for 259 — four octets, none, or set
id 1 with five octets — between two data sets of template 256 is skipped and both neighbours are decoded. -/

def exZeroTplSet : Bytes := [0, 2, 0, 16, 1, 3, 0, 0, 1, 4, 0, 1, 0, 8, 0, 4]
def exZeroTpl : Template := ⟨259, 0, 0, [], []⟩
def exTpl260 : Template := ⟨260, 1, 0, [], [⟨8, 4, 0⟩]⟩
def exCacheZero : Cache := Cache.insert (Cache.insert exCache exAddr 259 exZeroTpl) exAddr 260 exTpl260
def exZeroData : Bytes := setBytes 259 [1, 2, 3, 4]

theorem exCacheZero_noFields : Ipfix.NoFields exCacheZero exAddr 259 :=
  .inl ⟨by decide, exZeroTpl, by decide, rfl, rfl⟩

set_option maxRecDepth 100000 in
/-- the template set installs 259 as a template without fields -/
example : (Ipfix.decode [] exAddr (ipfixHdr ++ (ipfixTpl ++ exZeroTplSet))).2 = exCacheZero := by decide

set_option maxRecDepth 100000 in
/-- non-vacuity of `Ipfix.decodeSet_skips_noFields` / `Ipfix.decode_skips'` for this kind: one set; the audit's
message `[templates, data 256, data 259, data 256]` decodes to both records of template 256 (before the repair:
`.error .emptyRec`, no record) -/
example :
    Ipfix.decodeSet exAddr 1 ⟨⟨exZeroData ++ exData2, 60⟩, exCacheZero, [exRec1]⟩ =
      (⟨⟨exData2, 68⟩, exCacheZero, [exRec1]⟩, some .emptyRec) ∧
    Ipfix.decodeSet exAddr 1 ⟨⟨setBytes 259 [] ++ exData2, 60⟩, exCacheZero, [exRec1]⟩ =
      (⟨⟨exData2, 64⟩, exCacheZero, [exRec1]⟩, none) ∧
    Ipfix.decodeSet exAddr 1 ⟨⟨setBytes 1 [1, 2, 3, 4, 5] ++ exData2, 60⟩, exCacheZero, [exRec1]⟩ =
      (⟨⟨exData2, 69⟩, exCacheZero, [exRec1]⟩, some .emptyRec) ∧
    (Ipfix.decode [] exAddr (ipfixHdr ++ (ipfixTpl ++ exZeroTplSet ++ exData1 ++ exZeroData ++ exData2))).1 =
      .ok ([10, 56, 1, 2, 3], [exRec1, exRec2], [.emptyRec]) :=
  ⟨Ipfix.decodeSet_skips_noFields exAddr 1 _ 259 [1, 2, 3, 4] exData2 (by decide) (by decide) (by decide) rfl
      exCacheZero_noFields,
   Ipfix.decodeSet_skips_noFields exAddr 1 _ 259 [] exData2 (by decide) (by decide) (by decide) rfl
      exCacheZero_noFields,
   Ipfix.decodeSet_skips_noFields exAddr 1 _ 1 [1, 2, 3, 4, 5] exData2 (by decide) (by decide) (by decide) rfl
      (.inr rfl),
   rfl⟩

set_option maxRecDepth 100000 in
example :
    Ipfix.recordsOf (Ipfix.decode [] exAddr
        (ipfixHdr ++ ((ipfixTpl ++ exZeroTplSet ++ exData1) ++ (exZeroData ++ exData2)))).1 =
      Ipfix.recordsOf (Ipfix.decode [] exAddr (ipfixHdr ++ ((ipfixTpl ++ exZeroTplSet ++ exData1) ++ exData2))).1 ∧
    Ipfix.recordsOf (Ipfix.decode [] exAddr (ipfixHdr ++ ((ipfixTpl ++ exZeroTplSet ++ exData1) ++ exData2))).1 =
      [exRec1, exRec2] :=
  ⟨(Ipfix.decode_skips [] exAddr ipfixHdr (ipfixTpl ++ exZeroTplSet ++ exData1) exData2 exZeroData _
      [10, 56, 1, 2, 3] 16 60 exCacheZero [exRec1] [] rfl rfl
      (Ipfix.skipped_of_noFields exAddr exCacheZero 259 [1, 2, 3, 4] (by decide) (by decide) exCacheZero_noFields)
      (ok_ne_fuel (m := ([10, 56, 1, 2, 3], [exRec1, exRec2], [])) rfl)).1, rfl⟩

/-- non-vacuity of `Ipfix.decodeSet_skips_unknownElem` (the IPFIX decoder looks the element up before
reading the field); as `V9.ex_unknownElem` -/
theorem Ipfix.ex_unknownElem (x : Nat) (hx : lookupElem 0 x = none) :
    Ipfix.decodeSet exAddr 1 ⟨⟨setBytes 400 exBadBody ++ exData2, 44⟩, exCacheBad x, [exRec1]⟩ =
      (⟨⟨exData2, 60⟩, exCacheBad x, [exRec1]⟩, some .unknownElem) :=
  Ipfix.decodeSet_skips_unknownElem exAddr 1 _ 400 exBadBody exData2 (exTplBad x)
    ⟨[1, 2, 3, 4, 10, 0, 0, 8], 52⟩
    (by decide) (by decide) (by decide) rfl (by decide)
    (by simp [exCacheBad, Cache.lookup, Cache.insert]) (by simp [Ipfix.minRecLen, Ipfix.specMin, exTplBad, exBadBody])
    (by simp [Ipfix.decodeData, exTplBad, Ipfix.decFields_cons, exBadBody, Rd.readN, ex_lookup_8, hx,
      Ipfix.dataLen])

example :
    Ipfix.decodeSet exAddr 1 ⟨⟨setBytes 400 exBadBody ++ exData2, 44⟩, exCacheBad 9000, [exRec1]⟩ =
      (⟨⟨exData2, 60⟩, exCacheBad 9000, [exRec1]⟩, some .unknownElem) :=
  Ipfix.ex_unknownElem 9000 ex_lookup_9000

set_option maxRecDepth 100000 in
/-- non-vacuity of `Ipfix.decode_skips` -/
example :
    Ipfix.recordsOf (Ipfix.decode [] exAddr (ipfixHdr ++ ((ipfixTpl ++ exData1) ++ (exUnknown ++ exData2)))).1 =
      Ipfix.recordsOf (Ipfix.decode [] exAddr (ipfixHdr ++ ((ipfixTpl ++ exData1) ++ exData2))).1 ∧
    Ipfix.recordsOf (Ipfix.decode [] exAddr (ipfixHdr ++ ((ipfixTpl ++ exData1) ++ exData2))).1 =
      [exRec1, exRec2] :=
  ⟨(Ipfix.decode_skips [] exAddr ipfixHdr (ipfixTpl ++ exData1) exData2 exUnknown _
      [10, 56, 1, 2, 3] 16 44 exCache [exRec1] [] rfl rfl
      (Ipfix.skipped_of_undecodable exAddr exCache 999 [1, 2, 3, 4, 5] (by decide) (by decide)
        (.inl ⟨by decide, by decide⟩))
      (ok_ne_fuel (m := ([10, 56, 1, 2, 3], [exRec1, exRec2], [])) rfl)).1, rfl⟩

/-! ## The fuel hypothesis discharged

`decode_skips` was stated with the hypothesis that the decode without the inserted set does not
exhaust its fuel; `C02Flow.*_terminates` proves that for every cache and every octet string. -/

/-- **C09 (a), whole message, NetFlow v9** — `decode_skips` without the fuel hypothesis -/
theorem V9.decode_skips' (c : Cache) (addr hdr pre post u : Bytes) (e : Option Err)
    (h : Hdr) (k k1 : Nat) (c1 : Cache) (recs1 : List Record) (errs1 : List Err)
    (hh : V9.readHeader ⟨hdr, 0⟩ = some (h, ⟨[], k⟩))
    (hpre : V9.outer addr (pre.length + 1) ⟨⟨pre, k⟩, c, []⟩ [] = (⟨⟨[], k1⟩, c1, recs1⟩, none, errs1))
    (hs : V9.Skipped addr c1 u e) :
    V9.recordsOf (V9.decode c addr (hdr ++ (pre ++ (u ++ post)))).1 =
      V9.recordsOf (V9.decode c addr (hdr ++ (pre ++ post))).1 ∧
    (V9.decode c addr (hdr ++ (pre ++ (u ++ post)))).2 = (V9.decode c addr (hdr ++ (pre ++ post))).2 :=
  let r := V9.decode_skips c addr hdr pre post u e h k k1 c1 recs1 errs1 hh hpre hs
    (C02Flow.v9_terminates c addr (hdr ++ (pre ++ post)))
  ⟨r.1, r.2.1⟩

/-- **C09 (a), whole message, IPFIX** — `decode_skips` without the fuel hypothesis -/
theorem Ipfix.decode_skips' (c : Cache) (addr hdr pre post u : Bytes) (e : Option Err)
    (h : Hdr) (k k1 : Nat) (c1 : Cache) (recs1 : List Record) (errs1 : List Err)
    (hh : Ipfix.readHeader ⟨hdr, 0⟩ = some (h, ⟨[], k⟩))
    (hpre : Ipfix.outer addr (pre.length + 1) ⟨⟨pre, k⟩, c, []⟩ [] = (⟨⟨[], k1⟩, c1, recs1⟩, none, errs1))
    (hs : Ipfix.Skipped addr c1 u e) :
    Ipfix.recordsOf (Ipfix.decode c addr (hdr ++ (pre ++ (u ++ post)))).1 =
      Ipfix.recordsOf (Ipfix.decode c addr (hdr ++ (pre ++ post))).1 ∧
    (Ipfix.decode c addr (hdr ++ (pre ++ (u ++ post)))).2 = (Ipfix.decode c addr (hdr ++ (pre ++ post))).2 :=
  let r := Ipfix.decode_skips c addr hdr pre post u e h k k1 c1 recs1 errs1 hh hpre hs
    (C02Flow.ipfix_terminates c addr (hdr ++ (pre ++ post)))
  ⟨r.1, r.2.1⟩

/-! ## The tie of the fatal / non-fatal classification to the current source -/

/-- **Tie (error classes)**: re-extracted on every run — the declaration of `nonfatalError` in ipfix/decoder.go and
netflow/v9/decoder.go (the struct wrapper: as `type nonfatalError error`, the F4 defect, the type-switch case matches
every error and a truncated datagram fabricates records) and every construction of one — are exactly the reviewed
inventory in `Spec/Sites.lean`: IPFIX unknown template, zero-length record, element missing (scope / field loop) and,
since the F30 repair, "failed to decodeData" = `Ipfix.nonfatalErr`; NetFlow v9 the same without the last =
`Err.nonfatal`.  An error newly wrapped or unwrapped, or a changed declaration, breaks this obligation. -/
theorem nonfatal_reviewed :
    Gen.Sites.nonfatalIpfix = Spec.Sites.nonfatalIpfix ∧ Gen.Sites.nonfatalV9 = Spec.Sites.nonfatalV9 := by
  decide +kernel

/-! ## Tie: `Decoder.decodeSet` and `Decoder.Decode` TRANSLATED statement by statement on every run (`Gen.IpfixIR`) and
interpreted with Go's semantics (`Model/IpfixIR.lean`, linked in `Model/IpfixProg.lean`) ARE `Ipfix.decodeSet` /
`Ipfix.decode` — the functions every theorem above is about.  What the guard inventory and the correspondence runs
do not tie statically: the template lookup, `err` carried across the rounds of the record loop, `break` / `return`
inside it, the leftover skip with its wrapping 16-bit difference, the non-fatal error collection.
`fuel` bounds every loop of the interpreted program; it has to exceed the octets still to read and the size of every
cached template (`decodeData` runs over its specifiers).  Proofs: `Proofs/IpfixIRSet.lean`, `Proofs/IpfixIRMsg.lean`. -/

/-- **`Decoder.decodeSet` translated = `Ipfix.decodeSet`** for every exporter, reader state, cache, message so far
(`agent`, `hdr`, the records in `st.recs`) — state afterwards, the records appended to `msg.DataSets`, and the returned
error with its class and its wrapping in `nonfatalError{…}` (`IpfixProg.errV`: wrapped exactly when the model calls it
non-fatal).  `f'` is the model's own fuel: any value above the octets left, like `fuel`. -/
theorem gen_ir_decodeSet (addr : Bytes) (fuel f' : Nat) (st : Ipfix.St) (agent : Bytes) (hdr : IpfixIR.MHdr)
    (hfuel : st.r.rem.length < fuel) (hf' : st.r.rem.length < f')
    (hc : ∀ e ∈ st.cache, e.2.scope.length + e.2.fields.length < fuel) :
    IpfixProg.decodeSet addr fuel [.msg agent hdr st.recs] ⟨st.r, st.cache⟩ =
      some (⟨(Ipfix.decodeSet addr f' st).1.r, (Ipfix.decodeSet addr f' st).1.cache⟩,
        [.msg agent hdr (Ipfix.decodeSet addr f' st).1.recs], [IpfixProg.errV (Ipfix.decodeSet addr f' st).2]) :=
  IpfixIR.decodeSet_sem addr fuel f' (fuel - 1) st agent hdr hfuel hf'
    (fun e he => by have := hc e he; simp only [Ipfix.nfields]; omega) (by omega)

/-- **`Decoder.Decode` translated = `Ipfix.decode`** for every datagram, cache and exporter address: the same cache
afterwards and the same result — the message (AgentID, header, data sets in order) with the collected non-fatal
errors, or `nil` and the fatal error (`IpfixProg.decodeResult`).  `r'` is where the reader stands at the end (the
model does not report it). -/
theorem gen_ir_decode (c : Cache) (addr bs : Bytes) (fuel : Nat) (hfuel : bs.length < fuel)
    (hc : ∀ e ∈ c, e.2.scope.length + e.2.fields.length < fuel) :
    ∃ r', IpfixProg.decode addr fuel [] ⟨⟨bs, 0⟩, c⟩ =
      some (⟨r', (Ipfix.decode c addr bs).2⟩, [], IpfixProg.decodeResult addr (Ipfix.decode c addr bs).1) :=
  IpfixIR.decode_sem c addr bs fuel hfuel hc

set_option maxRecDepth 100000 in
/-- non-vacuity: the interpreted translation of `Decode` on the example message (template set, two data sets) yields the
message with both records, no error, and the cache with template 256 -/
example : ∃ r', IpfixProg.decode exAddr 57 [] ⟨⟨ipfixMsg, 0⟩, []⟩ =
    some (⟨r', exCache⟩, [], [.msg exAddr ⟨10, 56, 1, 2, 3⟩ [exRec1, exRec2], .errs []]) := by
  have h := gen_ir_decode [] exAddr ipfixMsg 57 (by decide) (by simp)
  have hm : Ipfix.decode [] exAddr ipfixMsg = (.ok ([10, 56, 1, 2, 3], [exRec1, exRec2], []), exCache) := by rfl
  rw [hm] at h
  exact h

set_option maxRecDepth 100000 in
/-- … and on a message whose only set names a template nobody announced: the message without records and the
non-fatal error, wrapped -/
example : ∃ r', IpfixProg.decode exAddr 40 [] ⟨⟨ipfixHdr ++ exUnknown, 0⟩, []⟩ =
    some (⟨r', []⟩, [], [.msg exAddr ⟨10, 56, 1, 2, 3⟩ [], .errs [⟨true, .unknownTpl⟩]]) := by
  have h := gen_ir_decode [] exAddr (ipfixHdr ++ exUnknown) 40 (by decide) (by simp)
  have hm : Ipfix.decode [] exAddr (ipfixHdr ++ exUnknown) = (.ok ([10, 56, 1, 2, 3], [], [.unknownTpl]), []) := by rfl
  rw [hm] at h
  exact h

/-- **NetFlow v9: `Decoder.decodeSet` translated (`Gen.V9IR`) = `V9.decodeSet`** for every exporter, reader state, cache
and message so far: template flowsets 0 / 1, reserved ids, data flowsets with the zero-length rule, every error followed
by the skip of what is left of the flowset — a difference of `int`s that may be negative (`V9.leftInt`; the IR has
negative `int` values for it) -/
theorem gen_ir_v9_decodeSet (addr : Bytes) (fuel f' : Nat) (st : V9.St) (agent : Bytes) (hdr : IpfixIR.PHdr)
    (hfuel : st.r.rem.length < fuel) (hf' : st.r.rem.length < f')
    (hc : ∀ e ∈ st.cache, e.2.scope.length + e.2.fields.length < fuel) :
    V9Prog.decodeSet addr fuel [.msg9 agent hdr st.recs] ⟨st.r, st.cache⟩ =
      some (⟨(V9.decodeSet addr f' st).1.r, (V9.decodeSet addr f' st).1.cache⟩,
        [.msg9 agent hdr (V9.decodeSet addr f' st).1.recs], [V9Prog.errV (V9.decodeSet addr f' st).2]) :=
  V9IR.decodeSet_sem addr fuel f' (fuel - 1) st agent hdr hfuel hf'
    (fun e he => by have := hc e he; simp only [V9.nfields]; omega) (by omega)

/-- **NetFlow v9: `Decoder.Decode` translated = `V9.decode`** for every datagram, cache and exporter address -/
theorem gen_ir_v9_decode (c : Cache) (addr bs : Bytes) (fuel : Nat) (hfuel : bs.length < fuel)
    (hc : ∀ e ∈ c, e.2.scope.length + e.2.fields.length < fuel) :
    ∃ r', V9Prog.decode addr fuel [] ⟨⟨bs, 0⟩, c⟩ =
      some (⟨r', (V9.decode c addr bs).2⟩, [], V9Prog.decodeResult addr (V9.decode c addr bs).1) :=
  V9IR.decode_sem c addr bs fuel hfuel hc

set_option maxRecDepth 100000 in
/-- non-vacuity: the interpreted translation of the v9 `Decode` on the example packet -/
example : ∃ r', V9Prog.decode exAddr 61 [] ⟨⟨v9Msg, 0⟩, []⟩ =
    some (⟨r', exCache⟩, [], [.msg9 exAddr ⟨9, 3, 1, 2, 3, 4⟩ [exRec1, exRec2], .errs []]) := by
  have h := gen_ir_v9_decode [] exAddr v9Msg 61 (by decide) (by simp)
  have hm : V9.decode [] exAddr v9Msg = (.ok ([9, 3, 1, 2, 3, 4], [exRec1, exRec2], []), exCache) := by rfl
  rw [hm] at h
  exact h

end Vflow.C09
