import Vflow.Proofs.PipelineWork
import Vflow.Gen.WorkerIR
/-!
# C12 — a published message depends only on its own datagram

Model: `Vflow.Pipeline` (`Model/Pipeline.lean`): receive buffers with identities, the `sync.Pool`, the
read loop, the bounded UDP / mirror / MQ channels, any number of workers (started at any time, each
interpreting the worker-loop IR that `factgen` extracts from `vflow/*.go`), the mirror consumer and the
MQ consumer. A schedule is a `Reach` derivation; every theorem below is for ANY number of workers, ANY
datagram sequence (the `rxRead` action carries arbitrary octets and source address) and EVERY schedule,
and for every worker program accepted by the decidable predicate `Canonical`.

The obligations at the end (`*_canonical`, `*_readloop`) tie the theorems to the current source: the
extracted programs are `Canonical`, the extracted read loops are the read loop the model implements.
-/
namespace Vflow.C12
open Vflow Vflow.Pipeline

variable {K : Codec} {cfg : Cfg} {spec : CountSpec}
set_option linter.unusedSimpArgs false

/-- who holds a reference to buffer `b` in state `s` (pool excluded) -/
def Held (s : State K) (b : BufId) : Prop :=
  (∃ d, (b, d) ∈ s.udpq) ∨ (∃ d, (b, d) ∈ s.mirq) ∨ (∃ d, s.rx = .read b d ∨ s.rx = .counted b d) ∨
  (∃ (i : Nat) (w : Worker K), s.workers[i]? = some w ∧ w.owns = true ∧ w.msg = some b)

/-- **C12 (ownership)**: in every reachable state every buffer id is in at most one place — pool,
read loop, UDP channel, one worker, mirror channel — (`refs` counts the references with
multiplicity), and only allocated buffers are referenced. -/
theorem ownership (hc : Canonical spec cfg.prog) {c : K.Cache} {mem0 : BufId → Bytes} {s : State K}
    (hr : Reach cfg (init K c mem0) s) (b : BufId) :
    refs s b ≤ 1 ∧ (1 ≤ refs s b → b < s.next) :=
  ⟨(reach_inv (spec := spec) hc hr).uniq b, (reach_inv (spec := spec) hc hr).fresh b⟩

theorem wstep_mem {s s' : State K} {i : Nat} {w : Worker K} {quit : Bool} {mb : Option (Option BufId)}
    (hs : wstep cfg s i w quit mb = some s') (b : BufId) (hne : s'.mem b ≠ s.mem b) :
    b ∈ s.pool ∨ b = s.next := by
  unfold wstep at hs
  repeat' split at hs
  all_goals first
    | (simp at hs; done)
    | (simp at hs; subst hs; simp [State.setW] at hne; done)
    | (simp at hs; subst hs; simp [State.setW] at hne; obtain ⟨rfl, _⟩ := hne; first | (left; assumption) | (right; rfl))

/-- **C12 (writes)**: a step changes the content of buffer `b` only if `b` is the buffer the read
loop currently owns (`ReadFromUDP` into it), or a buffer that the writing worker takes from the pool /
allocates in the same atomic step (the mirror copy) -/
theorem write_only_by_owner {s s' : State K} (hs : Step cfg s s') (b : BufId) (hne : s'.mem b ≠ s.mem b) :
    s.rx = .got b ∨ b ∈ s.pool ∨ b = s.next := by
  obtain ⟨a, ha⟩ := hs
  cases a <;> simp only [step] at ha
  case work i q mb =>
    split at ha <;> try (simp at ha; done)
    split at ha <;> try (simp at ha; done)
    exact .inr (wstep_mem ha b hne)
  case rxRead dg =>
    split at ha <;> try (simp at ha; done)
    rename_i b' hrx
    split at ha
    · simp at ha; subst ha; simp at hne
    · simp at ha; subst ha; simp at hne
      rw [hne.1]; exact .inl hrx
  all_goals
    repeat' split at ha
    all_goals first
      | (simp at ha; done)
      | (simp at ha; subst ha; simp at hne; done)

/-- **C12 (no interference)**: a buffer that is in the UDP channel, in the mirror channel, read but
not yet enqueued, or owned by a worker is never written by any step, under any schedule — its holder
sees exactly the octets of the datagram that was received into it -/
theorem held_unchanged (hc : Canonical spec cfg.prog) {c : K.Cache} {mem0 : BufId → Bytes} {s s' : State K}
    (hr : Reach cfg (init K c mem0) s) (hs : Step cfg s s') (b : BufId) (hb : Held s b) :
    s'.mem b = s.mem b := by
  have h := reach_inv (spec := spec) hc hr
  apply Classical.byContradiction
  intro hne
  have hu := h.uniq b
  have hf := h.fresh b
  have h1 : 1 ≤ qcount s.udpq b + qcount s.mirq b + wsum s.workers b ∨
      (∃ d, s.rx = .read b d ∨ s.rx = .counted b d) := by
    rcases hb with ⟨d, hq⟩ | ⟨d, hq⟩ | hrx | ⟨i, w, hi, ho, hm⟩
    · have := qcount_pos hq; left; omega
    · have := qcount_pos hq; left; omega
    · right; exact hrx
    · have := wref_le_wsum hi b; rw [wref_pos ho hm] at this; left; omega
  rcases write_only_by_owner hs b hne with hw | hw | hw
  · rcases h1 with h1 | ⟨d, h1 | h1⟩
    · have : rxref s.rx b = 1 := by simp [hw, rxref]
      simp only [refs] at hu; omega
    · rw [hw] at h1; simp at h1
    · rw [hw] at h1; simp at h1
  · have hp := List.count_pos_iff.mpr hw
    rcases h1 with h1 | ⟨d, h1⟩
    · simp only [refs] at hu; omega
    · have : rxref s.rx b = 1 := by rcases h1 with e | e <;> simp [e, rxref]
      simp only [refs] at hu; omega
  · have : 1 ≤ refs s b := by
      rcases h1 with h1 | ⟨d, h1⟩
      · simp only [refs]; omega
      · have : rxref s.rx b = 1 := by rcases h1 with e | e <;> simp [e, rxref]
        simp only [refs]; omega
    have := hf this
    rw [hw] at this; exact Nat.lt_irrefl _ this

/-- **C12 (the octets a worker decodes are its datagram's)**: whenever a worker is about to decode
or to marshal (the decoded message may alias the receive buffer), the buffer it reads still holds
exactly the octets of the datagram it dequeued -/
theorem worker_reads_own_datagram (hc : Canonical spec cfg.prog) {c : K.Cache} {mem0 : BufId → Bytes}
    {s : State K} (hr : Reach cfg (init K c mem0) s) {i : Nat} {w : Worker K}
    (hi : s.workers[i]? = some w) (hh : w.halted = false) {rest : List Instr} {own : Bool}
    (hpc : w.pc = .decode :: rest ∨ w.pc = .marshal own :: rest ∨ w.pc = .mirrorCopy :: rest) :
    ∃ b d, w.msg = some b ∧ w.cur = some d ∧ s.mem b = d.bytes ∧ Event.received d ∈ s.log := by
  have h := reach_inv (spec := spec) hc hr
  rcases h.wk i w hi with ⟨hhalt, _⟩ | ⟨a, hsim, hchk⟩
  · rw [hh] at hhalt; simp at hhalt
  have key : a.owns = true ∧ a.cur = true := by
    rcases hpc with e | e | e <;> rw [e] at hchk <;> simp only [check, Pipeline.trans] at hchk <;>
      split at hchk <;> (try (simp at hchk; done)) <;> rename_i a' ha' <;> split at ha' <;> simp at ha' <;>
      rename_i hg <;> simp at hg
    · exact hg.1
    · exact ⟨hg.1.1.1.1, hg.1.1.1.2⟩
    · exact hg
  have ho : w.owns = true := by rw [hsim.owns_eq]; exact key.1
  obtain ⟨b, hb⟩ := hsim.owns_msg ho
  have hcur : w.cur.isSome = true := by rw [hsim.cur_eq]; exact key.2
  cases hd : w.cur with
  | none => rw [hd] at hcur; simp at hcur
  | some d => exact ⟨b, d, hb, rfl, hsim.buf_ok b d ho hb hd, hsim.cur_recv d hd⟩

/-- **C12 (solo result)**: everything on the MQ channel, everything the MQ consumer has read and every
`published` event carries, byte for byte, `marshal (decode cache addr octets)` of ONE received
datagram's own octets, `cache` being the template cache in force when that datagram was decoded
(`Sol`); and every element of the MQ channel is a private copy (`MQItem.val`): the reusable encode
buffer never escapes. -/
theorem published_is_solo (hc : Canonical spec cfg.prog) {c : K.Cache} {mem0 : BufId → Bytes} {s : State K}
    (hr : Reach cfg (init K c mem0) s) :
    (∀ it, it ∈ s.mq → ∃ id p, it = .val id p ∧ Sol s.log id p) ∧
    (∀ id p, (id, p) ∈ s.delivered → Sol s.log id p) ∧
    (∀ id p, Event.published id p ∈ s.log → Sol s.log id p) :=
  let h := reach_inv (spec := spec) hc hr
  ⟨h.mqOk, h.delOk, h.pubOk⟩

/-- `Sol` spelled out: the payload is the solo result of a received datagram -/
theorem solo_spelled_out {log : List (Event K)} {id : Nat} {p : Bytes} (h : Sol log id p) :
    ∃ (d : Dgram) (cache : K.Cache), Event.received d ∈ log ∧ d.id = id ∧
      ∃ m, (K.decode cache d.addr d.bytes).1 = some m ∧ K.hasData m = true ∧ K.marshal m = some p := by
  obtain ⟨d, c, h1, h2, _, h4⟩ := h
  refine ⟨d, c, h1, h2, ?_⟩
  cases hm : (K.decode c d.addr d.bytes).1 with
  | none => rw [hm] at h4; simp [outcome] at h4
  | some m =>
    rw [hm] at h4
    simp only [outcome, Option.bind_some] at h4
    split at h4
    · rename_i hd; exact ⟨m, rfl, hd, h4⟩
    · simp at h4

/-- **C12 (encode buffer)**: whenever a worker is about to marshal into its reusable encode buffer,
the buffer is empty (it was reset after its previous use) -/
theorem enc_reset_before_use (hc : Canonical spec cfg.prog) {c : K.Cache} {mem0 : BufId → Bytes}
    {s : State K} (hr : Reach cfg (init K c mem0) s) {i : Nat} {w : Worker K}
    (hi : s.workers[i]? = some w) (hh : w.halted = false) {rest : List Instr}
    (hpc : w.pc = .marshal true :: rest) : w.enc = [] := by
  have h := reach_inv (spec := spec) hc hr
  rcases h.wk i w hi with ⟨hhalt, _⟩ | ⟨a, hsim, hchk⟩
  · rw [hh] at hhalt; simp at hhalt
  rw [hpc] at hchk
  simp only [check, Pipeline.trans] at hchk
  split at hchk <;> try (simp at hchk; done)
  rename_i a' ha'
  split at ha' <;> simp at ha'
  rename_i hg
  simp at hg
  exact hsim.clean hg.2

/-- the mirror is handed a private copy that still holds the datagram's octets (used by C16) -/
theorem mirrored_is_datagram (hc : Canonical spec cfg.prog) {c : K.Cache} {mem0 : BufId → Bytes} {s : State K}
    (hr : Reach cfg (init K c mem0) s) (id : Nat) (p : Bytes) (hm : Event.mirrored id p ∈ s.log) :
    ∃ d, Event.received d ∈ s.log ∧ d.id = id ∧ p = d.bytes :=
  (reach_inv (spec := spec) hc hr).mirOk id p hm

/-! ## the tie to the current source (regenerated facts) -/

/-- obligation: `ipfixWorker` of vflow/ipfix.go is canonical (put-back-at-loop-head shape) -/
theorem ipfixWorker_canonical : Canonical .onMsg Gen.ipfixWorker := by decide
/-- obligation: `netflowV9Worker` of vflow/netflow_v9.go is canonical -/
theorem netflowV9Worker_canonical : Canonical .onMsg Gen.netflowV9Worker := by decide
/-- obligation: `netflowV5Worker` of vflow/netflow_v5.go is canonical -/
theorem netflowV5Worker_canonical : Canonical .onMsg Gen.netflowV5Worker := by decide
/-- obligation: `sFlowWorker` of vflow/sflow.go is canonical (put-back-at-loop-end shape) -/
theorem sFlowWorker_canonical : Canonical .onYield Gen.sFlowWorker := by decide
/-- obligation: the four read loops are the read loop the model implements, and all that follows the loop in
`run()` is the reader closing its own UDP channel (`canonicalRxTail`: nothing is received or enqueued after the loop) -/
theorem readloops_canonical :
    Gen.ipfixRun = canonicalRx ∧ Gen.netflowV9Run = canonicalRx ∧ Gen.netflowV5Run = canonicalRx ∧
    Gen.sFlowRun = canonicalRx ∧
    Gen.ipfixRunTail = canonicalRxTail ∧ Gen.netflowV9RunTail = canonicalRxTail ∧
    Gen.netflowV5RunTail = canonicalRxTail ∧ Gen.sFlowRunTail = canonicalRxTail := by decide

/-! ## non-vacuity and the mutants -/

/-- a toy codec: a datagram decodes iff it is non-empty, has data iff longer than one octet, and
marshals to its reversal -/
def toy : Codec where
  Cache := Unit
  Msg := Bytes
  decode := fun _ _ bs => (if bs.isEmpty then none else some bs, ())
  hasData := fun m => decide (1 < m.length)
  marshal := fun m => some m.reverse

theorem reach_run (cfg : Cfg) (s : State K) (acts : List Action) : Reach cfg s (run cfg s acts) := by
  induction acts generalizing s with
  | nil => exact .refl s
  | cons a as ih =>
    simp only [run]
    split
    · rename_i s' hs
      have : ∀ t, Reach cfg s' t → Reach cfg s t := by
        intro t ht
        induction ht with
        | refl => exact .step (.refl s) ⟨a, hs⟩
        | step _ st ih' => exact .step ih' st
      exact this _ (ih s')
    · exact ih s

/-- one read-loop iteration delivering `bytes` from `addr` -/
def feed (addr bytes : Bytes) : List Action := [.rxGetNew, .rxRead (some (addr, bytes)), .rxCount, .rxEnqueue]

/-- `n` steps of worker `i` (no quit, mirror off) -/
def works (i n : Nat) : List Action := List.replicate n (.work i false none)

/-- non-vacuity: the real `ipfixWorker` program, two workers, two datagrams interleaved: both are
published, each payload is its own datagram's solo result -/
example :
    let s := run (K := toy) { prog := Gen.ipfixWorker } (init toy () (fun _ => []))
      ([.spawn none, .spawn none] ++ feed [1] [10, 11, 12] ++ feed [2] [20, 21] ++
       works 0 6 ++ works 1 6 ++ works 0 10 ++ works 1 10 ++ [.mqConsume, .mqConsume])
    s.delivered = [(1, [21, 20]), (0, [12, 11, 10])] ∧ s.udpCount = 2 ∧ s.decCount = 2 := by decide

/-- non-vacuity for the sFlow shape -/
example :
    let s := run (K := toy) { prog := Gen.sFlowWorker } (init toy () (fun _ => []))
      ([.spawn none, .spawn none] ++ feed [1] [10, 11, 12] ++ feed [2] [20] ++ feed [2] [] ++
       works 0 12 ++ works 1 12 ++ works 0 12 ++ [.mqConsume, .mqConsume])
    s.delivered = [(0, [12, 11, 10])] ∧ s.udpCount = 3 ∧ s.decCount = 1 ∧ s.pool.length = 3 := by decide

/-- the ipfix worker with the copy replaced by the alias (`ipfixMQCh <- b`) -/
def aliasMutant : Prog := { Gen.ipfixWorker with loop := Gen.ipfixWorker.loop.map fun i =>
  if i = .publishCopy then .publishAlias else i }

/-- the ipfix worker returning the receive buffer to the pool right after the receive -/
def earlyPutMutant : Prog := { initGet := false, loop :=
  [.resetEnc, .recvOrQuit, .putBack, .decode, .contIf .noMsg false, .countDecoded, .contIf .noData false,
   .marshal true, .contIf .marshalErr false, .publishCopy] }

theorem aliasMutant_not_canonical : ¬ Canonical .onMsg aliasMutant := by decide
theorem earlyPutMutant_not_canonical : ¬ Canonical .onMsg earlyPutMutant := by decide

/-- the alias mutant violates C12 in the model: one worker, two datagrams, the consumer reads the
first message only after the worker has re-used its encode buffer — datagram 0 is delivered with
datagram 1's payload -/
theorem aliasMutant_counterexample :
    (run (K := toy) { prog := aliasMutant } (init toy () (fun _ => []))
      ([.spawn none] ++ feed [1] [10, 11, 12] ++ feed [2] [20, 21] ++ works 0 30 ++ [.mqConsume])).delivered
    = [(0, [21, 20])] := by decide

/-- the early-put mutant violates C12 in the model: the read loop re-uses the buffer while the worker
still decodes from it — datagram 0 is published with datagram 1's octets -/
theorem earlyPutMutant_counterexample :
    (run (K := toy) { prog := earlyPutMutant } (init toy () (fun _ => []))
      ([.spawn none] ++ feed [1] [10, 11, 12] ++ works 0 3 ++
       [.rxGetPool 0, .rxRead (some ([2], [20, 21])), .rxCount, .rxEnqueue] ++ works 0 8 ++ [.mqConsume])).delivered
    = [(0, [21, 20])] := by decide

end Vflow.C12
