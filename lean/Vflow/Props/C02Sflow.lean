import Vflow.Proofs.SflowCost
/-!
# C02 (sFlow share) — decoding work and output are bounded by the datagram's size

The sample loop and the two record loops are `loopN` with explicit fuel; `Res.fuel` is the model's
image of a loop that makes no progress.  Every successful iteration consumes at least the two
32-bit words it reads first, so fuel `length + 1` always suffices and at most `length / 8` items
can be produced — however large the `SamplesNo` / `RecordsNo` fields are.
-/
namespace Vflow.C02Sflow
open Vflow Vflow.Sflow Vflow.Packet

/-- **C02 (termination)**: with fuel `bs.length + 1` the decoder never runs out of fuel -/
theorem decode_ne_fuel (f : List Nat) (bs : Bytes) : decode f bs ≠ .fuel := by
  unfold decode
  obtain ⟨hs, hk⟩ := decodeHeader_good bs
  cases hx : decodeHeader bs with
  | ok p =>
    obtain ⟨h, r⟩ := p
    have hr := hk _ _ hx
    simp only
    have := (loopN_good (sampleStep_good f) (bs.length + 1) h.samplesNo r (by omega)).1.2
    cases hl : loopN (sampleStep f) (bs.length + 1) h.samplesNo r <;> simp_all
  | err e => simp
  | panic => simp
  | fuel => exact absurd hx hs.2

/-- the inner record loops, started (as `decodeFlowSample` / `decodeFlowCounter` do) with fuel
`remaining + 1`, never run out of fuel either -/
theorem record_loops_ne_fuel (n : Nat) (bs : Bytes) :
    loopN flowRecord (bs.length + 1) n bs ≠ .fuel ∧ loopN counterRecord (bs.length + 1) n bs ≠ .fuel :=
  ⟨(loopN_good flowRecord_good _ n bs (by omega)).1.2, (loopN_good counterRecord_good _ n bs (by omega)).1.2⟩

theorem filterMap_split_le (l : List (Option Sample)) :
    (l.filterMap (fun o => o.bind Sample.flow?)).length +
      (l.filterMap (fun o => o.bind Sample.counter?)).length ≤ l.length := by
  induction l with
  | nil => simp
  | cons x t ih =>
    cases x with
    | none => simp [List.filterMap_cons]; omega
    | some s => cases s <;> simp [List.filterMap_cons, Sample.flow?, Sample.counter?] <;> omega

/-- **C02 (output bound)**: a decoded datagram holds at most `length / 8` samples and counters,
whatever its `SamplesNo` field says -/
theorem samples_le (f : List Nat) (bs : Bytes) (d : Datagram) (h : decode f bs = .ok d) :
    d.samples.length + d.counters.length ≤ bs.length / 8 := by
  unfold decode at h
  cases hx : decodeHeader bs with
  | ok p =>
    obtain ⟨hd, r⟩ := p
    rw [hx] at h
    simp only at h
    cases hl : loopN (sampleStep f) (bs.length + 1) hd.samplesNo r with
    | ok q =>
      obtain ⟨items, r'⟩ := q
      rw [hl] at h
      simp at h
      subst h
      have h1 := (loopN_good (sampleStep_good f) (bs.length + 1) hd.samplesNo r
        (by have := (decodeHeader_good bs).2 _ _ hx; omega)).2 items r' hl
      have h2 := (decodeHeader_good bs).2 _ _ hx
      have h3 := filterMap_split_le items
      simp only [mkDatagram]
      omega
    | err e => rw [hl] at h; simp at h
    | panic => rw [hl] at h; simp at h
    | fuel => rw [hl] at h; simp at h
  | err e => rw [hx] at h; simp at h
  | panic => rw [hx] at h; simp at h
  | fuel => rw [hx] at h; simp at h

/-- a decoded flow or counter sample consumed at least 8 octets per record it holds: the record
count that was *executed* is bounded by the octets, not by the `RecordsNo` field -/
theorem records_le (n : Nat) (bs r : Bytes) (items : List (Option FlowRec))
    (h : loopN flowRecord (bs.length + 1) n bs = .ok (items, r)) : 8 * n ≤ bs.length := by
  have := (loopN_good flowRecord_good _ n bs (by omega)).2 items r h
  omega

/-- **C02 (allocation)**: the allocation count of one decode call (`decodeCost`, the instrumented twin of
`Vflow.Model.SflowCost`: `n` units per `make([]byte, n)` with a wire-derived size, 1–2 per fixed-size
object of a step) is linear in the number of octets received — never in a length or count field.  The
slope 64 comes from the 1500-octet header cap (a raw-header record of ≥ 25 octets can request at most
1503), the constant from the one request that may exceed what is left of a truncated datagram. -/
theorem alloc_linear (f : List Nat) (bs : Bytes) : decodeCost f bs ≤ 64 * bs.length + 1525 :=
  decodeCost_le f bs

/-- non-vacuity of the allocation bound (F5 witness): an extended-router record announcing length 4
(which made the unrepaired code request 4 GiB) is skipped by its length since the F19d repair and costs
1 unit (no buffer at all), as does one announcing 4 294 967 295; a valid one costs its 8-octet buffer -/
example : flowRecordCost [0,0,3,234, 0,0,0,4, 0,0,0,1, 192,0,2,9, 0,0,0,24, 0,0,0,16] = 1 ∧
    flowRecordCost [0,0,3,234, 255,255,255,255, 0,0,0,1, 192,0,2,9, 0,0,0,24, 0,0,0,16] = 1 ∧
    flowRecordCost [0,0,3,234, 0,0,0,16, 0,0,0,1, 192,0,2,9, 0,0,0,24, 0,0,0,16] = 10 := by decide

/-- non-vacuity: a datagram announcing 4 294 967 295 samples but carrying none ends with an error after
one failed read — no fuel, no panic -/
example : decode [] [0,0,0,5, 0,0,0,1, 10,0,0,1, 0,0,0,2, 0,0,0,3, 0,0,0,4, 255,255,255,255] = .err .eof := by
  decide

end Vflow.C02Sflow
