import Vflow.Props.C01Sflow
import Vflow.Props.C02Flow
import Vflow.Gen.Sites
import Vflow.Spec.Sites
import Vflow.Gen.JsonWrites
import Vflow.Gen.InterpretTbl
import Vflow.Model.JsonOut
import Vflow.Model.V5
/-!
# C01 — no datagram, however malformed, can crash the collector

Model convention: every Go operation that can panic is an explicit check in the model.  For the
sFlow decoder and the packet dissector that check yields the outcome `panic`, and
`C01Sflow.decode_ne_panic` / `dissect_ne_panic` / `steps_ne_panic` prove it is never produced.
For the IPFIX / NetFlow v9 / v5 decoders every slice of the datagram goes through the reader, whose
guard is the model's `Rd.readN` (C19: it never takes more than remains), so those models are total
functions with no `panic` outcome at all; what remains to be shown is stated below:
* every payload is *either decoded or rejected with an error* (no third outcome: not even `fuel`,
  i.e. non-termination), for every cache — hence for every history of earlier payloads;
* `Interpret`'s unguarded `(*b)[0]` / `binary.BigEndian.UintK(*b)` reads stay inside the value
  (`interpret_reads_in_range`);
* the JSON encoders have a writing arm for every dynamic type `Interpret` can return
  (`writeValue_covers_interpret`, over regenerated facts: before the F11 repair `bool` had none);
* the inventory of panic-capable expressions in the anchored files is the reviewed one
  (`panic_sites_reviewed`, over regenerated facts).
-/
namespace Vflow.C01
open Vflow

/-- **C01 (IPFIX)**: for every cache (= every history), exporter address and payload, `Decode` returns a
message or an error — never runs forever -/
theorem ipfix_decoded_or_rejected (c : Cache) (addr bs : Bytes) :
    (∃ m, (Ipfix.decode c addr bs).1 = .ok m) ∨ (∃ e, (Ipfix.decode c addr bs).1 = .error e ∧ e ≠ .fuel) := by
  have h := C02Flow.ipfix_terminates c addr bs
  cases hr : (Ipfix.decode c addr bs).1 with
  | ok m => left; exact ⟨m, rfl⟩
  | error e => right; refine ⟨e, rfl, ?_⟩; intro he; apply h; rw [hr, he]

/-- **C01 (NetFlow v9)** -/
theorem v9_decoded_or_rejected (c : Cache) (addr bs : Bytes) :
    (∃ m, (V9.decode c addr bs).1 = .ok m) ∨ (∃ e, (V9.decode c addr bs).1 = .error e ∧ e ≠ .fuel) := by
  have h := C02Flow.v9_terminates c addr bs
  cases hr : (V9.decode c addr bs).1 with
  | ok m => left; exact ⟨m, rfl⟩
  | error e => right; refine ⟨e, rfl, ?_⟩; intro he; apply h; rw [hr, he]

/-- **C01 (NetFlow v5)**: the v5 model is a total function by structural recursion (no fuel): every
payload yields a message or one of the four error classes -/
theorem v5_decoded_or_rejected (bs : Bytes) :
    (∃ m, V5.decode bs = .ok m) ∨ (∃ e, V5.decode bs = .error e) := by
  cases h : V5.decode bs with
  | ok m => left; exact ⟨m, rfl⟩
  | error e => right; exact ⟨e, rfl⟩

/-- octets `Interpret` reads without a further check for FieldType `t`
(`(*b)[0]`: 1; `binary.BigEndian.Uint16/32/64(*b)`: 2/4/8, which panic on a shorter slice) -/
def neededBy (t : Nat) : Nat :=
  match t with
  | 11 | 1 | 5 => 1
  | 2 | 6 => 2
  | 3 | 7 | 9 | 15 => 4
  | 4 | 8 | 10 | 16 | 17 | 18 => 8
  | _ => 0

/-- the `len(*b) < t.minLen()` guard covers every unguarded read of `Interpret`, for every FieldType.  (The over-long
branch added by the F24 repair, `wideUint` / `wideInt`, reads the field with `for _, x := range b` only: no index or
slice expression — `panic_sites_reviewed` below is unchanged by it — and `shift = 64 - 8·len` is computed after the
`len(b) > 8` return, so it is 0 … 56; the values it returns are `uint64` / `int64` / `[]byte`, kinds that
`writeValue_covers_interpret` already covers.) -/
theorem interpret_reads_in_range (b : Bytes) (t : Nat) (h : ¬ b.length < minLen t) : neededBy t ≤ b.length := by
  have : neededBy t ≤ minLen t := by
    unfold neededBy minLen
    split <;> simp
  omega

/-- Go dynamic type of each `Interpret` result kind -/
def goType : String → String
  | "bool" => "bool" | "u8" => "uint8" | "u16" => "uint16" | "u32" => "uint32" | "u64" => "uint64"
  | "i8" => "int8" | "i16" => "int16" | "i32" => "int32" | "i64" => "int64"
  | "f32" => "float32" | "f64" => "float64" | "mac" => "net.HardwareAddr" | "str" => "string"
  | "ip" => "net.IP" | "raw" => "[]uint8" | k => "?" ++ k

/-- over regenerated facts: every dynamic type `Interpret` returns has a writing arm in both encoders,
so `JSONMarshal` has no error path for decoded messages -/
theorem writeValue_covers_interpret :
    (∀ e ∈ Gen.InterpretTbl.interpretKind, goType e.2 ∈ Gen.JsonWrites.ipfixWriteValueArms) ∧
    (∀ e ∈ Gen.InterpretTbl.interpretKind, goType e.2 ∈ Gen.JsonWrites.v9WriteValueArms) := by
  decide +kernel

/-- over regenerated facts: the panic-capable expressions of the anchored files are the reviewed inventory -/
theorem panic_sites_reviewed : Gen.Sites.panicSites = Spec.Sites.panicSites := by decide +kernel

/-- non-vacuity: a malformed payload (set length 3) is rejected, a well-formed empty message is decoded -/
example : (Ipfix.decode [] [10,0,0,1] [0,10,0,20,0,0,0,0,0,0,0,1,0,0,0,0,1,0,0,3,9,9]).1 = .error .badSetLen := by rfl
example : (Ipfix.decode [] [10,0,0,1] [0,10,0,16,0,0,0,0,0,0,0,1,0,0,0,0]).1 = .ok ([10,16,0,1,0], [], []) := by rfl

end Vflow.C01
