import Vflow.Props.C01Sflow
import Vflow.Props.C02Flow
import Vflow.Props.C02Sflow
import Vflow.Gen.Sites
import Vflow.Spec.Sites
import Vflow.Gen.JsonWrites
import Vflow.Gen.InterpretTbl
import Vflow.Model.JsonOut
import Vflow.Model.V5
/-!
# C01 — no datagram, however malformed, can crash the collector

Model convention: every Go operation that can panic is an explicit check in the model.  For the
sFlow decoder and the packet dissector that check yields the outcome `panic`, and
`C01Sflow.decode_ne_panic` / `dissect_ne_panic` / `steps_ne_panic` prove it is never produced.
For the IPFIX / NetFlow v9 / v5 decoders every slice of the datagram goes through the reader, whose
guard is the model's `Rd.readN` (C19: it never takes more than remains), so those models are total
functions with no `panic` outcome at all; what remains to be shown is stated below:
* every payload is *either decoded or rejected with an error* (no third outcome: not even `fuel`,
  i.e. non-termination), for every cache — hence for every history of earlier payloads;
* `Interpret`'s unguarded `(*b)[0]` / `binary.BigEndian.UintK(*b)` reads stay inside the value
  (`interpret_reads_in_range`);
* the JSON encoders have a writing arm for every dynamic type `Interpret` can return
  (`writeValue_covers_interpret`, over regenerated facts: before the F11 repair `bool` had none);
* the inventory of panic-capable expressions in the anchored files is the reviewed one
  (`panic_sites_reviewed`, over regenerated facts).
-/
namespace Vflow.C01
open Vflow

/-- **C01 (IPFIX)**: for every cache (= every history), exporter address and payload, `Decode` returns a
message or an error — never runs forever -/
theorem ipfix_decoded_or_rejected (c : Cache) (addr bs : Bytes) :
    (∃ m, (Ipfix.decode c addr bs).1 = .ok m) ∨ (∃ e, (Ipfix.decode c addr bs).1 = .error e ∧ e ≠ .fuel) := by
  have h := C02Flow.ipfix_terminates c addr bs
  cases hr : (Ipfix.decode c addr bs).1 with
  | ok m => left; exact ⟨m, rfl⟩
  | error e => right; refine ⟨e, rfl, ?_⟩; intro he; apply h; rw [hr, he]

/-- **C01 (NetFlow v9)** -/
theorem v9_decoded_or_rejected (c : Cache) (addr bs : Bytes) :
    (∃ m, (V9.decode c addr bs).1 = .ok m) ∨ (∃ e, (V9.decode c addr bs).1 = .error e ∧ e ≠ .fuel) := by
  have h := C02Flow.v9_terminates c addr bs
  cases hr : (V9.decode c addr bs).1 with
  | ok m => left; exact ⟨m, rfl⟩
  | error e => right; refine ⟨e, rfl, ?_⟩; intro he; apply h; rw [hr, he]

/-- **C01 (NetFlow v5)**: the v5 model is a total function by structural recursion (no fuel): every
payload yields a message or one of the four error classes -/
theorem v5_decoded_or_rejected (bs : Bytes) :
    (∃ m, V5.decode bs = .ok m) ∨ (∃ e, V5.decode bs = .error e) := by
  cases h : V5.decode bs with
  | ok m => left; exact ⟨m, rfl⟩
  | error e => right; exact ⟨e, rfl⟩

/-- octets `Interpret` reads without a further check for FieldType `t`
(`(*b)[0]`: 1; `binary.BigEndian.Uint16/32/64(*b)`: 2/4/8, which panic on a shorter slice) -/
def neededBy (t : Nat) : Nat :=
  match t with
  | 11 | 1 | 5 => 1
  | 2 | 6 => 2
  | 3 | 7 | 9 | 15 => 4
  | 4 | 8 | 10 | 16 | 17 | 18 => 8
  | _ => 0

/-- the `len(*b) < t.minLen()` guard covers every unguarded read of `Interpret`, for every FieldType.  (The over-long
branch added by the F24 repair, `wideUint` / `wideInt`, reads the field with `for _, x := range b` only: no index or
slice expression — `panic_sites_reviewed` below is unchanged by it — and `shift = 64 - 8·len` is computed after the
`len(b) > 8` return, so it is 0 … 56; the values it returns are `uint64` / `int64` / `[]byte`, kinds that
`writeValue_covers_interpret` already covers.) -/
theorem interpret_reads_in_range (b : Bytes) (t : Nat) (h : ¬ b.length < minLen t) : neededBy t ≤ b.length := by
  have : neededBy t ≤ minLen t := by
    unfold neededBy minLen
    split <;> simp
  omega

/-- Go dynamic type of each `Interpret` result kind -/
def goType : String → String
  | "bool" => "bool" | "u8" => "uint8" | "u16" => "uint16" | "u32" => "uint32" | "u64" => "uint64"
  | "i8" => "int8" | "i16" => "int16" | "i32" => "int32" | "i64" => "int64"
  | "f32" => "float32" | "f64" => "float64" | "mac" => "net.HardwareAddr" | "str" => "string"
  | "ip" => "net.IP" | "raw" => "[]uint8" | k => "?" ++ k

/-- over regenerated facts: every dynamic type `Interpret` returns has a writing arm in both encoders,
so `JSONMarshal` has no error path for decoded messages -/
theorem writeValue_covers_interpret :
    (∀ e ∈ Gen.InterpretTbl.interpretKind, goType e.2 ∈ Gen.JsonWrites.ipfixWriteValueArms) ∧
    (∀ e ∈ Gen.InterpretTbl.interpretKind, goType e.2 ∈ Gen.JsonWrites.v9WriteValueArms) := by
  decide +kernel

/-- over regenerated facts: the panic-capable expressions of the anchored files are the reviewed inventory -/
theorem panic_sites_reviewed : Gen.Sites.panicSites = Spec.Sites.panicSites := by decide +kernel

/-- non-vacuity: a malformed payload (set length 3) is rejected, a well-formed empty message is decoded -/
example : (Ipfix.decode [] [10,0,0,1] [0,10,0,20,0,0,0,0,0,0,0,1,0,0,0,0,1,0,0,3,9,9]).1 = .error .badSetLen := by rfl
example : (Ipfix.decode [] [10,0,0,1] [0,10,0,16,0,0,0,0,0,0,0,1,0,0,0,0]).1 = .ok ([10,16,0,1,0], [], []) := by rfl

/-! ## Histories: any sequence of payloads on the four ports -/

/-- one UDP payload arriving on one of the four ports (`addr` = the exporter's address as the listener reports it) -/
inductive Payload where
  | ipfix (addr bs : Bytes)
  | v9 (addr bs : Bytes)
  | v5 (bs : Bytes)
  | sflow (bs : Bytes)

/-- the two template caches of the process -/
structure Caches where
  ipfix : Cache
  v9 : Cache

/-- what processing one payload can come to: `crashed` stands for a panic or a decode that never returns -/
inductive Outcome where
  | decoded | rejected | crashed
deriving DecidableEq, Repr

def flowOutcome {α : Type} : Except Err α → Outcome
  | .ok _ => .decoded
  | .error .fuel => .crashed
  | .error _ => .rejected

def sflowOutcome {α : Type} : Sflow.Res α → Outcome
  | .ok _ => .decoded
  | .err _ => .rejected
  | .panic => .crashed
  | .fuel => .crashed

/-- the collector processing one payload with sFlow type filter `f`: the outcome and the caches afterwards -/
def process (f : List Nat) (cs : Caches) : Payload → Outcome × Caches
  | .ipfix addr bs => (flowOutcome (Ipfix.decode cs.ipfix addr bs).1, { cs with ipfix := (Ipfix.decode cs.ipfix addr bs).2 })
  | .v9 addr bs => (flowOutcome (V9.decode cs.v9 addr bs).1, { cs with v9 := (V9.decode cs.v9 addr bs).2 })
  | .v5 bs => ((match V5.decode bs with | .ok _ => .decoded | .error _ => .rejected), cs)
  | .sflow bs => (sflowOutcome (Sflow.decode f bs), cs)

/-- the outcomes of a sequence of payloads, each processed with the caches the earlier ones left -/
def outcomes (f : List Nat) (cs : Caches) : List Payload → List Outcome
  | [] => []
  | p :: ps => (process f cs p).1 :: outcomes f (process f cs p).2 ps

/-- one payload, whatever the caches: decoded or rejected -/
theorem process_ne_crashed (f : List Nat) (cs : Caches) (p : Payload) : (process f cs p).1 ≠ .crashed := by
  cases p with
  | ipfix addr bs =>
    simp only [process]
    rcases ipfix_decoded_or_rejected cs.ipfix addr bs with ⟨m, h⟩ | ⟨e, h, he⟩
    · rw [h]; simp [flowOutcome]
    · rw [h]; cases e <;> simp_all [flowOutcome]
  | v9 addr bs =>
    simp only [process]
    rcases v9_decoded_or_rejected cs.v9 addr bs with ⟨m, h⟩ | ⟨e, h, he⟩
    · rw [h]; simp [flowOutcome]
    · rw [h]; cases e <;> simp_all [flowOutcome]
  | v5 bs => simp only [process]; cases V5.decode bs <;> simp
  | sflow bs =>
    simp only [process]
    have h1 := C01Sflow.decode_ne_panic f bs
    have h2 := C02Sflow.decode_ne_fuel f bs
    cases h : Sflow.decode f bs <;> simp_all [sflowOutcome]

/-- **C01 (histories, all four ports)**: for every finite sequence of payloads arriving in any order on the IPFIX,
NetFlow v9, NetFlow v5 and sFlow ports from any exporter addresses, starting from any caches (the empty ones of a fresh
start, or the ones loaded from a cache file), and every sFlow type filter, each payload is decoded or rejected — none
panics or runs forever, whatever templates the earlier payloads have installed.  By induction over the sequence from
the four per-payload theorems (which hold for *every* cache, reachable or not). -/
theorem history_never_crashes (f : List Nat) (cs : Caches) (ps : List Payload) :
    ∀ o ∈ outcomes f cs ps, o = .decoded ∨ o = .rejected := by
  induction ps generalizing cs with
  | nil => intro o h; simp [outcomes] at h
  | cons p ps ih =>
    intro o h
    simp only [outcomes, List.mem_cons] at h
    rcases h with h | h
    · have := process_ne_crashed f cs p
      subst h; cases hp : (process f cs p).1 <;> simp_all
    · exact ih _ o h

/-- every payload of the sequence has an outcome (processing goes on after a rejected payload) -/
theorem history_outcomes_length (f : List Nat) (cs : Caches) (ps : List Payload) :
    (outcomes f cs ps).length = ps.length := by
  induction ps generalizing cs with
  | nil => rfl
  | cons p ps ih => simp [outcomes, ih]


/-- a template set (id 256: one field, element 4 in one octet) and a data set for it -/
def tmplMsg : Bytes := [0,10,0,28, 0,0,0,0, 0,0,0,1, 0,0,0,0, 0,2,0,12, 1,0,0,1, 0,4,0,1]
def dataMsg : Bytes := [0,10,0,21, 0,0,0,0, 0,0,0,2, 0,0,0,0, 1,0,0,5, 17]

set_option maxRecDepth 20000 in
/-- non-vacuity: a history over all four ports with malformed payloads, and one in which the template installed by an
earlier payload selects the decode path of a later one (no record before it, one record after it, none for another
exporter) -/
example : outcomes [] ⟨[], []⟩
    [.ipfix [10,0,0,1] [0,10,0,20,0,0,0,0,0,0,0,1,0,0,0,0,1,0,0,3,9,9],
     .ipfix [10,0,0,1] [0,10,0,16,0,0,0,0,0,0,0,1,0,0,0,0],
     .v9 [10,0,0,1] [0,9], .v5 [0,5,0,1], .sflow [0,0,0,5, 0,0,0,1]] =
    [.rejected, .decoded, .rejected, .rejected, .rejected] ∧
    (Ipfix.decode [] [10,0,0,1] dataMsg).1 = .ok ([10, 21, 0, 2, 0], [], [.unknownTpl]) ∧
    (Ipfix.decode (process [] ⟨[], []⟩ (.ipfix [10,0,0,1] tmplMsg)).2.ipfix [10,0,0,1] dataMsg).1 =
      .ok ([10, 21, 0, 2, 0], [[⟨4, 0, .u8 17⟩]], []) ∧
    (Ipfix.decode (process [] ⟨[], []⟩ (.ipfix [10,0,0,1] tmplMsg)).2.ipfix [10,0,0,2] dataMsg).1 =
      .ok ([10, 21, 0, 2, 0], [], [.unknownTpl]) := by
  refine ⟨by rfl, by rfl, by rfl, by rfl⟩

end Vflow.C01
