import Vflow.Model.Flow
/-!
# Wire-format specification: encoders written from RFC 3954 (NetFlow v9) and RFC 7011 (IPFIX)

Core Lean only.  This file does **not** mention the decoder models; it shares with them only the
vocabulary of `Vflow.Model.Flow` (`Spec`, `Template`, `DField`, `Val`, the information-model lookup
`lookupElem`, `interpret`, the template cache `Cache`).

* `encode…` build octet strings the way an exporter following the RFC does;
* `expectedRecord` says what a collector must report for a data record: per field (scope fields
  first) the information element's id, the enterprise number and the abstract-data-type
  interpretation of the field's octets;
* `wf…` are the (Boolean, hence decidable) well-formedness conditions under which the round-trip
  theorems of `Props/C03.lean` (IPFIX) and `Props/C06.lean` (NetFlow v9) hold.
-/
namespace Vflow.Wire
open Vflow

def be16 (n : Nat) : Bytes := encBE 2 n
def be32 (n : Nat) : Bytes := encBE 4 n

/-- the field specifiers of a template in record order: scope fields first -/
def specsOf (t : Template) : List Spec := t.scope ++ t.fields

/-- what the collector must report for one field with octets `v` -/
def expectedField (s : Spec) (v : Bytes) : DField :=
  match lookupElem s.ent s.id with
  | some (fid, ty) => ⟨fid, s.ent, interpret v ty⟩
  | none => ⟨0, s.ent, .raw v⟩   -- element not in the information model: excluded by `wfField`

/-- what the collector must report for one data record with field octets `vals` -/
def expectedRecord (t : Template) (vals : List Bytes) : Record :=
  List.zipWith expectedField (specsOf t) vals

/-! ## What "interpreting the field's octets according to the data type" means for the integer types

Written from RFC 7011 §6.1.1 / §6.1.2 (RFC 7012 §3.1.1–3.1.8: unsigned8 … unsigned64, signed8 … signed64), without
reference to `interpret`: "encoded … in network byte order", i.e. the most significant octet first.  Reduced-size
encoding (RFC 7011 §6.2) and the over-long fields of NetFlow v9 exporters (an unsigned32 element announced with 8
octets) change the NUMBER of octets, not their meaning, so the value is that of ALL the octets of the field.
`Props/C03.integer_fields_decode_to_their_value` / `Props/C06.…` prove that `interpret` yields exactly this for
every integer field whose length is at least the type's size and at most 8 (F24: before the repair it read the
leading octets of the type's size). -/

/-- the number whose big-endian (network byte order) representation the octets are -/
def unsignedValue : Bytes → Nat
  | [] => 0
  | x :: xs => x.toNat * 256 ^ xs.length + unsignedValue xs

/-- the octets as a two's-complement number of 8 · length bits -/
def signedValue (b : Bytes) : Int :=
  if 256 ^ b.length ≤ 2 * unsignedValue b then (unsignedValue b : Int) - ((256 ^ b.length : Nat) : Int)
  else (unsignedValue b : Int)

/-- size in octets of the unsigned / signed integer types, by FieldType index (the iota block of
`ipfix/rfc5102_model.go`, tied to the regenerated table in `Props/C20.fieldTypes_eq_registry`) -/
def uintSize? : Nat → Option Nat
  | 1 => some 1 | 2 => some 2 | 3 => some 4 | 4 => some 8 | _ => none
def intSize? : Nat → Option Nat
  | 5 => some 1 | 6 => some 2 | 7 => some 4 | 8 => some 8 | _ => none

/-- the integer a decoded value carries (none for the non-integer kinds) -/
def intOf : Val → Option Int
  | .u8 n | .u16 n | .u32 n | .u64 n => some (n : Int)
  | .i8 n | .i16 n | .i32 n | .i64 n => some n
  | _ => none

/-- a template set announces its templates in order; a later one overrides an earlier one -/
def insertAll (addr : Bytes) (c : Cache) (ts : List Template) : Cache :=
  ts.foldl (fun c t => c.insert addr t.tid t) c

/-! ## NetFlow v9 (RFC 3954) -/
namespace V9

/-- §5.3 data record: the field values one after the other -/
def encodeRecord (_t : Template) (vals : List Bytes) : Bytes := vals.flatten

/-- a value fits its specifier: v9 has no enterprise numbers, the element is in the information
model, the value has exactly the announced length -/
def wfField (s : Spec) (v : Bytes) : Bool :=
  s.ent == 0 && (lookupElem s.ent s.id).isSome && v.length == s.len

def wfRecord (t : Template) (vals : List Bytes) : Bool :=
  (specsOf t).length == vals.length && (List.zipWith wfField (specsOf t) vals).all id

/-- record length announced by a template -/
def recLen (t : Template) : Nat := ((specsOf t).map (·.len)).sum

/-- §5.2 field specifier: type, length -/
def encodeSpec (s : Spec) : Bytes := be16 s.id ++ be16 s.len

def wfSpec (s : Spec) : Bool := decide (s.id < 65536) && decide (s.len < 65536) && s.ent == 0

/-- §5.2 template record: template id, field count, specifiers -/
def encodeTemplate (t : Template) : Bytes :=
  be16 t.tid ++ be16 t.fields.length ++ (t.fields.map encodeSpec).flatten

/-- a template record as the collector stores it: no scope, count = number of fields; at least one
field (a 4-octet template record at the end of a flowset is indistinguishable from padding) -/
def wfTemplate (t : Template) : Bool :=
  decide (t.tid < 65536) && t.scope == [] && t.cnt == t.fields.length && t.scnt == 0 &&
  decide (1 ≤ t.fields.length) && decide (t.fields.length < 65536) && t.fields.all wfSpec

/-- §6.1 options template record: template id, option scope length and option length **in octets**,
scope specifiers, option specifiers -/
def encodeOptTemplate (t : Template) : Bytes :=
  be16 t.tid ++ be16 (4 * t.scope.length) ++ be16 (4 * t.fields.length) ++
  (t.scope.map encodeSpec).flatten ++ (t.fields.map encodeSpec).flatten

/-- as the collector stores it: both counts stay 0 -/
def wfOptTemplate (t : Template) : Bool :=
  decide (t.tid < 65536) && t.cnt == 0 && t.scnt == 0 &&
  decide (4 * t.scope.length < 65536) && decide (4 * t.fields.length < 65536) &&
  t.scope.all wfSpec && t.fields.all wfSpec

/-- FlowSet: id, length (header included), body, padding -/
def encodeSet (id : Nat) (body pad : Bytes) : Bytes :=
  be16 id ++ be16 (4 + (body ++ pad).length) ++ (body ++ pad)

def encodeDataSet (t : Template) (records : List (List Bytes)) (pad : Bytes) : Bytes :=
  encodeSet t.tid (records.map (encodeRecord t)).flatten pad

def encodeTemplateSet (ts : List Template) (pad : Bytes) : Bytes :=
  encodeSet 0 (ts.map encodeTemplate).flatten pad

def encodeOptTemplateSet (ts : List Template) (pad : Bytes) : Bytes :=
  encodeSet 1 (ts.map encodeOptTemplate).flatten pad

inductive FlowSet where
  | tpl (ts : List Template) (pad : Bytes)
  | optTpl (ts : List Template) (pad : Bytes)
  /-- a data flowset of template `t` (flowset id = `t.tid`) -/
  | data (t : Template) (records : List (List Bytes)) (pad : Bytes)

def encodeFlowSet : FlowSet → Bytes
  | .tpl ts pad => encodeTemplateSet ts pad
  | .optTpl ts pad => encodeOptTemplateSet ts pad
  | .data t records pad => encodeDataSet t records pad

/-- export packet (§5.1 header + flowsets) -/
structure Msg where
  count : Nat
  upTime : Nat
  secs : Nat
  seq : Nat
  srcId : Nat
  sets : List FlowSet

def encodeHeader (m : Msg) : Bytes :=
  be16 9 ++ be16 m.count ++ be32 m.upTime ++ be32 m.secs ++ be32 m.seq ++ be32 m.srcId

def encodeMsg (m : Msg) : Bytes := encodeHeader m ++ (m.sets.map encodeFlowSet).flatten

def expectedHdr (m : Msg) : Hdr := [9, m.count, m.upTime, m.secs, m.seq, m.srcId]

/-- effect of one flowset on (records reported so far, template cache) -/
def applySet (addr : Bytes) (acc : List Record × Cache) : FlowSet → List Record × Cache
  | .tpl ts _ => (acc.1, insertAll addr acc.2 ts)
  | .optTpl ts _ => (acc.1, insertAll addr acc.2 ts)
  | .data t records _ => (acc.1 ++ records.map (expectedRecord t), acc.2)

/-- records the collector must report for the packet and the cache afterwards -/
def expected (addr : Bytes) (c : Cache) (m : Msg) : List Record × Cache :=
  m.sets.foldl (applySet addr) ([], c)

/-- total length of a flowset fits the 16-bit length field -/
def wfSetLen (body pad : Bytes) : Bool :=
  decide (4 + (body ++ pad).length < 65536)

/-- padding of a template / options-template flowset: at most 4 octets, any content.  RFC 3954 §5.2 / §6.1
pad to a 4-octet boundary (0..3 octets); a template record has at least 4 octets, so "shorter than the
shortest record" gives the same 0..3.  The decoder's template loop stops when at most 4 octets are left, so
the theorems are stated (and hold) for 0..4; 5 or more octets would be read as a template record. -/
def wfTplPad (pad : Bytes) : Bool := decide (pad.length ≤ 4)

/-- padding of a data flowset: **shorter than the template's record** (the rule of RFC 7011 §3.3.1, which
is also the only way to tell padding from a record in RFC 3954 §5.3: "padding … so that the subsequent
FlowSet starts at a 4-byte aligned boundary" is 0..3 octets, and alignment to 8 gives up to 7), any content.
Before the padding repair (F16) this read `pad.length ≤ 4`, a bound forced by the decoder's constant `> 4`. -/
def wfDataPad (t : Template) (pad : Bytes) : Bool := decide (pad.length < recLen t)

/-- well-formedness of a flowset relative to the cache in force when it is reached: a data flowset's
template is the one the cache returns for (exporter, flowset id); records have a positive length
(a template of zero-length fields describes no octets at all: the decoder reports `zero-length data
record`, F2) — the former "longer than 4 octets" (K2) is gone; padding as `wfTplPad` / `wfDataPad` -/
def wfSet (addr : Bytes) (c : Cache) : FlowSet → Bool
  | .tpl ts pad => !ts.isEmpty && ts.all wfTemplate && (wfTplPad pad && wfSetLen (ts.map encodeTemplate).flatten pad)
  | .optTpl ts pad => !ts.isEmpty && ts.all wfOptTemplate && (wfTplPad pad && wfSetLen (ts.map encodeOptTemplate).flatten pad)
  | .data t records pad =>
    decide (255 < t.tid) && decide (t.tid < 65536) && c.lookup addr t.tid == some t &&
    decide (0 < recLen t) && !records.isEmpty && records.all (wfRecord t) &&
    (wfDataPad t pad && wfSetLen (records.map (encodeRecord t)).flatten pad)

/-- the flowsets in order, each judged against the cache as updated by its predecessors -/
def wfSets (addr : Bytes) : Cache → List FlowSet → Bool
  | _, [] => true
  | c, s :: ss => wfSet addr c s && wfSets addr (applySet addr ([], c) s).2 ss

def wfMsg (addr : Bytes) (c : Cache) (m : Msg) : Bool :=
  decide (m.count < 65536) && decide (m.upTime < 4294967296) && decide (m.secs < 4294967296) &&
  decide (m.seq < 4294967296) && decide (m.srcId < 4294967296) && wfSets addr c m.sets

end V9

/-! ## IPFIX (RFC 7011) -/
namespace Ipfix

/-- a field value; `long` selects the 3-octet length prefix for a variable-length field (§7: mandatory
from 255 octets on, allowed below) -/
structure VVal where
  octets : Bytes
  long : Bool := false
deriving Repr, DecidableEq

/-- §7: fixed-length value, or length-prefixed when the specifier says 65535 -/
def encodeField (s : Spec) (v : VVal) : Bytes :=
  if s.len = 65535 then
    (if v.long then [255] ++ be16 v.octets.length else [UInt8.ofNat v.octets.length]) ++ v.octets
  else v.octets

/-- §3.4.3 data record -/
def encodeRecord (t : Template) (vals : List VVal) : Bytes :=
  (List.zipWith encodeField (specsOf t) vals).flatten

def expectedRecord (t : Template) (vals : List VVal) : Record :=
  Wire.expectedRecord t (vals.map (·.octets))

/-- the element is in the information model; a specifier length of 65535 announces a variable-length field
**whatever the element's type** (RFC 7011 §7 "The Length field of the Field Specifier is set to 65535" — no
restriction to strings; RFC 6313 structured data is always sent so), with a length the chosen prefix can
express; every other specifier length is a fixed length and the value has exactly it.  Until the F23 repair
this demanded a string / octetArray element for the marker — a hypothesis read off the decoder, not the RFC. -/
def wfField (s : Spec) (v : VVal) : Bool :=
  match lookupElem s.ent s.id with
  | none => false
  | some _ =>
    if s.len = 65535 then
      (if v.long then decide (v.octets.length < 65536) else decide (v.octets.length < 255))
    else v.octets.length == s.len

/-- a record fits its template field by field and has a positive length (a record of no octets — every
field of fixed length 0 — cannot be told from the end of the set; the decoder reports `zero-length data
record`, F2).  Before the padding repair this demanded more than 4 octets (finding K2). -/
def wfRecord (t : Template) (vals : List VVal) : Bool :=
  (specsOf t).length == vals.length && (List.zipWith wfField (specsOf t) vals).all id &&
  decide (0 < (encodeRecord t vals).length)

/-- RFC 7011 §3.3.1 "shorter than any allowable record in this Set": the shortest record a template can
describe — a fixed-length field counts its length, a variable-length field (65535) its 1-octet length
prefix with an empty value (§7) -/
def minRecLen (t : Template) : Nat :=
  ((specsOf t).map (fun s => if s.len = 65535 then 1 else s.len)).sum

/-- §3.2 field specifier: E bit + element id, length, enterprise number if E -/
def encodeSpec (s : Spec) : Bytes :=
  if s.ent = 0 then be16 s.id ++ be16 s.len else be16 (32768 + s.id) ++ be16 s.len ++ be32 s.ent

def wfSpec (s : Spec) : Bool :=
  decide (s.len < 65536) && decide (s.id < 32768) && decide (s.ent < 4294967296) &&
  (s.ent == 0 || decide (1 ≤ s.id))

/-- §3.4.1 template record -/
def encodeTemplate (t : Template) : Bytes :=
  be16 t.tid ++ be16 t.fields.length ++ (t.fields.map encodeSpec).flatten

def wfTemplate (t : Template) : Bool :=
  decide (0 < t.tid) && decide (t.tid < 65536) && t.scope == [] && t.cnt == t.fields.length && t.scnt == 0 &&
  decide (1 ≤ t.fields.length) && decide (t.fields.length < 65536) && t.fields.all wfSpec

/-- §3.4.2 options template record: template id, field count (scope fields included), scope field
count, scope specifiers, option specifiers -/
def encodeOptTemplate (t : Template) : Bytes :=
  be16 t.tid ++ be16 (t.scope.length + t.fields.length) ++ be16 t.scope.length ++
  (t.scope.map encodeSpec).flatten ++ (t.fields.map encodeSpec).flatten

def wfOptTemplate (t : Template) : Bool :=
  decide (0 < t.tid) && decide (t.tid < 65536) && t.cnt == t.scope.length + t.fields.length &&
  t.scnt == t.scope.length && decide (t.scope.length + t.fields.length < 65536) &&
  t.scope.all wfSpec && t.fields.all wfSpec

/-- §3.3 set: id, length (header included), body, padding -/
def encodeSet (id : Nat) (body pad : Bytes) : Bytes :=
  be16 id ++ be16 (4 + (body ++ pad).length) ++ (body ++ pad)

def encodeDataSet (t : Template) (records : List (List VVal)) (pad : Bytes) : Bytes :=
  encodeSet t.tid (records.map (encodeRecord t)).flatten pad

def encodeTemplateSet (ts : List Template) (pad : Bytes) : Bytes :=
  encodeSet 2 (ts.map encodeTemplate).flatten pad

def encodeOptTemplateSet (ts : List Template) (pad : Bytes) : Bytes :=
  encodeSet 3 (ts.map encodeOptTemplate).flatten pad

inductive FlowSet where
  | tpl (ts : List Template) (pad : Bytes)
  | optTpl (ts : List Template) (pad : Bytes)
  /-- a data set of template `t` (set id = `t.tid`) -/
  | data (t : Template) (records : List (List VVal)) (pad : Bytes)

def encodeFlowSet : FlowSet → Bytes
  | .tpl ts pad => encodeTemplateSet ts pad
  | .optTpl ts pad => encodeOptTemplateSet ts pad
  | .data t records pad => encodeDataSet t records pad

/-- IPFIX message (§3.1 header + sets); the length field is computed -/
structure Msg where
  exportTime : Nat
  seq : Nat
  domain : Nat
  sets : List FlowSet

def setsBytes (m : Msg) : Bytes := (m.sets.map encodeFlowSet).flatten
def msgLen (m : Msg) : Nat := 16 + (setsBytes m).length

def encodeHeader (m : Msg) : Bytes :=
  be16 10 ++ be16 (msgLen m) ++ be32 m.exportTime ++ be32 m.seq ++ be32 m.domain

def encodeMsg (m : Msg) : Bytes := encodeHeader m ++ setsBytes m

def expectedHdr (m : Msg) : Hdr := [10, msgLen m, m.exportTime, m.seq, m.domain]

def applySet (addr : Bytes) (acc : List Record × Cache) : FlowSet → List Record × Cache
  | .tpl ts _ => (acc.1, insertAll addr acc.2 ts)
  | .optTpl ts _ => (acc.1, insertAll addr acc.2 ts)
  | .data t records _ => (acc.1 ++ records.map (expectedRecord t), acc.2)

def expected (addr : Bytes) (c : Cache) (m : Msg) : List Record × Cache :=
  m.sets.foldl (applySet addr) ([], c)

/-- total length of a set fits the 16-bit length field (§3.3.2) -/
def wfSetLen (body pad : Bytes) : Bool :=
  decide (4 + (body ++ pad).length < 65536)

/-- padding of a template / options-template set: at most 4 octets, any content.  RFC 7011 §3.3.1 asks for
padding shorter than any allowable record; the shortest template record (a withdrawal, §8.1) has 4 octets,
so the RFC allows 0..3.  The decoder's template loop stops when at most 4 octets are left (and at a template
id 0), so the theorems are stated (and hold) for 0..4; 5 or more octets of non-zero padding would be read
as a template record — that code path is unchanged by the padding repair. -/
def wfTplPad (pad : Bytes) : Bool := decide (pad.length ≤ 4)

/-- padding of a data set, RFC 7011 §3.3.1: "The padding length MUST be shorter than any allowable record
in this Set" — shorter than `minRecLen t`; any content (the RFC's "SHOULD be zero" is not needed).  Before
the padding repair (F16) this read `pad.length ≤ 4`, a bound forced by the decoder's constant `> 4` and
not by the RFC: 8-octet alignment after records of 8 or more octets gives up to 7 octets.  The new bound is
weaker than the old one except for templates whose shortest record has at most 4 octets (variable-length
fields): there `minRecLen t ≤ pad.length ≤ 4` was accepted before and is not now — such octets are records, not
padding (`C03.padding_not_shorter_than_a_record_is_data`). -/
def wfDataPad (t : Template) (pad : Bytes) : Bool := decide (pad.length < minRecLen t)

/-- as for v9; a record's length depends on its variable-length values, so "positive length" is part of
`wfRecord` -/
def wfSet (addr : Bytes) (c : Cache) : FlowSet → Bool
  | .tpl ts pad => !ts.isEmpty && ts.all wfTemplate && (wfTplPad pad && wfSetLen (ts.map encodeTemplate).flatten pad)
  | .optTpl ts pad => !ts.isEmpty && ts.all wfOptTemplate && (wfTplPad pad && wfSetLen (ts.map encodeOptTemplate).flatten pad)
  | .data t records pad =>
    decide (255 < t.tid) && decide (t.tid < 65536) && c.lookup addr t.tid == some t &&
    !records.isEmpty && records.all (wfRecord t) &&
    (wfDataPad t pad && wfSetLen (records.map (encodeRecord t)).flatten pad)

def wfSets (addr : Bytes) : Cache → List FlowSet → Bool
  | _, [] => true
  | c, s :: ss => wfSet addr c s && wfSets addr (applySet addr ([], c) s).2 ss

def wfMsg (addr : Bytes) (c : Cache) (m : Msg) : Bool :=
  decide (msgLen m < 65536) && decide (m.exportTime < 4294967296) &&
  decide (m.seq < 4294967296) && decide (m.domain < 4294967296) && wfSets addr c m.sets

end Ipfix
end Vflow.Wire
