import Vflow.Model.Base
/-!
# NetFlow v5 on the wire (Cisco's export format, version 5)

A datagram is a 24-octet header followed by `Count` (1..30) 48-octet flow records; all fields are
big-endian unsigned integers.  Field names are those of the Go structs `PacketHeader` / `FlowRecord`
in `netflow/v5/decoder.go`; `Vflow.Props.C08` carries the obligations that the layouts regenerated
from the source are these.
-/
namespace Vflow.Spec

/-- header: (field, octets) in wire order — offsets 0, 2, 4, 8, 12, 16, 20, 21, 22; 24 octets -/
def v5Header : List (String × Nat) := [
  ("Version", 2), ("Count", 2), ("SysUpTimeMSecs", 4), ("UNIXSecs", 4), ("UNIXNSecs", 4),
  ("SeqNum", 4), ("EngType", 1), ("EngID", 1), ("SmpInt", 2)]

/-- flow record: (field, octets) in wire order — offsets 0, 4, 8, 12, 14, 16, 20, 24, 28, 32, 34, 36, 37,
38, 39, 40, 42, 44, 45, 46; 48 octets -/
def v5Record : List (String × Nat) := [
  ("SrcAddr", 4), ("DstAddr", 4), ("NextHop", 4), ("Input", 2), ("Output", 2), ("PktCount", 4),
  ("L3Octets", 4), ("StartTime", 4), ("EndTime", 4), ("SrcPort", 2), ("DstPort", 2), ("Padding1", 1),
  ("TCPFlags", 1), ("ProtType", 1), ("Tos", 1), ("SrcAsNum", 2), ("DstAsNum", 2), ("SrcMask", 1),
  ("DstMask", 1), ("Padding2", 2)]

def widthsOf (l : List (String × Nat)) : List Nat := l.map (·.2)

/-- offset of the `i`-th field of a layout -/
def offsetOf (ws : List Nat) (i : Nat) : Nat := (ws.take i).sum

/-- the values are as many as the fields and each fits its width -/
def fits : List Nat → List Nat → Bool
  | [], [] => true
  | w :: ws, v :: vs => decide (v < 256 ^ w) && fits ws vs
  | _, _ => false

def Fits (ws vals : List Nat) : Prop := fits ws vals = true

instance (ws vals : List Nat) : Decidable (Fits ws vals) := by unfold Fits; infer_instance

/-- big-endian encoding of the fields of a structure, in order -/
def encFields : List Nat → List Nat → Bytes
  | w :: ws, v :: vs => encBE w v ++ encFields ws vs
  | _, _ => []

def encFlows : List (List Nat) → Bytes
  | [] => []
  | f :: fs => encFields (widthsOf v5Record) f ++ encFlows fs

/-- a NetFlow v5 datagram: header, then the flow records -/
def encodeV5 (h : List Nat) (fs : List (List Nat)) : Bytes :=
  encFields (widthsOf v5Header) h ++ encFlows fs

/-- what a reader of the given widths sees in an octet string: the big-endian value of each slice in turn -/
def valuesAt : List Nat → Bytes → List Nat
  | [], _ => []
  | w :: ws, bs => beN (bs.take w) :: valuesAt ws (bs.drop w)

/-- `n` consecutive records -/
def flowsAt (ws : List Nat) : Nat → Bytes → List (List Nat)
  | 0, _ => []
  | n + 1, bs => valuesAt ws bs :: flowsAt ws n (bs.drop ws.sum)

end Vflow.Spec
