import Vflow.Model.Base
/-!
# JSON at the octet level (RFC 8259): tree, compact renderer, grammar

`Json` is a tree whose leaves carry *already formatted* text: a number's digits, a string's escaped
body.  `render` is the compact serialisation.  `DVal` is the grammar as an inductive derivation
relation on octet strings; `isNumber` / `isStrBody` are the (decidable) lexical classes.
`derives_render` (in `Vflow.Proofs.JsonGrammar`): every well-formed tree renders to a text that
derives exactly that tree.
-/
namespace Vflow.Spec

mutual
inductive Json where
  | null
  | bool (b : Bool)
  | num (digits : Bytes)          -- formatted number text
  | str (body : Bytes)            -- escaped string body (without the quotes)
  | arr (xs : JList)
  | obj (ms : JMembers)
inductive JList where
  | nil
  | cons (x : Json) (xs : JList)
inductive JMembers where
  | nil
  | cons (k : Bytes) (v : Json) (ms : JMembers)
end

def q : UInt8 := 34

mutual
def render : Json → Bytes
  | .null => [110, 117, 108, 108]
  | .bool true => [116, 114, 117, 101]
  | .bool false => [102, 97, 108, 115, 101]
  | .num d => d
  | .str s => q :: s ++ [q]
  | .arr xs => [91] ++ renderList xs ++ [93]
  | .obj ms => [123] ++ renderMembers ms ++ [125]
def renderList : JList → Bytes
  | .nil => []
  | .cons x .nil => render x
  | .cons x xs => render x ++ [44] ++ renderList xs
def renderMembers : JMembers → Bytes
  | .nil => []
  | .cons k v .nil => q :: k ++ [q] ++ [58] ++ render v
  | .cons k v ms => q :: k ++ [q] ++ [58] ++ render v ++ [44] ++ renderMembers ms
end

/-! ## Lexical classes -/

def isDigit (c : UInt8) : Bool := 48 ≤ c && c ≤ 57
def isHexDigit (c : UInt8) : Bool := isDigit c || (97 ≤ c && c ≤ 102) || (65 ≤ c && c ≤ 70)

/-- one or more digits -/
def digits1 : Bytes → Bool
  | [] => false
  | [c] => isDigit c
  | c :: t => isDigit c && digits1 t

/-- `exp = (e|E) [+-]? DIGIT+` or nothing -/
def isExpOpt : Bytes → Bool
  | [] => true
  | c :: t =>
    (c == 101 || c == 69) &&
      (match t with
       | s :: t' => if s == 43 || s == 45 then digits1 t' else digits1 (s :: t')
       | [] => false)

/-- after the integer part: `(. DIGIT+)? exp?` -/
def isFracExpOpt : Bytes → Bool
  | 46 :: t =>
    -- split the longest digit prefix
    let ds := t.takeWhile isDigit
    !ds.isEmpty && isExpOpt (t.dropWhile isDigit)
  | l => isExpOpt l

/-- `int = 0 | [1-9] DIGIT*` followed by frac/exp -/
def isUnsignedNumber : Bytes → Bool
  | 48 :: t => isFracExpOpt t
  | c :: t => (49 ≤ c && c ≤ 57) && isFracExpOpt (t.dropWhile isDigit)
  | [] => false

/-- RFC 8259 `number` -/
def isNumber : Bytes → Bool
  | 45 :: t => isUnsignedNumber t
  | l => isUnsignedNumber l

/-- RFC 8259 string body: unescaped octets (≥ 0x20, not `"` or `\`) and escapes
`\" \\ \/ \b \f \n \r \t \uXXXX` -/
def isStrBody : Bytes → Bool
  | [] => true
  | 92 :: 117 :: a :: b :: c :: d :: t => isHexDigit a && isHexDigit b && isHexDigit c && isHexDigit d && isStrBody t
  | 92 :: e :: t => (e == 34 || e == 92 || e == 47 || e == 98 || e == 102 || e == 110 || e == 114 || e == 116) && isStrBody t
  | c :: t => c != 34 && c != 92 && 32 ≤ c && isStrBody t

/-! ## Grammar -/

mutual
inductive DVal : Bytes → Json → Prop where
  | null : DVal [110, 117, 108, 108] .null
  | tru : DVal [116, 114, 117, 101] (.bool true)
  | fls : DVal [102, 97, 108, 115, 101] (.bool false)
  | num (d) : isNumber d = true → DVal d (.num d)
  | str (s) : isStrBody s = true → DVal (q :: s ++ [q]) (.str s)
  | arrE : DVal ([91] ++ [] ++ [93]) (.arr .nil)
  | arr (b xs) : DElems b xs → DVal ([91] ++ b ++ [93]) (.arr xs)
  | objE : DVal ([123] ++ [] ++ [125]) (.obj .nil)
  | obj (b ms) : DMems b ms → DVal ([123] ++ b ++ [125]) (.obj ms)
inductive DElems : Bytes → JList → Prop where
  | one (b x) : DVal b x → DElems b (.cons x .nil)
  | more (b x bs xs) : DVal b x → DElems bs xs → DElems (b ++ [44] ++ bs) (.cons x xs)
inductive DMems : Bytes → JMembers → Prop where
  | one (k b v) : isStrBody k = true → DVal b v → DMems (q :: k ++ [q] ++ [58] ++ b) (.cons k v .nil)
  | more (k b v bs ms) : isStrBody k = true → DVal b v → DMems bs ms →
      DMems (q :: k ++ [q] ++ [58] ++ b ++ [44] ++ bs) (.cons k v ms)
end

mutual
def WF : Json → Prop
  | .null => True
  | .bool _ => True
  | .num d => isNumber d = true
  | .str s => isStrBody s = true
  | .arr xs => WFL xs
  | .obj ms => WFM ms
def WFL : JList → Prop
  | .nil => True
  | .cons x xs => WF x ∧ WFL xs
def WFM : JMembers → Prop
  | .nil => True
  | .cons k v ms => isStrBody k = true ∧ WF v ∧ WFM ms
end

mutual
theorem derives_render : ∀ j, WF j → DVal (render j) j
  | .null, _ => by simp only [render]; exact DVal.null
  | .bool true, _ => by simp only [render]; exact DVal.tru
  | .bool false, _ => by simp only [render]; exact DVal.fls
  | .num d, h => by simp only [render]; exact DVal.num d h
  | .str s, h => by simp only [render]; exact DVal.str s h
  | .arr .nil, _ => by simp only [render, renderList]; exact DVal.arrE
  | .arr (.cons x xs), h => by
      simp only [render]
      exact DVal.arr _ _ (derives_list (.cons x xs) h (by simp))
  | .obj .nil, _ => by simp only [render, renderMembers]; exact DVal.objE
  | .obj (.cons k v ms), h => by
      simp only [render]
      exact DVal.obj _ _ (derives_mems (.cons k v ms) h (by simp))
theorem derives_list : ∀ l, WFL l → l ≠ .nil → DElems (renderList l) l
  | .nil, _, hn => absurd rfl hn
  | .cons x .nil, h, _ => by
      simp only [renderList]
      exact DElems.one _ _ (derives_render x h.1)
  | .cons x (.cons y ys), h, _ => by
      simp only [renderList]
      exact DElems.more _ _ _ _ (derives_render x h.1) (derives_list (.cons y ys) h.2 (by simp))
theorem derives_mems : ∀ m, WFM m → m ≠ .nil → DMems (renderMembers m) m
  | .nil, _, hn => absurd rfl hn
  | .cons k v .nil, h, _ => by
      simp only [renderMembers]
      exact DMems.one _ _ _ h.1 (derives_render v h.2.1)
  | .cons k v (.cons k2 v2 ms), h, _ => by
      simp only [renderMembers]
      exact DMems.more _ _ _ _ _ h.1 (derives_render v h.2.1) (derives_mems (.cons k2 v2 ms) h.2.2 (by simp))
end

example : isNumber [45, 49, 46, 53, 69, 43, 48, 48] = true := by decide   -- -1.5E+00
example : isNumber [48, 49] = false := by decide                          -- 01
example : isStrBody [97, 92, 117, 48, 48, 48, 97, 92, 34] = true := by decide
example : isStrBody [97, 34] = false := by decide

end Vflow.Spec
