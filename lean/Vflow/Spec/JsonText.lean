import Vflow.Spec.Json
/-!
# An executable RFC 8259 recogniser: the state machine of Go's `encoding/json` scanner

`jsonValid : Bytes → Bool` is a port of `json.Valid` (`encoding/json/scanner.go`, Go 1.23): `checkValid`
feeds every octet to `scanner.step` and then calls `scanner.eof`.  The port keeps Go's structure:

* `St` — one constructor per `state…` function of `scanner.go` (`s.step`), `St.error` = `stateError`;
* `Scan.stack` — `s.parseState` (head = last element), entries `PS.key` / `PS.val` / `PS.arr` =
  `parseObjectKey` / `parseObjectValue` / `parseArrayValue`;
* `step` — `s.step(s, c)`; the functions that other states delegate to are separate definitions
  (`stepBeginValue`, `stepBeginString`, `stepEndValue`, `stepEndTop`, `step0`, `stepESign`);
* `push` — `pushParseState`, **including** the nesting limit `maxNestingDepth = 10000`;
  `pop` — `popParseState`;
* Go's flag `s.endTop` is true with `s.err == nil` exactly when the model state is `St.endTop`
  (both are set together by `popParseState` / `stateEndValue`; an error moves the model to `St.error`),
  so `accept` — `scanner.eof() != scanError` — is "the state is `endTop`, or becomes `endTop` on one space".

What Go's scanner accepts, and therefore `jsonValid`: insignificant whitespace (space, `\t`, `\r`, `\n`)
around every token; `true` / `false` / `null`; numbers `-? (0 | [1-9][0-9]*) (\.[0-9]+)? ([eE][+-]?[0-9]+)?`;
strings of octets ≥ 0x20 other than `"` and `\` and the escapes `\" \\ \/ \b \f \n \r \t \uXXXX` (no UTF-8
validation, lone surrogates accepted); arrays; objects; exactly one top-level value; at most 10000 open
brackets at any point.

Unreachable corners (Go would index out of range; the model goes to `St.error`): `pop` and the `}` arm of
`beginStringOrEmpty` on an empty stack — those states are only entered after a push.

Core Lean only: the function is linked into the `vfmodel` driver (`jsonvalid <hex>`), where the
`jsonvalid` correspondence kind compares it with the real `json.Valid`.
-/
namespace Vflow.Spec

/-- entries of `scanner.parseState` -/
inductive PS where
  | key   -- parseObjectKey: parsing object key (before colon)
  | val   -- parseObjectValue: parsing object value (after colon)
  | arr   -- parseArrayValue
deriving DecidableEq, Repr

/-- `scanner.step`: one constructor per state function of `scanner.go` -/
inductive St where
  | beginValue | beginValueOrEmpty | beginStringOrEmpty | beginString | endValue | endTop
  | inString | inStringEsc | escU | escU1 | escU12 | escU123
  | neg | n0 | n1 | dot | dot0 | e | eSign | e0
  | t | tr | tru | f | fa | fal | fals | n | nu | nul
  | error
deriving DecidableEq, Repr

structure Scan where
  st : St
  stack : List PS
deriving DecidableEq, Repr

def maxNestingDepth : Nat := 10000

def isSpace (c : UInt8) : Bool := c == 32 || c == 9 || c == 13 || c == 10

/-- `s.error(c, …)` -/
def Scan.err (s : Scan) : Scan := ⟨.error, s.stack⟩

/-- `pushParseState` -/
def push (s : Scan) (p : PS) (succ : St) : Scan :=
  if s.stack.length + 1 ≤ maxNestingDepth then ⟨succ, p :: s.stack⟩ else ⟨.error, p :: s.stack⟩

/-- `popParseState` -/
def pop (s : Scan) : Scan :=
  match s.stack with
  | [] => s.err
  | [_] => ⟨.endTop, []⟩
  | _ :: r => ⟨.endValue, r⟩

/-- `stateEndTop` -/
def stepEndTop (s : Scan) (c : UInt8) : Scan :=
  if isSpace c then ⟨.endTop, s.stack⟩ else s.err

/-- `stateEndValue` -/
def stepEndValue (s : Scan) (c : UInt8) : Scan :=
  match s.stack with
  | [] => stepEndTop s c
  | p :: r =>
    if isSpace c then ⟨.endValue, s.stack⟩ else
    match p with
    | .key => if c == 58 then ⟨.beginValue, .val :: r⟩ else s.err
    | .val => if c == 44 then ⟨.beginString, .key :: r⟩ else if c == 125 then pop s else s.err
    | .arr => if c == 44 then ⟨.beginValue, s.stack⟩ else if c == 93 then pop s else s.err

/-- `stateBeginValue` -/
def stepBeginValue (s : Scan) (c : UInt8) : Scan :=
  if isSpace c then s
  else if c == 123 then push s .key .beginStringOrEmpty
  else if c == 91 then push s .arr .beginValueOrEmpty
  else if c == 34 then ⟨.inString, s.stack⟩
  else if c == 45 then ⟨.neg, s.stack⟩
  else if c == 48 then ⟨.n0, s.stack⟩
  else if c == 116 then ⟨.t, s.stack⟩
  else if c == 102 then ⟨.f, s.stack⟩
  else if c == 110 then ⟨.n, s.stack⟩
  else if 49 ≤ c && c ≤ 57 then ⟨.n1, s.stack⟩
  else s.err

/-- `stateBeginString` -/
def stepBeginString (s : Scan) (c : UInt8) : Scan :=
  if isSpace c then s else if c == 34 then ⟨.inString, s.stack⟩ else s.err

/-- `state0` (after `0`, and what `state1` delegates to on a non-digit) -/
def step0 (s : Scan) (c : UInt8) : Scan :=
  if c == 46 then ⟨.dot, s.stack⟩ else if c == 101 || c == 69 then ⟨.e, s.stack⟩ else stepEndValue s c

/-- `stateESign` -/
def stepESign (s : Scan) (c : UInt8) : Scan :=
  if isDigit c then ⟨.e0, s.stack⟩ else s.err

def isEscLetter (c : UInt8) : Bool :=
  c == 98 || c == 102 || c == 110 || c == 114 || c == 116 || c == 92 || c == 47 || c == 34

/-- expect exactly the octet `want` -/
def expect (s : Scan) (c want : UInt8) (next : St) : Scan :=
  if c == want then ⟨next, s.stack⟩ else s.err

/-- `s.step(s, c)` -/
def step (s : Scan) (c : UInt8) : Scan :=
  match s.st with
  | .beginValue => stepBeginValue s c
  | .beginValueOrEmpty =>
    if isSpace c then s else if c == 93 then stepEndValue s c else stepBeginValue s c
  | .beginStringOrEmpty =>
    if isSpace c then s
    else if c == 125 then
      match s.stack with
      | [] => s.err
      | _ :: r => stepEndValue ⟨s.st, .val :: r⟩ c
    else stepBeginString s c
  | .beginString => stepBeginString s c
  | .endValue => stepEndValue s c
  | .endTop => stepEndTop s c
  | .inString =>
    if c == 34 then ⟨.endValue, s.stack⟩
    else if c == 92 then ⟨.inStringEsc, s.stack⟩
    else if c < 32 then s.err
    else s
  | .inStringEsc =>
    if isEscLetter c then ⟨.inString, s.stack⟩ else if c == 117 then ⟨.escU, s.stack⟩ else s.err
  | .escU => if isHexDigit c then ⟨.escU1, s.stack⟩ else s.err
  | .escU1 => if isHexDigit c then ⟨.escU12, s.stack⟩ else s.err
  | .escU12 => if isHexDigit c then ⟨.escU123, s.stack⟩ else s.err
  | .escU123 => if isHexDigit c then ⟨.inString, s.stack⟩ else s.err
  | .neg => if c == 48 then ⟨.n0, s.stack⟩ else if 49 ≤ c && c ≤ 57 then ⟨.n1, s.stack⟩ else s.err
  | .n0 => step0 s c
  | .n1 => if isDigit c then s else step0 s c
  | .dot => if isDigit c then ⟨.dot0, s.stack⟩ else s.err
  | .dot0 =>
    if isDigit c then s else if c == 101 || c == 69 then ⟨.e, s.stack⟩ else stepEndValue s c
  | .e => if c == 43 || c == 45 then ⟨.eSign, s.stack⟩ else stepESign s c
  | .eSign => stepESign s c
  | .e0 => if isDigit c then s else stepEndValue s c
  | .t => expect s c 114 .tr
  | .tr => expect s c 117 .tru
  | .tru => expect s c 101 .endValue
  | .f => expect s c 97 .fa
  | .fa => expect s c 108 .fal
  | .fal => expect s c 115 .fals
  | .fals => expect s c 101 .endValue
  | .n => expect s c 117 .nu
  | .nu => expect s c 108 .nul
  | .nul => expect s c 108 .endValue
  | .error => s

/-- `scanner.reset` -/
def Scan.init : Scan := ⟨.beginValue, []⟩

/-- the scanner after the octets of `bs` (the loop of `checkValid`) -/
def run (s : Scan) (bs : Bytes) : Scan := bs.foldl step s

/-- `scanner.eof() != scanError` -/
def accept (s : Scan) : Bool := s.st == .endTop || (step s 32).st == .endTop

/-- **`json.Valid`**: the text is exactly one JSON value (RFC 8259) with optional whitespace around it,
nested at most 10000 deep -/
def jsonValid (bs : Bytes) : Bool := accept (run .init bs)

end Vflow.Spec
