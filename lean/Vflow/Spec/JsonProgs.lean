import Vflow.Model.JsonW
/-!
# Specification of the fixed text of the three hand-written JSON encoders

Key names (as octets; `keys_are_their_names` in `Vflow.Proofs.JsonTree` ties every one of them to its string
literal), the member lists of the header / flow objects *in order*, and the write programs that emit
`"key":value` members.  `Vflow.Props.C05` / `C08` carry the obligations that the programs regenerated
from the Go source are these programs up to merging of adjacent literal writes (`normalize`).
-/
namespace Vflow.Spec
open Vflow (W Bytes)

/-! ## Key names -/
namespace Key

/-- `AgentID` -/
def AgentID : Bytes := [65, 103, 101, 110, 116, 73, 68]
/-- `Header` -/
def Header : Bytes := [72, 101, 97, 100, 101, 114]
/-- `DataSets` -/
def DataSets : Bytes := [68, 97, 116, 97, 83, 101, 116, 115]
/-- `Flows` -/
def Flows : Bytes := [70, 108, 111, 119, 115]
/-- `I` -/
def I : Bytes := [73]
/-- `V` -/
def V : Bytes := [86]
/-- `E` -/
def E : Bytes := [69]
/-- `Version` -/
def Version : Bytes := [86, 101, 114, 115, 105, 111, 110]
/-- `Length` -/
def Length : Bytes := [76, 101, 110, 103, 116, 104]
/-- `ExportTime` -/
def ExportTime : Bytes := [69, 120, 112, 111, 114, 116, 84, 105, 109, 101]
/-- `SequenceNo` -/
def SequenceNo : Bytes := [83, 101, 113, 117, 101, 110, 99, 101, 78, 111]
/-- `DomainID` -/
def DomainID : Bytes := [68, 111, 109, 97, 105, 110, 73, 68]
/-- `Count` -/
def Count : Bytes := [67, 111, 117, 110, 116]
/-- `SysUpTime` -/
def SysUpTime : Bytes := [83, 121, 115, 85, 112, 84, 105, 109, 101]
/-- `UNIXSecs` -/
def UNIXSecs : Bytes := [85, 78, 73, 88, 83, 101, 99, 115]
/-- `SeqNum` -/
def SeqNum : Bytes := [83, 101, 113, 78, 117, 109]
/-- `SrcID` -/
def SrcID : Bytes := [83, 114, 99, 73, 68]
/-- `SysUpTimeMSecs` -/
def SysUpTimeMSecs : Bytes := [83, 121, 115, 85, 112, 84, 105, 109, 101, 77, 83, 101, 99, 115]
/-- `UNIXNSecs` -/
def UNIXNSecs : Bytes := [85, 78, 73, 88, 78, 83, 101, 99, 115]
/-- `EngType` -/
def EngType : Bytes := [69, 110, 103, 84, 121, 112, 101]
/-- `EngID` -/
def EngID : Bytes := [69, 110, 103, 73, 68]
/-- `SmpInt` -/
def SmpInt : Bytes := [83, 109, 112, 73, 110, 116]
/-- `SrcAddr` -/
def SrcAddr : Bytes := [83, 114, 99, 65, 100, 100, 114]
/-- `DstAddr` -/
def DstAddr : Bytes := [68, 115, 116, 65, 100, 100, 114]
/-- `NextHop` -/
def NextHop : Bytes := [78, 101, 120, 116, 72, 111, 112]
/-- `Input` -/
def Input : Bytes := [73, 110, 112, 117, 116]
/-- `Output` -/
def Output : Bytes := [79, 117, 116, 112, 117, 116]
/-- `PktCount` -/
def PktCount : Bytes := [80, 107, 116, 67, 111, 117, 110, 116]
/-- `L3Octets` -/
def L3Octets : Bytes := [76, 51, 79, 99, 116, 101, 116, 115]
/-- `StartTime` -/
def StartTime : Bytes := [83, 116, 97, 114, 116, 84, 105, 109, 101]
/-- `EndTime` -/
def EndTime : Bytes := [69, 110, 100, 84, 105, 109, 101]
/-- `SrcPort` -/
def SrcPort : Bytes := [83, 114, 99, 80, 111, 114, 116]
/-- `DstPort` -/
def DstPort : Bytes := [68, 115, 116, 80, 111, 114, 116]
/-- `Padding1` -/
def Padding1 : Bytes := [80, 97, 100, 100, 105, 110, 103, 49]
/-- `TCPFlags` -/
def TCPFlags : Bytes := [84, 67, 80, 70, 108, 97, 103, 115]
/-- `ProtType` -/
def ProtType : Bytes := [80, 114, 111, 116, 84, 121, 112, 101]
/-- `Tos` -/
def Tos : Bytes := [84, 111, 115]
/-- `SrcAsNum` -/
def SrcAsNum : Bytes := [83, 114, 99, 65, 115, 78, 117, 109]
/-- `DstAsNum` -/
def DstAsNum : Bytes := [68, 115, 116, 65, 115, 78, 117, 109]
/-- `SrcMask` -/
def SrcMask : Bytes := [83, 114, 99, 77, 97, 115, 107]
/-- `DstMask` -/
def DstMask : Bytes := [68, 115, 116, 77, 97, 115, 107]
/-- `Padding2` -/
def Padding2 : Bytes := [80, 97, 100, 100, 105, 110, 103, 50]
end Key

/-- how a member's value is written: decimal number, or dotted-quad text of a 32-bit address -/
inductive FK where
  | num | ip
deriving DecidableEq, Repr

/-- members of the IPFIX `Header` object, in order (index = position in the decoder's read order) -/
def ipfixHeaderKeys : List (Bytes × FK) := [
  (Key.Version, .num),
  (Key.Length, .num),
  (Key.ExportTime, .num),
  (Key.SequenceNo, .num),
  (Key.DomainID, .num)]

/-- members of the NetFlow v9 `Header` object, in order -/
def v9HeaderKeys : List (Bytes × FK) := [
  (Key.Version, .num),
  (Key.Count, .num),
  (Key.SysUpTime, .num),
  (Key.UNIXSecs, .num),
  (Key.SeqNum, .num),
  (Key.SrcID, .num)]

/-- members of the NetFlow v5 `Header` object, in order -/
def v5HeaderKeys : List (Bytes × FK) := [
  (Key.Version, .num),
  (Key.Count, .num),
  (Key.SysUpTimeMSecs, .num),
  (Key.UNIXSecs, .num),
  (Key.UNIXNSecs, .num),
  (Key.SeqNum, .num),
  (Key.EngType, .num),
  (Key.EngID, .num),
  (Key.SmpInt, .num)]

/-- members of a NetFlow v5 flow object, in order: three addresses as text, the rest numbers -/
def v5FlowKeys : List (Bytes × FK) := [
  (Key.SrcAddr, .ip),
  (Key.DstAddr, .ip),
  (Key.NextHop, .ip),
  (Key.Input, .num),
  (Key.Output, .num),
  (Key.PktCount, .num),
  (Key.L3Octets, .num),
  (Key.StartTime, .num),
  (Key.EndTime, .num),
  (Key.SrcPort, .num),
  (Key.DstPort, .num),
  (Key.Padding1, .num),
  (Key.TCPFlags, .num),
  (Key.ProtType, .num),
  (Key.Tos, .num),
  (Key.SrcAsNum, .num),
  (Key.DstAsNum, .num),
  (Key.SrcMask, .num),
  (Key.DstMask, .num),
  (Key.Padding2, .num)]

/-! ## Write programs -/

/-- `[,]"key":<number i>`  or  `[,]"key":"<address i>"` -/
def memberProg (first : Bool) (k : Bytes) (fk : FK) (i : Nat) : List W :=
  match fk with
  | .num => [.lit ((if first then [] else [44]) ++ (34 :: k ++ [34, 58])), .num i]
  | .ip => [.lit ((if first then [] else [44]) ++ (34 :: k ++ [34, 58])), .lit [34], .ip i, .lit [34]]

/-- the members of an object, comma-separated; the i-th member shows the i-th field of the structure -/
def membersProg : List (Bytes × FK) → Nat → Bool → List W
  | [], _, _ => []
  | (k, fk) :: ks, i, first => memberProg first k fk i ++ membersProg ks (i + 1) false

/-- `"AgentID":"<agent>",` -/
def agentProg : List W := [.lit (34 :: Key.AgentID ++ [34, 58]), .lit [34], .agent, .lit [34], .lit [44]]

/-- `"Header":{<members>},` -/
def headerProg (keys : List (Bytes × FK)) : List W :=
  [.lit (34 :: Key.Header ++ [34, 58]), .lit [123]] ++ membersProg keys 0 true ++ [.lit [125], .lit [44]]

def ipfixAgentProg : List W := agentProg
def ipfixHeaderProg : List W := headerProg ipfixHeaderKeys
def v9AgentProg : List W := agentProg
def v9HeaderProg : List W := headerProg v9HeaderKeys
def v5AgentProg : List W := agentProg
def v5HeaderProg : List W := headerProg v5HeaderKeys
/-- the inside of a flow object (`encodeFlows` writes the braces) -/
def v5FlowProg : List W := membersProg v5FlowKeys 0 true

/-- merge adjacent literal writes (how the fixed text is split over `WriteString` calls is immaterial) -/
def normalize : List W → List W
  | [] => []
  | .lit a :: ws =>
    match normalize ws with
    | .lit b :: r => .lit (a ++ b) :: r
    | r => .lit a :: r
  | w :: ws => w :: normalize ws

end Vflow.Spec
