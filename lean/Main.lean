import Driver.Reader
import Driver.Producer
open Driver

def handle (line : String) : String :=
  match line.trimAscii.toString.splitOn " " with
  | ["reader", buf, ops] => readerLine buf ops
  | ["reader", buf] => readerLine buf ""
  | ["producer", proto, rm, seed, n, events] => producerLine proto rm seed n events
  | _ => "bad-op"

partial def loop (h : IO.FS.Stream) (out : IO.FS.Stream) : IO Unit := do
  let line ← h.getLine
  if line.isEmpty then return ()
  out.putStrLn (handle line)
  loop h out

def main : IO Unit := do
  loop (← IO.getStdin) (← IO.getStdout)
