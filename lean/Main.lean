import Driver.Reader
import Driver.Pipeline
open Driver

def handle (line : String) : String :=
  match line.trimAscii.toString.splitOn " " with
  | ["reader", buf, ops] => readerLine buf ops
  | ["reader", buf] => readerLine buf ""
  | ["pipeline", proto, workers, _setup, data] => pipelineLine proto workers data
  | _ => "bad-op"

partial def loop (h : IO.FS.Stream) (out : IO.FS.Stream) : IO Unit := do
  let line ← h.getLine
  if line.isEmpty then return ()
  out.putStrLn (handle line)
  loop h out

def main : IO Unit := do
  loop (← IO.getStdin) (← IO.getStdout)
