import Driver.Reader
import Driver.Flow
import Driver.InfoModel
import Driver.V5
import Driver.Json
import Driver.CacheFile
import Driver.Sflow
import Driver.Mirror
import Driver.Options
import Driver.Pipeline
import Driver.Producer
import Driver.Locks
import Driver.JsonValid
open Driver Vflow

/-- driver state: one model template cache per protocol, reset by `new` -/
structure DState where
  ipfix : Cache := []
  nf9 : Cache := []

def unhexArg (s : String) : Bytes := if s = "-" then [] else unhex s

def handle (st : DState) (line : String) : DState × String :=
  match line.trimAscii.toString.splitOn " " with
  | ["new"] => ({}, "new")
  | ["reader", buf, ops] => (st, readerLine buf ops)
  | ["reader", buf] => (st, readerLine buf "")
  | ["ipfix", a, d] =>
    let (res, c') := Ipfix.decode st.ipfix (unhexArg a) (unhexArg d)
    ({ st with ipfix := c' }, showResult res)
  | ["nf9", a, d] =>
    let (res, c') := V9.decode st.nf9 (unhexArg a) (unhexArg d)
    ({ st with nf9 := c' }, showResult res)
  | ["interp", t, b] => (st, (interpret (unhexArg b) t.toNat!).canon)
  | ["nf5", a, d] => (st, nf5Line (unhexArg a) (unhexArg d))
  | ["json", p, a, h, r] => (st, jsonLine p a h r)
  | ["cf-dump", p] => (st, hex (CacheFile.dumpJson (p == "ipfix") (if p == "ipfix" then st.ipfix else st.nf9)))
  | ["cf-list", p] => (st, listCache (if p == "ipfix" then st.ipfix else st.nf9))
  | ["cf-load", p, doc] =>
    match parseDoc doc with
    | none => (st, "bad-op")
    | some d =>
      let c := CacheFile.loadDoc d
      (if p == "ipfix" then { st with ipfix := c } else { st with nf9 := c }, "loaded " ++ listCache c)
  | ["jsonvalid", cat, h] => (st, jsonValidLine cat h)
  | ["elem", p, i] => (st, elemLine p i)
  | ["sflow", f, d] => (st, sflowLine f d)
  | ["dissect", p, h] => (st, dissectLine p h)
  | ["pipeline", proto, workers, _setup, data] => (st, pipelineLine proto workers data)
  | ["cachestress", seed, g, overlap, _, _] => (st, locksLine false seed g overlap)
  | ["cachestress9", seed, g, overlap, _, _] => (st, locksLine true seed g overlap)
  | ["producerk", mode, buf, seed, n, script] => (st, producerkLine mode buf seed n script)
  | ["producerx", rm, n, w, d] => (st, producerxLine rm n w d)
  | ["producer", proto, rm, seed, n, events] => (st, producerLine proto rm seed n events)
  | ["options", env, file, args] => (st, optionsLine env file args)
  | ["mirror", proto, src, dst, port, max, payload] => (st, mirrorLine proto src dst port max payload)
  | ["mirrorseq", proto, dst, port, max, mtu, mode, items] => (st, mirrorSeqLine proto dst port max mtu mode items)
  | ["restart", _] => (st, "restarted")   -- Dump + GetCache: every lookup answers as before (C11.load_save_lookup)
  | _ => (st, "bad-op")

partial def loop (h : IO.FS.Stream) (out : IO.FS.Stream) (st : DState) : IO Unit := do
  let line ← h.getLine
  if line.isEmpty then return ()
  let (st', o) := handle st line
  out.putStrLn o
  loop h out st'

def main : IO Unit := do
  loop (← IO.getStdin) (← IO.getStdout) {}
