import Driver.Reader
import Driver.Producer
import Driver.Locks
open Driver

def handle (line : String) : String :=
  match line.trimAscii.toString.splitOn " " with
  | ["reader", buf, ops] => readerLine buf ops
  | ["reader", buf] => readerLine buf ""
  | ["cachestress", seed, g, overlap, _, _] => locksLine false seed g overlap
  | ["cachestress9", seed, g, overlap, _, _] => locksLine true seed g overlap
  | ["producerx", rm, n, w, d] => producerxLine rm n w d
  | ["producer", proto, rm, seed, n, events] => producerLine proto rm seed n events
  | _ => "bad-op"

partial def loop (h : IO.FS.Stream) (out : IO.FS.Stream) : IO Unit := do
  let line ← h.getLine
  if line.isEmpty then return ()
  out.putStrLn (handle line)
  loop h out

def main : IO Unit := do
  loop (← IO.getStdin) (← IO.getStdout)
