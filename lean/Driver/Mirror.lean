import Vflow.Model.Mirror
/-! line protocol: `mirror <ipfix|sflow> <src-hex> <dst dotted quad> <port> <max> <payload-hex|->`
output: `<hex of the octets handed to Send> <hex of the 28 header octets>` or `panic` / `v6` -/
namespace Driver
open Vflow Vflow.Mirror

/-- `net.ParseIP` of a dotted quad: the 16-octet IPv4-mapped form -/
def parseQuad (s : String) : Option Bytes :=
  match (s.splitOn ".").mapM (fun p => p.toNat?) with
  | some [a, b, c, d] =>
    if a < 256 ∧ b < 256 ∧ c < 256 ∧ d < 256 then
      some (List.replicate 10 0 ++ [0xff, 0xff, UInt8.ofNat a, UInt8.ofNat b, UInt8.ofNat c, UInt8.ofNat d])
    else none
  | _ => none

def mirrorLine (proto src dst port max payload : String) : String :=
  let sport? : Option Nat := if proto = "ipfix" then some ipfixSrcPort else if proto = "sflow" then some sflowSrcPort else none
  match sport?, parseQuad dst, port.toNat?, max.toInt? with
  | some sport, some d, some p, some m =>
    let pl := if payload = "-" then [] else unhex payload
    match assembleFrom sport m (unhex src) d p pl with
    | .ok pkt => hex pkt ++ " " ++ hex (pkt.take 28)
    | .panic _ => "panic"
    | .v6 => "v6"
  | _, _, _, _ => "bad-op"

end Driver
