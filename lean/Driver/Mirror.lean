import Vflow.Model.Mirror
/-! line protocol: `mirror <ipfix|sflow> <src-hex> <dst dotted quad> <port> <max> <payload-hex|->`
output: `<hex of the octets handed to Send> <hex of the 28 header octets>` or `panic` / `v6`;
the datagram is the second one of a worker's life (after the hook's primer).

`mirrorseq <ipfix|sflow> <dst dotted quad | ::1> <port> <max> <mtu> <w|d<k>> <items>`: a stream of datagrams
through one worker (`w`) or through the dispatcher with `k` workers (`d<k>`) on a path of the given MTU;
items are `<count>x<src-hex>:<len>:<seed>` joined by `,`, the payload of the r-th repetition of an item is
octet j = (seed + r + j) mod 256.  Output: `n=<packets that left>` followed by their hex, in input order. -/
namespace Driver
open Vflow Vflow.Mirror

/-- `net.ParseIP` of a dotted quad: the 16-octet IPv4-mapped form -/
def parseQuad (s : String) : Option Bytes :=
  match (s.splitOn ".").mapM (fun p => p.toNat?) with
  | some [a, b, c, d] =>
    if a < 256 ∧ b < 256 ∧ c < 256 ∧ d < 256 then
      some (List.replicate 10 0 ++ [0xff, 0xff, UInt8.ofNat a, UInt8.ofNat b, UInt8.ofNat c, UInt8.ofNat d])
    else none
  | _ => none

def mirrorLine (proto src dst port max payload : String) : String :=
  let sport? : Option Nat := if proto = "ipfix" then some ipfixSrcPort else if proto = "sflow" then some sflowSrcPort else none
  match sport?, parseQuad dst, port.toNat?, max.toInt? with
  | some sport, some d, some p, some m =>
    let pl := if payload = "-" then [] else unhex payload
    -- the hook sends a primer through the same worker first (source ::ffff:10.9.8.7, max-28 octets of 0xaa)
    let primer : Bytes × Bytes := (mapped [10, 9, 8, 7], List.replicate (m - 28).toNat 0xaa)
    match mirrorSeq (linkSend 65536) sport m d p [primer, (unhex src, pl)] with
    | .ok [_, pkt] => hex pkt ++ " " ++ hex (pkt.take 28)
    | .ok _ => "bad-op"
    | .panic _ => "panic"
    | .v6 => "v6"
  | _, _, _, _ => "bad-op"

/-- `net.ParseIP` of the target of a `mirrorseq` line -/
def parseDst (s : String) : Option Bytes :=
  if s = "::1" then some (List.replicate 15 0 ++ [1]) else parseQuad s

/-- `<count>x<src-hex>:<len>:<seed>` expanded -/
def seqItem (s : String) : Option (List (Bytes × Bytes)) :=
  match s.splitOn "x" with
  | [c, r] =>
    match c.toNat?, r.splitOn ":" with
    | some cnt, [src, len, seed] =>
      match len.toNat?, seed.toNat? with
      | some l, some sd =>
        some ((List.range cnt).map (fun k => (unhex src, (List.range l).map (fun j => UInt8.ofNat (sd + k + j)))))
      | _, _ => none
    | _, _ => none
  | _ => none

def seqItems (s : String) : Option (List (Bytes × Bytes)) :=
  ((s.splitOn ",").mapM seqItem).map List.flatten

def mirrorSeqLine (proto dst port max mtu mode items : String) : String :=
  let sport? : Option Nat := if proto = "ipfix" then some ipfixSrcPort else if proto = "sflow" then some sflowSrcPort else none
  let workers? : Option (Option Nat) :=
    if mode = "w" then some none
    else if mode.startsWith "d" then (mode.drop 1).toNat?.map some else none
  match sport?, parseDst dst, port.toNat?, max.toInt?, mtu.toNat?, workers?, seqItems items with
  | some sport, some d, some p, some m, some mt, some wk, some msgs =>
    let r := match wk with
      | none => mirrorSeq (linkSend mt) sport m d p msgs
      | some k => mirrorAll (linkSend mt) sport m d p k msgs
    match r with
    | .ok pkts => pkts.foldl (fun acc b => acc ++ " " ++ hex b) ("n=" ++ toString pkts.length)
    | .panic _ => "panic"
    | .v6 => "v6"
  | _, _, _, _, _, _, _ => "bad-op"

end Driver
