import Vflow.Model.Mirror
/-! line protocol: `mirror <ipfix|sflow> <src-hex> <dst dotted quad> <port> <max> <payload-hex|->`
output: `<hex of the octets handed to Send> <hex of the 28 header octets>` or `panic` / `v6`;
the datagram is the second one of a worker's life (after the hook's primer) -/
namespace Driver
open Vflow Vflow.Mirror

/-- `net.ParseIP` of a dotted quad: the 16-octet IPv4-mapped form -/
def parseQuad (s : String) : Option Bytes :=
  match (s.splitOn ".").mapM (fun p => p.toNat?) with
  | some [a, b, c, d] =>
    if a < 256 ∧ b < 256 ∧ c < 256 ∧ d < 256 then
      some (List.replicate 10 0 ++ [0xff, 0xff, UInt8.ofNat a, UInt8.ofNat b, UInt8.ofNat c, UInt8.ofNat d])
    else none
  | _ => none

def mirrorLine (proto src dst port max payload : String) : String :=
  let sport? : Option Nat := if proto = "ipfix" then some ipfixSrcPort else if proto = "sflow" then some sflowSrcPort else none
  match sport?, parseQuad dst, port.toNat?, max.toInt? with
  | some sport, some d, some p, some m =>
    let pl := if payload = "-" then [] else unhex payload
    -- the hook sends a primer through the same worker first (source ::ffff:10.9.8.7, max-28 octets of 0xaa)
    let primer : Bytes × Bytes := (mapped [10, 9, 8, 7], List.replicate (m - 28).toNat 0xaa)
    match mirrorSeq sport m d p [primer, (unhex src, pl)] with
    | .ok [_, pkt] => hex pkt ++ " " ++ hex (pkt.take 28)
    | .ok _ => "bad-op"
    | .panic _ => "panic"
    | .v6 => "v6"
  | _, _, _, _ => "bad-op"

end Driver
