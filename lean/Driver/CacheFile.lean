import Vflow.Model.CacheFile
/-! line protocol for the cache file:
`cf-dump <ipfix|nf9>`, `cf-load <ipfix|nf9> <doc|invalid>`, `cf-list <ipfix|nf9>`;
doc = `sn=<int>;<shard>,<shard>,…`, shard = `N` | `M` | `E` | `key=tpl|key=tpl|…` (key = hex of the key text, `-` for the
empty text); a listing is `shard:key=tpl|…` over all shards, by shard index and then by key text,
tpl = `tid.cnt.scnt.<fields>.<scope>`, fields = `id:len:ent/id:len:ent/…` or `-` -/
namespace Driver
open Vflow Vflow.CacheFile

def showSpecs (l : List Spec) : String :=
  if l.isEmpty then "-" else "/".intercalate (l.map fun s => s!"{s.id}:{s.len}:{s.ent}")

def showTpl (t : Template) : String := s!"{t.tid}.{t.cnt}.{t.scnt}.{showSpecs t.fields}.{showSpecs t.scope}"

def keyLt (a b : CKey) : Bool := a.1 < b.1 || (a.1 == b.1 && bytesLt a.2 b.2)

def insertByKey (e : CKey × Template) : List (CKey × Template) → List (CKey × Template)
  | [] => [e]
  | x :: xs => if keyLt e.1 x.1 then e :: x :: xs else x :: insertByKey e xs

def showKeyText (k : Bytes) : String := if k.isEmpty then "-" else hex k

def listCache (c : Cache) : String :=
  if c.isEmpty then "-" else
  "|".intercalate ((c.foldr insertByKey []).map fun e => s!"{e.1.1}:{showKeyText e.1.2}={showTpl e.2}")

def parseSpecs (s : String) : Option (List Spec) :=
  if s = "-" then some [] else
  (s.splitOn "/").mapM fun x =>
    match (x.splitOn ":").mapM String.toNat? with
    | some [i, l, e] => some ⟨i, l, e⟩
    | _ => none

def parseTpl (s : String) : Option Template :=
  match s.splitOn "." with
  | [tid, cnt, scnt, fs, ss] =>
    match tid.toNat?, cnt.toNat?, scnt.toNat?, parseSpecs fs, parseSpecs ss with
    | some a, some b, some c, some f, some sc => some ⟨a, b, c, sc, f⟩
    | _, _, _, _, _ => none
  | _ => none

def parseShard (s : String) : Option DocShard :=
  if s = "N" then some none else
  if s = "M" then some (some none) else
  if s = "E" then some (some (some [])) else
  ((s.splitOn "|").mapM fun (e : String) =>
    match e.splitOn "=" with
    | [k, t] => match parseTpl t with
      | some t => some (if k = "-" then [] else unhex k, t)
      | none => none
    | _ => none).map fun l => some (some l)

def parseDoc (s : String) : Option (Option Doc) :=
  if s = "invalid" then some none else
  match s.splitOn ";" with
  | [sn, shards] =>
    match (sn.drop 3).toString.toInt? with
    | none => none
    | some n =>
      let ss := if shards = "" then some [] else (shards.splitOn ",").mapM parseShard
      ss.map fun l => some ⟨n, l⟩
  | _ => none

end Driver
