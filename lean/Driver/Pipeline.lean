import Vflow.Model.Pipeline
import Vflow.Gen.WorkerIR
/-!
line protocol: `pipeline <proto> <workers> <setup|-> <tok;tok;…>`, token = `<class>,<srcaddr-hex>,<datagram-hex>`.

The decoders are modelled elsewhere; here the datagram's abstract outcome class (computed by the
generator with the real solo decode, cross-checked by the hook) instantiates the `Codec` parameter:
`x` no message, `t` message without data, `m` data but marshal error, `d` data and marshals.
The driver runs the executable pipeline semantics (`Pipeline.step`) with the worker program that
`factgen` extracted for `<proto>` under a deterministic round-robin schedule and prints the counters.
-/
namespace Driver
open Vflow Vflow.Pipeline

/-- message = (has data, marshals) -/
def classCodec : Codec where
  Cache := Unit
  Msg := Bool × Bool × Bytes
  decode := fun _ _ bs =>
    (match bs with
     | 120 :: _ => none                       -- 'x'
     | 116 :: r => some (false, true, r)      -- 't'
     | 109 :: r => some (true, false, r)      -- 'm'
     | 100 :: r => some (true, true, r)       -- 'd'
     | _ => none, ())
  hasData := fun m => m.1
  marshal := fun m => if m.2.1 then some m.2.2 else none

def progOf : String → Option Prog
  | "ipfix" => some Gen.ipfixWorker
  | "v9" => some Gen.netflowV9Worker
  | "v5" => some Gen.netflowV5Worker
  | "sflow" => some Gen.sFlowWorker
  | _ => none

abbrev St := State classCodec

def tryStep (cfg : Cfg) (s : St) (a : Action) : St := (step cfg s a).getD s

def feedOne (cfg : Cfg) (s : St) (addr bytes : Bytes) : St :=
  let s := tryStep cfg s (match s.pool with | b :: _ => .rxGetPool b | [] => .rxGetNew)
  let s := tryStep cfg s (.rxRead (some (addr, bytes)))
  let s := tryStep cfg s .rxCount
  tryStep cfg s .rxEnqueue

def stepsOf (cfg : Cfg) (i : Nat) : Nat → St → St
  | 0, s => s
  | k+1, s => stepsOf cfg i k (tryStep cfg s (.work i false none))

/-- every worker, starting with worker `start`, takes `k` steps -/
def round (cfg : Cfg) (n start k : Nat) (s : St) : St :=
  (List.range n).foldl (fun s j => stepsOf cfg ((start + j) % n) k s) s

def drainMQ (cfg : Cfg) : Nat → St → St
  | 0, s => s
  | f+1, s => match s.mq with
      | [] => s
      | _ => drainMQ cfg f (tryStep cfg s .mqConsume)

def runCase (prog : Prog) (n : Nat) (classes : List UInt8) : St :=
  let cfg : Cfg := { prog := prog }
  let s0 : St := init classCodec () (fun _ => [])
  let s1 := (List.range n).foldl (fun s _ => tryStep cfg s (.spawn none)) s0
  let (s2, _) := classes.foldl (fun (acc : St × Nat) c =>
      let (s, idx) := acc
      let s := feedOne cfg s [127, 0, 0, 1] [c, UInt8.ofNat (idx % 256), UInt8.ofNat (idx / 256 % 256)]
      let s := round cfg n idx 5 s
      let s := round cfg n (idx + 1) 5 s
      let s := round cfg n (idx + 2) 7 s
      (drainMQ cfg 64 s, idx + 1)) (s1, 0)
  let s3 := round cfg n 0 20 (round cfg n 0 20 s2)
  drainMQ cfg 2000 s3

def classOfTok (t : String) : UInt8 :=
  match t.toUTF8.toList with
  | c :: _ => c
  | [] => 0

def pipelineLine (proto workers data : String) : String :=
  match progOf proto, workers.toNat? with
  | some prog, some n =>
      let classes := (data.splitOn ";").map classOfTok
      let s := runCase prog n classes
      let pubs := s.log.foldl (fun k e => match e with | .published _ _ => k + 1 | _ => k) 0
      s!"udp={s.udpCount} decoded={s.decCount} published={pubs}"
  | _, _ => "bad-op"

end Driver
