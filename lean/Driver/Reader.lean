import Vflow.Model.Reader
/-! line protocol: `reader <bufhex|-> <op;op;…>` -/
namespace Driver
open Vflow

def parseROp (s : String) : Option ROp :=
  match s.splitOn ":" with
  | ["u8"] => some .u8 | ["u16"] => some .u16 | ["u32"] => some .u32 | ["u64"] => some .u64
  | ["pk16"] => some .peekU16 | ["len"] => some .len | ["cnt"] => some .readCount
  | ["r", n] => n.toInt?.map .read
  | ["p", n] => n.toInt?.map .peek
  | _ => none

def showROut : ROut → String
  | .fail => "F"
  | .bytes b => "B" ++ hex b
  | .num n => "N" ++ toString n

def readerLine (buf ops : String) : String :=
  let b := if buf = "-" then [] else unhex buf
  let ops := (ops.splitOn ";").filter (· ≠ "")
  match ops.mapM parseROp with
  | none => "bad-op"
  | some os => ";".intercalate ((Rd.outs ⟨b, 0⟩ os).map showROut)

end Driver
