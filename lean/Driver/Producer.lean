import Vflow.Model.Producer
import Vflow.Model.SaramaLoop
import Vflow.Gen.ProducerFacts
/-! line protocol: `producer <proto> <retry-max> <seed> <n> <events|->` (see `producer/verif_rawsocket_test.go`).

For scripts whose outcome is fixed by the script itself (unix sockets: a write to a connection the
peer has closed fails with EPIPE at once, a connect to a removed socket fails at once; any protocol
with no fault) the driver derives the outcome script the producer will experience from a three-bit
model of the sink (current connection broken? listener up? stalled, about to kill a write half-way?), runs the proved model
`Vflow.Producer.run` on it and prints what the sink must have received and the error counter.
Faults on tcp/udp depend on kernel timing: `nd`.

`z<k>` (stream sockets): the sink stays connected but does not read for some seconds while message `k`, larger than
the socket buffers, is being written, then reads everything. That is no fault: the producer's write blocks and then
returns nil, so in the outcome script the write is `ok` like any other — the event leaves the sink model untouched and
what the model prints is what it prints for the script without the event. A script made of `z` events only is
therefore fixed by the script itself on tcp as well (no fault, nothing for kernel timing to decide). -/
namespace Driver
open Vflow Vflow.Producer

structure SinkEnv where
  broken : Bool := false
  up : Bool := true
  /-- `s<k>`: the sink is stalled and will kill the first write of this message that reaches a live
      connection, while the producer is blocked in the middle of it -/
  stallPending : Bool := false

/-- outcomes of the writes and redials one message will experience on a unix socket: a write on a
    dead connection fails with EPIPE at once; a write killed in the middle (`stallPending`) fails
    with EPIPE after part of the line went out — for the loop the same failed write -/
def envAttempts : Nat → SinkEnv → List WOut × List DOut × SinkEnv
  | left, e =>
    if e.broken || e.stallPending then
      let e0 : SinkEnv := if e.broken then e else { e with stallPending := false }
      let de : DOut × SinkEnv :=
        if e0.up then (.ok, { e0 with broken := false }) else (.fail, { e0 with broken := true })
      match left with
      | 0 => ([.errPipe], [de.1], de.2)
      | l+1 =>
        let r := envAttempts l de.2
        (.errPipe :: r.1, de.1 :: r.2.1, r.2.2)
    else ([.ok], [], e)

def applyEvent (e : SinkEnv) (kind : Char) : SinkEnv :=
  match kind with
  | 'c' => { e with broken := true }
  | 'r' => { e with broken := true }
  | 's' => { e with stallPending := true }
  | 'd' => { e with broken := true, up := false }
  | 'u' => { e with up := true }
  | 'z' => e   -- a silent but connected sink: the write blocks, then succeeds — not an outcome of its own
  | _ => e

def envScript (rm : Nat) (events : List (Char × Nat)) : Nat → Nat → SinkEnv → List WOut × List DOut
  | 0, _, _ => ([], [])
  | n+1, k, e =>
    let e1 := (events.filter (·.2 == k)).foldl (fun a ev => applyEvent a ev.1) e
    let r := envAttempts rm e1
    -- the stall ends with the message (the sink reads again whether or not it killed a write)
    let rest := envScript rm events n (k + 1) { r.2.2 with stallPending := false }
    (r.1 ++ rest.1, r.2.1 ++ rest.2)

def parseEvents (s : String) : Option (List (Char × Nat)) :=
  if s = "-" then some [] else
  (s.splitOn ",").mapM fun f =>
    match f.toList with
    | c :: ds => (String.ofList ds).toNat?.map (fun k => (c, k))
    | [] => none

/-- maximal runs of consecutive indices per connection: `c0[0-2] c1[4-9]` -/
def showRuns (cs : List Chunk) : String :=
  let rec go (cur : Option (Nat × Nat × Nat)) (acc : List String) : List Chunk → List String
    | [] => match cur with
      | none => acc.reverse
      | some (c, a, b) => (s!"c{c}[{a}-{b}]" :: acc).reverse
    | x :: xs =>
      match cur with
      | none => go (some (x.conn, x.idx, x.idx)) acc xs
      | some (c, a, b) =>
        if x.conn = c ∧ x.idx = b + 1 then go (some (c, a, x.idx)) acc xs
        else go (some (x.conn, x.idx, x.idx)) (s!"c{c}[{a}-{b}]" :: acc) xs
  match go none [] cs with
  | [] => "none"
  | l => " ".intercalate l

def producerLine (proto rm _seed n events : String) : String :=
  match rm.toNat?, n.toNat?, parseEvents events with
  | some rm, some n, some evs =>
    if proto = "udp" ∧ evs.any (·.1 == 'z') then "bad-op" else   -- a datagram socket cannot be stalled
    if proto ≠ "unix" ∧ evs.any (·.1 != 'z') then "nd" else
    let sc := envScript rm evs n 0 {}
    let r := run (scriptW sc.1) (scriptD sc.2) rm (List.replicate n [])
    s!"ec={r.ec} recv={showRuns r.delivered}"
  | _, _, _ => "bad-op"

/-- `producerx <retry-max> <n> <writes> <dials>`: the outcome script the real producer experienced
    (`o` delivered, `l` lost, `p` broken pipe, `x` other error; `k` dial ok, `f` dial failed), as
    reconstructed by the hook from the producer's log and the sink — the model's prediction of the
    error counter and of what arrived on which connection -/
def producerxLine (rm n w d : String) : String :=
  let ws : List WOut := (if w = "-" then [] else w.toList).map fun c =>
    match c with | 'o' => .ok | 'l' => .lost | 'p' => .errPipe | _ => .errOther
  let ds : List DOut := (if d = "-" then [] else d.toList).map fun c =>
    match c with | 'k' => .ok | _ => .fail
  match rm.toNat?, n.toNat? with
  | some rm, some n =>
    let r := run (scriptW ws) (scriptD ds) rm (List.replicate n [])
    s!"ec={r.ec} recv={showRuns r.delivered}"
  | _, _ => "bad-op"

/-- indices as runs: `0-3,5,7-9` (`none` when empty) -/
def showIdxRuns (xs : List Nat) : String :=
  let rec go (cur : Option (Nat × Nat)) (acc : List String) : List Nat → List String
    | [] => match cur with
      | none => acc.reverse
      | some (a, b) => ((if a = b then s!"{a}" else s!"{a}-{b}") :: acc).reverse
    | x :: xs =>
      match cur with
      | none => go (some (x, x)) acc xs
      | some (a, b) =>
        if x = b + 1 then go (some (a, x)) acc xs
        else go (some (x, x)) ((if a = b then s!"{a}" else s!"{a}-{b}") :: acc) xs
  match go none [] xs with
  | [] => "none"
  | l => ",".intercalate l

/-- `producerk <mode> <buf> <seed> <n> <script>` (see `producer/verif_sarama_test.go`): the send loop
    of `KafkaSarama.inputMsg` **as regenerated from the current source** (`Gen.saramaLoop`) run on `n`
    messages against the arm script the library will present.

    `arms`: the script is the arm sequence itself (`i` / `e`), after it the library accepts.
    `mock` with unbuffered channels (`buf` = 0): sarama's mock accepts an input, and when its
    expectation says `f` it then offers the error report and accepts nothing until the report has
    been taken: `s` ↦ `i`, `f` ↦ `i e`. With buffered channels both arms can be ready: `nd`. -/
def producerkLine (mode buf _seed n script : String) : String :=
  match buf.toNat?, n.toNat? with
  | some b, some n =>
    let cs := if script = "-" then [] else script.toList
    let arms? : Option (List Arm) :=
      if mode = "arms" then
        cs.mapM fun c => if c = 'i' then some Arm.input else if c = 'e' then some Arm.error else none
      else if mode = "mock" then
        (cs.mapM fun c => if c = 's' then some [Arm.input] else if c = 'f' then some [Arm.input, Arm.error] else none).map List.flatten
      else none
    match arms? with
    | none => "bad-op"
    | some arms =>
      if mode = "mock" ∧ b ≠ 0 then "nd" else
      let r := runK Vflow.Gen.saramaLoop (arms ++ List.replicate n Arm.input) (List.range n)
      if r.stuck then "stuck" else
      s!"off={showIdxRuns r.offered} ec={r.ec} rep={r.logged}"
  | _, _ => "bad-op"

end Driver
