import Vflow.Model.Options
import Vflow.Gen.OptionsTbl
/-! line protocol: `options <env> <file> <args>`
* env:  `-` or `NAME=<hex>,…` (environment variables, value hex, may be empty)
* file: `-` (no file) or `F:` followed by `yamlkey:i:<decimal>` / `yamlkey:b:true|false` / `yamlkey:s:<hex>`, comma separated
* args: `-` or comma separated hex tokens of `os.Args[1:]`; the token `@` stands for the path of the file,
  `<hex>@` for the text followed by the path of the file (`-config=<path>`), `.` for an empty token
output: `ok Field=i:<n>;Field=b:<bool>;Field=s:<hex>;…` (table order) | `exit <code>` | `panic` -/
namespace Driver
open Vflow Vflow.Options

def asciiStr (b : Bytes) : String := String.ofList (b.map (fun x => Char.ofNat x.toNat))

def hexOrEmpty (s : String) : String := asciiStr (unhex s)

def parseEnv (s : String) : List (String × String) :=
  if s = "-" then [] else
  (s.splitOn ",").filterMap (fun kv => match kv.splitOn "=" with
    | [k, v] => some (k, hexOrEmpty v)
    | _ => none)

def parseFileVal (k v : String) : Option Val :=
  if k = "i" then v.toInt?.map .int
  else if k = "b" then (if v = "true" then some (.bool true) else if v = "false" then some (.bool false) else none)
  else if k = "s" then some (.str (hexOrEmpty v))
  else none

def parseFile (s : String) : Option (List (String × Val)) :=
  if s = "-" then none else
  some (((s.drop 2).toString.splitOn ",").filterMap (fun e => match e.splitOn ":" with
    | [key, k, v] => (parseFileVal k v).map (fun x => (key, x))
    | _ => none))

def cfgToken : String := "@CFG"

def parseArgsLine (s : String) : List String :=
  if s = "-" then [] else (s.splitOn ",").map (fun t =>
    if t = "@" then cfgToken else if t = "." then ""
    else if t.endsWith "@" then hexOrEmpty (String.ofList t.toList.dropLast) ++ cfgToken
    else hexOrEmpty t)

def lookupLast {α : Type} (l : List (String × α)) (k : String) : Option α :=
  (l.reverse.find? (fun p => p.1 = k)).map (·.2)

def showVal : Val → String
  | .int n => "i:" ++ toString n
  | .bool b => "b:" ++ (if b then "true" else "false")
  | .str s => "s:" ++ hex s.toUTF8.toList

/-- the rows whose effective value is printed: every int/string/bool setting that has a yaml key or a flag -/
def shownRows (tbl : List Row) : List Row := tbl.filter (fun r => r.yaml ≠ "" ∨ r.flag ≠ "")

def optionsLine (env file args : String) : String :=
  let e := parseEnv env
  let f := parseFile file
  let inp : Inputs := {
    env := fun n => (lookupLast e n).getD ""
    readFile := fun p => if p = cfgToken then f.map (fun l k => lookupLast l k) else none
    arg0 := "vflow"
    args := parseArgsLine args }
  match run Gen.OptionsTbl.rows Gen.OptionsTbl.stages inp with
  | .ok s => "ok " ++ ";".intercalate ((shownRows Gen.OptionsTbl.rows).map (fun r => r.field ++ "=" ++ showVal (s r.field)))
  | .exit c => "exit " ++ toString c
  | .panic => "panic"

end Driver
