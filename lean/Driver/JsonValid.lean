import Vflow.Spec.JsonText
/-! line protocol: `jsonvalid <category> <hex|->` → `<category>:valid` / `<category>:invalid`
(the category is echoed so that the harness' output statistics show the input distribution) -/
namespace Driver
open Vflow

def jsonValidLine (cat h : String) : String :=
  cat ++ ":" ++ (if Spec.jsonValid (if h = "-" then [] else unhex h) then "valid" else "invalid")

end Driver
