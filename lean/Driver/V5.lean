import Vflow.Model.V5
/-! line protocol: `nf5 <addrhex> <datagramhex>` -/
namespace Driver
open Vflow

def joinNat (l : List Nat) : String := " ".intercalate (l.map toString)

def nf5Line (addr dg : Bytes) : String :=
  match V5.decode dg with
  | .error e => "nil " ++ e.name
  | .ok m =>
    "msg " ++ joinNat m.hdr ++ " err=-" ++
    " flows=" ++ "".intercalate (m.flows.map fun f => "[" ++ joinNat f ++ "]") ++
    " json=" ++ (let j := V5.marshal (ipBytes addr) m; if j.isEmpty then "-" else hex j)

end Driver
